/-
C10 — each record type's RDATA layout and type code follow its RFC.

The reference is Spec/RdataSchemas.lean: for each of the 38 types with a fixed
field sequence, the RFC's field list (names as in the RFC text) under its IANA
number, and a reference encoder (`Spec.encode`: integers most significant octet
first, <character-string>s with one length octet, uncompressed <domain-name>s,
trailing opaque data, (key, length, value) triples); IPSECKEY (RFC 4025) has
its own reference encoder. The model side is the table `schemaOf` driving the
generic reader / writer `decAll` / `encAll` (Model/RData.lean).
-/
import SimpleDnsModel.Lemmas.Rfc
namespace Dns

/-! ### 1. the model's table is the RFC table -/

/-- a field kind of the model reads/writes what the RFC field kind describes -/
def kindMatches : FKind → Spec.SKind → Bool
  | .int w, .uint w' => w == w'
  | .int w, .int32 => w == 4
  | .charstr, .characterString => true
  | .name _, .domainName => true
  | .rest, .opaqueRest => true
  | .strs, .characterStrings => true
  | .tlvs kw lw s, .triples kw' lw' s' => kw == kw' && lw == lw' && s == s'
  | _, _ => false

/-- a model field value as a value of the reference encoder -/
def Val.toSpec : Val → Spec.SVal
  | .int n => .num n
  | .bytes b => .octets b
  | .name n => .labels n
  | .strs ss => .strings ss
  | .tlvs xs => .triples xs

/-- the schema row of `l.code` has the RFC's fields, in the RFC's order, kind by kind -/
def rowMatches (l : Spec.Layout) : Bool :=
  match schemaOf l.code with
  | some ks =>
    ks.length == l.fields.length &&
      (List.zip ks (l.fields.map (·.2))).all (fun p => kindMatches p.1 p.2)
  | none => false

theorem rows_match : ∀ l ∈ Spec.layouts, rowMatches l = true := by decide

/-- Every RFC layout (38 rows) has a row in the model's table under the same type number, with
the same number of fields and matching kinds in the same order. -/
theorem schema_matches_rfc : ∀ l ∈ Spec.layouts, ∃ ks, schemaOf l.code = some ks ∧
    ks.length = l.fields.length ∧
    (List.zip ks (l.fields.map (·.2))).all (fun p => kindMatches p.1 p.2) = true := by
  intro l hl
  have h := rows_match l hl
  unfold rowMatches at h
  split at h
  · rename_i ks hks
    simp only [Bool.and_eq_true, beq_iff_eq] at h
    exact ⟨ks, hks, h.1, h.2⟩
  · cases h

/-- conversely, the model's table has no row the RFC table lacks -/
theorem schema_only_rfc (code : Nat) (ks : List FKind) (h : schemaOf code = some ks) :
    (Spec.layoutOf code).isSome = true := by
  unfold schemaOf at h
  split at h <;> first | (cases h; decide) | cases h

/-- the row found for a supported code, with its RFC layout -/
theorem schema_layout {code : Nat} {ks : List FKind} (h : schemaOf code = some ks) :
    ∃ l, Spec.layoutOf code = some l ∧ l ∈ Spec.layouts ∧ l.code = code ∧
      ks.length = l.fields.length ∧
      (List.zip ks (l.fields.map (·.2))).all (fun p => kindMatches p.1 p.2) = true := by
  have hsome := schema_only_rfc code ks h
  cases hl : Spec.layoutOf code with
  | none => rw [hl] at hsome; cases hsome
  | some l =>
    have hmem : l ∈ Spec.layouts := List.mem_of_find?_eq_some hl
    have hcode : l.code = code := by
      have := List.find?_some hl
      simpa using this
    obtain ⟨ks', hks', hlen, hall⟩ := schema_matches_rfc l hmem
    rw [hcode, h] at hks'
    cases hks'
    exact ⟨l, rfl, hmem, hcode, hlen, hall⟩

/-- each layout is filed under a type number the library knows (not `Unknown`) and writes back
unchanged: the 38 flat types, IPSECKEY (45) and OPT (41) -/
theorem iana_codes : ∀ l ∈ Spec.layouts,
    (TYPE.ofCode l.code).isUnknown = false ∧ (TYPE.ofCode l.code).toCode = l.code := by decide

theorem iana_code_ipseckey : TYPE.ofCode 45 = .IPSECKEY ∧ TYPE.IPSECKEY.toCode = 45 := by decide
theorem iana_code_opt : TYPE.ofCode 41 = .OPT ∧ TYPE.OPT.toCode = 41 := by decide

/-- the mnemonic under which the library files each number is the RFC's (RT is spelt
`RouteThrough` and NSAP-PTR `NSAP_PTR` in the library's enum) -/
theorem iana_mnemonics : ∀ l ∈ Spec.layouts,
    (TYPE.ofCode l.code).mnemonic = l.mnemonic ∨
    (l.mnemonic = "RT" ∧ TYPE.ofCode l.code = .RouteThrough) ∨
    (l.mnemonic = "NSAP-PTR" ∧ TYPE.ofCode l.code = .NSAP_PTR) := by decide

/-- every number round-trips through the library's `TYPE` (unknown numbers are kept) -/
theorem type_toCode_ofCode (c : Nat) : (TYPE.ofCode c).toCode = c := by
  unfold TYPE.ofCode; split <;> rfl

/-! ### 2. serialising RFC field values gives the RFC encoding -/

/-- one field: the model writer and the reference encoder agree on a value that fits the field -/
theorem encField_eq_rfc {k : FKind} {sk : Spec.SKind} {v : Val} (hm : kindMatches k sk = true)
    (hv : FieldOK k v) : encField k v = Spec.encodeField sk v.toSpec := by
  cases k <;> cases sk <;> simp only [kindMatches, Bool.false_eq_true] at hm <;>
    cases v <;> simp only [FieldOK] at hv
  · -- int / uint
    simp only [beq_iff_eq] at hm; subst hm
    simp [encField, Spec.encodeField, Val.toSpec, Rfc.beN_eq_octetsOf]
  · -- int 4 / int32
    simp only [beq_iff_eq] at hm; subst hm
    simp [encField, Spec.encodeField, Val.toSpec, Rfc.beN_eq_octetsOf]
  · simp [encField, Spec.encodeField, Val.toSpec, CharStr.write]
  · simp [encField, Spec.encodeField, Val.toSpec, Rfc.nameWrite_eq_encLabels]
  · simp [encField, Spec.encodeField, Val.toSpec]
  · -- TXT: at least one string, so the "no strings" special case is not taken
    rename_i ss
    have : ss.isEmpty = false := by
      cases ss with
      | nil => exact absurd rfl hv.1
      | cons _ _ => rfl
    simp [encField, Spec.encodeField, Val.toSpec, this, Rfc.encStrs_eq_encStrings]
  · -- triples: strictly increasing keys are already sorted
    rename_i kw lw strict kw' lw' strict' xs
    simp only [Bool.and_eq_true, beq_iff_eq] at hm
    obtain ⟨⟨rfl, rfl⟩, rfl⟩ := hm
    simp only [encField, Spec.encodeField, Val.toSpec]
    cases strict with
    | false => simp [Rfc.encTlvs_eq_encTriples]
    | true => simp [Rfc.sortByKey_of_increasing xs (hv.2 rfl), Rfc.encTlvs_eq_encTriples]

theorem encAll_eq_rfc (ks : List FKind) : ∀ (sks : List Spec.SKind) (vs : List Val),
    ks.length = sks.length → (List.zip ks sks).all (fun p => kindMatches p.1 p.2) = true →
    AllOK ks vs → encAll ks vs = Spec.encodeFields sks (vs.map Val.toSpec) := by
  induction ks with
  | nil =>
    intro sks vs hl _ _
    cases sks with
    | nil => simp [encAll, Spec.encodeFields]
    | cons _ _ => simp at hl
  | cons k ks ih =>
    intro sks vs hl hall hok
    cases sks with
    | nil => simp at hl
    | cons sk sks =>
      cases vs with
      | nil => simp [AllOK] at hok
      | cons v vs =>
        simp only [List.zip_cons_cons, List.all_cons, Bool.and_eq_true] at hall
        simp only [AllOK] at hok
        simp only [encAll, List.map_cons, Spec.encodeFields]
        rw [encField_eq_rfc hall.1 hok.1, ih sks vs (by simpa using hl) hall.2 hok.2]

/-- Serialising values that fit the fields of a supported type yields the reference RFC encoding
of those values, byte for byte. -/
theorem rfc_encoding {code : Nat} {ks : List FKind} {vs : List Val}
    (hs : schemaOf code = some ks) (hok : AllOK ks vs) (hc : flatCheck code vs = true) :
    RData.write (.flat code vs) = .ok (encAll ks vs) ∧
    Spec.encode code (vs.map Val.toSpec) = some (encAll ks vs) := by
  obtain ⟨l, hl, _, _, hlen, hall⟩ := schema_layout hs
  refine ⟨by simp [RData.write, hs, hc], ?_⟩
  simp only [Spec.encode, hl, Option.map_some]
  rw [encAll_eq_rfc ks _ vs (by simpa using hlen) hall hok]

/-- the same from the well-formedness predicate of the model -/
theorem rfc_encoding_of_WF {code : Nat} {vs : List Val} (h : (RData.flat code vs).WF) :
    ∃ bytes, RData.write (.flat code vs) = .ok bytes ∧
      Spec.encode code (vs.map Val.toSpec) = some bytes := by
  obtain ⟨hs, hc, _⟩ := h
  unfold SchemaOK at hs
  split at hs
  · rename_i ks hks
    exact ⟨_, rfc_encoding hks hs hc⟩
  · cases hs

/-- the record is written under the type's IANA number: the two TYPE octets -/
theorem rfc_type_code (r : RR) {code : Nat} {vs : List Val} (h : r.rdata = .flat code vs) :
    (RR.writeCommon r).take 2 = beN 2 code ∧ beN 2 code = Spec.octetsOf 2 code := by
  refine ⟨?_, Rfc.beN_eq_octetsOf 2 code⟩
  unfold RR.writeCommon
  rw [h]
  simp only [RData.typeOf, type_toCode_ofCode]
  exact List.take_left' (by simp)

/-- the whole record: owner name, TYPE = the IANA number, CLASS (with the mDNS cache-flush bit),
TTL, RDLENGTH and the RFC encoding of the fields -/
theorem rfc_record {r : RR} {code : Nat} {ks : List FKind} {vs : List Val}
    (h : r.rdata = .flat code vs) (hs : schemaOf code = some ks) (hok : AllOK ks vs)
    (hc : flatCheck code vs = true) :
    ∃ rd, Spec.encode code (vs.map Val.toSpec) = some rd ∧
      RR.write r = .ok (Name.write r.name ++ (beN 2 code ++
        (beN 2 (if r.flush then r.cls.toCode ||| 0x8000 else r.cls.toCode) ++
          (beN 4 r.ttl ++ (beN 2 r.rdata.len ++ rd))))) := by
  obtain ⟨hw, he⟩ := rfc_encoding hs hok hc
  refine ⟨_, he, ?_⟩
  unfold RR.write RR.writeCommon
  rw [h, hw]
  simp [RData.typeOf, type_toCode_ofCode]

/-! ### 3. IPSECKEY (RFC 4025) -/

def Gateway.toSpec : Gateway → Spec.GatewaySpec
  | .none => .none
  | .v4 a => .ipv4 a
  | .v6 a => .ipv6 a
  | .domain n => .name n

/-- precedence, gateway type, algorithm, gateway, public key — for all values (a number wider
than its field loses its high octets in the model and in the reference alike) -/
theorem rfc_ipseckey_any (prec alg : Nat) (gw : Gateway) (key : Bytes) :
    RData.write (.ipseckey prec alg gw key) =
      .ok (Spec.encodeIpseckey prec alg gw.toSpec key) := by
  cases gw <;>
    simp [RData.write, Spec.encodeIpseckey, Gateway.toSpec, Gateway.tag, Gateway.write,
      Spec.octetsOf, Rfc.beN_eq_octetsOf, Rfc.nameWrite_eq_encLabels, Rfc.ofNat_mod_256]

theorem rfc_ipseckey {prec alg : Nat} {gw : Gateway} {key : Bytes}
    (_h : (RData.ipseckey prec alg gw key).WF) :
    RData.write (.ipseckey prec alg gw key) =
      .ok (Spec.encodeIpseckey prec alg gw.toSpec key) :=
  rfc_ipseckey_any prec alg gw key

end Dns
