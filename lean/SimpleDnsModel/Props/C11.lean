/-
C11 — Received packets survive re-serialisation.

For every byte string the parser accepts, serialising the parsed packet, with
or without name compression, succeeds, and parsing that output gives back the
same packet — PROVIDED the RDATA of every record still fits the 16-bit
RDLENGTH once the names inside it are written without compression
(`PlainFits`). That proviso is not implied by the input being a legal DNS
message of at most 65 535 bytes (see the counterexample `c11Overflow` at the
end); it is implied by every RDLENGTH of the input being ≤ 65 281
(`plain_fits_of_rdlen_bound`), hence by the input being at most 65 304 bytes
long (`plain_fits_of_length`).

  1. `parse_image_wf_core`   the parser's image is well-formed but for the RDLENGTH clauses
     `Packet.WF_iff`         `p.WF ↔ p.WFcore ∧ PlainFits p`  (Lemmas/ParseImage.lean)
  2. `reserialise_stable`    parse → build / buildCompressed → parse is the identity
  3. `plain_fits_of_rdlen_bound`, `plain_fits_of_length`, `reserialise_stable_of_length`
  4. `reparse_idempotent`, `reemit_fixed`   any number of parse-and-re-emit rounds

The work is in Lemmas/ParseImage.lean (`Img.packet_ok`); the round trips are C02 and C03.
-/
import SimpleDnsModel.Lemmas.ParseImage
import SimpleDnsModel.Props.C03
import SimpleDnsModel.Props.C05
namespace Dns

/-! ### 1. the image of the parser -/

/-- **Whatever `Packet::parse` returns is well-formed**, except possibly for the clauses
"`writtenLen ≤ 65535`": names within their limits, every field value within its width, schema and
ordering rules respected, OPT records consistent with their TTL, section counts within 16 bits,
no OPT record left in the additional section when the header carries none. -/
theorem parse_image_wf_core {d : Bytes} {p : Packet} (h : Packet.parse d = .ok p) : p.WFcore :=
  (Img.packet_ok h).1

/-- the OPT pseudo-record lifted into the header always fits: its RDATA contains no names -/
theorem parse_image_opt_fits {d : Bytes} {p : Packet} (h : Packet.parse d = .ok p) :
    p.header.OptFits :=
  (Img.packet_ok h).2.1

/-- the parser's image is inside `Packet.WF` as soon as the re-encoded RDATA fit -/
theorem parse_image_wf {d : Bytes} {p : Packet} (h : Packet.parse d = .ok p) (hf : PlainFits p) :
    p.WF :=
  (Packet.WF_iff p).2 ⟨parse_image_wf_core h, hf⟩

/-! ### 2. re-serialisation -/

/-- **Received packets survive re-serialisation**: plain and compressed. -/
theorem reserialise_stable {d : Bytes} {p : Packet} (h : Packet.parse d = .ok p)
    (hf : PlainFits p) :
    (∃ b, Packet.build p = .ok b ∧ Packet.parse b = .ok p) ∧
    (∃ c, p.buildCompressed = .ok c ∧ Packet.parse c = .ok p) :=
  ⟨build_parse p (parse_image_wf h hf), compressed_transparent p (parse_image_wf h hf)⟩

/-- both outputs at once, with the compressed one never longer -/
theorem reserialise_both {d : Bytes} {p : Packet} (h : Packet.parse d = .ok p)
    (hf : PlainFits p) :
    ∃ b c, p.build = .ok b ∧ p.buildCompressed = .ok c ∧ Packet.parse b = .ok p ∧
      Packet.parse c = .ok p ∧ c.length ≤ b.length := by
  have hwf := parse_image_wf h hf
  obtain ⟨b, c, hb, hc, heq, hle⟩ := compressed_same_as_plain p hwf
  obtain ⟨b', hb', hpb⟩ := build_parse p hwf
  rw [hb] at hb'
  cases hb'
  exact ⟨b, c, hb, hc, hpb, by rw [heq, hpb], hle⟩

/-! ### 3. when does the re-encoded RDATA fit?

Re-encoding an RDATA can only grow it through a name that was compressed on the wire: at most
255 bytes written for at least 1 byte read. Layouts with two names (SOA, MINFO, RP) have no
variable-length tail and stay below 1 100 bytes; every layout with a variable-length tail has at
most one name. Hence `writtenLen ≤ RDLENGTH + 254` or `writtenLen ≤ 65535` outright
(`Img.RecFit`). -/

/-- every record of the result re-encodes into at most its RDLENGTH + 254 bytes (or into at most
65 535 bytes anyway), RDLENGTH being read off the envelope walk of the input (Spec/Envelope.lean,
C05) -/
theorem reencoded_rdata_size {d : Bytes} {p : Packet} (h : Packet.parse d = .ok p) :
    ∃ w, Spec.walk d = some w ∧
      (∀ r ∈ p.answers, ∃ e ∈ w.answers,
        r.rdata.writtenLen ≤ 65535 ∨ r.rdata.writtenLen ≤ e.rdlen + 254) ∧
      (∀ r ∈ p.nameServers, ∃ e ∈ w.nameServers,
        r.rdata.writtenLen ≤ 65535 ∨ r.rdata.writtenLen ≤ e.rdlen + 254) ∧
      (∀ r ∈ p.additional, ∃ e ∈ w.additional,
        r.rdata.writtenLen ≤ 65535 ∨ r.rdata.writtenLen ≤ e.rdlen + 254) := by
  obtain ⟨_, _, w, hw, h1, h2, h3⟩ := Img.packet_ok h
  refine ⟨w, hw, ?_, ?_, ?_⟩
  · intro r hr; obtain ⟨e, he, _, hf⟩ := h1 r hr; exact ⟨e, he, hf.1⟩
  · intro r hr; obtain ⟨e, he, _, hf⟩ := h2 r hr; exact ⟨e, he, hf.1⟩
  · intro r hr; obtain ⟨e, he, _, hf⟩ := h3 r hr; exact ⟨e, he, hf.1⟩

/-- **`PlainFits` from the RDLENGTH fields of the input**: every RDLENGTH ≤ 65535 − 254. -/
theorem plain_fits_of_rdlen_bound {d : Bytes} {p : Packet} (h : Packet.parse d = .ok p)
    (hb : ∀ w, Spec.walk d = some w →
      ∀ e ∈ w.answers ++ (w.nameServers ++ w.additional), e.rdlen ≤ 65281) :
    PlainFits p := by
  obtain ⟨_, hopt, w, hw, h1, h2, h3⟩ := Img.packet_ok h
  have hb := hb w hw
  refine ⟨hopt, ?_, ?_, ?_⟩
  · intro r hr
    obtain ⟨e, he, _, hf⟩ := h1 r hr
    have := hb e (by simp [he])
    rcases hf.1 with hf | hf <;> omega
  · intro r hr
    obtain ⟨e, he, _, hf⟩ := h2 r hr
    have := hb e (by simp [he])
    rcases hf.1 with hf | hf <;> omega
  · intro r hr
    obtain ⟨e, he, _, hf⟩ := h3 r hr
    have := hb e (by simp [he])
    rcases hf.1 with hf | hf <;> omega

/-- **`PlainFits` from the size of the input**: a record starts at offset 12 or later, its owner
name takes at least one byte and its fixed fields ten, so RDLENGTH ≤ length − 23. -/
theorem plain_fits_of_length {d : Bytes} {p : Packet} (h : Packet.parse d = .ok p)
    (hl : d.length ≤ 65304) : PlainFits p := by
  obtain ⟨_, hopt, w, hw, h1, h2, h3⟩ := Img.packet_ok h
  refine ⟨hopt, ?_, ?_, ?_⟩
  · intro r hr
    obtain ⟨e, he, ho, hf, _, h4, h5⟩ := h1 r hr
    rcases hf with hf | hf <;> omega
  · intro r hr
    obtain ⟨e, he, ho, hf, _, h4, h5⟩ := h2 r hr
    rcases hf with hf | hf <;> omega
  · intro r hr
    obtain ⟨e, he, ho, hf, _, h4, h5⟩ := h3 r hr
    rcases hf with hf | hf <;> omega

/-- C11 without a side condition on the result, for inputs of at most 65 304 bytes -/
theorem reserialise_stable_of_length {d : Bytes} {p : Packet} (h : Packet.parse d = .ok p)
    (hl : d.length ≤ 65304) :
    (∃ b, Packet.build p = .ok b ∧ Packet.parse b = .ok p) ∧
    (∃ c, p.buildCompressed = .ok c ∧ Packet.parse c = .ok p) :=
  reserialise_stable h (plain_fits_of_length h hl)

/-- C11 for inputs all of whose RDLENGTH fields are at most 65 281 -/
theorem reserialise_stable_of_rdlen_bound {d : Bytes} {p : Packet} (h : Packet.parse d = .ok p)
    (hb : ∀ w, Spec.walk d = some w →
      ∀ e ∈ w.answers ++ (w.nameServers ++ w.additional), e.rdlen ≤ 65281) :
    (∃ b, Packet.build p = .ok b ∧ Packet.parse b = .ok p) ∧
    (∃ c, p.buildCompressed = .ok c ∧ Packet.parse c = .ok p) :=
  reserialise_stable h (plain_fits_of_rdlen_bound h hb)

/-! ### 4. a proxy that parses and re-emits, any number of times -/

/-- one hop: parse, then serialise with (`c = true`) or without compression -/
def reemit (c : Bool) (d : Bytes) : Out Bytes := do
  let p ← Packet.parse d
  if c then p.buildCompressed else p.build

/-- a chain of hops, each with its own choice of compression -/
def reemitAll : List Bool → Bytes → Out Bytes
  | [], d => .ok d
  | c :: cs, d => do
    let b ← reemit c d
    reemitAll cs b

/-- one hop keeps the packet -/
theorem reemit_stable {d : Bytes} {p : Packet} (h : Packet.parse d = .ok p) (hf : PlainFits p)
    (c : Bool) : ∃ b, reemit c d = .ok b ∧ Packet.parse b = .ok p := by
  obtain ⟨⟨b, hb, hpb⟩, ⟨k, hk, hpk⟩⟩ := reserialise_stable h hf
  cases c with
  | false => exact ⟨b, by simp [reemit, h, hb], hpb⟩
  | true => exact ⟨k, by simp [reemit, h, hk], hpk⟩

/-- **Idempotence**: after any number of parse-and-re-emit hops, compressed or not, the bytes
still parse to the packet the first parse produced. -/
theorem reparse_idempotent {d : Bytes} {p : Packet} (h : Packet.parse d = .ok p)
    (hf : PlainFits p) (cs : List Bool) :
    ∃ b, reemitAll cs d = .ok b ∧ Packet.parse b = .ok p := by
  induction cs generalizing d with
  | nil => exact ⟨d, rfl, h⟩
  | cons c cs ih =>
    obtain ⟨b, hb, hpb⟩ := reemit_stable h hf c
    obtain ⟨b', hb', hpb'⟩ := ih hpb
    exact ⟨b', by simp [reemitAll, hb, hb'], hpb'⟩

/-- one more round, spelled out: parse, build, parse, build again (either way), parse -/
theorem reparse_twice {d : Bytes} {p : Packet} (h : Packet.parse d = .ok p) (hf : PlainFits p) :
    ∃ b, p.build = .ok b ∧ Packet.parse b = .ok p ∧
      ∃ b', (do let q ← Packet.parse b; q.build) = .ok b' ∧ Packet.parse b' = .ok p ∧ b' = b := by
  obtain ⟨b, hb, hpb⟩ := (reserialise_stable h hf).1
  exact ⟨b, hb, hpb, b, by simp [hpb, hb], hpb, rfl⟩

/-- the re-emitted bytes are a fixed point of re-emission with the same setting -/
theorem reemit_fixed {d b : Bytes} {p : Packet} (h : Packet.parse d = .ok p) (hf : PlainFits p)
    (c : Bool) (hb : reemit c d = .ok b) : reemit c b = .ok b := by
  obtain ⟨b', hb', hpb'⟩ := reemit_stable h hf c
  rw [hb] at hb'
  cases hb'
  unfold reemit at hb ⊢
  rw [h] at hb
  rw [hpb']
  exact hb

/-! ### the hypotheses are satisfiable -/

/-- the 37-byte message of C05 (question `www. A IN`, answer with a compressed owner name) -/
example : PlainFits
    { header := { id := 0x1234, opcode := .StandardQuery, rcode := .NoError, flags := 0x0100,
                  opt := none },
      questions := [{ name := [[119, 119, 119]], qtype := .TYPE .A, qclass := .CLASS .IN,
                      unicast := false }],
      answers := [{ name := [[119, 119, 119]], cls := .IN, ttl := 60,
                    rdata := .flat 1 [.int 0x01020304], flush := false }],
      nameServers := [], additional := [] } := by decide

example : ∃ p, Packet.parse c05Msg = .ok p ∧
    (∃ b, Packet.build p = .ok b ∧ Packet.parse b = .ok p) ∧
    (∃ c, p.buildCompressed = .ok c ∧ Packet.parse c = .ok p) :=
  ⟨_, c05Msg_parse, reserialise_stable c05Msg_parse (by decide)⟩

/-- the same through the size of the input -/
example : ∃ p, Packet.parse c05Msg = .ok p ∧ PlainFits p :=
  ⟨_, c05Msg_parse, plain_fits_of_length c05Msg_parse (by decide)⟩

example : ∃ b, reemitAll [true, false, true] c05Msg = .ok b ∧ Packet.parse b = Packet.parse c05Msg := by
  obtain ⟨b, hb, hp⟩ := reparse_idempotent c05Msg_parse (by decide) [true, false, true]
  exact ⟨b, hb, by rw [hp, c05Msg_parse]⟩

/-- the sample packet of C02 (every kind of RDATA, EDNS): its wire forms are accepted inputs and
the parsed packet fits -/
example : PlainFits samplePacket := by decide

/-! ### a message whose RDATA grows when re-encoded

One answer `a. NS a.` of 27 bytes whose RDATA is a pointer to the owner name: the plain
re-encoding writes the name in full (28 bytes), the compressing one gives the input back. -/

/-- one answer `a. NS a.` whose RDATA is the two-byte pointer `C0 0C` to the owner name -/
def c11Ns : Bytes :=
  [0, 7, 0x80, 0, 0, 0, 0, 1, 0, 0, 0, 0,
   1, 97, 0, 0, 2, 0, 1, 0, 0, 0, 60, 0, 2, 0xC0, 12]

theorem c11Ns_name12 : Name.parse c11Ns 12 = .ok ([[97]], 15) := by
  unfold Name.parse
  rw [nameLoop]; simp [c11Ns]
  rw [nameLoop]; simp

theorem c11Ns_name25 : Name.parse c11Ns 25 = .ok ([[97]], 27) := by
  unfold Name.parse
  rw [nameLoop]; simp [c11Ns]
  rw [nameLoop]; simp
  rw [nameLoop]; simp

theorem c11Ns_record : RR.parse c11Ns 12 =
    .ok ({ name := [[97]], cls := .IN, ttl := 60, rdata := .flat 2 [.name [[97]]],
           flush := false }, 27) := by
  have ht : List.take 27 c11Ns = c11Ns := by decide
  have h1 : slice c11Ns 15 17 = .ok [0, 2] := by decide
  have h2 : slice c11Ns 23 25 = .ok [0, 2] := by decide
  have h3 : slice c11Ns 17 19 = .ok [0, 1] := by decide
  have h4 : slice c11Ns 19 23 = .ok [0, 0, 0, 60] := by decide
  have hl : c11Ns.length = 27 := by decide
  unfold RR.parse
  rw [c11Ns_name12]
  simp only [Out.bind_ok, hl, h3, h4, RData.parse, h1, h2]
  simp [deN, TYPE.ofCode, ht, parseTyped, TYPE.toCode, schemaOf, decAll, decField, c11Ns_name25,
    flatCheck, RData.typeOf, CLASS.ofCode]


def c11NsPacket : Packet :=
  { header := { id := 7, opcode := .StandardQuery, rcode := .NoError, flags := 0x8000, opt := none },
    questions := [],
    answers := [{ name := [[97]], cls := .IN, ttl := 60, rdata := .flat 2 [.name [[97]]],
                  flush := false }],
    nameServers := [], additional := [] }

theorem c11Ns_parse : Packet.parse c11Ns = .ok c11NsPacket := by
  have hh : Header.parse c11Ns =
      .ok { id := 7, opcode := .StandardQuery, rcode := .NoError, flags := 0x8000,
            opt := none } := by decide +kernel
  have h1 : Peek.questions c11Ns = .ok 0 := by decide +kernel
  have h2 : Peek.answers c11Ns = .ok 1 := by decide +kernel
  have h3 : Peek.nameServers c11Ns = .ok 0 := by decide +kernel
  have h4 : Peek.additional c11Ns = .ok 0 := by decide +kernel
  unfold Packet.parse
  rw [hh, h1, h2, h3, h4]
  simp only [Out.bind_ok, parseQuestions, parseRRs, c11Ns_record, Out.pure_eq,
    liftOpt, Header.extractOpt, c11NsPacket]

example : PlainFits c11NsPacket := by decide

example : (do
    let b ← c11NsPacket.build
    let c ← c11NsPacket.buildCompressed
    pure (b.length, decide (c = c11Ns))) = Out.ok (28, true) := by
  decide +kernel

example : (∃ b, Packet.build c11NsPacket = .ok b ∧ Packet.parse b = .ok c11NsPacket) ∧
    (∃ c, c11NsPacket.buildCompressed = .ok c ∧ Packet.parse c = .ok c11NsPacket) :=
  reserialise_stable c11Ns_parse (by decide)

/-! ### `PlainFits` does not follow from `d.length ≤ 65535`

A legal 65 535-byte message whose single RRSIG record has RDLENGTH 65 512. The signer's name is
the pointer `C0 17` into the 18 fixed bytes of the same RDATA, which are laid out so that the
name decoder reads them twice: a 14-byte label at 23, the pointer `C0 18` at 38, a 15-byte label
at 24 that covers that pointer, and the root at 40 — a 32-byte name from 2 + 18 bytes. Written
without compression the RDATA is 18 + 32 + 65 492 = 65 542 bytes; `ResourceRecord::write_to`
stores `65542 as u16 = 6` as RDLENGTH and the output (65 565 bytes) no longer parses. The checks
below are evaluated by `#guard` when this file is compiled (a test, not a proof). -/

def c11Overflow : Bytes :=
  [0, 0, 0, 0, 0, 0, 0, 1, 0, 0, 0, 0] ++ [0] ++ [0, 46, 0, 1, 0, 0, 0, 0, 0xFF, 0xE8] ++
  [14, 15, 1, 2, 3, 4, 5, 6, 7, 8, 9, 10, 11, 12, 13, 0xC0, 24, 0] ++ [0xC0, 23] ++
  List.replicate 65492 7

#guard c11Overflow.length == 65535

#guard match Packet.parse c11Overflow with
  | .ok p =>
    p.answers.map (·.rdata.writtenLen) == [65542] && decide (p.WFcore) && !decide (PlainFits p) &&
    (match p.build with
     | .ok b => b.length == 65565 && decide (Packet.parse b = .err)
     | _ => false)
  | _ => false

end Dns
