/-
C01 (cost part) — parsing untrusted bytes cannot be driven into long loops or large allocations
by header counts or compression pointers. The no-panic part of C01 is in Props/C01.lean; this
file bounds, on the model,

 1. the number of iterations of the `Name::parse` loop (one iteration = O(1) work plus pushing one
    borrowed label of at most 63 bytes): at most `min (pos, 0x3FFF) + 512` for the name at `pos`;
 2. the number of questions and records of a successfully parsed message: each question occupies
    at least 5 bytes and each record at least 11 bytes of the message, after the 12-byte header,
    whatever the header counts say; a name has at most 127 labels and 253 label bytes;
 3. the number of list items inside one RDATA (TXT strings, NSEC windows, SVCB parameters, OPT
    options): at most its RDLENGTH;
 4. the total number of allocation units (`allocUnits`: section entries, labels, RDATA list items)
    of a parsed message: at most 35 per byte of the message.

Proofs are in Lemmas/Cost.lean.

What is NOT linear. The bound of item 1 is per name and grows with the offset of the name (up to
the 14-bit pointer range), and the growth is real: `chain k` below is a buffer of 2k+1 bytes in
which decoding the name at offset 2k-1 takes exactly k+1 iterations (`chain_exact_100` and its
siblings) — about half the offset — and the Rust loop has no limit on the number of pointer hops.
A message can contain one such name every 12 bytes (a record whose owner is a pointer to the owner
of the previous record), so the total number of loop iterations of `Packet::parse` over a whole
message is NOT bounded by a small constant times the message length: what the theorems give is
(number of names) × (min(offset, 0x3FFF) + 512), which is quadratic in the length for messages up
to 16 KiB and at most 16 895 iterations per name beyond (for a 65 535-byte message the pointer
chain construction reaches roughly 85 iterations per byte). Memory is unaffected: following a
pointer allocates nothing, and the labels collected by one name are bounded by 127 (item 2).
-/
import SimpleDnsModel.Lemmas.Cost
import SimpleDnsModel.Props.C05
namespace Dns

/-! ### 1. compression-pointer chains cannot drive looping -/

/-- the state in which `Name::parse(data, &mut pos)` enters its loop -/
def NS.init (pos : Nat) : NS := { pos := pos, pp := pos, follow := false, size := 0, labels := [] }

theorem Name.parse_eq_loop (d : Bytes) (pos : Nat) : Name.parse d pos = nameLoop d (NS.init pos) :=
  rfl

/-- The loop of `Name::parse` started in state `s` finishes within
`pp + 2 * (255 - name_size) + 1` iterations: with that much fuel (or more) the fuel-indexed copy
`nameLoopFuel` of the loop returns the result of `nameLoop`. A label step moves `pp` and
`name_size` forward by the same amount (at least 2), a pointer step moves `pp` strictly backward,
and the loop stops as soon as `name_size ≥ 255`.

One iteration performs O(1) work (two comparisons, one or two byte reads, a mask) plus, in the
label case, pushing one label that borrows (in the model: copies) at most 63 bytes. -/
theorem nameLoop_within (d : Bytes) (s : NS) (fuel : Nat)
    (h : s.pp + 2 * (255 - s.size) + 1 ≤ fuel) : nameLoopFuel fuel d s = some (nameLoop d s) :=
  Cost.within_aux d s fuel (Or.inr h)

/-- A bound that does not depend on the position: a pointer holds 14 bits, so after the first jump
`pp ≤ 0x3FFF = 16383`, and before it there are only label steps. -/
theorem nameLoop_within_abs (d : Bytes) (s : NS) (fuel : Nat)
    (h : 0x3FFF + 2 * (255 - s.size) + 2 ≤ fuel) : nameLoopFuel fuel d s = some (nameLoop d s) :=
  Cost.within_aux2 d s fuel (Or.inr h)

/-- `Name::parse(data, &mut pos)` finishes within `pos + 511` loop iterations … -/
theorem name_parse_steps (d : Bytes) (pos fuel : Nat) (h : pos + 2 * 255 + 1 ≤ fuel) :
    nameLoopFuel fuel d (NS.init pos) = some (Name.parse d pos) :=
  nameLoop_within d _ fuel (by simpa [NS.init] using h)

/-- … and within `0x3FFF + 512 = 16895` iterations wherever the name starts and however long the
message is … -/
theorem name_parse_steps_abs (d : Bytes) (pos fuel : Nat) (h : 0x3FFF + 2 * 255 + 2 ≤ fuel) :
    nameLoopFuel fuel d (NS.init pos) = some (Name.parse d pos) :=
  nameLoop_within_abs d _ fuel (by simpa [NS.init] using h)

/-- … and within `data.len() + 510` iterations (a start at or past the end fails at once). -/
theorem name_parse_steps_len (d : Bytes) (pos fuel : Nat) (h : d.length + 2 * 255 ≤ fuel) :
    nameLoopFuel fuel d (NS.init pos) = some (Name.parse d pos) := by
  by_cases hp : pos < d.length
  · exact name_parse_steps d pos fuel (by omega)
  · cases fuel with
    | zero => omega
    | succ f =>
      rw [Name.parse_eq_loop, nameLoop]
      simp only [nameLoopFuel]
      have : (NS.init pos).pos ≥ d.length := by simp only [NS.init]; omega
      simp [this]

/-- the three budgets in one statement -/
theorem name_parse_steps_min (d : Bytes) (pos fuel : Nat)
    (h : min (min pos d.length) 0x3FFF + 512 ≤ fuel) :
    nameLoopFuel fuel d (NS.init pos) = some (Name.parse d pos) := by
  by_cases h1 : pos + 511 ≤ fuel
  · exact name_parse_steps d pos fuel (by omega)
  · by_cases h2 : d.length + 510 ≤ fuel
    · exact name_parse_steps_len d pos fuel (by omega)
    · exact name_parse_steps_abs d pos fuel (by omega)

/-! The dependence on the offset is real: a chain of `k` pointers, each to the previous one. -/

/-- the root name at offset 0, then `k` pointers: the one at offset `2i+1` points to offset
`2i-1`, where the previous pointer is (the first points to the root name) -/
def chain (k : Nat) : Bytes :=
  0 :: (List.range k).flatMap fun i => [0xC0, UInt8.ofNat (2 * i - 1)]

/-- Decoding the name at the last pointer of `chain k` (offset `2k-1`, in a buffer of `2k+1`
bytes) takes exactly `k + 1` iterations: it succeeds with fuel `k + 1` and not with fuel `k`.
Instances `k = 1, 10, 100, 127` (the last chain whose offsets fit in one byte; a universally
quantified `decide` is too slow). -/
theorem chain_exact_1 : nameLoopFuel 1 (chain 1) (NS.init 1) = none ∧
    nameLoopFuel 2 (chain 1) (NS.init 1) = some (.ok ([], 3)) := by decide +kernel

theorem chain_exact_10 : nameLoopFuel 10 (chain 10) (NS.init 19) = none ∧
    nameLoopFuel 11 (chain 10) (NS.init 19) = some (.ok ([], 21)) := by decide +kernel

theorem chain_exact_100 : nameLoopFuel 100 (chain 100) (NS.init 199) = none ∧
    nameLoopFuel 101 (chain 100) (NS.init 199) = some (.ok ([], 201)) := by decide +kernel

theorem chain_exact_127 : nameLoopFuel 127 (chain 127) (NS.init 253) = none ∧
    nameLoopFuel 128 (chain 127) (NS.init 253) = some (.ok ([], 255)) := by decide +kernel

/-! ### 2. header counts cannot drive allocation -/

/-- A decoded name has at most 127 labels and at most 253 label bytes, whatever pointers it went
through. -/
theorem parsed_name_bound {d : Bytes} {pos : Nat} {n : Name} {p : Nat}
    (h : Name.parse d pos = .ok (n, p)) : n.length ≤ 127 ∧ (n.map List.length).sum ≤ 253 :=
  Cost.name_bound h

/-- A successfully parsed message has room for what was parsed: 12 bytes of header, at least 5
bytes per question (a name of at least one byte, QTYPE, QCLASS), at least 11 bytes per record (a
name of at least one byte, TYPE, CLASS, TTL, RDLENGTH) — counting the OPT record that was moved
into the header — plus one byte per RDATA list item. Header counts larger than that make the
parse fail; they are never used to reserve memory. -/
theorem parsed_items_bound {d : Bytes} {p : Packet} (h : Packet.parse d = .ok p) :
    5 * p.questions.length + 11 * (p.answers.length + p.nameServers.length +
      p.additional.length + (if p.header.opt.isSome then 1 else 0)) + p.itemCount + 12
      ≤ d.length :=
  (Cost.packet_cost h).1

theorem parsed_entries_bound {d : Bytes} {p : Packet} (h : Packet.parse d = .ok p) :
    5 * p.questions.length + 11 * (p.answers.length + p.nameServers.length +
      p.additional.length + (if p.header.opt.isSome then 1 else 0)) + 12 ≤ d.length := by
  have := parsed_items_bound h
  omega

/-- The same count on the reference walker of Spec/Envelope.lean (which `Packet.parse` follows
entry by entry, `parse_respects_framing`): the entries delimited by the header counts and the
RDLENGTH fields are disjoint, consecutive and inside the message. -/
theorem walk_entries_bound {d : Bytes} {w : Spec.Walk} (h : Spec.walk d = some w) :
    12 + 5 * w.questions.length +
      11 * (w.answers.length + w.nameServers.length + w.additional.length) +
      ((w.answers.map (·.rdlen)).sum + (w.nameServers.map (·.rdlen)).sum +
        (w.additional.map (·.rdlen)).sum) ≤ w.stop ∧ w.stop ≤ d.length :=
  Cost.walk_cost h

/-! ### 3. the content of one RDATA -/

/-- every string of a TXT consumes at least one byte of the RDATA -/
theorem strsLoop_items_bound {d : Bytes} {pos : Nat} {acc ss : List Bytes} {p : Nat}
    (hp : pos ≤ d.length) (h : strsLoop d pos acc = .ok (ss, p)) :
    ss.length ≤ acc.length + (d.length - pos) := by
  have := Cost.strsLoop_items h
  have := strsLoop_pos_le hp h
  omega

/-- every (key, length, value) triple of an NSEC / SVCB consumes at least one byte -/
theorem tlvsLoop_items_bound {d : Bytes} {kw lw : Nat} {strict : Bool} {pos : Nat}
    {acc xs : List (Nat × Bytes)} {p : Nat} (hp : pos ≤ d.length)
    (h : tlvsLoop d kw lw strict pos acc = .ok (xs, p)) :
    xs.length ≤ acc.length + (d.length - pos) := by
  have := Cost.tlvsLoop_items h
  have := tlvsLoop_pos_le hp h
  omega

/-- every option of an OPT consumes at least one byte (in fact four) -/
theorem optLoop_items_bound {d : Bytes} {pos : Nat} {acc xs : List (Nat × Bytes)} {p : Nat}
    (hp : pos ≤ d.length) (h : optLoop d pos acc = .ok (xs, p)) :
    xs.length ≤ acc.length + (d.length - pos) := by
  have := Cost.optLoop_items h
  have := optLoop_pos_le hp h
  omega

/-- The list items inside a parsed RDATA (`RData.itemCount`: strings of a TXT, windows of an NSEC,
parameters of an SVCB / HTTPS, options of an OPT) are at most RDLENGTH many, and the names embedded
in it have at most 2 × 127 labels in total (no type has more than two names). `pos` is the offset
of the TYPE field, `l` the value of the RDLENGTH field. -/
theorem rdata_content_bound {d : Bytes} {pos : Nat} {rd : RData} {p : Nat}
    (h : RData.parse d pos = .ok (rd, p)) :
    ∃ l, Spec.field d (pos + 8) 2 = some l ∧ p = pos + 10 + l ∧ p ≤ d.length ∧
      rd.itemCount ≤ l ∧ rd.nameLabels ≤ 254 := by
  obtain ⟨l, hl, hp, hle⟩ := cursor_after_rdata h
  obtain ⟨a, _, c⟩ := Cost.rdata_cost h
  exact ⟨l, hl, hp, hle, by omega, c⟩

/-- one record: at least 11 + (number of RDATA items) bytes, at most 382 + RDLENGTH units -/
theorem record_cost {d : Bytes} {pos : Nat} {r : RR} {p : Nat}
    (h : RR.parse d pos = .ok (r, p)) :
    pos + 11 + r.rdata.itemCount ≤ p ∧ p ≤ d.length ∧ r.units ≤ 371 + (p - pos) := by
  obtain ⟨a, b, c, e⟩ := Cost.rr_cost h
  omega

/-! ### 4. summary -/

/-- The allocation units of a parsed message — one per question and per record, one per label of
every owner, question and RDATA name, one per TXT string / NSEC window / SVCB parameter / OPT
option — are at most 35 per byte of the message (a record has at most 1 + 3 × 127 + RDLENGTH units
and occupies at least 11 + RDLENGTH bytes; a question at most 128 units on at least 5 bytes; the
12 header bytes carry nothing). -/
theorem parse_alloc_units_linear {d : Bytes} {p : Packet} (h : Packet.parse d = .ok p) :
    allocUnits p ≤ 35 * d.length := by
  have := (Cost.packet_cost h).2
  omega

/-- the sharper form: the header bytes are not counted -/
theorem parse_alloc_units_linear' {d : Bytes} {p : Packet} (h : Packet.parse d = .ok p) :
    allocUnits p ≤ 35 * (d.length - 12) := by
  have := (Cost.packet_cost h).2
  omega

/-! ### the bounds on a concrete message

`c05Msg` (Props/C05.lean, 37 bytes): the question `www. A IN` and the answer `www. A IN 60 1.2.3.4`
whose owner name is a pointer to offset 12. -/

/-- the owner name of the answer (offset 21) is decoded in exactly 3 iterations: the pointer, the
label `www`, the root -/
example : nameLoopFuel 2 c05Msg (NS.init 21) = none ∧
    nameLoopFuel 3 c05Msg (NS.init 21) = some (.ok ([[119, 119, 119]], 23)) := by
  decide +kernel

/-- `name_parse_steps` on it: 3 ≤ 21 + 511 -/
example : nameLoopFuel 532 c05Msg (NS.init 21) = some (.ok ([[119, 119, 119]], 23)) := by
  rw [name_parse_steps c05Msg 21 532 (by decide), c05Msg_name21]

example : ∃ p, Packet.parse c05Msg = .ok p ∧
    5 * p.questions.length + 11 * (p.answers.length + p.nameServers.length +
      p.additional.length + (if p.header.opt.isSome then 1 else 0)) + 12 = 28 ∧
    c05Msg.length = 37 ∧ allocUnits p = 4 ∧ allocUnits p ≤ 35 * c05Msg.length :=
  ⟨_, c05Msg_parse, by decide, by decide, by decide, parse_alloc_units_linear c05Msg_parse⟩

/-- a TXT record data with two strings (`"a"`, `"bc"`) on RDLENGTH 5: two items -/
def c01Txt : Bytes := [0, 16, 0, 1, 0, 0, 0, 0, 0, 5, 1, 97, 2, 98, 99]

theorem c01Txt_parse : RData.parse c01Txt 0 = .ok (.flat 16 [.strs [[97], [98, 99]]], 15) := by
  decide +kernel

example : (RData.flat 16 [.strs [[97], [98, 99]]]).itemCount = 2 := by decide

example : ∃ l, Spec.field c01Txt 8 2 = some l ∧ 15 = 0 + 10 + l ∧
    (RData.flat 16 [.strs [[97], [98, 99]]]).itemCount ≤ l :=
  let ⟨l, h1, h2, _, h3, _⟩ := rdata_content_bound c01Txt_parse; ⟨l, h1, h2, h3⟩

end Dns
