/-
C13, the store key — "every matching registered record is included, nothing that was not asked",
said about NAMES instead of keys, for arbitrary label bytes.

The store of `simple-mdns` (`resource_record_manager.rs`) is keyed by `get_key(name)`: the labels
from the root down, each prefixed by `label.len() as u8`, bytes taken verbatim (`Label::as_bytes`):
no case folding, no text conversion.  `Lemmas/MdnsA.lean` has the two basic facts (`key_inj`,
`key_prefix_iff`) for names whose labels are shorter than 256 bytes (`NameOK`; every parsed or
`Name::new` name has labels of 1..63 bytes, `NameOK_of_WF`).  This file

  1. restates them as the reviewer's question asks (`getKey_eq_iff`, `getKey_injective_of_WF`,
     `bucket_single_owner`, `bucket_owner_eq`), shows that a key built from a non-injective rendering
     of the labels (e.g. their lossy text) does merge names (`keyVia_collides`; `keyVia_injective_iff`
     is VACUOUS as stated — both sides are false for every such rendering — the meaningful, bounded
     version is `keyVia_injective_iff_WF` in `Props/C15Audit.lean`)
     and that the bound 256 is needed even for names without empty labels;
  2. characterises the key-prefix relation: `getKey_prefix_iff` (∃ leading labels),
     `getKey_prefix_iff_drop` (computable form), `getKey_prefix_iff_eq_or_subdomain`,
     `getKey_prefix_same_length`, `getKey_prefix_cons_iff` (a label that merely ends with the bytes
     of another never matches), `key_prefixes_comparable`.  Empty labels do NOT break any of this
     (the length octet 0 is as good a delimiter as any other) — see `empty_labels_fine`;
  3. lifts both to `get_domain_resources`, `answersFor` and `build_reply`
     (`getDomain_names`, `getDomain_exact_owner`, `getDomain_sub_owner`, `answersFor_owner`,
     `extras_owner`, `reply_owner_names`, `reply_no_foreign_owner`, `single_question_owner`);
  4. `buildReply_congr` / `buildReply_depends_only_on_questions` / `buildReply_header_irrelevant` /
     `buildReply_id_only`: the reply is a function of the question list and `header.id` only;
  5. `buildReply_isSome_iff`, `buildReply_eq`, `replyAnswers_append`, `replyExtras_append`,
     `buildReply_append_isSome`, `buildReply_append`, `dedupRR_append`, `question_answers_sublist`:
     replies to concatenated question lists, no cut-off on the number of questions.
-/
import SimpleDnsModel.Props.C13More
namespace Dns.Mdns

/-! ### 1. the key determines the name -/

/-- **Two names have the same store key exactly when they are the same name** (the same list of
labels, byte for byte: `Name: PartialEq` compares `labels`, `Label` derives `PartialEq` on its
bytes; nothing folds case).  For labels shorter than 256 bytes. -/
theorem getKey_eq_iff {a b : Name} (ha : NameOK a) (hb : NameOK b) :
    getKey a = getKey b ↔ a = b :=
  ⟨key_inj ha hb, fun h => by rw [h]⟩

/-- in particular for every name that `Name::parse` or `Name::new` produces (labels of 1..63 bytes,
at most 255 bytes on the wire) -/
theorem getKey_injective_of_WF {a b : Name} (ha : Name.WF a) (hb : Name.WF b)
    (h : getKey a = getKey b) : a = b :=
  key_inj (NameOK_of_WF ha) (NameOK_of_WF hb) h

/-- different names, different keys — whatever the label bytes are (not only ASCII / UTF-8) -/
theorem getKey_ne_of_ne {a b : Name} (ha : NameOK a) (hb : NameOK b) (h : a ≠ b) :
    getKey a ≠ getKey b :=
  fun hk => h (key_inj ha hb hk)

/-- `caf\xE9.local` and `caf\xE8.local` (Latin-1 bytes, not UTF-8; `from_utf8_lossy` renders both
as `caf\u{FFFD}.local`) have different keys -/
example : getKey [[0x63, 0x61, 0x66, 0xE9], [108, 111, 99, 97, 108]] ≠
    getKey [[0x63, 0x61, 0x66, 0xE8], [108, 111, 99, 97, 108]] := by decide

/-- the store does not fold case: `A.local` and `a.local` are different names with different keys
(RFC 6762 asks for case-insensitive matching of ASCII letters; the crate compares bytes) -/
example : getKey [[0x41], [108, 111, 99, 97, 108]] ≠ getKey [[0x61], [108, 111, 99, 97, 108]] ∧
    ([[0x41], [108, 111, 99, 97, 108]] : Name) ≠ [[0x61], [108, 111, 99, 97, 108]] := by decide

/-- the hypotheses of `getKey_eq_iff` are met by names with non-ASCII, non-UTF-8 labels -/
example : NameOK [[0x63, 0x61, 0x66, 0xE9], [0xFF, 0x00, 0x2E]] := by decide

/-- The bound on the label length cannot be dropped, and empty labels are not what breaks it: the
one-label name of 257 bytes `01` (only `Name::new_unchecked` builds it; its length octet is
`257 as u8 = 1`) has the key of the name made of 129 labels `01`. -/
theorem getKey_not_injective_long_labels :
    getKey [List.replicate 257 1] = getKey (List.replicate 129 [1]) ∧
    ([List.replicate 257 1] : Name) ≠ List.replicate 129 [1] ∧
    (∀ l ∈ ([List.replicate 257 1] : Name), l ≠ []) ∧
    (∀ l ∈ (List.replicate 129 [1] : Name), l ≠ []) := by decide +kernel

/-- a store key built from some rendering `f` of the labels instead of their bytes (the reviewer's
change: `f` = the lossy text of the label) -/
def keyVia (f : Label → Label) (n : Name) : Key := getKey (n.map f)

/-- the model's key is the one built from the bytes themselves -/
theorem keyVia_id (n : Name) : keyVia id n = getKey n := by simp [keyVia]

/-- **Why the key must be built from the label bytes**: if the rendering identifies two labels,
the two names get the same key — the same bucket — whatever follows. -/
theorem keyVia_collides {f : Label → Label} {l₁ l₂ : Label} (h : f l₁ = f l₂) (n : Name) :
    keyVia f (l₁ :: n) = keyVia f (l₂ :: n) := by
  simp [keyVia, h]

/-- for renderings that keep ALL labels shorter than 256 bytes the key separates all names exactly
when the rendering separates all labels. CAUTION: vacuous — no rendering with all images shorter
than 256 bytes is injective on all byte lists, so this is `False ↔ False`
(`keyVia_injective_iff_vacuous` in `Props/C15Audit.lean`). The version restricted to the labels and
names that exist (1..63 bytes, `Name.WF`), which `id` satisfies and `lossyLabel` does not, is
`keyVia_injective_iff_WF` there. -/
theorem keyVia_injective_iff {f : Label → Label} (hf : ∀ l, (f l).length < 256) :
    (∀ a b : Name, keyVia f a = keyVia f b → a = b) ↔ (∀ l₁ l₂, f l₁ = f l₂ → l₁ = l₂) := by
  have hok : ∀ n : Name, NameOK (n.map f) := by
    intro n l hl
    obtain ⟨x, _, rfl⟩ := List.mem_map.mp hl
    exact hf x
  constructor
  · intro h l₁ l₂ hl
    have := h [l₁] [l₂] (keyVia_collides hl [])
    simpa using this
  · intro h a b hk
    have hm : a.map f = b.map f := key_inj (hok a) (hok b) hk
    exact (List.map_inj_right (fun x y hxy => h x y hxy)).mp hm

/-- a byte-wise stand-in for `String::from_utf8_lossy` that is exact on the two labels below
(ASCII bytes are kept, a byte that cannot start or continue a sequence there becomes U+FFFD) -/
def lossyLabel (l : Label) : Label :=
  l.flatMap (fun b => if b.toNat < 128 then [b] else [0xEF, 0xBF, 0xBD])

/-- the collision the reviewer constructed: under the lossy-text key `caf\xE9.local` and
`caf\xE8.local` share a bucket; under the model's key they do not (example above) -/
example : keyVia lossyLabel [[0x63, 0x61, 0x66, 0xE9], [108, 111, 99, 97, 108]] =
    keyVia lossyLabel [[0x63, 0x61, 0x66, 0xE8], [108, 111, 99, 97, 108]] := by decide

/-- **No two names share a bucket**: in a store kept by the public operations all records of one
bucket have the same owner name. -/
theorem bucket_single_owner {s : Store} (hI : Inv s) (hS : StoreOK s) {k : Key} {b : Bucket}
    (hk : (k, b) ∈ s.entries) {x y : RR × Kind} (hx : x ∈ b) (hy : y ∈ b) :
    x.1.name = y.1.name :=
  key_inj (hS k b hk x hx) (hS k b hk y hy) ((hI.owner k b hk x hx).trans (hI.owner k b hk y hy).symm)

/-- the bucket found for the key of `n` holds records owned by `n` and nothing else: a look-up of
one name is never served from the records of another -/
theorem bucket_owner_eq {s : Store} (hI : Inv s) (hS : StoreOK s) {n : Name} (hn : NameOK n)
    {b : Bucket} (hb : s.bucket (getKey n) = some b) : ∀ e ∈ b, e.1.name = n := by
  intro e he
  have hm := Store.bucket_mem hb
  exact key_inj (hS _ b hm e he) hn (hI.owner _ b hm e he)

/-! ### 2. the key-prefix relation is the label-suffix relation -/

/-- **Sub-domain look-ups**: the key of `b` is a prefix of the key of `a` exactly when `a` consists
of some leading labels followed by the labels of `b` — label-wise, never byte-wise.  Labels of
0..255 bytes; empty labels (which no parser produces) are covered. -/
theorem getKey_prefix_iff {a b : Name} (ha : NameOK a) (hb : NameOK b) :
    isPrefixOf (getKey b) (getKey a) = true ↔ ∃ pre, a = pre ++ b := by
  rw [key_prefix_iff hb ha]
  constructor
  · rintro ⟨t, h⟩; exact ⟨t, h.symm⟩
  · rintro ⟨t, h⟩; exact ⟨t, h.symm⟩

/-- the same, computably: `a` has at least as many labels as `b` and its last `b.length` labels are
those of `b` -/
theorem getKey_prefix_iff_drop {a b : Name} (ha : NameOK a) (hb : NameOK b) :
    isPrefixOf (getKey b) (getKey a) = true ↔
      b.length ≤ a.length ∧ a.drop (a.length - b.length) = b := by
  rw [key_prefix_iff hb ha]
  constructor
  · intro h; exact ⟨h.length_le, (List.suffix_iff_eq_drop.mp h).symm⟩
  · rintro ⟨_, h⟩; exact List.suffix_iff_eq_drop.mpr h.symm

/-- the same in the crate's vocabulary: the same name, or `a.is_subdomain_of(b)` -/
theorem getKey_prefix_iff_eq_or_subdomain {a b : Name} (ha : NameOK a) (hb : NameOK b) :
    isPrefixOf (getKey b) (getKey a) = true ↔ a = b ∨ a.isSubdomainOf b = true := by
  rw [key_prefix_iff hb ha, suffix_iff_eq_or_subdomain]

/-- names with equally many labels match only when they are equal -/
theorem getKey_prefix_same_length {a b : Name} (ha : NameOK a) (hb : NameOK b)
    (hl : a.length = b.length) (h : isPrefixOf (getKey b) (getKey a) = true) : a = b :=
  (((key_prefix_iff hb ha).mp h).eq_of_length_le (by omega)).symm

/-- **`foobar.local` is not under `bar.local`**: two names that differ in their first label only
match exactly when the labels are equal — that one label ends (or starts) with the bytes of the
other is irrelevant. -/
theorem getKey_prefix_cons_iff {l₁ l₂ : Label} {n : Name} (h1 : l₁.length < 256)
    (h2 : l₂.length < 256) (hn : NameOK n) :
    isPrefixOf (getKey (l₂ :: n)) (getKey (l₁ :: n)) = true ↔ l₁ = l₂ := by
  have ha : NameOK (l₁ :: n) := by
    intro l hl; rcases List.mem_cons.mp hl with rfl | hl
    · exact h1
    · exact hn l hl
  have hb : NameOK (l₂ :: n) := by
    intro l hl; rcases List.mem_cons.mp hl with rfl | hl
    · exact h2
    · exact hn l hl
  constructor
  · intro h
    have := getKey_prefix_same_length ha hb (by simp) h
    exact (List.cons.inj this).1
  · rintro rfl; exact isPrefixOf_refl _

/-- the ancestors of a name form a chain: two keys that are both prefixes of a third key belong to
names one of which is at or above the other -/
theorem key_prefixes_comparable {a b c : Name} (ha : NameOK a) (hb : NameOK b) (hc : NameOK c)
    (h1 : isPrefixOf (getKey b) (getKey a) = true) (h2 : isPrefixOf (getKey c) (getKey a) = true) :
    (∃ pre, c = pre ++ b) ∨ (∃ pre, b = pre ++ c) := by
  rcases List.suffix_or_suffix_of_suffix ((key_prefix_iff hb ha).mp h1)
      ((key_prefix_iff hc ha).mp h2) with ⟨t, h⟩ | ⟨t, h⟩
  · exact .inl ⟨t, h.symm⟩
  · exact .inr ⟨t, h.symm⟩

/-- the root's key is a prefix of every key: a sub-domain look-up of the empty name lists all -/
theorem getKey_root_prefix (a : Name) : isPrefixOf (getKey []) (getKey a) = true :=
  key_prefix_of_suffix (List.nil_suffix)

/-- `foobar.local` is not under `bar.local`, `laserprinter.local` is not under `printer.local`,
nor the other way round, although the labels end with the same bytes -/
example :
    isPrefixOf (getKey [[98, 97, 114], [108, 111, 99, 97, 108]])
      (getKey [[102, 111, 111, 98, 97, 114], [108, 111, 99, 97, 108]]) = false ∧
    isPrefixOf (getKey [[102, 111, 111, 98, 97, 114], [108, 111, 99, 97, 108]])
      (getKey [[98, 97, 114], [108, 111, 99, 97, 108]]) = false ∧
    isPrefixOf (getKey [[112, 114, 105, 110, 116, 101, 114], [108, 111, 99, 97, 108]])
      (getKey [[108, 97, 115, 101, 114, 112, 114, 105, 110, 116, 101, 114], [108, 111, 99, 97, 108]])
      = false := by decide

/-- … while `foo.bar.local` is under `bar.local` (hypotheses and conclusion of
`getKey_prefix_iff` on a concrete pair) -/
example : NameOK [[102, 111, 111], [98, 97, 114], [108, 111, 99, 97, 108]] ∧
    NameOK [[98, 97, 114], [108, 111, 99, 97, 108]] ∧
    isPrefixOf (getKey [[98, 97, 114], [108, 111, 99, 97, 108]])
      (getKey [[102, 111, 111], [98, 97, 114], [108, 111, 99, 97, 108]]) = true ∧
    ([[102, 111, 111], [98, 97, 114], [108, 111, 99, 97, 108]] : Name) =
      [[102, 111, 111]] ++ [[98, 97, 114], [108, 111, 99, 97, 108]] := by decide

/-- Empty labels do not break the correspondence (it is stated for labels of 0..255 bytes): the
octet `00` of an empty label delimits it like any other length octet.  `[[], [97]]` ("`.a`" with an
empty first label) is below `[[97]]`, the name `[[]]` is not above `[[97]]`, and `[[], []]` differs
from `[[]]`. -/
theorem empty_labels_fine :
    NameOK [[], [97]] ∧ isPrefixOf (getKey [[97]]) (getKey [[], [97]]) = true ∧
    isPrefixOf (getKey [[]]) (getKey [[97]]) = false ∧ getKey [[], []] ≠ getKey [[]] := by decide

/-- The bound 256 is needed here as well, again without empty labels: the key of the one-label name
of 257 bytes `01` is a proper prefix of the key of `01.01.….01` (130 labels), which does not end with
that label. -/
theorem getKey_prefix_long_labels :
    isPrefixOf (getKey [List.replicate 257 1]) (getKey (List.replicate 130 [1])) = true ∧
    ¬ ∃ pre, (List.replicate 130 [1] : Name) = pre ++ [List.replicate 257 1] := by
  refine ⟨by decide +kernel, ?_⟩
  rintro ⟨pre, h⟩
  have hm : List.replicate 257 (1 : UInt8) ∈ (List.replicate 130 [1] : Name) := by
    rw [h]; exact List.mem_append_right _ (List.mem_singleton.mpr rfl)
  have hl := congrArg List.length (List.eq_of_mem_replicate hm)
  simp only [List.length_replicate, List.length_singleton] at hl
  omega

/-! ### 3. look-ups and replies, in terms of names -/

/-- the store holds record `x` with kind `kind` (in some bucket) -/
def Store.holds (s : Store) (x : RR) (kind : Kind) : Prop :=
  ∃ k b, (k, b) ∈ s.entries ∧ (x, kind) ∈ b

/-- holding a record as authoritative is `Store.hasAuth` of `Props/C13.lean` -/
theorem Store.holds_auth_iff {s : Store} {x : RR} : s.holds x .auth ↔ s.hasAuth x := Iff.rfl

/-- **`get_domain_resources` in terms of names** (store kept by the public operations, labels
shorter than 256 bytes): a record is returned exactly when it is stored, passes the filter and
  * exact look-up: its owner IS the queried name;
  * sub-domain look-up: its owner ends, label-wise, with the queried name, and the trie has a node
    at the queried key.
Keys have disappeared from the statement: which bucket a record sits in never matters. -/
theorem getDomain_names {s : Store} (hI : Inv s) (hS : StoreOK s) {n : Name} (hn : NameOK n)
    {f : Filter} {now : Nat} {x : RR} :
    x ∈ (s.getDomain n f now).flatten ↔
      ∃ kind, s.holds x kind ∧ f.matches kind now = true ∧
        (if f.subdomain = true then
            s.nodeExists (getKey n) = true ∧ ∃ pre, x.name = pre ++ n
         else x.name = n) := by
  rw [hI.mem_getDomain]
  constructor
  · rintro ⟨k, b, kind, hk, hx, hm, hc⟩
    have hown : getKey x.name = k := hI.owner k b hk _ hx
    have hxo : NameOK x.name := hS k b hk _ hx
    refine ⟨kind, ⟨k, b, hk, hx⟩, hm, ?_⟩
    by_cases hsub : f.subdomain = true
    · rw [if_pos hsub] at hc ⊢
      refine ⟨hc.1, (getKey_prefix_iff hxo hn).mp ?_⟩
      rw [hown]; exact hc.2
    · rw [if_neg hsub] at hc ⊢
      exact key_inj hxo hn (hown.trans hc)
  · rintro ⟨kind, ⟨k, b, hk, hx⟩, hm, hc⟩
    have hown : getKey x.name = k := hI.owner k b hk _ hx
    refine ⟨k, b, kind, hk, hx, hm, ?_⟩
    by_cases hsub : f.subdomain = true
    · rw [if_pos hsub] at hc ⊢
      obtain ⟨hne, pre, hp⟩ := hc
      refine ⟨hne, ?_⟩
      rw [← hown]
      exact key_prefix_of_suffix ⟨pre, hp.symm⟩
    · rw [if_neg hsub] at hc ⊢
      rw [← hown, hc]

/-- **Exact look-ups return records of the asked name only.** -/
theorem getDomain_exact_owner {s : Store} (hI : Inv s) (hS : StoreOK s) {n : Name} (hn : NameOK n)
    {f : Filter} (hf : f.subdomain = false) {now : Nat} {x : RR}
    (hx : x ∈ (s.getDomain n f now).flatten) : x.name = n := by
  obtain ⟨_, _, _, hc⟩ := (getDomain_names hI hS hn).mp hx
  simpa [hf] using hc

/-- **A record of another name is returned only by a sub-domain look-up, and only when its owner
lies label-wise (at least one label) below the asked name.** -/
theorem getDomain_sub_owner {s : Store} (hI : Inv s) (hS : StoreOK s) {n : Name} (hn : NameOK n)
    {f : Filter} {now : Nat} {x : RR} (hx : x ∈ (s.getDomain n f now).flatten) (hne : x.name ≠ n) :
    f.subdomain = true ∧ ∃ l pre, x.name = (l :: pre) ++ n := by
  obtain ⟨_, _, _, hc⟩ := (getDomain_names hI hS hn).mp hx
  by_cases hsub : f.subdomain = true
  · rw [if_pos hsub] at hc
    obtain ⟨_, pre, hp⟩ := hc
    refine ⟨hsub, ?_⟩
    cases pre with
    | nil => exact absurd (by simpa using hp) hne
    | cons l pre => exact ⟨l, pre, hp⟩
  · rw [if_neg hsub] at hc; exact absurd hc hne

/-- the answers collected for one question are registered records owned by the question's name or
by names that end with it, label-wise, and match its type and class -/
theorem answersFor_owner {s : Store} (hI : Inv s) (hS : StoreOK s) {qu : Question}
    (hn : NameOK qu.name) {now : Nat} {a : RR} (ha : a ∈ (answersFor s qu now).1) :
    s.hasAuth a ∧ (∃ pre, a.name = pre ++ qu.name) ∧
      a.matchQType qu.qtype = true ∧ a.matchQClass qu.qclass = true := by
  obtain ⟨hd, hcl, hty⟩ := mem_answersFor.mp ha
  obtain ⟨kind, hh, hm, hc⟩ := (getDomain_names hI hS hn).mp hd
  have hkind : kind = .auth := Filter.auth_matches.mp hm
  subst hkind
  simp only [Filter.auth, if_true] at hc
  exact ⟨hh, hc.2, hty, hcl⟩

/-- the additional records collected for one question are registered records owned by the target of
one of its SRV answers (exact look-up: the target itself, never a name below or beside it) -/
theorem extras_owner {s : Store} (hI : Inv s) (hS : StoreOK s) {qu : Question} {now : Nat}
    (hT : ∀ a ∈ (answersFor s qu now).1, ∀ t, srvTarget a.rdata = some t → NameOK t)
    {x : RR} (hx : x ∈ (answersFor s qu now).2) :
    s.hasAuth x ∧ ∃ srv ∈ (answersFor s qu now).1, srvTarget srv.rdata = some x.name := by
  simp only [answersFor, List.mem_flatMap] at hx
  obtain ⟨a, ha, hx⟩ := hx
  have ha' : a ∈ (answersFor s qu now).1 := by simpa only [answersFor] using ha
  cases ht : srvTarget a.rdata with
  | none => rw [ht] at hx; cases hx
  | some t =>
    rw [ht] at hx
    have hd := (List.mem_filter.mp hx).1
    obtain ⟨kind, hh, hm, hc⟩ := (getDomain_names hI hS (hT a ha' t ht)).mp hd
    have hkind : kind = .auth := Filter.auth_matches.mp hm
    subst hkind
    simp only [Filter.auth, Bool.false_eq_true, if_false] at hc
    exact ⟨hh, a, ha', by rw [ht, hc]⟩

/-- **C13 soundness about names**: every answer of a reply is a registered record whose owner is
some question's name preceded by zero or more labels, and matches that question's type and class.
(`reply_sound` says this with `is_subdomain_of`; here the witness `pre` is explicit.) -/
theorem reply_owner_names {q : Packet} {s : Store} {now : Nat} {r : Packet} {u : Bool}
    (hI : Inv s) (hS : StoreOK s) (hQ : ∀ qu ∈ q.questions, NameOK qu.name)
    (h : buildReply q s now = some (r, u)) :
    ∀ a ∈ r.answers, s.hasAuth a ∧ ∃ qu ∈ q.questions, (∃ pre, a.name = pre ++ qu.name) ∧
      a.matchQType qu.qtype = true ∧ a.matchQClass qu.qclass = true := by
  intro a ha
  rw [reply_answers_eq_flatMap h, List.mem_flatMap] at ha
  obtain ⟨qu, hqu, ha⟩ := ha
  obtain ⟨h1, h2, h3, h4⟩ := answersFor_owner hI hS (hQ qu hqu) ha
  exact ⟨h1, qu, hqu, h2, h3, h4⟩

/-- **A question is never answered with the records of a foreign name**: a record whose owner does
not end, label-wise, with the name of any question is not in the reply — however similar the bytes
or the text of the names are. -/
theorem reply_no_foreign_owner {q : Packet} {s : Store} {now : Nat} {r : Packet} {u : Bool}
    (hI : Inv s) (hS : StoreOK s) (hQ : ∀ qu ∈ q.questions, NameOK qu.name)
    (h : buildReply q s now = some (r, u)) {a : RR}
    (hf : ∀ qu ∈ q.questions, ∀ pre, a.name ≠ pre ++ qu.name) : a ∉ r.answers := by
  intro ha
  obtain ⟨_, qu, hqu, ⟨pre, hp⟩, _⟩ := reply_owner_names hI hS hQ h a ha
  exact hf qu hqu pre hp

/-- a query with one question for `n`: every answer is owned by `n` or by a name with at least one
more label in front of `n` -/
theorem single_question_owner {q : Packet} {s : Store} {now : Nat} {r : Packet} {u : Bool}
    (hI : Inv s) (hS : StoreOK s) {qu : Question} (hq : q.questions = [qu]) (hn : NameOK qu.name)
    (h : buildReply q s now = some (r, u)) :
    ∀ a ∈ r.answers, a.name = qu.name ∨ ∃ l pre, a.name = (l :: pre) ++ qu.name := by
  intro a ha
  have hQ : ∀ x ∈ q.questions, NameOK x.name := by
    intro x hx; rw [hq, List.mem_singleton] at hx; rw [hx]; exact hn
  obtain ⟨_, x, hx, ⟨pre, hp⟩, _⟩ := reply_owner_names hI hS hQ h a ha
  rw [hq, List.mem_singleton] at hx
  subst hx
  cases pre with
  | nil => exact .inl (by simpa using hp)
  | cons l pre => exact .inr ⟨l, pre, hp⟩

/-- for every store produced by a history of public operations on names with labels < 256 bytes -/
theorem reply_owner_names_of_reachable {q : Packet} {s : Store} {now : Nat} {r : Packet} {u : Bool}
    (hR : ReachableOK s) (hQ : ∀ qu ∈ q.questions, NameOK qu.name)
    (h : buildReply q s now = some (r, u)) :
    ∀ a ∈ r.answers, s.hasAuth a ∧ ∃ qu ∈ q.questions, (∃ pre, a.name = pre ++ qu.name) ∧
      a.matchQType qu.qtype = true ∧ a.matchQClass qu.qclass = true :=
  reply_owner_names hR.inv hR.storeOK hQ h

namespace C13KeysEx
open C13Ex

def cafe1 : Name := [[0x63, 0x61, 0x66, 0xE9], lbl]         -- caf\xE9.local
def cafe2 : Name := [[0x63, 0x61, 0x66, 0xE8], lbl]         -- caf\xE8.local
def nBar : Name := [[98, 97, 114], lbl]                     -- bar.local
def nFoobar : Name := [[102, 111, 111, 98, 97, 114], lbl]   -- foobar.local
def nFooBar : Name := [[102, 111, 111], [98, 97, 114], lbl] -- foo.bar.local

def recAt (n : Name) (ip : Nat) : RR :=
  { name := n, cls := .IN, ttl := 120, rdata := .flat 1 [.int ip], flush := false }

def kops : List Op :=
  [.addAuth (recAt cafe1 1), .addAuth (recAt cafe2 2), .addAuth (recAt nBar 3),
   .addAuth (recAt nFoobar 4), .addAuth (recAt nFooBar 5)]
def kst : Store := Store.empty.run kops

/-- the hypotheses of the theorems of this section hold of this store and these questions -/
example : ReachableOK kst := ⟨kops, by decide, rfl⟩
example : ∀ qu ∈ (query cafe1 .ANY false).questions, NameOK qu.name := by decide

/-- `caf\xE9.local` is answered with its own record, not with that of `caf\xE8.local`, and vice
versa -/
example : buildReply (query cafe1 .ANY false) kst 5 = some (reply [recAt cafe1 1] [], false) := by
  decide
example : buildReply (query cafe2 .ANY false) kst 5 = some (reply [recAt cafe2 2] [], false) := by
  decide

/-- `bar.local` is answered with its own record and that of `foo.bar.local`, not with that of
`foobar.local` -/
example : buildReply (query nBar .ANY false) kst 5 =
    some (reply [recAt nBar 3, recAt nFooBar 5] [], false) := by decide

/-- exact look-up of `bar.local`: its own record only -/
example : (kst.getDomain nBar (Filter.auth false) 5).flatten = [recAt nBar 3] := by decide

end C13KeysEx

/-! ### 4. the reply depends on the questions and the id only -/

/-- **`build_reply` reads two things of the query: the question list and `header.id`.** Known
answers, authority and additional records of the query, its opcode, response code, flag bits
(QR, AA, TC, RD, …) and OPT record are never looked at. -/
theorem buildReply_congr {q q' : Packet} (hq : q.questions = q'.questions)
    (hid : q.header.id = q'.header.id) (s : Store) (now : Nat) :
    buildReply q s now = buildReply q' s now := by
  simp only [buildReply, hq, hid]

/-- the other sections of the query never change the reply: in particular known answers do not
suppress anything, and records planted in a query are not echoed -/
theorem buildReply_depends_only_on_questions (q : Packet) (a ns ad : List RR) (s : Store)
    (now : Nat) :
    buildReply { q with answers := a, nameServers := ns, additional := ad } s now =
      buildReply q s now :=
  buildReply_congr rfl rfl s now

/-- nor do the header fields other than `id` -/
theorem buildReply_header_irrelevant (q : Packet) (op : OPCODE) (rc : RCODE) (fl : Nat)
    (opt : Option OptData) (s : Store) (now : Nat) :
    buildReply { q with header := { q.header with opcode := op, rcode := rc, flags := fl,
                                                  opt := opt } } s now =
      buildReply q s now :=
  buildReply_congr rfl rfl s now

/-- and the id is copied, nothing more: queries with the same questions get replies that differ in
`header.id` only -/
theorem buildReply_id_only {q q' : Packet} (hq : q.questions = q'.questions) (s : Store)
    (now : Nat) :
    buildReply q s now = (buildReply q' s now).map (fun p =>
      ({ p.1 with header := { p.1.header with id := q.header.id } }, p.2)) := by
  simp only [buildReply, hq]
  split <;> rfl

/-- a query stuffed with known answers, an OPT record and odd flags gets the reply of the bare
query -/
example : buildReply { C13Ex.query C13Ex.nA .ANY false with
      answers := [C13Ex.recA, C13Ex.srvB], additional := [C13Ex.recX],
      header := { id := 7, opcode := .Update, rcode := .Refused, flags := 0x0780, opt := none } }
    C13Ex.st 5 = buildReply (C13Ex.query C13Ex.nA .ANY false) C13Ex.st 5 :=
  buildReply_congr rfl rfl _ _

/-! ### 5. many questions -/

/-- the answer section of the reply (`[]` when there is no reply) -/
def replyAnswers (q : Packet) (s : Store) (now : Nat) : List RR :=
  ((buildReply q s now).map (·.1.answers)).getD []

/-- the additional section of the reply (`[]` when there is no reply) -/
def replyExtras (q : Packet) (s : Store) (now : Nat) : List RR :=
  ((buildReply q s now).map (·.1.additional)).getD []

/-- `build_reply` gives up exactly when no question has an answer -/
theorem buildReply_eq_none_iff (q : Packet) (s : Store) (now : Nat) :
    buildReply q s now = none ↔ ∀ qu ∈ q.questions, (answersFor s qu now).1 = [] := by
  rw [buildReply_eq_none, answersOf, List.flatMap_map, List.flatMap_eq_nil_iff]

/-- **There is no cut-off on the number of questions**: a reply is produced exactly when some
question — the first, the ninth, the four-hundredth — has an answer. -/
theorem buildReply_isSome_iff (q : Packet) (s : Store) (now : Nat) :
    (buildReply q s now).isSome = true ↔ ∃ qu ∈ q.questions, (answersFor s qu now).1 ≠ [] := by
  rw [Option.isSome_iff_ne_none, Ne, buildReply_eq_none_iff]
  constructor
  · intro h
    exact Classical.byContradiction fun hn =>
      h (fun qu hqu => Classical.byContradiction fun hne => hn ⟨qu, hqu, hne⟩)
  · rintro ⟨qu, hqu, hne⟩ h
    exact hne (h qu hqu)

/-- the answer section is the concatenation of the per-question answer lists, for every query
(with or without a reply) -/
theorem replyAnswers_eq (q : Packet) (s : Store) (now : Nat) :
    replyAnswers q s now = q.questions.flatMap (fun qu => (answersFor s qu now).1) := by
  unfold replyAnswers
  cases hb : buildReply q s now with
  | none =>
    have := buildReply_eq_none.mp hb
    rw [answersOf, List.flatMap_map] at this
    rw [this]; rfl
  | some p =>
    obtain ⟨r, u⟩ := p
    exact reply_answers_eq_flatMap hb

/-- a question without answers contributes no additional records -/
theorem answersFor_extras_nil {s : Store} {qu : Question} {now : Nat}
    (h : (answersFor s qu now).1 = []) : (answersFor s qu now).2 = [] := by
  simp only [answersFor] at h ⊢
  rw [h]; rfl

/-- the additional section is the deduplicated concatenation of the per-question lists -/
theorem replyExtras_eq (q : Packet) (s : Store) (now : Nat) :
    replyExtras q s now = dedupRR (q.questions.flatMap (fun qu => (answersFor s qu now).2)) := by
  unfold replyExtras
  cases hb : buildReply q s now with
  | none =>
    have h0 := (buildReply_eq_none_iff q s now).mp hb
    have : q.questions.flatMap (fun qu => (answersFor s qu now).2) = [] :=
      List.flatMap_eq_nil_iff.mpr (fun qu hqu => answersFor_extras_nil (h0 qu hqu))
    rw [this]; rfl
  | some p =>
    obtain ⟨r, u⟩ := p
    have := (buildReply_eq_some hb).2.2.1
    rw [extrasOf, List.flatMap_map] at this
    exact this

/-- `build_reply` written out with the two sections: this is the whole function -/
theorem buildReply_eq (q : Packet) (s : Store) (now : Nat) :
    buildReply q s now =
      if (replyAnswers q s now).isEmpty then none else
      some ({ header := { id := q.header.id, opcode := .StandardQuery, rcode := .NoError,
                          flags := 0x8000, opt := none },
              questions := [], answers := replyAnswers q s now, nameServers := [],
              additional := replyExtras q s now }, q.questions.any (·.unicast)) := by
  unfold replyAnswers replyExtras
  cases hb : buildReply q s now with
  | none => rfl
  | some p =>
    obtain ⟨r, u⟩ := p
    obtain ⟨h1, h2, h3, h4, h5, h6, h7⟩ := buildReply_eq_some hb
    have hne : r.answers.isEmpty = false := by
      rw [h2]; cases hl : answersOf q s now with
      | nil => exact absurd hl h1
      | cons _ _ => rfl
    simp only [Option.map_some, Option.getD_some, hne, Bool.false_eq_true, if_false]
    cases r
    simp only at h4 h5 h6
    rw [h4, h5, h6, h7]

/-- deduplication of a concatenation: the second part loses what the first already has -/
theorem dedupRR_append (l₁ l₂ : List RR) :
    dedupRR (l₁ ++ l₂) = dedupRR l₁ ++ (dedupRR l₂).filter (fun x => !l₁.any (rrEq x ·)) := by
  induction l₁ with
  | nil =>
    simp only [List.nil_append, dedupRR, List.any_nil, Bool.not_false]
    exact (List.filter_eq_self.mpr (fun _ _ => rfl)).symm
  | cons r rs ih =>
    simp only [List.cons_append, dedupRR, ih, List.filter_append, List.filter_filter,
      List.any_cons, Bool.not_or]

/-- deduplication keeps one representative of everything -/
theorem any_rrEq_dedupRR (l : List RR) (x : RR) :
    (dedupRR l).any (rrEq x ·) = l.any (rrEq x ·) := by
  rw [Bool.eq_iff_iff, List.any_eq_true, List.any_eq_true]
  constructor
  · rintro ⟨y, hy, hxy⟩; exact ⟨y, mem_dedupRR hy, hxy⟩
  · rintro ⟨y, hy, hxy⟩
    obtain ⟨y', hy', he⟩ := dedupRR_complete hy
    exact ⟨y', hy', rrEq_trans hxy he⟩

/-- **Questions `l₁ ++ l₂`: the answers are those for `l₁` followed by those for `l₂`** — nothing
is dropped, merged or reordered, whatever the number of questions. -/
theorem replyAnswers_append (q : Packet) (l₁ l₂ : List Question) (s : Store) (now : Nat) :
    replyAnswers { q with questions := l₁ ++ l₂ } s now =
      replyAnswers { q with questions := l₁ } s now ++
      replyAnswers { q with questions := l₂ } s now := by
  simp only [replyAnswers_eq, List.flatMap_append]

/-- the additional section for `l₁ ++ l₂`: that for `l₁`, then that for `l₂` without the records
the first part already has (up to the crate's record equality) -/
theorem replyExtras_append (q : Packet) (l₁ l₂ : List Question) (s : Store) (now : Nat) :
    replyExtras { q with questions := l₁ ++ l₂ } s now =
      replyExtras { q with questions := l₁ } s now ++
      (replyExtras { q with questions := l₂ } s now).filter
        (fun x => !(replyExtras { q with questions := l₁ } s now).any (rrEq x ·)) := by
  simp only [replyExtras_eq, List.flatMap_append, dedupRR_append, any_rrEq_dedupRR]

/-- a reply to `l₁ ++ l₂` exists exactly when one of the parts gets a reply -/
theorem buildReply_append_isSome (q : Packet) (l₁ l₂ : List Question) (s : Store) (now : Nat) :
    (buildReply { q with questions := l₁ ++ l₂ } s now).isSome =
      ((buildReply { q with questions := l₁ } s now).isSome ||
       (buildReply { q with questions := l₂ } s now).isSome) := by
  rw [Bool.eq_iff_iff, Bool.or_eq_true]
  simp only [buildReply_isSome_iff, List.mem_append]
  constructor
  · rintro ⟨qu, h | h, hne⟩
    · exact .inl ⟨qu, h, hne⟩
    · exact .inr ⟨qu, h, hne⟩
  · rintro (⟨qu, h, hne⟩ | ⟨qu, h, hne⟩)
    · exact ⟨qu, .inl h, hne⟩
    · exact ⟨qu, .inr h, hne⟩

/-- **The reply to the questions `l₁ ++ l₂`, from the replies to `l₁` and to `l₂`** (same id): the
answers concatenated, the additional records concatenated and deduplicated, a unicast response
asked for when either part asks for one; no reply only when neither part has an answer. -/
theorem buildReply_append (q : Packet) (l₁ l₂ : List Question) (s : Store) (now : Nat) :
    buildReply { q with questions := l₁ ++ l₂ } s now =
      if (replyAnswers { q with questions := l₁ } s now ++
          replyAnswers { q with questions := l₂ } s now).isEmpty then none else
      some ({ header := { id := q.header.id, opcode := .StandardQuery, rcode := .NoError,
                          flags := 0x8000, opt := none },
              questions := [],
              answers := replyAnswers { q with questions := l₁ } s now ++
                         replyAnswers { q with questions := l₂ } s now,
              nameServers := [],
              additional := replyExtras { q with questions := l₁ } s now ++
                (replyExtras { q with questions := l₂ } s now).filter
                  (fun x => !(replyExtras { q with questions := l₁ } s now).any (rrEq x ·)) },
            l₁.any (·.unicast) || l₂.any (·.unicast)) := by
  rw [buildReply_eq, replyAnswers_append, replyExtras_append, List.any_append]

/-- every question that has answers gets them, in one piece and in order, wherever it stands in
the query -/
theorem question_answers_sublist {q : Packet} {s : Store} {now : Nat} {qu : Question}
    (hqu : qu ∈ q.questions) (hne : (answersFor s qu now).1 ≠ []) :
    ∃ r u, buildReply q s now = some (r, u) ∧ ((answersFor s qu now).1).Sublist r.answers := by
  have hs : (buildReply q s now).isSome = true := (buildReply_isSome_iff q s now).mpr ⟨qu, hqu, hne⟩
  cases hb : buildReply q s now with
  | none => rw [hb] at hs; cases hs
  | some p =>
    obtain ⟨r, u⟩ := p
    refine ⟨r, u, rfl, ?_⟩
    rw [reply_answers_eq_flatMap hb, List.flatMap_def]
    exact List.sublist_flatten_of_mem (List.mem_map.mpr ⟨qu, hqu, rfl⟩)

namespace C13KeysEx
open C13Ex C13MoreEx

/-- a question nothing matches -/
def qNone : Question := { name := nA, qtype := .TYPE .TXT, qclass := .CLASS .IN, unicast := false }

/-- 399 questions without an answer followed by one with answers: the 400th is answered -/
example : ∃ r u, buildReply { query nA .ANY false with questions := List.replicate 399 qNone ++ [qA] }
      C13Ex.st 5 = some (r, u) ∧ [recA, srvB].Sublist r.answers := by
  have h : (answersFor C13Ex.st qA 5).1 = [recA, srvB] := by decide
  rw [← h]
  exact question_answers_sublist (List.mem_append_right _ (List.mem_singleton.mpr rfl))
    (by rw [h]; simp)

/-- `buildReply_append` on a concrete pair of question lists -/
example : replyAnswers { query nA .ANY false with questions := [qA] ++ [qNone, qA] } C13Ex.st 5 =
    [recA, srvB] ++ [recA, srvB] := by
  rw [replyAnswers_append]; decide

end C13KeysEx

end Dns.Mdns
