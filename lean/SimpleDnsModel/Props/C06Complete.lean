/-
C06, completeness of `Name::parse` from the reader's side (RFC 1035 §4.1.4).

`Props/C06.lean` states completeness for `Enc`, the relation that describes what
an encoder writes (pointers to non-empty names). A reader has to cope with every
buffer, so the relation that matters for it is `DecodesBack`: the RFC decoding
relation `Decodes` in which every pointer met on the way points strictly before
the position of that pointer itself (the model's test is `ptr ≥ s.pp → err`,
`s.pp` being the position of the pointer's first byte; it is NOT the start of
the name). Nothing else is asked: a pointer may lead to a root byte, into the
middle of other data, or to a label that runs over the bytes of the pointer
that led to it.

Result: the parser accepts `n` at `pos` **iff** `DecodesBack d pos n` and
`Name.wireLen n ≤ 255`. No further acceptance condition exists in the model:
the check `s.pos ≥ d.length` on the caller cursor is implied (the caller cursor
is either the read cursor or the second byte of the first pointer), the size
check `s.size ≥ 255` made before the terminating zero is exactly
`wireLen n ≤ 255`, and there is no separate bound on the number of labels or of
pointers.
-/
import SimpleDnsModel.Props.C06
namespace Dns

/-- `DecodesBack d off n`: an RFC 1035 decoder reads `n` at `off`, every label has 1..63 bytes,
every byte read lies inside `d`, and every compression pointer met on the way points strictly
backwards, to a position before the pointer's own position. Pointers to a root byte (empty rest),
pointers into the middle of other data, labels that overlap the pointer's own bytes are all
allowed. It is `Decodes` with one more premise in the `ptr` rule. -/
inductive DecodesBack (d : Bytes) : Nat → Name → Prop where
  | root {off} : d[off]? = some 0 → DecodesBack d off []
  | label {off} {b : UInt8} {l : Label} {rest : Name} :
      d[off]? = some b → 1 ≤ b.toNat → b.toNat ≤ 63 →
      l = (d.drop (off+1)).take b.toNat → off + 1 + b.toNat ≤ d.length →
      DecodesBack d (off + 1 + b.toNat) rest → DecodesBack d off (l :: rest)
  | ptr {off} {b b2 : UInt8} {n : Name} :
      d[off]? = some b → b.toNat &&& 0xC0 = 0xC0 → d[off+1]? = some b2 →
      (b.toNat &&& 0x3F) * 256 + b2.toNat < off →
      DecodesBack d ((b.toNat &&& 0x3F) * 256 + b2.toNat) n → DecodesBack d off n

theorem DecodesBack.toDecodes {d : Bytes} {off : Nat} {n : Name} (h : DecodesBack d off n) :
    Decodes d off n := by
  induction h with
  | root h0 => exact Decodes.root h0
  | label hb h1 h63 hl hfit _ ih => exact Decodes.label hb h1 h63 hl hfit ih
  | ptr hb hp hb2 _ _ ih => exact Decodes.ptr hb hp hb2 ih

/-- the encoder's relation is a special case of the reader's -/
theorem Enc.toDecodesBack {d : Bytes} {off : Nat} {n : Name} (h : Enc d off n) :
    DecodesBack d off n := by
  induction h with
  | root h0 => exact DecodesBack.root h0
  | label hb h1 h63 hl hfit _ ih => exact DecodesBack.label hb h1 h63 hl hfit ih
  | ptr hb hp hb2 hlt _ _ ih => exact DecodesBack.ptr hb hp hb2 hlt ih

theorem DecodesBack.lt_length {d : Bytes} {off : Nat} {n : Name} (h : DecodesBack d off n) :
    off < d.length := by
  cases h with
  | root h0 => exact lt_of_getElem?_some h0
  | label hb => exact lt_of_getElem?_some hb
  | ptr hb => exact lt_of_getElem?_some hb

/-- a position decodes backwards to at most one name -/
theorem DecodesBack.det {d : Bytes} {off : Nat} {n m : Name}
    (h1 : DecodesBack d off n) (h2 : DecodesBack d off m) : n = m :=
  Decodes.det h1.toDecodes h2.toDecodes

/-- the decoding does not depend on what follows in the buffer -/
theorem DecodesBack.append {d : Bytes} {off : Nat} {n : Name} (e : Bytes)
    (h : DecodesBack d off n) : DecodesBack (d ++ e) off n := by
  induction h with
  | root h0 => exact DecodesBack.root (getElem?_append_some h0)
  | label hb h1 h63 hl hfit _ ih =>
    refine DecodesBack.label (getElem?_append_some hb) h1 h63 ?_ (by simp; omega) ih
    rw [take_drop_append (by omega)]; exact hl
  | ptr hb hp hb2 hlt _ ih =>
    exact DecodesBack.ptr (getElem?_append_some hb) hp (getElem?_append_some hb2) hlt ih

/-! ### the loop invariants -/

namespace C06B

/-- Completeness of the loop, for any state: the read cursor is where the derivation starts, the
caller cursor is inside the message and equal to the read cursor as long as no pointer was
followed, and the size budget suffices for what is still to be read. -/
theorem nameLoop_of_DecodesBack (d : Bytes) (off : Nat) (n : Name) (h : DecodesBack d off n) :
    ∀ (s : NS), s.pp = off → s.pos < d.length → (s.follow = false → s.pos = s.pp) →
      s.size + Name.wireLen n ≤ 255 →
      ∃ p, nameLoop d s = .ok (s.labels.reverse ++ n, p) := by
  induction h with
  | @root off h0 =>
    intro s hpp hpos _ hsz
    have hlt : off < d.length := lt_of_getElem?_some h0
    unfold nameLoop
    simp [hpp, h0] at *
    refine ⟨s.pos + 1, ?_⟩
    simp [show ¬ (d.length ≤ s.pos ∨ d.length ≤ off) by omega, show ¬ 255 ≤ s.size by omega]
  | @label off b l rest hb h1 h63 hl hfit hrest ih =>
    intro s hpp hpos hfol hsz
    have hlt : off < d.length := by omega
    have hnext : off + 1 + b.toNat < d.length := hrest.lt_length
    have hbz : b ≠ 0 := UInt8.ne_zero_of_toNat_pos h1
    have hnp : ¬ (b.toNat &&& 192 = 192) := not_ptr_of_le63 h63
    have hll : l.length = b.toNat := by
      subst hl; exact length_take_drop (by omega)
    simp [hll] at hsz
    have hih := ih { pos := (if s.follow then s.pos else s.pos + b.toNat + 1),
                     pp := off + b.toNat + 1, follow := s.follow,
                     size := s.size + 1 + b.toNat, labels := l :: s.labels }
      (by simp; omega)
      (by
        by_cases hf : s.follow
        · simp [hf]; exact hpos
        · have := hfol (by simpa using hf); simp [hf]; omega)
      (by intro hf; simp at hf; have := hfol hf; simp [hf]; omega)
      (by simp; omega)
    obtain ⟨p, hp⟩ := hih
    refine ⟨p, ?_⟩
    rw [nameLoop]
    simp [hpp, hb, hbz, hnp, show ¬ (d.length ≤ s.pos ∨ d.length ≤ off) by omega,
      show ¬ 255 ≤ s.size by omega, show ¬ (d.length < off + 1 + b.toNat) by omega,
      show ¬ 63 < b.toNat by omega, ← hl]
    simpa [List.append_assoc] using hp
  | @ptr off b b2 n hb hp hb2 hlt htgt ih =>
    intro s hpp hpos hfol hsz
    have hltd : off < d.length := lt_of_getElem?_some hb
    have hlt2 : off + 1 < d.length := lt_of_getElem?_some hb2
    have hbz : b ≠ 0 := by intro h; subst h; simp at hp
    have hwl := Name.wireLen_pos n
    have hih := ih { s with pos := (if s.follow then s.pos else s.pos + 1),
                            pp := (b.toNat &&& 63) * 256 + b2.toNat, follow := true }
      (by simp)
      (by
        by_cases hf : s.follow
        · simp [hf]; exact hpos
        · have := hfol (by simpa using hf); simp [hf]; omega)
      (by intro hf; simp at hf)
      (by simpa using hsz)
    obtain ⟨p, hp'⟩ := hih
    refine ⟨p, ?_⟩
    rw [nameLoop]
    simp [hpp, hb, hbz, hp, hb2, show ¬ (d.length ≤ s.pos ∨ d.length ≤ off) by omega,
      show ¬ 255 ≤ s.size by omega, show ¬ (d.length < off + 2) by omega,
      show ¬ (off ≤ (b.toNat &&& 63) * 256 + b2.toNat) by omega]
    simpa using hp'

/-- Soundness of the loop for the backward relation: whatever the loop returns is what
`DecodesBack` gives from the read cursor, appended to the labels already collected. -/
theorem nameLoop_sound_back (d : Bytes) (s : NS) (n : Name) (p : Nat)
    (h : nameLoop d s = .ok (n, p)) :
    ∃ tail, n = s.labels.reverse ++ tail ∧ DecodesBack d s.pp tail := by
  fun_induction nameLoop d s generalizing n p
  all_goals try (simp at h; done)
  · -- terminating zero
    rename_i s _ _ hz
    simp at h
    exact ⟨[], by simp [h.1], DecodesBack.root hz⟩
  · -- pointer
    rename_i s _ _ b hb hnz hptr pos _ b2 hb2 ptr hlt ih
    obtain ⟨tail, h1, h2⟩ := ih n p h
    exact ⟨tail, h1, DecodesBack.ptr hb hptr hb2 (by simp only [ptr] at hlt; omega) h2⟩
  · -- label
    rename_i s _ _ b hb hnz hptr len hfit h63 lab ih
    obtain ⟨tail, h1, h2⟩ := ih n p h
    refine ⟨lab :: tail, by simp [h1], ?_⟩
    have hb1 : 1 ≤ b.toNat := UInt8.toNat_pos_of_ne_zero hnz
    have h2' : DecodesBack d (s.pp + 1 + b.toNat) tail := by
      have : s.pp + len + 1 = s.pp + 1 + b.toNat := by simp [len]; omega
      simpa [this] using h2
    exact DecodesBack.label hb hb1 (by omega) rfl (by omega) h2'

end C06B

/-! ### the property -/

/-- Completeness, reader's side: every position from which RFC 1035 decoding succeeds through
strictly backward pointers, to a name that fits 255 bytes, is accepted, with that name. -/
theorem name_parse_complete_back (d : Bytes) (pos : Nat) (n : Name)
    (h : DecodesBack d pos n) (hlen : Name.wireLen n ≤ 255) :
    ∃ p, Name.parse d pos = .ok (n, p) := by
  have := C06B.nameLoop_of_DecodesBack d pos n h
    { pos := pos, pp := pos, follow := false, size := 0, labels := [] }
    rfl h.lt_length (fun _ => rfl) (by simpa using hlen)
  simpa [Name.parse] using this

/-- Soundness for the backward relation: an accepted name was decoded through strictly backward
pointers only, and fits 255 bytes. -/
theorem name_parse_sound_back (d : Bytes) (pos : Nat) (n : Name) (p : Nat)
    (h : Name.parse d pos = .ok (n, p)) : DecodesBack d pos n ∧ Name.wireLen n ≤ 255 := by
  obtain ⟨tail, h1, h2⟩ := C06B.nameLoop_sound_back d _ n p h
  simp at h1; subst h1
  exact ⟨h2, (name_parse_bounds d pos n p h).2⟩

/-- Acceptance characterised: `Name::parse` accepts `n` at `pos` exactly when `n` is the RFC 1035
decoding at `pos` through strictly backward pointers and `n` fits 255 bytes. There is no further
condition. -/
theorem name_parse_iff_back (d : Bytes) (pos : Nat) (n : Name) :
    (∃ p, Name.parse d pos = .ok (n, p)) ↔ DecodesBack d pos n ∧ Name.wireLen n ≤ 255 :=
  ⟨fun ⟨p, hp⟩ => name_parse_sound_back d pos n p hp,
   fun ⟨h, hlen⟩ => name_parse_complete_back d pos n h hlen⟩

/-- ... with the returned cursor: the full result of the parser is determined by the three
relations. -/
theorem name_parse_eq_iff_back (d : Bytes) (pos : Nat) (n : Name) (p : Nat) :
    Name.parse d pos = .ok (n, p) ↔
      DecodesBack d pos n ∧ Name.wireLen n ≤ 255 ∧ InPlaceEnd d pos p := by
  constructor
  · intro h
    obtain ⟨h1, h2⟩ := name_parse_sound_back d pos n p h
    exact ⟨h1, h2, (name_parse_cursor d pos n p h).1⟩
  · intro ⟨h1, h2, h3⟩
    obtain ⟨q, hq⟩ := name_parse_complete_back d pos n h1 h2
    rw [hq, InPlaceEnd.det (name_parse_cursor d pos n q hq).1 h3]

/-- Rejection characterised: the parser returns `Err` exactly when no name of at most 255 bytes
decodes backwards at `pos`. -/
theorem name_parse_err_iff_back (d : Bytes) (pos : Nat) :
    Name.parse d pos = .err ↔ ¬ ∃ n, DecodesBack d pos n ∧ Name.wireLen n ≤ 255 := by
  constructor
  · intro h ⟨n, hn, hlen⟩
    obtain ⟨p, hp⟩ := name_parse_complete_back d pos n hn hlen
    rw [h] at hp; cases hp
  · intro h
    exact Name.parse_err_of_not_ok fun n p hp => h ⟨n, name_parse_sound_back d pos n p hp⟩

/-- The existing completeness theorem of `Props/C06.lean` (for `Enc`) is an instance. -/
theorem name_parse_complete_of_back (d : Bytes) (pos : Nat) (n : Name)
    (h : Enc d pos n) (hlen : Name.wireLen n ≤ 255) : ∃ p, Name.parse d pos = .ok (n, p) :=
  name_parse_complete_back d pos n h.toDecodesBack hlen

/-! ### concrete buffers -/

/-- a root byte at 0, and at 1 a pointer to it: the empty name written as a pointer (`Enc` has
no derivation for it: its pointers lead to non-empty names) -/
def exRootPtr : Bytes := [0, 0xC0, 0]

theorem exRootPtr_back : DecodesBack exRootPtr 1 [] :=
  DecodesBack.ptr (b := 0xC0) (b2 := 0) rfl (by decide) rfl (by decide) (DecodesBack.root rfl)

theorem exRootPtr_parse : Name.parse exRootPtr 1 = .ok ([], 3) :=
  (name_parse_eq_iff_back _ _ _ _).2
    ⟨exRootPtr_back, by decide, InPlaceEnd.ptr (b := 0xC0) rfl (by decide)⟩

example : ∃ p, Name.parse exRootPtr 1 = .ok ([], p) :=
  name_parse_complete_back _ _ _ exRootPtr_back (by decide)

theorem exRootPtr_not_Enc : ¬ Enc exRootPtr 1 [] := by
  intro h
  cases h with
  | root h0 => simp [exRootPtr] at h0
  | ptr _ _ _ _ hne _ => exact hne rfl

/-- `a` at 0, then three pointers, each to the one before: 7 → 5 → 3 → 0 -/
def exChain3 : Bytes := [1, 97, 0, 0xC0, 0, 0xC0, 3, 0xC0, 5]

theorem exChain3_back : DecodesBack exChain3 7 [[97]] :=
  DecodesBack.ptr (b := 0xC0) (b2 := 5) rfl (by decide) rfl (by decide)
    (DecodesBack.ptr (b := 0xC0) (b2 := 3) rfl (by decide) rfl (by decide)
      (DecodesBack.ptr (b := 0xC0) (b2 := 0) rfl (by decide) rfl (by decide)
        (DecodesBack.label (b := 1) rfl (by decide) (by decide) rfl (by decide)
          (DecodesBack.root rfl))))

theorem exChain3_parse : Name.parse exChain3 7 = .ok ([[97]], 9) :=
  (name_parse_eq_iff_back _ _ _ _).2
    ⟨exChain3_back, by decide, InPlaceEnd.ptr (b := 0xC0) rfl (by decide)⟩

example : ∃ p, Name.parse exChain3 7 = .ok ([[97]], p) :=
  name_parse_complete_back _ _ _ exChain3_back (by decide)

/-- at 1 a pointer to 0; at 0 a label of two bytes, which are the two bytes of that very pointer;
then the root byte at 3 -/
def exOverlap : Bytes := [2, 0xC0, 0, 0]

theorem exOverlap_back : DecodesBack exOverlap 1 [[0xC0, 0]] :=
  DecodesBack.ptr (b := 0xC0) (b2 := 0) rfl (by decide) rfl (by decide)
    (DecodesBack.label (b := 2) rfl (by decide) (by decide) rfl (by decide)
      (DecodesBack.root rfl))

theorem exOverlap_parse : Name.parse exOverlap 1 = .ok ([[0xC0, 0]], 3) :=
  (name_parse_eq_iff_back _ _ _ _).2
    ⟨exOverlap_back, by decide, InPlaceEnd.ptr (b := 0xC0) rfl (by decide)⟩

example : ∃ p, Name.parse exOverlap 1 = .ok ([[0xC0, 0]], p) :=
  name_parse_complete_back _ _ _ exOverlap_back (by decide)

/-- a pointer into the middle of a label: offset 2 of `www.com` is the byte `119`, which read as a
length byte does not fit the message, but offset 5 is `99` ... the pointer at 9 goes to offset 4,
the start of `com`, and the pointer at 11 to offset 8, the root byte of that same name -/
def exMiddle : Bytes := [3, 119, 119, 119, 3, 99, 111, 109, 0, 0xC0, 4, 0xC0, 8]

theorem exMiddle_back_com : DecodesBack exMiddle 9 [[99, 111, 109]] :=
  DecodesBack.ptr (b := 0xC0) (b2 := 4) rfl (by decide) rfl (by decide)
    (DecodesBack.label (b := 3) rfl (by decide) (by decide) rfl (by decide)
      (DecodesBack.root rfl))

theorem exMiddle_back_root : DecodesBack exMiddle 11 [] :=
  DecodesBack.ptr (b := 0xC0) (b2 := 8) rfl (by decide) rfl (by decide) (DecodesBack.root rfl)

example : Name.parse exMiddle 9 = .ok ([[99, 111, 109]], 11) :=
  (name_parse_eq_iff_back _ _ _ _).2
    ⟨exMiddle_back_com, by decide, InPlaceEnd.ptr (b := 0xC0) rfl (by decide)⟩

example : Name.parse exMiddle 11 = .ok ([], 13) :=
  (name_parse_eq_iff_back _ _ _ _).2
    ⟨exMiddle_back_root, by decide, InPlaceEnd.ptr (b := 0xC0) rfl (by decide)⟩

/-- The backward premise cannot be dropped: `[0xC0, 2, 0]` at 0 is a forward pointer to a root
byte; RFC decoding gives the empty name, `DecodesBack` has no derivation, the parser rejects. -/
def exForward : Bytes := [0xC0, 2, 0]

theorem exForward_Decodes : Decodes exForward 0 [] :=
  Decodes.ptr (b := 0xC0) (b2 := 2) rfl (by decide) rfl (Decodes.root rfl)

theorem exForward_not_back : ¬ ∃ n, DecodesBack exForward 0 n := by
  intro ⟨n, h⟩
  cases h with
  | root h0 => simp [exForward] at h0
  | label hb _ h63 _ _ _ => simp [exForward] at hb; subst hb; simp at h63
  | ptr _ _ _ hlt _ => omega

example : Name.parse exForward 0 = .err :=
  (name_parse_err_iff_back _ _).2 fun ⟨n, h, _⟩ => exForward_not_back ⟨n, h⟩

/-- The size premise is exact: 254 bytes of labels and the root byte are accepted through the
theorem (`Name.write` of a well-formed name of wire length 255) ... -/
def exMax : Name := List.replicate 3 (List.replicate 63 97) ++ [List.replicate 61 97]

example : Name.wireLen exMax = 255 := by decide

example : ∃ p, Name.parse ([] ++ (Name.write exMax ++ [])) 0 = .ok (exMax, p) :=
  name_parse_complete_back _ _ _ (Name.write_Enc exMax (by decide) [] []).1.toDecodesBack
    (by decide)

/-- ... and one byte more is rejected although it decodes backwards (no pointer at all). -/
def exMaxPlus : Name := List.replicate 3 (List.replicate 63 97) ++ [List.replicate 62 97]

example : DecodesBack ([] ++ (Name.write exMaxPlus ++ [])) 0 exMaxPlus ∧
    Name.wireLen exMaxPlus = 256 ∧ Name.parse ([] ++ (Name.write exMaxPlus ++ [])) 0 = .err := by
  have hb : DecodesBack ([] ++ (Name.write exMaxPlus ++ [])) 0 exMaxPlus :=
    (Name.write_Enc exMaxPlus (by decide) [] []).1.toDecodesBack
  refine ⟨hb, by decide, (name_parse_err_iff_back _ _).2 ?_⟩
  intro ⟨n, hn, hlen⟩
  have : n = exMaxPlus := DecodesBack.det hn hb
  subst this
  exact absurd hlen (by decide)

end Dns
