/-
C03 for ANY packet — "Serialising any packet with name compression enabled yields bytes that parse
to exactly the same packet as its uncompressed serialisation."

Props/C03.lean proves the "same packet" half through the round trip, hence only for `Packet.WF`.
Here the two byte strings are compared directly, by a simulation of the parser on both: no round
trip, so the packet need not read back as itself.

Main theorem: `Dns.compressed_parse_eq_plain`
    p.NameSafe → p.build = .ok b → p.buildCompressed = .ok c → Packet.parse c = Packet.parse b
(equality of outcomes: the same packet, or the same failure).

`Packet.NameSafe` (decidable, implied by `Packet.WF`: `Packet.WF.nameSafe`) asks
  * `Name.WF` of question names, owner names and of the names the parser will read in RDATA;
  * that those names sit where the parser looks for them: the fields of a name-carrying schema
    have the right shape up to its last name (`SafeAll` / `FieldSafe`), opaque RDATA does not carry
    the code of a name-carrying type (`nameFree`);
  * RDATA of at most 65 535 bytes, at most 65 535 questions.
Nothing is asked of the header, TTLs, classes, integer ranges, TXT / SVCB / NSEC / OPT contents, the
fields after the last name of a schema, or the number of records (the 16-bit counts may wrap).

The statement suggested in the brief ("all names are `Name.WF`" as the only hypothesis) is FALSE:
`names_wf_not_enough` (from `cexOpaque`). Each extra clause is shown necessary by a checked
counterexample: `cexLabel` (a name outside `Name.WF`), `cexOpaque` (opaque bytes under the code of
CNAME), `cexShape` (a value of the wrong shape in front of a name), `cexCharStr` (a 256-byte
character-string in front of a name), `cexLong` (65 538 bytes of RDATA). For more than 65 535
questions QDCOUNT wraps and the record parser starts inside the question section, where later
repeated names are pointers in one message and text in the other; that counterexample needs 65 536
questions and is not machine-checked here.

Method: a cursor in the compressed message and a cursor in the plain message are "at the same
site" when the bytes before them are what the two writers had emitted at the same point
(`RRState`), with the suffix-table invariant `TInv` of Lemmas/RoundTripA for the compressed
prefix. Names at a site parse to the same name in both (`compressed_name_roundtrip`,
`Name.parse_write`); everything that is not a name is read from the bytes at the cursor alone, so
equal bytes give equal values wherever they sit (the `_shift` lemmas); RDLENGTH differs but both
RDATA windows decode field by field to the same values (`decAll_sim`); `liftOpt` / `extractOpt`
act on the parsed values.

Concrete messages are run through `packetParse_eq`: `Packet.parse` with the name loop (well-founded
recursion, opaque to `decide`) replaced by its step-budgeted copy `nameLoopFuel`.
-/
import SimpleDnsModel.Props.C03Length
import SimpleDnsModel.Props.C01Cost
namespace Dns
namespace C03Any

/-! ### 0. small facts -/

/-- `n as u16` before `to_be_bytes`: the two bytes only depend on `n % 65536` -/
theorem beN2_mod' (n : Nat) : beN 2 n = beN 2 (n % 65536) := by
  have h1 : UInt8.ofNat (n / 256) = UInt8.ofNat (n % 65536 / 256) :=
    UInt8.toNat_inj.mp (by simp [UInt8.toNat_ofNat']; omega)
  have h2 : UInt8.ofNat (n % 256) = UInt8.ofNat (n % 65536 % 256) :=
    UInt8.toNat_inj.mp (by simp [UInt8.toNat_ofNat'])
  simp [beN, h1, h2]

/-- `n as u16`: two values that agree modulo 65536 are stored as the same two bytes -/
theorem beN2_congr {a b : Nat} (h : a % 65536 = b % 65536) : beN 2 a = beN 2 b := by
  rw [beN2_mod' a, beN2_mod' b, h]

/-- reading back a 16-bit field gives the stored value modulo 65536 (`as u16` truncates) -/
theorem deN_beN2 (n : Nat) : deN (beN 2 n) = n % 65536 := by
  rw [beN2_mod', deN_beN 2 _ (by have := Nat.mod_lt n (show 0 < 65536 by decide); simpa using this)]

/-- move the cursor of a result `k` bytes to the right -/
def shiftP {α : Type} (k : Nat) : Out (α × Nat) → Out (α × Nat)
  | .ok (a, p) => .ok (a, k + p)
  | .err => .err
  | .panic => .panic

/-- `shiftP` on the three outcomes -/
@[simp] theorem shiftP_ok {α : Type} (k : Nat) (a : α) (p : Nat) :
    shiftP k (.ok (a, p)) = .ok (a, k + p) := rfl
/-- an `Err` has no cursor to move -/
@[simp] theorem shiftP_err {α : Type} (k : Nat) : shiftP k (.err : Out (α × Nat)) = .err := rfl
/-- a panic has no cursor to move -/
@[simp] theorem shiftP_panic {α : Type} (k : Nat) : shiftP k (.panic : Out (α × Nat)) = .panic := rfl

/-- `data[a..b]` behind a prefix is the same slice of the rest of the buffer -/
theorem slice_shift (pre tl : Bytes) (a b : Nat) :
    slice (pre ++ tl) (pre.length + a) (pre.length + b) = slice tl a b := by
  unfold slice
  by_cases h : a ≤ b ∧ b ≤ tl.length
  · rw [if_pos h, if_pos (by simp; omega)]
    rw [List.drop_append, show pre.length + b - (pre.length + a) = b - a by omega,
      List.drop_eq_nil_of_le (by omega)]
    simp
  · rw [if_neg h, if_neg (by simp; omega)]

/-- `data[i]` behind a prefix is the same byte of the rest of the buffer -/
theorem idx_shift (pre tl : Bytes) (i : Nat) : idx (pre ++ tl) (pre.length + i) = idx tl i := by
  unfold idx
  rw [List.getElem?_append_right (by omega)]
  simp

/-! ### 1. parsers that do not follow pointers only see the bytes from the cursor on -/

theorem CharStr.parse_shift (pre tl : Bytes) (k : Nat) :
    CharStr.parse (pre ++ tl) (pre.length + k) = shiftP pre.length (CharStr.parse tl k) := by
  unfold CharStr.parse
  by_cases h : k ≥ tl.length
  · rw [if_pos h, if_pos (by simp; omega)]; rfl
  · rw [if_neg h, if_neg (by simp; omega), idx_shift]
    cases hi : idx tl k with
    | err => rfl
    | panic => rfl
    | ok lb =>
      simp only [Out.bind_ok]
      by_cases h2 : lb.toNat > 255 ∨ lb.toNat + k + 1 > tl.length
      · rw [if_pos h2, if_pos (by simp; omega)]; rfl
      · rw [if_neg h2, if_neg (by simp; omega)]
        rw [show pre.length + k + 1 = pre.length + (k + 1) by omega,
          show pre.length + (k + 1) + lb.toNat = pre.length + (k + 1 + lb.toNat) by omega,
          slice_shift]
        cases slice tl (k + 1) (k + 1 + lb.toNat) with
        | err => rfl
        | panic => rfl
        | ok s => simp; omega

/-- the TXT string loop only sees the bytes from the cursor on -/
theorem strsLoop_shift (pre tl : Bytes) (k : Nat) (acc : List Bytes) :
    strsLoop (pre ++ tl) (pre.length + k) acc = shiftP pre.length (strsLoop tl k acc) := by
  induction hn : tl.length - k using Nat.strongRecOn generalizing k acc with
  | _ n ih =>
    rw [strsLoop, strsLoop.eq_def tl]
    by_cases h : k < tl.length
    · rw [dif_pos h, dif_pos (by simp; omega)]
      have hs := CharStr.parse_shift pre tl k
      split
      · rename_i s p hcs
        rw [hs] at hcs
        split
        · rename_i s' p' hcs'
          rw [hcs'] at hcs
          simp at hcs
          obtain ⟨rfl, rfl⟩ := hcs
          have := CharStr.parse_advances hcs'
          exact ih (tl.length - p') (by omega) p' _ rfl
        · rename_i hcs'; rw [hcs'] at hcs; cases hcs
        · rename_i hcs'; rw [hcs'] at hcs; cases hcs
      · rename_i hcs
        rw [hs] at hcs
        split
        · rename_i hcs'; rw [hcs'] at hcs; cases hcs
        · rfl
        · rename_i hcs'; rw [hcs'] at hcs; cases hcs
      · rename_i hcs
        rw [hs] at hcs
        split
        · rename_i hcs'; rw [hcs'] at hcs; cases hcs
        · rename_i hcs'; rw [hcs'] at hcs; cases hcs
        · rfl
    · rw [dif_neg h, dif_neg (by simp; omega)]
      rfl

/-- one (key, length, value) item of NSEC / SVCB / OPT only sees the bytes from the cursor on -/
theorem tlvOne_shift (pre tl : Bytes) (kw lw : Nat) (strict : Bool) (prev : Option Nat) (k : Nat) :
    tlvOne (pre ++ tl) kw lw strict prev (pre.length + k)
      = shiftP pre.length (tlvOne tl kw lw strict prev k) := by
  unfold tlvOne
  by_cases h : k + kw + lw > tl.length
  · rw [if_pos h, if_pos (by simp; omega)]; rfl
  · rw [if_neg h, if_neg (by simp; omega)]
    rw [show pre.length + k + kw = pre.length + (k + kw) by omega,
      show pre.length + (k + kw) + lw = pre.length + (k + kw + lw) by omega,
      slice_shift, slice_shift]
    cases slice tl k (k + kw) with
    | err => rfl
    | panic => rfl
    | ok kb =>
      simp only [Out.bind_ok]
      cases slice tl (k + kw) (k + kw + lw) with
      | err => rfl
      | panic => rfl
      | ok lb =>
        simp only [Out.bind_ok]
        split
        · rfl
        · by_cases h2 : k + kw + lw + deN lb > tl.length
          · rw [if_pos h2, if_pos (by simp; omega)]; rfl
          · rw [if_neg h2, if_neg (by simp; omega)]
            rw [show pre.length + (k + kw + lw) + deN lb = pre.length + (k + kw + lw + deN lb) by omega,
              slice_shift]
            cases slice tl (k + kw + lw) (k + kw + lw + deN lb) with
            | err => rfl
            | panic => rfl
            | ok v => rfl

/-- the NSEC window / SVCB parameter loop only sees the bytes from the cursor on -/
theorem tlvsLoop_shift (pre tl : Bytes) (kw lw : Nat) (strict : Bool) (k : Nat)
    (acc : List (Nat × Bytes)) :
    tlvsLoop (pre ++ tl) kw lw strict (pre.length + k) acc
      = shiftP pre.length (tlvsLoop tl kw lw strict k acc) := by
  induction hn : tl.length - k using Nat.strongRecOn generalizing k acc with
  | _ n ih =>
    rw [tlvsLoop, tlvsLoop.eq_def tl]
    by_cases hk : kw + lw = 0
    · rw [dif_pos hk, dif_pos hk]; rfl
    rw [dif_neg hk, dif_neg hk]
    by_cases h : k < tl.length
    · rw [dif_pos h, dif_pos (by simp; omega)]
      have hs := tlvOne_shift pre tl kw lw strict (acc.head?.map (·.1)) k
      split
      · rename_i s p hcs
        rw [hs] at hcs
        split
        · rename_i s' p' hcs'
          rw [hcs'] at hcs
          simp at hcs
          obtain ⟨rfl, rfl⟩ := hcs
          have := tlvOne_advances (by omega) hcs'
          exact ih (tl.length - p') (by omega) p' _ rfl
        · rename_i hcs'; rw [hcs'] at hcs; cases hcs
        · rename_i hcs'; rw [hcs'] at hcs; cases hcs
      · rename_i hcs
        rw [hs] at hcs
        split
        · rename_i hcs'; rw [hcs'] at hcs; cases hcs
        · rfl
        · rename_i hcs'; rw [hcs'] at hcs; cases hcs
      · rename_i hcs
        rw [hs] at hcs
        split
        · rename_i hcs'; rw [hcs'] at hcs; cases hcs
        · rename_i hcs'; rw [hcs'] at hcs; cases hcs
        · rfl
    · rw [dif_neg h, dif_neg (by simp; omega)]
      rfl

/-- the OPT option loop only sees the bytes from the cursor on -/
theorem optLoop_shift (pre tl : Bytes) (k : Nat) (acc : List (Nat × Bytes)) :
    optLoop (pre ++ tl) (pre.length + k) acc = shiftP pre.length (optLoop tl k acc) := by
  induction hn : tl.length - k using Nat.strongRecOn generalizing k acc with
  | _ n ih =>
    rw [optLoop, optLoop.eq_def tl]
    by_cases h : k < tl.length
    · rw [dif_pos h, dif_pos (by simp; omega)]
      have hs := tlvOne_shift pre tl 2 2 false none k
      split
      · rename_i s p hcs
        rw [hs] at hcs
        split
        · rename_i s' p' hcs'
          rw [hcs'] at hcs
          simp at hcs
          obtain ⟨rfl, rfl⟩ := hcs
          have := tlvOne_advances (by omega) hcs'
          exact ih (tl.length - p') (by omega) p' _ rfl
        · rename_i hcs'; rw [hcs'] at hcs; cases hcs
        · rename_i hcs'; rw [hcs'] at hcs; cases hcs
      · rename_i hcs
        rw [hs] at hcs
        split
        · rename_i hcs'; rw [hcs'] at hcs; cases hcs
        · rfl
        · rename_i hcs'; rw [hcs'] at hcs; cases hcs
      · rename_i hcs
        rw [hs] at hcs
        split
        · rename_i hcs'; rw [hcs'] at hcs; cases hcs
        · rename_i hcs'; rw [hcs'] at hcs; cases hcs
        · rfl
    · rw [dif_neg h, dif_neg (by simp; omega)]
      rfl

/-- the field is an embedded domain name -/
def isName : FKind → Bool
  | .name _ => true
  | _ => false

/-- some field of the schema is a domain name -/
def hasName : List FKind → Bool
  | [] => false
  | k :: ks => isName k || hasName ks

/-- a field that is not a domain name is decoded from the bytes at the cursor alone: the same bytes
after another prefix give the same value, the cursor moved by the difference of the prefixes -/
theorem decField_shift (pre tl : Bytes) (kd : FKind) (hk : isName kd = false) (k : Nat) :
    decField (pre ++ tl) kd (pre.length + k) = shiftP pre.length (decField tl kd k) := by
  cases kd with
  | int w =>
    simp only [decField]
    by_cases h : k + w > tl.length
    · rw [if_pos h, if_pos (by simp; omega)]; rfl
    · rw [if_neg h, if_neg (by simp; omega),
        show pre.length + k + w = pre.length + (k + w) by omega, slice_shift]
      cases slice tl k (k + w) <;> simp <;> omega
  | charstr =>
    simp only [decField, CharStr.parse_shift]
    cases CharStr.parse tl k with
    | ok r => obtain ⟨s, p⟩ := r; rfl
    | err => rfl
    | panic => rfl
  | name c => simp [isName] at hk
  | rest =>
    simp only [decField, List.length_append, slice_shift]
    cases slice tl k tl.length <;> simp
  | strs =>
    simp only [decField, strsLoop_shift]
    cases strsLoop tl k [] with
    | ok r => obtain ⟨s, p⟩ := r; rfl
    | err => rfl
    | panic => rfl
  | tlvs kw lw strict =>
    simp only [decField, tlvsLoop_shift]
    cases tlvsLoop tl kw lw strict k [] with
    | ok r => obtain ⟨s, p⟩ := r; rfl
    | err => rfl
    | panic => rfl

/-- the same for all fields of a schema without names -/
theorem decAll_shift (pre tl : Bytes) (ks : List FKind) (hk : hasName ks = false) (k : Nat) :
    decAll (pre ++ tl) ks (pre.length + k) = shiftP pre.length (decAll tl ks k) := by
  induction ks generalizing k with
  | nil => rfl
  | cons kd ks ih =>
    simp only [hasName, Bool.or_eq_false_iff] at hk
    simp only [decAll, decField_shift pre tl kd hk.1]
    cases decField tl kd k with
    | err => rfl
    | panic => rfl
    | ok r =>
      obtain ⟨v, p⟩ := r
      simp only [shiftP_ok, Out.bind_ok, ih hk.2]
      cases decAll tl ks p with
      | ok r => obtain ⟨vs, p'⟩ := r; rfl
      | err => rfl
      | panic => rfl

/-- types whose RDATA parser never reads a domain name -/
def nameFree (t : TYPE) : Bool :=
  match t with
  | .IPSECKEY => false
  | .NULL => true
  | .Unknown _ => true
  | .OPT => true
  | t =>
    match schemaOf t.toCode with
    | some ks => !hasName ks
    | none => true

/-- the RDATA parser of a type that holds no names (`A`, `TXT`, `CAA`, `NULL`, unknown types, …) reads
the RDATA bytes alone: it returns the same value wherever in a message those bytes sit -/
theorem parseTyped_shift (pre tl : Bytes) (t : TYPE) (ht : nameFree t = true) (k : Nat) :
    parseTyped (pre ++ tl) (pre.length + k) t = shiftP pre.length (parseTyped tl k t) := by
  unfold parseTyped
  unfold nameFree at ht
  split
  · simp at ht
  · simp only [List.length_append, slice_shift]
    cases slice tl k tl.length with
    | err => rfl
    | panic => rfl
    | ok s =>
      simp only [Out.bind_ok]
      split
      · rfl
      · simp; omega
  · simp only [List.length_append, slice_shift]
    cases slice tl k tl.length with
    | err => rfl
    | panic => rfl
    | ok s =>
      simp only [Out.bind_ok]
      split
      · rfl
      · simp; omega
  · rfl
  · rename_i t h1 h2 h3 h4
    split
    · rfl
    · rename_i ks hks
      split at ht
      · exact absurd rfl h1
      · exact absurd rfl h2
      · exact absurd rfl (h3 _)
      · exact absurd rfl h4
      · rw [hks] at ht
        simp only [Bool.not_eq_eq_eq_not, Bool.not_true] at ht
        rw [decAll_shift pre tl ks ht]
        cases decAll tl ks k with
        | err => rfl
        | panic => rfl
        | ok r =>
          obtain ⟨vs, p⟩ := r
          simp only [shiftP_ok, Out.bind_ok]
          split <;> rfl

/-- `OPT::parse` only sees the bytes from the TYPE field of its record on -/
theorem optParse_shift (pre tl : Bytes) (k : Nat) :
    optParse (pre ++ tl) (pre.length + k) = shiftP pre.length (optParse tl k) := by
  unfold optParse
  by_cases h : k + 10 > tl.length
  · rw [if_pos h, if_pos (by simp; omega)]; rfl
  · rw [if_neg h, if_neg (by simp; omega)]
    rw [show pre.length + k + 2 = pre.length + (k + 2) by omega,
      show pre.length + k + 4 = pre.length + (k + 4) by omega,
      show pre.length + k + 8 = pre.length + (k + 8) by omega,
      show pre.length + k + 10 = pre.length + (k + 10) by omega,
      slice_shift, slice_shift, optLoop_shift]
    cases slice tl (k + 2) (k + 4) with
    | err => rfl
    | panic => rfl
    | ok ub =>
      cases slice tl (k + 4) (k + 8) with
      | err => rfl
      | panic => rfl
      | ok tb =>
        simp only [Out.bind_ok]
        cases optLoop tl (k + 10) [] with
        | err => rfl
        | panic => rfl
        | ok r => obtain ⟨codes, p⟩ := r; rfl

/-- the OPT option loop stops exactly at the end of the buffer it was given -/
theorem optLoop_end' {d : Bytes} {pos : Nat} {acc xs : List (Nat × Bytes)} {p : Nat}
    (hp : pos ≤ d.length) (h : optLoop d pos acc = .ok (xs, p)) : p = d.length := by
  induction hn : d.length - pos using Nat.strongRecOn generalizing pos acc with
  | _ n ih =>
    rw [optLoop] at h
    split at h
    · split at h
      · rename_i x p' hone
        have := tlvOne_advances (by omega) hone
        have hle : p' ≤ d.length := by
          unfold tlvOne at hone
          split at hone
          · cases hone
          · obtain ⟨kb, _, hone⟩ := Out.bind_eq_ok hone
            obtain ⟨lb, _, hone⟩ := Out.bind_eq_ok hone
            split at hone
            · cases hone
            · split at hone
              · cases hone
              · obtain ⟨v, _, hone⟩ := Out.bind_eq_ok hone
                simp at hone; omega
        exact ih (d.length - p') (by omega) hle h rfl
      · cases h
      · cases h
    · cases h; omega

/-- a successful `OPT::parse` stops at the end of the record -/
theorem optParse_end' {d : Bytes} {pos : Nat} {rd : RData} {p : Nat}
    (h : optParse d pos = .ok (rd, p)) : p = d.length := by
  unfold optParse at h
  split at h
  · cases h
  · obtain ⟨ub, _, h⟩ := Out.bind_eq_ok h
    obtain ⟨tb, _, h⟩ := Out.bind_eq_ok h
    dsimp only at h
    obtain ⟨⟨codes, q⟩, hl, h⟩ := Out.bind_eq_ok h
    cases h
    exact optLoop_end' (by omega) hl

/-- `IPSECKEY::parse` only sees the bytes from the cursor on, provided the gateway name (if the
gateway is a name) does -/
theorem ipseckeyParse_shift (pre tl : Bytes) (k : Nat)
    (hname : ∀ gt, idx tl (k + 1) = .ok gt → gt.toNat = 3 →
      Name.parse (pre ++ tl) (pre.length + (k + 3)) = shiftP pre.length (Name.parse tl (k + 3))) :
    ipseckeyParse (pre ++ tl) (pre.length + k) = shiftP pre.length (ipseckeyParse tl k) := by
  unfold ipseckeyParse
  by_cases h : k + 3 > tl.length
  · rw [if_pos h, if_pos (by simp; omega)]; rfl
  · rw [if_neg h, if_neg (by simp; omega)]
    rw [show pre.length + k + 1 = pre.length + (k + 1) by omega,
      show pre.length + k + 2 = pre.length + (k + 2) by omega,
      show pre.length + k + 3 = pre.length + (k + 3) by omega,
      idx_shift, idx_shift, idx_shift]
    cases idx tl k with
    | err => rfl
    | panic => rfl
    | ok a =>
      cases hg : idx tl (k + 1) with
      | err => rfl
      | panic => rfl
      | ok gt =>
        cases idx tl (k + 2) with
        | err => rfl
        | panic => rfl
        | ok c =>
          simp only [Out.bind_ok]
          have hname := hname gt hg
          generalize gt.toNat = g at hname
          have hfin : ∀ (x : Out (Gateway × Nat)),
              ((shiftP pre.length x >>= fun (r : Gateway × Nat) =>
                  (slice (pre ++ tl) r.2 (pre ++ tl).length >>= fun key =>
                    (pure (RData.ipseckey a.toNat c.toNat r.1 key, (pre ++ tl).length)
                      : Out (RData × Nat))))
                = shiftP pre.length (x >>= fun (r : Gateway × Nat) =>
                  (slice tl r.2 tl.length >>= fun key =>
                    (pure (RData.ipseckey a.toNat c.toNat r.1 key, tl.length)
                      : Out (RData × Nat))))) := by
            intro x
            cases x with
            | err => rfl
            | panic => rfl
            | ok r =>
              obtain ⟨gw, q⟩ := r
              simp only [shiftP_ok, Out.bind_ok, List.length_append, slice_shift]
              cases slice tl q tl.length <;> simp
          rcases g with _ | _ | _ | _ | g
          · exact hfin (.ok (Gateway.none, k + 3))
          · simp only [List.length_append]
            by_cases h4 : tl.length < k + 3 + 4
            · rw [if_pos h4, if_pos (by omega)]; rfl
            · rw [if_neg h4, if_neg (by omega),
                show pre.length + (k + 3) + 4 = pre.length + (k + 3 + 4) by omega, slice_shift]
              cases hs : slice tl (k + 3) (k + 3 + 4) with
              | err => rfl
              | panic => rfl
              | ok s =>
                have := hfin (.ok (Gateway.v4 (deN s), k + 3 + 4))
                simp only [shiftP_ok, Out.bind_ok, Out.pure_eq, List.length_append] at this ⊢
                exact this
          · simp only [List.length_append]
            by_cases h4 : tl.length < k + 3 + 16
            · rw [if_pos h4, if_pos (by omega)]; rfl
            · rw [if_neg h4, if_neg (by omega),
                show pre.length + (k + 3) + 16 = pre.length + (k + 3 + 16) by omega, slice_shift]
              cases hs : slice tl (k + 3) (k + 3 + 16) with
              | err => rfl
              | panic => rfl
              | ok s =>
                have := hfin (.ok (Gateway.v6 (deN s), k + 3 + 16))
                simp only [shiftP_ok, Out.bind_ok, Out.pure_eq, List.length_append] at this ⊢
                exact this
          · simp only [hname rfl]
            cases hn : Name.parse tl (k + 3) with
            | err => rfl
            | panic => rfl
            | ok r =>
              obtain ⟨n, q⟩ := r
              exact hfin (.ok (Gateway.domain n, q))
          · rfl

/-! ### 2. the fields of an RDATA schema, compressed against plain -/

/-- forget the cursor of a result -/
def fstO {α : Type} : Out (α × Nat) → Out α
  | .ok (a, _) => .ok a
  | .err => .err
  | .panic => .panic

/-- moving the cursor does not change the value -/
@[simp] theorem fstO_shiftP {α : Type} (k : Nat) (x : Out (α × Nat)) : fstO (shiftP k x) = fstO x := by
  cases x with
  | ok r => obtain ⟨a, p⟩ := r; rfl
  | err => rfl
  | panic => rfl

/-- a field in front of (or at) the last name of a schema that the parser reads back in step with
the writer: the value has the constructor the field kind expects (a mismatch is written as
nothing), a character-string is at most 255 bytes long (a longer one is cut by its length byte and
the rest would be read as the next field) and a name is a wire-format name. Integers wider than
the field are truncated, which keeps the field width. -/
def FieldSafe : FKind → Val → Prop
  | .int _, .int _ => True
  | .charstr, .bytes b => b.length ≤ 255
  | .name _, .name n => Name.WF n
  | _, _ => False

instance (k : FKind) (v : Val) : Decidable (FieldSafe k v) := by
  cases k <;> cases v <;> unfold FieldSafe <;> infer_instance

/-- every field up to the last name of the schema is `FieldSafe`; nothing is asked of the fields
after the last name (and nothing at all of a schema without names) -/
def SafeAll : List FKind → List Val → Prop
  | [], _ => True
  | k :: ks, [] => hasName (k :: ks) = false
  | k :: ks, v :: vs => hasName (k :: ks) = false ∨ (FieldSafe k v ∧ SafeAll ks vs)

instance : (ks : List FKind) → (vs : List Val) → Decidable (SafeAll ks vs)
  | [], _ => isTrue (by simp [SafeAll])
  | k :: ks, [] => by unfold SafeAll; infer_instance
  | k :: ks, v :: vs =>
    have : Decidable (SafeAll ks vs) := instDecidableSafeAll ks vs
    by unfold SafeAll; infer_instance

/-- a field that is not a name is written by `write_compressed_to` exactly as by `write_to` -/
theorem encFieldG_noName (c : Bool) (k : FKind) (v : Val) (off : Nat) (t : Table)
    (hk : isName k = false) : encFieldG c k v off t = (encField k v, t) := by
  unfold encFieldG
  split
  · simp [isName] at hk
  · rfl

/-- the RDATA of a type without names is written by `write_compressed_to` exactly as by `write_to`,
and the suffix table is not touched -/
theorem encAllG_noName (c : Bool) (ks : List FKind) : ∀ (vs : List Val) (off : Nat) (t : Table),
    hasName ks = false → encAllG c ks vs off t = (encAll ks vs, t) := by
  induction ks with
  | nil => intro vs off t _; cases vs <;> rfl
  | cons k ks ih =>
    intro vs off t hk
    simp only [hasName, Bool.or_eq_false_iff] at hk
    cases vs with
    | nil => rfl
    | cons v vs => simp [encAllG, encAll, encFieldG_noName c k v off t hk.1, ih vs _ _ hk.2]

/-- one `FieldSafe` field: both parsers return the same value and stop after the field, and the
suffix table stays valid -/
theorem field_sim (k : FKind) (v : Val) (hs : FieldSafe k v) (outc outb : Bytes) (t : Table)
    (hinv : TInv outc t) :
    ∃ v', (∀ postc, decField (outc ++ ((encFieldG true k v outc.length t).1 ++ postc)) k outc.length
            = .ok (v', outc.length + (encFieldG true k v outc.length t).1.length)) ∧
          (∀ postb, decField (outb ++ (encField k v ++ postb)) k outb.length
            = .ok (v', outb.length + (encField k v).length)) ∧
          TInv (outc ++ (encFieldG true k v outc.length t).1) (encFieldG true k v outc.length t).2 := by
  cases k <;> cases v <;> simp only [FieldSafe] at hs
  · rename_i w n
    have e : encFieldG true (.int w) (.int n) outc.length t = (beN w n, t) := rfl
    rw [e]
    refine ⟨.int (deN (beN w n)), ?_, ?_, hinv.append _⟩
    · intro postc
      simp only [decField]
      rw [if_neg (by simp), slice_at (a := outc) (m := beN w n) (z := postc) rfl rfl (by simp)]
      simp
    · intro postb
      rw [show encField (.int w) (.int n) = beN w n from rfl]
      simp only [decField]
      rw [if_neg (by simp), slice_at (a := outb) (m := beN w n) (z := postb) rfl rfl (by simp)]
      simp
  · rename_i s
    have e : encFieldG true .charstr (.bytes s) outc.length t = (CharStr.write s, t) := rfl
    rw [e]
    refine ⟨.bytes s, ?_, ?_, hinv.append _⟩
    · intro postc
      simp only [decField]
      rw [CharStr.parse_frame outc s postc hs]
      simp [CharStr.write]
    · intro postb
      rw [show encField .charstr (.bytes s) = CharStr.write s from rfl]
      simp only [decField]
      rw [CharStr.parse_frame outb s postb hs]
      simp [CharStr.write]
  · rename_i cb n
    refine ⟨.name n, ?_, ?_, ?_⟩
    · intro postc
      cases cb
      · have e : encFieldG true (.name false) (.name n) outc.length t = (Name.write n, t) := rfl
        rw [e, decField_name, Name.parse_write hs outc postc, Name.write_length]
        rfl
      · have e : encFieldG true (.name true) (.name n) outc.length t
            = compressName n outc.length t := by simp [encFieldG, nameG]
        rw [e, decField_name, compressed_name_roundtrip n hs t outc postc hinv]
        rfl
    · intro postb
      rw [show encField (.name cb) (.name n) = Name.write n from rfl]
      rw [decField_name, Name.parse_write hs outb postb, Name.write_length]
      rfl
    · cases cb
      · have e : encFieldG true (.name false) (.name n) outc.length t = (Name.write n, t) := rfl
        rw [e]
        exact hinv.append _
      · have e : encFieldG true (.name true) (.name n) outc.length t
            = compressName n outc.length t := by simp [encFieldG, nameG]
        rw [e]
        exact (compressName_spec n outc.length t outc hs.1 rfl hinv).inv

/-- **All fields of a schema.** At corresponding sites of the compressed and of the plain message
(the bytes before the RDATA are `outc`, resp. `outb`; the RDATA ends the buffer), the schema
interpreter returns the same values (or the same failure). -/
theorem decAll_sim (ks : List FKind) : ∀ (vs : List Val) (outc outb : Bytes) (t : Table),
    SafeAll ks vs → TInv outc t →
    fstO (decAll (outc ++ (encAllG true ks vs outc.length t).1) ks outc.length)
      = fstO (decAll (outb ++ encAll ks vs) ks outb.length) := by
  induction ks with
  | nil => intro vs outc outb t _ _; rfl
  | cons k ks ih =>
    intro vs outc outb t hs hinv
    by_cases hn : hasName (k :: ks) = false
    · rw [encAllG_noName true (k :: ks) vs _ t hn]
      have h1 := decAll_shift outc (encAll (k :: ks) vs) (k :: ks) hn 0
      have h2 := decAll_shift outb (encAll (k :: ks) vs) (k :: ks) hn 0
      simp only [Nat.add_zero] at h1 h2
      rw [h1, h2, fstO_shiftP, fstO_shiftP]
    · cases vs with
      | nil => exact absurd hs hn
      | cons v vs =>
        rcases hs with hs | ⟨hf, hs⟩
        · exact absurd hs hn
        obtain ⟨v', hc, hb, hinv'⟩ := field_sim k v hf outc outb t hinv
        simp only [encAllG, encAll]
        generalize encFieldG true k v outc.length t = a at hc hinv' ⊢
        have ih' := ih vs (outc ++ a.1) (outb ++ encField k v) a.2 hs hinv'
        simp only [List.length_append, List.append_assoc] at ih'
        simp only [decAll, hc, hb, Out.bind_ok]
        generalize decAll (outc ++ (a.1 ++ (encAllG true ks vs (outc.length + a.1.length) a.2).1))
          ks (outc.length + a.1.length) = X at ih' ⊢
        generalize decAll (outb ++ (encField k v ++ encAll ks vs)) ks
          (outb.length + (encField k v).length) = Y at ih' ⊢
        cases X with
        | ok x =>
          obtain ⟨x1, x2⟩ := x
          cases Y with
          | ok y => obtain ⟨y1, y2⟩ := y; simp [fstO] at ih' ⊢; exact ih'
          | err => simp [fstO] at ih'
          | panic => simp [fstO] at ih'
        | err => cases Y with
          | ok y => obtain ⟨y1, y2⟩ := y; simp [fstO] at ih'
          | err => rfl
          | panic => simp [fstO] at ih'
        | panic => cases Y with
          | ok y => obtain ⟨y1, y2⟩ := y; simp [fstO] at ih'
          | err => simp [fstO] at ih'
          | panic => rfl

/-- the suffix table stays valid across the fields of an RDATA -/
theorem encAllG_inv (ks : List FKind) : ∀ (vs : List Val) (outc : Bytes) (t : Table),
    SafeAll ks vs → TInv outc t →
    TInv (outc ++ (encAllG true ks vs outc.length t).1) (encAllG true ks vs outc.length t).2 := by
  induction ks with
  | nil => intro vs outc t _ hinv; cases vs <;> exact hinv.append _
  | cons k ks ih =>
    intro vs outc t hs hinv
    by_cases hn : hasName (k :: ks) = false
    · rw [encAllG_noName true (k :: ks) vs _ t hn]
      exact hinv.append _
    · cases vs with
      | nil => exact absurd hs hn
      | cons v vs =>
        rcases hs with hs | ⟨hf, hs⟩
        · exact absurd hs hn
        obtain ⟨v', _, _, hinv'⟩ := field_sim k v hf outc outc t hinv
        simp only [encAllG]
        generalize encFieldG true k v outc.length t = a at hinv' ⊢
        have ih' := ih vs (outc ++ a.1) a.2 hs hinv'
        simpa only [List.length_append, List.append_assoc] using ih'

/-- compressed and plain RDATA are empty together -/
theorem encAllG_nil_iff (ks : List FKind) : ∀ (vs : List Val) (off : Nat) (t : Table),
    (encAllG true ks vs off t).1 = [] ↔ encAll ks vs = [] := by
  induction ks with
  | nil => intro vs off t; cases vs <;> simp [encAllG, encAll]
  | cons k ks ih =>
    intro vs off t
    cases vs with
    | nil => simp [encAllG, encAll]
    | cons v vs =>
      simp only [encAllG, encAll, List.append_eq_nil_iff, ih]
      have : (encFieldG true k v off t).1 = [] ↔ encField k v = [] := by
        unfold encFieldG
        split
        · rename_i n
          simp only [nameG, if_true, encField]
          cases n with
          | nil => simp [compressName, Name.write]
          | cons l rest =>
            simp only [compressName, Name.write]
            split
            · simp [beN]
            · simp
        · rfl
      rw [this]

/-! ### 3. `len()` against the bytes written, for every value -/

theorem insertByKey_sum (f : Nat × Bytes → Nat) (x : Nat × Bytes) (ys : List (Nat × Bytes)) :
    ((insertByKey x ys).map f).sum = f x + (ys.map f).sum := by
  induction ys with
  | nil => rfl
  | cons y ys ih =>
    simp only [insertByKey]
    split
    · simp
    · simp [ih]; omega

/-- sorting the NSEC windows does not change the total of their lengths -/
theorem sortByKey_sum (f : Nat × Bytes → Nat) (xs : List (Nat × Bytes)) :
    ((sortByKey xs).map f).sum = (xs.map f).sum := by
  induction xs with
  | nil => rfl
  | cons x xs ih => simp [sortByKey, insertByKey_sum, ih]

/-- `len()` of a field is the length of its plain encoding, whatever the value -/
theorem lenField_eq' (k : FKind) (v : Val) : lenField k v = (encField k v).length := by
  cases k <;> cases v <;> simp only [lenField, encField, List.length_nil]
  · simp
  · simp [CharStr.write]
  · rw [Name.write_length]
  · split
    · rfl
    · exact (encStrs_length _).symm
  · rename_i kw lw strict xs
    rw [encTlvs_length]
    cases strict
    · simp
    · simp [sortByKey_sum]

/-- `len()` of a schema-driven RDATA is the length of its plain encoding, whatever the values -/
theorem lenAll_eq' (ks : List FKind) : ∀ (vs : List Val), lenAll ks vs = (encAll ks vs).length := by
  induction ks with
  | nil => intro vs; cases vs <;> simp [lenAll, encAll]
  | cons k ks ih =>
    intro vs
    cases vs with
    | nil => simp [lenAll, encAll]
    | cons v vs => simp [lenAll, encAll, lenField_eq' k v, ih vs]

/-- the RDLENGTH the plain writer stores (`len() as u16`) is that of the bytes it writes -/
theorem len_mod (rd : RData) {b : Bytes} (h : rd.write = .ok b) :
    rd.len % 65536 = b.length % 65536 := by
  cases rd with
  | flat code vs =>
    simp only [RData.write, RData.len] at h ⊢
    cases hk : schemaOf code with
    | none => rw [hk] at h; cases h; rfl
    | some ks =>
      rw [hk] at h
      simp only at h ⊢
      split at h
      · cases h; rw [lenAll_eq']
      · cases h
  | ipseckey prec alg gw key =>
    cases h
    cases gw <;> simp [RData.len, Gateway.len, Gateway.write, Name.write_length] <;> omega
  | opt o =>
    cases h
    simp only [RData.len, encOptCodes, encTlvs_length]
  | null code data => cases h; simp [RData.len]
  | empty t => cases h; rfl

/-! ### 4. RDATA -/

/-- two parsers in step: the same failure, or the same value with the cursors at `pc`, `pb` -/
def SimP {α : Type} (x y : Out (α × Nat)) (pc pb : Nat) : Prop :=
  (x = .err ∧ y = .err) ∨ (x = .panic ∧ y = .panic) ∨ ∃ a, x = .ok (a, pc) ∧ y = .ok (a, pb)

/-- `RData.parse` on two records whose ten bytes TYPE … RDLENGTH and whose RDATA are the same,
after different prefixes, when the typed parser only sees the RDATA bytes -/
theorem rdata_parse_eqtail (P Q mid rdx post1 post2 : Bytes) (ty : Nat) (hty : ty < 65536)
    (hmid : mid.length = 6) (hrd : rdx.length < 65536)
    (hT : TYPE.ofCode ty ≠ .OPT → rdx ≠ [] → ∀ pre : Bytes,
      parseTyped (pre ++ rdx) pre.length (TYPE.ofCode ty)
        = shiftP pre.length (parseTyped rdx 0 (TYPE.ofCode ty))) :
    SimP (RData.parse (P ++ (beN 2 ty ++ (mid ++ (beN 2 rdx.length ++ (rdx ++ post1))))) P.length)
      (RData.parse (Q ++ (beN 2 ty ++ (mid ++ (beN 2 rdx.length ++ (rdx ++ post2))))) Q.length)
      (P.length + 10 + rdx.length) (Q.length + 10 + rdx.length) := by
  rw [RData.parse_frame P ty mid rdx post1 hty hmid hrd,
    RData.parse_frame Q ty mid rdx post2 hty hmid hrd]
  by_cases hopt : TYPE.ofCode ty = .OPT
  · rw [if_pos hopt, if_pos hopt]
    have h1 := optParse_shift P (beN 2 ty ++ (mid ++ (beN 2 rdx.length ++ rdx))) 0
    have h2 := optParse_shift Q (beN 2 ty ++ (mid ++ (beN 2 rdx.length ++ rdx))) 0
    simp only [Nat.add_zero] at h1 h2
    rw [h1, h2]
    cases hp : optParse (beN 2 ty ++ (mid ++ (beN 2 rdx.length ++ rdx))) 0 with
    | err => exact Or.inl ⟨rfl, rfl⟩
    | panic => exact Or.inr (Or.inl ⟨rfl, rfl⟩)
    | ok r =>
      obtain ⟨rd, p⟩ := r
      have := optParse_end' hp
      simp [hmid] at this
      refine Or.inr (Or.inr ⟨rd, ?_, ?_⟩) <;> simp only [shiftP_ok] <;> congr 2 <;> omega
  · rw [if_neg hopt, if_neg hopt]
    by_cases hz : rdx.length = 0
    · rw [if_pos hz, if_pos hz]
      refine Or.inr (Or.inr ⟨.empty (TYPE.ofCode ty), ?_, ?_⟩) <;> congr 2 <;> omega
    · rw [if_neg hz, if_neg hz]
      have hne : rdx ≠ [] := by intro h; apply hz; rw [h]; rfl
      have h1 := hT hopt hne (P ++ (beN 2 ty ++ (mid ++ beN 2 rdx.length)))
      have h2 := hT hopt hne (Q ++ (beN 2 ty ++ (mid ++ beN 2 rdx.length)))
      simp only [List.append_assoc, List.length_append, beN_length, hmid] at h1 h2
      rw [show P.length + (2 + (6 + 2)) = P.length + 10 by omega] at h1
      rw [show Q.length + (2 + (6 + 2)) = Q.length + 10 by omega] at h2
      rw [h1, h2]
      cases parseTyped rdx 0 (TYPE.ofCode ty) with
      | err => exact Or.inl ⟨rfl, rfl⟩
      | panic => exact Or.inr (Or.inl ⟨rfl, rfl⟩)
      | ok r =>
        obtain ⟨rd, p⟩ := r
        exact Or.inr (Or.inr ⟨rd, rfl, rfl⟩)

/-- an RDATA value whose names the parser meets where the writer put them: the fields of a
schema-driven type are `FieldSafe` up to the last name of the schema; the gateway name of an
IPSECKEY is a wire-format name; opaque bytes (`NULL(code, data)`) do not carry the code of a type
whose parser reads names out of them. -/
def _root_.Dns.RData.NameSafe : RData → Prop
  | .flat code vs =>
    match schemaOf code with
    | some ks => SafeAll ks vs
    | none => True
  | .ipseckey _ _ gw _ =>
    match gw with
    | .domain n => Name.WF n
    | _ => True
  | .null code _ => nameFree (TYPE.ofCode (code % 65536)) = true
  | .opt _ => True
  | .empty _ => True

instance (rd : RData) : Decidable rd.NameSafe := by
  cases rd with
  | flat code vs =>
    simp only [RData.NameSafe]
    generalize schemaOf code = o
    cases o <;> simp only <;> infer_instance
  | ipseckey p a gw k => cases gw <;> simp only [RData.NameSafe] <;> infer_instance
  | null c d => simp only [RData.NameSafe]; infer_instance
  | opt o => simp only [RData.NameSafe]; infer_instance
  | empty t => simp only [RData.NameSafe]; infer_instance

/-- IPSECKEY, OPT, NULL and empty RDATA have no `write_compressed_to` of their own: the plain bytes,
the table untouched -/
theorem writeG_nonflat {rd : RData} (hnf : ∀ code vs, rd ≠ .flat code vs) (off : Nat) (t : Table) :
    rd.writeG true off t = (do let b ← rd.write; pure (b, t)) := by
  cases rd with
  | flat code vs => exact absurd rfl (hnf code vs)
  | _ => rfl

/-- **RDATA.** `RData.parse` at the TYPE field of the same record in the compressed and in the
plain message: same failure, or the same value with both cursors after the RDATA. -/
theorem rdata_sim (rd : RData) (hs : rd.NameSafe) (hlen : rd.writtenLen ≤ 65535)
    (prec preb mid : Bytes) (hmid : mid.length = 6) (t t' : Table) (rdc rdb : Bytes)
    (hinv : TInv prec t)
    (hc : rd.writeG true (prec.length + 10) t = .ok (rdc, t'))
    (hb : rd.write = .ok rdb) (postc postb : Bytes) :
    SimP
      (RData.parse (prec ++ (beN 2 rd.typeOf.toCode ++ (mid ++ (beN 2 rdc.length ++ (rdc ++ postc)))))
        prec.length)
      (RData.parse (preb ++ (beN 2 rd.typeOf.toCode ++ (mid ++ (beN 2 rd.len ++ (rdb ++ postb)))))
        preb.length)
      (prec.length + 10 + rdc.length) (preb.length + 10 + rdb.length) := by
  have hblen : rdb.length < 65536 := by
    simp only [RData.writtenLen, hb] at hlen; omega
  rw [beN2_congr (len_mod rd hb), beN2_mod' rd.typeOf.toCode]
  have hty : rd.typeOf.toCode % 65536 < 65536 := Nat.mod_lt _ (by decide)
  -- the values written by the plain writer on both paths
  have heq : (∀ code vs, rd ≠ .flat code vs) →
      (TYPE.ofCode (rd.typeOf.toCode % 65536) ≠ .OPT → rdb ≠ [] → ∀ pre : Bytes,
        parseTyped (pre ++ rdb) pre.length (TYPE.ofCode (rd.typeOf.toCode % 65536))
          = shiftP pre.length (parseTyped rdb 0 (TYPE.ofCode (rd.typeOf.toCode % 65536)))) →
      SimP
        (RData.parse (prec ++ (beN 2 (rd.typeOf.toCode % 65536) ++
          (mid ++ (beN 2 rdc.length ++ (rdc ++ postc))))) prec.length)
        (RData.parse (preb ++ (beN 2 (rd.typeOf.toCode % 65536) ++
          (mid ++ (beN 2 rdb.length ++ (rdb ++ postb))))) preb.length)
        (prec.length + 10 + rdc.length) (preb.length + 10 + rdb.length) := by
    intro hnf hT
    rw [writeG_nonflat hnf, hb] at hc
    simp only [Out.bind_ok, Out.pure_eq, Out.ok.injEq, Prod.mk.injEq] at hc
    obtain ⟨rfl, _⟩ := hc
    exact rdata_parse_eqtail prec preb mid rdb postc postb _ hty hmid hblen hT
  cases rd with
  | flat code vs =>
    simp only [RData.NameSafe] at hs
    cases hk : schemaOf code with
    | none =>
      simp only [RData.writeG, hk, Out.ok.injEq, Prod.mk.injEq] at hc
      simp only [RData.write, hk, Out.ok.injEq] at hb
      obtain ⟨rfl, _⟩ := hc
      subst hb
      exact rdata_parse_eqtail prec preb mid [] postc postb _ hty hmid (by simp)
        (fun _ h => absurd rfl h)
    | some ks =>
      rw [hk] at hs
      obtain ⟨_, _, _, hcode, hnopt⟩ := schemaOf_facts hk
      simp only [RData.writeG, hk] at hc
      simp only [RData.write, hk] at hb
      split at hb
      · rename_i hfc
        rw [if_pos hfc] at hc
        simp only [Out.ok.injEq] at hb hc
        subst hb
        have hcl : rdc.length ≤ (encAll ks vs).length := by
          have := encAllG_length_le ks vs (prec.length + 10) t
          rw [hc] at this; exact this
        have hnil : rdc = [] ↔ encAll ks vs = [] := by
          have := encAllG_nil_iff ks vs (prec.length + 10) t
          rw [hc] at this; exact this
        have hcode' : (RData.flat code vs).typeOf.toCode % 65536 = code := by
          simp only [RData.typeOf, type_toCode_ofCode]; omega
        rw [hcode']
        rw [RData.parse_frame prec code mid rdc postc hcode hmid (by omega),
          RData.parse_frame preb code mid (encAll ks vs) postb hcode hmid hblen,
          if_neg hnopt, if_neg hnopt]
        by_cases hz : encAll ks vs = []
        · have hz' := hnil.mpr hz
          rw [hz, hz']
          exact Or.inr (Or.inr ⟨.empty (TYPE.ofCode code), rfl, rfl⟩)
        · have hz' : rdc ≠ [] := fun h => hz (hnil.mp h)
          rw [if_neg (by simpa using hz'), if_neg (by simpa using hz)]
          rw [parseTyped_flat _ _ code ks hk, parseTyped_flat _ _ code ks hk]
          have hsim := decAll_sim ks vs (prec ++ (beN 2 code ++ (mid ++ beN 2 rdc.length)))
            (preb ++ (beN 2 code ++ (mid ++ beN 2 (encAll ks vs).length))) t hs (hinv.append _)
          have hl1 : (prec ++ (beN 2 code ++ (mid ++ beN 2 rdc.length))).length = prec.length + 10 := by
            simp [hmid]
          have hl2 : (preb ++ (beN 2 code ++ (mid ++ beN 2 (encAll ks vs).length))).length
              = preb.length + 10 := by simp [hmid]
          rw [hl1, hl2, hc] at hsim
          simp only [List.append_assoc] at hsim
          generalize decAll (prec ++ (beN 2 code ++ (mid ++ (beN 2 rdc.length ++ rdc)))) ks
            (prec.length + 10) = X at hsim ⊢
          generalize decAll (preb ++ (beN 2 code ++ (mid ++ (beN 2 (encAll ks vs).length ++
            encAll ks vs)))) ks (preb.length + 10) = Y at hsim ⊢
          cases X with
          | ok x =>
            obtain ⟨x1, x2⟩ := x
            cases Y with
            | ok y =>
              obtain ⟨y1, y2⟩ := y
              simp only [fstO, Out.ok.injEq] at hsim
              subst hsim
              simp only [Out.bind_ok]
              by_cases hf : flatCheck code x1 = true
              · simp only [hf, if_true]; exact Or.inr (Or.inr ⟨.flat code x1, rfl, rfl⟩)
              · simp only [hf]; exact Or.inl ⟨rfl, rfl⟩
            | err => simp [fstO] at hsim
            | panic => simp [fstO] at hsim
          | err => cases Y with
            | ok y => obtain ⟨y1, y2⟩ := y; simp [fstO] at hsim
            | err => exact Or.inl ⟨rfl, rfl⟩
            | panic => simp [fstO] at hsim
          | panic => cases Y with
            | ok y => obtain ⟨y1, y2⟩ := y; simp [fstO] at hsim
            | err => simp [fstO] at hsim
            | panic => exact Or.inr (Or.inl ⟨rfl, rfl⟩)
      · cases hb
  | ipseckey prec' alg gw key =>
    apply heq (fun _ _ h => by cases h)
    intro _ _ pre
    cases hb
    have hT : TYPE.ofCode ((RData.ipseckey prec' alg gw key).typeOf.toCode % 65536) = .IPSECKEY :=
      rfl
    rw [hT]
    have e : ∀ d pos, parseTyped d pos .IPSECKEY = ipseckeyParse d pos := fun _ _ => rfl
    rw [e, e]
    have := ipseckeyParse_shift pre
      (UInt8.ofNat prec' :: UInt8.ofNat gw.tag :: UInt8.ofNat alg :: (gw.write ++ key)) 0
    simp only [Nat.add_zero, Nat.zero_add] at this
    apply this
    intro gt hgt hgt3
    have hg : gt = UInt8.ofNat gw.tag := by
      simp [idx] at hgt; exact hgt.symm
    cases gw with
    | domain n =>
      simp only [RData.NameSafe] at hs
      have h1 := Name.parse_write hs (pre ++ [UInt8.ofNat prec', UInt8.ofNat (Gateway.domain n).tag,
        UInt8.ofNat alg]) key
      have h2 := Name.parse_write hs [UInt8.ofNat prec', UInt8.ofNat (Gateway.domain n).tag,
        UInt8.ofNat alg] key
      simp only [List.append_assoc, List.length_append, List.length_cons, List.length_nil,
        List.cons_append, List.nil_append] at h1 h2
      simp only [Gateway.write]
      rw [h1, h2]
      simp only [shiftP_ok]
      congr 2
      omega
    | none => subst hg; simp [Gateway.tag] at hgt3
    | v4 a => subst hg; simp [Gateway.tag] at hgt3
    | v6 a => subst hg; simp [Gateway.tag] at hgt3
  | opt o =>
    apply heq (fun _ _ h => by cases h)
    intro h
    exact absurd rfl h
  | null code data =>
    apply heq (fun _ _ h => by cases h)
    intro _ _ pre
    simp only [RData.NameSafe] at hs
    have hcode : (RData.null code data).typeOf.toCode = code := by
      simp only [RData.typeOf, type_toCode_ofCode]
    rw [hcode]
    have := parseTyped_shift pre rdb _ hs 0
    simpa using this
  | empty ty =>
    apply heq (fun _ _ h => by cases h)
    intro _ h
    cases hb
    exact absurd rfl h

/-- the suffix table stays valid across an RDATA -/
theorem rdata_inv (rd : RData) (hs : rd.NameSafe) (P : Bytes) (t t' : Table) (rdc : Bytes)
    (hinv : TInv P t) (hc : rd.writeG true P.length t = .ok (rdc, t')) : TInv (P ++ rdc) t' := by
  cases rd with
  | flat code vs =>
    simp only [RData.NameSafe] at hs
    simp only [RData.writeG] at hc
    cases hk : schemaOf code with
    | none =>
      rw [hk] at hc
      simp only [Out.ok.injEq, Prod.mk.injEq] at hc
      obtain ⟨rfl, rfl⟩ := hc
      exact hinv.append _
    | some ks =>
      rw [hk] at hc hs
      simp only at hc hs
      split at hc
      · simp only [Out.ok.injEq] at hc
        have := encAllG_inv ks vs P t hs hinv
        rw [hc] at this
        exact this
      · cases hc
  | ipseckey _ _ _ _ =>
    rw [writeG_nonflat (fun _ _ h => by cases h)] at hc
    obtain ⟨b, _, hc⟩ := Out.bind_eq_ok hc
    simp only [Out.pure_eq, Out.ok.injEq, Prod.mk.injEq] at hc
    obtain ⟨rfl, rfl⟩ := hc
    exact hinv.append _
  | opt _ =>
    rw [writeG_nonflat (fun _ _ h => by cases h)] at hc
    obtain ⟨b, _, hc⟩ := Out.bind_eq_ok hc
    simp only [Out.pure_eq, Out.ok.injEq, Prod.mk.injEq] at hc
    obtain ⟨rfl, rfl⟩ := hc
    exact hinv.append _
  | null _ _ =>
    rw [writeG_nonflat (fun _ _ h => by cases h)] at hc
    obtain ⟨b, _, hc⟩ := Out.bind_eq_ok hc
    simp only [Out.pure_eq, Out.ok.injEq, Prod.mk.injEq] at hc
    obtain ⟨rfl, rfl⟩ := hc
    exact hinv.append _
  | empty _ =>
    rw [writeG_nonflat (fun _ _ h => by cases h)] at hc
    obtain ⟨b, _, hc⟩ := Out.bind_eq_ok hc
    simp only [Out.pure_eq, Out.ok.injEq, Prod.mk.injEq] at hc
    obtain ⟨rfl, rfl⟩ := hc
    exact hinv.append _

/-! ### 5. records and questions -/

/-- the record envelope, for any eight bytes of TYPE, CLASS, TTL -/
theorem rr_parse_frame (pre nb T C TT rest : Bytes) (name : Name) (hT : T.length = 2)
    (hC : C.length = 2) (hTT : TT.length = 4)
    (hname : Name.parse (pre ++ (nb ++ (T ++ (C ++ (TT ++ rest))))) pre.length
      = .ok (name, pre.length + nb.length)) :
    RR.parse (pre ++ (nb ++ (T ++ (C ++ (TT ++ rest))))) pre.length = (do
      let (rdata, pos') ← RData.parse (pre ++ (nb ++ (T ++ (C ++ (TT ++ rest)))))
        (pre.length + nb.length)
      if rdata.typeOf = .OPT then
        pure ({ name := name, cls := .IN, ttl := deN TT, rdata := rdata, flush := false }, pos')
      else do
        let cls ← CLASS.ofCode (deN C &&& 0x7FFF)
        pure ({ name := name, cls := cls, ttl := deN TT, rdata := rdata,
                flush := (deN C &&& 0x8000) == 0x8000 }, pos')) := by
  unfold RR.parse
  rw [hname]
  simp only [Out.bind_ok]
  rw [if_neg (by simp [hT, hC, hTT]; omega)]
  rw [slice_at (a := pre ++ (nb ++ T)) (m := C) (z := TT ++ rest) (by simp)
    (by simp [hT]; omega) (by simp [hT, hC]; omega)]
  simp only [Out.bind_ok]
  rw [slice_at (a := pre ++ (nb ++ (T ++ C))) (m := TT) (z := rest)
    (by simp) (by simp [hT, hC]; omega) (by simp [hT, hC, hTT]; omega)]
  simp only [Out.bind_ok]

/-- a record whose names the parser meets where the writer put them and whose RDATA fits the
16-bit RDLENGTH (otherwise RDLENGTH is truncated and what follows is read from inside the RDATA) -/
def _root_.Dns.RR.NameSafe (r : RR) : Prop :=
  Name.WF r.name ∧ r.rdata.NameSafe ∧ r.rdata.writtenLen ≤ 65535

instance (r : RR) : Decidable r.NameSafe := by unfold RR.NameSafe; infer_instance

/-- **Records.** `RR.parse` at the start of the same record in the compressed and in the plain
message: same failure, or the same record with both cursors after it; the suffix table stays
valid. -/
theorem rr_sim (r : RR) (hs : r.NameSafe) (outc outb : Bytes) (t t' : Table) (bc bb : Bytes)
    (hinv : TInv outc t) (hc : r.writeG true outc.length t = .ok (bc, t'))
    (hb : r.write = .ok bb) (postc postb : Bytes) :
    SimP (RR.parse (outc ++ (bc ++ postc)) outc.length) (RR.parse (outb ++ (bb ++ postb)) outb.length)
      (outc.length + bc.length) (outb.length + bb.length) ∧ TInv (outc ++ bc) t' := by
  obtain ⟨hn, hrs, hlen⟩ := hs
  have hcom : r.writeCommon.length = 8 := by rw [RR.writeCommon_eq]; simp
  unfold RR.writeG at hc
  obtain ⟨⟨rdc, t2⟩, hrd, hc⟩ := Out.bind_eq_ok hc
  simp only [nameG, if_true, Out.pure_eq, Out.ok.injEq, Prod.mk.injEq] at hc hrd
  obtain ⟨rfl, rfl⟩ := hc
  unfold RR.write at hb
  obtain ⟨rdb, hrdb, hb⟩ := Out.bind_eq_ok hb
  simp only [Out.pure_eq, Out.ok.injEq] at hb
  subst hb
  have hns := compressName_spec r.name outc.length t outc hn.1 rfl hinv
  generalize compressName r.name outc.length t = nb at hrd hns ⊢
  have hoff : outc.length + nb.1.length + r.writeCommon.length + 2 = (outc ++ nb.1).length + 10 := by
    simp [hcom]
  rw [hoff] at hrd
  have hinv2 : TInv ((outc ++ nb.1) ++ (r.writeCommon ++ beN 2 rdc.length)) nb.2 := hns.inv.append _
  have hinv3 := rdata_inv r.rdata hrs ((outc ++ nb.1) ++ (r.writeCommon ++ beN 2 rdc.length)) nb.2 t2
    rdc hinv2 (by
      rw [show ((outc ++ nb.1) ++ (r.writeCommon ++ beN 2 rdc.length)).length
        = (outc ++ nb.1).length + 10 by simp [hcom]; omega]
      exact hrd)
  refine ⟨?_, by simpa using hinv3⟩
  have hsim := rdata_sim r.rdata hrs hlen (outc ++ nb.1) (outb ++ Name.write r.name)
    (beN 2 r.clsWord ++ beN 4 r.ttl) (by simp) nb.2 t2 rdc rdb hns.inv hrd hrdb postc postb
  rw [RR.writeCommon_eq]
  have hn1 := hns.parse hn.2 (beN 2 r.rdata.typeOf.toCode ++ (beN 2 r.clsWord ++ (beN 4 r.ttl ++
    (beN 2 rdc.length ++ (rdc ++ postc)))))
  have hn2 := Name.parse_write hn outb (beN 2 r.rdata.typeOf.toCode ++ (beN 2 r.clsWord ++
    (beN 4 r.ttl ++ (beN 2 r.rdata.len ++ (rdb ++ postb)))))
  rw [← Name.write_length] at hn2
  simp only [List.append_assoc] at hsim ⊢
  rw [rr_parse_frame outc nb.1 _ _ _ _ r.name (by simp) (by simp) (by simp) hn1,
    rr_parse_frame outb (Name.write r.name) _ _ _ _ r.name (by simp) (by simp) (by simp) hn2]
  simp only [List.length_append] at hsim
  simp only [List.length_append, beN_length]
  have fin : ∀ (x : RR), SimP
      (Out.ok (x, outc.length + nb.1.length + 10 + rdc.length))
      (Out.ok (x, outb.length + (Name.write r.name).length + 10 + rdb.length))
      (outc.length + (nb.1.length + (2 + (2 + (4 + (2 + rdc.length))))))
      (outb.length + ((Name.write r.name).length + (2 + (2 + (4 + (2 + rdb.length)))))) := by
    intro x
    refine Or.inr (Or.inr ⟨x, ?_, ?_⟩) <;> congr 2 <;> omega
  rcases hsim with ⟨h1, h2⟩ | ⟨h1, h2⟩ | ⟨rd, h1, h2⟩
  · rw [h1, h2]; exact Or.inl ⟨rfl, rfl⟩
  · rw [h1, h2]; exact Or.inr (Or.inl ⟨rfl, rfl⟩)
  · rw [h1, h2]
    simp only [Out.bind_ok]
    by_cases ho : rd.typeOf = .OPT
    · simp only [ho, if_true]
      exact fin _
    · simp only [ho, if_false]
      cases CLASS.ofCode (deN (beN 2 r.clsWord) &&& 0x7FFF) with
      | ok cls => exact fin _
      | err => exact Or.inl ⟨rfl, rfl⟩
      | panic => exact Or.inr (Or.inl ⟨rfl, rfl⟩)

/-- the question envelope, for any four bytes of QTYPE, QCLASS -/
theorem q_parse_frame (pre nb T C rest : Bytes) (name : Name) (hT : T.length = 2) (hC : C.length = 2)
    (hname : Name.parse (pre ++ (nb ++ (T ++ (C ++ rest)))) pre.length
      = .ok (name, pre.length + nb.length)) :
    Question.parse (pre ++ (nb ++ (T ++ (C ++ rest)))) pre.length = (do
      let qtype ← QTYPE.ofCode (deN T)
      let qclass ← QCLASS.ofCode (deN C &&& 0x7FFF)
      pure ({ name := name, qtype := qtype, qclass := qclass,
              unicast := (deN C &&& 0x8000) == 0x8000 }, pre.length + nb.length + 4)) := by
  unfold Question.parse
  rw [hname]
  simp only [Out.bind_ok]
  rw [if_neg (by simp [hT, hC]; omega)]
  rw [slice_at (a := pre ++ nb) (m := T) (z := C ++ rest) (by simp) (by simp) (by simp [hT])]
  simp only [Out.bind_ok]
  rw [slice_at (a := pre ++ (nb ++ T)) (m := C) (z := rest) (by simp) (by simp [hT]; omega)
    (by simp [hT, hC]; omega)]
  simp only [Out.bind_ok]

/-- **Questions.** -/
theorem q_sim (q : Question) (hn : Name.WF q.name) (outc outb : Bytes) (t : Table)
    (hinv : TInv outc t) (postc postb : Bytes) :
    SimP (Question.parse (outc ++ ((q.writeG true outc.length t).1 ++ postc)) outc.length)
      (Question.parse (outb ++ (q.write ++ postb)) outb.length)
      (outc.length + (q.writeG true outc.length t).1.length) (outb.length + q.write.length) ∧
    TInv (outc ++ (q.writeG true outc.length t).1) (q.writeG true outc.length t).2 := by
  simp only [Question.writeG, nameG, if_true, Question.write]
  have hns := compressName_spec q.name outc.length t outc hn.1 rfl hinv
  generalize compressName q.name outc.length t = nb at hns ⊢
  refine ⟨?_, by simpa using hns.inv.append q.writeCommon⟩
  have hcom : ∃ T C : Bytes, T.length = 2 ∧ C.length = 2 ∧ q.writeCommon = T ++ C :=
    ⟨_, _, by simp, by simp, rfl⟩
  obtain ⟨T, C, hT, hC, hcom⟩ := hcom
  rw [hcom]
  have hn1 := hns.parse hn.2 (T ++ (C ++ postc))
  have hn2 := Name.parse_write hn outb (T ++ (C ++ postb))
  rw [← Name.write_length] at hn2
  simp only [List.append_assoc]
  rw [q_parse_frame outc nb.1 T C postc q.name hT hC hn1,
    q_parse_frame outb (Name.write q.name) T C postb q.name hT hC hn2]
  cases QTYPE.ofCode (deN T) with
  | err => exact Or.inl ⟨rfl, rfl⟩
  | panic => exact Or.inr (Or.inl ⟨rfl, rfl⟩)
  | ok qt =>
    simp only [Out.bind_ok]
    cases QCLASS.ofCode (deN C &&& 0x7FFF) with
    | err => exact Or.inl ⟨rfl, rfl⟩
    | panic => exact Or.inr (Or.inl ⟨rfl, rfl⟩)
    | ok qc =>
      refine Or.inr (Or.inr ⟨Question.mk q.name qt qc ((deN C &&& 0x8000) == 0x8000), ?_, ?_⟩)
      · simp only [Out.bind_ok, Out.pure_eq, Out.ok.injEq, Prod.mk.injEq]
        refine ⟨trivial, ?_⟩
        simp [hT, hC]; omega
      · simp only [Out.bind_ok, Out.pure_eq, Out.ok.injEq, Prod.mk.injEq]
        refine ⟨trivial, ?_⟩
        simp [hT, hC]; omega

/-! ### 6. sections -/

/-- **The question section.** -/
theorem qs_sim (qs : List Question) : ∀ (outc outb : Bytes) (t : Table) (postc postb : Bytes),
    (∀ q ∈ qs, Name.WF q.name) → TInv outc t →
    SimP (parseQuestions (outc ++ ((writeQuestionsG true qs outc.length t).1 ++ postc)) qs.length
        outc.length)
      (parseQuestions (outb ++ (writeQuestions qs ++ postb)) qs.length outb.length)
      (outc.length + (writeQuestionsG true qs outc.length t).1.length)
      (outb.length + (writeQuestions qs).length) ∧
    TInv (outc ++ (writeQuestionsG true qs outc.length t).1) (writeQuestionsG true qs outc.length t).2 := by
  induction qs with
  | nil =>
    intro outc outb t postc postb _ hinv
    exact ⟨Or.inr (Or.inr ⟨[], rfl, rfl⟩), hinv.append _⟩
  | cons q qs ih =>
    intro outc outb t postc postb hq hinv
    simp only [writeQuestionsG, writeQuestions, List.length_cons, parseQuestions, List.append_assoc]
    obtain ⟨h1, hinv1⟩ := q_sim q (hq q (by simp)) outc outb t hinv
      ((writeQuestionsG true qs (outc.length + (q.writeG true outc.length t).1.length)
        (q.writeG true outc.length t).2).1 ++ postc) (writeQuestions qs ++ postb)
    generalize q.writeG true outc.length t = a at h1 hinv1 ⊢
    obtain ⟨h2, hinv2⟩ := ih (outc ++ a.1) (outb ++ q.write) a.2 postc postb
      (fun x hx => hq x (by simp [hx])) hinv1
    simp only [List.length_append, List.append_assoc] at h2 hinv2
    generalize writeQuestionsG true qs (outc.length + a.1.length) a.2 = w at h1 h2 hinv2 ⊢
    refine ⟨?_, hinv2⟩
    rcases h1 with ⟨e1, e2⟩ | ⟨e1, e2⟩ | ⟨q', e1, e2⟩
    · rw [e1, e2]; exact Or.inl ⟨rfl, rfl⟩
    · rw [e1, e2]; exact Or.inr (Or.inl ⟨rfl, rfl⟩)
    · rw [e1, e2]
      simp only [Out.bind_ok]
      rcases h2 with ⟨f1, f2⟩ | ⟨f1, f2⟩ | ⟨qs', f1, f2⟩
      · rw [f1, f2]; exact Or.inl ⟨rfl, rfl⟩
      · rw [f1, f2]; exact Or.inr (Or.inl ⟨rfl, rfl⟩)
      · rw [f1, f2]
        refine Or.inr (Or.inr ⟨q' :: qs', ?_, ?_⟩) <;>
          simp only [Out.bind_ok, Out.pure_eq, Out.ok.injEq, Prod.mk.injEq, List.length_append] <;>
          refine ⟨trivial, ?_⟩ <;> omega

/-- two parsers in step, with a condition on the cursors they reach -/
def SimS {α : Type} (x y : Out (α × Nat)) (S : Nat → Nat → Prop) : Prop :=
  (x = .err ∧ y = .err) ∨ (x = .panic ∧ y = .panic) ∨
    ∃ a pc pb, x = .ok (a, pc) ∧ y = .ok (a, pb) ∧ S pc pb

/-- the cursors `pc` (compressed message `c`) and `pb` (plain message `b`) stand in front of the
same record: what follows are the records `rs` as the two writers emit them, and the suffix table
of the compressing writer is valid for the bytes before `pc` -/
def RRState (c b : Bytes) (rs : List RR) (pc pb : Nat) : Prop :=
  ∃ (outc outb bc bb postc postb : Bytes) (t t' : Table),
    c = outc ++ (bc ++ postc) ∧ b = outb ++ (bb ++ postb) ∧ pc = outc.length ∧ pb = outb.length ∧
    TInv outc t ∧ writeRRsG true rs outc.length t = .ok (bc, t') ∧ writeRRs rs = .ok bb

/-- one record further: from cursors in front of the same record both parsers fail alike or return
the same record and stand in front of the next one -/
theorem rrs_step {c b : Bytes} {r : RR} {rs : List RR} {pc pb : Nat}
    (hst : RRState c b (r :: rs) pc pb) (hs : r.NameSafe) :
    SimS (RR.parse c pc) (RR.parse b pb) (RRState c b rs) := by
  obtain ⟨outc, outb, bc, bb, postc, postb, t, t', rfl, rfl, rfl, rfl, hinv, hwc, hwb⟩ := hst
  simp only [writeRRsG] at hwc
  obtain ⟨⟨a, ta⟩, ha, hwc⟩ := Out.bind_eq_ok hwc
  obtain ⟨⟨a2, ta2⟩, ha2, hwc⟩ := Out.bind_eq_ok hwc
  simp only [Out.pure_eq, Out.ok.injEq, Prod.mk.injEq] at hwc
  obtain ⟨rfl, rfl⟩ := hwc
  simp only [writeRRs] at hwb
  obtain ⟨a', ha', hwb⟩ := Out.bind_eq_ok hwb
  obtain ⟨a2', ha2', hwb⟩ := Out.bind_eq_ok hwb
  simp only [Out.pure_eq, Out.ok.injEq] at hwb
  subst hwb
  obtain ⟨hsim, hinv'⟩ := rr_sim r hs outc outb t ta a a' hinv ha ha' (a2 ++ postc) (a2' ++ postb)
  simp only [List.append_assoc]
  rcases hsim with ⟨e1, e2⟩ | ⟨e1, e2⟩ | ⟨x, e1, e2⟩
  · exact Or.inl ⟨e1, e2⟩
  · exact Or.inr (Or.inl ⟨e1, e2⟩)
  · refine Or.inr (Or.inr ⟨x, _, _, e1, e2, ?_⟩)
    exact ⟨outc ++ a, outb ++ a', a2, a2', postc, postb, ta, ta2, by simp, by simp, by simp, by simp,
      hinv', by simpa using ha2, ha2'⟩

/-- **A run of records** (possibly across section boundaries: ANCOUNT, NSCOUNT and ARCOUNT are
16-bit truncations of the section lengths, so a section of the parser may end inside a section of
the writer) -/
theorem rrs_sim {c b : Bytes} (n : Nat) : ∀ (rs : List RR) (pc pb : Nat),
    RRState c b rs pc pb → (∀ r ∈ rs, r.NameSafe) → n ≤ rs.length →
    SimS (parseRRs c n pc) (parseRRs b n pb) (RRState c b (rs.drop n)) := by
  induction n with
  | zero =>
    intro rs pc pb hst _ _
    exact Or.inr (Or.inr ⟨[], pc, pb, rfl, rfl, by simpa using hst⟩)
  | succ n ih =>
    intro rs pc pb hst hs hn
    cases rs with
    | nil => simp at hn
    | cons r rs =>
      simp only [parseRRs, List.drop_succ_cons]
      rcases rrs_step hst (hs r (by simp)) with ⟨e1, e2⟩ | ⟨e1, e2⟩ | ⟨x, pc', pb', e1, e2, hst'⟩
      · rw [e1, e2]; exact Or.inl ⟨rfl, rfl⟩
      · rw [e1, e2]; exact Or.inr (Or.inl ⟨rfl, rfl⟩)
      · rw [e1, e2]
        simp only [Out.bind_ok]
        rcases ih rs pc' pb' hst' (fun y hy => hs y (by simp [hy])) (by simpa using hn) with
          ⟨f1, f2⟩ | ⟨f1, f2⟩ | ⟨xs, pc2, pb2, f1, f2, hst2⟩
        · rw [f1, f2]; exact Or.inl ⟨rfl, rfl⟩
        · rw [f1, f2]; exact Or.inr (Or.inl ⟨rfl, rfl⟩)
        · rw [f1, f2]
          exact Or.inr (Or.inr ⟨x :: xs, pc2, pb2, rfl, rfl, hst2⟩)

/-! ### 7. the message -/

theorem writeRRsG_append (c : Bool) (xs : List RR) : ∀ (ys : List RR) (off : Nat) (t t1 t2 : Table)
    (a b : Bytes), writeRRsG c xs off t = .ok (a, t1) →
    writeRRsG c ys (off + a.length) t1 = .ok (b, t2) →
    writeRRsG c (xs ++ ys) off t = .ok (a ++ b, t2) := by
  induction xs with
  | nil =>
    intro ys off t t1 t2 a b h1 h2
    simp only [writeRRsG, Out.ok.injEq, Prod.mk.injEq] at h1
    obtain ⟨rfl, rfl⟩ := h1
    simpa using h2
  | cons x xs ih =>
    intro ys off t t1 t2 a b h1 h2
    simp only [writeRRsG] at h1
    obtain ⟨⟨a1, ta⟩, ha, h1⟩ := Out.bind_eq_ok h1
    obtain ⟨⟨a2, tb⟩, hb, h1⟩ := Out.bind_eq_ok h1
    simp only [Out.pure_eq, Out.ok.injEq, Prod.mk.injEq] at h1
    obtain ⟨rfl, rfl⟩ := h1
    have := ih ys (off + a1.length) ta tb t2 a2 b hb (by simpa [Nat.add_assoc] using h2)
    simp only [List.cons_append, writeRRsG, ha, Out.bind_ok, this, Out.pure_eq, List.append_assoc]

/-- `write_to` over two runs of records is the concatenation -/
theorem writeRRs_append (xs : List RR) : ∀ (ys : List RR) (a b : Bytes),
    writeRRs xs = .ok a → writeRRs ys = .ok b → writeRRs (xs ++ ys) = .ok (a ++ b) := by
  induction xs with
  | nil =>
    intro ys a b h1 h2
    simp only [writeRRs, Out.ok.injEq] at h1
    subst h1
    simpa using h2
  | cons x xs ih =>
    intro ys a b h1 h2
    simp only [writeRRs] at h1
    obtain ⟨a1, ha, h1⟩ := Out.bind_eq_ok h1
    obtain ⟨a2, hb, h1⟩ := Out.bind_eq_ok h1
    simp only [Out.pure_eq, Out.ok.injEq] at h1
    subst h1
    simp only [List.cons_append, writeRRs, ha, Out.bind_ok, ih ys a2 b hb h2, Out.pure_eq,
      List.append_assoc]

/-- the OPT pseudo-record has the root owner name and no names in its RDATA: the compressing
writer writes it like the plain one and leaves the table alone -/
theorem optRR_writeG (h : Header) (off : Nat) (t : Table) (o : Bytes)
    (ho : writeRRs h.optRR.toList = .ok o) :
    writeRRsG true h.optRR.toList off t = .ok (o, t) := by
  cases hopt : h.opt with
  | none =>
    simp only [Header.optRR, hopt, Option.map_none, Option.toList_none, writeRRs, writeRRsG,
      Out.ok.injEq] at ho ⊢
    rw [← ho]
  | some od =>
    simp only [Header.optRR, hopt, Option.map_some, Option.toList_some, writeRRs, writeRRsG,
      RR.write, RData.write, Out.bind_ok, Out.pure_eq, Out.ok.injEq] at ho ⊢
    subst ho
    simp [RR.writeG, nameG, compressName, Name.write, RData.writeG, RData.write, RData.len,
      encOptCodes, encTlvs_length]

/-- the OPT pseudo-record is `NameSafe` when its options fit the 16-bit RDLENGTH -/
theorem optRR_safe (h : Header)
    (hl : match h.opt with
      | some o => (RData.opt o).writtenLen ≤ 65535
      | none => True) : ∀ r ∈ h.optRR.toList, r.NameSafe := by
  intro r hr
  cases hopt : h.opt with
  | none => simp [Header.optRR, hopt] at hr
  | some od =>
    rw [hopt] at hl
    simp only [Header.optRR, hopt, Option.map_some, Option.toList_some, List.mem_singleton] at hr
    subst hr
    exact ⟨(by decide : Name.WF []), trivial, hl⟩

/-- `data.get(a..b)` of a buffer given as a three-way split -/
theorem sliceOpt_at {d a m z : Bytes} {x y : Nat} (hd : d = a ++ (m ++ z)) (hx : x = a.length)
    (hy : y = a.length + m.length) : sliceOpt d x y = some m := by
  subst hd hx hy
  simp [sliceOpt]

/-- `Header.parse` only looks at the twelve header bytes -/
theorem header_parse_indep (h : Header) (qd an ns ar : Nat) (x y : Bytes) :
    Header.parse (h.write qd an ns ar ++ x) = Header.parse (h.write qd an ns ar ++ y) := by
  have key : ∀ z : Bytes, Header.parse (h.write qd an ns ar ++ z) =
      (if deN (beN 2 h.getFlags) &&& Mask.RESERVED ≠ 0 then .err else
        pure { id := deN (beN 2 h.id)
               opcode := OPCODE.ofCode ((deN (beN 2 h.getFlags) &&& Mask.OPCODE) >>> 11)
               rcode := RCODE.ofCode (deN (beN 2 h.getFlags) &&& Mask.RCODE)
               flags := flagsTruncate (deN (beN 2 h.getFlags))
               opt := none }) := by
    intro z
    unfold Header.parse
    rw [if_neg (by simp [Header.write]; omega)]
    rw [slice_at (a := beN 2 h.id) (m := beN 2 h.getFlags)
      (z := beN 2 qd ++ (beN 2 an ++ (beN 2 ns ++ (beN 2 ar ++ z)))) (by simp [Header.write])
      (by simp) (by simp)]
    simp only [Out.bind_ok]
    rw [slice_at (a := []) (m := beN 2 h.id)
      (z := beN 2 h.getFlags ++ (beN 2 qd ++ (beN 2 an ++ (beN 2 ns ++ (beN 2 ar ++ z)))))
      (by simp [Header.write]) (by simp) (by simp)]
    simp only [Out.bind_ok]
  rw [key x, key y]

/-- the four counts the parser peeks are the 16-bit truncations of what the writer stored -/
theorem peek_counts (h : Header) (qd an ns ar : Nat) (z : Bytes) :
    Peek.questions (h.write qd an ns ar ++ z) = .ok (qd % 65536) ∧
    Peek.answers (h.write qd an ns ar ++ z) = .ok (an % 65536) ∧
    Peek.nameServers (h.write qd an ns ar ++ z) = .ok (ns % 65536) ∧
    Peek.additional (h.write qd an ns ar ++ z) = .ok (ar % 65536) := by
  refine ⟨?_, ?_, ?_, ?_⟩
  · simp only [Peek.questions, peekU16]
    rw [sliceOpt_at (a := beN 2 h.id ++ beN 2 h.getFlags) (m := beN 2 qd)
      (z := beN 2 an ++ (beN 2 ns ++ (beN 2 ar ++ z))) (by simp [Header.write]) (by simp) (by simp)]
    simp only [deN_beN2]
  · simp only [Peek.answers, peekU16]
    rw [sliceOpt_at (a := beN 2 h.id ++ (beN 2 h.getFlags ++ beN 2 qd)) (m := beN 2 an)
      (z := beN 2 ns ++ (beN 2 ar ++ z)) (by simp [Header.write]) (by simp) (by simp)]
    simp only [deN_beN2]
  · simp only [Peek.nameServers, peekU16]
    rw [sliceOpt_at (a := beN 2 h.id ++ (beN 2 h.getFlags ++ (beN 2 qd ++ beN 2 an))) (m := beN 2 ns)
      (z := beN 2 ar ++ z) (by simp [Header.write]) (by simp) (by simp)]
    simp only [deN_beN2]
  · simp only [Peek.additional, peekU16]
    rw [sliceOpt_at (a := beN 2 h.id ++ (beN 2 h.getFlags ++ (beN 2 qd ++ (beN 2 an ++ beN 2 ns))))
      (m := beN 2 ar) (z := z) (by simp [Header.write]) (by simp) (by simp)]
    simp only [deN_beN2]

/-- The packets for which name compression is transparent whatever else they hold: every name
is a wire-format name (`Name.WF`) and sits where the parser looks for it (`RData.NameSafe`), every
RDATA fits the 16-bit RDLENGTH, and QDCOUNT holds the number of questions. Nothing is asked of
the header, of TTLs, classes, integer fields, TXT strings, SVCB / NSEC / OPT items, opaque RDATA,
or of the number of records: such values may not read back as they were, but they read back the
same from both serialisations. -/
def _root_.Dns.Packet.NameSafe (p : Packet) : Prop :=
  p.questions.length ≤ 65535 ∧ (∀ q ∈ p.questions, Name.WF q.name) ∧
  (∀ r ∈ p.answers, r.NameSafe) ∧ (∀ r ∈ p.nameServers, r.NameSafe) ∧
  (∀ r ∈ p.additional, r.NameSafe) ∧
  (match p.header.opt with
   | some o => (RData.opt o).writtenLen ≤ 65535
   | none => True)

instance (p : Packet) : Decidable p.NameSafe := by
  unfold Packet.NameSafe
  have : Decidable (match p.header.opt with
   | some o => (RData.opt o).writtenLen ≤ 65535
   | none => True) := by split <;> infer_instance
  infer_instance

end C03Any

open C03Any in
/-- **C03 for packets that are not well formed.** Serialising a packet with name compression
yields bytes that parse to exactly the same outcome — the same packet, or the same failure — as
its plain serialisation. `Packet.WF` is not assumed: the packet need not read back as itself
(empty TXT, unsorted NSEC windows, oversized integers, unknown header bits, more than 65 535
records, …); only its names must be wire-format names in the places where the parser reads names
(`Packet.NameSafe`). In Rust: `Packet::parse(&p.build_bytes_vec_compressed()?)` and
`Packet::parse(&p.build_bytes_vec()?)` agree. -/
theorem compressed_parse_eq_plain (p : Packet) (hs : p.NameSafe) (b c : Bytes)
    (hb : p.build = .ok b) (hc : p.buildCompressed = .ok c) : Packet.parse c = Packet.parse b := by
  obtain ⟨hqn, hqs, han, hns, har, hopt⟩ := hs
  -- the pieces of the two messages
  unfold Packet.buildCompressed Packet.buildG at hc
  obtain ⟨⟨anc, t1⟩, hanc, hc⟩ := Out.bind_eq_ok hc
  obtain ⟨⟨nsc, t2⟩, hnsc, hc⟩ := Out.bind_eq_ok hc
  obtain ⟨o, ho, hc⟩ := Out.bind_eq_ok hc
  obtain ⟨⟨arc, t3⟩, harc, hc⟩ := Out.bind_eq_ok hc
  simp only [Out.pure_eq, Out.ok.injEq] at hc hanc hnsc harc
  unfold Packet.build at hb
  obtain ⟨anb, hanb, hb⟩ := Out.bind_eq_ok hb
  obtain ⟨nsb, hnsb, hb⟩ := Out.bind_eq_ok hb
  obtain ⟨o', ho', hb⟩ := Out.bind_eq_ok hb
  obtain ⟨arb, harb, hb⟩ := Out.bind_eq_ok hb
  simp only [Out.pure_eq, Out.ok.injEq] at hb
  rw [ho] at ho'
  cases ho'
  have hhl : p.writeHeader.length = 12 := by simp [Packet.writeHeader, Header.write]
  obtain ⟨hq, hinvq⟩ := qs_sim p.questions p.writeHeader p.writeHeader [] (anc ++ (nsc ++ (o ++ arc)))
    (anb ++ (nsb ++ (o ++ arb))) hqs (TInv.nil _)
  generalize writeQuestionsG true p.questions p.writeHeader.length [] = qsc at hq hinvq hanc hnsc harc hc
  -- the records of both messages as one run
  have hflatc : writeRRsG true (p.answers ++ (p.nameServers ++ (p.header.optRR.toList ++ p.additional)))
      (p.writeHeader ++ qsc.1).length qsc.2 = .ok (anc ++ (nsc ++ (o ++ arc)), t3) := by
    refine writeRRsG_append true _ _ _ _ t1 _ _ _ (by simpa using hanc) ?_
    refine writeRRsG_append true _ _ _ _ t2 _ _ _ (by simpa [Nat.add_assoc] using hnsc) ?_
    refine writeRRsG_append true _ _ _ _ t2 _ _ _ (optRR_writeG _ _ _ _ ho) ?_
    simpa [Nat.add_assoc] using harc
  have hflatb : writeRRs (p.answers ++ (p.nameServers ++ (p.header.optRR.toList ++ p.additional)))
      = .ok (anb ++ (nsb ++ (o ++ arb))) :=
    writeRRs_append _ _ _ _ hanb (writeRRs_append _ _ _ _ hnsb (writeRRs_append _ _ _ _ ho harb))
  have hsafe : ∀ r ∈ p.answers ++ (p.nameServers ++ (p.header.optRR.toList ++ p.additional)),
      r.NameSafe := by
    intro r hr
    simp only [List.mem_append] at hr
    rcases hr with h | h | h | h
    · exact han r h
    · exact hns r h
    · exact optRR_safe p.header hopt r h
    · exact har r h
  subst hc hb
  have hst0 : RRState (p.writeHeader ++ (qsc.1 ++ (anc ++ (nsc ++ (o ++ arc)))))
      (p.writeHeader ++ (writeQuestions p.questions ++ (anb ++ (nsb ++ (o ++ arb)))))
      (p.answers ++ (p.nameServers ++ (p.header.optRR.toList ++ p.additional)))
      (p.writeHeader.length + qsc.1.length)
      (p.writeHeader.length + (writeQuestions p.questions).length) :=
    ⟨p.writeHeader ++ qsc.1, p.writeHeader ++ writeQuestions p.questions, _, _, [], [], qsc.2, t3,
      by simp, by simp, by simp, by simp, hinvq, hflatc, hflatb⟩
  -- header and counts
  unfold Packet.parse
  obtain ⟨pc1, pc2, pc3, pc4⟩ := peek_counts p.header p.questions.length p.answers.length
    p.nameServers.length (p.additional.length % 65536 + (if p.header.opt.isSome then 1 else 0))
    (qsc.1 ++ (anc ++ (nsc ++ (o ++ arc))))
  obtain ⟨pb1, pb2, pb3, pb4⟩ := peek_counts p.header p.questions.length p.answers.length
    p.nameServers.length (p.additional.length % 65536 + (if p.header.opt.isSome then 1 else 0))
    (writeQuestions p.questions ++ (anb ++ (nsb ++ (o ++ arb))))
  have hh := header_parse_indep p.header p.questions.length p.answers.length
    p.nameServers.length (p.additional.length % 65536 + (if p.header.opt.isSome then 1 else 0))
    (qsc.1 ++ (anc ++ (nsc ++ (o ++ arc)))) (writeQuestions p.questions ++ (anb ++ (nsb ++ (o ++ arb))))
  have hwh : p.writeHeader = p.header.write p.questions.length p.answers.length
    p.nameServers.length (p.additional.length % 65536 + (if p.header.opt.isSome then 1 else 0)) := rfl
  rw [← hwh] at pc1 pc2 pc3 pc4 pb1 pb2 pb3 pb4 hh
  rw [pc1, pc2, pc3, pc4, pb1, pb2, pb3, pb4, hh]
  cases Header.parse (p.writeHeader ++ (writeQuestions p.questions ++ (anb ++ (nsb ++ (o ++ arb)))))
    with
  | err => simp only [Out.bind_err]
  | panic => simp only [Out.bind_panic]
  | ok hdr =>
    simp only [Out.bind_ok]
    rw [Nat.mod_eq_of_lt (show p.questions.length < 65536 by omega)]
    rw [hhl] at hq hst0
    -- questions
    rcases hq with ⟨e1, e2⟩ | ⟨e1, e2⟩ | ⟨qs', e1, e2⟩
    · simp only [e1, e2, Out.bind_err]
    · simp only [e1, e2, Out.bind_panic]
    rw [e1, e2]
    simp only [Out.bind_ok]
    -- answers
    have hl : (p.answers ++ (p.nameServers ++ (p.header.optRR.toList ++ p.additional))).length
        = p.answers.length + (p.nameServers.length + (p.header.optRR.toList.length
          + p.additional.length)) := by simp
    have hol : p.header.optRR.toList.length = (if p.header.opt.isSome then 1 else 0) := by
      cases hopt' : p.header.opt <;> simp [Header.optRR, hopt']
    rcases rrs_sim (p.answers.length % 65536) _ _ _ hst0 hsafe
        (by rw [hl]; have := Nat.mod_le p.answers.length 65536; omega) with
      ⟨e1, e2⟩ | ⟨e1, e2⟩ | ⟨an', pc', pb', e1, e2, hst1⟩
    · simp only [e1, e2, Out.bind_err]
    · simp only [e1, e2, Out.bind_panic]
    rw [e1, e2]
    simp only [Out.bind_ok]
    have hsafe1 := fun r (hr : r ∈ (p.answers ++ (p.nameServers ++ (p.header.optRR.toList ++
      p.additional))).drop (p.answers.length % 65536)) => hsafe r (List.mem_of_mem_drop hr)
    -- authority
    rcases rrs_sim (p.nameServers.length % 65536) _ _ _ hst1 hsafe1
        (by rw [List.length_drop, hl]
            have := Nat.mod_le p.answers.length 65536
            have := Nat.mod_le p.nameServers.length 65536
            omega) with
      ⟨e1, e2⟩ | ⟨e1, e2⟩ | ⟨ns', pc2', pb2', e1, e2, hst2⟩
    · simp only [e1, e2, Out.bind_err]
    · simp only [e1, e2, Out.bind_panic]
    rw [e1, e2]
    simp only [Out.bind_ok]
    have hsafe2 := fun r (hr : r ∈ ((p.answers ++ (p.nameServers ++ (p.header.optRR.toList ++
      p.additional))).drop (p.answers.length % 65536)).drop (p.nameServers.length % 65536)) =>
        hsafe1 r (List.mem_of_mem_drop hr)
    -- additional
    rcases rrs_sim ((p.additional.length % 65536 + (if p.header.opt.isSome then 1 else 0)) % 65536)
        _ _ _ hst2 hsafe2
        (by rw [List.length_drop, List.length_drop, hl, hol]
            have := Nat.mod_le p.answers.length 65536
            have := Nat.mod_le p.nameServers.length 65536
            have := Nat.mod_le p.additional.length 65536
            have := Nat.mod_le (p.additional.length % 65536 + (if p.header.opt.isSome then 1 else 0))
              65536
            omega) with
      ⟨e1, e2⟩ | ⟨e1, e2⟩ | ⟨ar', pc3', pb3', e1, e2, _⟩
    · simp only [e1, e2, Out.bind_err]
    · simp only [e1, e2, Out.bind_panic]
    rw [e1, e2]
    rfl

/-- whatever the plain serialisation reads as, the compressed one reads as the same -/
theorem compressed_reads_as_plain (p : Packet) (hs : p.NameSafe) (b c : Bytes)
    (hb : p.build = .ok b) (hc : p.buildCompressed = .ok c) (q : Packet)
    (hq : Packet.parse b = .ok q) : Packet.parse c = .ok q := by
  rw [compressed_parse_eq_plain p hs b c hb hc, hq]

/-- a receiver rejects the compressed serialisation exactly when it rejects the plain one -/
theorem compressed_rejected_iff (p : Packet) (hs : p.NameSafe) (b c : Bytes)
    (hb : p.build = .ok b) (hc : p.buildCompressed = .ok c) :
    Packet.parse c = .err ↔ Packet.parse b = .err := by
  rw [compressed_parse_eq_plain p hs b c hb hc]

namespace C03Any

/-! ### well-formed packets are `NameSafe`: the theorem extends `compressed_same_as_plain` -/

theorem AllOK.safeAll (ks : List FKind) : ∀ (vs : List Val), AllOK ks vs → tailLast ks = true →
    SafeAll ks vs := by
  induction ks with
  | nil => intro vs _ _; simp [SafeAll]
  | cons k ks ih =>
    intro vs hok htl
    cases vs with
    | nil => simp [AllOK] at hok
    | cons v vs =>
      simp only [AllOK] at hok
      simp only [SafeAll]
      by_cases hn : hasName (k :: ks) = false
      · exact Or.inl hn
      · right
        have htl' : tailLast ks = true := by
          cases ks with
          | nil => rfl
          | cons k2 ks2 => simp [tailLast] at htl; exact htl.2
        refine ⟨?_, ih vs hok.2 htl'⟩
        have hf := hok.1
        cases k <;> cases v <;> simp only [FieldOK] at hf <;> simp only [FieldSafe]
        · exact hf
        · exact hf
        all_goals
          exfalso
          cases ks with
          | nil => simp [hasName, isName] at hn
          | cons k2 ks2 => simp [tailLast, FKind.isTail] at htl

/-- a well-formed RDATA value is `NameSafe` -/
theorem RData.WF.nameSafe {rd : RData} (h : rd.WF) : rd.NameSafe := by
  cases rd with
  | flat code vs =>
    obtain ⟨hs, _, _⟩ := h
    simp only [SchemaOK] at hs
    simp only [RData.NameSafe]
    cases hk : schemaOf code with
    | none => trivial
    | some ks =>
      rw [hk] at hs
      exact AllOK.safeAll ks vs hs (schemaOf_facts hk).1
  | ipseckey prec alg gw key =>
    obtain ⟨_, _, hg, _⟩ := h
    cases gw <;> simp only [RData.NameSafe]
    exact hg
  | opt o => trivial
  | null code data =>
    obtain ⟨_, _, hc, hty⟩ := h
    simp only [RData.NameSafe]
    rw [Nat.mod_eq_of_lt hc]
    rcases hty with rfl | hu
    · rfl
    · cases ht : TYPE.ofCode code <;> rw [ht] at hu <;> simp [TYPE.isUnknown] at hu
      rfl
  | empty t => trivial

/-- a well-formed record is `NameSafe` -/
theorem RR.WF.nameSafe {r : RR} (h : r.WF) : r.NameSafe := by
  obtain ⟨hn, _, hrd, _⟩ := h
  refine ⟨hn, RData.WF.nameSafe hrd, ?_⟩
  cases hr : r.rdata <;> rw [hr] at hrd
  · exact hrd.2.2
  · exact hrd.2.2.2
  · exact hrd.2
  · simp only [RData.writtenLen, RData.write]; exact hrd.2.1
  · simp [RData.writtenLen, RData.write]

/-- every well-formed packet satisfies the hypothesis of `compressed_parse_eq_plain` -/
theorem Packet.WF.nameSafe {p : Packet} (h : p.WF) : p.NameSafe := by
  obtain ⟨hh, hq, _, _, _, hqs, han, hns, har, _⟩ := h
  refine ⟨hq, fun q hq' => (hqs q hq').1, fun r hr => RR.WF.nameSafe (han r hr),
    fun r hr => RR.WF.nameSafe (hns r hr), fun r hr => RR.WF.nameSafe (har r hr), ?_⟩
  obtain ⟨_, _, ho⟩ := hh
  cases hopt : p.header.opt with
  | none => trivial
  | some o =>
    rw [hopt] at ho
    exact ho.2

/-! ### 8. an evaluator for `Packet.parse` (for the concrete examples below) -/

section Exec
variable (np : Bytes → Nat → Out (Name × Nat))

/-- `decField` with the name parser as a parameter -/
def decFieldX (d : Bytes) : FKind → Nat → Out (Val × Nat)
  | .name _, pos => do
      let (n, p) ← np d pos
      pure (.name n, p)
  | k, pos => decField d k pos

/-- `decAll` with the name parser as a parameter -/
def decAllX (d : Bytes) : List FKind → Nat → Out (List Val × Nat)
  | [], pos => .ok ([], pos)
  | k :: ks, pos => do
    let (v, p) ← decFieldX np d k pos
    let (vs, p') ← decAllX d ks p
    pure (v :: vs, p')

/-- `ipseckeyParse` with the name parser as a parameter -/
def ipseckeyParseX (d : Bytes) (pos : Nat) : Out (RData × Nat) :=
  if pos + 3 > d.length then .err else do
    let prec ← idx d pos
    let gt ← idx d (pos + 1)
    let alg ← idx d (pos + 2)
    let pos := pos + 3
    let (gw, pos) ← (match gt.toNat with
      | 0 => (.ok (Gateway.none, pos) : Out (Gateway × Nat))
      | 1 => if d.length < pos + 4 then .err else do
          let s ← slice d pos (pos + 4)
          pure (Gateway.v4 (deN s), pos + 4)
      | 2 => if d.length < pos + 16 then .err else do
          let s ← slice d pos (pos + 16)
          pure (Gateway.v6 (deN s), pos + 16)
      | 3 => do
          let (n, p) ← np d pos
          pure (Gateway.domain n, p)
      | _ => .err)
    let key ← slice d pos d.length
    pure (.ipseckey prec.toNat alg.toNat gw key, d.length)

/-- `parseTyped` with the name parser as a parameter -/
def parseTypedX (d : Bytes) (pos : Nat) (t : TYPE) : Out (RData × Nat) :=
  match t with
  | .IPSECKEY => ipseckeyParseX np d pos
  | .NULL => parseTyped d pos .NULL
  | .Unknown c => parseTyped d pos (.Unknown c)
  | .OPT => .panic
  | t =>
    match schemaOf t.toCode with
    | none => .panic
    | some ks => do
      let (vs, p) ← decAllX np d ks pos
      if flatCheck t.toCode vs then pure (.flat t.toCode vs, p) else .err

/-- `RData.parse` with the name parser as a parameter -/
def rdataParseX (d : Bytes) (pos : Nat) : Out (RData × Nat) :=
  if pos + 10 > d.length then .err else do
    let tb ← slice d pos (pos + 2)
    let t := TYPE.ofCode (deN tb)
    let lb ← slice d (pos + 8) (pos + 10)
    let rdlen := deN lb
    if pos + 10 + rdlen > d.length then .err else
    if t = .OPT then optParse (d.take (pos + rdlen + 10)) pos else
    let pos := pos + 10
    if rdlen = 0 then .ok (.empty t, pos) else do
      let rdataEnd := pos + rdlen
      let (rd, _) ← parseTypedX np (d.take rdataEnd) pos t
      pure (rd, rdataEnd)

/-- `RR.parse` with the name parser as a parameter -/
def rrParseX (d : Bytes) (pos : Nat) : Out (RR × Nat) := do
  let (name, pos) ← np d pos
  if pos + 8 > d.length then .err else do
    let cb ← slice d (pos + 2) (pos + 4)
    let tb ← slice d (pos + 4) (pos + 8)
    let (rdata, pos') ← rdataParseX np d pos
    if rdata.typeOf = .OPT then
      pure ({ name := name, cls := .IN, ttl := deN tb, rdata := rdata, flush := false }, pos')
    else do
      let cls ← CLASS.ofCode (deN cb &&& 0x7FFF)
      pure ({ name := name, cls := cls, ttl := deN tb, rdata := rdata,
              flush := (deN cb &&& 0x8000) == 0x8000 }, pos')

/-- `Question.parse` with the name parser as a parameter -/
def questionParseX (d : Bytes) (pos : Nat) : Out (Question × Nat) := do
  let (name, pos) ← np d pos
  if pos + 4 > d.length then .err else do
    let tb ← slice d pos (pos + 2)
    let cb ← slice d (pos + 2) (pos + 4)
    let qtype ← QTYPE.ofCode (deN tb)
    let qclass ← QCLASS.ofCode (deN cb &&& 0x7FFF)
    pure ({ name := name, qtype := qtype, qclass := qclass,
            unicast := (deN cb &&& 0x8000) == 0x8000 }, pos + 4)

/-- `parseQuestions` with the name parser as a parameter -/
def parseQuestionsX (d : Bytes) : Nat → Nat → Out (List Question × Nat)
  | 0, pos => .ok ([], pos)
  | n+1, pos => do
    let (q, p) ← questionParseX np d pos
    let (qs, p') ← parseQuestionsX d n p
    pure (q :: qs, p')

/-- `parseRRs` with the name parser as a parameter -/
def parseRRsX (d : Bytes) : Nat → Nat → Out (List RR × Nat)
  | 0, pos => .ok ([], pos)
  | n+1, pos => do
    let (r, p) ← rrParseX np d pos
    let (rs, p') ← parseRRsX d n p
    pure (r :: rs, p')

/-- `Packet.parse` with the name parser as a parameter -/
def packetParseX (d : Bytes) : Out Packet := do
  let header ← Header.parse d
  let qd ← Peek.questions d
  let (questions, p) ← parseQuestionsX np d qd 12
  let an ← Peek.answers d
  let (answers, p) ← parseRRsX np d an p
  let ns ← Peek.nameServers d
  let (nameServers, p) ← parseRRsX np d ns p
  let ar ← Peek.additional d
  let (additional, _) ← parseRRsX np d ar p
  let (o, rest) := liftOpt additional
  let header ← header.extractOpt o
  pure { header := header, questions := questions, answers := answers,
         nameServers := nameServers, additional := rest }

end Exec

/-- the copy with `Name.parse` plugged in is the model function -/
theorem decFieldX_eq (d : Bytes) (k : FKind) (pos : Nat) :
    decFieldX Name.parse d k pos = decField d k pos := by
  cases k <;> rfl

/-- the copy with `Name.parse` plugged in is the model function -/
theorem decAllX_eq (d : Bytes) (ks : List FKind) (pos : Nat) :
    decAllX Name.parse d ks pos = decAll d ks pos := by
  induction ks generalizing pos with
  | nil => rfl
  | cons k ks ih => simp only [decAllX, decAll, decFieldX_eq, ih]

/-- the copy with `Name.parse` plugged in is the model function -/
theorem parseTypedX_eq (d : Bytes) (pos : Nat) (t : TYPE) :
    parseTypedX Name.parse d pos t = parseTyped d pos t := by
  unfold parseTypedX parseTyped
  split
  · rfl
  · rfl
  · rfl
  · rfl
  · simp only [decAllX_eq]
    generalize schemaOf _ = o
    cases o <;> rfl

/-- the copy with `Name.parse` plugged in is the model function -/
theorem rdataParseX_eq (d : Bytes) (pos : Nat) : rdataParseX Name.parse d pos = RData.parse d pos := by
  unfold rdataParseX RData.parse
  simp only [parseTypedX_eq]

/-- the copy with `Name.parse` plugged in is the model function -/
theorem rrParseX_eq (d : Bytes) (pos : Nat) : rrParseX Name.parse d pos = RR.parse d pos := by
  unfold rrParseX RR.parse
  simp only [rdataParseX_eq]

/-- the copy with `Name.parse` plugged in is the model function -/
theorem parseQuestionsX_eq (d : Bytes) (n pos : Nat) :
    parseQuestionsX Name.parse d n pos = parseQuestions d n pos := by
  induction n generalizing pos with
  | zero => rfl
  | succ n ih =>
    simp only [parseQuestionsX, parseQuestions, ih]
    rfl

/-- the copy with `Name.parse` plugged in is the model function -/
theorem parseRRsX_eq (d : Bytes) (n pos : Nat) : parseRRsX Name.parse d n pos = parseRRs d n pos := by
  induction n generalizing pos with
  | zero => rfl
  | succ n ih => simp only [parseRRsX, parseRRs, ih, rrParseX_eq]

/-- `Name::parse` run with a step budget that always suffices -/
def nameParseF (d : Bytes) (pos : Nat) : Out (Name × Nat) :=
  match nameLoopFuel (d.length + 2 * 255) d (NS.init pos) with
  | some r => r
  | none => .err

/-- `Name::parse` finishes within `data.len() + 510` iterations (`name_parse_steps_len`), so the
budgeted copy is the parser -/
theorem nameParseF_eq : Name.parse = nameParseF := by
  funext d pos
  simp only [nameParseF, name_parse_steps_len d pos _ (Nat.le_refl _)]

/-- `Packet.parse` as a function the kernel can run on a concrete message (the name loop is by
well-founded recursion, this copy of it by recursion on a step budget) -/
theorem packetParse_eq (d : Bytes) : Packet.parse d = packetParseX nameParseF d := by
  rw [← nameParseF_eq]
  unfold packetParseX Packet.parse
  simp only [parseQuestionsX_eq, parseRRsX_eq]

/-! ### 9. examples and counterexamples -/

def hdr0 : Header := { id := 1, opcode := .StandardQuery, rcode := .NoError, flags := 0, opt := none }

/-- A packet far outside `Packet.WF` that is `NameSafe`: 17-bit id, unknown flag bits, BADVERS
without OPT, a TTL above 32 bits, TXT without strings, an MX preference above 16 bits, NSEC
windows out of order, an SOA serial above 32 bits, empty opaque RDATA. Names repeat, so the
compressed message has pointers. -/
def wild : Packet :=
  { header := { id := 0x12345, opcode := .Reserved, rcode := .BADVERS, flags := 0x18180, opt := none }
    questions := [{ name := [[97], [98]], qtype := .TYPE .A, qclass := .CLASS .IN, unicast := false }]
    answers :=
      [{ name := [[97], [98]], cls := .IN, ttl := 2 ^ 32 + 5, flush := false,
         rdata := .flat 16 [.strs []] },
       { name := [[97], [98]], cls := .IN, ttl := 60, flush := true,
         rdata := .flat 15 [.int 70000, .name [[109], [97], [98]]] }]
    nameServers :=
      [{ name := [[98]], cls := .IN, ttl := 60, flush := false,
         rdata := .flat 47 [.name [[97], [98]], .tlvs [(1, [0x80]), (0, [0x40])]] }]
    additional :=
      [{ name := [[98]], cls := .IN, ttl := 60, flush := false,
         rdata := .flat 6 [.name [[110], [98]], .name [[109], [97], [98]], .int (2 ^ 32 + 1), .int 1,
           .int 2, .int 3, .int 4] },
       { name := [[120], [98]], cls := .IN, ttl := 1, flush := false, rdata := .null 65280 [] }] }

example : wild.NameSafe ∧ ¬ wild.WF := by decide

/-- `wild.build` -/
def wild_b : Bytes :=
  [35, 69, 177, 128, 0, 1, 0, 2, 0, 1, 0, 2, 1, 97, 1, 98, 0, 0, 1, 0, 1, 1, 97, 1, 98, 0, 0, 16, 0,
   1, 0, 0, 0, 5, 0, 1, 0, 1, 97, 1, 98, 0, 0, 15, 128, 1, 0, 0, 0, 60, 0, 9, 17, 112, 1, 109, 1,
   97, 1, 98, 0, 1, 98, 0, 0, 47, 0, 1, 0, 0, 0, 60, 0, 11, 1, 97, 1, 98, 0, 0, 1, 64, 1, 1, 128,
   1, 98, 0, 0, 6, 0, 1, 0, 0, 0, 60, 0, 32, 1, 110, 1, 98, 0, 1, 109, 1, 97, 1, 98, 0, 0, 0, 0, 1,
   0, 0, 0, 1, 0, 0, 0, 2, 0, 0, 0, 3, 0, 0, 0, 4, 1, 120, 1, 98, 0, 255, 0, 0, 1, 0, 0, 0, 1, 0,
   0]

/-- `wild.buildCompressed` -/
def wild_c : Bytes :=
  [35, 69, 177, 128, 0, 1, 0, 2, 0, 1, 0, 2, 1, 97, 1, 98, 0, 0, 1, 0, 1, 192, 12, 0, 16, 0, 1, 0,
   0, 0, 5, 0, 1, 0, 192, 12, 0, 15, 128, 1, 0, 0, 0, 60, 0, 6, 17, 112, 1, 109, 192, 12, 192, 14,
   0, 47, 0, 1, 0, 0, 0, 60, 0, 11, 1, 97, 1, 98, 0, 0, 1, 64, 1, 1, 128, 192, 14, 0, 6, 0, 1, 0,
   0, 0, 60, 0, 26, 1, 110, 192, 14, 192, 48, 0, 0, 0, 1, 0, 0, 0, 1, 0, 0, 0, 2, 0, 0, 0, 3, 0, 0,
   0, 4, 1, 120, 192, 14, 255, 0, 0, 1, 0, 0, 0, 1, 0, 0]

/-- the hypotheses of `compressed_parse_eq_plain` hold for `wild`: both serialisations exist (145
and 127 bytes) … -/
theorem wild_builds : wild.build = .ok wild_b ∧ wild.buildCompressed = .ok wild_c ∧
    wild_b.length = 145 ∧ wild_c.length = 127 := by
  exact ⟨by decide +kernel, by decide +kernel, rfl, rfl⟩

/-- … and the theorem applies although `wild` does not read back as itself -/
example : Packet.parse wild_c = Packet.parse wild_b :=
  compressed_parse_eq_plain wild (by decide) _ _ wild_builds.1 wild_builds.2.1

/-- a smaller packet outside `Packet.WF` (17-bit id, 17-bit MX preference) whose two serialisations
can be run through the evaluator: both parse to the same packet, which is not the original -/
def wildSmall : Packet :=
  { header := { hdr0 with id := 0x12345 }
    questions := [{ name := [[97]], qtype := .TYPE .A, qclass := .CLASS .IN, unicast := false }]
    answers := [{ name := [[97]], cls := .IN, ttl := 60, flush := false,
                  rdata := .flat 15 [.int 70000, .name [[109], [97]]] }]
    nameServers := [], additional := [] }

/-- both serialisations of `wildSmall` read as the same packet, with id and preference truncated -/
theorem wildSmall_reads_as_other : wildSmall.NameSafe ∧ ¬ wildSmall.WF ∧
    ∃ b c q, wildSmall.build = .ok b ∧ wildSmall.buildCompressed = .ok c ∧ c.length < b.length ∧
      Packet.parse c = .ok q ∧ Packet.parse b = .ok q ∧ q ≠ wildSmall := by
  refine ⟨by decide, by decide, _, _,
    { wildSmall with
      header := { hdr0 with id := 0x2345 }
      answers := [{ name := [[97]], cls := .IN, ttl := 60, flush := false,
                    rdata := .flat 15 [.int 4464, .name [[109], [97]]] }] },
    (by decide +kernel : wildSmall.build = .ok
      [35, 69, 0, 0, 0, 1, 0, 1, 0, 0, 0, 0, 1, 97, 0, 0, 1, 0, 1, 1, 97, 0, 0, 15, 0, 1, 0, 0, 0, 60,
       0, 7, 17, 112, 1, 109, 1, 97, 0]),
    (by decide +kernel : wildSmall.buildCompressed = .ok
      [35, 69, 0, 0, 0, 1, 0, 1, 0, 0, 0, 0, 1, 97, 0, 0, 1, 0, 1, 192, 12, 0, 15, 0, 1, 0, 0, 0, 60,
       0, 6, 17, 112, 1, 109, 192, 12]), by decide, ?_, ?_, by decide⟩
  · rw [packetParse_eq]; decide +kernel
  · rw [packetParse_eq]; decide +kernel

/-! #### the hypotheses cannot be dropped -/

/-- the names of a value: what the brief's hypothesis "all names of the packet are wire-format
names" ranges over -/
def valNames : Val → List Name
  | .name n => [n]
  | _ => []

/-- the names inside an RDATA value -/
def rdataNames : RData → List Name
  | .flat _ vs => vs.flatMap valNames
  | .ipseckey _ _ (.domain n) _ => [n]
  | _ => []

/-- question names, owner names and the names inside RDATA -/
def packetNames (p : Packet) : List Name :=
  p.questions.map (·.name) ++
    (p.answers ++ p.nameServers ++ p.additional).flatMap fun r => r.name :: rdataNames r.rdata

/-- **Names outside `Name.WF` do not survive** (an empty label): question 1 is `\x01.`, question 2
is `<empty label>.\x01.`; plain, its bytes `00 01 01 00 …` read as the root name followed by
QTYPE 0x0101 = CAA; compressed, the suffix `\x01.` becomes a pointer and `00 C0 0C …` reads as the
root name followed by QTYPE 0xC00C, which is rejected. -/
def cexLabel : Packet :=
  { header := hdr0
    questions := [{ name := [[1]], qtype := .TYPE .A, qclass := .CLASS .IN, unicast := false },
                  { name := [[], [1]], qtype := .TYPE .CAA, qclass := .CLASS .IN, unicast := false }]
    answers := [], nameServers := [], additional := [] }

/-- the compressed message is rejected, the plain one is accepted -/
theorem cexLabel_differs : ¬ Name.WF [[], [1]] ∧
    ∃ b c, cexLabel.build = .ok b ∧ cexLabel.buildCompressed = .ok c ∧
      Packet.parse c = .err ∧ (Packet.parse b).isOk = true := by
  refine ⟨by decide, _, _,
    (by decide +kernel : cexLabel.build = .ok
      [0, 1, 0, 0, 0, 2, 0, 0, 0, 0, 0, 0, 1, 1, 0, 0, 1, 0, 1, 0, 1, 1, 0, 1, 1, 0, 1]),
    (by decide +kernel : cexLabel.buildCompressed = .ok
      [0, 1, 0, 0, 0, 2, 0, 0, 0, 0, 0, 0, 1, 1, 0, 0, 1, 0, 1, 0, 192, 12, 1, 1, 0, 1]), ?_, ?_⟩
  · rw [packetParse_eq]; decide +kernel
  · rw [packetParse_eq]; decide +kernel

/-- **Wire-format names are not enough** (`RData.NameSafe`, clause for opaque RDATA): the second
answer is `RData::NULL(5, [C0 22])`, two opaque bytes under the code of CNAME. The CNAME parser
follows them as a pointer to offset 34, which lies in the first answer's address `00 01 7A 00` in
both messages, one byte further in the compressed one (the owner `b.a.` lost a byte to a pointer):
the plain message reads CNAME `.`, the compressed one CNAME `z.`. -/
def cexOpaque : Packet :=
  { header := hdr0
    questions := [{ name := [[97]], qtype := .TYPE .A, qclass := .CLASS .IN, unicast := false }]
    answers := [{ name := [[98], [97]], cls := .IN, ttl := 60, flush := false,
                  rdata := .flat 1 [.int 0x00017A00] },
                { name := [[97]], cls := .IN, ttl := 60, flush := false, rdata := .null 5 [0xC0, 34] }]
    nameServers := [], additional := [] }

/-- `cexOpaque.build` -/
def cexOpaque_b : Bytes :=
  [0, 1, 0, 0, 0, 1, 0, 2, 0, 0, 0, 0, 1, 97, 0, 0, 1, 0, 1, 1, 98, 1, 97, 0, 0, 1, 0, 1, 0, 0, 0, 60,
   0, 4, 0, 1, 122, 0, 1, 97, 0, 0, 5, 0, 1, 0, 0, 0, 60, 0, 2, 192, 34]

/-- `cexOpaque.buildCompressed` -/
def cexOpaque_c : Bytes :=
  [0, 1, 0, 0, 0, 1, 0, 2, 0, 0, 0, 0, 1, 97, 0, 0, 1, 0, 1, 1, 98, 192, 12, 0, 1, 0, 1, 0, 0, 0, 60,
   0, 4, 0, 1, 122, 0, 192, 12, 0, 5, 0, 1, 0, 0, 0, 60, 0, 2, 192, 34]

/-- every name of `cexOpaque` is a wire-format name, and its two serialisations read differently -/
theorem cexOpaque_differs : (∀ n ∈ packetNames cexOpaque, Name.WF n) ∧
    cexOpaque.build = .ok cexOpaque_b ∧ cexOpaque.buildCompressed = .ok cexOpaque_c ∧
    Packet.parse cexOpaque_c ≠ Packet.parse cexOpaque_b := by
  refine ⟨by decide, by decide +kernel, by decide +kernel, ?_⟩
  rw [packetParse_eq, packetParse_eq]
  decide +kernel

/-- the statement with "all names are wire-format names" as its only hypothesis is false -/
theorem names_wf_not_enough : ¬ ∀ (p : Packet) (b c : Bytes), (∀ n ∈ packetNames p, Name.WF n) →
    p.build = .ok b → p.buildCompressed = .ok c → Packet.parse c = Packet.parse b := by
  intro h
  obtain ⟨h1, h2, h3, h4⟩ := cexOpaque_differs
  exact h4 (h cexOpaque _ _ h1 h2 h3)

/-- **A value of the wrong shape** (`FieldSafe`): an MX whose preference slot holds a name is
written as the exchange alone; the parser takes its first two bytes for the preference — `01 61`
plain, the pointer `C0 0C` compressed — and the rest for the exchange: `00` (the root) plain,
nothing (an error) compressed. -/
def cexShape : Packet :=
  { header := hdr0
    questions := [{ name := [[97]], qtype := .TYPE .A, qclass := .CLASS .IN, unicast := false }]
    answers := [{ name := [[97]], cls := .IN, ttl := 60, flush := false,
                  rdata := .flat 15 [.name [[97]], .name [[97]]] }]
    nameServers := [], additional := [] }

/-- the compressed message is rejected, the plain one is accepted -/
theorem cexShape_differs : (∀ n ∈ packetNames cexShape, Name.WF n) ∧
    ∃ b c, cexShape.build = .ok b ∧ cexShape.buildCompressed = .ok c ∧
      Packet.parse c = .err ∧ (Packet.parse b).isOk = true := by
  refine ⟨by decide, _, _,
    (by decide +kernel : cexShape.build = .ok
      [0, 1, 0, 0, 0, 1, 0, 1, 0, 0, 0, 0, 1, 97, 0, 0, 1, 0, 1, 1, 97, 0, 0, 15, 0, 1, 0, 0, 0, 60, 0,
       3, 1, 97, 0]),
    (by decide +kernel : cexShape.buildCompressed = .ok
      [0, 1, 0, 0, 0, 1, 0, 1, 0, 0, 0, 0, 1, 97, 0, 0, 1, 0, 1, 192, 12, 0, 15, 0, 1, 0, 0, 0, 60, 0,
       2, 192, 12]), ?_, ?_⟩
  · rw [packetParse_eq]; decide +kernel
  · rw [packetParse_eq]; decide +kernel

/-- **A character-string of more than 255 bytes in front of a name** (`FieldSafe`, NAPTR): the
256-byte FLAGS string is written with length byte 0, so the parser reads an empty FLAGS, then
SERVICES, REGEXP and REPLACEMENT out of the string's content `00 00 C0 22 …` — again a pointer to
offset 34, which holds different bytes in the two messages. -/
def cexCharStr : Packet :=
  { header := hdr0
    questions := [{ name := [[97]], qtype := .TYPE .A, qclass := .CLASS .IN, unicast := false }]
    answers := [{ name := [[98], [97]], cls := .IN, ttl := 60, flush := false,
                  rdata := .flat 1 [.int 0x00017A00] },
                { name := [[97]], cls := .IN, ttl := 60, flush := false,
                  rdata := .flat 35 [.int 1, .int 2,
                    .bytes ([0, 0, 0xC0, 34] ++ List.replicate 252 0), .bytes [], .bytes [],
                    .name []] }]
    nameServers := [], additional := [] }

/-- the two serialisations read differently (CNAME-like target `.` against `z.`) -/
theorem cexCharStr_differs : (∀ n ∈ packetNames cexCharStr, Name.WF n) ∧
    ∃ b c, cexCharStr.build = .ok b ∧ cexCharStr.buildCompressed = .ok c ∧
      Packet.parse c ≠ Packet.parse b := by
  refine ⟨by decide, _, _, rfl, rfl, ?_⟩
  rw [packetParse_eq, packetParse_eq]
  decide +kernel

/-- **RDATA of more than 65 535 bytes** (`RR.NameSafe`): the second answer holds 65 538 opaque
bytes, so both writers store RDLENGTH 2; the third record the parser reads (ANCOUNT is 3) starts at
the third of those bytes, `C0 22 …`, once more a pointer to offset 34. -/
def cexLong : Packet :=
  { header := hdr0
    questions := [{ name := [[97]], qtype := .TYPE .A, qclass := .CLASS .IN, unicast := false }]
    answers := [{ name := [[98], [97]], cls := .IN, ttl := 60, flush := false,
                  rdata := .flat 1 [.int 0x00017A00] },
                { name := [[97]], cls := .IN, ttl := 60, flush := false,
                  rdata := .null 65280 ([0, 0, 0xC0, 34, 0, 1, 0, 1, 0, 0, 0, 60, 0, 4, 1, 2, 3, 4]
                    ++ List.replicate 65520 0) },
                { name := [[97]], cls := .IN, ttl := 60, flush := false, rdata := .flat 1 [.int 1] }]
    nameServers := [], additional := [] }

set_option maxRecDepth 100000 in
/-- every name is a wire-format name, the opaque bytes are of a type without names, and still the
two serialisations read differently (about 50 s: two messages of 65 6xx bytes run in the kernel) -/
theorem cexLong_differs : (∀ n ∈ packetNames cexLong, Name.WF n) ∧
    (∀ r ∈ cexLong.answers, Name.WF r.name ∧ r.rdata.NameSafe) ∧
    ∃ b c, cexLong.build = .ok b ∧ cexLong.buildCompressed = .ok c ∧
      Packet.parse c ≠ Packet.parse b := by
  refine ⟨by decide, by decide, _, _, rfl, rfl, ?_⟩
  rw [packetParse_eq, packetParse_eq]
  decide +kernel

/-! #### the hypotheses of the component lemmas are satisfiable -/

/-- `FieldSafe` / `SafeAll`: an SOA whose serial does not fit 32 bits; an SVCB whose parameters
(after the last name) are out of order and oversized; an MX needs both fields -/
example : SafeAll [.name true, .name true, .int 4, .int 4, .int 4, .int 4, .int 4]
    [.name [[97]], .name [[98]], .int (2 ^ 40), .int 1, .int 2, .int 3, .int 4] := by decide
example : SafeAll [.int 2, .name false, .tlvs 2 2 true]
    [.int 70000, .name [[97]], .tlvs [(9, [1]), (3, List.replicate 70000 0)]] := by decide
example : ¬ SafeAll [.int 2, .name true] [.int 1] := by decide
example : SafeAll [.strs] [] ∧ SafeAll [.int 4] [.name [[]]] := by decide

/-- `RData.NameSafe`: opaque bytes under the code of A or of an unknown type are fine, under the
code of CNAME or IPSECKEY they are not -/
example : (RData.null 1 [1, 2, 3]).NameSafe ∧ (RData.null 65280 [0xC0, 12]).NameSafe ∧
    ¬ (RData.null 5 [0xC0, 12]).NameSafe ∧ ¬ (RData.null 45 [0, 3, 0, 0xC0, 12]).NameSafe := by decide

/-- `rr_sim` on a record outside `RR.WF` (MX preference 70000, TTL above 32 bits) whose owner and
exchange are already in the table: the hypotheses hold, and the compressed record is 16 bytes
against 24 -/
example :
    let r : RR := { name := [[97]], cls := .IN, ttl := 2 ^ 32 + 1, flush := false,
                    rdata := .flat 15 [.int 70000, .name [[109], [97]]] }
    let outc : Bytes := [0, 0, 0, 0, 0, 0, 0, 0, 0, 0, 0, 0, 1, 109, 1, 97, 0]
    let t : Table := [([[109], [97]], 12), ([[97]], 14)]
    r.NameSafe ∧ ¬ r.WF ∧ TInv outc t ∧
      r.writeG true outc.length t = .ok ([0xC0, 14, 0, 15, 0, 1, 0, 0, 0, 1, 0, 4, 0x11, 0x70, 0xC0, 12], t) ∧
      (r.write.isOk = true) := by
  refine ⟨by decide, by decide, ?_, by decide, by decide⟩
  intro e he
  simp only [List.mem_cons, List.not_mem_nil, or_false] at he
  rcases he with rfl | rfl
  · refine ⟨by decide, by decide, ?_⟩
    exact Enc.label (b := 1) (by decide) (by decide) (by decide) (by decide) (by decide)
      (Enc.label (b := 1) (by decide) (by decide) (by decide) (by decide) (by decide)
        (Enc.root (by decide)))
  · refine ⟨by decide, by decide, ?_⟩
    exact Enc.label (b := 1) (by decide) (by decide) (by decide) (by decide) (by decide)
      (Enc.root (by decide))

end C03Any
end Dns
