/-
C02 — Serialising a well-formed packet and parsing the bytes gives the packet
back (`Packet.build` then `Packet.parse`), with the component round trips it
rests on: names, questions, RDATA, records, each embedded between arbitrary
bytes `pre` and `post` with the cursor stopping exactly at the end of the
encoding. Proofs are in `Lemmas/RoundTrip*.lean`, stated there for the walker
`buildG c` that covers both the plain (`c = false`) and the compressing writer.
-/
import SimpleDnsModel.Lemmas.RoundTrip
namespace Dns

/-- the generic walker with compression off is the plain builder -/
theorem buildG_false (p : Packet) : p.buildG false = p.build := Packet.buildG_false p

/-- **Round trip of the whole message.** -/
theorem build_parse (p : Packet) (h : p.WF) : ∃ b, Packet.build p = .ok b ∧ Packet.parse b = .ok p := by
  obtain ⟨b, hb, hp, _⟩ := Packet.buildG_parse false p h
  rw [buildG_false] at hb
  exact ⟨b, hb, hp⟩

/-! ### components -/

/-- **Names.** -/
theorem name_roundtrip (n : Name) (h : Name.WF n) (pre post : Bytes) :
    Name.parse (pre ++ (Name.write n ++ post)) pre.length
      = .ok (n, pre.length + (Name.write n).length) := by
  rw [Name.write_length]; exact Name.parse_write h pre post

/-- **Questions.** -/
theorem question_roundtrip (q : Question) (h : q.WF) (pre post : Bytes) :
    Question.parse (pre ++ (q.write ++ post)) pre.length = .ok (q, pre.length + q.write.length) := by
  have hs := Question.writeG_spec false q pre.length [] pre h rfl (TInv.nil _)
  have := hs.dec post
  rwa [hs.plain rfl] at this

/-- **Records** (owner name, TYPE, CLASS, TTL, RDLENGTH, RDATA), including OPT-typed records. -/
theorem record_roundtrip (r : RR) (h : r.WF) (pre post : Bytes) :
    ∃ b, r.write = .ok b ∧ RR.parse (pre ++ (b ++ post)) pre.length = .ok (r, pre.length + b.length) := by
  obtain ⟨b, t', _, hs⟩ := RR.writeG_spec false r pre.length [] h
  have hs := hs pre rfl (TInv.nil _)
  obtain ⟨pb, hpb, _, heq⟩ := hs.plain
  have := heq rfl
  subst this
  exact ⟨b, hpb, hs.dec post⟩

/-- **RDATA** of every type but OPT, behind its ten-byte prefix TYPE, six bytes (CLASS, TTL),
RDLENGTH as computed by `RData.len`. -/
theorem rdata_roundtrip (rd : RData) (h : rd.WF) (hno : ∀ o, rd ≠ .opt o) (pre mid post : Bytes)
    (hmid : mid.length = 6) :
    ∃ b, rd.write = .ok b ∧
      RData.parse (pre ++ (beN 2 rd.typeOf.toCode ++ (mid ++ (beN 2 rd.len ++ (b ++ post)))))
        pre.length = .ok (rd, pre.length + 10 + b.length) := by
  obtain ⟨hty, htyrt, htyopt⟩ := h.typeOf_facts
  obtain ⟨b, t', _, hs⟩ := RData.writeG_spec false rd (pre.length + 10) [] h
  have hs := hs (pre ++ (beN 2 rd.typeOf.toCode ++ (mid ++ beN 2 rd.len))) (by simp [hmid])
    (TInv.nil _)
  obtain ⟨pb, hpb, _, heq⟩ := hs.plain
  have := heq rfl
  subst this
  refine ⟨b, hpb, ?_⟩
  have hlen := hs.lenEq rfl
  have hlt : b.length < 65536 := by have := hs.le; omega
  rw [hlen, RData.parse_frame pre _ mid b post hty hmid hlt, htyrt, if_neg (htyopt hno)]
  rw [hlen] at hs
  rcases hs.dec hno with ⟨hb0, hemp⟩ | ⟨hbne, p, hp⟩
  · rw [if_pos (by simp [hb0]), hb0, ← hemp]; rfl
  · rw [if_neg (by intro h0; exact hbne (List.eq_nil_of_length_eq_zero h0))]
    have e : pre ++ (beN 2 rd.typeOf.toCode ++ (mid ++ (beN 2 b.length ++ b)))
        = (pre ++ (beN 2 rd.typeOf.toCode ++ (mid ++ beN 2 b.length))) ++ b := by simp
    have e2 : pre.length + 10 = (pre ++ (beN 2 rd.typeOf.toCode ++ (mid ++ beN 2 b.length))).length := by
      simp [hmid]
    rw [e, e2, hp]
    rfl

/-- **OPT RDATA**: the CLASS slot carries the UDP size, the version is byte 2 of the TTL. -/
theorem opt_rdata_roundtrip (o : OptData) (h : (RData.opt o).WF) (ttl : Nat) (httl : ttl < 2 ^ 32)
    (pre post : Bytes) :
    RData.parse (pre ++ (beN 2 TYPE.OPT.toCode ++ ((beN 2 o.udp ++ beN 4 ttl) ++
        (beN 2 (RData.opt o).len ++ (encOptCodes o.codes ++ post))))) pre.length
      = .ok (.opt { udp := o.udp, version := (ttl >>> 8) % 256, codes := o.codes },
          pre.length + 10 + (encOptCodes o.codes).length) := by
  obtain ⟨b, t', hw, hs⟩ := RData.writeG_spec false (.opt o) (pre.length + 10) [] h
  have hs := hs (pre ++ (beN 2 TYPE.OPT.toCode ++ ((beN 2 o.udp ++ beN 4 ttl) ++
    beN 2 (RData.opt o).len))) (by simp) (TInv.nil _)
  have hb := hs.opt o rfl
  have hlen := hs.lenEq rfl
  have hlt : b.length < 65536 := by have := hs.le; omega
  simp only [encOptCodes]
  rw [← hb, hlen, RData.parse_frame pre _ _ b post (by decide) (by simp) hlt]
  rw [if_pos (by decide), hb]
  exact optParse_frame pre _ o.udp ttl _ o.codes h.1.1 httl (by simp) h.1.2.2

/-! ### a concrete well-formed packet -/

def exName (l : List (List UInt8)) : Name := l ++ [[101, 120, 97, 109, 112, 108, 101], [99, 111, 109]]

/-- a response with one question; A, MX and TXT (two strings) answers; SOA and NSEC (two windows)
in the authority section; SVCB (two parameters), an empty-RDATA record and a record of an unknown
type in the additional section; EDNS with one option and the extended response code BADVERS -/
def samplePacket : Packet :=
  { header :=
      { id := 0x1234, opcode := .StandardQuery, rcode := .BADVERS, flags := 0x8180,
        opt := some { udp := 1232, version := 0, codes := [(10, [1, 2, 3, 4, 5, 6, 7, 8])] } }
    questions :=
      [{ name := exName [[119, 119, 119]], qtype := .TYPE .A, qclass := .CLASS .IN, unicast := false }]
    answers :=
      [{ name := exName [[119, 119, 119]], cls := .IN, ttl := 300, flush := false,
         rdata := .flat 1 [.int 0x5DB8D822] },
       { name := exName [], cls := .IN, ttl := 3600, flush := true,
         rdata := .flat 15 [.int 10, .name (exName [[109, 97, 105, 108]])] },
       { name := exName [], cls := .CH, ttl := 60, flush := false,
         rdata := .flat 16 [.strs [[118, 61, 115, 112, 102, 49], []]] }]
    nameServers :=
      [{ name := exName [], cls := .IN, ttl := 86400, flush := false,
         rdata := .flat 6 [.name (exName [[110, 115]]), .name (exName [[114, 111, 111, 116]]),
           .int 2024010101, .int 7200, .int 3600, .int 1209600, .int 300] },
       { name := exName [], cls := .IN, ttl := 300, flush := false,
         rdata := .flat 47 [.name (exName [[119, 119, 119]]),
           .tlvs [(0, [0x40, 0x01]), (1, [0x80])]] }]
    additional :=
      [{ name := exName [[95, 100, 110, 115]], cls := .IN, ttl := 300, flush := false,
         rdata := .flat 64 [.int 1, .name (exName [[115, 118, 99]]),
           .tlvs [(1, [2, 104, 50]), (3, [0x01, 0xBB])]] },
       { name := exName [], cls := .NONE, ttl := 0, flush := false, rdata := .empty .HINFO },
       { name := exName [[120]], cls := .IN, ttl := 1, flush := false,
         rdata := .null 65280 [0xDE, 0xAD, 0xBE, 0xEF] }] }

example : samplePacket.WF := by decide

end Dns
