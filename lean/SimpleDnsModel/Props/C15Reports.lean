/-
C15, reports on the `on_discovery` channel — one `InstanceInformation` per instance.

`add_response_to_resources` (simple-mdns, `service_discovery.rs`) sends, while the channel is
open, one `InstanceInformation::from_records` per OWNER NAME among the kept records of a response
(`Mdns.reports`, the code after fix 3098c07). Before the fix it built ONE instance from all kept
records of the packet (`Mdns.reportsMerged`), so two instances announced in one response were
merged into one report under the first name.

  1. `owners`: `owners_nodup`, `mem_owners_iff`, `owners_append` / `owners_cons` /
     `owners_concat` / `owners_head?` (order of first appearance), `owners_sublist`,
     `owners_of_single_owner`, `owners_filter_name`
  2. `reports`: `reports_eq`, `mem_reports_iff`, `reports_length_le`, and — because only strict
     subdomains of the service are kept — `reports_eq_map`, `reports_length` (exactly one report
     per owner, in owner order), `reports_map_name`
  3. locality: `reportOf_local`, `reportOf_filter_self`, `reports_local`; soundness and
     completeness per owner: `reportOf_ips_iff`, `reportOf_ports_iff`, `reportOf_attr_keys_iff`,
     `reportOf_attrs_sound`, `reportOf_attr_last_wins`; for a whole response
     `report_faithful_to_owner`. Underneath: `fromRecords_ips_iff`, `fromRecords_ports_iff`,
     `fromRecords_attr_keys_iff`, `fromRecords_attrs_sound`, `fromRecords_attr_last_wins` and the
     `HashMap::extend` lemmas (`lookup_attrsExtend`, `mem_keys_attrsExtend`, …)
  4. the name: `reportOf_name`, `reportOf_name_label`, `reportOf_of_subdomain` — about the BYTES
     `Name.display pre`; Rust's `instance_name` is the `String` `pre.to_string()` (each label
     through `from_utf8_lossy`), which has these bytes iff every label is valid UTF-8:
     `reportOf_name_string`, `reportOf_name_label_utf8` in `Props/C15Audit.lean`
  5. two instances in one response, any interleaving: `reports_two_instances`,
     `reports_interleaving`, `reports_two_announced`, `two_instances_discovered_faithfully`
  6. the old code: `reportsMerged_length`, `reportsMerged_merges`,
     `reportsMerged_eq_reports_of_single_owner`, `reportsMerged_loses_instances`; the concrete
     response `C15Two.merged_defect` / `C15Two.fixed_reports`
-/
import SimpleDnsModel.Props.C15
import SimpleDnsModel.Props.C12C16More
import SimpleDnsModel.Props.C17More
namespace Dns.Mdns

/-! ### 1. the owner names of a record list -/

/-- the loop body of the `owners` loop of `add_response_to_resources` -/
def ownerStep (acc : List Name) (r : RR) : List Name :=
  if acc.contains r.name then acc else acc ++ [r.name]

/-- `owners` is the fold of the loop body `ownerStep` -/
theorem owners_eq_foldl (rs : List RR) : owners rs = rs.foldl ownerStep [] := rfl

/-- the names in the `owners` vector after the loop ran over `rs` from `acc`: those of `acc` and
the owner names of `rs` -/
theorem mem_foldl_ownerStep (rs : List RR) (acc : List Name) (o : Name) :
    o ∈ rs.foldl ownerStep acc ↔ o ∈ acc ∨ ∃ r ∈ rs, r.name = o := by
  induction rs generalizing acc with
  | nil => simp
  | cons r rs ih =>
    rw [List.foldl_cons, ih]
    unfold ownerStep
    by_cases h : acc.contains r.name = true
    · have hm : r.name ∈ acc := by simpa using h
      rw [if_pos h]
      simp only [List.mem_cons, exists_eq_or_imp]
      constructor
      · rintro (h1 | h1)
        · exact .inl h1
        · exact .inr (.inr h1)
      · rintro (h1 | h1 | h1)
        · exact .inl h1
        · exact .inl (h1 ▸ hm)
        · exact .inr h1
    · rw [if_neg h]
      rw [List.mem_append, List.mem_singleton]
      simp only [List.mem_cons, exists_eq_or_imp]
      constructor
      · rintro ((h1 | h1) | h1)
        · exact .inl h1
        · exact .inr (.inl h1.symm)
        · exact .inr (.inr h1)
      · rintro (h1 | h1 | h1)
        · exact .inl (.inl h1)
        · exact .inl (.inr h1.symm)
        · exact .inr h1

/-- the loop keeps the `owners` vector free of duplicates -/
theorem nodup_foldl_ownerStep (rs : List RR) (acc : List Name) (h : acc.Nodup) :
    (rs.foldl ownerStep acc).Nodup := by
  induction rs generalizing acc with
  | nil => exact h
  | cons r rs ih =>
    rw [List.foldl_cons]
    apply ih
    unfold ownerStep
    split
    · exact h
    · rename_i hc
      have hx : r.name ∉ acc := by simpa using hc
      rw [List.nodup_append]
      exact ⟨h, by simp, by intro a ha b hb; simp at hb; subst hb; exact fun e => hx (e ▸ ha)⟩

/-- **The owner list holds every owner name once**: the `owners` vector of
`add_response_to_resources` has no duplicates (`if !owners.contains(..) { owners.push(..) }`). -/
theorem owners_nodup (rs : List RR) : (owners rs).Nodup :=
  nodup_foldl_ownerStep rs [] List.nodup_nil

/-- **The owner list is exactly the set of owner names** of the records. -/
theorem mem_owners_iff (rs : List RR) (o : Name) : o ∈ owners rs ↔ ∃ r ∈ rs, r.name = o := by
  rw [owners_eq_foldl, mem_foldl_ownerStep]; simp

/-- running the loop from `acc` appends the owners not yet in `acc`, in their order of first
appearance -/
theorem foldl_ownerStep_eq (rs : List RR) (acc : List Name) :
    rs.foldl ownerStep acc = acc ++ (owners rs).filter (fun o => !acc.contains o) := by
  induction rs generalizing acc with
  | nil => simp [owners]
  | cons r rs ih =>
    have h1 : owners (r :: rs) = [r.name] ++ (owners rs).filter (fun o => ![r.name].contains o) := by
      rw [owners_eq_foldl, List.foldl_cons, ih]; rfl
    rw [h1, List.foldl_cons, ih]
    unfold ownerStep
    by_cases h : acc.contains r.name = true
    · have hm : r.name ∈ acc := by simpa using h
      rw [if_pos h, List.filter_append, List.filter_filter]
      have : [r.name].filter (fun o => !acc.contains o) = [] := by simp [hm]
      rw [this, List.nil_append]
      congr 1
      apply List.filter_congr
      intro o _
      by_cases ho : o = r.name
      · subst ho; simp [hm]
      · simp [ho]
    · have hm : r.name ∉ acc := by simpa using h
      rw [if_neg h, List.filter_append, List.filter_filter]
      have : [r.name].filter (fun o => !acc.contains o) = [r.name] := by simp [hm]
      rw [this, List.append_assoc]
      congr 2
      apply List.filter_congr
      intro o _
      simp [Bool.and_comm]

/-- **Owner order is the order of first appearance**: the owners of `xs ++ ys` are the owners of
`xs` followed by those owners of `ys` that did not occur in `xs`. -/
theorem owners_append (xs ys : List RR) :
    owners (xs ++ ys) = owners xs ++ (owners ys).filter (fun o => !(owners xs).contains o) := by
  rw [owners_eq_foldl, List.foldl_append, foldl_ownerStep_eq]; rfl

/-- the first record's owner is the first owner; later records add the owners not seen yet -/
theorem owners_cons (r : RR) (rs : List RR) :
    owners (r :: rs) = r.name :: (owners rs).filter (fun o => o != r.name) := by
  have := owners_append [r] rs
  simp only [List.singleton_append] at this
  rw [this]
  have h1 : owners [r] = [r.name] := rfl
  rw [h1, List.singleton_append]
  congr 1
  apply List.filter_congr
  intro o _
  by_cases ho : o = r.name <;> simp [ho]

/-- one more record at the end adds its owner at the end unless the owner was seen before -/
theorem owners_concat (rs : List RR) (r : RR) :
    owners (rs ++ [r]) = if (owners rs).contains r.name then owners rs else owners rs ++ [r.name] := by
  rw [owners_eq_foldl, List.foldl_append]; rfl

/-- no records, no owners -/
theorem owners_nil : owners [] = [] := rfl

/-- the owner list is empty only for an empty record list -/
theorem owners_eq_nil_iff (rs : List RR) : owners rs = [] ↔ rs = [] := by
  cases rs with
  | nil => simp [owners_nil]
  | cons r rs => simp [owners_cons]

/-- the first owner is the owner of the first record -/
theorem owners_head? (rs : List RR) : (owners rs).head? = rs.head?.map (·.name) := by
  cases rs with
  | nil => rfl
  | cons r rs => simp [owners_cons]

/-- the owner list is a sub-list of the list of owner names, hence never longer than the record
list: the loop over `owners` sends at most one report per kept record -/
theorem owners_sublist (rs : List RR) : (owners rs).Sublist (rs.map (·.name)) := by
  induction rs with
  | nil => simp [owners_nil]
  | cons r rs ih =>
    rw [owners_cons, List.map_cons]
    exact (List.filter_sublist.trans ih).cons_cons _

/-- at most as many owners as records -/
theorem owners_length_le (rs : List RR) : (owners rs).length ≤ rs.length := by
  simpa using (owners_sublist rs).length_le

/-- **Records of a single owner**: a non-empty record list all of whose records are owned by `o`
has exactly the owner list `[o]`. -/
theorem owners_of_single_owner {rs : List RR} {o : Name} (hne : rs ≠ [])
    (h : ∀ r ∈ rs, r.name = o) : owners rs = [o] := by
  cases rs with
  | nil => exact absurd rfl hne
  | cons r rs =>
    rw [owners_cons, h r (by simp)]
    congr 1
    rw [List.filter_eq_nil_iff]
    intro x hx
    obtain ⟨r', hr', rfl⟩ := (mem_owners_iff rs x).mp hx
    simp [h r' (by simp [hr'])]

example : owners [mkRR [[1], [2]] 5 (.flat 1 [.int 7]), mkRR [[1], [2]] 5 (.flat 1 [.int 8])] = [[[1], [2]]] :=
  owners_of_single_owner (by simp) (by simp [mkRR])

/-- the records of one owner among any record list: their owner list is `[o]` when `o` owns a
record and empty otherwise -/
theorem owners_filter_name (rs : List RR) (o : Name) :
    owners (rs.filter (fun r => r.name == o)) = if o ∈ owners rs then [o] else [] := by
  split
  · rename_i h
    obtain ⟨r, hr, hn⟩ := (mem_owners_iff rs o).mp h
    apply owners_of_single_owner
    · intro he
      have : r ∈ rs.filter (fun r => r.name == o) := List.mem_filter.mpr ⟨hr, by simp [hn]⟩
      rw [he] at this; cases this
    · intro x hx; simpa using (List.mem_filter.mp hx).2
  · rename_i h
    rw [owners_eq_nil_iff, List.filter_eq_nil_iff]
    intro r hr hn
    exact h ((mem_owners_iff rs o).mpr ⟨r, hr, by simpa using hn⟩)

/-- a concrete interleaving: owners in order of first appearance, each once -/
example : owners [mkRR [[1]] 0 (.flat 1 [.int 1]), mkRR [[2]] 0 (.flat 1 [.int 2]),
    mkRR [[1]] 0 (.flat 1 [.int 3]), mkRR [[3]] 0 (.flat 1 [.int 4]), mkRR [[2]] 0 (.flat 1 [.int 5])]
    = [[[1]], [[2]], [[3]]] := by decide

/-! ### 2. the reports are one `from_records` per owner, in owner order -/

/-- the report for owner `o` among the kept records `rs`: `InstanceInformation::from_records(
service_name, resources.iter().filter(|r| &r.name == owner))` -/
def reportOf (service : Name) (rs : List RR) (o : Name) : Option Instance :=
  fromRecords service (rs.filter (fun r => r.name == o))

/-- `reports` unfolded: the loop over the owners, keeping the `Some` results -/
theorem reports_eq (p : Packet) (service full : Name) :
    reports p service full =
      (owners (ingestRecords p service full)).filterMap
        (reportOf service (ingestRecords p service full)) := rfl

/-- **What is sent on the channel**: `i` is reported iff it is `from_records` of the kept records
of one owner name. -/
theorem mem_reports_iff (p : Packet) (service full : Name) (i : Instance) :
    i ∈ reports p service full ↔
      ∃ o ∈ owners (ingestRecords p service full),
        fromRecords service ((ingestRecords p service full).filter (fun r => r.name == o)) = some i := by
  rw [reports_eq, List.mem_filterMap]; rfl

/-- never more reports than owner names (and never more than kept records) -/
theorem reports_length_le (p : Packet) (service full : Name) :
    (reports p service full).length ≤ (owners (ingestRecords p service full)).length := by
  rw [reports_eq]; exact List.length_filterMap_le _ _

/-- never more reports than kept records -/
theorem reports_length_le_records (p : Packet) (service full : Name) :
    (reports p service full).length ≤ (ingestRecords p service full).length :=
  Nat.le_trans (reports_length_le p service full) (owners_length_le _)

/-- every kept record is foreign and strictly below the watched service -/
theorem mem_ingestRecords {p : Packet} {service full : Name} {r : RR} :
    r ∈ ingestRecords p service full ↔
      r ∈ p.answers ++ p.additional ∧ r.name ≠ full ∧ r.name.isSubdomainOf service = true := by
  unfold ingestRecords
  rw [List.mem_filter]
  simp only [Bool.and_eq_true, bne_iff_ne, ne_eq]

/-- the cached records (`ingest`) are the reported-on records (`ingestRecords`) -/
theorem ingest_eq_foldl_ingestRecords (p : Packet) (service full : Name) (s : Store) (now : Nat) :
    ingest p service full s now =
      (ingestRecords p service full).foldl (fun st r => st.addCached r now) s := rfl

/-! ### 3. what one record contributes to an instance -/

/-- the address an A / AAAA record contributes (`RData::A` / `RData::AAAA` arms of
`from_records`), as (is IPv6, address) -/
def ipOf (r : RR) : Option (Bool × Nat) :=
  match r.rdata with
  | .flat 1 [.int a] => some (false, a)
  | .flat 28 [.int a] => some (true, a)
  | _ => none

/-- the port an SRV record contributes -/
def portOf (r : RR) : Option Nat :=
  match r.rdata with
  | .flat 33 [_, _, .int port, _] => some port
  | _ => none

/-- the attribute entries a TXT record contributes (those with a non-empty key) -/
def txtOf (r : RR) : Option Attrs :=
  match r.rdata with
  | .flat 16 [.strs ss] => some ((Txt.attributes ss).filter (fun e => !e.1.isEmpty))
  | _ => none

/-- the empty instance `from_records` starts from -/
def emptyInst : Instance := { name := [], ips := [], ports := [], attrs := [] }

/-- the loop body of `from_records` on the address set: inserts the record's address, if it has
one -/
theorem recStep_ips_eq (i : Instance) (r : RR) :
    (recStep i r).ips = match ipOf r with
      | some x => insertNew i.ips x
      | none => i.ips := by
  unfold recStep ipOf
  split <;> simp_all

/-- the loop body of `from_records` on the port set: inserts the SRV record's port -/
theorem recStep_ports_eq (i : Instance) (r : RR) :
    (recStep i r).ports = match portOf r with
      | some x => insertNew i.ports x
      | none => i.ports := by
  unfold recStep portOf
  split <;> simp_all

/-- the loop body of `from_records` on the attribute map: extends it by the TXT record's entries -/
theorem recStep_attrs_eq (i : Instance) (r : RR) :
    (recStep i r).attrs = match txtOf r with
      | some new => attrsExtend i.attrs new
      | none => i.attrs := by
  unfold recStep txtOf
  split <;> simp_all

/-- the loop body of `from_records` never touches the name -/
theorem recStep_name_eq (i : Instance) (r : RR) : (recStep i r).name = i.name := by
  unfold recStep
  split <;> rfl

/-- the address set after folding `from_records`' loop body over `rs`: what was there plus the
addresses of the A / AAAA records of `rs` -/
theorem mem_foldl_recStep_ips (rs : List RR) (i : Instance) (x : Bool × Nat) :
    x ∈ (rs.foldl recStep i).ips ↔ x ∈ i.ips ∨ ∃ r ∈ rs, ipOf r = some x := by
  induction rs generalizing i with
  | nil => simp
  | cons r rs ih =>
    rw [List.foldl_cons, ih, recStep_ips_eq]
    cases h : ipOf r with
    | none => simp [h]
    | some y =>
      simp only [mem_insertNew, List.mem_cons, exists_eq_or_imp, h, Option.some.injEq]
      constructor
      · rintro ((h1 | h1) | h1)
        · exact .inl h1
        · exact .inr (.inl h1.symm)
        · exact .inr (.inr h1)
      · rintro (h1 | h1 | h1)
        · exact .inl (.inl h1)
        · exact .inl (.inr h1.symm)
        · exact .inr h1

/-- likewise for the port set and the SRV records -/
theorem mem_foldl_recStep_ports (rs : List RR) (i : Instance) (x : Nat) :
    x ∈ (rs.foldl recStep i).ports ↔ x ∈ i.ports ∨ ∃ r ∈ rs, portOf r = some x := by
  induction rs generalizing i with
  | nil => simp
  | cons r rs ih =>
    rw [List.foldl_cons, ih, recStep_ports_eq]
    cases h : portOf r with
    | none => simp [h]
    | some y =>
      simp only [mem_insertNew, List.mem_cons, exists_eq_or_imp, h, Option.some.injEq]
      constructor
      · rintro ((h1 | h1) | h1)
        · exact .inl h1
        · exact .inr (.inl h1.symm)
        · exact .inr (.inr h1)
      · rintro (h1 | h1 | h1)
        · exact .inl (.inl h1)
        · exact .inl (.inr h1.symm)
        · exact .inr h1

/-! #### the attribute map: `HashMap::extend` -/

/-- `HashMap::insert(k, v)` on the association list -/
def extStep (acc : Attrs) (e : String × Option String) : Attrs :=
  if acc.has e.1 then acc.map (fun x => if x.1 == e.1 then e else x) else acc ++ [e]

/-- `HashMap::extend` is a run of `HashMap::insert`s -/
theorem attrsExtend_eq_foldl (m new : Attrs) : attrsExtend m new = new.foldl extStep m := rfl

/-- `lookup` on a non-empty association list, as an `if` -/
theorem lookup_cons_ite (k a : String) (b : Option String) (es : Attrs) :
    Attrs.lookup ((a, b) :: es) k = if k = a then some b else Attrs.lookup es k := by
  unfold Attrs.lookup
  rw [List.lookup_cons]
  by_cases h : k = a
  · subst h; simp
  · have : (k == a) = false := by simpa using h
    rw [this, if_neg h]

/-- replacing every entry of key `e.1` by `e` changes the value of that key only -/
theorem lookup_map_replace (m : Attrs) (e : String × Option String) (k : String) :
    Attrs.lookup (m.map (fun x => if x.1 == e.1 then e else x)) k =
      if k = e.1 then (if m.has e.1 then some e.2 else none) else m.lookup k := by
  obtain ⟨ke, ve⟩ := e
  induction m with
  | nil => simp [Attrs.lookup, Attrs.has]
  | cons x xs ih =>
    obtain ⟨k1, v1⟩ := x
    have hhas : Attrs.has ((k1, v1) :: xs) ke = (k1 == ke || Attrs.has xs ke) := rfl
    rw [List.map_cons, hhas]
    dsimp only at ih ⊢
    by_cases h1 : k1 = ke
    · subst h1
      rw [if_pos (by simp), lookup_cons_ite, lookup_cons_ite, ih]
      by_cases h2 : k = k1
      · simp [h2]
      · simp [h2]
    · have h1' : (k1 == ke) = false := by simpa using h1
      rw [if_neg (by simp [h1]), lookup_cons_ite, lookup_cons_ite, ih, h1', Bool.false_or]
      by_cases h2 : k = k1
      · have : k ≠ ke := fun h => h1 (h2 ▸ h)
        simp [h2, h1]
      · simp [h2]

/-- `HashMap::insert` semantics: afterwards the key maps to the new value, every other key is
untouched -/
theorem lookup_extStep (m : Attrs) (e : String × Option String) (k : String) :
    (extStep m e).lookup k = if k = e.1 then some e.2 else m.lookup k := by
  unfold extStep
  by_cases h : m.has e.1 = true
  · rw [if_pos h, lookup_map_replace, h]; simp
  · rw [if_neg h, Attrs.lookup_append]
    have hn : m.lookup e.1 = none := by
      rw [Attrs.lookup_eq_none_iff, ← Attrs.has_iff]; exact h
    obtain ⟨ke, ve⟩ := e
    rw [lookup_cons_ite]
    by_cases h2 : k = ke
    · subst h2; rw [hn]; simp
    · simp [h2, Attrs.lookup]

/-- `HashMap::insert` adds the key at the end unless it is present -/
theorem keys_extStep (m : Attrs) (e : String × Option String) :
    (extStep m e).keys = if e.1 ∈ m.keys then m.keys else m.keys ++ [e.1] := by
  unfold extStep
  by_cases h : m.has e.1 = true
  · rw [if_pos h, if_pos ((Attrs.has_iff m e.1).mp h)]
    unfold Attrs.keys
    rw [List.map_map]
    apply List.map_congr_left
    intro x _
    by_cases hx : x.1 = e.1 <;> simp [hx]
  · rw [if_neg h, if_neg (fun hk => h ((Attrs.has_iff m e.1).mpr hk))]
    simp [Attrs.keys]

/-- every entry after `HashMap::insert` is an old one or the inserted one -/
theorem mem_extStep {m : Attrs} {e y : String × Option String} (h : y ∈ extStep m e) :
    y ∈ m ∨ y = e := by
  unfold extStep at h
  split at h
  · obtain ⟨x, hx, rfl⟩ := List.mem_map.mp h
    split
    · exact .inr rfl
    · exact .inl hx
  · simpa using h

/-- `HashMap::insert` keeps the keys distinct -/
theorem nodup_keys_extStep {m : Attrs} (h : m.keys.Nodup) (e : String × Option String) :
    (extStep m e).keys.Nodup := by
  rw [keys_extStep]
  split
  · exact h
  · rename_i hk
    rw [List.nodup_append]
    exact ⟨h, by simp, by intro a ha b hb; simp at hb; subst hb; exact fun e' => hk (e' ▸ ha)⟩

/-- `HashMap::extend` keeps the map a map -/
theorem nodup_keys_attrsExtend {m : Attrs} (h : m.keys.Nodup) (new : Attrs) :
    (attrsExtend m new).keys.Nodup := by
  rw [attrsExtend_eq_foldl]
  induction new generalizing m with
  | nil => exact h
  | cons e es ih => exact ih (nodup_keys_extStep h e)

/-- the keys after `HashMap::extend`: the old ones and the new ones -/
theorem mem_keys_attrsExtend (m new : Attrs) (k : String) :
    k ∈ (attrsExtend m new).keys ↔ k ∈ m.keys ∨ k ∈ new.keys := by
  rw [attrsExtend_eq_foldl]
  induction new generalizing m with
  | nil => simp [Attrs.keys]
  | cons e es ih =>
    rw [List.foldl_cons, ih, keys_extStep]
    have : Attrs.keys (e :: es) = e.1 :: Attrs.keys es := rfl
    rw [this, List.mem_cons]
    split
    · rename_i hk
      constructor
      · rintro (h | h)
        · exact .inl h
        · exact .inr (.inr h)
      · rintro (h | h | h)
        · exact .inl h
        · exact .inl (h ▸ hk)
        · exact .inr h
    · rw [List.mem_append, List.mem_singleton]
      constructor
      · rintro ((h | h) | h)
        · exact .inl h
        · exact .inr (.inl h)
        · exact .inr (.inr h)
      · rintro (h | h | h)
        · exact .inl (.inl h)
        · exact .inl (.inr h)
        · exact .inr h

/-- every entry after `HashMap::extend` is an old entry or one of the new ones -/
theorem mem_attrsExtend {m new : Attrs} {y : String × Option String}
    (h : y ∈ attrsExtend m new) : y ∈ m ∨ y ∈ new := by
  rw [attrsExtend_eq_foldl] at h
  induction new generalizing m with
  | nil => exact .inl h
  | cons e es ih =>
    rcases ih h with h1 | h1
    · rcases mem_extStep h1 with h2 | h2
      · exact .inl h2
      · exact .inr (h2 ▸ List.mem_cons_self)
    · exact .inr (List.mem_cons_of_mem _ h1)

/-- `HashMap::extend`, key by key: the last new entry for the key wins, else the old value stays -/
theorem lookup_attrsExtend (m new : Attrs) (k : String) :
    (attrsExtend m new).lookup k =
      new.foldl (fun acc e => if k = e.1 then some e.2 else acc) (m.lookup k) := by
  rw [attrsExtend_eq_foldl]
  induction new generalizing m with
  | nil => rfl
  | cons e es ih => rw [List.foldl_cons, ih, lookup_extStep, List.foldl_cons]

/-- `HashMap::extend` leaves keys alone that the new entries do not mention -/
theorem lookup_attrsExtend_of_not_mem (m new : Attrs) (k : String) (h : k ∉ new.keys) :
    (attrsExtend m new).lookup k = m.lookup k := by
  rw [lookup_attrsExtend]
  generalize m.lookup k = a
  induction new generalizing a with
  | nil => rfl
  | cons e es ih =>
    have hk : Attrs.keys (e :: es) = e.1 :: Attrs.keys es := rfl
    rw [hk, List.mem_cons, not_or] at h
    rw [List.foldl_cons, if_neg h.1, ih h.2]

/-- `HashMap::extend` by a map: a key of the new map gets the new map's value -/
theorem lookup_attrsExtend_of_mem (m : Attrs) {new : Attrs} (hn : new.keys.Nodup) {k : String}
    {v : Option String} (h : (k, v) ∈ new) : (attrsExtend m new).lookup k = some v := by
  rw [lookup_attrsExtend]
  generalize m.lookup k = a
  induction new generalizing a with
  | nil => cases h
  | cons e es ih =>
    have hk : Attrs.keys (e :: es) = e.1 :: Attrs.keys es := rfl
    rw [hk, List.nodup_cons] at hn
    rw [List.foldl_cons]
    rcases List.mem_cons.mp h with h1 | h1
    · subst h1
      rw [if_pos rfl]
      have := lookup_attrsExtend_of_not_mem [(k, v)] es k hn.1
      rw [lookup_attrsExtend, Attrs.lookup_cons_self] at this
      exact this
    · exact ih hn.2 h1 _

/-! #### the attribute map after the fold over the records -/

/-- the attribute entries one TXT record contributes have distinct keys (`TXT::attributes` is a
map) -/
theorem txtOf_keys_nodup {r : RR} {new : Attrs} (h : txtOf r = some new) : new.keys.Nodup := by
  unfold txtOf at h
  split at h
  · cases h
    exact List.Pairwise.sublist (List.Sublist.map _ List.filter_sublist) (attributes_keys_nodup _)
  · cases h

/-- no TXT record contributes an attribute with an empty key -/
theorem txtOf_key_ne_empty {r : RR} {new : Attrs} (h : txtOf r = some new) :
    ∀ e ∈ new, e.1 ≠ "" := by
  unfold txtOf at h
  split at h
  · cases h
    intro e he hk
    have := (List.mem_filter.mp he).2
    simp [hk] at this
  · cases h

/-- the fold of `from_records` never touches the name -/
theorem foldl_recStep_name (rs : List RR) (i : Instance) : (rs.foldl recStep i).name = i.name := by
  induction rs generalizing i with
  | nil => rfl
  | cons r rs ih => rw [List.foldl_cons, ih, recStep_name_eq]

/-- the fold of `from_records` keeps the attribute keys distinct -/
theorem nodup_keys_foldl_recStep (rs : List RR) (i : Instance) (h : i.attrs.keys.Nodup) :
    (rs.foldl recStep i).attrs.keys.Nodup := by
  induction rs generalizing i with
  | nil => exact h
  | cons r rs ih =>
    rw [List.foldl_cons]
    apply ih
    rw [recStep_attrs_eq]
    split
    · exact nodup_keys_attrsExtend h _
    · exact h

/-- the attribute keys after folding `from_records`' loop body over `rs`: what was there plus the
(non-empty) keys of the TXT records of `rs` -/
theorem mem_keys_foldl_recStep (rs : List RR) (i : Instance) (k : String) :
    k ∈ (rs.foldl recStep i).attrs.keys ↔
      k ∈ i.attrs.keys ∨ ∃ r ∈ rs, ∃ new, txtOf r = some new ∧ k ∈ new.keys := by
  induction rs generalizing i with
  | nil => simp
  | cons r rs ih =>
    rw [List.foldl_cons, ih, recStep_attrs_eq]
    cases h : txtOf r with
    | none => simp [h]
    | some new =>
      simp only [mem_keys_attrsExtend, List.mem_cons, exists_eq_or_imp, h, Option.some.injEq,
        exists_eq_left']
      exact or_assoc

/-- every attribute entry after the fold was there before or is an entry of a TXT record -/
theorem mem_attrs_foldl_recStep {rs : List RR} {i : Instance} {y : String × Option String}
    (h : y ∈ (rs.foldl recStep i).attrs) :
    y ∈ i.attrs ∨ ∃ r ∈ rs, ∃ new, txtOf r = some new ∧ y ∈ new := by
  induction rs generalizing i with
  | nil => exact .inl h
  | cons r rs ih =>
    rw [List.foldl_cons] at h
    rcases ih h with h1 | ⟨r', hr', new, hn, hy⟩
    · rw [recStep_attrs_eq] at h1
      cases ht : txtOf r with
      | none => rw [ht] at h1; exact .inl h1
      | some new =>
        rw [ht] at h1
        rcases mem_attrsExtend h1 with h2 | h2
        · exact .inl h2
        · exact .inr ⟨r, by simp, new, ht, h2⟩
    · exact .inr ⟨r', List.mem_cons_of_mem _ hr', new, hn, hy⟩

/-- records without the key leave its value alone -/
theorem lookup_foldl_recStep_of_no_key (rs : List RR) (i : Instance) (k : String)
    (h : ∀ r ∈ rs, ∀ new, txtOf r = some new → k ∉ new.keys) :
    (rs.foldl recStep i).attrs.lookup k = i.attrs.lookup k := by
  induction rs generalizing i with
  | nil => rfl
  | cons r rs ih =>
    rw [List.foldl_cons, ih _ (fun r' hr' => h r' (List.mem_cons_of_mem _ hr')), recStep_attrs_eq]
    cases ht : txtOf r with
    | none => rfl
    | some new => exact lookup_attrsExtend_of_not_mem _ _ _ (h r (by simp) new ht)

/-- **the last TXT record that has the key decides its value** (`HashMap::extend` overwrites) -/
theorem lookup_foldl_recStep_last (pre post : List RR) (r : RR) (i : Instance) {new : Attrs}
    {k : String} {v : Option String} (ht : txtOf r = some new) (hkv : (k, v) ∈ new)
    (hpost : ∀ r' ∈ post, ∀ new', txtOf r' = some new' → k ∉ new'.keys) :
    ((pre ++ r :: post).foldl recStep i).attrs.lookup k = some v := by
  rw [List.foldl_append, List.foldl_cons, lookup_foldl_recStep_of_no_key post _ k hpost,
    recStep_attrs_eq, ht]
  exact lookup_attrsExtend_of_mem _ (txtOf_keys_nodup ht) hkv

/-! #### `from_records`: the components of the result -/

/-- `from_records` returns `Some` iff some record is a strict subdomain of the service; the result
is the fold over ALL records passed in, named after the first such record -/
theorem fromRecords_eq_some {service : Name} {rs : List RR} {i : Instance}
    (h : fromRecords service rs = some i) :
    ∃ n, rs.findSome? (fun r => r.name.without service) = some n ∧
      i.name = Name.display n ∧ i.ips = (rs.foldl recStep emptyInst).ips ∧
      i.ports = (rs.foldl recStep emptyInst).ports ∧
      i.attrs = (rs.foldl recStep emptyInst).attrs := by
  rw [fromRecords_eq] at h
  cases hn : rs.findSome? (fun r => r.name.without service) with
  | none => simp [hn] at h
  | some n =>
    simp only [hn, Option.map_some, Option.some.injEq] at h
    subst h
    exact ⟨n, rfl, rfl, rfl, rfl, rfl⟩

/-- **addresses: sound and complete.** The addresses of the instance `from_records` builds are
exactly those of the A / AAAA records passed in. -/
theorem fromRecords_ips_iff {service : Name} {rs : List RR} {i : Instance}
    (h : fromRecords service rs = some i) (x : Bool × Nat) :
    x ∈ i.ips ↔ ∃ r ∈ rs, ipOf r = some x := by
  obtain ⟨n, _, _, h2, _, _⟩ := fromRecords_eq_some h
  rw [h2, mem_foldl_recStep_ips]; simp [emptyInst]

/-- **ports: sound and complete.** -/
theorem fromRecords_ports_iff {service : Name} {rs : List RR} {i : Instance}
    (h : fromRecords service rs = some i) (x : Nat) :
    x ∈ i.ports ↔ ∃ r ∈ rs, portOf r = some x := by
  obtain ⟨n, _, _, _, h3, _⟩ := fromRecords_eq_some h
  rw [h3, mem_foldl_recStep_ports]; simp [emptyInst]

/-- **attribute keys: sound and complete** (keys of the TXT records passed in; never empty) -/
theorem fromRecords_attr_keys_iff {service : Name} {rs : List RR} {i : Instance}
    (h : fromRecords service rs = some i) (k : String) :
    k ∈ i.attrs.keys ↔ ∃ r ∈ rs, ∃ new, txtOf r = some new ∧ k ∈ new.keys := by
  obtain ⟨n, _, _, _, _, h4⟩ := fromRecords_eq_some h
  rw [h4, mem_keys_foldl_recStep]; simp [emptyInst, Attrs.keys]

/-- **attribute entries: sound** -/
theorem fromRecords_attrs_sound {service : Name} {rs : List RR} {i : Instance}
    (h : fromRecords service rs = some i) {y : String × Option String} (hy : y ∈ i.attrs) :
    ∃ r ∈ rs, ∃ new, txtOf r = some new ∧ y ∈ new := by
  obtain ⟨n, _, _, _, _, h4⟩ := fromRecords_eq_some h
  rw [h4] at hy
  rcases mem_attrs_foldl_recStep hy with h1 | h1
  · simp [emptyInst] at h1
  · exact h1

/-- the attribute map of the result is a map -/
theorem fromRecords_attrs_keys_nodup {service : Name} {rs : List RR} {i : Instance}
    (h : fromRecords service rs = some i) : i.attrs.keys.Nodup := by
  obtain ⟨n, _, _, _, _, h4⟩ := fromRecords_eq_some h
  rw [h4]; exact nodup_keys_foldl_recStep rs emptyInst (by simp [emptyInst, Attrs.keys])

/-- **attribute values: the last TXT record with the key wins** — last in the order in which the
records are passed. For a report that is the order of the response (a `Vec`); for
`get_known_services` it is the iteration order of a `HashMap` bucket, which the model fixes as
insertion order and Rust does not specify (`Props/C15Audit.lean`, section 1). -/
theorem fromRecords_attr_last_wins {service : Name} {pre post : List RR} {r : RR} {i : Instance}
    (h : fromRecords service (pre ++ r :: post) = some i) {new : Attrs} {k : String}
    {v : Option String} (ht : txtOf r = some new) (hkv : (k, v) ∈ new)
    (hpost : ∀ r' ∈ post, ∀ new', txtOf r' = some new' → k ∉ new'.keys) : (k, v) ∈ i.attrs := by
  obtain ⟨n, _, _, _, _, h4⟩ := fromRecords_eq_some h
  have hl : i.attrs.lookup k = some v := by
    rw [h4]; exact lookup_foldl_recStep_last pre post r emptyInst ht hkv hpost
  have hk : k ∈ i.attrs.keys := by
    apply Decidable.byContradiction
    intro hk
    rw [← Attrs.lookup_eq_none_iff, hl] at hk
    cases hk
  obtain ⟨v', hv'⟩ := (Attrs.mem_keys_iff _ _).mp hk
  have := Attrs.lookup_of_mem_nodup (fromRecords_attrs_keys_nodup h) hv'
  rw [hl] at this
  cases this
  exact hv'

/-! ### 3./4. the report for one owner -/

/-- `find_map(|r| r.name.without(service))` over records of one owner is `owner.without(service)` -/
theorem findSome?_without_single_owner {rs : List RR} {o : Name} (service : Name) (hne : rs ≠ [])
    (h : ∀ r ∈ rs, r.name = o) :
    rs.findSome? (fun r => r.name.without service) = o.without service := by
  induction rs with
  | nil => exact absurd rfl hne
  | cons r rs ih =>
    rw [List.findSome?_cons, h r (by simp)]
    cases hw : o.without service with
    | some n => rfl
    | none =>
      dsimp only
      cases rs with
      | nil => rfl
      | cons r' rs' =>
        rw [ih (by simp) (fun x hx => h x (List.mem_cons_of_mem _ hx)), hw]

/-- `resources.iter().filter(|r| &r.name == owner)`: the records owned by `owner` -/
theorem mem_filter_name {rs : List RR} {o : Name} {r : RR} :
    r ∈ rs.filter (fun r => r.name == o) ↔ r ∈ rs ∧ r.name = o := by
  rw [List.mem_filter]; simp

/-- every owner owns at least one record -/
theorem filter_name_ne_nil {rs : List RR} {o : Name} (h : o ∈ owners rs) :
    rs.filter (fun r => r.name == o) ≠ [] := by
  obtain ⟨r, hr, hn⟩ := (mem_owners_iff rs o).mp h
  intro he
  have : r ∈ rs.filter (fun r => r.name == o) := mem_filter_name.mpr ⟨hr, hn⟩
  rw [he] at this; cases this

/-- the report for an owner, spelled out: named after the owner, folded over the owner's records
only -/
theorem reportOf_eq (service : Name) (rs : List RR) {o : Name} (h : o ∈ owners rs) :
    reportOf service rs o = (o.without service).map (fun n =>
      { (rs.filter (fun r => r.name == o)).foldl recStep emptyInst with name := Name.display n }) := by
  unfold reportOf
  rw [fromRecords_eq, findSome?_without_single_owner service (filter_name_ne_nil h)
    (fun r hr => (mem_filter_name.mp hr).2)]
  rfl

/-- a name that owns none of the records gets no report -/
theorem reportOf_eq_none_of_not_mem (service : Name) (rs : List RR) {o : Name}
    (h : o ∉ owners rs) : reportOf service rs o = none := by
  have : rs.filter (fun r => r.name == o) = [] := by
    rw [List.filter_eq_nil_iff]
    intro r hr hn
    exact h ((mem_owners_iff rs o).mpr ⟨r, hr, by simpa using hn⟩)
  unfold reportOf
  rw [this]; rfl

/-- an owner gets a report exactly when it is a strict subdomain of the service -/
theorem reportOf_isSome_iff (service : Name) (rs : List RR) {o : Name} (h : o ∈ owners rs) :
    (reportOf service rs o).isSome = o.isSubdomainOf service := by
  rw [reportOf_eq service rs h]
  unfold Name.without
  cases o.isSubdomainOf service <;> simp

/-- **Locality (the point of fix 3098c07).** The report for owner `o` is a function of the kept
records OWNED BY `o` alone: two record lists with the same `o`-records (whatever records of other
instances ride along, in whatever positions) give the same report for `o`. -/
theorem reportOf_local (service : Name) {rs rs' : List RR} {o : Name}
    (h : rs.filter (fun r => r.name == o) = rs'.filter (fun r => r.name == o)) :
    reportOf service rs o = reportOf service rs' o := by
  unfold reportOf; rw [h]

/-- in particular records of other owners can be removed or added freely -/
theorem reportOf_filter_self (service : Name) (rs : List RR) (o : Name) :
    reportOf service (rs.filter (fun r => r.name == o)) o = reportOf service rs o := by
  apply reportOf_local
  rw [List.filter_filter]; simp

example : reportOf [[9]] [mkRR [[1], [9]] 0 (.flat 1 [.int 1]), mkRR [[2], [9]] 0 (.flat 1 [.int 2])] [[1], [9]]
    = reportOf [[9]] [mkRR [[3], [9]] 0 (.flat 1 [.int 3]), mkRR [[1], [9]] 0 (.flat 1 [.int 1])] [[1], [9]] :=
  reportOf_local _ (by decide)

/-- **4. The instance name of a report** is, in the model, the BYTES of the labels the owner name
has in front of the service name joined by dots; the owner is a strict subdomain. Rust reports
`owner.without(service).to_string()`, a `String` made with `from_utf8_lossy` per label: it has
these bytes iff every label is valid UTF-8 (`reportOf_name_string` in `Props/C15Audit.lean`). -/
theorem reportOf_name {service : Name} {rs : List RR} {o : Name} {i : Instance}
    (h : reportOf service rs o = some i) :
    ∃ pre, o.without service = some pre ∧ o = pre ++ service ∧ pre ≠ [] ∧
      i.name = Name.display pre := by
  have ho : o ∈ owners rs := by
    apply Decidable.byContradiction
    intro hn
    rw [reportOf_eq_none_of_not_mem service rs hn] at h; cases h
  rw [reportOf_eq service rs ho] at h
  cases hw : o.without service with
  | none => rw [hw] at h; cases h
  | some pre =>
    rw [hw] at h
    simp only [Option.map_some, Option.some.injEq] at h
    obtain ⟨h1, h2⟩ := without_some_append o service pre hw
    exact ⟨pre, rfl, h1.symm, h2, by rw [← h]⟩

/-- for the usual one-label instance names: the model's report of `inst.service` is named by the
bytes `inst`, for arbitrary label bytes. Rust's `instance_name` is `from_utf8_lossy(inst)`: the
same for a label that is valid UTF-8 (`reportOf_name_label_utf8`), while two labels that differ
only in invalid bytes get the SAME name (`C15AuditEx.reportOf_name_label_not_what_rust_shows`). -/
theorem reportOf_name_label {service : Name} {rs : List RR} {inst : Label} {i : Instance}
    (h : reportOf service rs (inst :: service) = some i) : i.name = inst := by
  obtain ⟨pre, hw, _, _, hn⟩ := reportOf_name h
  have : Name.without (inst :: service) service = some [inst] :=
    (without_iff _ _ _).mpr ⟨by simp, rfl⟩
  rw [this] at hw
  cases hw
  exact hn

/-- every owner that is a strict subdomain of the service gets a report, named after it -/
theorem reportOf_of_subdomain {service : Name} {rs : List RR} {o : Name} (ho : o ∈ owners rs)
    (hs : o.isSubdomainOf service = true) :
    ∃ i, reportOf service rs o = some i ∧
      i.name = Name.display (o.take (o.length - service.length)) := by
  rw [reportOf_eq service rs ho]
  unfold Name.without
  rw [if_pos hs]
  exact ⟨_, rfl, rfl⟩

/-- **3. addresses of a report: sound and complete w.r.t. the owner's records.** Every address
of the report for `o` comes from an A / AAAA record OWNED BY `o`, and every such record
contributes its address. -/
theorem reportOf_ips_iff {service : Name} {rs : List RR} {o : Name} {i : Instance}
    (h : reportOf service rs o = some i) (x : Bool × Nat) :
    x ∈ i.ips ↔ ∃ r ∈ rs, r.name = o ∧ ipOf r = some x := by
  rw [fromRecords_ips_iff h]
  simp only [mem_filter_name, and_assoc]

/-- **ports of a report: exactly the ports of the SRV records owned by `o`** -/
theorem reportOf_ports_iff {service : Name} {rs : List RR} {o : Name} {i : Instance}
    (h : reportOf service rs o = some i) (x : Nat) :
    x ∈ i.ports ↔ ∃ r ∈ rs, r.name = o ∧ portOf r = some x := by
  rw [fromRecords_ports_iff h]
  simp only [mem_filter_name, and_assoc]

/-- **attribute keys of a report: exactly the non-empty keys of the TXT records owned by `o`** -/
theorem reportOf_attr_keys_iff {service : Name} {rs : List RR} {o : Name} {i : Instance}
    (h : reportOf service rs o = some i) (k : String) :
    k ∈ i.attrs.keys ↔ ∃ r ∈ rs, r.name = o ∧ ∃ new, txtOf r = some new ∧ k ∈ new.keys := by
  rw [fromRecords_attr_keys_iff h]
  simp only [mem_filter_name, and_assoc]

/-- **attribute entries of a report come from TXT records owned by `o`** -/
theorem reportOf_attrs_sound {service : Name} {rs : List RR} {o : Name} {i : Instance}
    (h : reportOf service rs o = some i) {y : String × Option String} (hy : y ∈ i.attrs) :
    ∃ r ∈ rs, r.name = o ∧ ∃ new, txtOf r = some new ∧ y ∈ new := by
  obtain ⟨r, hr, new, hn, hy'⟩ := fromRecords_attrs_sound h hy
  obtain ⟨h1, h2⟩ := mem_filter_name.mp hr
  exact ⟨r, h1, h2, new, hn, hy'⟩

/-- **attribute values of a report**: the entry of the LAST TXT record owned by `o` that has the
key is reported (TXT records of other owners, wherever they stand, do not matter) -/
theorem reportOf_attr_last_wins {service : Name} {rs pre post : List RR} {r : RR} {o : Name}
    {i : Instance} (h : reportOf service rs o = some i)
    (hsplit : rs.filter (fun r => r.name == o) = pre ++ r :: post) {new : Attrs} {k : String}
    {v : Option String} (ht : txtOf r = some new) (hkv : (k, v) ∈ new)
    (hpost : ∀ r' ∈ post, ∀ new', txtOf r' = some new' → k ∉ new'.keys) : (k, v) ∈ i.attrs := by
  unfold reportOf at h
  rw [hsplit] at h
  exact fromRecords_attr_last_wins h ht hkv hpost

/-- the sets of a report hold each member once, its attribute map each key once -/
theorem reportOf_setsOK {service : Name} {rs : List RR} {o : Name} {i : Instance}
    (h : reportOf service rs o = some i) : i.SetsOK ∧ i.attrs.keys.Nodup :=
  ⟨fromRecords_setsOK h, fromRecords_attrs_keys_nodup h⟩

/-! ### the reports of a response -/

/-- every owner among the kept records is foreign and a strict subdomain of the service -/
theorem owner_of_ingestRecords {p : Packet} {service full o : Name}
    (h : o ∈ owners (ingestRecords p service full)) :
    o ≠ full ∧ o.isSubdomainOf service = true := by
  obtain ⟨r, hr, rfl⟩ := (mem_owners_iff _ _).mp h
  exact (mem_ingestRecords.mp hr).2

/-- a `filter_map` whose function never returns `None` on the list is a `map` -/
theorem filterMap_eq_map_of_some {α β : Type} {f : α → Option β} {g : α → β} {l : List α}
    (h : ∀ a ∈ l, f a = some (g a)) : l.filterMap f = l.map g := by
  induction l with
  | nil => rfl
  | cons a l ih =>
    rw [List.filterMap_cons, h a (by simp), List.map_cons,
      ih (fun b hb => h b (List.mem_cons_of_mem _ hb))]

/-- the report for owner `o` of a response, as a value -/
def reportInst (service : Name) (rs : List RR) (o : Name) : Instance :=
  { (rs.filter (fun r => r.name == o)).foldl recStep emptyInst with
    name := Name.display (o.take (o.length - service.length)) }

/-- **Exactly one report per owner, in owner order**: because only strict subdomains of the
service are kept, `from_records` succeeds for every owner, so the reports are the owner list
mapped. -/
theorem reports_eq_map (p : Packet) (service full : Name) :
    reports p service full =
      (owners (ingestRecords p service full)).map
        (reportInst service (ingestRecords p service full)) := by
  rw [reports_eq]
  apply filterMap_eq_map_of_some
  intro o ho
  rw [reportOf_eq service _ ho]
  unfold Name.without
  rw [if_pos (owner_of_ingestRecords ho).2]
  rfl

/-- the number of reports is the number of distinct owner names among the kept records -/
theorem reports_length (p : Packet) (service full : Name) :
    (reports p service full).length = (owners (ingestRecords p service full)).length := by
  rw [reports_eq_map, List.length_map]

/-- the instance names reported, in order -/
theorem reports_map_name (p : Packet) (service full : Name) :
    (reports p service full).map (·.name) =
      (owners (ingestRecords p service full)).map
        (fun o => Name.display (o.take (o.length - service.length))) := by
  rw [reports_eq_map, List.map_map]; rfl

/-- no report for a response without kept records (the Rust code returns early) -/
theorem reports_of_no_records {p : Packet} {service full : Name}
    (h : ingestRecords p service full = []) : reports p service full = [] := by
  rw [reports_eq_map, h]; rfl

/-- a record of the response owned by a kept owner is itself kept -/
theorem mem_ingestRecords_of_owner {p : Packet} {service full : Name} {r : RR}
    (ho : r.name ∈ owners (ingestRecords p service full)) (hr : r ∈ p.answers ++ p.additional) :
    r ∈ ingestRecords p service full :=
  mem_ingestRecords.mpr ⟨hr, owner_of_ingestRecords ho⟩

/-- **Every report is faithful to ONE owner name of the response.** For every instance sent on
the channel there is an owner name `o` (not the discoverer's own name, a strict subdomain of the
service) such that the instance is named after `o`, its addresses are exactly those of the
A / AAAA records of the response owned by `o`, its ports exactly those of the SRV records owned by
`o`, its attribute keys exactly the non-empty keys of the TXT records owned by `o`, and each of its
attribute entries is an entry of such a TXT record. Records of other instances in the same
response contribute nothing. -/
theorem report_faithful_to_owner {p : Packet} {service full : Name} {i : Instance}
    (h : i ∈ reports p service full) :
    ∃ o pre, o ≠ full ∧ o = pre ++ service ∧ pre ≠ [] ∧ i.name = Name.display pre ∧
      (∀ x, x ∈ i.ips ↔ ∃ r ∈ p.answers ++ p.additional, r.name = o ∧ ipOf r = some x) ∧
      (∀ x, x ∈ i.ports ↔ ∃ r ∈ p.answers ++ p.additional, r.name = o ∧ portOf r = some x) ∧
      (∀ k, k ∈ i.attrs.keys ↔
        ∃ r ∈ p.answers ++ p.additional, r.name = o ∧ ∃ new, txtOf r = some new ∧ k ∈ new.keys) ∧
      (∀ y ∈ i.attrs,
        ∃ r ∈ p.answers ++ p.additional, r.name = o ∧ ∃ new, txtOf r = some new ∧ y ∈ new) := by
  obtain ⟨o, ho, hi⟩ := (mem_reports_iff p service full i).mp h
  have hi' : reportOf service (ingestRecords p service full) o = some i := hi
  obtain ⟨pre, _, h1, h2, h3⟩ := reportOf_name hi'
  have hmem : ∀ r, (r ∈ ingestRecords p service full ∧ r.name = o) ↔
      (r ∈ p.answers ++ p.additional ∧ r.name = o) := by
    intro r
    constructor
    · rintro ⟨hr, hn⟩; exact ⟨(mem_ingestRecords.mp hr).1, hn⟩
    · rintro ⟨hr, hn⟩; exact ⟨mem_ingestRecords_of_owner (hn ▸ ho) hr, hn⟩
  refine ⟨o, pre, (owner_of_ingestRecords ho).1, h1, h2, h3, ?_, ?_, ?_, ?_⟩
  · intro x
    rw [reportOf_ips_iff hi']
    constructor
    · rintro ⟨r, hr, hn, hx⟩; exact ⟨r, ((hmem r).mp ⟨hr, hn⟩).1, hn, hx⟩
    · rintro ⟨r, hr, hn, hx⟩; exact ⟨r, ((hmem r).mpr ⟨hr, hn⟩).1, hn, hx⟩
  · intro x
    rw [reportOf_ports_iff hi']
    constructor
    · rintro ⟨r, hr, hn, hx⟩; exact ⟨r, ((hmem r).mp ⟨hr, hn⟩).1, hn, hx⟩
    · rintro ⟨r, hr, hn, hx⟩; exact ⟨r, ((hmem r).mpr ⟨hr, hn⟩).1, hn, hx⟩
  · intro k
    rw [reportOf_attr_keys_iff hi']
    constructor
    · rintro ⟨r, hr, hn, hx⟩; exact ⟨r, ((hmem r).mp ⟨hr, hn⟩).1, hn, hx⟩
    · rintro ⟨r, hr, hn, hx⟩; exact ⟨r, ((hmem r).mpr ⟨hr, hn⟩).1, hn, hx⟩
  · intro y hy
    obtain ⟨r, hr, hn, hx⟩ := reportOf_attrs_sound hi' hy
    exact ⟨r, ((hmem r).mp ⟨hr, hn⟩).1, hn, hx⟩

/-- **Locality for whole responses.** If two responses carry the same records for owner `o`
(in the same relative order), and `o` is kept, then one and the same instance is reported for `o`
in both, whatever else the two responses carry. -/
theorem reports_local {p p' : Packet} {service full o : Name}
    (ho : o ∈ owners (ingestRecords p service full))
    (h : (p.answers ++ p.additional).filter (fun r => r.name == o) =
         (p'.answers ++ p'.additional).filter (fun r => r.name == o)) :
    ∃ i, reportOf service (ingestRecords p service full) o = some i ∧
      reportOf service (ingestRecords p' service full) o = some i ∧
      i ∈ reports p service full ∧ i ∈ reports p' service full := by
  have hkeep := owner_of_ingestRecords ho
  have hf : ∀ q : Packet, (ingestRecords q service full).filter (fun r => r.name == o) =
      (q.answers ++ q.additional).filter (fun r => r.name == o) := by
    intro q
    unfold ingestRecords
    rw [List.filter_filter]
    apply List.filter_congr
    intro r _
    by_cases hn : r.name = o
    · subst hn; simp [hkeep.1, hkeep.2]
    · simp [hn]
  have hloc : (ingestRecords p service full).filter (fun r => r.name == o) =
      (ingestRecords p' service full).filter (fun r => r.name == o) := by rw [hf p, hf p', h]
  have ho' : o ∈ owners (ingestRecords p' service full) := by
    obtain ⟨r, hr, hn⟩ := (mem_owners_iff _ _).mp ho
    have : r ∈ (ingestRecords p' service full).filter (fun r => r.name == o) := by
      rw [← hloc]; exact mem_filter_name.mpr ⟨hr, hn⟩
    exact (mem_owners_iff _ _).mpr ⟨r, (mem_filter_name.mp this).1, hn⟩
  obtain ⟨i, hi, _⟩ := reportOf_of_subdomain (rs := ingestRecords p service full) ho hkeep.2
  have hi' : reportOf service (ingestRecords p' service full) o = some i := by
    rw [← reportOf_local service hloc]; exact hi
  exact ⟨i, hi, hi', (mem_reports_iff _ _ _ _).mpr ⟨o, ho, hi⟩,
    (mem_reports_iff _ _ _ _).mpr ⟨o, ho', hi'⟩⟩

/-! ### 5. two instances announced in one response -/

/-- `zs` is an interleaving of `xs` and `ys`: both keep their relative order -/
inductive Interleaving {α : Type} : List α → List α → List α → Prop
  | nil : Interleaving [] [] []
  | left {x : α} {xs ys zs : List α} : Interleaving xs ys zs → Interleaving (x :: xs) ys (x :: zs)
  | right {y : α} {xs ys zs : List α} : Interleaving xs ys zs → Interleaving xs (y :: ys) (y :: zs)

/-- concatenation is an interleaving -/
theorem Interleaving.append {α : Type} (xs ys : List α) : Interleaving xs ys (xs ++ ys) := by
  induction xs with
  | nil =>
    induction ys with
    | nil => exact .nil
    | cons y ys ih => exact .right ih
  | cons x xs ih => exact .left ih

/-- interleaving is symmetric in the two lists -/
theorem Interleaving.symm {α : Type} {xs ys zs : List α} (h : Interleaving xs ys zs) :
    Interleaving ys xs zs := by
  induction h with
  | nil => exact .nil
  | left _ ih => exact .right ih
  | right _ ih => exact .left ih

/-- an interleaving of records of owner `a` with records of owner `b ≠ a` is split again by
filtering on the owner name -/
theorem Interleaving.filter_name {ra rb l : List RR} {a b : Name} (h : Interleaving ra rb l)
    (hab : a ≠ b) (ha : ∀ r ∈ ra, r.name = a) (hb : ∀ r ∈ rb, r.name = b) :
    l.filter (fun r => r.name == a) = ra ∧ l.filter (fun r => r.name == b) = rb ∧
      ∀ r ∈ l, r.name = a ∨ r.name = b := by
  induction h with
  | nil => simp
  | @left x xs ys zs _ ih =>
    obtain ⟨h1, h2, h3⟩ := ih (fun r hr => ha r (List.mem_cons_of_mem _ hr)) hb
    have hx : x.name = a := ha x (by simp)
    refine ⟨?_, ?_, ?_⟩
    · rw [List.filter_cons_of_pos (by simp [hx]), h1]
    · rw [List.filter_cons_of_neg (by simp [hx, hab]), h2]
    · intro r hr
      rcases List.mem_cons.mp hr with rfl | hr
      · exact .inl hx
      · exact h3 r hr
  | @right y xs ys zs _ ih =>
    obtain ⟨h1, h2, h3⟩ := ih ha (fun r hr => hb r (List.mem_cons_of_mem _ hr))
    have hy : y.name = b := hb y (by simp)
    refine ⟨?_, ?_, ?_⟩
    · rw [List.filter_cons_of_neg (by simp [hy, Ne.symm hab]), h1]
    · rw [List.filter_cons_of_pos (by simp [hy]), h2]
    · intro r hr
      rcases List.mem_cons.mp hr with rfl | hr
      · exact .inr hy
      · exact h3 r hr

/-- the owner list of records of exactly two owners is those two names, in one of the two orders -/
theorem owners_two {l : List RR} {a b : Name} (hab : a ≠ b)
    (hall : ∀ r ∈ l, r.name = a ∨ r.name = b) (ha : a ∈ owners l) (hb : b ∈ owners l) :
    (owners l).Perm [a, b] := by
  rw [List.perm_ext_iff_of_nodup (owners_nodup l) (by simp [hab])]
  intro o
  constructor
  · intro ho
    obtain ⟨r, hr, rfl⟩ := (mem_owners_iff _ _).mp ho
    rcases hall r hr with h | h <;> simp [h]
  · intro ho
    simp only [List.mem_cons, List.not_mem_nil, or_false] at ho
    rcases ho with rfl | rfl <;> assumption

/-- **Two instances in one response, any interleaving.** Let the records of a response be those
of instance `a` (`ra`, non-empty) and of instance `b ≠ a` (`rb`, non-empty) in any interleaving,
both names strict subdomains of the watched service and neither the discoverer's own name. Then
exactly two instances are reported: `from_records(ra)` and `from_records(rb)` — each what would
have been reported had the instance been announced alone — in the order in which the two names
first appear. -/
theorem reports_two_instances {p : Packet} {service full a b : Name} {ra rb : List RR}
    (hab : a ≠ b) (hsa : a.isSubdomainOf service = true) (hsb : b.isSubdomainOf service = true)
    (hfa : a ≠ full) (hfb : b ≠ full)
    (hall : ∀ r ∈ p.answers ++ p.additional, r.name = a ∨ r.name = b)
    (hra : (p.answers ++ p.additional).filter (fun r => r.name == a) = ra)
    (hrb : (p.answers ++ p.additional).filter (fun r => r.name == b) = rb)
    (hnea : ra ≠ []) (hneb : rb ≠ []) :
    ∃ ia ib, fromRecords service ra = some ia ∧ fromRecords service rb = some ib ∧
      (reports p service full).Perm [ia, ib] ∧
      (reports p service full).length = 2 ∧
      (∀ r rest, p.answers ++ p.additional = r :: rest → r.name = a →
        reports p service full = [ia, ib]) ∧
      (∀ r rest, p.answers ++ p.additional = r :: rest → r.name = b →
        reports p service full = [ib, ia]) := by
  have hkeep : ingestRecords p service full = p.answers ++ p.additional := by
    unfold ingestRecords
    rw [List.filter_eq_self]
    intro r hr
    rcases hall r hr with h | h <;> simp [h, hfa, hfb, hsa, hsb]
  have hoa : a ∈ owners (p.answers ++ p.additional) := by
    cases ra with
    | nil => exact absurd rfl hnea
    | cons r _ =>
      have : r ∈ (p.answers ++ p.additional).filter (fun r => r.name == a) := by rw [hra]; simp
      exact (mem_owners_iff _ _).mpr ⟨r, (mem_filter_name.mp this).1, (mem_filter_name.mp this).2⟩
  have hob : b ∈ owners (p.answers ++ p.additional) := by
    cases rb with
    | nil => exact absurd rfl hneb
    | cons r _ =>
      have : r ∈ (p.answers ++ p.additional).filter (fun r => r.name == b) := by rw [hrb]; simp
      exact (mem_owners_iff _ _).mpr ⟨r, (mem_filter_name.mp this).1, (mem_filter_name.mp this).2⟩
  obtain ⟨ia, hia, _⟩ := reportOf_of_subdomain hoa hsa
  obtain ⟨ib, hib, _⟩ := reportOf_of_subdomain hob hsb
  have hperm := owners_two hab hall hoa hob
  have hrep : reports p service full =
      (owners (p.answers ++ p.additional)).filterMap (reportOf service (p.answers ++ p.additional)) := by
    rw [reports_eq, hkeep]
  have hpair : [a, b].filterMap (reportOf service (p.answers ++ p.additional)) = [ia, ib] := by
    simp [hia, hib]
  have hP : (reports p service full).Perm [ia, ib] := by
    rw [hrep, ← hpair]; exact hperm.filterMap _
  refine ⟨ia, ib, by rw [← hra]; exact hia, by rw [← hrb]; exact hib, hP,
    by simpa using hP.length_eq, ?_⟩
  -- the order
  have hhead := owners_head? (p.answers ++ p.additional)
  have hlen : (owners (p.answers ++ p.additional)).length = 2 := by simpa using hperm.length_eq
  match ho : owners (p.answers ++ p.additional), hlen with
  | [x, y], _ =>
    rw [ho] at hperm
    have hx : x = a ∨ x = b := by simpa using hperm.subset (List.mem_cons_self)
    rcases hx with rfl | rfl
    · have := List.perm_singleton.mp (List.Perm.cons_inv hperm)
      cases this
      rw [ho] at hhead
      refine ⟨fun _ _ _ _ => by rw [hrep, ho]; exact hpair, fun r rest hl hr => ?_⟩
      rw [hl] at hhead
      simp only [List.head?_cons, Option.map_some, Option.some.injEq] at hhead
      exact absurd (hhead.trans hr) hab
    · have h2 : [x, y].Perm [x, a] := hperm.trans (List.Perm.swap _ _ _)
      have := List.perm_singleton.mp (List.Perm.cons_inv h2)
      cases this
      rw [ho] at hhead
      refine ⟨fun r rest hl hr => ?_, fun _ _ _ _ => by rw [hrep, ho]; simp [hia, hib]⟩
      rw [hl] at hhead
      simp only [List.head?_cons, Option.map_some, Option.some.injEq] at hhead
      exact absurd (hhead.trans hr).symm hab

/-- a permutation of a two-element list is that list or the swapped one -/
theorem perm_pair {α : Type} {l : List α} {x y : α} (h : l.Perm [x, y]) :
    l = [x, y] ∨ l = [y, x] := by
  have hlen := h.length_eq
  match l, hlen with
  | [u, v], _ =>
    have hu : u = x ∨ u = y := by simpa using h.subset (List.mem_cons_self)
    rcases hu with rfl | rfl
    · have := List.perm_singleton.mp (List.Perm.cons_inv h)
      cases this; exact .inl rfl
    · have := List.perm_singleton.mp (List.Perm.cons_inv (h.trans (List.Perm.swap _ _ _)))
      cases this; exact .inr rfl

/-- the same for an explicit interleaving of the two record lists -/
theorem reports_interleaving {p : Packet} {service full a b : Name} {ra rb : List RR}
    (hil : Interleaving ra rb (p.answers ++ p.additional))
    (hab : a ≠ b) (hsa : a.isSubdomainOf service = true) (hsb : b.isSubdomainOf service = true)
    (hfa : a ≠ full) (hfb : b ≠ full) (ha : ∀ r ∈ ra, r.name = a) (hb : ∀ r ∈ rb, r.name = b)
    (hnea : ra ≠ []) (hneb : rb ≠ []) :
    ∃ ia ib, fromRecords service ra = some ia ∧ fromRecords service rb = some ib ∧
      (reports p service full).Perm [ia, ib] ∧ (reports p service full).length = 2 := by
  obtain ⟨h1, h2, h3⟩ := hil.filter_name hab ha hb
  obtain ⟨ia, ib, hia, hib, hP, hlen, _⟩ :=
    reports_two_instances hab hsa hsb hfa hfb h3 h1 h2 hnea hneb
  exact ⟨ia, ib, hia, hib, hP, hlen⟩

/-- derived `PartialEq for InstanceInformation` is reflexive: an instance equal to the advertised
one is in particular `eqv` to it -/
theorem Instance.eqv_refl (i : Instance) : Instance.eqv i i :=
  ⟨rfl, fun _ => Iff.rfl, fun _ => Iff.rfl, fun _ _ => Iff.rfl⟩

/-- `inst.service` is a strict subdomain of `service` -/
theorem instLabel_subdomain (inst : Label) (service : Name) :
    Name.isSubdomainOf (inst :: service) service = true :=
  (isSubdomainOf_iff_suffix _ _).mpr ⟨by simp, List.suffix_cons inst service⟩

/-- **Two announced instances, records form.** Two peers' record sets as `into_records` produces
them (`instRecords`), for instances `instA.service` and `instB.service` with different labels,
arrive in one response in any interleaving: the listener (whose own instance is neither) reports
exactly the two instances, each with its own name, addresses, ports and attributes. -/
theorem reports_two_announced {p : Packet} {service own : Name} {instA instB : Label}
    (hAB : instA ≠ instB) (hownA : own ≠ instA :: service) (hownB : own ≠ instB :: service)
    (ipsA ipsB : List (Bool × Nat)) (portsA portsB : List Nat) (ssA ssB : List Bytes)
    (ttlA ttlB : Nat) (hipsA : ipsA.Nodup) (hportsA : portsA.Nodup) (hipsB : ipsB.Nodup)
    (hportsB : portsB.Nodup)
    (hil : Interleaving (instRecords (instA :: service) ipsA portsA ssA ttlA)
      (instRecords (instB :: service) ipsB portsB ssB ttlB) (p.answers ++ p.additional)) :
    (reports p service own).Perm
      [{ name := instA, ips := ipsA, ports := portsA,
         attrs := attrsExtend [] ((Txt.attributes ssA).filter (fun e => !e.1.isEmpty)) },
       { name := instB, ips := ipsB, ports := portsB,
         attrs := attrsExtend [] ((Txt.attributes ssB).filter (fun e => !e.1.isEmpty)) }] := by
  obtain ⟨ia, ib, hia, hib, hP, _⟩ := reports_interleaving (service := service) (full := own) hil
    (a := instA :: service) (b := instB :: service) (by simpa using hAB)
    (instLabel_subdomain _ _) (instLabel_subdomain _ _) (Ne.symm hownA) (Ne.symm hownB)
    (fun r hr => (mem_instRecords hr).1) (fun r hr => (mem_instRecords hr).1)
    (instRecords_ne_nil _ _ _ _ _) (instRecords_ne_nil _ _ _ _ _)
  rw [fromRecords_instRecords service instA ipsA portsA ssA ttlA hipsA hportsA] at hia
  rw [fromRecords_instRecords service instB ipsB portsB ssB ttlB hipsB hportsB] at hib
  cases hia; cases hib
  exact hP

/-- **Two advertised instances are discovered faithfully from one response.** Instances
`instA.service` and `instB.service` (different labels; address and port sets without duplicates;
admissible attribute maps without empty key) are turned into records by `into_records`. Whatever
response carries the two record sets in whatever interleaving, a listener for `service` whose own
instance is neither of them sends exactly two reports on `on_discovery`: the two advertised
instances, field for field (equality, hence also `Instance.eqv`, the derived `PartialEq`). -/
theorem two_instances_discovered_faithfully (service own : Name) (instA instB : Label)
    (hAB : instA ≠ instB) (hownA : own ≠ instA :: service) (hownB : own ≠ instB :: service)
    (ipsA ipsB : List (Bool × Nat)) (portsA portsB : List Nat) (attrsA attrsB : Attrs)
    (ttlA ttlB : Nat) (hipsA : ipsA.Nodup) (hportsA : portsA.Nodup) (hipsB : ipsB.Nodup)
    (hportsB : portsB.Nodup) (hattrsA : MapOK attrsA) (hattrsB : MapOK attrsB)
    (hkeysA : ∀ e ∈ attrsA, e.1 ≠ "") (hkeysB : ∀ e ∈ attrsB, e.1 ≠ "") :
    ∃ rsA rsB, intoRecords (instA :: service) ipsA portsA attrsA ttlA = .ok rsA ∧
      intoRecords (instB :: service) ipsB portsB attrsB ttlB = .ok rsB ∧
      ∀ p : Packet, Interleaving rsA rsB (p.answers ++ p.additional) →
        (reports p service own).Perm
          [{ name := instA, ips := ipsA, ports := portsA, attrs := attrsA },
           { name := instB, ips := ipsB, ports := portsB, attrs := attrsB }] ∧
        (reports p service own =
          [{ name := instA, ips := ipsA, ports := portsA, attrs := attrsA },
           { name := instB, ips := ipsB, ports := portsB, attrs := attrsB }] ∨
         reports p service own =
          [{ name := instB, ips := ipsB, ports := portsB, attrs := attrsB },
           { name := instA, ips := ipsA, ports := portsA, attrs := attrsA }]) ∧
        ∀ i ∈ reports p service own,
          Instance.eqv i { name := instA, ips := ipsA, ports := portsA, attrs := attrsA } ∨
          Instance.eqv i { name := instB, ips := ipsB, ports := portsB, attrs := attrsB } := by
  have key : ∀ (attrs : Attrs), MapOK attrs → (∀ e ∈ attrs, e.1 ≠ "") →
      attrsExtend [] ((Txt.attributes (attrs.map attrEntryBytes)).filter (fun e => !e.1.isEmpty))
        = attrs := by
    intro attrs hm hk
    obtain ⟨ss, hss, hat⟩ := attrs_roundtrip attrs hm
    have : ss = attrs.map attrEntryBytes :=
      ((ofMap_ok_iff attrs ss).mp hss).1
    rw [← this, hat, filter_nonempty_keys attrs hk, attrsExtend_fresh attrs [] hm.1 (by simp [Attrs.keys])]
    simp
  refine ⟨_, _, intoRecords_ok _ _ _ _ _ hattrsA.2.2, intoRecords_ok _ _ _ _ _ hattrsB.2.2, ?_⟩
  intro p hil
  have hP := reports_two_announced hAB hownA hownB ipsA ipsB portsA portsB _ _ ttlA ttlB
    hipsA hportsA hipsB hportsB hil
  rw [key attrsA hattrsA hkeysA, key attrsB hattrsB hkeysB] at hP
  refine ⟨hP, perm_pair hP, ?_⟩
  intro i hi
  have := hP.subset hi
  simp only [List.mem_cons, List.not_mem_nil, or_false] at this
  rcases this with rfl | rfl
  · exact .inl (Instance.eqv_refl _)
  · exact .inr (Instance.eqv_refl _)

/-! ### 6. the defect of the code before fix 3098c07 (`reportsMerged`) -/

/-- the old code sent at most one report per response -/
theorem reportsMerged_length_le (p : Packet) (service full : Name) :
    (reportsMerged p service full).length ≤ 1 := by
  unfold reportsMerged
  dsimp only
  split
  · simp
  · cases fromRecords service (ingestRecords p service full) <;> simp

/-- exactly one as soon as a record is kept -/
theorem reportsMerged_length {p : Packet} {service full : Name}
    (h : ingestRecords p service full ≠ []) : (reportsMerged p service full).length = 1 := by
  unfold reportsMerged
  dsimp only
  cases hrs : ingestRecords p service full with
  | nil => exact absurd hrs h
  | cons r rs =>
    have hr : r ∈ ingestRecords p service full := by rw [hrs]; simp
    have hsub := (mem_ingestRecords.mp hr).2.2
    have : fromRecords service (r :: rs) ≠ none := by
      rw [fromRecords_eq, List.findSome?_cons]
      unfold Name.without
      rw [if_pos hsub]
      simp
    cases hf : fromRecords service (r :: rs) with
    | none => exact absurd hf this
    | some i => simp

/-- **The old report merges everything**: the single instance the old code reported carries the
addresses of ALL kept A / AAAA records and the ports of ALL kept SRV records of the response,
whoever owns them, under the name of the first kept record. -/
theorem reportsMerged_merges {p : Packet} {service full : Name} {i : Instance}
    (h : i ∈ reportsMerged p service full) :
    (∀ x, x ∈ i.ips ↔ ∃ r ∈ ingestRecords p service full, ipOf r = some x) ∧
    (∀ x, x ∈ i.ports ↔ ∃ r ∈ ingestRecords p service full, portOf r = some x) ∧
    (∀ k, k ∈ i.attrs.keys ↔
      ∃ r ∈ ingestRecords p service full, ∃ new, txtOf r = some new ∧ k ∈ new.keys) ∧
    ∃ r rest, ingestRecords p service full = r :: rest ∧
      i.name = Name.display (r.name.take (r.name.length - service.length)) := by
  unfold reportsMerged at h
  dsimp only at h
  split at h
  · cases h
  · have hf : fromRecords service (ingestRecords p service full) = some i := by
      simpa using h
    refine ⟨fromRecords_ips_iff hf, fromRecords_ports_iff hf, fromRecords_attr_keys_iff hf, ?_⟩
    cases hrs : ingestRecords p service full with
    | nil => rw [hrs] at hf; cases hf
    | cons r rest =>
      refine ⟨r, rest, rfl, ?_⟩
      have hr : r ∈ ingestRecords p service full := by rw [hrs]; simp
      have hsub := (mem_ingestRecords.mp hr).2.2
      obtain ⟨n, hn, hname, _⟩ := fromRecords_eq_some hf
      rw [hrs, List.findSome?_cons] at hn
      unfold Name.without at hn
      rw [if_pos hsub] at hn
      cases hn
      exact hname

/-- **Where old and new code agree**: when all kept records of the response have the same owner
(one instance per response), the old single report is exactly the new list of reports. -/
theorem reportsMerged_eq_reports_of_single_owner {p : Packet} {service full o : Name}
    (h : ∀ r ∈ ingestRecords p service full, r.name = o) :
    reportsMerged p service full = reports p service full := by
  unfold reportsMerged reports
  dsimp only
  cases hrs : ingestRecords p service full with
  | nil => rfl
  | cons r rs =>
    rw [← hrs]
    have hne : ingestRecords p service full ≠ [] := by rw [hrs]; simp
    rw [owners_of_single_owner hne h]
    have hfil : (ingestRecords p service full).filter (fun r => r.name == o) =
        ingestRecords p service full := by
      rw [List.filter_eq_self]; intro x hx; simp [h x hx]
    have hemp : (ingestRecords p service full).isEmpty = false := by rw [hrs]; rfl
    rw [hemp]
    simp only [Bool.false_eq_true, if_false, List.filterMap_cons, List.filterMap_nil, hfil]
    cases fromRecords service (ingestRecords p service full) <;> rfl

/-- **Where they differ**: as soon as the kept records have two different owners, the old code
reported fewer instances than the response announces (one instead of one per owner). -/
theorem reportsMerged_loses_instances {p : Packet} {service full : Name} {r1 r2 : RR}
    (h1 : r1 ∈ ingestRecords p service full) (h2 : r2 ∈ ingestRecords p service full)
    (hne : r1.name ≠ r2.name) :
    (reportsMerged p service full).length = 1 ∧ 2 ≤ (reports p service full).length := by
  refine ⟨reportsMerged_length (fun h => by rw [h] at h1; cases h1), ?_⟩
  rw [reports_length]
  have ho1 := (mem_owners_iff _ _).mpr ⟨r1, h1, rfl⟩
  have ho2 := (mem_owners_iff _ _).mpr ⟨r2, h2, rfl⟩
  match ho : owners (ingestRecords p service full) with
  | [] => rw [ho] at ho1; cases ho1
  | [x] =>
    rw [ho] at ho1 ho2
    simp only [List.mem_singleton] at ho1 ho2
    exact absurd (ho1.trans ho2.symm) hne
  | _ :: _ :: _ => simp

/-! #### the concrete response: `alpha` and `beta` of `_http._tcp.local` in one packet -/

namespace C15Two

open C15Ex (service own)

/-- the instance label `alpha` -/
def alpha : Label := [97, 108, 112, 104, 97]
/-- the instance label `beta` -/
def beta : Label := [98, 101, 116, 97]

/-- alpha: 10.0.0.1 port 8080; beta: 10.0.0.2 port 9090; one A and one SRV record each -/
def recs : List RR :=
  [mkRR (alpha :: service) 120 (.flat 1 [.int 0x0A000001]),
   mkRR (alpha :: service) 120 (srvRData (alpha :: service) 8080),
   mkRR (beta :: service) 120 (.flat 1 [.int 0x0A000002]),
   mkRR (beta :: service) 120 (srvRData (beta :: service) 9090)]

/-- the same records, interleaved -/
def recsMixed : List RR :=
  [mkRR (beta :: service) 120 (.flat 1 [.int 0x0A000002]),
   mkRR (alpha :: service) 120 (.flat 1 [.int 0x0A000001]),
   mkRR (alpha :: service) 120 (srvRData (alpha :: service) 8080),
   mkRR (beta :: service) 120 (srvRData (beta :: service) 9090)]

/-- **The defect, replayed on the model of the old code**: ONE instance, called `alpha`, that has
both addresses and both ports; `beta` is never reported. -/
theorem merged_defect :
    reportsMerged (announce recs) service own =
      [{ name := alpha, ips := [(false, 0x0A000001), (false, 0x0A000002)], ports := [8080, 9090],
         attrs := [] }] := by rfl

/-- **The fixed code on the same response**: the two instances, each with its own address and
port. -/
theorem fixed_reports :
    reports (announce recs) service own =
      [{ name := alpha, ips := [(false, 0x0A000001)], ports := [8080], attrs := [] },
       { name := beta, ips := [(false, 0x0A000002)], ports := [9090], attrs := [] }] := by rfl

/-- interleaved: the old code now calls the merged instance `beta`; the fixed code reports the same
two instances, `beta` first -/
theorem merged_defect_mixed :
    reportsMerged (announce recsMixed) service own =
      [{ name := beta, ips := [(false, 0x0A000002), (false, 0x0A000001)], ports := [8080, 9090],
         attrs := [] }] := by rfl

/-- the fixed code on the interleaved response: the same two instances, `beta` first -/
theorem fixed_reports_mixed :
    reports (announce recsMixed) service own =
      [{ name := beta, ips := [(false, 0x0A000002)], ports := [9090], attrs := [] },
       { name := alpha, ips := [(false, 0x0A000001)], ports := [8080], attrs := [] }] := by rfl

/-- alpha's records alone -/
def recsAlpha : List RR :=
  [mkRR (alpha :: service) 120 (.flat 1 [.int 0x0A000001]),
   mkRR (alpha :: service) 120 (srvRData (alpha :: service) 8080)]

/-- beta's records alone -/
def recsBeta : List RR :=
  [mkRR (beta :: service) 120 (.flat 1 [.int 0x0A000002]),
   mkRR (beta :: service) 120 (srvRData (beta :: service) 9090)]

/-- `recsMixed` is an interleaving of alpha's and beta's records -/
theorem mixed_interleaving :
    Interleaving recsAlpha recsBeta
      ((announce recsMixed).answers ++ (announce recsMixed).additional) :=
  .right (.left (.left (.right .nil)))

/-- the hypotheses of `reports_interleaving` hold on the interleaved response; its conclusion is
`fixed_reports_mixed` up to order -/
example : ∃ ia ib, fromRecords service recsAlpha = some ia ∧ fromRecords service recsBeta = some ib ∧
    (reports (announce recsMixed) service own).Perm [ia, ib] ∧
    (reports (announce recsMixed) service own).length = 2 :=
  reports_interleaving mixed_interleaving (a := alpha :: service) (b := beta :: service)
    (by decide) (by decide) (by decide) (by decide) (by decide) (by decide) (by decide)
    (by decide) (by decide)

/-- each of the two instances alone: the old and the new code agree (one owner) -/
example : reportsMerged (announce recsAlpha) service own = reports (announce recsAlpha) service own :=
  reportsMerged_eq_reports_of_single_owner (o := alpha :: service) (by decide)

/-- together: the old code loses one -/
example : (reportsMerged (announce recs) service own).length = 1 ∧
    2 ≤ (reports (announce recs) service own).length :=
  reportsMerged_loses_instances
    (r1 := mkRR (alpha :: service) 120 (.flat 1 [.int 0x0A000001]))
    (r2 := mkRR (beta :: service) 120 (.flat 1 [.int 0x0A000002])) (by decide) (by decide)
    (by decide)

/-- locality on the example: alpha's report is the same whether beta's records ride along (in
either interleaving) or not -/
example : ∃ i, reportOf service (ingestRecords (announce recsMixed) service own) (alpha :: service) = some i ∧
    reportOf service (ingestRecords (announce recsAlpha) service own) (alpha :: service) = some i ∧
    i ∈ reports (announce recsMixed) service own ∧ i ∈ reports (announce recsAlpha) service own :=
  reports_local (by decide) (by decide)

/-- `report_faithful_to_owner` applies to the second report of the example -/
example : ∃ o pre, o ≠ own ∧ o = pre ++ service ∧ pre ≠ [] ∧ beta = Name.display pre ∧
    (∀ x, x ∈ [(false, 0x0A000002)] ↔
      ∃ r ∈ (announce recs).answers ++ (announce recs).additional, r.name = o ∧ ipOf r = some x) := by
  obtain ⟨o, pre, h1, h2, h3, h4, h5, _⟩ := report_faithful_to_owner
    (p := announce recs) (service := service) (full := own)
    (i := { name := beta, ips := [(false, 0x0A000002)], ports := [9090], attrs := [] })
    (by rw [fixed_reports]; simp)
  exact ⟨o, pre, h1, h2, h3, h4, h5⟩

/-- attributes: alpha announces `k=1` and then `k=2`, beta announces `k=3`; alpha's report has
`k ↦ 2` (its own last TXT record), untouched by beta's -/
def recsTxt : List RR :=
  [mkRR (alpha :: service) 120 (.flat 16 [.strs [[107, 61, 49]]]),
   mkRR (alpha :: service) 120 (.flat 16 [.strs [[107, 61, 50]]]),
   mkRR (beta :: service) 120 (.flat 16 [.strs [[107, 61, 51]]])]

example : reports (announce recsTxt) service own =
    [{ name := alpha, ips := [], ports := [], attrs := [("k", some "2")] },
     { name := beta, ips := [], ports := [], attrs := [("k", some "3")] }] := by rfl

/-- while the old code reported one instance `alpha` carrying BETA's attribute value -/
example : reportsMerged (announce recsTxt) service own =
    [{ name := alpha, ips := [], ports := [], attrs := [("k", some "3")] }] := by rfl

example : (("k", some "2") : String × Option String) ∈
    ({ name := alpha, ips := [], ports := [], attrs := [("k", some "2")] } : Instance).attrs :=
  reportOf_attr_last_wins (service := service) (rs := recsTxt) (o := alpha :: service)
    (pre := [mkRR (alpha :: service) 120 (.flat 16 [.strs [[107, 61, 49]]])]) (post := [])
    (r := mkRR (alpha :: service) 120 (.flat 16 [.strs [[107, 61, 50]]]))
    (new := [("k", some "2")]) (by rfl) (by decide) (by rfl) (by simp) (by simp)

end C15Two

end Dns.Mdns
