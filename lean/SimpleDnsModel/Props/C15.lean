/-
C15 — Advertised service instances are discovered faithfully.

When a peer advertises an instance of the watched service, the discovering
side reports exactly that instance: same instance name, the same IP addresses,
ports and attributes, after the records have crossed the wire in a compressed
packet. Records of the discoverer's own instance, of the service name itself,
or of names that are not strict subdomains of the watched service are never
cached; escaping then unescaping an instance name returns the original.

  1. `escape_unescape`
  2. `ingest_filter`, `ingest_ignores`, `ingest_caches`
  3. `from_records_of_into_records` (and `from_records_of_into_records_filter`: what happens to
     an attribute with an empty key)
  4. `empty_key_indistinguishable`
  5. `discovery_faithful` (hypothesis: the announcement packet is `Packet.WF`),
     `discovery_faithful_limits` (the same from explicit limits on the instance's values),
     `discovery_faithful_no_attributes` (the case the WF hypothesis excludes: no attributes)

Order of results: the model's buckets keep insertion order and `from_records` folds in that
order, so the discovered `ips` / `ports` / `attrs` are equal to the advertised lists, not merely
equal as sets (the Rust `HashSet`/`HashMap` results are compared as sets by the harness).

Known finding `empty-attribute-key`: an attribute whose key is the empty string is dropped by
`from_records` (`filter(|(k, _)| !k.is_empty())`), so it is NOT discovered; and the attribute
maps `{}` and `{"": None}` produce byte-identical TXT records. Item 3 therefore assumes non-empty
keys; `from_records_of_into_records_filter` and item 4 state precisely what happens otherwise.
-/
import SimpleDnsModel.Lemmas.DiscoveryB
import SimpleDnsModel.Props.C03
namespace Dns.Mdns

/-! ### 1. instance-name escaping -/

theorem unescapeName_cons_of_ne {c : Char} (h : c ≠ '\\') (cs : List Char) :
    unescapeName (c :: cs) = c :: unescapeName cs := by
  rw [unescapeName.eq_4]
  · intro hc _; exact h hc
  · intro _ _ hc _; exact h hc

/-- **`unescaped_instance_name(escaped_instance_name(s)) == s`** -/
theorem escape_unescape (s : List Char) : unescapeName (escapeName s) = s := by
  induction s with
  | nil => rfl
  | cons c cs ih =>
    by_cases h1 : c = '.'
    · subst h1; simp [escapeName, unescapeName, ih]
    · by_cases h2 : c = '\\'
      · subst h2; simp [escapeName, unescapeName, ih]
      · rw [escapeName.eq_4 _ _ h1 h2, unescapeName_cons_of_ne h2, ih]

/-- hence escaping loses nothing: it is injective -/
theorem escapeName_injective {s t : List Char} (h : escapeName s = escapeName t) : s = t := by
  rw [← escape_unescape s, h, escape_unescape]

example : escapeName "My.Printer\\1".toList = "My\\.Printer\\\\1".toList := by decide
example : unescapeName "My\\.Printer\\\\1".toList = "My.Printer\\1".toList := by decide
/-- the other composition is not the identity: unescaping is not injective (a lone trailing
backslash is dropped, an unnecessary escape is removed) -/
example : unescapeName "a\\".toList = "a".toList ∧ unescapeName "\\a".toList = "a".toList := by
  decide

/-! ### 2. what `add_response_to_resources` caches -/

/-- folding `addCached` changes the abstract view only at records of the list -/
theorem abs_foldl_addCached (l : List RR) (s : Store) (now : Nat) (x : RR)
    (h : abs (l.foldl (fun st r => st.addCached r now) s) x ≠ abs s x) :
    ∃ r ∈ l, rrEq x r = true := by
  induction l generalizing s with
  | nil => exact absurd rfl h
  | cons r rs ih =>
    simp only [List.foldl_cons] at h
    by_cases hx : rrEq x r = true
    · exact ⟨r, by simp, hx⟩
    · by_cases h' : abs (rs.foldl (fun st r => st.addCached r now) (s.addCached r now)) x
          = abs (s.addCached r now) x
      · rw [h', abs_addCached, if_neg hx] at h; exact absurd rfl h
      · obtain ⟨r', hr', he⟩ := ih _ h'
        exact ⟨r', by simp [hr'], he⟩

/-- whatever ingestion changes in the store is a record of the response's answer or additional
section that is not the discoverer's own and lies strictly below the watched service -/
theorem ingest_changes {p : Packet} {service full : Name} {s : Store} {now : Nat} {x : RR}
    (h : abs (ingest p service full s now) x ≠ abs s x) :
    ∃ r ∈ p.answers ++ p.additional, rrEq x r = true ∧
      x.name ≠ full ∧ x.name.isSubdomainOf service = true := by
  obtain ⟨r, hr, he⟩ := abs_foldl_addCached _ s now x h
  obtain ⟨hm, hf⟩ := List.mem_filter.mp hr
  simp only [Bool.and_eq_true, bne_iff_ne, ne_eq] at hf
  rw [rrEq_name he]
  exact ⟨r, hm, he, hf.1, hf.2⟩

/-- **Only foreign records strictly below the service are cached**: a record that was not in the
store and is there after ingestion is not owned by the discoverer's own instance name, is owned by
a strict subdomain of the watched service, and came from the response. -/
theorem ingest_filter {p : Packet} {service full : Name} {s : Store} {now : Nat} {x : RR}
    (h0 : abs s x = none) (h1 : abs (ingest p service full s now) x ≠ none) :
    x.name ≠ full ∧ x.name.isSubdomainOf service = true ∧
    ∃ r ∈ p.answers ++ p.additional, rrEq x r = true := by
  obtain ⟨r, hr, he, h2, h3⟩ := ingest_changes (x := x) (by rw [h0]; exact h1)
  exact ⟨h2, h3, r, hr, he⟩

/-- in particular: records owned by the discoverer's own instance name, by the service name itself
(not a STRICT subdomain) or by unrelated names are left exactly as they were -/
theorem ingest_ignores {p : Packet} {service full : Name} {s : Store} {now : Nat} {x : RR}
    (h : x.name = full ∨ x.name = service ∨ x.name.isSubdomainOf service = false) :
    abs (ingest p service full s now) x = abs s x := by
  apply Decidable.byContradiction
  intro hne
  obtain ⟨r, _, _, h2, h3⟩ := ingest_changes hne
  rcases h with h | h | h
  · exact h2 h
  · rw [h] at h3
    have := (isSubdomainOf_iff_suffix service service).mp h3
    omega
  · rw [h] at h3; cases h3

theorem abs_foldl_addCached_ne_none (l : List RR) (s : Store) (now : Nat) (x : RR)
    (h : abs s x ≠ none) : abs (l.foldl (fun st r => st.addCached r now) s) x ≠ none := by
  induction l generalizing s with
  | nil => exact h
  | cons r rs ih =>
    apply ih
    rw [abs_addCached]
    split
    · split <;> simp
    · exact h

/-- conversely every record that passes the filter is in the store afterwards -/
theorem ingest_caches {p : Packet} {service full : Name} {s : Store} {now : Nat} {r : RR}
    (hr : r ∈ p.answers ++ p.additional) (h1 : r.name ≠ full)
    (h2 : r.name.isSubdomainOf service = true) : abs (ingest p service full s now) r ≠ none := by
  unfold ingest
  have hm : r ∈ (p.answers ++ p.additional).filter
      (fun r => r.name != full && r.name.isSubdomainOf service) :=
    List.mem_filter.mpr ⟨hr, by simp [h1, h2]⟩
  obtain ⟨l1, l2, hl⟩ := List.append_of_mem hm
  rw [hl, List.foldl_append, List.foldl_cons]
  apply abs_foldl_addCached_ne_none
  rw [abs_addCached, if_pos (rrEq_refl r)]
  split <;> simp

/-! ### 3. instance → records → instance -/

/-- without any assumption on the keys: attributes with an empty key are dropped, everything else
is read back -/
theorem from_records_of_into_records_filter (service : Name) (inst : Label)
    (ips : List (Bool × Nat)) (ports : List Nat) (attrs : Attrs) (ttl : Nat) (hips : ips.Nodup)
    (hports : ports.Nodup) (hattrs : MapOK attrs) :
    ∃ rs, intoRecords (inst :: service) ips ports attrs ttl = .ok rs ∧
      fromRecords service rs = some { name := inst, ips := ips, ports := ports,
                                      attrs := attrs.filter (fun e => !e.1.isEmpty) } := by
  obtain ⟨ss, hss, hat⟩ := attrs_roundtrip attrs hattrs
  refine ⟨instRecords (inst :: service) ips ports ss ttl, ?_, ?_⟩
  · rw [intoRecords_eq, hss]; rfl
  · rw [fromRecords_instRecords service inst ips ports ss ttl hips hports, hat,
      attrsExtend_fresh _ [] ?_ (by simp [Attrs.keys])]
    · simp
    · exact List.Pairwise.sublist (List.Sublist.map _ List.filter_sublist) hattrs.1

/-- **`from_records(into_records(i)) = i`** for an instance `inst.service` whose address and port
sets are given without duplicates and whose attribute map is admissible (`MapOK`: distinct keys
without `'='`, entries of at most 255 bytes) and has no empty key. -/
theorem from_records_of_into_records (service : Name) (inst : Label) (ips : List (Bool × Nat))
    (ports : List Nat) (attrs : Attrs) (ttl : Nat) (hips : ips.Nodup) (hports : ports.Nodup)
    (hattrs : MapOK attrs) (hkeys : ∀ e ∈ attrs, e.1 ≠ "") :
    ∃ rs, intoRecords (inst :: service) ips ports attrs ttl = .ok rs ∧
      fromRecords service rs = some { name := inst, ips := ips, ports := ports, attrs := attrs } := by
  obtain ⟨rs, h1, h2⟩ :=
    from_records_of_into_records_filter service inst ips ports attrs ttl hips hports hattrs
  rw [filter_nonempty_keys attrs hkeys] at h2
  exact ⟨rs, h1, h2⟩

/-! ### 4. the empty attribute key -/

theorem ofMap_nil : Txt.ofMap [] = .ok [] := rfl

theorem ofMap_empty_key : Txt.ofMap [("", none)] = .ok [[]] := by
  simp [Txt.ofMap, attrEntryBytes, bytesOfString_empty, charStrsNew, CharStr.new]

theorem attributes_empty_str : Txt.attributes [[]] = [("", none)] := by
  have h : stringOfBytes? [] = some "" := by
    have := stringOfBytes?_bytesOfString ""
    rwa [bytesOfString_empty] at this
  simp [Txt.attributes, attrOfCharStr, h, Attrs.insertIfAbsent, Attrs.has]

/-- a TXT record without strings and one holding a single empty string are the same bytes, with or
without compression, wherever they are written -/
theorem txt_record_same_wire (c : Bool) (r : RR) (off : Nat) (t : Table) :
    ({ r with rdata := .flat 16 [.strs []] } : RR).writeG c off t =
      ({ r with rdata := .flat 16 [.strs [[]]] } : RR).writeG c off t := by
  cases c <;> rfl

/-- **The attribute maps `{}` and `{"": None}` cannot be told apart.** They become the TXT strings
`[]` and `[[]]`; by the rule "no strings ⇒ one empty string" both are the single RDATA byte `0`, so
the records are byte-identical; and the discovering side reports no attribute for either (the empty
key is dropped). The two instances are different values for the advertising application. -/
theorem empty_key_indistinguishable :
    Txt.ofMap [] = .ok [] ∧ Txt.ofMap [("", none)] = .ok [[]] ∧
    encField .strs (.strs []) = [0] ∧ encField .strs (.strs [[]]) = [0] ∧
    (∀ (c : Bool) (r : RR) (off : Nat) (t : Table),
      ({ r with rdata := .flat 16 [.strs []] } : RR).writeG c off t =
        ({ r with rdata := .flat 16 [.strs [[]]] } : RR).writeG c off t) ∧
    (∀ (service : Name) (inst : Label) (ips : List (Bool × Nat)) (ports : List Nat) (ttl : Nat),
      ips.Nodup → ports.Nodup →
      ∀ attrs, attrs = [] ∨ attrs = [("", none)] →
        ∃ rs, intoRecords (inst :: service) ips ports attrs ttl = .ok rs ∧
          fromRecords service rs = some { name := inst, ips := ips, ports := ports, attrs := [] }) := by
  refine ⟨ofMap_nil, ofMap_empty_key, by decide, by decide, txt_record_same_wire, ?_⟩
  intro service inst ips ports ttl hips hports attrs hattrs
  rcases hattrs with rfl | rfl
  · refine ⟨instRecords (inst :: service) ips ports [] ttl, by rw [intoRecords_eq, ofMap_nil]; rfl, ?_⟩
    rw [fromRecords_instRecords service inst ips ports [] ttl hips hports]
    rfl
  · refine ⟨instRecords (inst :: service) ips ports [[]] ttl,
      by rw [intoRecords_eq, ofMap_empty_key]; rfl, ?_⟩
    rw [fromRecords_instRecords service inst ips ports [[]] ttl hips hports, attributes_empty_str]
    rfl

/-- the counterexample to item 3 without the hypothesis on the keys: the advertised attribute
`"" ↦ None` is not among the discovered attributes -/
example : ∃ rs, intoRecords [[112], [108]] [] [] [("", none)] 120 = .ok rs ∧
    ∃ i, fromRecords [[108]] rs = some i ∧ i.attrs = [] ∧ i.attrs ≠ [("", none)] := by
  obtain ⟨rs, h1, h2⟩ := empty_key_indistinguishable.2.2.2.2.2 [[108]] [112] [] [] 120
    List.nodup_nil List.nodup_nil [("", none)] (.inr rfl)
  exact ⟨rs, h1, _, h2, rfl, by simp⟩

/-! ### 5. end to end: one peer announces, the listener reports -/

/-- the response an announcing peer sends for the records `rs` -/
def announce (rs : List RR) : Packet :=
  { header := { id := 0, opcode := .StandardQuery, rcode := .NoError, flags := 0x8000, opt := none },
    questions := [], answers := rs, nameServers := [], additional := [] }

/-- every record of the announcement passes the listener's filter -/
theorem ingest_announce (service own : Name) (inst : Label) (hown : own ≠ inst :: service)
    (ips : List (Bool × Nat)) (ports : List Nat) (ss : List Bytes) (ttl now : Nat) (s : Store) :
    ingest (announce (instRecords (inst :: service) ips ports ss ttl)) service own s now =
      (instRecords (inst :: service) ips ports ss ttl).foldl (fun st r => st.addCached r now) s := by
  unfold ingest
  congr 1
  simp only [announce, List.append_nil]
  rw [List.filter_eq_self]
  intro r hr
  rw [(mem_instRecords hr).1]
  simp only [Bool.and_eq_true, bne_iff_ne, ne_eq]
  exact ⟨fun h => hown h.symm,
    (isSubdomainOf_iff_suffix _ _).mpr ⟨by simp, List.suffix_cons inst service⟩⟩

theorem handleDiscovery_response {s : Store} {service full : Name} {d : Bytes} {now : Nat}
    {p : Packet} (hp : Packet.parse d = .ok p) (hf : p.header.hasFlags 0x8000 = true) :
    handleDiscovery s service full d now = .ok (ingest p service full s now, none) := by
  unfold handleDiscovery
  rw [hp]
  simp only [hf, if_true]

/-- what the listener knows after ingesting the announcement of `instRecords … ss …` -/
theorem known_after_announce (service own : Name) (ownRecords : List RR) (inst : Label)
    (hown : own ≠ inst :: service) (hownRecs : ∀ r ∈ ownRecords, r.name = own)
    (ips : List (Bool × Nat)) (ports : List Nat) (ss : List Bytes) (ttl now now' : Nat)
    (hips : ips.Nodup) (hports : ports.Nodup) :
    known (ingest (announce (instRecords (inst :: service) ips ports ss ttl)) service own
        (discoveryInit service own ownRecords) now) service now' =
      if now' < now + 1000 * ttl then
        [{ name := inst, ips := ips, ports := ports,
           attrs := attrsExtend [] ((Txt.attributes ss).filter (fun e => !e.1.isEmpty)) }]
      else [] := by
  obtain ⟨hI, hO, hK⟩ := discoveryInit_props service own ownRecords hownRecs
  unfold known
  rw [ingest_announce service own inst hown,
    getDomain_after_announce hI hO hK inst hown ips ports ss ttl now now' hips hports]
  split
  · simp [fromRecords_instRecords service inst ips ports ss ttl hips hports]
  · rfl

/-- **Faithful discovery, one peer.** An instance `inst.service` with addresses `ips`, ports
`ports` (no duplicates), admissible attributes without an empty key and TTL `ttl` is turned into
records by `into_records`; the announcing peer sends them as a compressed response `bytes`. If that
packet is within DNS limits (`Packet.WF`), a discovery listener for `service` whose own instance is
a different name, started with any records of its own, ingests the datagram (no reply), and from
then until `ttl` seconds later `get_known_services` returns exactly one instance: the advertised
one. Afterwards it returns none. -/
theorem discovery_faithful (service : Name) (inst : Label) (own : Name) (ownRecords : List RR)
    (ips : List (Bool × Nat)) (ports : List Nat) (attrs : Attrs) (ttl now : Nat)
    (hips : ips.Nodup) (hports : ports.Nodup) (hattrs : MapOK attrs)
    (hkeys : ∀ e ∈ attrs, e.1 ≠ "") (hown : own ≠ inst :: service)
    (hownRecs : ∀ r ∈ ownRecords, r.name = own) :
    ∃ rs, intoRecords (inst :: service) ips ports attrs ttl = .ok rs ∧
      ((announce rs).WF →
        ∃ bytes s1, (announce rs).buildCompressed = .ok bytes ∧
          handleDiscovery (discoveryInit service own ownRecords) service own bytes now
            = .ok (s1, none) ∧
          (∀ now', now' < now + 1000 * ttl →
            known s1 service now' =
              [{ name := inst, ips := ips, ports := ports, attrs := attrs }]) ∧
          (∀ now', now + 1000 * ttl ≤ now' → known s1 service now' = [])) := by
  obtain ⟨ss, hss, hat⟩ := attrs_roundtrip attrs hattrs
  have hattrs' : attrsExtend [] ((Txt.attributes ss).filter (fun e => !e.1.isEmpty)) = attrs := by
    rw [hat, filter_nonempty_keys attrs hkeys,
      attrsExtend_fresh attrs [] hattrs.1 (by simp [Attrs.keys])]
    simp
  refine ⟨instRecords (inst :: service) ips ports ss ttl, by rw [intoRecords_eq, hss]; rfl, ?_⟩
  intro hwf
  obtain ⟨bytes, hb, hparse⟩ := compressed_transparent _ hwf
  refine ⟨bytes, _, hb, handleDiscovery_response hparse
    (show Header.hasFlags ⟨0, .StandardQuery, .NoError, 0x8000, none⟩ 0x8000 = true by decide), ?_, ?_⟩
  · intro now' hlt
    rw [known_after_announce service own ownRecords inst hown hownRecs ips ports ss ttl now now'
      hips hports, if_pos hlt, hattrs']
  · intro now' hge
    rw [known_after_announce service own ownRecords inst hown hownRecs ips ports ss ttl now now'
      hips hports, if_neg (by omega)]

/-! #### the hypothesis `(announce rs).WF` from explicit limits -/

/-- the records `into_records` returns for an admissible attribute map -/
theorem intoRecords_ok (full : Name) (ips : List (Bool × Nat)) (ports : List Nat) (attrs : Attrs)
    (ttl : Nat) (h : ∀ e ∈ attrs, (attrEntryBytes e).length ≤ 255) :
    intoRecords full ips ports attrs ttl =
      .ok (instRecords full ips ports (attrs.map attrEntryBytes) ttl) := by
  rw [intoRecords_eq, (ofMap_ok_iff attrs _).mpr ⟨rfl, h⟩]; rfl

/-- the values of an instance description are within DNS limits: a name of at most 255 bytes with
labels of 1..63 bytes, a 32-bit TTL, 32-bit or 128-bit addresses, 16-bit ports, at least one attribute
(a TXT record needs one string: the case of no attributes is `discovery_faithful_no_attributes`),
at most 65 535 bytes of TXT data and at most 65 535 records -/
structure InstanceFits (full : Name) (ips : List (Bool × Nat)) (ports : List Nat) (attrs : Attrs)
    (ttl : Nat) : Prop where
  hname : Name.WF full
  httl : ttl < 2 ^ 32
  hips : ∀ ip ∈ ips, ip.2 < (if ip.1 then 2 ^ 128 else 2 ^ 32)
  hports : ∀ p ∈ ports, p < 65536
  hattrs : attrs ≠ []
  htxt : (attrs.map (fun e => (attrEntryBytes e).length + 1)).sum ≤ 65535
  hcount : ips.length + ports.length + 1 ≤ 65535

theorem announce_wf_strs {full : Name} {ips : List (Bool × Nat)} {ports : List Nat}
    {ss : List Bytes} {ttl : Nat} (hname : Name.WF full) (httl : ttl < 2 ^ 32)
    (hips : ∀ ip ∈ ips, ip.2 < (if ip.1 then 2 ^ 128 else 2 ^ 32))
    (hports : ∀ p ∈ ports, p < 65536) (hstrs : ss ≠ [] ∧ ∀ s ∈ ss, s.length ≤ 255)
    (htxt : (encStrs ss).length ≤ 65535) (hcount : ips.length + ports.length + 1 ≤ 65535) :
    (announce (instRecords full ips ports ss ttl)).WF := by
  have hrec : ∀ r ∈ instRecords full ips ports ss ttl, r.WF := by
    intro r hr
    simp only [instRecords, List.mem_append, List.mem_map, List.mem_singleton] at hr
    rcases hr with ⟨ip, hip, rfl⟩ | ⟨p, hp, rfl⟩ | rfl
    · have hb := hips ip hip
      obtain ⟨b, a⟩ := ip
      cases b
      · refine ⟨hname, httl, ?_, trivial⟩
        simp only [mkRR, ipRData, Bool.false_eq_true, if_false] at hb ⊢
        refine ⟨?_, rfl, by simp [RData.writtenLen, RData.write, schemaOf, flatCheck, encAll, encField]⟩
        simp only [SchemaOK, schemaOf, AllOK, FieldOK]
        exact ⟨by simpa using hb, trivial⟩
      · refine ⟨hname, httl, ?_, trivial⟩
        simp only [mkRR, ipRData, if_true] at hb ⊢
        refine ⟨?_, rfl, by simp [RData.writtenLen, RData.write, schemaOf, flatCheck, encAll, encField]⟩
        simp only [SchemaOK, schemaOf, AllOK, FieldOK]
        exact ⟨by simpa using hb, trivial⟩
    · refine ⟨hname, httl, ?_, trivial⟩
      simp only [mkRR, srvRData]
      refine ⟨?_, rfl, ?_⟩
      · simp only [SchemaOK, schemaOf, AllOK, FieldOK]
        exact ⟨by decide, by decide, by simpa using hports p hp, hname, trivial⟩
      · simp only [RData.writtenLen, RData.write, schemaOf, flatCheck, if_true, encAll, encField,
          List.length_append, beN_length, Name.write_length, List.append_nil]
        have := hname.2
        omega
    · refine ⟨hname, httl, ?_, trivial⟩
      simp only [mkRR]
      refine ⟨?_, rfl, ?_⟩
      · simp only [SchemaOK, schemaOf, AllOK, FieldOK]
        exact ⟨hstrs, trivial⟩
      · have hne : ss.isEmpty = false := by
          cases ss with
          | nil => exact absurd rfl hstrs.1
          | cons _ _ => rfl
        simp only [RData.writtenLen, RData.write, schemaOf, flatCheck, if_true, encAll, encField,
          hne, Bool.false_eq_true, if_false, List.append_nil]
        exact htxt
  refine ⟨⟨(by decide : (0:Nat) < 65536), (by decide : (0x8000 : Nat) &&& Mask.ALLFLAGS = 0x8000),
    (by decide : RCODE.NoError ≠ RCODE.BADVERS)⟩, by simp [announce], ?_, by simp [announce],
    by simp [announce], by simp [announce], hrec, by simp [announce], by simp [announce],
    by simp [announce]⟩
  simp only [announce, instRecords, List.length_append, List.length_map, List.length_cons,
    List.length_nil]
  omega

/-- an instance within the limits is announced by a well-formed packet -/
theorem announce_wf {full : Name} {ips : List (Bool × Nat)} {ports : List Nat} {attrs : Attrs}
    {ttl : Nat} (hm : MapOK attrs) (h : InstanceFits full ips ports attrs ttl) :
    (announce (instRecords full ips ports (attrs.map attrEntryBytes) ttl)).WF := by
  apply announce_wf_strs h.hname h.httl h.hips h.hports
  · refine ⟨by simpa using h.hattrs, ?_⟩
    intro s hs
    obtain ⟨e, he, rfl⟩ := List.mem_map.mp hs
    exact hm.2.2 e he
  · rw [encStrs_length, List.map_map]; exact h.htxt
  · exact h.hcount

/-- **Faithful discovery, from explicit limits** on the advertised values instead of the
well-formedness of the announcement packet. -/
theorem discovery_faithful_limits (service : Name) (inst : Label) (own : Name)
    (ownRecords : List RR) (ips : List (Bool × Nat)) (ports : List Nat) (attrs : Attrs)
    (ttl now : Nat) (hips : ips.Nodup) (hports : ports.Nodup) (hattrs : MapOK attrs)
    (hkeys : ∀ e ∈ attrs, e.1 ≠ "") (hown : own ≠ inst :: service)
    (hownRecs : ∀ r ∈ ownRecords, r.name = own)
    (hfits : InstanceFits (inst :: service) ips ports attrs ttl) :
    ∃ rs bytes s1, intoRecords (inst :: service) ips ports attrs ttl = .ok rs ∧
      (announce rs).buildCompressed = .ok bytes ∧
      handleDiscovery (discoveryInit service own ownRecords) service own bytes now
        = .ok (s1, none) ∧
      (∀ now', now' < now + 1000 * ttl →
        known s1 service now' = [{ name := inst, ips := ips, ports := ports, attrs := attrs }]) ∧
      (∀ now', now + 1000 * ttl ≤ now' → known s1 service now' = []) := by
  obtain ⟨rs, hrs, h⟩ := discovery_faithful service inst own ownRecords ips ports attrs ttl now
    hips hports hattrs hkeys hown hownRecs
  have heq : rs = instRecords (inst :: service) ips ports (attrs.map attrEntryBytes) ttl := by
    rw [intoRecords_ok _ _ _ _ _ hattrs.2.2] at hrs
    exact (Out.ok.inj hrs).symm
  obtain ⟨bytes, s1, h1, h2, h3, h4⟩ := h (by rw [heq]; exact announce_wf hattrs hfits)
  exact ⟨rs, bytes, s1, hrs, h1, h2, h3, h4⟩

/-! #### an instance without attributes

`into_records` then produces a TXT record without strings, which is outside `Packet.WF` (RFC 1035:
one or more strings; known finding `txt-no-strings` of C02: it is written as one empty string and
parses back as such). The instance is discovered faithfully all the same: the bytes are those of
the announcement with TXT strings `[[]]`, whose only attribute has the empty key and is dropped. -/

theorem writeRRsG_congr_last (c : Bool) (l : List RR) (r r' : RR)
    (h : ∀ off t, r.writeG c off t = r'.writeG c off t) (off : Nat) (t : Table) :
    writeRRsG c (l ++ [r]) off t = writeRRsG c (l ++ [r']) off t := by
  induction l generalizing off t with
  | nil => simp only [List.nil_append, writeRRsG, h]
  | cons x xs ih =>
    simp only [List.cons_append, writeRRsG]
    cases x.writeG c off t with
    | ok a => simp only [Out.bind_ok, ih]
    | err => rfl
    | panic => rfl

theorem announce_congr_last (l : List RR) (r r' : RR)
    (h : ∀ off t, r.writeG true off t = r'.writeG true off t) :
    (announce (l ++ [r])).buildCompressed = (announce (l ++ [r'])).buildCompressed := by
  unfold Packet.buildCompressed Packet.buildG
  have hh : (announce (l ++ [r])).writeHeader = (announce (l ++ [r'])).writeHeader := by
    simp [Packet.writeHeader, announce]
  simp only [hh]
  simp only [announce, writeRRsG_congr_last true l r r' h]

/-- an instance without attributes is announced with the same bytes as one whose TXT record holds a
single empty string -/
theorem announce_no_attrs_bytes (full : Name) (ips : List (Bool × Nat)) (ports : List Nat)
    (ttl : Nat) :
    (announce (instRecords full ips ports [] ttl)).buildCompressed =
      (announce (instRecords full ips ports [[]] ttl)).buildCompressed := by
  have hsnoc : ∀ ss, instRecords full ips ports ss ttl =
      (ips.map (fun ip => mkRR full ttl (ipRData ip)) ++
        ports.map (fun p => mkRR full ttl (srvRData full p))) ++
          [mkRR full ttl (.flat 16 [.strs ss])] := by
    intro ss; simp [instRecords]
  rw [hsnoc, hsnoc]
  apply announce_congr_last
  intro off t
  rfl

/-- **Faithful discovery of an instance without attributes.** -/
theorem discovery_faithful_no_attributes (service : Name) (inst : Label) (own : Name)
    (ownRecords : List RR) (ips : List (Bool × Nat)) (ports : List Nat) (ttl now : Nat)
    (hips : ips.Nodup) (hports : ports.Nodup) (hown : own ≠ inst :: service)
    (hownRecs : ∀ r ∈ ownRecords, r.name = own)
    (hname : Name.WF (inst :: service)) (httl : ttl < 2 ^ 32)
    (hipsFit : ∀ ip ∈ ips, ip.2 < (if ip.1 then 2 ^ 128 else 2 ^ 32))
    (hportsFit : ∀ p ∈ ports, p < 65536) (hcount : ips.length + ports.length + 1 ≤ 65535) :
    ∃ rs bytes s1, intoRecords (inst :: service) ips ports [] ttl = .ok rs ∧
      (announce rs).buildCompressed = .ok bytes ∧
      handleDiscovery (discoveryInit service own ownRecords) service own bytes now
        = .ok (s1, none) ∧
      (∀ now', now' < now + 1000 * ttl →
        known s1 service now' = [{ name := inst, ips := ips, ports := ports, attrs := [] }]) ∧
      (∀ now', now + 1000 * ttl ≤ now' → known s1 service now' = []) := by
  have hwf : (announce (instRecords (inst :: service) ips ports [[]] ttl)).WF :=
    announce_wf_strs hname httl hipsFit hportsFit ⟨by simp, by simp⟩ (by decide) hcount
  obtain ⟨bytes, hb, hparse⟩ := compressed_transparent _ hwf
  refine ⟨instRecords (inst :: service) ips ports [] ttl, bytes, _,
    by rw [intoRecords_eq, ofMap_nil]; rfl, by rw [announce_no_attrs_bytes]; exact hb,
    handleDiscovery_response hparse
      (show Header.hasFlags ⟨0, .StandardQuery, .NoError, 0x8000, none⟩ 0x8000 = true by decide),
    ?_, ?_⟩
  · intro now' hlt
    rw [known_after_announce service own ownRecords inst hown hownRecs ips ports [[]] ttl now now'
      hips hports, if_pos hlt, attributes_empty_str]
    rfl
  · intro now' hge
    rw [known_after_announce service own ownRecords inst hown hownRecs ips ports [[]] ttl now now'
      hips hports, if_neg (by omega)]

/-! ### a concrete instance: `printer._http._tcp.local`, 192.168.0.1, port 8080 -/

namespace C15Ex

def service : Name := [[95, 104, 116, 116, 112], [95, 116, 99, 112], [108, 111, 99, 97, 108]]
def printer : Label := [112, 114, 105, 110, 116, 101, 114]
/-- the discoverer's own instance: `me._http._tcp.local` -/
def own : Name := [109, 101] :: service
def ips : List (Bool × Nat) := [(false, 0xC0A80001)]
def ports : List Nat := [8080]
def attrs : Attrs := [("a", some "1"), ("b", none), ("c", some "")]

theorem attrs_ok : MapOK attrs := by
  refine ⟨by decide, by decide, ?_⟩
  simp only [attrs, attrEntryBytes, bytesOfString_eq_flatMap]
  decide

/-- `a=1`, `b`, `c=` -/
theorem strs : attrs.map attrEntryBytes = [[97, 61, 49], [98], [99, 61]] := by
  simp only [attrs, List.map, attrEntryBytes, bytesOfString_eq_flatMap]
  decide

/-- one A record, one SRV record, one TXT record, all owned by `printer._http._tcp.local` -/
def rs : List RR := instRecords (printer :: service) ips ports [[97, 61, 49], [98], [99, 61]] 120

theorem into_records : intoRecords (printer :: service) ips ports attrs 120 = .ok rs := by
  rw [intoRecords_ok _ _ _ _ _ attrs_ok.2.2, strs]; rfl

example : (announce rs).WF := by decide

/-- records → instance, computed -/
example : fromRecords service rs = some ⟨printer, ips, ports, attrs⟩ := by rfl

/-- the announcement on the wire: 118 bytes; the second and third owner name are pointers to the
first (offset 12), the SRV target is written in full -/
def wire : Bytes :=
  [0, 0, 128, 0, 0, 0, 0, 3, 0, 0, 0, 0,
   7, 112, 114, 105, 110, 116, 101, 114, 5, 95, 104, 116, 116, 112, 4, 95, 116, 99, 112,
   5, 108, 111, 99, 97, 108, 0, 0, 1, 0, 1, 0, 0, 0, 120, 0, 4, 192, 168, 0, 1,
   192, 12, 0, 33, 0, 1, 0, 0, 0, 120, 0, 32, 0, 0, 0, 0, 31, 144,
   7, 112, 114, 105, 110, 116, 101, 114, 5, 95, 104, 116, 116, 112, 4, 95, 116, 99, 112,
   5, 108, 111, 99, 97, 108, 0,
   192, 12, 0, 16, 0, 1, 0, 0, 0, 120, 0, 9, 3, 97, 61, 49, 1, 98, 2, 99, 61]

theorem wire_built : (announce rs).buildCompressed = .ok wire := by decide +kernel

theorem wire_parses : Packet.parse wire = .ok (announce rs) := by
  obtain ⟨b, hb, hp⟩ := compressed_transparent (announce rs) (by decide)
  rw [wire_built] at hb
  cases hb
  exact hp

/-- the listener started at `me._http._tcp.local` with no further records ingests the datagram at
t = 1 s and reports the printer until t = 121 s (computed on the model) -/
example : handleDiscovery (discoveryInit service own []) service own wire 1000 =
    .ok (ingest (announce rs) service own (discoveryInit service own []) 1000, none) :=
  handleDiscovery_response wire_parses (by decide)

example : known (ingest (announce rs) service own (discoveryInit service own []) 1000) service 120999
    = [⟨printer, ips, ports, attrs⟩] := by rfl
example : known (ingest (announce rs) service own (discoveryInit service own []) 1000) service 121000
    = [] := by rfl

theorem fits : InstanceFits (printer :: service) ips ports attrs 120 := by
  refine ⟨by decide, by decide, by decide, by decide, by decide, ?_, by decide⟩
  simp only [attrs, List.map, attrEntryBytes, bytesOfString_eq_flatMap]
  decide

/-- the same through the theorem, for every arrival time -/
example (now : Nat) : ∃ rs bytes s1,
    intoRecords (printer :: service) ips ports attrs 120 = .ok rs ∧
    (announce rs).buildCompressed = .ok bytes ∧
    handleDiscovery (discoveryInit service own []) service own bytes now = .ok (s1, none) ∧
    (∀ now', now' < now + 1000 * 120 →
      known s1 service now' = [{ name := printer, ips := ips, ports := ports, attrs := attrs }]) ∧
    (∀ now', now + 1000 * 120 ≤ now' → known s1 service now' = []) :=
  discovery_faithful_limits service printer own [] ips ports attrs 120 now (by decide) (by decide)
    attrs_ok (by decide) (by decide) (by simp) fits

/-- the listener's own announcement, the service PTR record and an unrelated name are not cached -/
example (p : Packet) (s : Store) (now : Nat) (x : RR)
    (h : x.name = own ∨ x.name = service ∨ x.name = [[120], [108, 111, 99, 97, 108]]) :
    abs (ingest p service own s now) x = abs s x := by
  apply ingest_ignores
  rcases h with h | h | h
  · exact .inl h
  · exact .inr (.inl h)
  · exact .inr (.inr (by rw [h]; decide))

end C15Ex

end Dns.Mdns
