/-
Structural tie, second part: the message envelope.

`Generated/Envelope.lean` is regenerated from the current sources by `tools/translate_env.py`: the byte
ranges, guards, advances and masks of the header-peek functions, of `Header::parse`, `Question::parse`,
`ResourceRecord::parse` and `RData::parse`; the order of the writes of `Header::write_to`,
`Question::write_common`, `ResourceRecord::write_common` / `write_to`, `Packet::write_to` /
`write_compressed_to`; the first offset and the section order of `Packet::parse`; the arms of
`match_qtype` / `match_qclass`; the arithmetic of `ExpirationInfo::new`.

Each theorem below says that a function of the hand-written model IS the generic function (`…With`)
instantiated with the generated numbers, for every input.  A source whose statements are still
readable but carry other numbers (a read moved by a byte, a guard of 9 instead of 10, two writes
exchanged, MAILB over other types, `ttl / 10 * 9`) regenerates other values and the theorem no longer
checks.  A function whose statements are not all of a recognised shape unties that item: its values
are `none`, the theorems fall back to the model's own numbers (`getD`) and hold trivially, and the
item is listed in `Gen.Env.untied` (reported as a NOTE, tied by the correspondence check only).
-/
import SimpleDnsModel.Generated.Envelope
import SimpleDnsModel.Model.Match
import SimpleDnsModel.Model.Pipeline
import SimpleDnsModel.Model.Owned
import SimpleDnsModel.Model.Txt
namespace Dns.TieEnv
open Dns

/-! ### 1. header peeks (`header_buffer.rs`) -/

/-- `buffer.get(a..b)…map(u16::from_be_bytes)` -/
def peekWith (r : Nat × Nat) (d : Bytes) : Out Nat :=
  match sliceOpt d r.1 r.2 with
  | none => .err
  | some s => .ok (deN s)

def rangeOf (o : Option (Nat × Nat × String)) (dflt : Nat × Nat) : Nat × Nat :=
  (o.map (fun e => (e.1, e.2.1))).getD dflt

theorem peek_id (d : Bytes) : Peek.id d = peekWith (rangeOf Gen.Env.peek_id (0, 2)) d := rfl
theorem peek_questions (d : Bytes) :
    Peek.questions d = peekWith (rangeOf Gen.Env.peek_questions (4, 6)) d := rfl
theorem peek_answers (d : Bytes) :
    Peek.answers d = peekWith (rangeOf Gen.Env.peek_answers (6, 8)) d := rfl
theorem peek_nameServers (d : Bytes) :
    Peek.nameServers d = peekWith (rangeOf Gen.Env.peek_nameServers (8, 10)) d := rfl
theorem peek_additional (d : Bytes) :
    Peek.additional d = peekWith (rangeOf Gen.Env.peek_additionalRecords (10, 12)) d := rfl

theorem peek_hasFlags (d : Bytes) (f : Nat) :
    Peek.hasFlags d f =
      (do let w ← peekWith (rangeOf Gen.Env.peek_hasFlags (2, 4)) d
          pure (flagsTruncate w &&& f == f)) := rfl
theorem peek_rcode (d : Bytes) :
    Peek.rcode d =
      (do let w ← peekWith (rangeOf Gen.Env.peek_rcode (2, 4)) d
          pure (RCODE.ofCode (w &&& Mask.RCODE))) := rfl
theorem peek_opcode (d : Bytes) :
    Peek.opcode d =
      (do let w ← peekWith (rangeOf Gen.Env.peek_opcode (2, 4)) d
          pure (OPCODE.ofCode ((w &&& Mask.OPCODE) >>> 11))) := rfl

/-- what each peek does with the word it read is what the model does: the plain value, the
truncated flag set tested with `contains`, the word masked with RESPONSE_CODE_MASK, the word
masked with OPCODE_MASK and shifted by its trailing zeros -/
theorem peek_kinds :
    (Gen.Env.peek_id.all (·.2.2 == "u16") ∧ Gen.Env.peek_questions.all (·.2.2 == "u16") ∧
     Gen.Env.peek_answers.all (·.2.2 == "u16") ∧ Gen.Env.peek_nameServers.all (·.2.2 == "u16") ∧
     Gen.Env.peek_additionalRecords.all (·.2.2 == "u16")) ∧
    Gen.Env.peek_hasFlags.all (·.2.2 == "truncContains") ∧
    Gen.Env.peek_rcode.all (·.2.2 == "mask:RESPONSE_CODE_MASK") ∧
    Gen.Env.peek_opcode.all (·.2.2 == "maskShift:OPCODE_MASK") := by decide

/-- the shift of the opcode field is the number of trailing zeros of the mask the model uses -/
theorem opcode_shift : Mask.OPCODE >>> 11 <<< 11 = Mask.OPCODE ∧ Mask.OPCODE >>> 11 % 2 = 1 := by decide

/-! ### 2. `Header::parse`, `Header::write_to` -/

def Header.parseWith (minLen : Nat) (fl idr : Nat × Nat) (d : Bytes) : Out Header :=
  if d.length < minLen then .err else do
    let fb ← slice d fl.1 fl.2
    let flags := deN fb
    if flags &&& Mask.RESERVED ≠ 0 then .err else do
      let ib ← slice d idr.1 idr.2
      pure { id := deN ib
             opcode := OPCODE.ofCode ((flags &&& Mask.OPCODE) >>> 11)
             rcode := RCODE.ofCode (flags &&& Mask.RCODE)
             flags := flagsTruncate flags
             opt := none }

theorem header_parse (d : Bytes) :
    Dns.Header.parse d =
      Header.parseWith (Gen.Env.headerMinLen.getD 12) (Gen.Env.headerFlags.getD (2, 4))
        (Gen.Env.headerId.getD (0, 2)) d := rfl

/-- one 16-bit write of `Header::write_to` -/
def headerField (h : Dns.Header) (qd an ns ar : Nat) (s : String) : Bytes :=
  if s = "id" then beN 2 h.id
  else if s = "flags" then beN 2 h.getFlags
  else if s = "questions" then beN 2 qd
  else if s = "answers" then beN 2 an
  else if s = "name_servers" then beN 2 ns
  else if s = "additional_records" then beN 2 ar
  else []

def modelHeaderOrder : List String :=
  ["id", "flags", "questions", "answers", "name_servers", "additional_records"]

theorem header_write (h : Dns.Header) (qd an ns ar : Nat) :
    h.write qd an ns ar =
      ((Gen.Env.headerWriteOrder.getD modelHeaderOrder).map (headerField h qd an ns ar)).flatten := by
  have h : Gen.Env.headerWriteOrder.getD modelHeaderOrder = modelHeaderOrder := by decide
  rw [h]
  simp [Dns.Header.write, modelHeaderOrder, headerField]

/-- `Packet::write_header` passes the four section lengths in the order of `write_to`'s
parameters (two sites that must agree) -/
theorem header_counts_line_up :
    (Gen.Env.packetHeaderCounts.getD []).zip (Gen.Env.headerWriteParams.getD []) |>.all
      (fun e => e.1 == e.2) := by decide
theorem header_counts_are_the_sections :
    Gen.Env.packetHeaderCounts.all
      (· == ["questions", "answers", "name_servers", "additional_records"]) := by decide

theorem header_get_flags_shape : Gen.Env.headerGetFlagsShape.all (· == true) := by decide
/-- `set_flags` is `|=`, `remove_flags` is bitflags' `remove` (and-not), `has_flags` is `contains` -/
theorem header_flag_ops :
    Gen.Env.headerFlagOps.all (fun l => (l[0]? == some "or" || l[0]? == some "insert") &&
      (l[1]? == some "remove" || l[1]? == some "andnot") && l[2]? == some "contains") := by decide

/-! ### 3. `Question::parse`, `Question::write_common` -/

def Question.parseWith (guard : Nat) (ty cl : Nat × Nat) (adv clsMask uniMask : Nat)
    (d : Bytes) (pos : Nat) : Out (Question × Nat) := do
  let (name, pos) ← Name.parse d pos
  if pos + guard > d.length then .err else do
    let tb ← slice d (pos + ty.1) (pos + ty.2)
    let cb ← slice d (pos + cl.1) (pos + cl.2)
    let qtype ← QTYPE.ofCode (deN tb)
    let qclass ← QCLASS.ofCode (deN cb &&& clsMask)
    pure ({ name := name, qtype := qtype, qclass := qclass,
            unicast := (deN cb &&& uniMask) == uniMask }, pos + adv)

theorem question_parse (d : Bytes) (pos : Nat) :
    Dns.Question.parse d pos =
      Question.parseWith (Gen.Env.qGuard.getD 4) (Gen.Env.qType.getD (0, 2)) (Gen.Env.qClass.getD (2, 4))
        (Gen.Env.qAdvance.getD 4) (Gen.Env.qClassMask.getD 0x7FFF) (Gen.Env.qUnicastMask.getD 0x8000)
        d pos := rfl

def questionField (q : Question) (bit : Nat) (s : String) : Bytes :=
  if s = "qtype" then beN 2 q.qtype.toCode
  else if s = "qclass" then beN 2 (if q.unicast then q.qclass.toCode ||| bit else q.qclass.toCode)
  else []

theorem question_write (q : Question) :
    q.writeCommon =
      ((Gen.Env.qWriteOrder.getD ["qtype", "qclass"]).map
        (questionField q (Gen.Env.qWriteUnicastBit.getD 0x8000))).flatten := by
  simp [Dns.Question.writeCommon, Gen.Env.qWriteOrder, Gen.Env.qWriteUnicastBit, questionField]

/-! ### 4. `ResourceRecord::parse`, `write_common`, `write_to`, `len` -/

def RR.parseWith (guard : Nat) (cl tt : Nat × Nat) (d : Bytes) (pos : Nat) : Out (RR × Nat) := do
  let (name, pos) ← Name.parse d pos
  if pos + guard > d.length then .err else do
    let cb ← slice d (pos + cl.1) (pos + cl.2)
    let tb ← slice d (pos + tt.1) (pos + tt.2)
    let (rdata, pos') ← RData.parse d pos
    if rdata.typeOf = .OPT then
      pure ({ name := name, cls := .IN, ttl := deN tb, rdata := rdata, flush := false }, pos')
    else do
      let cls ← CLASS.ofCode (deN cb &&& 0x7FFF)
      pure ({ name := name, cls := cls, ttl := deN tb, rdata := rdata,
              flush := (deN cb &&& 0x8000) == 0x8000 }, pos')

theorem rr_parse (d : Bytes) (pos : Nat) :
    Dns.RR.parse d pos =
      RR.parseWith (Gen.Env.rrGuard.getD 8) (Gen.Env.rrClass.getD (2, 4)) (Gen.Env.rrTtl.getD (4, 8))
        d pos := rfl

def rrCommonField (r : RR) (s : String) : Bytes :=
  if s = "type" then beN 2 r.rdata.typeOf.toCode
  else if s = "class" then
    (match r.rdata with
     | .opt o => beN 2 o.udp
     | _ => beN 2 (if r.flush then r.cls.toCode ||| 0x8000 else r.cls.toCode))
  else if s = "ttl" then beN 4 r.ttl
  else []

theorem rr_write_common (r : RR) :
    r.writeCommon =
      ((Gen.Env.rrCommonOrder.getD ["type", "class", "ttl"]).map (rrCommonField r)).flatten := by
  rcases r with ⟨n, c, t, rd, f⟩
  cases rd <;> simp [Dns.RR.writeCommon, Gen.Env.rrCommonOrder, rrCommonField]

def rrField (r : RR) (rd : Bytes) (s : String) : Bytes :=
  if s = "name" then Name.write r.name
  else if s = "common" then r.writeCommon
  else if s = "rdlen" then beN 2 r.rdata.len
  else if s = "rdata" then rd
  else []

theorem rr_write (r : RR) :
    r.write = (do
      let rd ← r.rdata.write
      pure ((Gen.Env.rrWriteOrder.getD ["name", "common", "rdlen", "rdata"]).map (rrField r rd)).flatten) := by
  simp [Dns.RR.write, Gen.Env.rrWriteOrder, rrField]

/-- the constant of `ResourceRecord::len` is the size of what `write_common` and the RDLENGTH
field occupy -/
theorem rr_fixed_len (r : RR) :
    (r.writeCommon ++ beN 2 r.rdata.len).length = Gen.Env.rrFixedLen.getD 10 := by
  simp [Dns.RR.writeCommon, Gen.Env.rrFixedLen]
  cases r.rdata <;> simp

/-- the steps of `ResourceRecord::write_compressed_to` are those of the model's
`RR.writeCompressedTo` (`Model/Writer.lean`), in its order: owner name through the suffix table, the
fixed fields, the position of RDLENGTH remembered, a two-byte placeholder, the RDATA through the
table, the end remembered, seek back to the placeholder, RDLENGTH = end − placeholder − 2, seek to
the remembered end (not to the end of the stream: the writer may hold more than has been written) -/
theorem rr_write_compressed_steps :
    Gen.Env.rrCompressedSteps.all (· == ["name", "common", "mark:len_position", "placeholder", "rdata",
      "mark:end", "seek:start(len_position)", "patch:end-len_position-2", "seek:start(end)"]) := by
  decide

/-! ### 5. `RData::parse` (the RDLENGTH framing, `rdata_enum!`) -/

def RData.parseWith (guard : Nat) (ty ln : Nat × Nat) (guard2 optEnd adv : Nat)
    (d : Bytes) (pos : Nat) : Out (RData × Nat) :=
  if pos + guard > d.length then .err else do
    let tb ← slice d (pos + ty.1) (pos + ty.2)
    let t := TYPE.ofCode (deN tb)
    let lb ← slice d (pos + ln.1) (pos + ln.2)
    let rdlen := deN lb
    if pos + guard2 + rdlen > d.length then .err else
    if t = .OPT then optParse (d.take (pos + rdlen + optEnd)) pos else
    let pos := pos + adv
    if rdlen = 0 then .ok (.empty t, pos) else do
      let rdataEnd := pos + rdlen
      let (rd, _) ← parseTyped (d.take rdataEnd) pos t
      pure (rd, rdataEnd)

theorem rdata_parse (d : Bytes) (pos : Nat) :
    Dns.RData.parse d pos =
      RData.parseWith (Gen.Env.rdGuard.getD 10) (Gen.Env.rdType.getD (0, 2)) (Gen.Env.rdLen.getD (8, 10))
        (Gen.Env.rdGuard2.getD 10) (Gen.Env.rdOptEnd.getD 10) (Gen.Env.rdAdvance.getD 10) d pos := rfl

/-- the envelope's fixed part is one layout seen from three functions: `RData::parse` reads TYPE
and RDLENGTH, `ResourceRecord::parse` CLASS and TTL, and together they tile the bytes that
`RData::parse` skips and that `ResourceRecord::len` counts -/
theorem rr_fixed_part_tiles :
    let ty := Gen.Env.rdType.getD (0, 2); let cl := Gen.Env.rrClass.getD (2, 4)
    let tt := Gen.Env.rrTtl.getD (4, 8); let ln := Gen.Env.rdLen.getD (8, 10)
    ty.1 = 0 ∧ ty.2 = cl.1 ∧ cl.2 = tt.1 ∧ tt.2 = ln.1 ∧ ln.2 = Gen.Env.rdAdvance.getD 10 ∧
      Gen.Env.rdAdvance.getD 10 = Gen.Env.rrFixedLen.getD 10 ∧
      Gen.Env.rrGuard.getD 8 ≤ Gen.Env.rdGuard.getD 10 := by decide

/-! ### 6. `Packet::parse`, `Packet::write_to`, `Packet::write_compressed_to` -/

def Packet.parseWith (start : Nat) (d : Bytes) : Out Packet := do
  let header ← Dns.Header.parse d
  let qd ← Peek.questions d
  let (questions, p) ← parseQuestions d qd start
  let an ← Peek.answers d
  let (answers, p) ← parseRRs d an p
  let ns ← Peek.nameServers d
  let (nameServers, p) ← parseRRs d ns p
  let ar ← Peek.additional d
  let (additional, _) ← parseRRs d ar p
  let (o, rest) := liftOpt additional
  let header ← header.extractOpt o
  pure { header := header, questions := questions, answers := answers,
         nameServers := nameServers, additional := rest }

theorem packet_parse (d : Bytes) :
    Dns.Packet.parse d = Packet.parseWith (Gen.Env.packetStart.getD 12) d := rfl

/-- the sections are parsed in the order questions, answers, name servers, additional records, each
with the count its own peek function reads, into the field of that name; the first entry starts
where the header ends -/
theorem packet_sections :
    Gen.Env.packetSections.all (· == [("questions", "questions"), ("answers", "answers"),
      ("name_servers", "name_servers"), ("additional_records", "additional_records")]) ∧
    Gen.Env.packetStart.getD 12 = Gen.Env.headerMinLen.getD 12 := by decide

/-- the pieces `Packet::write_to` emits, by name -/
def packetPiece (p : Packet) (s : String) : Out Bytes :=
  if s = "header" then .ok p.writeHeader
  else if s = "questions" then .ok (writeQuestions p.questions)
  else if s = "answers" then writeRRs p.answers
  else if s = "name_servers" then writeRRs p.nameServers
  else if s = "opt" then writeRRs p.header.optRR.toList
  else if s = "additional_records" then writeRRs p.additional
  else .ok []

/-- both serialisers emit the same pieces in the same order (the model's `buildG` walks one list for
both), and that order is the model's: header, questions, answers, name servers, OPT, additional -
and both end with `flush`: with a writer that defers its work (`std::io::BufWriter`) the message
reaches the underlying writer, or the error the caller, only then (`Props/C04Flush.lean`:
`buffered_transparent` holds with the final flush, `no_flush_loses_message` / `no_flush_hides_error`
without it) -/
theorem packet_write_order :
    Gen.Env.packetWriteOrder.all
      (· == ["header", "questions", "answers", "name_servers", "opt", "additional_records", "flush"]) ∧
    Gen.Env.packetWriteCompressedOrder.all
      (· == ["header", "questions", "answers", "name_servers", "opt", "additional_records", "flush"]) := by
  decide

/-! ### 7. `match_qtype`, `match_qclass` -/

def qtypeName : QTYPE → String
  | .TYPE _ => "TYPE" | .IXFR => "IXFR" | .AXFR => "AXFR" | .MAILB => "MAILB" | .MAILA => "MAILA"
  | .ANY => "ANY"

def matchQTypeWith (tbl : List (String × List String)) (t : TYPE) (q : QTYPE) : Bool :=
  match q with
  | .TYPE ty => ty == t
  | q =>
    match tbl.lookup (qtypeName q) with
    | some ["true"] => true
    | some ["false"] => false
    | some names => names.contains t.mnemonic && !t.isUnknown
    | none => false

def modelMatchTable : List (String × List String) :=
  [("ANY", ["true"]), ("AXFR", ["true"]), ("IXFR", ["false"]), ("MAILA", ["MX"]),
   ("MAILB", ["MB", "MG", "MR"]), ("TYPE", ["eq"])]

theorem match_qtype (t : TYPE) (q : QTYPE) :
    matchQType t q = matchQTypeWith (Gen.Env.matchQType.getD modelMatchTable) t q := by
  cases q <;> cases t <;> rfl

theorem match_qclass :
    Gen.Env.matchQClass.all (· == [("ANY", "true"), ("CLASS", "eq")]) := by decide

/-! ### 10. `into_owned`, field by field

The model's `intoOwned` functions rebuild a value from its parts (`Model/Owned.lean`) and
`Props/C16.lean` proves them to be the identity on values. That says something about the Rust code
only if each hand-written `into_owned` body really copies every field from the field of the same
name — through `self.f`, `self.f.into_owned()`, `Cow::Owned(self.f.into_owned())`,
`self.f.into_owned().into()` or a `map(..).collect()` over `self.f`. The translator reads every such
body (34 structs) and reports, per field, the one field of `self` its initialiser mentions, or `"?"`
when it mentions none or several (a constant such as `cache_flush: false`, a default, a
recomputation). A body that leaves a declared field out, or is not a struct literal, is untied. -/

/-- **every field of every struct is carried over by `into_owned` from the field of the same name** -/
theorem into_owned_fieldwise : ∀ e ∈ Gen.Env.intoOwned, ∀ p ∈ e.2, p.1 = p.2 := by decide

/-- the record and the question are among the structs read (unless untied) -/
theorem into_owned_envelope :
    ("own:ResourceRecord" ∈ Gen.Env.untied ∨
      (Gen.Env.intoOwned.lookup "ResourceRecord").map (·.map (·.1)) =
        some ["cache_flush", "class", "name", "rdata", "ttl"]) ∧
    ("own:Question" ∈ Gen.Env.untied ∨
      (Gen.Env.intoOwned.lookup "Question").map (·.map (·.1)) =
        some ["qclass", "qname", "qtype", "unicast_response"]) := by decide

/-! ### 13. the response code across the header and the OPT TTL (`rdata/opt.rs`) -/

def extractRcodeWith (mask shift : Nat) (ttl : Nat) (h : Header) : RCODE :=
  RCODE.ofCode ((((ttl &&& mask) <<< shift) ||| h.rcode.toCode) % 65536)

def encodeTtlWith (mask shift vshift : Nat) (o : OptData) (h : Header) : Nat :=
  ((h.rcode.toCode &&& mask) >>> shift) ||| (o.version <<< vshift)

/-- the masks are named, the shifts are numbers, in the source as in the model -/
theorem opt_ttl_source :
    Gen.Env.optTtlShape.all (· == ["RCODE_MASK", "4", "RCODE_MASK", "4", "VERSION_MASK"]) := by decide

/-- `OPT::extract_rcode_from_ttl` and `OPT::encode_ttl` are the generic functions at the shifts read
from the source (the two masks are tied as numbers by `Props/Tie.lean: optRcodeMask, optVersionMask`;
`VERSION_MASK.trailing_zeros()` is 8 for 0xFF00) -/
theorem opt_ttl_functions (ttl : Nat) (o : OptData) (h : Header) :
    extractRcode ttl h = extractRcodeWith 0xFF ((Gen.Env.optTtlShifts.getD (4, 4)).1) ttl h ∧
    encodeTtl o h = encodeTtlWith 0xFF ((Gen.Env.optTtlShifts.getD (4, 4)).2) 8 o h := ⟨rfl, rfl⟩

/-- a shift of 0 in `extract_rcode_from_ttl` would put the extended bits over the header's: extended
octet 1 with header nibble 0 (BADVERS) would read as FormatError -/
example : extractRcodeWith 0xFF 0 1 { id := 0, opcode := .StandardQuery, rcode := .NoError, flags := 0, opt := none } = .FormatError ∧
    extractRcodeWith 0xFF 4 1 { id := 0, opcode := .StandardQuery, rcode := .NoError, flags := 0, opt := none } = .BADVERS := by decide

/-! ### 15. `MessageWriter` -/

/-- `MessageWriter`, the wrapper `write_compressed_to` writes through: `write` and `flush` are
forwarded to the caller's writer (so the final `flush` of `packet_write_order` reaches it) and
positions are relative to where the message starts (`seek(Start(o))` goes to `start + o`, answers
have `start` subtracted) - what `Model/Writer.lean` assumes when it hands `pos - start` to the name
compressor (`writers_agree_compressed`). This theorem reads the source only; the model has no
separate `MessageWriter` to instantiate. -/
theorem message_writer_source :
    Gen.Env.messageWriter.all (· == ["forward", "forward", "start-plus-offset/minus-start"]) := by decide

/-! ### 16. the arms of `RData::type_code` and `RData::into_owned` (macro `rdata_enum!`) -/

/-- what a variant reports as its type, by the shape of its arm -/
def typeOfWith (arms : List String) : RData → TYPE
  | .flat code _ => TYPE.ofCode code
  | .ipseckey .. => .IPSECKEY
  | .opt _ => .OPT
  | .null code _ => if arms.getD 1 "" = "from-carried-code" then TYPE.ofCode code else .NULL
  | .empty t => if arms.getD 2 "" = "carried-type" then t else .NULL

/-- the owned copy of a variant, by the shape of its arm (`NULL::TYPE_CODE` is 10) -/
def intoOwnedWith (arms : List String) : RData → RData
  | .null c d => if arms.getD 1 "" = "same-code-owned-data" then .null c (d.map id) else .null 10 (d.map id)
  | .empty t => if arms.getD 2 "" = "same-type" then .empty t else .empty .NULL
  | rd => rd.intoOwned

/-- **`RData::type_code` reports the carried code of `NULL(code, _)` and the carried type of
`Empty(type)`, and `RData::into_owned` keeps both** - the model's `typeOf` and `intoOwned` are the
generic functions at the arm shapes read from the macro (an arm that rebuilds `NULL` with the
constant type code, or reports `TYPE::NULL` for every opaque record, fails this theorem or unties
the item) -/
theorem rdata_enum_arms (rd : RData) :
    rd.typeOf = typeOfWith (Gen.Env.rdataTypeCodeArms.getD ["variant-constant", "from-carried-code", "carried-type"]) rd ∧
    rd.intoOwned = intoOwnedWith (Gen.Env.rdataIntoOwnedArms.getD ["same-variant-owned", "same-code-owned-data", "same-type"]) rd := by
  have h1 : Gen.Env.rdataTypeCodeArms.getD ["variant-constant", "from-carried-code", "carried-type"] =
      ["variant-constant", "from-carried-code", "carried-type"] := by decide
  have h2 : Gen.Env.rdataIntoOwnedArms.getD ["same-variant-owned", "same-code-owned-data", "same-type"] =
      ["same-variant-owned", "same-code-owned-data", "same-type"] := by decide
  rw [h1, h2]
  cases rd <;> simp [RData.typeOf, typeOfWith, RData.intoOwned, intoOwnedWith]

/-! ### 17. the codes questions are written with (`From<QTYPE> for u16`, `From<QCLASS> for u16`) -/

/-- the code of a question type, by the arms read from the source: the arm named after the variant
gives the number, `none` stands for the conversion of the wrapped `TYPE` -/
def qtypeCodeWith (arms : List (String × Option Nat)) (t : QTYPE) : Option Nat :=
  let name := match t with
    | .TYPE _ => "TYPE" | .IXFR => "IXFR" | .AXFR => "AXFR" | .MAILB => "MAILB" | .MAILA => "MAILA" | .ANY => "ANY"
  match arms.lookup name, t with
  | some (some n), _ => some n
  | some none, .TYPE ty => some ty.toCode
  | _, _ => none

def qclassCodeWith (arms : List (String × Option Nat)) (c : QCLASS) : Option Nat :=
  let name := match c with
    | .CLASS _ => "CLASS" | .ANY => "ANY"
  match arms.lookup name, c with
  | some (some n), _ => some n
  | some none, .CLASS k => some k.toCode
  | _, _ => none

def modelQtypeArms : List (String × Option Nat) :=
  [("TYPE", none), ("IXFR", some 251), ("AXFR", some 252), ("MAILB", some 253), ("MAILA", some 254), ("ANY", some 255)]
def modelQclassArms : List (String × Option Nat) := [("CLASS", none), ("ANY", some 255)]

/-- **every question type and class is written with the code the model writes** - the model's
`QTYPE.toCode` / `QCLASS.toCode` are the arms of the two `From` impls as the source has them (an arm
pointing a special type at another code - `MAILA => TYPE::MX.into()` - fails this theorem or unties
the item), and the codes read back by `TryFrom<u16>` to the same variants -/
theorem question_codes_out (t : QTYPE) (c : QCLASS) :
    qtypeCodeWith (Gen.Env.qtypeToCode.getD modelQtypeArms) t = some t.toCode ∧
    qclassCodeWith (Gen.Env.qclassToCode.getD modelQclassArms) c = some c.toCode := by
  -- (arm by arm, through `lookup`: the order in which the source lists its arms does not matter)
  have q0 : (Gen.Env.qtypeToCode.getD modelQtypeArms).lookup "TYPE" = some none := by decide
  have q1 : (Gen.Env.qtypeToCode.getD modelQtypeArms).lookup "IXFR" = some (some 251) := by decide
  have q2 : (Gen.Env.qtypeToCode.getD modelQtypeArms).lookup "AXFR" = some (some 252) := by decide
  have q3 : (Gen.Env.qtypeToCode.getD modelQtypeArms).lookup "MAILB" = some (some 253) := by decide
  have q4 : (Gen.Env.qtypeToCode.getD modelQtypeArms).lookup "MAILA" = some (some 254) := by decide
  have q5 : (Gen.Env.qtypeToCode.getD modelQtypeArms).lookup "ANY" = some (some 255) := by decide
  have c0 : (Gen.Env.qclassToCode.getD modelQclassArms).lookup "CLASS" = some none := by decide
  have c1 : (Gen.Env.qclassToCode.getD modelQclassArms).lookup "ANY" = some (some 255) := by decide
  constructor
  · cases t <;> simp [qtypeCodeWith, q0, q1, q2, q3, q4, q5, QTYPE.toCode]
  · cases c <;> simp [qclassCodeWith, c0, c1, QCLASS.toCode]

/-- the special question types and the wildcard class come back from their own codes -/
theorem question_codes_round :
    QTYPE.ofCode QTYPE.IXFR.toCode = .ok .IXFR ∧ QTYPE.ofCode QTYPE.AXFR.toCode = .ok .AXFR ∧
    QTYPE.ofCode QTYPE.MAILB.toCode = .ok .MAILB ∧ QTYPE.ofCode QTYPE.MAILA.toCode = .ok .MAILA ∧
    QTYPE.ofCode QTYPE.ANY.toCode = .ok .ANY ∧ QCLASS.ofCode QCLASS.ANY.toCode = .ok .ANY := by
  decide

/-! ### 25. the codec of a character-string (`character_string.rs`) -/

def cmpNamed (op : String) (a b : Nat) : Bool :=
  if op = ">" then a > b else if op = ">=" then a ≥ b else if op = "<" then a < b else a ≤ b

/-- `CharacterString::parse` with its comparisons and offsets as parameters -/
def CharStr.parseWith (ops : List String) (nums : List Nat) (d : Bytes) (pos : Nat) : Out (Bytes × Nat) :=
  if cmpNamed (ops.getD 0 "") pos d.length then .err else
  match idx d pos with
  | .ok lb =>
    if cmpNamed (ops.getD 1 "") lb.toNat 255 ∨ cmpNamed (ops.getD 2 "") (lb.toNat + pos + nums.getD 0 0) d.length then .err else
    match slice d (pos + nums.getD 1 0) (pos + nums.getD 2 0 + lb.toNat) with
    | .ok s => .ok (s, pos + lb.toNat + nums.getD 3 0)
    | .err => .err
    | .panic => .panic
  | .err => .err
  | .panic => .panic

/-- **a character-string is read and written as the model reads and writes it**: a length octet
(at most 255, and the string must end within the data: `length + position + 1 > data.len()` is the
error), then that many octets from the next position on, the cursor after them; written as the length
octet and the octets; `len()` one more than the data; built from at most 255 octets (`>=` for `>`
in either length test, `+ 2`, a slice from `position`: other values, and this fails) -/
theorem charstr_codec_source (d : Bytes) (pos : Nat) (b : Bytes) :
    CharStr.parse d pos = CharStr.parseWith (Gen.Env.charStrOps.getD [">=", ">", ">", ">"]) (Gen.Env.charStrNums.getD [1, 1, 1, 1, 1]) d pos ∧
    CharStr.new b = (if cmpNamed ((Gen.Env.charStrOps.getD [">=", ">", ">", ">"]).getD 3 "") b.length 255 then .err else .ok b) ∧
    (CharStr.write b).length = b.length + (Gen.Env.charStrNums.getD [1, 1, 1, 1, 1]).getD 4 0 := by
  have h1 : Gen.Env.charStrOps.getD [">=", ">", ">", ">"] = [">=", ">", ">", ">"] := by decide
  have h2 : Gen.Env.charStrNums.getD [1, 1, 1, 1, 1] = [1, 1, 1, 1, 1] := by decide
  rw [h1, h2]
  refine ⟨?_, ?_, ?_⟩
  · simp only [CharStr.parse, CharStr.parseWith, cmpNamed, List.getD_cons_zero, List.getD_cons_succ]
    by_cases h0 : pos ≥ d.length
    · simp [h0]
    · simp only [h0]
      cases hi : idx d pos with
      | ok lb =>
        simp only [bind, Out.bind, pure]
        by_cases hb : lb.toNat > 255 ∨ lb.toNat + pos + 1 > d.length
        · simp [hb]
        · simp only [hb]
          have hb' : lb.toNat ≤ 255 ∧ lb.toNat + pos + 1 ≤ List.length d := by omega
          cases slice d (pos + 1) (pos + 1 + lb.toNat) <;> simp [bind, Out.bind, pure, hb']
      | err => simp [bind, Out.bind]
      | panic => simp [bind, Out.bind]
  · simp [CharStr.new, cmpNamed]
  · simp [CharStr.write]

/-! ### 26. the buffer-returning entry points and `parse_section` (`packet.rs`) -/

/-- `build_bytes_vec` and `build_bytes_vec_compressed` hand a fresh, empty buffer to `write_to` /
`write_compressed_to` and return what was written into it (what `Packet.build` / `buildCompressed` are in
the model: the writer's output from offset 0, nothing of an earlier call in it); `parse_section` parses
the announced number of entries one after the other, keeps them in order and gives up at the first
error (`parseSection` of the model). This theorem reads the source only: these bodies have one recognised
shape each - a buffer kept between calls, a section parsed until the data runs out - or the item is
untied -/
theorem packet_entry_points_source :
    Gen.Env.packetEntryPoints.all (fun l =>
      (l.getD 0 "" = "fresh-cursor:write_to" ∨ l.getD 0 "" = "fresh-vec:write_to") ∧
      l.getD 1 "" = "fresh-cursor:write_compressed_to" ∧ l.getD 2 "" = "count-times-in-order") = true := by decide

end Dns.TieEnv
