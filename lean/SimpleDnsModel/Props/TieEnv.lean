/-
Structural tie, second part: the message envelope.

`Generated/Envelope.lean` is regenerated from the current sources by `tools/translate_env.py`: the byte
ranges, guards, advances and masks of the header-peek functions, of `Header::parse`, `Question::parse`,
`ResourceRecord::parse` and `RData::parse`; the order of the writes of `Header::write_to`,
`Question::write_common`, `ResourceRecord::write_common` / `write_to`, `Packet::write_to` /
`write_compressed_to`; the first offset and the section order of `Packet::parse`; the arms of
`match_qtype` / `match_qclass`; the arithmetic of `ExpirationInfo::new`.

Each theorem below says that a function of the hand-written model IS the generic function (`…With`)
instantiated with the generated numbers, for every input.  A source whose statements are still
readable but carry other numbers (a read moved by a byte, a guard of 9 instead of 10, two writes
exchanged, MAILB over other types, `ttl / 10 * 9`) regenerates other values and the theorem no longer
checks.  A function whose statements are not all of a recognised shape unties that item: its values
are `none`, the theorems fall back to the model's own numbers (`getD`) and hold trivially, and the
item is listed in `Gen.Env.untied` (reported as a NOTE, tied by the correspondence check only).
-/
import SimpleDnsModel.Generated.Envelope
import SimpleDnsModel.Model.Match
import SimpleDnsModel.Model.Pipeline
import SimpleDnsModel.Model.Owned
namespace Dns.TieEnv
open Dns

/-! ### 1. header peeks (`header_buffer.rs`) -/

/-- `buffer.get(a..b)…map(u16::from_be_bytes)` -/
def peekWith (r : Nat × Nat) (d : Bytes) : Out Nat :=
  match sliceOpt d r.1 r.2 with
  | none => .err
  | some s => .ok (deN s)

def rangeOf (o : Option (Nat × Nat × String)) (dflt : Nat × Nat) : Nat × Nat :=
  (o.map (fun e => (e.1, e.2.1))).getD dflt

theorem peek_id (d : Bytes) : Peek.id d = peekWith (rangeOf Gen.Env.peek_id (0, 2)) d := rfl
theorem peek_questions (d : Bytes) :
    Peek.questions d = peekWith (rangeOf Gen.Env.peek_questions (4, 6)) d := rfl
theorem peek_answers (d : Bytes) :
    Peek.answers d = peekWith (rangeOf Gen.Env.peek_answers (6, 8)) d := rfl
theorem peek_nameServers (d : Bytes) :
    Peek.nameServers d = peekWith (rangeOf Gen.Env.peek_nameServers (8, 10)) d := rfl
theorem peek_additional (d : Bytes) :
    Peek.additional d = peekWith (rangeOf Gen.Env.peek_additionalRecords (10, 12)) d := rfl

theorem peek_hasFlags (d : Bytes) (f : Nat) :
    Peek.hasFlags d f =
      (do let w ← peekWith (rangeOf Gen.Env.peek_hasFlags (2, 4)) d
          pure (flagsTruncate w &&& f == f)) := rfl
theorem peek_rcode (d : Bytes) :
    Peek.rcode d =
      (do let w ← peekWith (rangeOf Gen.Env.peek_rcode (2, 4)) d
          pure (RCODE.ofCode (w &&& Mask.RCODE))) := rfl
theorem peek_opcode (d : Bytes) :
    Peek.opcode d =
      (do let w ← peekWith (rangeOf Gen.Env.peek_opcode (2, 4)) d
          pure (OPCODE.ofCode ((w &&& Mask.OPCODE) >>> 11))) := rfl

/-- what each peek does with the word it read is what the model does: the plain value, the
truncated flag set tested with `contains`, the word masked with RESPONSE_CODE_MASK, the word
masked with OPCODE_MASK and shifted by its trailing zeros -/
theorem peek_kinds :
    (Gen.Env.peek_id.all (·.2.2 == "u16") ∧ Gen.Env.peek_questions.all (·.2.2 == "u16") ∧
     Gen.Env.peek_answers.all (·.2.2 == "u16") ∧ Gen.Env.peek_nameServers.all (·.2.2 == "u16") ∧
     Gen.Env.peek_additionalRecords.all (·.2.2 == "u16")) ∧
    Gen.Env.peek_hasFlags.all (·.2.2 == "truncContains") ∧
    Gen.Env.peek_rcode.all (·.2.2 == "mask:RESPONSE_CODE_MASK") ∧
    Gen.Env.peek_opcode.all (·.2.2 == "maskShift:OPCODE_MASK") := by decide

/-- the shift of the opcode field is the number of trailing zeros of the mask the model uses -/
theorem opcode_shift : Mask.OPCODE >>> 11 <<< 11 = Mask.OPCODE ∧ Mask.OPCODE >>> 11 % 2 = 1 := by decide

/-! ### 2. `Header::parse`, `Header::write_to` -/

def Header.parseWith (minLen : Nat) (fl idr : Nat × Nat) (d : Bytes) : Out Header :=
  if d.length < minLen then .err else do
    let fb ← slice d fl.1 fl.2
    let flags := deN fb
    if flags &&& Mask.RESERVED ≠ 0 then .err else do
      let ib ← slice d idr.1 idr.2
      pure { id := deN ib
             opcode := OPCODE.ofCode ((flags &&& Mask.OPCODE) >>> 11)
             rcode := RCODE.ofCode (flags &&& Mask.RCODE)
             flags := flagsTruncate flags
             opt := none }

theorem header_parse (d : Bytes) :
    Dns.Header.parse d =
      Header.parseWith (Gen.Env.headerMinLen.getD 12) (Gen.Env.headerFlags.getD (2, 4))
        (Gen.Env.headerId.getD (0, 2)) d := rfl

/-- one 16-bit write of `Header::write_to` -/
def headerField (h : Dns.Header) (qd an ns ar : Nat) (s : String) : Bytes :=
  if s = "id" then beN 2 h.id
  else if s = "flags" then beN 2 h.getFlags
  else if s = "questions" then beN 2 qd
  else if s = "answers" then beN 2 an
  else if s = "name_servers" then beN 2 ns
  else if s = "additional_records" then beN 2 ar
  else []

def modelHeaderOrder : List String :=
  ["id", "flags", "questions", "answers", "name_servers", "additional_records"]

theorem header_write (h : Dns.Header) (qd an ns ar : Nat) :
    h.write qd an ns ar =
      ((Gen.Env.headerWriteOrder.getD modelHeaderOrder).map (headerField h qd an ns ar)).flatten := by
  simp [Dns.Header.write, Gen.Env.headerWriteOrder, headerField]

/-- `Packet::write_header` passes the four section lengths in the order of `write_to`'s
parameters (two sites that must agree) -/
theorem header_counts_line_up :
    (Gen.Env.packetHeaderCounts.getD []).zip (Gen.Env.headerWriteParams.getD []) |>.all
      (fun e => e.1 == e.2) := by decide
theorem header_counts_are_the_sections :
    Gen.Env.packetHeaderCounts.all
      (· == ["questions", "answers", "name_servers", "additional_records"]) := by decide

theorem header_get_flags_shape : Gen.Env.headerGetFlagsShape.all (· == true) := by decide
/-- `set_flags` is `|=`, `remove_flags` is bitflags' `remove` (and-not), `has_flags` is `contains` -/
theorem header_flag_ops :
    Gen.Env.headerFlagOps.all (fun l => (l[0]? == some "or" || l[0]? == some "insert") &&
      (l[1]? == some "remove" || l[1]? == some "andnot") && l[2]? == some "contains") := by decide

/-! ### 3. `Question::parse`, `Question::write_common` -/

def Question.parseWith (guard : Nat) (ty cl : Nat × Nat) (adv clsMask uniMask : Nat)
    (d : Bytes) (pos : Nat) : Out (Question × Nat) := do
  let (name, pos) ← Name.parse d pos
  if pos + guard > d.length then .err else do
    let tb ← slice d (pos + ty.1) (pos + ty.2)
    let cb ← slice d (pos + cl.1) (pos + cl.2)
    let qtype ← QTYPE.ofCode (deN tb)
    let qclass ← QCLASS.ofCode (deN cb &&& clsMask)
    pure ({ name := name, qtype := qtype, qclass := qclass,
            unicast := (deN cb &&& uniMask) == uniMask }, pos + adv)

theorem question_parse (d : Bytes) (pos : Nat) :
    Dns.Question.parse d pos =
      Question.parseWith (Gen.Env.qGuard.getD 4) (Gen.Env.qType.getD (0, 2)) (Gen.Env.qClass.getD (2, 4))
        (Gen.Env.qAdvance.getD 4) (Gen.Env.qClassMask.getD 0x7FFF) (Gen.Env.qUnicastMask.getD 0x8000)
        d pos := rfl

def questionField (q : Question) (bit : Nat) (s : String) : Bytes :=
  if s = "qtype" then beN 2 q.qtype.toCode
  else if s = "qclass" then beN 2 (if q.unicast then q.qclass.toCode ||| bit else q.qclass.toCode)
  else []

theorem question_write (q : Question) :
    q.writeCommon =
      ((Gen.Env.qWriteOrder.getD ["qtype", "qclass"]).map
        (questionField q (Gen.Env.qWriteUnicastBit.getD 0x8000))).flatten := by
  simp [Dns.Question.writeCommon, Gen.Env.qWriteOrder, Gen.Env.qWriteUnicastBit, questionField]

/-! ### 4. `ResourceRecord::parse`, `write_common`, `write_to`, `len` -/

def RR.parseWith (guard : Nat) (cl tt : Nat × Nat) (d : Bytes) (pos : Nat) : Out (RR × Nat) := do
  let (name, pos) ← Name.parse d pos
  if pos + guard > d.length then .err else do
    let cb ← slice d (pos + cl.1) (pos + cl.2)
    let tb ← slice d (pos + tt.1) (pos + tt.2)
    let (rdata, pos') ← RData.parse d pos
    if rdata.typeOf = .OPT then
      pure ({ name := name, cls := .IN, ttl := deN tb, rdata := rdata, flush := false }, pos')
    else do
      let cls ← CLASS.ofCode (deN cb &&& 0x7FFF)
      pure ({ name := name, cls := cls, ttl := deN tb, rdata := rdata,
              flush := (deN cb &&& 0x8000) == 0x8000 }, pos')

theorem rr_parse (d : Bytes) (pos : Nat) :
    Dns.RR.parse d pos =
      RR.parseWith (Gen.Env.rrGuard.getD 8) (Gen.Env.rrClass.getD (2, 4)) (Gen.Env.rrTtl.getD (4, 8))
        d pos := rfl

def rrCommonField (r : RR) (s : String) : Bytes :=
  if s = "type" then beN 2 r.rdata.typeOf.toCode
  else if s = "class" then
    (match r.rdata with
     | .opt o => beN 2 o.udp
     | _ => beN 2 (if r.flush then r.cls.toCode ||| 0x8000 else r.cls.toCode))
  else if s = "ttl" then beN 4 r.ttl
  else []

theorem rr_write_common (r : RR) :
    r.writeCommon =
      ((Gen.Env.rrCommonOrder.getD ["type", "class", "ttl"]).map (rrCommonField r)).flatten := by
  rcases r with ⟨n, c, t, rd, f⟩
  cases rd <;> simp [Dns.RR.writeCommon, Gen.Env.rrCommonOrder, rrCommonField]

def rrField (r : RR) (rd : Bytes) (s : String) : Bytes :=
  if s = "name" then Name.write r.name
  else if s = "common" then r.writeCommon
  else if s = "rdlen" then beN 2 r.rdata.len
  else if s = "rdata" then rd
  else []

theorem rr_write (r : RR) :
    r.write = (do
      let rd ← r.rdata.write
      pure ((Gen.Env.rrWriteOrder.getD ["name", "common", "rdlen", "rdata"]).map (rrField r rd)).flatten) := by
  simp [Dns.RR.write, Gen.Env.rrWriteOrder, rrField]

/-- the constant of `ResourceRecord::len` is the size of what `write_common` and the RDLENGTH
field occupy -/
theorem rr_fixed_len (r : RR) :
    (r.writeCommon ++ beN 2 r.rdata.len).length = Gen.Env.rrFixedLen.getD 10 := by
  simp [Dns.RR.writeCommon, Gen.Env.rrFixedLen]
  cases r.rdata <;> simp

/-- the steps of `ResourceRecord::write_compressed_to` are those of the model's
`RR.writeCompressedTo` (`Model/Writer.lean`), in its order: owner name through the suffix table, the
fixed fields, the position of RDLENGTH remembered, a two-byte placeholder, the RDATA through the
table, the end remembered, seek back to the placeholder, RDLENGTH = end − placeholder − 2, seek to
the remembered end (not to the end of the stream: the writer may hold more than has been written) -/
theorem rr_write_compressed_steps :
    Gen.Env.rrCompressedSteps.all (· == ["name", "common", "mark:len_position", "placeholder", "rdata",
      "mark:end", "seek:start(len_position)", "patch:end-len_position-2", "seek:start(end)"]) := by
  decide

/-! ### 5. `RData::parse` (the RDLENGTH framing, `rdata_enum!`) -/

def RData.parseWith (guard : Nat) (ty ln : Nat × Nat) (guard2 optEnd adv : Nat)
    (d : Bytes) (pos : Nat) : Out (RData × Nat) :=
  if pos + guard > d.length then .err else do
    let tb ← slice d (pos + ty.1) (pos + ty.2)
    let t := TYPE.ofCode (deN tb)
    let lb ← slice d (pos + ln.1) (pos + ln.2)
    let rdlen := deN lb
    if pos + guard2 + rdlen > d.length then .err else
    if t = .OPT then optParse (d.take (pos + rdlen + optEnd)) pos else
    let pos := pos + adv
    if rdlen = 0 then .ok (.empty t, pos) else do
      let rdataEnd := pos + rdlen
      let (rd, _) ← parseTyped (d.take rdataEnd) pos t
      pure (rd, rdataEnd)

theorem rdata_parse (d : Bytes) (pos : Nat) :
    Dns.RData.parse d pos =
      RData.parseWith (Gen.Env.rdGuard.getD 10) (Gen.Env.rdType.getD (0, 2)) (Gen.Env.rdLen.getD (8, 10))
        (Gen.Env.rdGuard2.getD 10) (Gen.Env.rdOptEnd.getD 10) (Gen.Env.rdAdvance.getD 10) d pos := rfl

/-- the envelope's fixed part is one layout seen from three functions: `RData::parse` reads TYPE
and RDLENGTH, `ResourceRecord::parse` CLASS and TTL, and together they tile the bytes that
`RData::parse` skips and that `ResourceRecord::len` counts -/
theorem rr_fixed_part_tiles :
    let ty := Gen.Env.rdType.getD (0, 2); let cl := Gen.Env.rrClass.getD (2, 4)
    let tt := Gen.Env.rrTtl.getD (4, 8); let ln := Gen.Env.rdLen.getD (8, 10)
    ty.1 = 0 ∧ ty.2 = cl.1 ∧ cl.2 = tt.1 ∧ tt.2 = ln.1 ∧ ln.2 = Gen.Env.rdAdvance.getD 10 ∧
      Gen.Env.rdAdvance.getD 10 = Gen.Env.rrFixedLen.getD 10 ∧
      Gen.Env.rrGuard.getD 8 ≤ Gen.Env.rdGuard.getD 10 := by decide

/-! ### 6. `Packet::parse`, `Packet::write_to`, `Packet::write_compressed_to` -/

def Packet.parseWith (start : Nat) (d : Bytes) : Out Packet := do
  let header ← Dns.Header.parse d
  let qd ← Peek.questions d
  let (questions, p) ← parseQuestions d qd start
  let an ← Peek.answers d
  let (answers, p) ← parseRRs d an p
  let ns ← Peek.nameServers d
  let (nameServers, p) ← parseRRs d ns p
  let ar ← Peek.additional d
  let (additional, _) ← parseRRs d ar p
  let (o, rest) := liftOpt additional
  let header ← header.extractOpt o
  pure { header := header, questions := questions, answers := answers,
         nameServers := nameServers, additional := rest }

theorem packet_parse (d : Bytes) :
    Dns.Packet.parse d = Packet.parseWith (Gen.Env.packetStart.getD 12) d := rfl

/-- the sections are parsed in the order questions, answers, name servers, additional records, each
with the count its own peek function reads, into the field of that name; the first entry starts
where the header ends -/
theorem packet_sections :
    Gen.Env.packetSections.all (· == [("questions", "questions"), ("answers", "answers"),
      ("name_servers", "name_servers"), ("additional_records", "additional_records")]) ∧
    Gen.Env.packetStart.getD 12 = Gen.Env.headerMinLen.getD 12 := by decide

/-- the pieces `Packet::write_to` emits, by name -/
def packetPiece (p : Packet) (s : String) : Out Bytes :=
  if s = "header" then .ok p.writeHeader
  else if s = "questions" then .ok (writeQuestions p.questions)
  else if s = "answers" then writeRRs p.answers
  else if s = "name_servers" then writeRRs p.nameServers
  else if s = "opt" then writeRRs p.header.optRR.toList
  else if s = "additional_records" then writeRRs p.additional
  else .ok []

/-- both serialisers emit the same pieces in the same order (the model's `buildG` walks one list for
both), and that order is the model's: header, questions, answers, name servers, OPT, additional -
and both end with `flush`: with a writer that defers its work (`std::io::BufWriter`) the message
reaches the underlying writer, or the error the caller, only then (`Props/C04Flush.lean`:
`buffered_transparent` holds with the final flush, `no_flush_loses_message` / `no_flush_hides_error`
without it) -/
theorem packet_write_order :
    Gen.Env.packetWriteOrder.all
      (· == ["header", "questions", "answers", "name_servers", "opt", "additional_records", "flush"]) ∧
    Gen.Env.packetWriteCompressedOrder.all
      (· == ["header", "questions", "answers", "name_servers", "opt", "additional_records", "flush"]) := by
  decide

/-! ### 7. `match_qtype`, `match_qclass` -/

def qtypeName : QTYPE → String
  | .TYPE _ => "TYPE" | .IXFR => "IXFR" | .AXFR => "AXFR" | .MAILB => "MAILB" | .MAILA => "MAILA"
  | .ANY => "ANY"

def matchQTypeWith (tbl : List (String × List String)) (t : TYPE) (q : QTYPE) : Bool :=
  match q with
  | .TYPE ty => ty == t
  | q =>
    match tbl.lookup (qtypeName q) with
    | some ["true"] => true
    | some ["false"] => false
    | some names => names.contains t.mnemonic && !t.isUnknown
    | none => false

def modelMatchTable : List (String × List String) :=
  [("ANY", ["true"]), ("AXFR", ["true"]), ("IXFR", ["false"]), ("MAILA", ["MX"]),
   ("MAILB", ["MB", "MG", "MR"]), ("TYPE", ["eq"])]

theorem match_qtype (t : TYPE) (q : QTYPE) :
    matchQType t q = matchQTypeWith (Gen.Env.matchQType.getD modelMatchTable) t q := by
  cases q <;> cases t <;> rfl

theorem match_qclass :
    Gen.Env.matchQClass.all (· == [("ANY", "true"), ("CLASS", "eq")]) := by decide

/-! ### 8. `ExpirationInfo::new` (simple-mdns) -/

def refreshWith (shortBelow shortDiv longDiv longMul ttl : Nat) : Nat :=
  if ttl = 0 then 0 else if ttl < shortBelow then ttl / shortDiv else ttl / longDiv * longMul

theorem refresh_offset (ttl : Nat) :
    Mdns.refreshOffsetSecs ttl =
      refreshWith (Gen.Env.expShortBelow.getD 60) (Gen.Env.expShortDiv.getD 2)
        (Gen.Env.expLongDiv.getD 10) (Gen.Env.expLongMul.getD 8) ttl := rfl

/-! ### 9. the responder loops and a failed `send_to` (simple-mdns) -/

def policyOf (s : String) : Mdns.OnSendError := if s = "propagate" then .propagate else .log

/-- both flavours of `SimpleMdnsResponder::responder_loop` log a failed send and go on — the policy
`Props/C14.lean` proves harmless (`responder_loop_survives`); with `?` instead, one datagram ends
the service (`responder_loop_propagate_ends`) -/
theorem responder_send_policy :
    policyOf (Gen.Env.responderSendSync.getD "log") = Mdns.responderSendPolicy ∧
    policyOf (Gen.Env.responderSendTokio.getD "log") = Mdns.responderSendPolicy := by decide

/-! ### 10. `into_owned`, field by field

The model's `intoOwned` functions rebuild a value from its parts (`Model/Owned.lean`) and
`Props/C16.lean` proves them to be the identity on values. That says something about the Rust code
only if each hand-written `into_owned` body really copies every field from the field of the same
name — through `self.f`, `self.f.into_owned()`, `Cow::Owned(self.f.into_owned())`,
`self.f.into_owned().into()` or a `map(..).collect()` over `self.f`. The translator reads every such
body (34 structs) and reports, per field, the one field of `self` its initialiser mentions, or `"?"`
when it mentions none or several (a constant such as `cache_flush: false`, a default, a
recomputation). A body that leaves a declared field out, or is not a struct literal, is untied. -/

/-- **every field of every struct is carried over by `into_owned` from the field of the same name** -/
theorem into_owned_fieldwise : ∀ e ∈ Gen.Env.intoOwned, ∀ p ∈ e.2, p.1 = p.2 := by decide

/-- the record and the question are among the structs read (unless untied) -/
theorem into_owned_envelope :
    ("own:ResourceRecord" ∈ Gen.Env.untied ∨
      (Gen.Env.intoOwned.lookup "ResourceRecord").map (·.map (·.1)) =
        some ["cache_flush", "class", "name", "rdata", "ttl"]) ∧
    ("own:Question" ∈ Gen.Env.untied ∨
      (Gen.Env.intoOwned.lookup "Question").map (·.map (·.1)) =
        some ["qclass", "qname", "qtype", "unicast_response"]) := by decide

/-! ### 11. the discovery listeners and a failed reply (simple-mdns)

The responders are not the only services that answer queries: a `ServiceDiscovery` answers for its
own instance. The sync listener sends through `send_packet`, which logs a failed `send_to`; the tokio
listener runs `process_packet` and logs its error. Either way the loop goes on
(`Props/C14.lean: responder_loop_survives` is about the same `responderIteration`). -/

theorem discovery_send_policy :
    policyOf (Gen.Env.discoverySendSync.getD "log") = Mdns.responderSendPolicy ∧
    policyOf (Gen.Env.discoverySendTokio.getD "log") = Mdns.responderSendPolicy := by decide

/-! ### 12. relations between names (`name.rs`) -/

/-- `Name::is_link_local` with the label it compares the last label with -/
def isLinkLocalWith (lit : Bytes) (n : Name) : Bool :=
  match n.getLast? with
  | some l => eqIgnoreAsciiCase lit l
  | none => false

/-- `Name::is_subdomain_of` with its length comparison (`>`: strictly longer; `>=` would make every
name a subdomain of itself) -/
def isSubdomainOfWith (strict : Bool) (a b : Name) : Bool :=
  (if strict then decide (a.length > b.length) else decide (a.length ≥ b.length)) &&
    (b.reverse.zip a.reverse).all (fun p => p.1 == p.2)

/-- the bytes of the label literal, for the literals that can occur here -/
def labelBytes (s : String) : Bytes := s.toList.map (fun c => UInt8.ofNat c.toNat)

/-- the source's `is_link_local` compares the last label, ignoring ASCII case, with `local`; its
`is_subdomain_of` demands a strictly longer name and compares labels pairwise from the right; its
`without` keeps the leading labels, as many as the lengths differ -/
theorem name_relations_source :
    Gen.Env.linkLocalLabel.all (· == "local") ∧ Gen.Env.subdomainCmp.all (· == ">") ∧
    Gen.Env.withoutShape.all (· == "take-length-difference") := by decide

theorem link_local_label (n : Name) :
    n.isLinkLocal = isLinkLocalWith (labelBytes (Gen.Env.linkLocalLabel.getD "local")) n := by
  have : labelBytes (Gen.Env.linkLocalLabel.getD "local") = [108, 111, 99, 97, 108] := by decide
  rw [this]; rfl

theorem subdomain_comparison (a b : Name) :
    a.isSubdomainOf b = isSubdomainOfWith (Gen.Env.subdomainCmp.getD ">" == ">") a b := by
  have : (Gen.Env.subdomainCmp.getD ">" == ">") = true := by decide
  rw [this]; simp [Name.isSubdomainOf, isSubdomainOfWith]

/-- with `>=` the relation would be reflexive: the strictness read from the source matters -/
example : isSubdomainOfWith false [[97]] [[97]] = true ∧ isSubdomainOfWith true [[97]] [[97]] = false := by decide

/-! ### 13. the response code across the header and the OPT TTL (`rdata/opt.rs`) -/

def extractRcodeWith (mask shift : Nat) (ttl : Nat) (h : Header) : RCODE :=
  RCODE.ofCode ((((ttl &&& mask) <<< shift) ||| h.rcode.toCode) % 65536)

def encodeTtlWith (mask shift vshift : Nat) (o : OptData) (h : Header) : Nat :=
  ((h.rcode.toCode &&& mask) >>> shift) ||| (o.version <<< vshift)

/-- the masks are named, the shifts are numbers, in the source as in the model -/
theorem opt_ttl_source :
    Gen.Env.optTtlShape.all (· == ["RCODE_MASK", "4", "RCODE_MASK", "4", "VERSION_MASK"]) := by decide

/-- `OPT::extract_rcode_from_ttl` and `OPT::encode_ttl` are the generic functions at the shifts read
from the source (the two masks are tied as numbers by `Props/Tie.lean: optRcodeMask, optVersionMask`;
`VERSION_MASK.trailing_zeros()` is 8 for 0xFF00) -/
theorem opt_ttl_functions (ttl : Nat) (o : OptData) (h : Header) :
    extractRcode ttl h = extractRcodeWith 0xFF ((Gen.Env.optTtlShifts.getD (4, 4)).1) ttl h ∧
    encodeTtl o h = encodeTtlWith 0xFF ((Gen.Env.optTtlShifts.getD (4, 4)).2) 8 o h := ⟨rfl, rfl⟩

/-- a shift of 0 in `extract_rcode_from_ttl` would put the extended bits over the header's: extended
octet 1 with header nibble 0 (BADVERS) would read as FormatError -/
example : extractRcodeWith 0xFF 0 1 { id := 0, opcode := .StandardQuery, rcode := .NoError, flags := 0, opt := none } = .FormatError ∧
    extractRcodeWith 0xFF 4 1 { id := 0, opcode := .StandardQuery, rcode := .NoError, flags := 0, opt := none } = .BADVERS := by decide

/-! ### 14. escaping of instance names (simple-mdns) -/

/-- `escaped_instance_name` puts a backslash before `.` and `\\`, and before nothing else;
`unescaped_instance_name` takes the character after a backslash as it is (the model:
`Mdns.escapeName`, `Mdns.unescapeName`; `Props/C15.lean` proves the round trip for them) -/
theorem escape_source :
    Gen.Env.escapePairs.all (· == [(".", "\\."), ("\\", "\\\\")]) ∧ Gen.Env.unescapeOn.all (· == "\\") := by decide

/-! ### 15. the model's functions at what the source says: `without`, escaping; `MessageWriter`

Sections 12 and 14 above compare what was read from the source with literals; the theorems below
say that the model's own functions are the generic functions instantiated with the values read. -/

/-- `Name::without` with the shape read from the source -/
def withoutWith (shape : String) (a b : Name) : Option Name :=
  if shape = "take-length-difference" then
    (if a.isSubdomainOf b then some (a.take (a.length - b.length)) else none)
  else none

/-- the model's `Name.without` is the generic function at the shape read from `name.rs` -/
theorem without_shape (a b : Name) :
    a.without b = withoutWith (Gen.Env.withoutShape.getD "take-length-difference") a b := by
  have h : Gen.Env.withoutShape.getD "take-length-difference" = "take-length-difference" := by decide
  rw [h]; simp [withoutWith, Name.without]

/-- `escaped_instance_name` over a table (character, its escaped form) -/
def escapeWith (pairs : List (Char × List Char)) : List Char → List Char
  | [] => []
  | c :: cs => (match pairs.lookup c with | some e => e | none => [c]) ++ escapeWith pairs cs

/-- `unescaped_instance_name` with the escape character -/
def unescapeWith (esc : Char) : List Char → List Char
  | [] => []
  | [c] => if c = esc then [] else [c]
  | c :: d :: cs => if c = esc then d :: unescapeWith esc cs else c :: unescapeWith esc (d :: cs)

/-- what the model is written with (used when the item is untied) -/
def modelEscapePairs : List (String × String) := [(".", "\\."), ("\\", "\\\\")]

def pairsOf (ps : List (String × String)) : List (Char × List Char) :=
  ps.filterMap (fun p => match p.1.toList with | [c] => some (c, p.2.toList) | _ => none)

def charOf (s : String) : Char := match s.toList with | [c] => c | _ => 'x'

/-- the escape table of the source, as characters -/
theorem pairs_read : pairsOf (Gen.Env.escapePairs.getD modelEscapePairs) = [('.', ['\\', '.']), ('\\', ['\\', '\\'])] := by decide
/-- the escape character `unescaped_instance_name` looks for -/
theorem esc_read : charOf (Gen.Env.unescapeOn.getD "\\") = '\\' := by decide

/-- **the model's `escapeName` is the generic escaper at the table read from `instance_information.rs`** (so a third
escaped character, or another escaped form, in the source fails this theorem or unties the item) -/
theorem escape_tied (cs : List Char) :
    Mdns.escapeName cs = escapeWith (pairsOf (Gen.Env.escapePairs.getD modelEscapePairs)) cs := by
  rw [pairs_read]
  induction cs with
  | nil => rfl
  | cons c cs ih =>
    by_cases h1 : c = '.'
    · subst h1; simp [escapeWith, Mdns.escapeName, List.lookup, ih]
    · by_cases h2 : c = '\\'
      · subst h2; simp [escapeWith, Mdns.escapeName, List.lookup, ih]
      · have e : Mdns.escapeName (c :: cs) = c :: Mdns.escapeName cs := by
          rw [Mdns.escapeName]
          · intro h; exact h1 h
          · intro h; exact h2 h
        have l : List.lookup c [('.', ['\\', '.']), ('\\', ['\\', '\\'])] = none := by
          have b1 : (c == '.') = false := by simpa using h1
          have b2 : (c == '\\') = false := by simpa using h2
          simp [List.lookup, b1, b2]
        rw [e, ih]
        simp [escapeWith, l]

/-- the model's `unescapeName` is the generic unescaper at the escape character read from the source -/
theorem unescape_tied (cs : List Char) :
    Mdns.unescapeName cs = unescapeWith (charOf (Gen.Env.unescapeOn.getD "\\")) cs := by
  rw [esc_read]
  fun_induction Mdns.unescapeName cs with
  | case1 => rfl
  | case2 => rfl
  | case3 c cs ih => simp [unescapeWith, ih]
  | case4 c cs h1 h2 ih =>
    rw [ih]
    cases cs with
    | nil =>
      have hc : c ≠ '\\' := fun h => h1 h rfl
      simp [unescapeWith, hc]
    | cons d ds =>
      have hc : c ≠ '\\' := fun h => h2 d ds h rfl
      simp [unescapeWith, hc]

/-- `MessageWriter`, the wrapper `write_compressed_to` writes through: `write` and `flush` are
forwarded to the caller's writer (so the final `flush` of `packet_write_order` reaches it) and
positions are relative to where the message starts (`seek(Start(o))` goes to `start + o`, answers
have `start` subtracted) - what `Model/Writer.lean` assumes when it hands `pos - start` to the name
compressor (`writers_agree_compressed`). This theorem reads the source only; the model has no
separate `MessageWriter` to instantiate. -/
theorem message_writer_source :
    Gen.Env.messageWriter.all (· == ["forward", "forward", "start-plus-offset/minus-start"]) := by decide

/-! ### 16. the arms of `RData::type_code` and `RData::into_owned` (macro `rdata_enum!`) -/

/-- what a variant reports as its type, by the shape of its arm -/
def typeOfWith (arms : List String) : RData → TYPE
  | .flat code _ => TYPE.ofCode code
  | .ipseckey .. => .IPSECKEY
  | .opt _ => .OPT
  | .null code _ => if arms.getD 1 "" = "from-carried-code" then TYPE.ofCode code else .NULL
  | .empty t => if arms.getD 2 "" = "carried-type" then t else .NULL

/-- the owned copy of a variant, by the shape of its arm (`NULL::TYPE_CODE` is 10) -/
def intoOwnedWith (arms : List String) : RData → RData
  | .null c d => if arms.getD 1 "" = "same-code-owned-data" then .null c (d.map id) else .null 10 (d.map id)
  | .empty t => if arms.getD 2 "" = "same-type" then .empty t else .empty .NULL
  | rd => rd.intoOwned

/-- **`RData::type_code` reports the carried code of `NULL(code, _)` and the carried type of
`Empty(type)`, and `RData::into_owned` keeps both** - the model's `typeOf` and `intoOwned` are the
generic functions at the arm shapes read from the macro (an arm that rebuilds `NULL` with the
constant type code, or reports `TYPE::NULL` for every opaque record, fails this theorem or unties
the item) -/
theorem rdata_enum_arms (rd : RData) :
    rd.typeOf = typeOfWith (Gen.Env.rdataTypeCodeArms.getD ["variant-constant", "from-carried-code", "carried-type"]) rd ∧
    rd.intoOwned = intoOwnedWith (Gen.Env.rdataIntoOwnedArms.getD ["same-variant-owned", "same-code-owned-data", "same-type"]) rd := by
  have h1 : Gen.Env.rdataTypeCodeArms.getD ["variant-constant", "from-carried-code", "carried-type"] =
      ["variant-constant", "from-carried-code", "carried-type"] := by decide
  have h2 : Gen.Env.rdataIntoOwnedArms.getD ["same-variant-owned", "same-code-owned-data", "same-type"] =
      ["same-variant-owned", "same-code-owned-data", "same-type"] := by decide
  rw [h1, h2]
  cases rd <;> simp [RData.typeOf, typeOfWith, RData.intoOwned, intoOwnedWith]

/-! ### 17. the codes questions are written with (`From<QTYPE> for u16`, `From<QCLASS> for u16`) -/

/-- the code of a question type, by the arms read from the source: the arm named after the variant
gives the number, `none` stands for the conversion of the wrapped `TYPE` -/
def qtypeCodeWith (arms : List (String × Option Nat)) (t : QTYPE) : Option Nat :=
  let name := match t with
    | .TYPE _ => "TYPE" | .IXFR => "IXFR" | .AXFR => "AXFR" | .MAILB => "MAILB" | .MAILA => "MAILA" | .ANY => "ANY"
  match arms.lookup name, t with
  | some (some n), _ => some n
  | some none, .TYPE ty => some ty.toCode
  | _, _ => none

def qclassCodeWith (arms : List (String × Option Nat)) (c : QCLASS) : Option Nat :=
  let name := match c with
    | .CLASS _ => "CLASS" | .ANY => "ANY"
  match arms.lookup name, c with
  | some (some n), _ => some n
  | some none, .CLASS k => some k.toCode
  | _, _ => none

def modelQtypeArms : List (String × Option Nat) :=
  [("TYPE", none), ("IXFR", some 251), ("AXFR", some 252), ("MAILB", some 253), ("MAILA", some 254), ("ANY", some 255)]
def modelQclassArms : List (String × Option Nat) := [("CLASS", none), ("ANY", some 255)]

/-- **every question type and class is written with the code the model writes** - the model's
`QTYPE.toCode` / `QCLASS.toCode` are the arms of the two `From` impls as the source has them (an arm
pointing a special type at another code - `MAILA => TYPE::MX.into()` - fails this theorem or unties
the item), and the codes read back by `TryFrom<u16>` to the same variants -/
theorem question_codes_out (t : QTYPE) (c : QCLASS) :
    qtypeCodeWith (Gen.Env.qtypeToCode.getD modelQtypeArms) t = some t.toCode ∧
    qclassCodeWith (Gen.Env.qclassToCode.getD modelQclassArms) c = some c.toCode := by
  have h1 : Gen.Env.qtypeToCode.getD modelQtypeArms = modelQtypeArms := by decide
  have h2 : Gen.Env.qclassToCode.getD modelQclassArms = modelQclassArms := by decide
  rw [h1, h2]
  constructor
  · cases t <;> simp [qtypeCodeWith, modelQtypeArms, List.lookup, QTYPE.toCode]
  · cases c <;> simp [qclassCodeWith, modelQclassArms, List.lookup, QCLASS.toCode]

/-- the special question types and the wildcard class come back from their own codes -/
theorem question_codes_round :
    QTYPE.ofCode QTYPE.IXFR.toCode = .ok .IXFR ∧ QTYPE.ofCode QTYPE.AXFR.toCode = .ok .AXFR ∧
    QTYPE.ofCode QTYPE.MAILB.toCode = .ok .MAILB ∧ QTYPE.ofCode QTYPE.MAILA.toCode = .ok .MAILA ∧
    QTYPE.ofCode QTYPE.ANY.toCode = .ok .ANY ∧ QCLASS.ofCode QCLASS.ANY.toCode = .ok .ANY := by
  decide

/-! ### 18. the record store and `build_reply` (simple-mdns) -/

/-- `add_cached_resource` with the lifetime of a cache-flush record and the treatment of a record the
store already holds as authoritative as parameters -/
def addCachedWith (flushTtl : Nat) (guard : String) (s : Mdns.Store) (r : RR) (now : Nat) : Mdns.Store :=
  let k := Mdns.getKey r.name
  let ttl := if r.flush then flushTtl else r.ttl
  let b := (s.bucket k).getD []
  let put := s.setBucket k (b.insert r (.cached (now + 1000 * ttl) (now + 1000 * Mdns.refreshOffsetSecs ttl)))
  if guard = "unless-authoritative" then
    match b.get r with
    | some .auth => s
    | _ => put
  else put

/-- **`add_cached_resource` is the model's `addCached`**: a cache-flush record lives `1` second and a
record registered locally is left alone, as the source has them (`{2}` for the flush lifetime, or the
guard dropped, regenerates other values and this fails) -/
theorem store_add_source (s : Mdns.Store) (r : RR) (now : Nat) :
    s.addCached r now =
      addCachedWith (Gen.Env.storeFlushTtl.getD 1) (Gen.Env.storeCachedGuard.getD "unless-authoritative") s r now := by
  have h1 : Gen.Env.storeFlushTtl.getD 1 = 1 := by decide
  have h2 : Gen.Env.storeCachedGuard.getD "unless-authoritative" = "unless-authoritative" := by decide
  rw [h1, h2]
  simp only [Mdns.Store.addCached, addCachedWith, if_true]
  split <;> simp_all

/-- the key shape the extractor recognises is the one `getKey` is written with: labels from the root
down, each behind its length octet -/
theorem store_key_shape : Gen.Env.storeKeyShape.getD "root-first-length-prefixed" = "root-first-length-prefixed" ∧
    Mdns.getKey [[97], [98, 99]] = [2, 98, 99, 1, 97] := by decide

def flagOf (param : Bool) (s : String) : Bool := if s = "param" then param else s = "true"

/-- a `DomainResourceFilter` constructor, from its three field initialisers -/
def filterOf (spec : List String) (param : Bool) : Mdns.Filter :=
  ⟨flagOf param (spec.getD 0 ""), flagOf param (spec.getD 1 ""), flagOf param (spec.getD 2 "")⟩

def modelFilterCtors : List (String × List String) :=
  [("authoritative", ["param", "true", "false"]), ("cached", ["true", "false", "true"]), ("all", ["true", "true", "true"])]

def cmpOf (op : String) (a b : Nat) : Bool :=
  if op = ">" then a > b else if op = ">=" then a ≥ b else if op = "<" then a < b else a ≤ b

def fieldOf (name : String) (f : Mdns.Filter) : Bool :=
  if name = "authoritative" then f.authoritative else if name = "cached" then f.cached else f.subdomain

/-- `match_filter` by what it consults -/
def matchesWith (spec : List String) (f : Mdns.Filter) (k : Mdns.Kind) (now : Nat) : Bool :=
  match k with
  | .auth => fieldOf (spec.getD 0 "") f
  | .cached e r => fieldOf (spec.getD 1 "") f &&
      cmpOf (spec.getD 3 "") (if spec.getD 2 "" = "expire_at" then e else r) now

/-- `should_refresh` by what it consults -/
def shouldRefreshWith (spec : List String) (k : Mdns.Kind) (now : Nat) : Bool :=
  match k with
  | .auth => spec.getD 0 "" = "true"
  | .cached e r => cmpOf (spec.getD 2 "") (if spec.getD 1 "" = "refresh_at" then r else e) now

/-- **the filters of the store are the model's**: the three constructors field by field, which field
`match_filter` consults for which kind of record and that a cached record counts while
`expire_at > now`, that a refresh is due once `refresh_at < now`, and that `get_next_refresh` takes the
minimum of the refresh instants (`>=` for `>`, `expire_at` for `refresh_at`, `cached: false` in
`all()` - each regenerates another value and this fails) -/
theorem store_filter_source (sub : Bool) (f : Mdns.Filter) (k : Mdns.Kind) (now : Nat) :
    let ctors := Gen.Env.storeFilterCtors.getD modelFilterCtors
    Mdns.Filter.auth sub = filterOf ((ctors.lookup "authoritative").getD []) sub ∧
    Mdns.Filter.cachedOnly = filterOf ((ctors.lookup "cached").getD []) sub ∧
    Mdns.Filter.all = filterOf ((ctors.lookup "all").getD []) sub ∧
    f.matches k now = matchesWith (Gen.Env.storeMatchFilter.getD ["authoritative", "cached", "expire_at", ">"]) f k now ∧
    k.shouldRefresh now = shouldRefreshWith (Gen.Env.storeShouldRefresh.getD ["false", "refresh_at", "<"]) k now ∧
    Gen.Env.storeNextRefresh.getD ["refresh_at", "min"] = ["refresh_at", "min"] := by
  have h1 : Gen.Env.storeFilterCtors.getD modelFilterCtors = modelFilterCtors := by decide
  have h2 : Gen.Env.storeMatchFilter.getD ["authoritative", "cached", "expire_at", ">"] = ["authoritative", "cached", "expire_at", ">"] := by decide
  have h3 : Gen.Env.storeShouldRefresh.getD ["false", "refresh_at", "<"] = ["false", "refresh_at", "<"] := by decide
  have h4 : Gen.Env.storeNextRefresh.getD ["refresh_at", "min"] = ["refresh_at", "min"] := by decide
  simp only [h1, h2, h3, h4]
  refine ⟨?_, ?_, ?_, ?_, ?_, trivial⟩
  · cases sub <;> decide
  · cases sub <;> decide
  · cases sub <;> decide
  · cases k <;> simp [Mdns.Filter.matches, matchesWith, fieldOf, cmpOf]
  · cases k <;> simp [Mdns.Kind.shouldRefresh, shouldRefreshWith, cmpOf]

/-- `get_domain_resources` by its three decisions: the sub-trie at the key when subdomains are asked
for, the bucket of the key otherwise, groups left empty by the filter dropped -/
def getDomainWith (spec : List String) (s : Mdns.Store) (name : Name) (f : Mdns.Filter) (now : Nat) : List (List RR) :=
  let k := Mdns.getKey name
  let pick (b : Mdns.Bucket) : List RR := (b.filter (fun e => f.matches e.2 now)).map (·.1)
  let whole := if s.nodeExists k then (s.entries.filter (fun e => Mdns.isPrefixOf k e.1)).map (fun e => pick e.2) else []
  let exact := match s.bucket k with
    | some b => [pick b]
    | none => []
  let found := if f.subdomain then (if spec.getD 0 "" = "subtrie-when-subdomain" then whole else exact)
               else (if spec.getD 1 "" = "get-otherwise" then exact else whole)
  if spec.getD 2 "" = "drop-empty-groups" then found.filter (fun g => !g.isEmpty) else found

theorem store_lookup_source (s : Mdns.Store) (name : Name) (f : Mdns.Filter) (now : Nat) :
    s.getDomain name f now =
      getDomainWith (Gen.Env.storeLookup.getD ["subtrie-when-subdomain", "get-otherwise", "drop-empty-groups"]) s name f now := by
  have h : Gen.Env.storeLookup.getD ["subtrie-when-subdomain", "get-otherwise", "drop-empty-groups"] =
      ["subtrie-when-subdomain", "get-otherwise", "drop-empty-groups"] := by decide
  rw [h]
  simp only [Mdns.Store.getDomain, getDomainWith]
  cases f.subdomain
  · simp only [Bool.false_eq_true, if_false, if_true, List.getD_cons_zero, List.getD_cons_succ]
    cases s.bucket (Mdns.getKey name) <;> rfl
  · simp

def typeNamed (s : String) : TYPE :=
  if s = "A" then .A else if s = "AAAA" then .AAAA else if s = "SRV" then .SRV else if s = "TXT" then .TXT
  else if s = "PTR" then .PTR else .Unknown 0

/-- answers and additional records for one question, with the two look-up modes and the types of the
additional records as parameters -/
def answersForWith (ansSub tgtSub : Bool) (types : List String) (s : Mdns.Store) (q : Question) (now : Nat) :
    List RR × List RR :=
  let answers := ((s.getDomain q.name (Mdns.Filter.auth ansSub) now).flatten).filter
    (fun r => r.matchQClass q.qclass && r.matchQType q.qtype)
  let extra := answers.flatMap (fun a =>
    match Mdns.srvTarget a.rdata with
    | some t => ((s.getDomain t (Mdns.Filter.auth tgtSub) now).flatten).filter (fun r =>
        types.any (fun ty => r.matchQType (.TYPE (typeNamed ty))) && r.matchQClass q.qclass)
    | none => [])
  (answers, extra)

/-- **`build_reply` collects what the model collects**: answers from the question's name and
everything below it, among authoritative records, by class and type; for an SRV answer the address
records (A, AAAA) of exactly its target, of the question's class (`authoritative(false)` for the
answers, a third type among the additional records, or the class test dropped: other values, and
this fails or the item is untied) -/
theorem build_reply_source (s : Mdns.Store) (q : Question) (now : Nat) :
    Mdns.answersFor s q now =
      answersForWith (Gen.Env.replyAnswerSub.getD "true" = "true") (Gen.Env.replyTargetSub.getD "false" = "true")
        (Gen.Env.replyAdditionalTypes.getD ["A", "AAAA"]) s q now := by
  have h1 : Gen.Env.replyAnswerSub.getD "true" = "true" := by decide
  have h2 : Gen.Env.replyTargetSub.getD "false" = "false" := by decide
  have h3 : Gen.Env.replyAdditionalTypes.getD ["A", "AAAA"] = ["A", "AAAA"] := by decide
  rw [h1, h2, h3]
  simp only [Mdns.answersFor, answersForWith, typeNamed, List.any_cons, List.any_nil, Bool.or_false,
    if_true, if_false, decide_true, decide_false, (by decide : ("false" = "true") = False),
    (by decide : ("AAAA" = "A") = False)]
  congr 1

/-! ### 19. what a received response adds and reports (simple-mdns) -/

def sectionNamed (p : Packet) (s : String) : List RR :=
  if s = "answers" then p.answers else if s = "additional_records" then p.additional
  else if s = "name_servers" then p.nameServers else []

/-- the records `add_response_to_resources` keeps, by the sections it reads and the conditions it asks -/
def ingestRecordsWith (sections conds : List String) (p : Packet) (service full : Name) : List RR :=
  (sections.flatMap (sectionNamed p)).filter (fun r =>
    (!conds.contains "not-the-own-name" || r.name != full) &&
    (!conds.contains "below-the-service" || r.name.isSubdomainOf service))

def modelIngestSections : List String := ["answers", "additional_records"]
def modelIngestFilter : List String := ["below-the-service", "not-the-own-name"]

/-- **both flavours of `add_response_to_resources` keep what the model keeps**: answers then
additional records, not the discoverer's own instance, and only names below the watched service (a
flavour that also reads the authority section, or drops one of the two conditions, regenerates other
values and this fails) -/
theorem ingest_source (p : Packet) (service full : Name) :
    ∀ k < 2, Mdns.ingestRecords p service full =
      ingestRecordsWith ((Gen.Env.ingestSections.getD k none).getD modelIngestSections)
        ((Gen.Env.ingestFilter.getD k none).getD modelIngestFilter) p service full := by
  have h : ∀ k < 2, (Gen.Env.ingestSections.getD k none).getD modelIngestSections = modelIngestSections ∧
      (Gen.Env.ingestFilter.getD k none).getD modelIngestFilter = modelIngestFilter := by decide
  intro k hk
  rw [(h k hk).1, (h k hk).2]
  simp [Mdns.ingestRecords, ingestRecordsWith, modelIngestSections, modelIngestFilter, sectionNamed]

/-- what one record contributes to an `InstanceInformation`, by the arms of `from_records` -/
def contributes (arms : List (String × String)) (i : Mdns.Instance) (r : RR) : Mdns.Instance :=
  match r.rdata with
  | .flat 1 [.int a] => if arms.lookup "A" = some "ipv4" then { i with ips := Mdns.insertNew i.ips (false, a) } else i
  | .flat 28 [.int a] => if arms.lookup "AAAA" = some "ipv6" then { i with ips := Mdns.insertNew i.ips (true, a) } else i
  | .flat 16 [.strs ss] =>
    if arms.lookup "TXT" = some "attributes-with-a-key" then
      { i with attrs := Mdns.attrsExtend i.attrs ((Txt.attributes ss).filter (fun e => !e.1.isEmpty)) }
    else if arms.lookup "TXT" = some "attributes" then
      { i with attrs := Mdns.attrsExtend i.attrs (Txt.attributes ss) }
    else i
  | .flat 33 [_, _, .int port, _] => if arms.lookup "SRV" = some "port" then { i with ports := Mdns.insertNew i.ports port } else i
  | _ => i

def fromRecordsWith (arms : List (String × String)) (service : Name) (records : List RR) : Option Mdns.Instance :=
  let name := records.findSome? (fun r => r.name.without service)
  let inst : Mdns.Instance := records.foldl (contributes arms) { name := [], ips := [], ports := [], attrs := [] }
  name.map (fun n => { inst with name := Name.display n })

def modelFromRecordsArms : List (String × String) :=
  [("A", "ipv4"), ("AAAA", "ipv6"), ("TXT", "attributes-with-a-key"), ("SRV", "port")]

/-- **`InstanceInformation::from_records` is the model's `fromRecords`**: A and AAAA records give
addresses, SRV records ports, TXT records their attributes except those with an empty key, anything
else nothing (an arm removed, or the empty-key filter dropped, regenerates other values and this
fails) -/
theorem from_records_source (service : Name) (records : List RR) :
    Mdns.fromRecords service records =
      fromRecordsWith (Gen.Env.fromRecordsArms.getD modelFromRecordsArms) service records := by
  have h : Gen.Env.fromRecordsArms.getD modelFromRecordsArms = modelFromRecordsArms := by decide
  rw [h]
  have hc : ∀ (i : Mdns.Instance) (r : RR), contributes modelFromRecordsArms i r =
      (match r.rdata with
        | .flat 1 [.int a] => { i with ips := Mdns.insertNew i.ips (false, a) }
        | .flat 28 [.int a] => { i with ips := Mdns.insertNew i.ips (true, a) }
        | .flat 16 [.strs ss] =>
          { i with attrs := Mdns.attrsExtend i.attrs ((Txt.attributes ss).filter (fun e => !e.1.isEmpty)) }
        | .flat 33 [_, _, .int port, _] => { i with ports := Mdns.insertNew i.ports port }
        | _ => i) := by
    intro i r
    unfold contributes
    split <;> simp [modelFromRecordsArms, List.lookup]
  simp only [Mdns.fromRecords, fromRecordsWith]
  congr 2
  first
    | done
    | (funext i r; exact (hc i r).symm)

/-! ### 20. the records an instance is advertised with (simple-mdns) -/

def classNamed (s : String) : CLASS :=
  if s = "IN" then .IN else if s = "CH" then .CH else if s = "HS" then .HS else if s = "CS" then .CS else .NONE

def addrCode (s : String) : Nat := if s = "A" then 1 else if s = "AAAA" then 28 else 0

/-- `InstanceInformation::into_records` by the order of its groups and by what the constructors of
`conversion_utils.rs` put into the records -/
def intoRecordsWith (order v4 v6 : List String) (srv : String × Nat × Nat) (txtClass : String)
    (full : Name) (ips : List (Bool × Nat)) (ports : List Nat) (attrs : Attrs) (ttl : Nat) : Out (List RR) :=
  match Txt.ofMap attrs with
  | .ok ss =>
    let mk (c : String) (rd : RData) : RR := { name := full, cls := classNamed c, ttl := ttl, rdata := rd, flush := false }
    let group (g : String) : List RR :=
      if g = "addresses" then ips.map (fun ip =>
        if ip.1 then mk (v6.getD 1 "") (.flat (addrCode (v6.getD 0 "")) [.int ip.2])
        else mk (v4.getD 1 "") (.flat (addrCode (v4.getD 0 "")) [.int ip.2]))
      else if g = "ports" then ports.map (fun p => mk srv.1 (.flat 33 [.int srv.2.1, .int srv.2.2, .int p, .name full]))
      else if g = "attributes" then [mk txtClass (.flat 16 [.strs ss])]
      else []
    .ok (order.flatMap group)
  | .err => .err
  | .panic => .panic

/-- **an instance is advertised with the records the model builds**: address records (A for IPv4,
AAAA for IPv6), then one SRV record per port with priority 0, weight 0 and the instance's own name
as target, then one TXT record; all of class IN, owned by the instance's full name (another order,
another class, `weight: 1`: other values, and this fails) -/
theorem into_records_source (full : Name) (ips : List (Bool × Nat)) (ports : List Nat) (attrs : Attrs) (ttl : Nat) :
    Mdns.intoRecords full ips ports attrs ttl =
      intoRecordsWith (Gen.Env.intoRecordsOrder.getD ["addresses", "ports", "attributes"])
        (Gen.Env.intoRecordsV4.getD ["A", "IN"]) (Gen.Env.intoRecordsV6.getD ["AAAA", "IN"])
        (Gen.Env.intoRecordsSrv.getD ("IN", 0, 0)) (Gen.Env.intoRecordsTxtClass.getD "IN") full ips ports attrs ttl := by
  have h1 : Gen.Env.intoRecordsOrder.getD ["addresses", "ports", "attributes"] = ["addresses", "ports", "attributes"] := by decide
  have h2 : Gen.Env.intoRecordsV4.getD ["A", "IN"] = ["A", "IN"] := by decide
  have h3 : Gen.Env.intoRecordsV6.getD ["AAAA", "IN"] = ["AAAA", "IN"] := by decide
  have h4 : Gen.Env.intoRecordsSrv.getD ("IN", 0, 0) = ("IN", 0, 0) := by decide
  have h5 : Gen.Env.intoRecordsTxtClass.getD "IN" = "IN" := by decide
  rw [h1, h2, h3, h4, h5]
  unfold Mdns.intoRecords intoRecordsWith
  cases Txt.ofMap attrs <;> simp [bind, pure, Out.bind, classNamed, addrCode]

/-! ### 21. the loop of `Name::parse` (`name.rs`) -/

/-- one turn of the model's `nameLoop`: the result, or the state the next turn starts from -/
def nameStep (d : Bytes) (s : NS) : Sum (Out (Name × Nat)) NS :=
  if s.pos ≥ d.length ∨ s.pp ≥ d.length then .inl .err else
  if s.size ≥ 255 then .inl .err else
  match d[s.pp]? with
  | none => .inl .panic
  | some b =>
    if b = 0 then .inl (.ok (s.labels.reverse, s.pos + 1))
    else if b.toNat &&& 0xC0 = 0xC0 then
      if s.pp + 2 > d.length then .inl .err else
      match d[s.pp+1]? with
      | none => .inl .panic
      | some b2 =>
        if (b.toNat &&& 0x3F) * 256 + b2.toNat ≥ s.pp then .inl .err else
        .inr { s with pos := if s.follow then s.pos else s.pos + 1, pp := (b.toNat &&& 0x3F) * 256 + b2.toNat, follow := true }
    else
      if s.pp + 1 + b.toNat > d.length then .inl .err else
      if b.toNat > 63 then .inl .err else
      .inr { pos := if s.follow then s.pos else s.pos + b.toNat + 1,
             pp := s.pp + b.toNat + 1, follow := s.follow,
             size := s.size + 1 + b.toNat, labels := (d.drop (s.pp+1)).take b.toNat :: s.labels }

theorem nameLoop_step (d : Bytes) (s : NS) :
    nameLoop d s = (match nameStep d s with
       | .inl o => o
       | .inr s' => nameLoop d s') := by
  rw [nameLoop]
  unfold nameStep
  by_cases h0 : s.pos ≥ d.length ∨ s.pp ≥ d.length
  · simp only [h0, if_true]
  · simp only [h0, if_false]
    by_cases h1 : s.size ≥ 255
    · simp only [h1, if_true]
    · simp only [h1, if_false]
      cases hb : d[s.pp]? with
      | none => simp only []
      | some b =>
        simp only []
        by_cases hz : b = 0
        · simp only [hz, if_true]
        · simp only [hz, if_false]
          by_cases hp : b.toNat &&& 0xC0 = 0xC0
          · simp only [hp, if_true]
            by_cases h2 : s.pp + 2 > d.length
            · simp only [h2, if_true]
            · simp only [h2, if_false]
              cases hb2 : d[s.pp+1]? with
              | none => simp only []
              | some b2 =>
                simp only []
                by_cases h3 : (b.toNat &&& 0x3F) * 256 + b2.toNat ≥ s.pp
                · simp only [h3, if_true, dite_true]
                · simp only [h3, if_false, dite_false]
          · simp only [hp, if_false]
            by_cases h4 : s.pp + 1 + b.toNat > d.length
            · simp only [h4, if_true]
            · simp only [h4, if_false]
              by_cases h5 : b.toNat > 63
              · simp only [h5, if_true]
              · simp only [h5, if_false]

/-- one turn of the loop of `Name::parse` with its numbers and comparisons as parameters: the result,
or the state the next turn starts from -/
def nameStepWith (nums : List Nat) (ops : List String) (d : Bytes) (s : NS) : Sum (Out (Name × Nat)) NS :=
  if s.pos ≥ d.length ∨ s.pp ≥ d.length then .inl .err else
  if cmpOf (ops.getD 0 "") s.size 255 then .inl .err else
  match d[s.pp]? with
  | none => .inl .panic
  | some b =>
    if b = 0 then .inl (.ok (s.labels.reverse, s.pos + 1))
    else if b.toNat &&& 0xC0 = 0xC0 then
      let pos := if s.follow then s.pos else s.pos + nums.getD 6 0
      if cmpOf (ops.getD 1 "") (s.pp + nums.getD 1 0) d.length then .inl .err else
      match d[s.pp+1]? with
      | none => .inl .panic
      | some b2 =>
        let ptr := (b.toNat &&& 0x3F) * 256 + b2.toNat
        if cmpOf (ops.getD 2 "") ptr s.pp then .inl .err else
        .inr { s with pos := pos, pp := ptr, follow := true }
    else
      let len := b.toNat
      if cmpOf (ops.getD 3 "") (s.pp + nums.getD 3 0 + len) d.length then .inl .err else
      if cmpOf (ops.getD 4 "") len 63 then .inl .err else
      let lab := (d.drop (s.pp+1)).take len
      .inr { pos := if s.follow then s.pos else s.pos + len + nums.getD 4 0,
             pp := s.pp + len + nums.getD 5 0, follow := s.follow,
             size := s.size + nums.getD 2 0 + len, labels := lab :: s.labels }

def modelNameParseNums : List Nat := [0, 2, 1, 1, 1, 1, 1]
def modelNameParseOps : List String := [">=", ">", ">=", ">", ">"]


theorem cmpOf_ge (a b : Nat) : cmpOf ">=" a b = decide (a ≥ b) := by simp [cmpOf]
theorem cmpOf_gt (a b : Nat) : cmpOf ">" a b = decide (a > b) := by simp [cmpOf]

theorem nameStepWith_model (d : Bytes) (s : NS) :
    nameStepWith modelNameParseNums modelNameParseOps d s = nameStep d s := by
  simp only [nameStepWith, nameStep, modelNameParseNums, modelNameParseOps, List.getD_cons_zero, List.getD_cons_succ,
    cmpOf_ge, cmpOf_gt, decide_eq_true_eq]

/-- **the loop of `Name::parse` is the model's `nameLoop`**, turn by turn: the model's loop does what
one turn with the numbers and comparisons read from the source does and goes on from the state that
turn leaves, and `Name::parse` enters it with the initial `name_size` of the source (a size counter
that starts at 1, `>` for `>=` in the size guard, `+ 1` for `+ 2` in the pointer bound, `>` for `>=`
in the backward-pointer test: each regenerates another value and this fails) -/
theorem name_parse_source (d : Bytes) (s : NS) (pos : Nat) :
    nameLoop d s =
      (match nameStepWith (Gen.Env.nameParseNums.getD modelNameParseNums) (Gen.Env.nameParseOps.getD modelNameParseOps) d s with
       | .inl o => o
       | .inr s' => nameLoop d s') ∧
    Name.parse d pos = nameLoop d (NS.mk pos pos false ((Gen.Env.nameParseNums.getD modelNameParseNums).getD 0 0) []) := by
  have h1 : Gen.Env.nameParseNums.getD modelNameParseNums = modelNameParseNums := by decide
  have h2 : Gen.Env.nameParseOps.getD modelNameParseOps = modelNameParseOps := by decide
  rw [h1, h2, nameStepWith_model]
  exact ⟨nameLoop_step d s, rfl⟩
end Dns.TieEnv
