/-
C08 (constructor side): the headers made by `Packet::new_query`, `Packet::new_reply` and
`Packet::into_reply` are laid out per RFC 1035 section 4.1.1 — a query has QR = 0 and every
other bit clear, a reply has QR = 1, the opcode of the query in bits 11..14, response code 0 —
and `into_reply` keeps the id, the opcode and every section while it drops the flags, the
response code and the EDNS data of the query. Model: `Model/Api.lean`.
-/
import SimpleDnsModel.Model.Api
import SimpleDnsModel.Props.C08
namespace Dns
namespace C08Api

/-- the flags word of a fresh query is 0, whatever the id -/
theorem new_query_word (id : Nat) : (Header.newQuery id).getFlags = 0 := by
  simp [Header.newQuery, Header.getFlags, OPCODE.toCode, RCODE.toCode, Mask.RCODE]

/-- the twelve bytes of `Packet::new_query(id)`: the id, then ten zero bytes -/
theorem new_query_bytes (id : Nat) :
    (Packet.newQuery id).build = .ok (beN 2 id ++ [0, 0, 0, 0, 0, 0, 0, 0, 0, 0]) := by
  have hw := new_query_word id
  simp only [Header.newQuery] at hw
  simp [Packet.newQuery, Packet.build, Packet.writeHeader, Header.write, hw,
    Header.newQuery, Header.optRR, writeRRs, writeQuestions, beN, Bind.bind, Out.bind, Pure.pure]

theorem reply_word_table : ∀ op ∈ allOpcodes,
    (Header.newReply 0 op).getFlags = 0x8000 + op.toCode * 2048 ∧
    Spec.QR (Header.newReply 0 op).getFlags = 1 ∧
    Spec.OPCODE (Header.newReply 0 op).getFlags = op.toCode ∧
    Spec.RCODE (Header.newReply 0 op).getFlags = 0 ∧
    Spec.Z (Header.newReply 0 op).getFlags = 0 ∧
    Spec.flagBits (Header.newReply 0 op).getFlags = 0x8000 := by decide

/-- The flags word of a fresh reply: QR set, the opcode in its field, everything else clear. -/
theorem new_reply_word (id : Nat) (op : OPCODE) :
    let w := (Header.newReply id op).getFlags
    w = 0x8000 + op.toCode * 2048 ∧ Spec.QR w = 1 ∧ Spec.OPCODE w = op.toCode ∧
    Spec.RCODE w = 0 ∧ Spec.Z w = 0 ∧ Spec.flagBits w = 0x8000 := by
  have h := reply_word_table op (allOpcodes_complete op)
  have e : (Header.newReply id op).getFlags = (Header.newReply 0 op).getFlags := by
    simp [Header.newReply, Header.getFlags]
  simpa [e] using h

/-- `into_reply` keeps the id, the opcode and the four sections; the flags become exactly
RESPONSE, the response code NoError, and the EDNS data is dropped -/
theorem into_reply_fields (p : Packet) :
    p.intoReply.header.id = p.header.id ∧ p.intoReply.header.opcode = p.header.opcode ∧
    p.intoReply.header.rcode = .NoError ∧ p.intoReply.header.flags = 0x8000 ∧
    p.intoReply.header.opt = none ∧
    p.intoReply.questions = p.questions ∧ p.intoReply.answers = p.answers ∧
    p.intoReply.nameServers = p.nameServers ∧ p.intoReply.additional = p.additional := by
  simp [Packet.intoReply, Header.newReply]

/-- `into_reply` is idempotent and `set_id` touches only the id -/
theorem into_reply_idem (p : Packet) : p.intoReply.intoReply = p.intoReply := by
  simp [Packet.intoReply, Header.newReply]

theorem set_id_fields (p : Packet) (id : Nat) :
    (p.setId id).header = { p.header with id := id } ∧ (p.setId id).questions = p.questions ∧
    (p.setId id).answers = p.answers ∧ (p.setId id).nameServers = p.nameServers ∧
    (p.setId id).additional = p.additional := by
  simp [Packet.setId]

/-- the header of a reply survives serialisation and parsing (`header_roundtrip` applied) -/
theorem reply_header_roundtrip (id : Nat) (op : OPCODE) (hid : id < 65536) (qd an ns ar : Nat) :
    Header.parse ((Header.newReply id op).write qd an ns ar) = .ok (Header.newReply id op) := by
  have h := (header_roundtrip (Header.newReply id op) 1 qd an ns ar (by decide)
    (by simp [Header.newReply, flagSet]) (by simpa [Header.newReply] using hid)).1
  simpa [Header.newReply, RCODE.toCode, RCODE.ofCode] using h

/-- a cache-flush copy differs from the record in the flush bit only -/
theorem to_cache_flush (r : RR) :
    r.toCacheFlush.flush = true ∧ r.toCacheFlush.name = r.name ∧ r.toCacheFlush.cls = r.cls ∧
    r.toCacheFlush.ttl = r.ttl ∧ r.toCacheFlush.rdata = r.rdata := by
  simp [RR.toCacheFlush]

example : (Packet.newQuery 0x1234).build = .ok [0x12, 0x34, 0, 0, 0, 0, 0, 0, 0, 0, 0, 0] := by
  rw [new_query_bytes]; rfl
example : (Header.newReply 7 .Update).getFlags = 0xA800 := by decide

end C08Api
end Dns
