/-
Structural tie, part 2b: names (`name.rs`) - the relations between names, `Name::without`, and the loop of
`Name::parse` turn by turn. Same scheme as `Props/TieEnv.lean`; a module of its own so that a change of the name
code is attributed to the properties that are about names.
-/
import SimpleDnsModel.Generated.Envelope
import SimpleDnsModel.Model.Match
import SimpleDnsModel.Model.Pipeline
import SimpleDnsModel.Model.Compress
import SimpleDnsModel.Model.NameText
import SimpleDnsModel.Props.TieEnvDefs
namespace Dns.TieEnv
open Dns

/-! ### 12. relations between names (`name.rs`) -/

/-- `Name::is_link_local` with the label it compares the last label with -/
def isLinkLocalWith (lit : Bytes) (n : Name) : Bool :=
  match n.getLast? with
  | some l => eqIgnoreAsciiCase lit l
  | none => false

/-- `Name::is_subdomain_of` with its length comparison (`>`: strictly longer; `>=` would make every
name a subdomain of itself) -/
def isSubdomainOfWith (strict : Bool) (a b : Name) : Bool :=
  (if strict then decide (a.length > b.length) else decide (a.length ≥ b.length)) &&
    (b.reverse.zip a.reverse).all (fun p => p.1 == p.2)

/-- the bytes of the label literal, for the literals that can occur here -/
def labelBytes (s : String) : Bytes := s.toList.map (fun c => UInt8.ofNat c.toNat)

/-- the source's `is_link_local` compares the last label, ignoring ASCII case, with `local`; its
`is_subdomain_of` demands a strictly longer name and compares labels pairwise from the right; its
`without` keeps the leading labels, as many as the lengths differ -/
theorem name_relations_source :
    Gen.Env.linkLocalLabel.all (· == "local") ∧ Gen.Env.subdomainCmp.all (· == ">") ∧
    Gen.Env.withoutShape.all (· == "take-length-difference") := by decide

theorem link_local_label (n : Name) :
    n.isLinkLocal = isLinkLocalWith (labelBytes (Gen.Env.linkLocalLabel.getD "local")) n := by
  have : labelBytes (Gen.Env.linkLocalLabel.getD "local") = [108, 111, 99, 97, 108] := by decide
  rw [this]; rfl

theorem subdomain_comparison (a b : Name) :
    a.isSubdomainOf b = isSubdomainOfWith (Gen.Env.subdomainCmp.getD ">" == ">") a b := by
  have : (Gen.Env.subdomainCmp.getD ">" == ">") = true := by decide
  rw [this]; simp [Name.isSubdomainOf, isSubdomainOfWith]

/-- with `>=` the relation would be reflexive: the strictness read from the source matters -/
example : isSubdomainOfWith false [[97]] [[97]] = true ∧ isSubdomainOfWith true [[97]] [[97]] = false := by decide

/-! ### 15a. `Name::without` at the shape read from the source -/

/-- `Name::without` with the shape read from the source -/
def withoutWith (shape : String) (a b : Name) : Option Name :=
  if shape = "take-length-difference" then
    (if a.isSubdomainOf b then some (a.take (a.length - b.length)) else none)
  else none

/-- the model's `Name.without` is the generic function at the shape read from `name.rs` -/
theorem without_shape (a b : Name) :
    a.without b = withoutWith (Gen.Env.withoutShape.getD "take-length-difference") a b := by
  have h : Gen.Env.withoutShape.getD "take-length-difference" = "take-length-difference" := by decide
  rw [h]; simp [withoutWith, Name.without]

/-! ### 21. the loop of `Name::parse` (`name.rs`) -/

/-- one turn of the model's `nameLoop`: the result, or the state the next turn starts from -/
def nameStep (d : Bytes) (s : NS) : Sum (Out (Name × Nat)) NS :=
  if s.pos ≥ d.length ∨ s.pp ≥ d.length then .inl .err else
  if s.size ≥ 255 then .inl .err else
  match d[s.pp]? with
  | none => .inl .panic
  | some b =>
    if b = 0 then .inl (.ok (s.labels.reverse, s.pos + 1))
    else if b.toNat &&& 0xC0 = 0xC0 then
      if s.pp + 2 > d.length then .inl .err else
      match d[s.pp+1]? with
      | none => .inl .panic
      | some b2 =>
        if (b.toNat &&& 0x3F) * 256 + b2.toNat ≥ s.pp then .inl .err else
        .inr { s with pos := if s.follow then s.pos else s.pos + 1, pp := (b.toNat &&& 0x3F) * 256 + b2.toNat, follow := true }
    else
      if s.pp + 1 + b.toNat > d.length then .inl .err else
      if b.toNat > 63 then .inl .err else
      .inr { pos := if s.follow then s.pos else s.pos + b.toNat + 1,
             pp := s.pp + b.toNat + 1, follow := s.follow,
             size := s.size + 1 + b.toNat, labels := (d.drop (s.pp+1)).take b.toNat :: s.labels }

theorem nameLoop_step (d : Bytes) (s : NS) :
    nameLoop d s = (match nameStep d s with
       | .inl o => o
       | .inr s' => nameLoop d s') := by
  rw [nameLoop]
  unfold nameStep
  by_cases h0 : s.pos ≥ d.length ∨ s.pp ≥ d.length
  · simp only [h0, if_true]
  · simp only [h0, if_false]
    by_cases h1 : s.size ≥ 255
    · simp only [h1, if_true]
    · simp only [h1, if_false]
      cases hb : d[s.pp]? with
      | none => simp only []
      | some b =>
        simp only []
        by_cases hz : b = 0
        · simp only [hz, if_true]
        · simp only [hz, if_false]
          by_cases hp : b.toNat &&& 0xC0 = 0xC0
          · simp only [hp, if_true]
            by_cases h2 : s.pp + 2 > d.length
            · simp only [h2, if_true]
            · simp only [h2, if_false]
              cases hb2 : d[s.pp+1]? with
              | none => simp only []
              | some b2 =>
                simp only []
                by_cases h3 : (b.toNat &&& 0x3F) * 256 + b2.toNat ≥ s.pp
                · simp only [h3, if_true, dite_true]
                · simp only [h3, if_false, dite_false]
          · simp only [hp, if_false]
            by_cases h4 : s.pp + 1 + b.toNat > d.length
            · simp only [h4, if_true]
            · simp only [h4, if_false]
              by_cases h5 : b.toNat > 63
              · simp only [h5, if_true]
              · simp only [h5, if_false]

/-- one turn of the loop of `Name::parse` with its numbers and comparisons as parameters: the result,
or the state the next turn starts from -/
def nameStepWith (nums : List Nat) (ops : List String) (d : Bytes) (s : NS) : Sum (Out (Name × Nat)) NS :=
  if s.pos ≥ d.length ∨ s.pp ≥ d.length then .inl .err else
  if cmpOf (ops.getD 0 "") s.size 255 then .inl .err else
  match d[s.pp]? with
  | none => .inl .panic
  | some b =>
    if b = 0 then .inl (.ok (s.labels.reverse, s.pos + 1))
    else if b.toNat &&& 0xC0 = 0xC0 then
      let pos := if s.follow then s.pos else s.pos + nums.getD 6 0
      if cmpOf (ops.getD 1 "") (s.pp + nums.getD 1 0) d.length then .inl .err else
      match d[s.pp+1]? with
      | none => .inl .panic
      | some b2 =>
        let ptr := (b.toNat &&& 0x3F) * 256 + b2.toNat
        if cmpOf (ops.getD 2 "") ptr s.pp then .inl .err else
        .inr { s with pos := pos, pp := ptr, follow := true }
    else
      let len := b.toNat
      if cmpOf (ops.getD 3 "") (s.pp + nums.getD 3 0 + len) d.length then .inl .err else
      if cmpOf (ops.getD 4 "") len 63 then .inl .err else
      let lab := (d.drop (s.pp+1)).take len
      .inr { pos := if s.follow then s.pos else s.pos + len + nums.getD 4 0,
             pp := s.pp + len + nums.getD 5 0, follow := s.follow,
             size := s.size + nums.getD 2 0 + len, labels := lab :: s.labels }

def modelNameParseNums : List Nat := [0, 2, 1, 1, 1, 1, 1]
def modelNameParseOps : List String := [">=", ">", ">=", ">", ">"]



theorem nameStepWith_model (d : Bytes) (s : NS) :
    nameStepWith modelNameParseNums modelNameParseOps d s = nameStep d s := by
  simp only [nameStepWith, nameStep, modelNameParseNums, modelNameParseOps, List.getD_cons_zero, List.getD_cons_succ,
    cmpOf_ge, cmpOf_gt, decide_eq_true_eq]

/-- **the loop of `Name::parse` is the model's `nameLoop`**, turn by turn: the model's loop does what
one turn with the numbers and comparisons read from the source does and goes on from the state that
turn leaves, and `Name::parse` enters it with the initial `name_size` of the source (a size counter
that starts at 1, `>` for `>=` in the size guard, `+ 1` for `+ 2` in the pointer bound, `>` for `>=`
in the backward-pointer test: each regenerates another value and this fails) -/
theorem name_parse_source (d : Bytes) (s : NS) (pos : Nat) :
    nameLoop d s =
      (match nameStepWith (Gen.Env.nameParseNums.getD modelNameParseNums) (Gen.Env.nameParseOps.getD modelNameParseOps) d s with
       | .inl o => o
       | .inr s' => nameLoop d s') ∧
    Name.parse d pos = nameLoop d (NS.mk pos pos false ((Gen.Env.nameParseNums.getD modelNameParseNums).getD 0 0) []) := by
  have h1 : Gen.Env.nameParseNums.getD modelNameParseNums = modelNameParseNums := by decide
  have h2 : Gen.Env.nameParseOps.getD modelNameParseOps = modelNameParseOps := by decide
  rw [h1, h2, nameStepWith_model]
  exact ⟨nameLoop_step d s, rfl⟩
/-! ### 22. the writers of a name: `plain_append`, `compress_append` (`name.rs`) -/

def maskNamed (s : String) : Nat := if s = "POINTER_MASK_U16" then 0xC000 else if s = "POINTER_MASK" then 0xC0 else 0
def boundNamed (s : String) : Nat := if s = "MAX_POINTER_OFFSET" then 0x3FFF else if s = "MAX_NAME_LENGTH" then 255 else 0

/-- `Name::compress_append` with the pointer mask and the rule for entering a position into the table
as parameters -/
def compressNameWith (spec : List String) : Name → Nat → Table → Bytes × Table
  | [], _, t => ([0], t)
  | l :: rest, off, t =>
    match Table.find t (l :: rest) with
    | some p => (beN 2 (p ||| maskNamed (spec.getD 0 "")), t)
    | none =>
      let r := compressNameWith spec rest (off + 1 + l.length)
        (if cmpOf (spec.getD 1 "") off (boundNamed (spec.getD 2 "")) then (l :: rest, off) :: t else t)
      (UInt8.ofNat l.length :: (l ++ r.1), r.2)

/-- **`compress_append` is the model's `compressName`**: a suffix already in the table is written as
its offset with the two high bits set and ends the name; otherwise the label is written and its
position entered into the table when it is at most `MAX_POINTER_OFFSET` (`<` for `<=`, or the 8-bit
mask, regenerate other values and this fails; a body of another shape - the bound dropped, a suffix
entered after it was written - unties the item) -/
theorem name_write_source (n : Name) (off : Nat) (t : Table) :
    compressName n off t =
      compressNameWith (Gen.Env.nameWrite.getD ["POINTER_MASK_U16", "<=", "MAX_POINTER_OFFSET"]) n off t := by
  have h : Gen.Env.nameWrite.getD ["POINTER_MASK_U16", "<=", "MAX_POINTER_OFFSET"] =
      ["POINTER_MASK_U16", "<=", "MAX_POINTER_OFFSET"] := by decide
  rw [h]
  induction n generalizing off t with
  | nil => rfl
  | cons l rest ih =>
    simp only [compressName, compressNameWith]
    cases Table.find t (l :: rest) with
    | some p => simp [maskNamed]
    | none => simp [ih, cmpOf, boundNamed]

/-! ### 23. how a name is shown (`Display for Name`, `Display for Label`) -/

/-- `Display for Name` with what stands between two labels as a parameter (each label shown by its
own `Display`: its octets, through `from_utf8_lossy`) -/
def displayWith (sep : Bytes) : Name → Bytes
  | [] => []
  | [l] => l
  | l :: rest => l ++ (sep ++ displayWith sep rest)

/-- **a name is shown as the model shows it**: its labels' octets, a single `.` between two of them,
nothing in front or behind, and nothing added to or changed in a label (a label's dots and
backslashes are shown as they are; a `Display for Label` that quotes them, or another separator,
unties the item or fails this) -/
theorem name_display_source (n : Name) :
    Gen.Env.nameDisplayLabel.getD "utf8-lossy" = "utf8-lossy" ∧
    Name.display n = displayWith (labelBytes (Gen.Env.nameDisplaySep.getD ".")) n := by
  have h : labelBytes (Gen.Env.nameDisplaySep.getD ".") = [46] := by decide
  refine ⟨by decide, ?_⟩
  rw [h]
  induction n with
  | nil => rfl
  | cons l rest ih =>
    cases rest with
    | nil => rfl
    | cons l2 rest2 => simp only [Name.display, displayWith, ih, List.singleton_append]

end Dns.TieEnv
