/-
C20 (continued) — the refresh time of cached discovery records.

`ExpirationInfo::new(ttl)` of `simple-mdns/src/resource_record_manager.rs` fixes, next to the expiry
instant, the instant from which the record wants to be queried again (`refresh_at`):
at expiry for TTL 0, after half the TTL below one minute, after `ttl / 10 * 8` seconds otherwise.
`get_next_refresh` reports the earliest such instant that already lies in the past, over the cached
entries of all names.  In the model: `refreshOffsetSecs`, the second field of `Kind.cached`,
`Kind.shouldRefresh` and `Store.nextRefresh` (the minimum, `minOpt`, of `Store.dueRefreshes`).
-/
import SimpleDnsModel.Props.C20
namespace Dns.Mdns

/-! ### the refresh offset -/

/-- The refresh offset never exceeds the TTL; from TTL 2 on it is positive and strictly before the
expiry; below one minute it is half the TTL; from one minute on it is 80 % of the TTL rounded down
to a multiple of 8 seconds (less than 8 seconds below the exact 80 %, never above). -/
theorem refresh_offset_bounds (t : Nat) :
    refreshOffsetSecs t ≤ t ∧
    (2 ≤ t → 0 < refreshOffsetSecs t ∧ refreshOffsetSecs t < t) ∧
    (t < 60 → refreshOffsetSecs t = t / 2) ∧
    (60 ≤ t → 8 * t < 10 * refreshOffsetSecs t + 80 ∧ 10 * refreshOffsetSecs t ≤ 8 * t) := by
  unfold refreshOffsetSecs
  refine ⟨?_, ?_, ?_, ?_⟩ <;> (split <;> try split) <;> omega

/-- a cache-flush record (effective TTL one second) is due for refresh as soon as it is stored -/
theorem refresh_offset_one : refreshOffsetSecs 1 = 0 := by decide

theorem refreshOffsetSecs_le (t : Nat) : refreshOffsetSecs t ≤ t := (refresh_offset_bounds t).1

example : refreshOffsetSecs 0 = 0 ∧ refreshOffsetSecs 2 = 1 ∧ refreshOffsetSecs 59 = 29 ∧
    refreshOffsetSecs 60 = 48 ∧ refreshOffsetSecs 69 = 48 ∧ refreshOffsetSecs 120 = 96 ∧
    refreshOffsetSecs 4500 = 3600 := by decide
/-- the bounds at TTL 69, where the rounding loses most: 552 < 480 + 80 -/
example : 8 * 69 < 10 * refreshOffsetSecs 69 + 80 ∧ 10 * refreshOffsetSecs 69 ≤ 8 * 69 :=
  (refresh_offset_bounds 69).2.2.2 (by decide)
example : 0 < refreshOffsetSecs 2 ∧ refreshOffsetSecs 2 < 2 := (refresh_offset_bounds 2).2.1 (by decide)

/-! ### what `add_cached_resource` stores -/

/-- Receiving `r` at time `now`, unless `r` is registered locally, stores it with the expiry instant
`now + 1000 · t` and the refresh instant `now + 1000 · refreshOffsetSecs t`, where `t` is the
effective TTL (1 with the cache-flush bit). -/
theorem addCached_kind {s : Store} {r : RR} (h : abs s r ≠ some .auth) (now : Nat) :
    abs (s.addCached r now) r =
      some (.cached (now + 1000 * (if r.flush = true then 1 else r.ttl))
              (now + 1000 * refreshOffsetSecs (if r.flush = true then 1 else r.ttl))) := by
  rw [abs_addCached, if_pos (rrEq_refl r), if_neg h]

/-- the same, read as the contents of the bucket of `r`'s name -/
theorem addCached_kind_stored {s : Store} {r : RR} (h : abs s r ≠ some .auth) (now : Nat) :
    ∃ b r', (getKey r.name, b) ∈ (s.addCached r now).entries ∧ rrEq r' r = true ∧
      (r', Kind.cached (now + 1000 * effTtl r) (now + 1000 * refreshOffsetSecs (effTtl r))) ∈ b := by
  obtain ⟨b, r', hb, hm, he⟩ := mem_of_abs (addCached_kind h now)
  exact ⟨b, r', Store.bucket_mem hb, he, hm⟩

/-- a record that is registered locally keeps its kind -/
theorem addCached_kind_auth {s : Store} {r : RR} (h : abs s r = some .auth) (now : Nat) :
    abs (s.addCached r now) r = some .auth := by
  rw [abs_addCached, if_pos (rrEq_refl r), if_pos h]

/-- TTL 2 at time 0: expiry 2000, refresh 1000 -/
example : abs C20Ex.st C20Ex.recB = some (.cached 2000 1000) :=
  addCached_kind (s := Store.empty.addAuth C20Ex.recA) (r := C20Ex.recB) (by decide) 0
/-- the cache-flush bit at time 10: expiry 1010, refresh due at once -/
example : abs (C20Ex.st.addCached C20Ex.recF 10) C20Ex.recF = some (.cached 1010 10) :=
  addCached_kind (s := C20Ex.st) (r := C20Ex.recF) (by decide) 10
/-- TTL 4500 at time 5: refresh after an hour -/
example : abs (C20Ex.st.addCached { C20Ex.recF with flush := false } 5) C20Ex.recF =
    some (.cached 4500005 3600005) := by decide
example : abs (C20Ex.st.addCached C20Ex.recA 5) C20Ex.recA = some .auth :=
  addCached_kind_auth (by decide) 5

/-! ### the refresh instant never lies after the expiry instant -/

/-- every stored cache entry has `refreshAt ≤ expireAt` -/
def RefreshInv (s : Store) : Prop :=
  ∀ k b, (k, b) ∈ s.entries → ∀ x e r, (x, Kind.cached e r) ∈ b → r ≤ e

theorem RefreshInv.empty : RefreshInv Store.empty := by simp [RefreshInv, Store.empty]

theorem RefreshInv.setBucket {s : Store} (h : RefreshInv s) {k : Key} {b : Bucket}
    (hb : ∀ x e r, (x, Kind.cached e r) ∈ b → r ≤ e) : RefreshInv (s.setBucket k b) := by
  intro k' b' hm
  rcases Store.mem_setBucket hm with hm | hm
  · cases hm; exact hb
  · exact h k' b' hm.1

theorem RefreshInv.getD {s : Store} (h : RefreshInv s) (k : Key) :
    ∀ x e r, (x, Kind.cached e r) ∈ (s.bucket k).getD [] → r ≤ e := by
  cases hb : s.bucket k with
  | none => simp
  | some b => exact h k b (Store.bucket_mem hb)

theorem RefreshInv.insert {s : Store} (h : RefreshInv s) (r : RR) {kind : Kind}
    (hk : ∀ e rf, kind = .cached e rf → rf ≤ e) :
    RefreshInv (s.setBucket (getKey r.name) (((s.bucket (getKey r.name)).getD []).insert r kind)) := by
  apply h.setBucket
  intro x e rf hx
  rcases Bucket.mem_insert hx with hx | ⟨hx, _, _⟩
  · exact h.getD _ x e rf hx.1
  · exact hk e rf hx.symm

theorem RefreshInv.addAuth {s : Store} (h : RefreshInv s) (r : RR) : RefreshInv (s.addAuth r) :=
  h.insert r (fun _ _ hk => by cases hk)

theorem RefreshInv.addCached {s : Store} (h : RefreshInv s) (r : RR) (now : Nat) :
    RefreshInv (s.addCached r now) := by
  unfold Store.addCached
  simp only
  split
  · exact h
  · apply h.insert r
    intro e rf hk
    cases hk
    have := refreshOffsetSecs_le (if r.flush = true then 1 else r.ttl)
    omega

theorem RefreshInv.remove {s : Store} (h : RefreshInv s) (r : RR) : RefreshInv (s.remove r) := by
  unfold Store.remove
  simp only
  split
  · rename_i b hb
    apply h.setBucket
    intro x e rf hx
    exact h _ b (Store.bucket_mem hb) x e rf (Bucket.mem_remove.mp hx).1
  · exact h

theorem RefreshInv.clear (s : Store) : RefreshInv s.clear := RefreshInv.empty

theorem RefreshInv.apply {s : Store} (h : RefreshInv s) (op : Op) : RefreshInv (s.apply op) := by
  cases op with
  | addAuth r => exact h.addAuth r
  | addCached r now => exact h.addCached r now
  | remove r => exact h.remove r
  | clear => exact RefreshInv.clear s

theorem RefreshInv.run {s : Store} (h : RefreshInv s) (ops : List Op) : RefreshInv (s.run ops) := by
  induction ops generalizing s with
  | nil => exact h
  | cons op ops ih => exact ih (h.apply op)

/-- after every history of the four public operations from the empty store -/
theorem refreshInv_history (ops : List Op) : RefreshInv (Store.empty.run ops) :=
  RefreshInv.empty.run ops

theorem Reachable.refreshInv {s : Store} (h : Reachable s) : RefreshInv s := by
  obtain ⟨ops, rfl⟩ := h; exact refreshInv_history ops

/-- the same through the abstract view -/
theorem refresh_le_expiry {s : Store} (h : RefreshInv s) {x : RR} {e r : Nat}
    (hx : abs s x = some (.cached e r)) : r ≤ e := by
  obtain ⟨b, x', hb, hm, _⟩ := mem_of_abs hx
  exact h _ b (Store.bucket_mem hb) x' e r hm

example : RefreshInv C20Ex.st := Reachable.refreshInv ⟨_, rfl⟩
example : (1000 : Nat) ≤ 2000 :=
  refresh_le_expiry (s := C20Ex.st) (Reachable.refreshInv ⟨_, rfl⟩) (x := C20Ex.recB) (by decide)
/-- the invariant says something: a store that is not reachable violates it -/
example : ¬ RefreshInv ⟨[([], [(C20Ex.recB, .cached 1 2)])]⟩ := by
  intro h
  have := h [] [(C20Ex.recB, .cached 1 2)] (by simp) C20Ex.recB 1 2 (by simp)
  omega

/-! ### `min_by` -/

theorem minOpt_go (l : List Nat) (a : Nat) :
    ∃ m, l.foldl (fun acc x => match acc with
        | none => some x
        | some m => some (if x < m then x else m)) (some a) = some m ∧
      m ≤ a ∧ (m = a ∨ m ∈ l) ∧ ∀ x ∈ l, m ≤ x := by
  induction l generalizing a with
  | nil => exact ⟨a, rfl, Nat.le_refl _, .inl rfl, by simp⟩
  | cons x xs ih =>
    obtain ⟨m, hm, h1, h2, h3⟩ := ih (if x < a then x else a)
    refine ⟨m, hm, ?_, ?_, ?_⟩
    · split at h1 <;> omega
    · rcases h2 with h2 | h2
      · split at h2
        · exact .inr (by simp [h2])
        · exact .inl h2
      · exact .inr (List.mem_cons_of_mem _ h2)
    · intro y hy
      rcases List.mem_cons.mp hy with rfl | hy
      · split at h1 <;> omega
      · exact h3 y hy

theorem minOpt_eq_some {l : List Nat} {m : Nat} (h : minOpt l = some m) :
    m ∈ l ∧ ∀ x ∈ l, m ≤ x := by
  cases l with
  | nil => cases h
  | cons a as =>
    obtain ⟨m', hm, h1, h2, h3⟩ := minOpt_go as a
    have : m' = m := Option.some.inj (hm.symm.trans h)
    subst this
    refine ⟨?_, ?_⟩
    · rcases h2 with h2 | h2
      · simp [h2]
      · exact List.mem_cons_of_mem _ h2
    · intro x hx
      rcases List.mem_cons.mp hx with rfl | hx
      · exact h1
      · exact h3 x hx

theorem minOpt_eq_none {l : List Nat} : minOpt l = none ↔ l = [] := by
  cases l with
  | nil => exact ⟨fun _ => rfl, fun _ => rfl⟩
  | cons a as =>
    obtain ⟨m', hm, _⟩ := minOpt_go as a
    constructor
    · intro h
      cases hm.symm.trans h
    · intro h; cases h

example : minOpt [7, 3, 9, 3] = some 3 ∧ minOpt [] = none := by decide

/-! ### `get_next_refresh` -/

/-- the due refresh times are the refresh times, already past, of the stored cache entries -/
theorem mem_dueRefreshes {s : Store} {now r : Nat} :
    r ∈ s.dueRefreshes now ↔
      r < now ∧ ∃ key bucket rr e, (key, bucket) ∈ s.entries ∧ (rr, Kind.cached e r) ∈ bucket := by
  simp only [Store.dueRefreshes, List.mem_flatMap, List.mem_filterMap]
  constructor
  · rintro ⟨⟨key, bucket⟩, hkb, ⟨rr, kind⟩, hm, hd⟩
    cases kind with
    | auth => simp [dueRefresh] at hd
    | cached e r' =>
      simp only [dueRefresh, Kind.shouldRefresh, decide_eq_true_eq] at hd
      split at hd
      · cases hd
        exact ⟨by assumption, key, bucket, rr, e, hkb, hm⟩
      · cases hd
  · rintro ⟨hlt, key, bucket, rr, e, hkb, hm⟩
    exact ⟨(key, bucket), hkb, (rr, .cached e r), hm, by simp [dueRefresh, Kind.shouldRefresh, hlt]⟩

/-- what `get_next_refresh` returns is the refresh time of a stored cache entry and lies in the
past -/
theorem nextRefresh_some {s : Store} {now r : Nat} (h : s.nextRefresh now = some r) :
    r < now ∧ ∃ key bucket rr e, (key, bucket) ∈ s.entries ∧ (rr, Kind.cached e r) ∈ bucket :=
  mem_dueRefreshes.mp (minOpt_eq_some h).1

/-- and it is the earliest of the refresh times that lie in the past -/
theorem nextRefresh_min {s : Store} {now r : Nat} (h : s.nextRefresh now = some r)
    {key : Key} {bucket : Bucket} {rr : RR} {e r' : Nat} (hk : (key, bucket) ∈ s.entries)
    (hm : (rr, Kind.cached e r') ∈ bucket) (hlt : r' < now) : r ≤ r' :=
  (minOpt_eq_some h).2 r' (mem_dueRefreshes.mpr ⟨hlt, key, bucket, rr, e, hk, hm⟩)

/-- `None` exactly when no stored cache entry has its refresh time in the past -/
theorem nextRefresh_none_iff {s : Store} {now : Nat} :
    s.nextRefresh now = none ↔
      ∀ key bucket rr e r, (key, bucket) ∈ s.entries → (rr, Kind.cached e r) ∈ bucket → ¬ r < now := by
  unfold Store.nextRefresh
  rw [minOpt_eq_none, List.eq_nil_iff_forall_not_mem]
  constructor
  · intro h key bucket rr e r hk hm hlt
    exact h r (mem_dueRefreshes.mpr ⟨hlt, key, bucket, rr, e, hk, hm⟩)
  · intro h r hr
    obtain ⟨hlt, key, bucket, rr, e, hk, hm⟩ := mem_dueRefreshes.mp hr
    exact h key bucket rr e r hk hm hlt

/-- a due entry makes `get_next_refresh` answer, with a time not after that entry's -/
theorem nextRefresh_of_due {s : Store} {now : Nat} {key : Key} {bucket : Bucket} {rr : RR}
    {e r : Nat} (hk : (key, bucket) ∈ s.entries) (hm : (rr, Kind.cached e r) ∈ bucket)
    (hlt : r < now) : ∃ r', s.nextRefresh now = some r' ∧ r' ≤ r := by
  cases h : s.nextRefresh now with
  | none => exact absurd hlt (nextRefresh_none_iff.mp h key bucket rr e r hk hm)
  | some r' => exact ⟨r', rfl, nextRefresh_min h hk hm hlt⟩

/-- locally registered records never ask for a refresh -/
theorem auth_never_due {s : Store}
    (h : ∀ key bucket, (key, bucket) ∈ s.entries → ∀ x ∈ bucket, x.2 = Kind.auth) (now : Nat) :
    s.nextRefresh now = none := by
  rw [nextRefresh_none_iff]
  intro key bucket rr e r hk hm _
  have := h key bucket hk _ hm
  cases this

/-- Expired records keep reporting a due refresh: `should_refresh` looks at `refresh_at` only, and
`refresh_at ≤ expire_at < now`.  This mirrors the Rust: `get_next_refresh` (like every other method
of the manager) never purges; expired entries stay in the trie until `clear` or `remove`, or until
the record is received again. -/
theorem expired_still_due {s : Store} (hR : RefreshInv s) {key : Key} {bucket : Bucket} {rr : RR}
    {e r now : Nat} (hk : (key, bucket) ∈ s.entries) (hm : (rr, Kind.cached e r) ∈ bucket)
    (he : e < now) : Kind.shouldRefresh (.cached e r) now = true := by
  have := hR key bucket hk rr e r hm
  simp only [Kind.shouldRefresh, decide_eq_true_eq]
  omega

/-- hence a store that holds an expired entry always has a next refresh, not after that entry's -/
theorem expired_keeps_nextRefresh {s : Store} (hR : RefreshInv s) {key : Key} {bucket : Bucket}
    {rr : RR} {e r now : Nat} (hk : (key, bucket) ∈ s.entries)
    (hm : (rr, Kind.cached e r) ∈ bucket) (he : e < now) :
    ∃ r', s.nextRefresh now = some r' ∧ r' ≤ r := by
  have h := expired_still_due hR hk hm he
  simp only [Kind.shouldRefresh, decide_eq_true_eq] at h
  exact nextRefresh_of_due hk hm h

/-! ### a concrete store -/

namespace C20RefreshEx
open C20Ex

/-- `recA` registered; `recB` (TTL 2) received at 0: refresh at 1000, expiry at 2000; a record with
TTL 120 received at 500: refresh at 96 500, expiry at 120 500 -/
def recC : RR := { name := nA, cls := .IN, ttl := 120, rdata := .flat 1 [.int 0x0A000003], flush := false }
def st2 : Store := st.addCached recC 500

example : abs st2 recC = some (.cached 120500 96500) := by decide

/-- not due at the refresh instant itself (`refresh_at < now` is strict), due one millisecond later -/
example : st2.nextRefresh 1000 = none := by decide
example : st2.nextRefresh 1001 = some 1000 := by decide
/-- still reported after the expiry of `recB` at 2000, and the minimum over both names later on -/
example : st2.nextRefresh 5000 = some 1000 := by decide
example : st2.nextRefresh 96501 = some 1000 := by decide
/-- once `recB` is removed the other entry's refresh time is reported -/
example : (st2.remove recB).nextRefresh 96500 = none := by decide
example : (st2.remove recB).nextRefresh 96501 = some 96500 := by decide
example : ((st2.remove recB).remove recC).nextRefresh 1000000 = none := by decide
example : st2.clear.nextRefresh 1000000 = none := by decide

/-- `nextRefresh_some` / `nextRefresh_min` instantiated -/
example : (1000 : Nat) < 5000 ∧ ∃ key bucket rr e, (key, bucket) ∈ st2.entries ∧
    (rr, Kind.cached e 1000) ∈ bucket :=
  nextRefresh_some (s := st2) (now := 5000) (by decide)
example : (1000 : Nat) ≤ 96500 :=
  nextRefresh_min (s := st2) (now := 96501) (r := 1000) (by decide)
    (key := getKey nA) (bucket := [(recA, .auth), (recC, .cached 120500 96500)]) (rr := recC)
    (e := 120500) (by decide) (by decide) (by decide)
example : st2.nextRefresh 1000 = none :=
  nextRefresh_none_iff.mpr (by
    intro key bucket rr e r hk hm
    have : r = 1000 ∨ r = 96500 := by
      have hE : st2.entries = [(getKey nA, [(recA, .auth), (recC, .cached 120500 96500)]),
          (getKey nBA, [(recB, .cached 2000 1000)])] := by decide
      rw [hE] at hk
      simp only [List.mem_cons, List.not_mem_nil, or_false, Prod.mk.injEq] at hk
      rcases hk with ⟨_, rfl⟩ | ⟨_, rfl⟩
      · simp only [List.mem_cons, List.not_mem_nil, or_false, Prod.mk.injEq] at hm
        rcases hm with ⟨_, h⟩ | ⟨_, h⟩
        · cases h
        · cases h; exact .inr rfl
      · simp only [List.mem_cons, List.not_mem_nil, or_false, Prod.mk.injEq] at hm
        cases hm.2; exact .inl rfl
    omega)
/-- only authoritative records: never a refresh -/
example (now : Nat) : (Store.empty.addAuth recA).nextRefresh now = none :=
  auth_never_due (by
    intro key bucket hk x hx
    simp only [show (Store.empty.addAuth recA).entries = [(getKey nA, [(recA, .auth)])] from by decide,
      List.mem_cons, List.not_mem_nil, or_false, Prod.mk.injEq] at hk
    obtain ⟨_, rfl⟩ := hk
    simp only [List.mem_cons, List.not_mem_nil, or_false] at hx
    rw [hx]) now
/-- `recB` expired at 2000 and is still due at 2001 -/
example : Kind.shouldRefresh (.cached 2000 1000) 2001 = true :=
  expired_still_due (s := st2) (Reachable.refreshInv ⟨[.addAuth recA, .addCached recB 0, .addCached recC 500], rfl⟩)
    (key := getKey nBA) (bucket := [(recB, .cached 2000 1000)]) (rr := recB) (by decide) (by decide)
    (by decide)
/-- and it is not returned by the cache query any more -/
example : (st2.getDomain nBA Filter.cachedOnly 2001).flatten = [] := by decide

end C20RefreshEx

end Dns.Mdns
