/-
C01 — parsing untrusted bytes never panics.

In the model every Rust operation that can panic (indexing, slicing,
`unreachable!()`) is a primitive returning `Out.panic` outside its domain, so
`≠ .panic` is a statement about the guards in front of those operations.
-/
import SimpleDnsModel.Lemmas.NoPanic
namespace Dns

/-- `Packet::parse` never panics, whatever the input. -/
theorem parse_no_panic (d : Bytes) : Packet.parse d ≠ .panic := by
  unfold Packet.parse
  apply Out.bind_ne_panic (Header.parse_ne_panic d)
  intro header _
  apply Out.bind_ne_panic (peekU16_ne_panic d 4)
  intro qd _
  apply Out.bind_ne_panic (parseQuestions_ne_panic d qd 12)
  rintro ⟨questions, p⟩ _
  dsimp only
  apply Out.bind_ne_panic (peekU16_ne_panic d 6)
  intro an _
  apply Out.bind_ne_panic (parseRRs_ne_panic d an p)
  rintro ⟨answers, p⟩ _
  dsimp only
  apply Out.bind_ne_panic (peekU16_ne_panic d 8)
  intro ns _
  apply Out.bind_ne_panic (parseRRs_ne_panic d ns p)
  rintro ⟨nameServers, p⟩ _
  dsimp only
  apply Out.bind_ne_panic (peekU16_ne_panic d 10)
  intro ar _
  apply Out.bind_ne_panic (parseRRs_ne_panic d ar p)
  rintro ⟨additional, p'⟩ hadd
  dsimp only
  apply Out.bind_ne_panic
    (Header.extractOpt_liftOpt_ne_panic header (parseRRs_optInv hadd))
  intro header' _
  simp

/-- `Packet::parse` returns `Ok(_)` or `Err(_)`. -/
theorem parse_ok_or_err (d : Bytes) :
    (∃ p, Packet.parse d = .ok p) ∨ Packet.parse d = .err := by
  cases h : Packet.parse d with
  | ok p => exact .inl ⟨p, rfl⟩
  | err => exact .inr rfl
  | panic => exact absurd h (parse_no_panic d)

/-! The header peek functions of `header_buffer.rs` never panic. -/

theorem peek_id_no_panic (d : Bytes) : Peek.id d ≠ .panic := peekU16_ne_panic d 0
theorem peek_questions_no_panic (d : Bytes) : Peek.questions d ≠ .panic := peekU16_ne_panic d 4
theorem peek_answers_no_panic (d : Bytes) : Peek.answers d ≠ .panic := peekU16_ne_panic d 6
theorem peek_nameServers_no_panic (d : Bytes) : Peek.nameServers d ≠ .panic :=
  peekU16_ne_panic d 8
theorem peek_additional_no_panic (d : Bytes) : Peek.additional d ≠ .panic :=
  peekU16_ne_panic d 10

theorem peek_hasFlags_no_panic (d : Bytes) (f : Nat) : Peek.hasFlags d f ≠ .panic := by
  unfold Peek.hasFlags
  apply Out.bind_ne_panic (peekU16_ne_panic d 2)
  intro w _; simp

theorem peek_rcode_no_panic (d : Bytes) : Peek.rcode d ≠ .panic := by
  unfold Peek.rcode
  apply Out.bind_ne_panic (peekU16_ne_panic d 2)
  intro w _; simp

theorem peek_opcode_no_panic (d : Bytes) : Peek.opcode d ≠ .panic := by
  unfold Peek.opcode
  apply Out.bind_ne_panic (peekU16_ne_panic d 2)
  intro w _; simp

/-- all eight peek functions at once -/
theorem peek_no_panic (d : Bytes) :
    Peek.id d ≠ .panic ∧ Peek.questions d ≠ .panic ∧ Peek.answers d ≠ .panic ∧
    Peek.nameServers d ≠ .panic ∧ Peek.additional d ≠ .panic ∧
    (∀ f, Peek.hasFlags d f ≠ .panic) ∧ Peek.rcode d ≠ .panic ∧ Peek.opcode d ≠ .panic :=
  ⟨peek_id_no_panic d, peek_questions_no_panic d, peek_answers_no_panic d,
   peek_nameServers_no_panic d, peek_additional_no_panic d, peek_hasFlags_no_panic d,
   peek_rcode_no_panic d, peek_opcode_no_panic d⟩

end Dns
