/-
C15 / C13 audit — corrected statements where `Props/C15Multi.lean`, `Props/C15Reports.lean` and
`Props/C13Keys.lean` said more about the RUST code than is true of it, or were vacuous.

The model keeps a bucket (`HashMap<ResourceRecord, _>` in Rust) as an insertion-ordered list and
`from_records` folds in that order. Rust iterates the bucket in hasher order. So every statement
about `known` / `fromRecords` that depends on the ORDER of the records says something about the
model only. This file proves the order-independent truth.

 1. `from_records` and order: `SameRecs` (the same records up to `PartialEq for ResourceRecord`,
    in any order, any multiplicity) — `fromRecords_sameRecs` (existence, name for one owner,
    addresses, ports, attribute keys), `fromRecords_attr_of_agree` (a key all of whose TXT records
    agree), `fromRecords_attr_some_record` (a key with conflicting values gets the value of SOME
    record), the `List.Perm` corollaries `fromRecords_perm`, `fromRecords_perm_lookup`,
    `fromRecords_perm_lookup_some`, the two-permutation example `attr_conflict_order_matters`;
    `bucketInstance_any_order` (one bucket of `get_known_services` in any iteration order);
    the corrected `changed_data_union`: `changed_data_union_any_order` (every iteration order of the
    bucket), `changed_data_union_audit` (`known`), `changed_data_conflict_unspecified`.
 2. `keyVia_injective_iff_WF` (the bounded, non-vacuous version of `keyVia_injective_iff`),
    `keyVia_injective_iff_vacuous` (why the old one is `False ↔ False`), `keyVia_id_separates`,
    `keyVia_lossy_merges`.
 3. the library's own goodbye (`announce(true)`: cache-flush bit, TTL kept): `flushed`,
    `libraryGoodbye`, `known_library_goodbye`, `library_goodbye_still_known`,
    `library_goodbye_gone`; the TTL-0 goodbye is `rfc_goodbye_removes`.
 4. the library's own announcement (`announce(false)`: the address records again in
    `additional`): `addCached_noop`, `foldl_addCached_dedup` / `ingest_dedup` (duplicates, any
    owners, any store), `known_one_owner_any_list`, `known_packets_same_records`,
    `known_after_response_any_order`, `libraryAnnounce`, `ingest_libraryAnnounce`,
    `known_after_library_announce`, `known_after_library_announce_any_order`.
 5. instance names as Rust reports them (`to_string()` = `from_utf8_lossy` per label):
    `reportOf_name_string`, `reportOf_name_label_utf8`, `reported_label_injective_utf8`,
    `reported_label_collision`, `reportOf_name_label_not_what_rust_shows`.
 6. more than two receptions per instance: `foldl_addCached_same_data`,
    `known_periodic_reannounce` (n announcements of the same data: the last one counts);
    `StaleOrIn` (replaces `KeyFree`), `known_one_reception_stale`, `known_announce_stale`,
    `known_reannounce_after_expiry` (any earlier descriptions, all expired: the last one counts).
-/
import SimpleDnsModel.Props.C15Multi
import SimpleDnsModel.Props.C13Keys
namespace Dns.Mdns

/-! ### 1. `from_records` does not depend on the order of the records — except for conflicting
attribute values -/

/-- the TXT record `r` gives the attribute key `k` the value `v` -/
def TxtGives (r : RR) (k : String) (v : Option String) : Prop :=
  ∃ new, txtOf r = some new ∧ (k, v) ∈ new

/-- every record of `l1` has an equal (`PartialEq for ResourceRecord`: name, class, RDATA) in `l2` -/
def Covers (l1 l2 : List RR) : Prop := ∀ r ∈ l1, ∃ r' ∈ l2, rrEq r r' = true

/-- the same records up to `PartialEq for ResourceRecord`, in any order and any multiplicity: what
two iterations of one `HashMap` bucket, or a packet and the same packet with repeated records, have
in common -/
def SameRecs (l1 l2 : List RR) : Prop := Covers l1 l2 ∧ Covers l2 l1

instance (l1 l2 : List RR) : Decidable (Covers l1 l2) := by unfold Covers; infer_instance
instance (l1 l2 : List RR) : Decidable (SameRecs l1 l2) := by unfold SameRecs; infer_instance

/-- a record list covers itself -/
theorem Covers.refl (l : List RR) : Covers l l := fun r hr => ⟨r, hr, rrEq_refl r⟩

/-- covering is transitive -/
theorem Covers.trans {a b c : List RR} (h1 : Covers a b) (h2 : Covers b c) : Covers a c := by
  intro r hr
  obtain ⟨r1, hr1, e1⟩ := h1 r hr
  obtain ⟨r2, hr2, e2⟩ := h2 r1 hr1
  exact ⟨r2, hr2, rrEq_trans e1 e2⟩

/-- `SameRecs` is reflexive -/
theorem SameRecs.refl (l : List RR) : SameRecs l l := ⟨Covers.refl l, Covers.refl l⟩
/-- `SameRecs` is symmetric -/
theorem SameRecs.symm {a b : List RR} (h : SameRecs a b) : SameRecs b a := ⟨h.2, h.1⟩
/-- `SameRecs` is transitive -/
theorem SameRecs.trans {a b c : List RR} (h1 : SameRecs a b) (h2 : SameRecs b c) : SameRecs a c :=
  ⟨h1.1.trans h2.1, h2.2.trans h1.2⟩

/-- two iteration orders of the same records are `SameRecs` -/
theorem SameRecs.of_perm {a b : List RR} (h : a.Perm b) : SameRecs a b :=
  ⟨fun r hr => ⟨r, h.subset hr, rrEq_refl r⟩, fun r hr => ⟨r, h.symm.subset hr, rrEq_refl r⟩⟩

/-- lists with the same members are `SameRecs`: repetitions do not matter -/
theorem SameRecs.of_mem_iff {a b : List RR} (h : ∀ r, r ∈ a ↔ r ∈ b) : SameRecs a b :=
  ⟨fun r hr => ⟨r, (h r).mp hr, rrEq_refl r⟩, fun r hr => ⟨r, (h r).mpr hr, rrEq_refl r⟩⟩

/-- the address a record contributes depends on its RDATA only -/
theorem ipOf_congr {r r' : RR} (h : rrEq r r' = true) : ipOf r = ipOf r' := by
  unfold ipOf; rw [(rrEq_iff.mp h).2.2]
/-- the port a record contributes depends on its RDATA only -/
theorem portOf_congr {r r' : RR} (h : rrEq r r' = true) : portOf r = portOf r' := by
  unfold portOf; rw [(rrEq_iff.mp h).2.2]
/-- the attributes a record contributes depend on its RDATA only -/
theorem txtOf_congr {r r' : RR} (h : rrEq r r' = true) : txtOf r = txtOf r' := by
  unfold txtOf; rw [(rrEq_iff.mp h).2.2]
/-- hence `TxtGives` is a property of the record up to `PartialEq for ResourceRecord` -/
theorem TxtGives.congr {r r' : RR} (h : rrEq r r' = true) {k : String} {v : Option String}
    (hg : TxtGives r k v) : TxtGives r' k v := by
  obtain ⟨new, h1, h2⟩ := hg
  exact ⟨new, by rw [← txtOf_congr h]; exact h1, h2⟩

/-- a record that gives key `k` a value has the key among the keys of its TXT attributes -/
theorem TxtGives.key_mem {r : RR} {k : String} {v : Option String} (h : TxtGives r k v) :
    ∃ new, txtOf r = some new ∧ k ∈ new.keys := by
  obtain ⟨new, h1, h2⟩ := h
  exact ⟨new, h1, (Attrs.mem_keys_iff new k).mpr ⟨v, h2⟩⟩

/-- a TXT record whose attributes have the key gives it a value -/
theorem TxtGives.of_key_mem {r : RR} {new : Attrs} {k : String} (h1 : txtOf r = some new)
    (h2 : k ∈ new.keys) : ∃ v, TxtGives r k v := by
  obtain ⟨v, hv⟩ := (Attrs.mem_keys_iff new k).mp h2
  exact ⟨v, new, h1, hv⟩

/-- one TXT record gives a key one value (`TXT::attributes` is a map) -/
theorem TxtGives.functional {r : RR} {k : String} {v v' : Option String} (h : TxtGives r k v)
    (h' : TxtGives r k v') : v = v' := by
  obtain ⟨new, h1, h2⟩ := h
  obtain ⟨new', h1', h2'⟩ := h'
  rw [h1] at h1'; cases h1'
  have hn := txtOf_keys_nodup h1
  have e := Attrs.lookup_of_mem_nodup hn h2
  rw [Attrs.lookup_of_mem_nodup hn h2'] at e
  cases e; rfl

/-- **the fold of `from_records`, one attribute key**: if no record gives the key a value, the
key keeps what it had; otherwise it ends with the value SOME record gives it (in the model: the
last such record; in Rust: whichever the `HashMap` iteration visits last) -/
theorem lookup_foldl_recStep_cases (rs : List RR) (i : Instance) (k : String) :
    ((∀ r ∈ rs, ∀ v, ¬ TxtGives r k v) ∧ (rs.foldl recStep i).attrs.lookup k = i.attrs.lookup k) ∨
    (∃ r ∈ rs, ∃ v, TxtGives r k v ∧ (rs.foldl recStep i).attrs.lookup k = some v) := by
  induction rs generalizing i with
  | nil => exact .inl ⟨by simp, rfl⟩
  | cons r rest ih =>
    rw [List.foldl_cons]
    rcases ih (recStep i r) with ⟨hno, hl⟩ | ⟨r', hr', v, hg, hl⟩
    · -- the rest does not mention the key: `r` decides
      by_cases hr : ∃ v, TxtGives r k v
      · obtain ⟨v, new, h1, h2⟩ := hr
        refine .inr ⟨r, by simp, v, ⟨new, h1, h2⟩, ?_⟩
        rw [hl, recStep_attrs_eq, h1]
        exact lookup_attrsExtend_of_mem _ (txtOf_keys_nodup h1) h2
      · refine .inl ⟨?_, ?_⟩
        · intro x hx v hv
          rcases List.mem_cons.mp hx with rfl | hx
          · exact hr ⟨v, hv⟩
          · exact hno x hx v hv
        · rw [hl, recStep_attrs_eq]
          cases ht : txtOf r with
          | none => rfl
          | some new =>
            apply lookup_attrsExtend_of_not_mem
            intro hk
            exact hr (TxtGives.of_key_mem ht hk)
    · exact .inr ⟨r', List.mem_cons_of_mem _ hr', v, hg, hl⟩

/-- **`from_records`, a key no TXT record has**: not reported -/
theorem fromRecords_attr_none {service : Name} {rs : List RR} {i : Instance}
    (h : fromRecords service rs = some i) {k : String} (hno : ∀ r ∈ rs, ∀ v, ¬ TxtGives r k v) :
    i.attrs.lookup k = none := by
  obtain ⟨n, _, _, _, _, h4⟩ := fromRecords_eq_some h
  rw [h4]
  rcases lookup_foldl_recStep_cases rs emptyInst k with ⟨_, hl⟩ | ⟨r, hr, v, hg, _⟩
  · rw [hl]; rfl
  · exact absurd hg (hno r hr v)

/-- **`from_records`, a key some TXT record has: the reported value is the one SOME record
gives** — whatever the order of the records; which one is not determined when they disagree. -/
theorem fromRecords_attr_some_record {service : Name} {rs : List RR} {i : Instance}
    (h : fromRecords service rs = some i) {k : String}
    (hex : ∃ r ∈ rs, ∃ v, TxtGives r k v) :
    ∃ r ∈ rs, ∃ v, TxtGives r k v ∧ i.attrs.lookup k = some v := by
  obtain ⟨n, _, _, _, _, h4⟩ := fromRecords_eq_some h
  rw [h4]
  rcases lookup_foldl_recStep_cases rs emptyInst k with ⟨hno, _⟩ | hsome
  · obtain ⟨r, hr, v, hg⟩ := hex
    exact absurd hg (hno r hr v)
  · exact hsome

/-- **`from_records`, a key whose TXT records agree** (it occurs in one TXT record only, or with
the same value in all): that value is reported — whatever the order of the records. -/
theorem fromRecords_attr_of_agree {service : Name} {rs : List RR} {i : Instance}
    (h : fromRecords service rs = some i) {k : String} {v : Option String}
    (hex : ∃ r ∈ rs, TxtGives r k v) (hagree : ∀ r ∈ rs, ∀ v', TxtGives r k v' → v' = v) :
    i.attrs.lookup k = some v := by
  obtain ⟨r0, hr0, hg0⟩ := hex
  obtain ⟨r, hr, v', hg, hl⟩ := fromRecords_attr_some_record h ⟨r0, hr0, v, hg0⟩
  rw [hl, hagree r hr v' hg]

/-- `from_records` names the instance after the first record that lies strictly below the
service; for records of ONE owner (a bucket, or the records `add_response_to_resources` selects
for one report) that is the owner, whatever the order -/
theorem fromRecords_name_one_owner {service o : Name} {rs : List RR} {i : Instance}
    (h : fromRecords service rs = some i) (ho : ∀ r ∈ rs, r.name = o) :
    ∃ pre, o.without service = some pre ∧ i.name = Name.display pre := by
  obtain ⟨n, hn, hname, _⟩ := fromRecords_eq_some h
  have hne : rs ≠ [] := by rintro rfl; simp at hn
  rw [findSome?_without_single_owner service hne ho] at hn
  exact ⟨n, hn, hname⟩

/-- `from_records` succeeds exactly when some record lies strictly below the service -/
theorem fromRecords_isSome_iff (service : Name) (rs : List RR) :
    (fromRecords service rs).isSome = true ↔ ∃ r ∈ rs, r.name.isSubdomainOf service = true := by
  rw [fromRecords_eq, Option.isSome_map, List.findSome?_isSome_iff]
  constructor
  · rintro ⟨r, hr, h⟩
    refine ⟨r, hr, ?_⟩
    unfold Name.without at h
    split at h
    · assumption
    · simp at h
  · rintro ⟨r, hr, h⟩
    exact ⟨r, hr, by unfold Name.without; rw [if_pos h]; rfl⟩

/-- **`from_records` on the same records in another order / with repetitions** (`SameRecs`; in
particular any permutation): it succeeds on both or on neither; for records of one owner the name
is the same; the address SETS, the port SETS and the attribute KEY sets are the same. -/
theorem fromRecords_sameRecs {service : Name} {l1 l2 : List RR} (hs : SameRecs l1 l2) :
    ((fromRecords service l1).isSome = (fromRecords service l2).isSome) ∧
    ∀ i1 i2, fromRecords service l1 = some i1 → fromRecords service l2 = some i2 →
      (∀ o, (∀ r ∈ l1, r.name = o) → i1.name = i2.name) ∧
      (∀ x, x ∈ i1.ips ↔ x ∈ i2.ips) ∧ (∀ x, x ∈ i1.ports ↔ x ∈ i2.ports) ∧
      (∀ k, k ∈ i1.attrs.keys ↔ k ∈ i2.attrs.keys) := by
  have key : ∀ {a b : List RR}, Covers a b → ∀ {P : RR → Prop},
      (∀ r r', rrEq r r' = true → P r → P r') → (∃ r ∈ a, P r) → ∃ r ∈ b, P r := by
    intro a b hc P hP ⟨r, hr, hp⟩
    obtain ⟨r', hr', he⟩ := hc r hr
    exact ⟨r', hr', hP r r' he hp⟩
  constructor
  · rw [Bool.eq_iff_iff, fromRecords_isSome_iff, fromRecords_isSome_iff]
    exact ⟨key hs.1 (fun r r' he hp => by rw [← rrEq_name he]; exact hp),
      key hs.2 (fun r r' he hp => by rw [← rrEq_name he]; exact hp)⟩
  · intro i1 i2 h1 h2
    refine ⟨?_, ?_, ?_, ?_⟩
    · intro o ho
      have ho2 : ∀ r ∈ l2, r.name = o := by
        intro r hr
        obtain ⟨r', hr', he⟩ := hs.2 r hr
        rw [rrEq_name he]; exact ho r' hr'
      obtain ⟨p1, hp1, hn1⟩ := fromRecords_name_one_owner h1 ho
      obtain ⟨p2, hp2, hn2⟩ := fromRecords_name_one_owner h2 ho2
      rw [hp1] at hp2; cases hp2
      rw [hn1, hn2]
    · intro x
      rw [fromRecords_ips_iff h1, fromRecords_ips_iff h2]
      exact ⟨key hs.1 (fun r r' he hp => by rw [← ipOf_congr he]; exact hp),
        key hs.2 (fun r r' he hp => by rw [← ipOf_congr he]; exact hp)⟩
    · intro x
      rw [fromRecords_ports_iff h1, fromRecords_ports_iff h2]
      exact ⟨key hs.1 (fun r r' he hp => by rw [← portOf_congr he]; exact hp),
        key hs.2 (fun r r' he hp => by rw [← portOf_congr he]; exact hp)⟩
    · intro k
      rw [fromRecords_attr_keys_iff h1, fromRecords_attr_keys_iff h2]
      exact ⟨key hs.1 (fun r r' he hp => by rw [← txtOf_congr he]; exact hp),
        key hs.2 (fun r r' he hp => by rw [← txtOf_congr he]; exact hp)⟩

/-- **attribute values on the same records in another order: equal for every key without a
conflict** (the key occurs in at most one TXT record, or with the same value in all) -/
theorem fromRecords_sameRecs_lookup {service : Name} {l1 l2 : List RR} (hs : SameRecs l1 l2)
    {i1 i2 : Instance} (h1 : fromRecords service l1 = some i1)
    (h2 : fromRecords service l2 = some i2) {k : String}
    (hagree : ∀ r ∈ l1, ∀ r' ∈ l1, ∀ v v', TxtGives r k v → TxtGives r' k v' → v = v') :
    i1.attrs.lookup k = i2.attrs.lookup k := by
  by_cases hex : ∃ r ∈ l1, ∃ v, TxtGives r k v
  · obtain ⟨r, hr, v, hg⟩ := hex
    rw [fromRecords_attr_of_agree h1 ⟨r, hr, hg⟩ (fun r' hr' v' hg' => hagree r' hr' r hr v' v hg' hg)]
    obtain ⟨r2, hr2, he⟩ := hs.1 r hr
    symm
    apply fromRecords_attr_of_agree h2 ⟨r2, hr2, hg.congr he⟩
    intro x hx v' hg'
    obtain ⟨x1, hx1, he1⟩ := hs.2 x hx
    exact hagree x1 hx1 r hr v' v (hg'.congr he1) hg
  · have hno1 : ∀ r ∈ l1, ∀ v, ¬ TxtGives r k v := fun r hr v hg => hex ⟨r, hr, v, hg⟩
    have hno2 : ∀ r ∈ l2, ∀ v, ¬ TxtGives r k v := by
      intro r hr v hg
      obtain ⟨r1, hr1, he⟩ := hs.2 r hr
      exact hno1 r1 hr1 v (hg.congr he)
    rw [fromRecords_attr_none h1 hno1, fromRecords_attr_none h2 hno2]

/-- **attribute values on the same records in another order: for a key with a conflict, the value
SOME record of the original list gives** -/
theorem fromRecords_sameRecs_lookup_some {service : Name} {l1 l2 : List RR} (hs : SameRecs l1 l2)
    {i2 : Instance} (h2 : fromRecords service l2 = some i2) {k : String}
    (hex : ∃ r ∈ l1, ∃ v, TxtGives r k v) :
    ∃ r ∈ l1, ∃ v, TxtGives r k v ∧ i2.attrs.lookup k = some v := by
  obtain ⟨r, hr, v, hg⟩ := hex
  obtain ⟨r2, hr2, he⟩ := hs.1 r hr
  obtain ⟨x, hx, v', hg', hl⟩ := fromRecords_attr_some_record h2 ⟨r2, hr2, v, hg.congr he⟩
  obtain ⟨x1, hx1, he1⟩ := hs.2 x hx
  exact ⟨x1, hx1, v', hg'.congr he1, hl⟩

/-- **Item 1 (a), `List.Perm` form.** For two iteration orders `l1 ~ l2` of the records of one
owner: `from_records` gives an instance for both or for neither, with the same name, the same
address set, the same port set, the same attribute keys. -/
theorem fromRecords_perm {service o : Name} {l1 l2 : List RR} (hp : l1.Perm l2)
    (ho : ∀ r ∈ l1, r.name = o) {i1 : Instance} (h1 : fromRecords service l1 = some i1) :
    ∃ i2, fromRecords service l2 = some i2 ∧ i1.name = i2.name ∧
      (∀ x, x ∈ i1.ips ↔ x ∈ i2.ips) ∧ (∀ x, x ∈ i1.ports ↔ x ∈ i2.ports) ∧
      (∀ k, k ∈ i1.attrs.keys ↔ k ∈ i2.attrs.keys) := by
  obtain ⟨hsome, hrest⟩ := fromRecords_sameRecs (service := service) (SameRecs.of_perm hp)
  rw [h1] at hsome
  cases h2 : fromRecords service l2 with
  | none => rw [h2] at hsome; cases hsome
  | some i2 =>
    obtain ⟨a, b, c, d⟩ := hrest i1 i2 h1 h2
    exact ⟨i2, rfl, a o ho, b, c, d⟩

/-- **Item 1 (a), attribute values**: invariant under permutation for every key that occurs in at
most one TXT record or with the same value in all. -/
theorem fromRecords_perm_lookup {service : Name} {l1 l2 : List RR} (hp : l1.Perm l2)
    {i1 i2 : Instance} (h1 : fromRecords service l1 = some i1)
    (h2 : fromRecords service l2 = some i2) {k : String}
    (hagree : ∀ r ∈ l1, ∀ r' ∈ l1, ∀ v v', TxtGives r k v → TxtGives r' k v' → v = v') :
    i1.attrs.lookup k = i2.attrs.lookup k :=
  fromRecords_sameRecs_lookup (SameRecs.of_perm hp) h1 h2 hagree

/-- **Item 1 (a), the case "the key occurs in at most one TXT record"** -/
theorem fromRecords_perm_lookup_one_record {service : Name} {l1 l2 : List RR} (hp : l1.Perm l2)
    {i1 i2 : Instance} (h1 : fromRecords service l1 = some i1)
    (h2 : fromRecords service l2 = some i2) {k : String}
    (hone : ∀ r ∈ l1, ∀ r' ∈ l1, ∀ v v', TxtGives r k v → TxtGives r' k v' → r = r') :
    i1.attrs.lookup k = i2.attrs.lookup k :=
  fromRecords_perm_lookup hp h1 h2 (fun r hr r' hr' v v' hg hg' => by
    have := hone r hr r' hr' v v' hg hg'
    subst this
    exact hg.functional hg')

/-- **Item 1 (b)**: for a key that several TXT records give different values, every permutation
reports the value of SOME of them. -/
theorem fromRecords_perm_lookup_some {service : Name} {l1 l2 : List RR} (hp : l1.Perm l2)
    {i2 : Instance} (h2 : fromRecords service l2 = some i2) {k : String}
    (hex : ∃ r ∈ l1, ∃ v, TxtGives r k v) :
    ∃ r ∈ l1, ∃ v, TxtGives r k v ∧ i2.attrs.lookup k = some v :=
  fromRecords_sameRecs_lookup_some (SameRecs.of_perm hp) h2 hex

/-! #### a bucket iterated in another order -/

/-- the live records of a bucket iterated in another order are the same records in another order -/
theorem livePick_perm {b b' : Bucket} (h : b.Perm b') (now : Nat) :
    (livePick now b).Perm (livePick now b') :=
  (h.filter _).map _

/-- **`get_known_services` on one bucket, whatever the iteration order of its `HashMap`.** `b` is
the model's bucket (insertion order), `b'` the same entries in any other order (what Rust's hasher
yields), all owned by one name. Both yield an instance or neither does; the two instances have the
same name, the same address set, port set and attribute keys, the same value for every key whose
live TXT records agree, and for the other keys the value of SOME live TXT record. -/
theorem bucketInstance_any_order {service o : Name} {now : Nat} {b b' : Bucket} (hp : b.Perm b')
    (ho : ∀ e ∈ b, e.1.name = o) :
    (bucketInstance service now b = none ↔ bucketInstance service now b' = none) ∧
    ∀ i i', bucketInstance service now b = some i → bucketInstance service now b' = some i' →
      i.name = i'.name ∧ (∀ x, x ∈ i.ips ↔ x ∈ i'.ips) ∧ (∀ x, x ∈ i.ports ↔ x ∈ i'.ports) ∧
      (∀ k, k ∈ i.attrs.keys ↔ k ∈ i'.attrs.keys) ∧
      (∀ k, (∀ r ∈ livePick now b, ∀ r' ∈ livePick now b, ∀ v v',
          TxtGives r k v → TxtGives r' k v' → v = v') → i.attrs.lookup k = i'.attrs.lookup k) ∧
      (∀ k, k ∈ i.attrs.keys →
        ∃ r ∈ livePick now b, ∃ v, TxtGives r k v ∧ i'.attrs.lookup k = some v) := by
  have hl := livePick_perm hp now
  have hown : ∀ r ∈ livePick now b, r.name = o := by
    intro r hr
    unfold livePick at hr
    obtain ⟨e, he, rfl⟩ := List.mem_map.mp hr
    exact ho e (List.mem_filter.mp he).1
  have hemp : (livePick now b).isEmpty = (livePick now b').isEmpty := by
    rw [Bool.eq_iff_iff, List.isEmpty_iff, List.isEmpty_iff]
    exact ⟨fun h => by rw [h] at hl; exact hl.symm.eq_nil, fun h => by rw [h] at hl; exact hl.eq_nil⟩
  obtain ⟨hsome, hrest⟩ := fromRecords_sameRecs (service := service) (SameRecs.of_perm hl)
  constructor
  · unfold bucketInstance
    rw [hemp]
    split
    · simp
    · rw [← Option.isNone_iff_eq_none, ← Option.isNone_iff_eq_none, ← Option.not_isSome,
        ← Option.not_isSome, hsome]
  · intro i i' h h'
    unfold bucketInstance at h h'
    rw [← hemp] at h'
    split at h
    · cases h
    · rename_i hne
      rw [if_neg hne] at h'
      obtain ⟨a, b1, c, d⟩ := hrest i i' h h'
      refine ⟨a o hown, b1, c, d, fun k hk => fromRecords_perm_lookup hl h h' hk, ?_⟩
      intro k hk
      apply fromRecords_perm_lookup_some hl h'
      obtain ⟨r, hr, new, hn, hk'⟩ := (fromRecords_attr_keys_iff h k).mp hk
      obtain ⟨v, hv⟩ := TxtGives.of_key_mem hn hk'
      exact ⟨r, hr, v, hv⟩

/-! #### what the records `into_records` makes contribute -/

/-- the address record of `ip` contributes `ip` -/
theorem ipOf_mkRR_ip (full : Name) (ttl : Nat) (ip : Bool × Nat) :
    ipOf (mkRR full ttl (ipRData ip)) = some ip := by
  obtain ⟨b, a⟩ := ip; cases b <;> rfl

/-- the addresses the records of an instance description contribute: its addresses -/
theorem exists_ipOf_instRecords (full : Name) (ips : List (Bool × Nat)) (ports : List Nat)
    (ss : List Bytes) (ttl : Nat) (x : Bool × Nat) :
    (∃ r ∈ instRecords full ips ports ss ttl, ipOf r = some x) ↔ x ∈ ips := by
  constructor
  · rintro ⟨r, hr, hx⟩
    simp only [instRecords, List.mem_append, List.mem_map, List.mem_singleton] at hr
    rcases hr with ⟨ip, hip, rfl⟩ | ⟨p, _, rfl⟩ | rfl
    · rw [ipOf_mkRR_ip] at hx; cases hx; exact hip
    · cases hx
    · cases hx
  · intro hx
    refine ⟨mkRR full ttl (ipRData x), ?_, ipOf_mkRR_ip _ _ _⟩
    simp only [instRecords, List.mem_append, List.mem_map]
    exact .inl ⟨x, hx, rfl⟩

/-- the ports the records of an instance description contribute: its ports -/
theorem exists_portOf_instRecords (full : Name) (ips : List (Bool × Nat)) (ports : List Nat)
    (ss : List Bytes) (ttl : Nat) (x : Nat) :
    (∃ r ∈ instRecords full ips ports ss ttl, portOf r = some x) ↔ x ∈ ports := by
  constructor
  · rintro ⟨r, hr, hx⟩
    simp only [instRecords, List.mem_append, List.mem_map, List.mem_singleton] at hr
    rcases hr with ⟨ip, _, rfl⟩ | ⟨p, hp, rfl⟩ | rfl
    · obtain ⟨b, a⟩ := ip; cases b <;> cases hx
    · cases hx; exact hp
    · cases hx
  · intro hx
    refine ⟨mkRR full ttl (srvRData full x), ?_, rfl⟩
    simp only [instRecords, List.mem_append, List.mem_map]
    exact .inr (.inl ⟨x, hx, rfl⟩)

/-- the attribute values the records of an instance description give: those of its TXT strings -/
theorem exists_txtGives_instRecords (full : Name) (ips : List (Bool × Nat)) (ports : List Nat)
    (ss : List Bytes) (ttl : Nat) (k : String) (v : Option String) :
    (∃ r ∈ instRecords full ips ports ss ttl, TxtGives r k v) ↔ (k, v) ∈ txtAttrs ss := by
  constructor
  · rintro ⟨r, hr, new, hn, hkv⟩
    simp only [instRecords, List.mem_append, List.mem_map, List.mem_singleton] at hr
    rcases hr with ⟨ip, _, rfl⟩ | ⟨p, _, rfl⟩ | rfl
    · obtain ⟨b, a⟩ := ip; cases b <;> cases hn
    · cases hn
    · cases hn; exact hkv
  · intro h
    refine ⟨mkRR full ttl (.flat 16 [.strs ss]), ?_, txtAttrs ss, rfl, h⟩
    simp [instRecords]

/-- the attributes of one TXT record form a map: a key has one value -/
theorem txtAttrs_functional (ss : List Bytes) {k : String} {v v' : Option String}
    (h : (k, v) ∈ txtAttrs ss) (h' : (k, v') ∈ txtAttrs ss) : v = v' := by
  have hn : (txtAttrs ss).keys.Nodup := txtOf_keys_nodup (r := mkRR [] 0 (txtRData ss)) rfl
  have h1 := Attrs.lookup_of_mem_nodup hn h
  rw [Attrs.lookup_of_mem_nodup hn h'] at h1
  cases h1; rfl

/-! #### changed data, corrected -/

/-- while both receptions are alive, the live records of the bucket are the records of both
announcements (a record announced twice is kept once) -/
theorem liveTwo_sameRecs_both_alive (rs1 rs2 : List RR) {e1 e2 now' : Nat} (h1 : now' < e1)
    (h2 : now' < e2) : SameRecs (liveTwo rs1 rs2 e1 e2 now') (rs1 ++ rs2) := by
  unfold liveTwo
  constructor
  · intro r hr
    refine ⟨r, ?_, rrEq_refl r⟩
    rcases List.mem_append.mp hr with h | h
    · exact List.mem_append_left _ (List.mem_filter.mp h).1
    · exact List.mem_append_right _ (List.mem_filter.mp h).1
  · intro r hr
    have hin1 : ∀ x ∈ rs1, x ∈ rs1.filter (fun r => if rs2.any (fun r2 => rrEq r r2) = true
        then decide (now' < e2) else decide (now' < e1)) := by
      intro x hx
      rw [List.mem_filter]
      refine ⟨hx, ?_⟩
      split <;> simp [h1, h2]
    rcases List.mem_append.mp hr with h | h
    · exact ⟨r, List.mem_append_left _ (hin1 r h), rrEq_refl r⟩
    · by_cases ha : rs1.any (fun r1 => rrEq r1 r) = true
      · obtain ⟨r1, hr1, he⟩ := List.any_eq_true.mp ha
        exact ⟨r1, List.mem_append_left _ (hin1 r1 hr1), rrEq_symm he⟩
      · refine ⟨r, List.mem_append_right _ ?_, rrEq_refl r⟩
        rw [List.mem_filter]
        exact ⟨h, by simp [ha, h2]⟩

/-- **Changed data, while both announcements are alive, for EVERY iteration order of the bucket**
(the corrected `changed_data_union`). `l` is any list holding the records of both announcements of
`inst.service` — in any order, a record of both once or twice. `from_records` builds ONE instance
named `inst` whose addresses are the union, whose ports are the union, whose attribute keys are the
union; a key of only one announcement, or with the same value in both, has that value; a key whose
value CHANGED has one of the two values — which one depends on the order (`HashMap` iteration in
Rust: unspecified; insertion order in the model: the new one). -/
theorem changed_data_union_any_order (service : Name) (inst : Label)
    (ips1 ips2 : List (Bool × Nat)) (ports1 ports2 : List Nat) (ss1 ss2 : List Bytes)
    (ttl1 ttl2 : Nat) {l : List RR}
    (hl : SameRecs l (instRecords (inst :: service) ips1 ports1 ss1 ttl1 ++
      instRecords (inst :: service) ips2 ports2 ss2 ttl2)) :
    ∃ i, fromRecords service l = some i ∧ i.name = inst ∧
      (∀ x, x ∈ i.ips ↔ x ∈ ips1 ∨ x ∈ ips2) ∧ (∀ x, x ∈ i.ports ↔ x ∈ ports1 ∨ x ∈ ports2) ∧
      (∀ k, k ∈ i.attrs.keys ↔ k ∈ (txtAttrs ss1).keys ∨ k ∈ (txtAttrs ss2).keys) ∧
      (∀ k v, (k, v) ∈ txtAttrs ss1 → k ∉ (txtAttrs ss2).keys → i.attrs.lookup k = some v) ∧
      (∀ k v, (k, v) ∈ txtAttrs ss2 → k ∉ (txtAttrs ss1).keys → i.attrs.lookup k = some v) ∧
      (∀ k v, (k, v) ∈ txtAttrs ss1 → (k, v) ∈ txtAttrs ss2 → i.attrs.lookup k = some v) ∧
      (∀ k v1 v2, (k, v1) ∈ txtAttrs ss1 → (k, v2) ∈ txtAttrs ss2 →
        i.attrs.lookup k = some v1 ∨ i.attrs.lookup k = some v2) := by
  -- the three views of the union of the two record sets
  have vip : ∀ x, (∃ r ∈ l, ipOf r = some x) ↔ x ∈ ips1 ∨ x ∈ ips2 := by
    intro x
    rw [← exists_ipOf_instRecords (inst :: service) ips1 ports1 ss1 ttl1,
      ← exists_ipOf_instRecords (inst :: service) ips2 ports2 ss2 ttl2]
    constructor
    · rintro ⟨r, hr, hx⟩
      obtain ⟨r', hr', he⟩ := hl.1 r hr
      rw [ipOf_congr he] at hx
      rcases List.mem_append.mp hr' with h | h
      · exact .inl ⟨r', h, hx⟩
      · exact .inr ⟨r', h, hx⟩
    · rintro (⟨r, hr, hx⟩ | ⟨r, hr, hx⟩)
      · obtain ⟨r', hr', he⟩ := hl.2 r (List.mem_append_left _ hr)
        exact ⟨r', hr', by rw [← ipOf_congr he]; exact hx⟩
      · obtain ⟨r', hr', he⟩ := hl.2 r (List.mem_append_right _ hr)
        exact ⟨r', hr', by rw [← ipOf_congr he]; exact hx⟩
  have vport : ∀ x, (∃ r ∈ l, portOf r = some x) ↔ x ∈ ports1 ∨ x ∈ ports2 := by
    intro x
    rw [← exists_portOf_instRecords (inst :: service) ips1 ports1 ss1 ttl1,
      ← exists_portOf_instRecords (inst :: service) ips2 ports2 ss2 ttl2]
    constructor
    · rintro ⟨r, hr, hx⟩
      obtain ⟨r', hr', he⟩ := hl.1 r hr
      rw [portOf_congr he] at hx
      rcases List.mem_append.mp hr' with h | h
      · exact .inl ⟨r', h, hx⟩
      · exact .inr ⟨r', h, hx⟩
    · rintro (⟨r, hr, hx⟩ | ⟨r, hr, hx⟩)
      · obtain ⟨r', hr', he⟩ := hl.2 r (List.mem_append_left _ hr)
        exact ⟨r', hr', by rw [← portOf_congr he]; exact hx⟩
      · obtain ⟨r', hr', he⟩ := hl.2 r (List.mem_append_right _ hr)
        exact ⟨r', hr', by rw [← portOf_congr he]; exact hx⟩
  have vtxt : ∀ k v, (∃ r ∈ l, TxtGives r k v) ↔ (k, v) ∈ txtAttrs ss1 ∨ (k, v) ∈ txtAttrs ss2 := by
    intro k v
    rw [← exists_txtGives_instRecords (inst :: service) ips1 ports1 ss1 ttl1,
      ← exists_txtGives_instRecords (inst :: service) ips2 ports2 ss2 ttl2]
    constructor
    · rintro ⟨r, hr, hx⟩
      obtain ⟨r', hr', he⟩ := hl.1 r hr
      rcases List.mem_append.mp hr' with h | h
      · exact .inl ⟨r', h, hx.congr he⟩
      · exact .inr ⟨r', h, hx.congr he⟩
    · rintro (⟨r, hr, hx⟩ | ⟨r, hr, hx⟩)
      · obtain ⟨r', hr', he⟩ := hl.2 r (List.mem_append_left _ hr)
        exact ⟨r', hr', hx.congr he⟩
      · obtain ⟨r', hr', he⟩ := hl.2 r (List.mem_append_right _ hr)
        exact ⟨r', hr', hx.congr he⟩
  have hown : ∀ r ∈ l, r.name = inst :: service := by
    intro r hr
    obtain ⟨r', hr', he⟩ := hl.1 r hr
    rw [rrEq_name he]
    rcases List.mem_append.mp hr' with h | h <;> exact (mem_instRecords h).1
  -- an instance is built
  have hsome : (fromRecords service l).isSome = true := by
    rw [fromRecords_isSome_iff]
    have hne := instRecords_ne_nil (inst :: service) ips1 ports1 ss1 ttl1
    obtain ⟨r0, hr0⟩ := List.exists_mem_of_ne_nil _ hne
    obtain ⟨r', hr', _⟩ := hl.2 r0 (List.mem_append_left _ hr0)
    exact ⟨r', hr', by rw [hown r' hr']; exact instLabel_subdomain inst service⟩
  obtain ⟨i, hi⟩ := Option.isSome_iff_exists.mp hsome
  refine ⟨i, hi, ?_, ?_, ?_, ?_, ?_, ?_, ?_, ?_⟩
  · obtain ⟨pre, hpre, hn⟩ := fromRecords_name_one_owner hi hown
    have hw : Name.without (inst :: service) service = some [inst] :=
      (without_iff _ _ _).mpr ⟨by simp, rfl⟩
    rw [hw] at hpre; cases hpre
    exact hn
  · intro x; rw [fromRecords_ips_iff hi, vip]
  · intro x; rw [fromRecords_ports_iff hi, vport]
  · intro k
    rw [fromRecords_attr_keys_iff hi, Attrs.mem_keys_iff, Attrs.mem_keys_iff]
    constructor
    · rintro ⟨r, hr, new, hn, hk⟩
      obtain ⟨v, hv⟩ := TxtGives.of_key_mem hn hk
      rcases (vtxt k v).mp ⟨r, hr, hv⟩ with h | h
      · exact .inl ⟨v, h⟩
      · exact .inr ⟨v, h⟩
    · rintro (⟨v, h⟩ | ⟨v, h⟩)
      · obtain ⟨r, hr, hg⟩ := (vtxt k v).mpr (.inl h)
        obtain ⟨new, h1, h2⟩ := hg.key_mem
        exact ⟨r, hr, new, h1, h2⟩
      · obtain ⟨r, hr, hg⟩ := (vtxt k v).mpr (.inr h)
        obtain ⟨new, h1, h2⟩ := hg.key_mem
        exact ⟨r, hr, new, h1, h2⟩
  · intro k v h1 hk2
    apply fromRecords_attr_of_agree hi ((vtxt k v).mpr (.inl h1))
    intro r hr v' hg
    rcases (vtxt k v').mp ⟨r, hr, hg⟩ with h | h
    · exact txtAttrs_functional ss1 h h1
    · exact absurd ((Attrs.mem_keys_iff _ k).mpr ⟨v', h⟩) hk2
  · intro k v h2 hk1
    apply fromRecords_attr_of_agree hi ((vtxt k v).mpr (.inr h2))
    intro r hr v' hg
    rcases (vtxt k v').mp ⟨r, hr, hg⟩ with h | h
    · exact absurd ((Attrs.mem_keys_iff _ k).mpr ⟨v', h⟩) hk1
    · exact txtAttrs_functional ss2 h h2
  · intro k v h1 h2
    apply fromRecords_attr_of_agree hi ((vtxt k v).mpr (.inl h1))
    intro r hr v' hg
    rcases (vtxt k v').mp ⟨r, hr, hg⟩ with h | h
    · exact txtAttrs_functional ss1 h h1
    · exact txtAttrs_functional ss2 h h2
  · intro k v1 v2 h1 h2
    obtain ⟨r, hr, v, hg, hlk⟩ := fromRecords_attr_some_record hi
      (Exists.elim ((vtxt k v1).mpr (.inl h1)) fun r hr => ⟨r, hr.1, v1, hr.2⟩)
    rcases (vtxt k v).mp ⟨r, hr, hg⟩ with h | h
    · exact .inl (by rw [hlk, txtAttrs_functional ss1 h h1])
    · exact .inr (by rw [hlk, txtAttrs_functional ss2 h h2])

/-- **Corrected `changed_data_union` / `known_changed_data` for `get_known_services`.** After the
announcement of `inst.service` at `t1` and a CHANGED announcement at `t2`, while both are alive,
`get_known_services` reports — besides what the store knew — ONE instance named `inst`: its
addresses and ports are the unions, its attribute keys the union; each key present in only one of
the two announcements, or with equal values, has that value; a key whose value changed has one of
the two values. Nothing here depends on the order of the bucket, so it holds of the Rust code
(`changed_data_union_any_order` is the statement for every iteration order). -/
theorem changed_data_union_audit {service own : Name} (inst : Label) (hown : own ≠ inst :: service)
    {s0 : Store} (hI : Inv s0) (hnode : s0.nodeExists (getKey service) = true)
    (hfree : OwnerFree s0 (inst :: service))
    (ips1 ips2 : List (Bool × Nat)) (ports1 ports2 : List Nat) (ss1 ss2 : List Bytes)
    (ttl1 ttl2 t1 t2 now' : Nat) (hips1 : ips1.Nodup) (hports1 : ports1.Nodup)
    (hips2 : ips2.Nodup) (hports2 : ports2.Nodup)
    (h1 : now' < t1 + 1000 * ttl1) (h2 : now' < t2 + 1000 * ttl2) :
    ∃ i, (known (ingest (announce (instRecords (inst :: service) ips2 ports2 ss2 ttl2)) service own
        (ingest (announce (instRecords (inst :: service) ips1 ports1 ss1 ttl1)) service own s0 t1)
        t2) service now').Perm (i :: known s0 service now') ∧ i.name = inst ∧
      (∀ x, x ∈ i.ips ↔ x ∈ ips1 ∨ x ∈ ips2) ∧ (∀ x, x ∈ i.ports ↔ x ∈ ports1 ∨ x ∈ ports2) ∧
      (∀ k, k ∈ i.attrs.keys ↔ k ∈ (txtAttrs ss1).keys ∨ k ∈ (txtAttrs ss2).keys) ∧
      (∀ k v, (k, v) ∈ txtAttrs ss1 → k ∉ (txtAttrs ss2).keys → i.attrs.lookup k = some v) ∧
      (∀ k v, (k, v) ∈ txtAttrs ss2 → k ∉ (txtAttrs ss1).keys → i.attrs.lookup k = some v) ∧
      (∀ k v, (k, v) ∈ txtAttrs ss1 → (k, v) ∈ txtAttrs ss2 → i.attrs.lookup k = some v) ∧
      (∀ k v1 v2, (k, v1) ∈ txtAttrs ss1 → (k, v2) ∈ txtAttrs ss2 →
        i.attrs.lookup k = some v1 ∨ i.attrs.lookup k = some v2) := by
  have hk := known_two_receptions hI hnode (instRecords_oneOwner _ ss1 ttl1 hips1 hports1)
    (instRecords_oneOwner _ ss2 ttl2 hips2 hports2) (instKey_prefix inst service) hfree.1
    (hfree.notAuth_inst _ _ _ _) (hfree.notAuth_inst _ _ _ _) t1 t2 now'
  have hsr := liveTwo_sameRecs_both_alive (instRecords (inst :: service) ips1 ports1 ss1 ttl1)
    (instRecords (inst :: service) ips2 ports2 ss2 ttl2) h1 h2
  obtain ⟨i, hi, hrest⟩ := changed_data_union_any_order service inst ips1 ips2 ports1 ports2 ss1
    ss2 ttl1 ttl2 hsr
  refine ⟨i, ?_, hrest⟩
  rw [ingest_announce service own inst hown, ingest_announce service own inst hown]
  have hne : (liveTwo (instRecords (inst :: service) ips1 ports1 ss1 ttl1)
      (instRecords (inst :: service) ips2 ports2 ss2 ttl2)
      (t1 + 1000 * ttl1) (t2 + 1000 * ttl2) now').isEmpty = false := by
    rw [Bool.eq_false_iff]
    intro he
    rw [List.isEmpty_iff] at he
    rw [he] at hi
    simp [fromRecords] at hi
  rw [hne, hi] at hk
  exact hk

namespace C15AuditEx
open C15Ex (service own printer)

/-- a TXT record `k=1` of `printer._http._tcp.local` -/
def txtK1 : RR := mkRR (printer :: service) 120 (.flat 16 [.strs [[107, 61, 49]]])
/-- a TXT record `k=2` of the same owner -/
def txtK2 : RR := mkRR (printer :: service) 120 (.flat 16 [.strs [[107, 61, 50]]])

/-- **The order really matters for a conflicting key**: the same two TXT records in the two
possible orders give `k ↦ 2` and `k ↦ 1`. The model's bucket fixes the order (insertion); Rust's
`HashMap` iteration does not, so for such a key only `fromRecords_perm_lookup_some` holds of Rust. -/
theorem attr_conflict_order_matters :
    [txtK1, txtK2].Perm [txtK2, txtK1] ∧
    (fromRecords service [txtK1, txtK2]).map (·.attrs) = some [("k", some "2")] ∧
    (fromRecords service [txtK2, txtK1]).map (·.attrs) = some [("k", some "1")] :=
  ⟨List.Perm.swap _ _ _, by rfl, by rfl⟩

/-- the hypotheses of `fromRecords_perm_lookup_some` on that pair, and its conclusion -/
example : ∃ r ∈ [txtK1, txtK2], ∃ v, TxtGives r "k" v ∧
    (some "1" : Option String) = v :=
  ⟨txtK1, by simp, some "1", ⟨_, rfl, by decide⟩, rfl⟩

/-- the printer announced at 1 s with `a=1 b c=` and at 2 s with `a=2` (the scenario of
`C15MultiEx`), the listener's store afterwards -/
def changedStore : Store :=
  ingest (announce (instRecords (printer :: service)
      [(false, 0xC0A80001), (false, 0xC0A80009)] [8081] [[97, 61, 50]] 120)) service own
    (ingest (C15MultiEx.printerAnn.packet service) service own (discoveryInit service own []) 1000)
    2000

/-- the printer's bucket in that store, in the model's (insertion) order -/
def changedBucket : Bucket := (changedStore.bucket (getKey (printer :: service))).getD []

/-- **`changed_data_union` says "the new value overwrites": that is the model's bucket order.**
The same bucket iterated in the reverse order (a possible `HashMap` order) reports the OLD value
`a ↦ 1`; addresses, ports and the other keys are the same sets. -/
theorem changed_data_conflict_unspecified :
    changedBucket.Perm changedBucket.reverse ∧
    (bucketInstance service 3000 changedBucket).map (·.attrs.lookup "a") = some (some (some "2")) ∧
    (bucketInstance service 3000 changedBucket.reverse).map (·.attrs.lookup "a") =
      some (some (some "1")) ∧
    (bucketInstance service 3000 changedBucket).map (·.attrs.lookup "b") =
      (bucketInstance service 3000 changedBucket.reverse).map (·.attrs.lookup "b") :=
  ⟨(List.reverse_perm _).symm, by rfl, by rfl, by rfl⟩

/-- `changed_data_union_any_order` applies to both orders -/
example : SameRecs (livePick 3000 changedBucket.reverse)
    (instRecords (printer :: service) C15Ex.ips C15Ex.ports [[97, 61, 49], [98], [99, 61]] 120 ++
      instRecords (printer :: service) [(false, 0xC0A80001), (false, 0xC0A80009)] [8081]
        [[97, 61, 50]] 120) :=
  by decide

end C15AuditEx

/-! ### 2. the store key: `keyVia_injective_iff`, bounded -/

/-- all byte values -/
def allBytes : List UInt8 := (List.range 256).map UInt8.ofNat

/-- every byte is in `allBytes` -/
theorem mem_allBytes (b : UInt8) : b ∈ allBytes :=
  List.mem_map.mpr ⟨b.toNat, List.mem_range.mpr (UInt8.toNat_lt b), UInt8.ofNat_toNat⟩

/-- all byte lists of length at most `n` (a finite list; only its finiteness is used) -/
def listsUpTo : Nat → List Bytes
  | 0 => [[]]
  | n + 1 => [] :: (listsUpTo n).flatMap (fun l => allBytes.map (· :: l))

/-- every byte list of length at most `n` is in `listsUpTo n` -/
theorem mem_listsUpTo (n : Nat) (l : Bytes) (h : l.length ≤ n) : l ∈ listsUpTo n := by
  induction n generalizing l with
  | zero =>
    have : l = [] := List.length_eq_zero_iff.mp (by omega)
    simp [this, listsUpTo]
  | succ n ih =>
    cases l with
    | nil => simp [listsUpTo]
    | cons b t =>
      simp only [listsUpTo, List.mem_cons, List.mem_flatMap, List.mem_map]
      exact .inr ⟨t, ih t (by simpa using h), b, mem_allBytes b, rfl⟩

/-- pigeonhole: a duplicate-free list inside another list is not longer -/
theorem nodup_subset_length_le {α : Type} [DecidableEq α] {l m : List α} (hn : l.Nodup)
    (hs : ∀ a ∈ l, a ∈ m) : l.length ≤ m.length := by
  induction l generalizing m with
  | nil => simp
  | cons a t ih =>
    rw [List.nodup_cons] at hn
    have ha : a ∈ m := hs a (by simp)
    have := ih (m := m.erase a) hn.2 (fun x hx =>
      (List.mem_erase_of_ne (fun e => hn.1 (by rw [← e]; exact hx))).mpr
        (hs x (List.mem_cons_of_mem _ hx)))
    rw [List.length_erase_of_mem ha] at this
    have hpos : 0 < m.length := List.length_pos_of_mem ha
    simp only [List.length_cons]
    omega

/-- **Why `keyVia_injective_iff` of `Props/C13Keys.lean` is vacuous**: no rendering all of whose
images are shorter than 256 bytes is injective on ALL byte lists (infinitely many lists, finitely
many images), and then no such key separates all names: both sides of that equivalence are
false. -/
theorem keyVia_injective_iff_vacuous {f : Label → Label} (hf : ∀ l, (f l).length < 256) :
    ¬ (∀ l₁ l₂, f l₁ = f l₂ → l₁ = l₂) ∧ ¬ (∀ a b : Name, keyVia f a = keyVia f b → a = b) := by
  have hno : ¬ (∀ l₁ l₂, f l₁ = f l₂ → l₁ = l₂) := by
    intro hinj
    let N := (listsUpTo 255).length
    let imgs : List Bytes := (List.range (N + 1)).map (fun n => f (List.replicate n 0))
    have hnd : imgs.Nodup := by
      refine List.Pairwise.map _ ?_ (List.nodup_range (n := N + 1))
      intro a b hab he
      have := congrArg List.length (hinj _ _ he)
      simp only [List.length_replicate] at this
      exact hab this
    have hsub : ∀ x ∈ imgs, x ∈ listsUpTo 255 := by
      intro x hx
      obtain ⟨n, _, rfl⟩ := List.mem_map.mp hx
      exact mem_listsUpTo 255 _ (by have := hf (List.replicate n 0); omega)
    have := nodup_subset_length_le hnd hsub
    simp only [imgs, List.length_map, List.length_range] at this
    omega
  exact ⟨hno, fun h => hno ((keyVia_injective_iff hf).mp h)⟩

/-- a one-label name with a label of 1..63 bytes is a name `Name::parse` / `Name::new` can yield -/
theorem wf_singleton {l : Label} (h1 : 1 ≤ l.length) (h2 : l.length ≤ 63) : Name.WF [l] := by
  refine ⟨?_, ?_⟩
  · intro x hx; rw [List.mem_singleton] at hx; subst hx; exact ⟨h1, h2⟩
  · simp only [Name.wireLen]; omega

/-- a map that is injective on the members of two lists separates the lists -/
theorem map_inj_on {α β : Type} {f : α → β} {P : α → Prop} (hinj : ∀ x y, P x → P y → f x = f y → x = y) :
    ∀ {a b : List α}, (∀ x ∈ a, P x) → (∀ x ∈ b, P x) → a.map f = b.map f → a = b := by
  intro a
  induction a with
  | nil => intro b _ _ h; cases b <;> simp_all
  | cons x xs ih =>
    intro b ha hb h
    cases b with
    | nil => simp at h
    | cons y ys =>
      simp only [List.map_cons, List.cons.injEq] at h
      rw [hinj x y (ha x (by simp)) (hb y (by simp)) h.1,
        ih (fun z hz => ha z (List.mem_cons_of_mem _ hz)) (fun z hz => hb z (List.mem_cons_of_mem _ hz))
          h.2]

/-- **The bounded version of `keyVia_injective_iff`** (not vacuous). For a rendering `f` that
keeps the labels a name can have — 1..63 bytes — shorter than 256 bytes: the key built from the
rendered labels separates all names that `Name::parse` / `Name::new` can produce exactly when the
rendering separates all such labels. -/
theorem keyVia_injective_iff_WF {f : Label → Label}
    (hf : ∀ l : Label, 1 ≤ l.length → l.length ≤ 63 → (f l).length < 256) :
    (∀ a b : Name, Name.WF a → Name.WF b → keyVia f a = keyVia f b → a = b) ↔
      (∀ l₁ l₂ : Label, 1 ≤ l₁.length → l₁.length ≤ 63 → 1 ≤ l₂.length → l₂.length ≤ 63 →
        f l₁ = f l₂ → l₁ = l₂) := by
  constructor
  · intro h l₁ l₂ a1 a2 b1 b2 hl
    have := h [l₁] [l₂] (wf_singleton a1 a2) (wf_singleton b1 b2) (keyVia_collides hl [])
    simpa using this
  · intro h a b ha hb hk
    have hok : ∀ n : Name, Name.WF n → NameOK (n.map f) := by
      intro n hn l hl
      obtain ⟨x, hx, rfl⟩ := List.mem_map.mp hl
      exact hf x (hn.1 x hx).1 (hn.1 x hx).2
    have hm : a.map f = b.map f := key_inj (hok a ha) (hok b hb) hk
    exact map_inj_on (P := fun l => 1 ≤ l.length ∧ l.length ≤ 63)
      (fun x y hx hy e => h x y hx.1 hx.2 hy.1 hy.2 e) ha.1 hb.1 hm

/-- **Not vacuous, positive side**: the model's key (`f = id`, the label bytes themselves)
satisfies the right-hand side, hence separates all well-formed names. -/
theorem keyVia_id_separates :
    (∀ l : Label, 1 ≤ l.length → l.length ≤ 63 → (id l).length < 256) ∧
    (∀ l₁ l₂ : Label, 1 ≤ l₁.length → l₁.length ≤ 63 → 1 ≤ l₂.length → l₂.length ≤ 63 →
      id l₁ = id l₂ → l₁ = l₂) ∧
    (∀ a b : Name, Name.WF a → Name.WF b → keyVia id a = keyVia id b → a = b) := by
  have h1 : ∀ l : Label, 1 ≤ l.length → l.length ≤ 63 → (id l).length < 256 := by
    intro l _ h; simp only [id]; omega
  have h2 : ∀ l₁ l₂ : Label, 1 ≤ l₁.length → l₁.length ≤ 63 → 1 ≤ l₂.length → l₂.length ≤ 63 →
      id l₁ = id l₂ → l₁ = l₂ := fun _ _ _ _ _ _ e => e
  exact ⟨h1, h2, (keyVia_injective_iff_WF h1).mpr h2⟩

/-- the lossy rendering of `Props/C13Keys.lean` makes a label at most three times as long -/
theorem lossyLabel_length_le (l : Label) : (lossyLabel l).length ≤ 3 * l.length := by
  unfold lossyLabel
  induction l with
  | nil => simp
  | cons b t ih =>
    rw [List.flatMap_cons, List.length_append, List.length_cons]
    split <;> simp only [List.length_cons, List.length_nil] <;> omega

/-- **Not vacuous, negative side**: the lossy text rendering meets the length hypothesis but not
the right-hand side (`\xE9` and `\xE8` are both rendered U+FFFD), so by the equivalence a key built
from it does NOT separate all well-formed names: `caf\xE9.local` and `caf\xE8.local` would share a
bucket. -/
theorem keyVia_lossy_merges :
    (∀ l : Label, 1 ≤ l.length → l.length ≤ 63 → (lossyLabel l).length < 256) ∧
    ¬ (∀ l₁ l₂ : Label, 1 ≤ l₁.length → l₁.length ≤ 63 → 1 ≤ l₂.length → l₂.length ≤ 63 →
      lossyLabel l₁ = lossyLabel l₂ → l₁ = l₂) ∧
    ¬ (∀ a b : Name, Name.WF a → Name.WF b → keyVia lossyLabel a = keyVia lossyLabel b → a = b) := by
  have h1 : ∀ l : Label, 1 ≤ l.length → l.length ≤ 63 → (lossyLabel l).length < 256 := by
    intro l _ h; have := lossyLabel_length_le l; omega
  have h2 : ¬ (∀ l₁ l₂ : Label, 1 ≤ l₁.length → l₁.length ≤ 63 → 1 ≤ l₂.length → l₂.length ≤ 63 →
      lossyLabel l₁ = lossyLabel l₂ → l₁ = l₂) := by
    intro h
    exact absurd (h [0xE9] [0xE8] (by decide) (by decide) (by decide) (by decide) (by decide))
      (by decide)
  exact ⟨h1, h2, fun h => h2 ((keyVia_injective_iff_WF h1).mp h)⟩

/-- the two well-formed names the lossy key merges -/
example : Name.WF [[0x63, 0x61, 0x66, 0xE9], [108, 111, 99, 97, 108]] ∧
    Name.WF [[0x63, 0x61, 0x66, 0xE8], [108, 111, 99, 97, 108]] ∧
    keyVia lossyLabel [[0x63, 0x61, 0x66, 0xE9], [108, 111, 99, 97, 108]] =
      keyVia lossyLabel [[0x63, 0x61, 0x66, 0xE8], [108, 111, 99, 97, 108]] := by decide

/-! ### 4. (first part) repeated records in one response change nothing -/

/-- putting back the bucket a key has changes nothing (store with the invariant) -/
theorem Store.setBucket_self {s : Store} (hI : Inv s) {k : Key} {b : Bucket}
    (h : s.bucket k = some b) : s.setBucket k b = s := by
  have hm := Store.bucket_mem h
  have hany : s.entries.any (·.1 == k) = true := List.any_eq_true.mpr ⟨(k, b), hm, by simp⟩
  unfold Store.setBucket
  rw [if_pos hany]
  obtain ⟨entries⟩ := s
  congr 1
  conv => rhs; rw [← List.map_id entries]
  apply List.map_congr_left
  intro e he
  obtain ⟨k1, b1⟩ := e
  by_cases hk : k1 = k
  · subst hk
    have : Store.bucket ⟨entries⟩ k1 = some b1 := hI.bucket_of_mem he
    rw [h] at this
    cases this
    simp
  · simp [hk]

/-- `HashMap::insert` of a record that is stored with that very value changes nothing -/
theorem Bucket.insert_noop {b : Bucket} (hp : b.Pairwise (fun a c => rrEq a.1 c.1 = false))
    {x' d : RR} {kind : Kind} (hm : (x', kind) ∈ b) (he : rrEq x' d = true) :
    b.insert d kind = b := by
  have hany : b.any (fun e => rrEq e.1 d) = true := List.any_eq_true.mpr ⟨_, hm, he⟩
  unfold Bucket.insert
  rw [if_pos hany]
  conv => rhs; rw [← List.map_id b]
  apply List.map_congr_left
  intro e hmem
  split
  · rename_i hed
    have h1 : b.get e.1 = some e.2 := Bucket.get_of_mem hp hmem
    have h2 : b.get x' = some kind := Bucket.get_of_mem hp hm
    rw [Bucket.get_congr b (rrEq_trans hed (rrEq_symm he)), h2] at h1
    cases h1
    rfl
  · rfl

/-- record `d` is settled in the store for reception time `now`: it is registered locally, or it
is cached with exactly the lifetime a reception at `now` gives it -/
def Settled (s : Store) (now : Nat) (d : RR) : Prop :=
  abs s d = some .auth ∨ abs s d = some (cachedAt now (effTtl d))

/-- **`add_cached_resource` of a settled record changes nothing** — the store is the same value,
so are all later answers. -/
theorem Store.addCached_noop {s : Store} (hI : Inv s) {d : RR} {now : Nat}
    (h : Settled s now d) : s.addCached d now = s := by
  unfold Store.addCached
  simp only
  rw [abs_getD]
  split
  · rfl
  · rename_i hna
    rcases h with h | h
    · exact absurd h hna
    · obtain ⟨b, x', hb, hx', he⟩ := mem_of_abs h
      rw [hb, Option.getD_some]
      have := Bucket.insert_noop (hI.nodup _ b (Store.bucket_mem hb)) hx' he
      unfold cachedAt effTtl at this
      rw [this]
      exact Store.setBucket_self hI hb

/-- a record is settled right after it has been cached -/
theorem Settled.addCached_self (s : Store) (d : RR) (now : Nat) :
    Settled (s.addCached d now) now d := by
  unfold Settled
  rw [abs_addCached, if_pos (rrEq_refl d)]
  split
  · exact .inl rfl
  · exact .inr rfl

/-- a settled record stays settled when other records are cached at the same time, equal records
with the same effective TTL included -/
theorem Settled.addCached {s : Store} {now : Nat} {d : RR} (h : Settled s now d) (x : RR)
    (hx : rrEq d x = true → effTtl x = effTtl d) : Settled (s.addCached x now) now d := by
  unfold Settled at h ⊢
  rw [abs_addCached]
  by_cases he : rrEq d x = true
  · rw [if_pos he]
    split
    · exact .inl rfl
    · right; rw [← hx he]; rfl
  · rw [if_neg he]; exact h

/-- an equal record with the same effective TTL is settled too -/
theorem Settled.congr {s : Store} {now : Nat} {d x : RR} (h : Settled s now d)
    (he : rrEq x d = true) (ht : effTtl x = effTtl d) : Settled s now x := by
  unfold Settled at h ⊢
  rw [abs_congr s he, ht]; exact h

/-- caching a run of records skips nothing when the copies of a settled record are left out -/
theorem foldl_addCached_skip_settled {s : Store} (hI : Inv s) {now : Nat} {d : RR}
    (hd : Settled s now d) (l : List RR)
    (hl : ∀ x ∈ l, rrEq x d = true → effTtl x = effTtl d) :
    l.foldl (fun st r => st.addCached r now) s =
      (l.filter (fun x => !rrEq x d)).foldl (fun st r => st.addCached r now) s := by
  induction l generalizing s with
  | nil => rfl
  | cons x xs ih =>
    have hxs : ∀ y ∈ xs, rrEq y d = true → effTtl y = effTtl d :=
      fun y hy => hl y (List.mem_cons_of_mem _ hy)
    by_cases he : rrEq x d = true
    · rw [List.foldl_cons, List.filter_cons_of_neg (by simp [he]),
        Store.addCached_noop hI (hd.congr he (hl x (by simp) he))]
      exact ih hI hd hxs
    · rw [List.foldl_cons, List.filter_cons_of_pos (by simp [he]), List.foldl_cons]
      exact ih (hI.addCached x now)
        (hd.addCached x (fun h => absurd (rrEq_symm h) he)) hxs

/-- `dedupRR` leaves pairwise different records -/
theorem dedupRR_pairwise (l : List RR) : (dedupRR l).Pairwise (fun a c => rrEq a c = false) := by
  induction l with
  | nil => exact List.Pairwise.nil
  | cons r rs ih =>
    simp only [dedupRR]
    rw [List.pairwise_cons]
    refine ⟨?_, ih.sublist List.filter_sublist⟩
    intro x hx
    have := (List.mem_filter.mp hx).2
    rw [rrEq_comm]
    simpa using this

/-- `dedupRR` of pairwise different records is the identity -/
theorem dedupRR_of_pairwise {l : List RR} (h : l.Pairwise (fun a c => rrEq a c = false)) :
    dedupRR l = l := by
  induction l with
  | nil => rfl
  | cons r rs ih =>
    rw [List.pairwise_cons] at h
    simp only [dedupRR, ih h.2]
    congr 1
    rw [List.filter_eq_self]
    intro x hx
    rw [rrEq_comm, h.1 x hx]; rfl

/-- **Item 4: `add_response_to_resources` is idempotent on repeated records.** Whatever the store
(with the invariant) and whatever the owners: caching a run of records at one time `now` gives the
SAME STORE as caching each distinct record (up to `PartialEq for ResourceRecord`) once, in the
order of first appearance — provided equal records carry the same effective TTL (copies of one
record do). -/
theorem foldl_addCached_dedup {s : Store} (hI : Inv s) (l : List RR) (now : Nat)
    (hc : ∀ a ∈ l, ∀ b ∈ l, rrEq a b = true → effTtl a = effTtl b) :
    l.foldl (fun st r => st.addCached r now) s =
      (dedupRR l).foldl (fun st r => st.addCached r now) s := by
  induction l generalizing s with
  | nil => rfl
  | cons r rs ih =>
    rw [List.foldl_cons, ih (hI.addCached r now)
      (fun a ha b hb => hc a (List.mem_cons_of_mem _ ha) b (List.mem_cons_of_mem _ hb))]
    simp only [dedupRR, List.foldl_cons]
    exact foldl_addCached_skip_settled (hI.addCached r now) (Settled.addCached_self s r now) _
      (fun x hx he => hc x (List.mem_cons_of_mem _ (mem_dedupRR hx)) r (by simp) he)

/-- the same for whole responses: a response with repeated records (anywhere in answers ++
additional) leaves the store it would leave with every distinct record once -/
theorem ingest_dedup {s : Store} (hI : Inv s) (p : Packet) (service full : Name) (now : Nat)
    (hc : ∀ a ∈ ingestRecords p service full, ∀ b ∈ ingestRecords p service full,
      rrEq a b = true → effTtl a = effTtl b) :
    ingest p service full s now =
      (dedupRR (ingestRecords p service full)).foldl (fun st r => st.addCached r now) s := by
  rw [ingest_eq_foldl_ingestRecords]
  exact foldl_addCached_dedup hI _ now hc

/-- records that repeat earlier ones add nothing -/
theorem foldl_addCached_append_covered {s : Store} (hI : Inv s) (l1 l2 : List RR) (now : Nat)
    (hc : ∀ a ∈ l1 ++ l2, ∀ b ∈ l1 ++ l2, rrEq a b = true → effTtl a = effTtl b)
    (hcov : ∀ x ∈ l2, l1.any (fun y => rrEq x y) = true) :
    (l1 ++ l2).foldl (fun st r => st.addCached r now) s =
      l1.foldl (fun st r => st.addCached r now) s := by
  rw [foldl_addCached_dedup hI (l1 ++ l2) now hc, foldl_addCached_dedup hI l1 now
    (fun a ha b hb => hc a (List.mem_append_left _ ha) b (List.mem_append_left _ hb)),
    dedupRR_append]
  have : (dedupRR l2).filter (fun x => !l1.any (rrEq x ·)) = [] := by
    rw [List.filter_eq_nil_iff]
    intro x hx
    simp [hcov x (mem_dedupRR hx)]
  rw [this, List.append_nil]

/-! ### 3. the library's own goodbye: cache-flush bit, TTL kept — one more second -/

/-- `to_cache_flush_record` on every record: the same records with the cache-flush bit set, TTL
unchanged (what `announce(true)` — hence `remove_service_from_discovery` — sends) -/
def flushed (rs : List RR) : List RR := rs.map (fun r => { r with flush := true })

/-- the packet `remove_service_from_discovery` sends for an instance: `announce(true)` -/
def libraryGoodbye (full : Name) (ips : List (Bool × Nat)) (ports : List Nat) (ss : List Bytes)
    (ttl : Nat) : Packet :=
  announce (flushed (instRecords full ips ports ss ttl))

/-- a response all of whose records are owned by one foreign name strictly below the service is
cached whole -/
theorem ingest_announce_owned {service own full : Name} (hown : own ≠ full)
    (hsub : full.isSubdomainOf service = true) {rs : List RR} (hname : ∀ r ∈ rs, r.name = full)
    (s : Store) (now : Nat) :
    ingest (announce rs) service own s now = rs.foldl (fun st r => st.addCached r now) s := by
  unfold ingest
  congr 1
  simp only [announce, List.append_nil]
  rw [List.filter_eq_self]
  intro r hr
  rw [hname r hr]
  simp only [Bool.and_eq_true, bne_iff_ne, ne_eq]
  exact ⟨fun h => hown h.symm, hsub⟩

/-- the flush variant of a record: same name, class, RDATA, TTL; effective TTL one second -/
theorem mem_flushed {rs : List RR} {r : RR} (h : r ∈ flushed rs) :
    ∃ r0 ∈ rs, r = { r0 with flush := true } ∧ r.name = r0.name ∧ rrEq r0 r = true ∧
      effTtl r = 1 := by
  obtain ⟨r0, h0, rfl⟩ := List.mem_map.mp h
  exact ⟨r0, h0, rfl, rfl, by simp [rrEq_iff], rfl⟩

/-- the flush variants of one peer's record set are again such a set, with effective TTL 1 s -/
theorem flushed_oneOwner {full : Name} {ttl : Nat} {rs : List RR} (ho : OneOwner full ttl rs) :
    OneOwner full 1 (flushed rs) := by
  refine ⟨?_, ?_, ?_, ?_⟩
  · intro h; exact ho.ne (List.map_eq_nil_iff.mp h)
  · intro r hr
    obtain ⟨r0, h0, _, hn, _, _⟩ := mem_flushed hr
    rw [hn]; exact ho.name r0 h0
  · intro r hr
    obtain ⟨_, _, _, _, _, ht⟩ := mem_flushed hr
    exact ht
  · exact List.Pairwise.map _ (fun a b hab => by
      rw [Bool.eq_false_iff] at hab ⊢
      intro h; apply hab
      simpa [rrEq_iff] using h) ho.distinct

/-- the flush variants are the same data (`PartialEq for ResourceRecord` ignores the bit) -/
theorem sameData_flushed (rs : List RR) : SameData rs (flushed rs) := by
  constructor
  · intro r hr
    rw [List.any_eq_true]
    exact ⟨{ r with flush := true }, List.mem_map.mpr ⟨r, hr, rfl⟩, by simp [rrEq_iff]⟩
  · intro r hr
    obtain ⟨r0, h0, _, _, he, _⟩ := mem_flushed hr
    rw [List.any_eq_true]
    exact ⟨r0, h0, he⟩

/-- `from_records` does not look at the cache-flush bit -/
theorem fromRecords_flushed (service : Name) (rs : List RR) :
    fromRecords service (flushed rs) = fromRecords service rs := by
  have hf : ∀ (l : List RR) (i : Instance), (flushed l).foldl recStep i = l.foldl recStep i := by
    intro l
    induction l with
    | nil => intro i; rfl
    | cons r t ih =>
      intro i
      show (flushed t).foldl recStep (recStep i { r with flush := true }) = _
      rw [ih]; rfl
  rw [fromRecords_eq, fromRecords_eq, hf]
  unfold flushed
  rw [List.findSome?_map]
  rfl

/-- an instance's records and the flush variants of its records under another TTL are the same
data -/
theorem sameData_inst_flushed (full : Name) (ips : List (Bool × Nat)) (ports : List Nat)
    (ss : List Bytes) (ttl1 ttl2 : Nat) :
    SameData (instRecords full ips ports ss ttl1) (flushed (instRecords full ips ports ss ttl2)) := by
  have h1 := instRecords_sameData full ips ports ss ttl1 ttl2
  have h2 := sameData_flushed (instRecords full ips ports ss ttl2)
  constructor
  · intro r hr
    obtain ⟨r2, hr2, he⟩ := List.any_eq_true.mp (h1.1 r hr)
    obtain ⟨r3, hr3, he3⟩ := List.any_eq_true.mp (h2.1 r2 hr2)
    exact List.any_eq_true.mpr ⟨r3, hr3, rrEq_trans he he3⟩
  · intro r hr
    obtain ⟨r2, hr2, he⟩ := List.any_eq_true.mp (h2.2 r hr)
    obtain ⟨r1, hr1, he1⟩ := List.any_eq_true.mp (h1.2 r2 hr2)
    exact List.any_eq_true.mpr ⟨r1, hr1, rrEq_trans he1 he⟩

/-- **Item 3, the library's own goodbye.** An instance announced at `t1` (TTL `ttl1`) says goodbye
the way the library does — `remove_service_from_discovery` = `announce(true)`: the same records with
the cache-flush bit and their TTL `ttl2`, NOT TTL 0 — received at `t2`. The listener stores the
flush records with an effective TTL of one second: `get_known_services` reports the instance (with
the same data, once) exactly until `t2 + 1000` ms, whatever `ttl1`, `ttl2` and `t1` were — even if
the first announcement had already expired; other instances are untouched. -/
theorem known_library_goodbye {service own : Name} (inst : Label) (hown : own ≠ inst :: service)
    {s0 : Store} (hI : Inv s0) (hnode : s0.nodeExists (getKey service) = true)
    (hfree : OwnerFree s0 (inst :: service))
    (ips : List (Bool × Nat)) (ports : List Nat) (ss : List Bytes) (ttl1 ttl2 t1 t2 now' : Nat)
    (hips : ips.Nodup) (hports : ports.Nodup) :
    (known (ingest (libraryGoodbye (inst :: service) ips ports ss ttl2) service own
        (ingest (announce (instRecords (inst :: service) ips ports ss ttl1)) service own s0 t1) t2)
        service now').Perm
      (aliveInst (advertised inst ips ports ss) t2 1 now' ++ known s0 service now') := by
  have ho1 := instRecords_oneOwner (inst :: service) ss ttl1 hips hports
  have ho2 := flushed_oneOwner (instRecords_oneOwner (inst :: service) ss ttl2 hips hports)
  have hna2 : NotAuth s0 (flushed (instRecords (inst :: service) ips ports ss ttl2)) :=
    hfree.notAuth ho2
  have hsame := sameData_inst_flushed (inst :: service) ips ports ss ttl1 ttl2
  have hfr : fromRecords service (instRecords (inst :: service) ips ports ss ttl1) =
      fromRecords service (flushed (instRecords (inst :: service) ips ports ss ttl2)) := by
    rw [fromRecords_flushed, fromRecords_instRecords service inst ips ports ss ttl1 hips hports,
      fromRecords_instRecords service inst ips ports ss ttl2 hips hports]
  unfold libraryGoodbye
  rw [ingest_announce service own inst hown,
    ingest_announce_owned hown (instLabel_subdomain inst service) ho2.name,
    known_last_reception_counts hI ho1 ho2 (instKey_prefix inst service) hfree.1
      (hfree.notAuth_inst _ _ _ _) hna2 hsame hfr t1 t2 now']
  have := known_one_reception hI hnode ho2 (instKey_prefix inst service) hfree.1 hna2 t2 now'
  rw [fromRecords_flushed, fromRecords_instRecords service inst ips ports ss ttl2 hips hports] at this
  exact this

/-- **… still known for one second**: before `t2 + 1000` ms the instance is still reported -/
theorem library_goodbye_still_known {service own : Name} (inst : Label)
    (hown : own ≠ inst :: service) {s0 : Store} (hI : Inv s0)
    (hnode : s0.nodeExists (getKey service) = true) (hfree : OwnerFree s0 (inst :: service))
    (ips : List (Bool × Nat)) (ports : List Nat) (ss : List Bytes) (ttl1 ttl2 t1 t2 now' : Nat)
    (hips : ips.Nodup) (hports : ports.Nodup) (hlt : now' < t2 + 1000) :
    advertised inst ips ports ss ∈
      known (ingest (libraryGoodbye (inst :: service) ips ports ss ttl2) service own
        (ingest (announce (instRecords (inst :: service) ips ports ss ttl1)) service own s0 t1) t2)
        service now' := by
  rw [(known_library_goodbye inst hown hI hnode hfree ips ports ss ttl1 ttl2 t1 t2 now' hips
    hports).mem_iff]
  simp [aliveInst, hlt]

/-- **… and gone afterwards**: from `t2 + 1000` ms on `get_known_services` is exactly (order
included) what the store before the announcement gives. -/
theorem library_goodbye_gone {service own : Name} (inst : Label)
    (hown : own ≠ inst :: service) {s0 : Store} (hI : Inv s0)
    (hnode : s0.nodeExists (getKey service) = true) (hfree : OwnerFree s0 (inst :: service))
    (ips : List (Bool × Nat)) (ports : List Nat) (ss : List Bytes) (ttl1 ttl2 t1 t2 now' : Nat)
    (hips : ips.Nodup) (hports : ports.Nodup) (hge : t2 + 1000 ≤ now') :
    known (ingest (libraryGoodbye (inst :: service) ips ports ss ttl2) service own
        (ingest (announce (instRecords (inst :: service) ips ports ss ttl1)) service own s0 t1) t2)
        service now' = known s0 service now' := by
  have ho1 := instRecords_oneOwner (inst :: service) ss ttl1 hips hports
  have ho2 := flushed_oneOwner (instRecords_oneOwner (inst :: service) ss ttl2 hips hports)
  have hna2 : NotAuth s0 (flushed (instRecords (inst :: service) ips ports ss ttl2)) :=
    hfree.notAuth ho2
  have hsame := sameData_inst_flushed (inst :: service) ips ports ss ttl1 ttl2
  have hfr : fromRecords service (instRecords (inst :: service) ips ports ss ttl1) =
      fromRecords service (flushed (instRecords (inst :: service) ips ports ss ttl2)) := by
    rw [fromRecords_flushed, fromRecords_instRecords service inst ips ports ss ttl1 hips hports,
      fromRecords_instRecords service inst ips ports ss ttl2 hips hports]
  unfold libraryGoodbye
  rw [ingest_announce service own inst hown,
    ingest_announce_owned hown (instLabel_subdomain inst service) ho2.name,
    known_last_reception_counts hI ho1 ho2 (instKey_prefix inst service) hfree.1
      (hfree.notAuth_inst _ _ _ _) hna2 hsame hfr t1 t2 now',
    foldl_addCached_oneOwner hI ho2 hfree.1 hna2 t2]
  apply known_setBucket_of_nil hI hnode (contrib_of_keyFree hfree.1 service now')
  rw [contrib_once ho2.ne (instKey_prefix inst service) hfree.1, if_neg (by omega)]

/-- **The RFC-style goodbye (TTL 0)** — `goodbye_removes` of `Props/C15Multi.lean` under its proper
name: a peer that sends its records with TTL 0 (RFC 6762 §10.1; NOT what this library's
`remove_service_from_discovery` sends) is forgotten at once. -/
theorem rfc_goodbye_removes {service own : Name} (inst : Label) (hown : own ≠ inst :: service)
    {s0 : Store} (hI : Inv s0) (hnode : s0.nodeExists (getKey service) = true)
    (hfree : OwnerFree s0 (inst :: service))
    (ips : List (Bool × Nat)) (ports : List Nat) (ss : List Bytes) (ttl t1 t2 now' : Nat)
    (hips : ips.Nodup) (hports : ports.Nodup) (hle : t2 ≤ now') :
    known (ingest (goodbye (inst :: service) ips ports ss) service own
        (ingest (announce (instRecords (inst :: service) ips ports ss ttl)) service own s0 t1) t2)
        service now' = known s0 service now' :=
  goodbye_removes inst hown hI hnode hfree ips ports ss ttl t1 t2 now' hips hports hle

/-! ### 4. (second part) the records of one announcement in any order, some of them twice -/

/-- the distinct records of a list are the same records -/
theorem sameRecs_dedupRR (l : List RR) : SameRecs (dedupRR l) l :=
  ⟨fun r hr => ⟨r, mem_dedupRR hr, rrEq_refl r⟩, fun _ hr => dedupRR_complete hr⟩

/-- `dedupRR` keeps a non-empty list non-empty -/
theorem dedupRR_ne_nil {l : List RR} (h : l ≠ []) : dedupRR l ≠ [] := by
  cases l with
  | nil => exact absurd rfl h
  | cons r rs => simp [dedupRR]

/-- **One reception of the records of one owner, in any order and with repetitions.** As
`known_one_reception`, without the assumption that the received records are pairwise different:
`get_known_services` gains `from_records` of the distinct records (in order of first appearance). -/
theorem known_one_owner_any_list {s0 : Store} (hI : Inv s0) {service : Name}
    (hnode : s0.nodeExists (getKey service) = true) {full : Name} {ttl : Nat} {l : List RR}
    (hne : l ≠ []) (hname : ∀ r ∈ l, r.name = full) (httl : ∀ r ∈ l, effTtl r = ttl)
    (hpre : isPrefixOf (getKey service) (getKey full) = true) (hfree : OwnerFree s0 full)
    (t now' : Nat) :
    (known (l.foldl (fun st r => st.addCached r t) s0) service now').Perm
      ((if now' < t + 1000 * ttl then (fromRecords service (dedupRR l)).toList else []) ++
        known s0 service now') := by
  rw [foldl_addCached_dedup hI l t (fun a ha b hb _ => by rw [httl a ha, httl b hb])]
  have ho : OneOwner full ttl (dedupRR l) :=
    ⟨dedupRR_ne_nil hne, fun r hr => hname r (mem_dedupRR hr), fun r hr => httl r (mem_dedupRR hr),
      dedupRR_pairwise l⟩
  exact known_one_reception hI hnode ho hpre hfree.1 (hfree.notAuth ho) t now'

/-- an association list holds `(k, v)` when looking up `k` gives `v` -/
theorem Attrs.mem_of_lookup_eq_some {m : Attrs} {k : String} {v : Option String}
    (h : m.lookup k = some v) : (k, v) ∈ m := by
  induction m with
  | nil => cases h
  | cons e es ih =>
    obtain ⟨a, b⟩ := e
    rw [lookup_cons_ite] at h
    split at h
    · rename_i hk; cases h; rw [hk]; exact List.mem_cons_self
    · exact List.mem_cons_of_mem _ (ih h)

/-- two maps with the same look-ups have the same entries -/
theorem attrs_mem_iff_of_lookup_eq {m m' : Attrs} (hn : m.keys.Nodup) (hn' : m'.keys.Nodup)
    (h : ∀ k, m.lookup k = m'.lookup k) (k : String) (v : Option String) :
    (k, v) ∈ m ↔ (k, v) ∈ m' :=
  ⟨fun hm => Attrs.mem_of_lookup_eq_some (by rw [← h, Attrs.lookup_of_mem_nodup hn hm]),
   fun hm => Attrs.mem_of_lookup_eq_some (by rw [h, Attrs.lookup_of_mem_nodup hn' hm])⟩

/-- **`known` does not depend on the order of a response's records or on repetitions — up to the
caveat of section 1.** Two responses whose kept records are the same set of records of ONE
instance `inst.service` (any order, any record any number of times), with one effective TTL,
received at `t` into the same store: each adds one instance to `get_known_services`, alive for the
same time; the two instances have the same name, address set, port set and attribute keys, the same
value for every key on which the TXT records agree, and for a key with conflicting values the value
of some record. (One announcement of the library has one TXT record: no conflict.) -/
theorem known_packets_same_records {service own : Name} (inst : Label) {s0 : Store} (hI : Inv s0)
    (hnode : s0.nodeExists (getKey service) = true) (hfree : OwnerFree s0 (inst :: service))
    {ttl : Nat} (p1 p2 : Packet)
    (h12 : ∀ r, r ∈ ingestRecords p1 service own ↔ r ∈ ingestRecords p2 service own)
    (hne : ingestRecords p1 service own ≠ [])
    (hname : ∀ r ∈ ingestRecords p1 service own, r.name = inst :: service)
    (httl : ∀ r ∈ ingestRecords p1 service own, effTtl r = ttl) (t now' : Nat) :
    ∃ i1 i2,
      (known (ingest p1 service own s0 t) service now').Perm
        (aliveInst i1 t ttl now' ++ known s0 service now') ∧
      (known (ingest p2 service own s0 t) service now').Perm
        (aliveInst i2 t ttl now' ++ known s0 service now') ∧
      i1.name = inst ∧ i2.name = inst ∧
      (∀ x, x ∈ i1.ips ↔ x ∈ i2.ips) ∧ (∀ x, x ∈ i1.ports ↔ x ∈ i2.ports) ∧
      (∀ k, k ∈ i1.attrs.keys ↔ k ∈ i2.attrs.keys) ∧
      (∀ k, (∀ r ∈ ingestRecords p1 service own, ∀ r' ∈ ingestRecords p1 service own, ∀ v v',
          TxtGives r k v → TxtGives r' k v' → v = v') → i1.attrs.lookup k = i2.attrs.lookup k) ∧
      (∀ k, k ∈ i1.attrs.keys → ∃ r ∈ ingestRecords p1 service own, ∃ v,
          TxtGives r k v ∧ i2.attrs.lookup k = some v) := by
  have hne2 : ingestRecords p2 service own ≠ [] := by
    obtain ⟨r, hr⟩ := List.exists_mem_of_ne_nil _ hne
    exact List.ne_nil_of_mem ((h12 r).mp hr)
  have hname2 : ∀ r ∈ ingestRecords p2 service own, r.name = inst :: service :=
    fun r hr => hname r ((h12 r).mpr hr)
  have httl2 : ∀ r ∈ ingestRecords p2 service own, effTtl r = ttl :=
    fun r hr => httl r ((h12 r).mpr hr)
  have k1 := known_one_owner_any_list hI hnode hne hname httl (instKey_prefix inst service) hfree
    t now'
  have k2 := known_one_owner_any_list hI hnode hne2 hname2 httl2 (instKey_prefix inst service)
    hfree t now'
  have hs : SameRecs (dedupRR (ingestRecords p1 service own))
      (dedupRR (ingestRecords p2 service own)) :=
    ((sameRecs_dedupRR _).trans (SameRecs.of_mem_iff h12)).trans (sameRecs_dedupRR _).symm
  have hsome1 : (fromRecords service (dedupRR (ingestRecords p1 service own))).isSome = true := by
    rw [fromRecords_isSome_iff]
    obtain ⟨r, hr⟩ := List.exists_mem_of_ne_nil _ (dedupRR_ne_nil hne)
    exact ⟨r, hr, by rw [hname r (mem_dedupRR hr)]; exact instLabel_subdomain inst service⟩
  obtain ⟨hsome, hrest⟩ := fromRecords_sameRecs (service := service) hs
  obtain ⟨i1, hi1⟩ := Option.isSome_iff_exists.mp hsome1
  obtain ⟨i2, hi2⟩ := Option.isSome_iff_exists.mp (hsome ▸ hsome1)
  obtain ⟨_, hb, hc, hd⟩ := hrest i1 i2 hi1 hi2
  have hw : Name.without (inst :: service) service = some [inst] :=
    (without_iff _ _ _).mpr ⟨by simp, rfl⟩
  have hn1 : i1.name = inst := by
    obtain ⟨pre, hpre, hn⟩ := fromRecords_name_one_owner hi1 (fun r hr => hname r (mem_dedupRR hr))
    rw [hw] at hpre; cases hpre; exact hn
  have hn2 : i2.name = inst := by
    obtain ⟨pre, hpre, hn⟩ := fromRecords_name_one_owner hi2
      (fun r hr => hname2 r (mem_dedupRR hr))
    rw [hw] at hpre; cases hpre; exact hn
  rw [← ingest_eq_foldl_ingestRecords, hi1] at k1
  rw [← ingest_eq_foldl_ingestRecords, hi2] at k2
  refine ⟨i1, i2, k1, k2, hn1, hn2, hb, hc, hd, ?_, ?_⟩
  · intro k hag
    apply fromRecords_sameRecs_lookup hs hi1 hi2
    intro r hr r' hr' v v' hg hg'
    exact hag r (mem_dedupRR hr) r' (mem_dedupRR hr') v v' hg hg'
  · intro k hk
    obtain ⟨r, hr, new, hn, hk'⟩ := (fromRecords_attr_keys_iff hi1 k).mp hk
    obtain ⟨v, hv⟩ := TxtGives.of_key_mem hn hk'
    obtain ⟨x, hx, v', hg, hl⟩ := fromRecords_sameRecs_lookup_some hs hi2 ⟨r, hr, v, hv⟩
    exact ⟨x, mem_dedupRR hx, v', hg, hl⟩

/-- **`known_after_response_of_instance` for ANY arrangement of the instance's records.** A
response whose kept records are exactly the records `into_records` makes of the instance — in any
order (the sender's `HashMap` order), any of them any number of times, in `answers` or
`additional` — adds to `get_known_services`, for `ttl` seconds, one instance equal to the
advertised one as Rust compares them (`Instance.eqv`: name, address set, port set, attribute
map). -/
theorem known_after_response_any_order {service own : Name} (inst : Label) {s0 : Store}
    (hI : Inv s0) (hnode : s0.nodeExists (getKey service) = true)
    (ips : List (Bool × Nat)) (ports : List Nat) (ss : List Bytes) (ttl t now' : Nat)
    (hips : ips.Nodup) (hports : ports.Nodup) (hfree : OwnerFree s0 (inst :: service)) (p : Packet)
    (hp : ∀ r, r ∈ ingestRecords p service own ↔
      r ∈ instRecords (inst :: service) ips ports ss ttl) :
    ∃ i, Instance.eqv i (advertised inst ips ports ss) ∧
      (known (ingest p service own s0 t) service now').Perm
        (aliveInst i t ttl now' ++ known s0 service now') := by
  have hne : ingestRecords p service own ≠ [] := by
    obtain ⟨r, hr⟩ := List.exists_mem_of_ne_nil _ (instRecords_ne_nil (inst :: service) ips ports ss ttl)
    exact List.ne_nil_of_mem ((hp r).mpr hr)
  have hname : ∀ r ∈ ingestRecords p service own, r.name = inst :: service :=
    fun r hr => (mem_instRecords ((hp r).mp hr)).1
  have httl : ∀ r ∈ ingestRecords p service own, effTtl r = ttl := by
    intro r hr
    have := mem_instRecords ((hp r).mp hr)
    simp [effTtl, this.2.1, this.2.2]
  have k1 := known_one_owner_any_list hI hnode hne hname httl (instKey_prefix inst service) hfree
    t now'
  have hs : SameRecs (dedupRR (ingestRecords p service own))
      (instRecords (inst :: service) ips ports ss ttl) :=
    (sameRecs_dedupRR _).trans (SameRecs.of_mem_iff hp)
  have hadv := fromRecords_instRecords service inst ips ports ss ttl hips hports
  obtain ⟨hsome, hrest⟩ := fromRecords_sameRecs (service := service) hs
  rw [hadv] at hsome
  obtain ⟨i, hi⟩ := Option.isSome_iff_exists.mp hsome
  obtain ⟨ha, hb, hc, hd⟩ := hrest i _ hi hadv
  rw [← ingest_eq_foldl_ingestRecords, hi] at k1
  refine ⟨i, ⟨ha _ (fun r hr => hname r (mem_dedupRR hr)), hb, hc, ?_⟩, k1⟩
  apply attrs_mem_iff_of_lookup_eq (fromRecords_attrs_keys_nodup hi)
    (fromRecords_attrs_keys_nodup hadv)
  intro k
  apply fromRecords_sameRecs_lookup hs hi hadv
  intro r hr r' hr' v v' hg hg'
  have h1 := (exists_txtGives_instRecords (inst :: service) ips ports ss ttl k v).mp
    ⟨r, (hp r).mp (mem_dedupRR hr), hg⟩
  have h2 := (exists_txtGives_instRecords (inst :: service) ips ports ss ttl k v').mp
    ⟨r', (hp r').mp (mem_dedupRR hr'), hg'⟩
  exact txtAttrs_functional ss h1 h2

/-- the response `announce(false)` of the library sends for an instance whose records it has
registered: the records in `answers` and — when there is an SRV record, whose target is the
instance name itself — every A / AAAA record of the instance AGAIN in `additional` (model order;
Rust: `HashMap` / `HashSet` order, see `known_after_library_announce_any_order`) -/
def libraryAnnounce (full : Name) (ips : List (Bool × Nat)) (ports : List Nat) (ss : List Bytes)
    (ttl : Nat) : Packet :=
  { announce (instRecords full ips ports ss ttl) with
    additional := (if ports.isEmpty then [] else ips.map (fun ip => mkRR full ttl (ipRData ip))) }

/-- the additional records of the library's announcement are records of its answer section -/
theorem libraryAnnounce_additional_subset (full : Name) (ips : List (Bool × Nat)) (ports : List Nat)
    (ss : List Bytes) (ttl : Nat) :
    ∀ r ∈ (libraryAnnounce full ips ports ss ttl).additional,
      r ∈ instRecords full ips ports ss ttl := by
  intro r hr
  simp only [libraryAnnounce] at hr
  split at hr
  · cases hr
  · exact List.mem_append_left _ hr

/-- the kept records of the library's announcement: the instance's records, the address records
twice -/
theorem ingestRecords_libraryAnnounce {service own : Name} (inst : Label)
    (hown : own ≠ inst :: service) (ips : List (Bool × Nat)) (ports : List Nat) (ss : List Bytes)
    (ttl : Nat) :
    ingestRecords (libraryAnnounce (inst :: service) ips ports ss ttl) service own =
      instRecords (inst :: service) ips ports ss ttl ++
        (libraryAnnounce (inst :: service) ips ports ss ttl).additional := by
  unfold ingestRecords
  have : (libraryAnnounce (inst :: service) ips ports ss ttl).answers =
      instRecords (inst :: service) ips ports ss ttl := rfl
  rw [this, List.filter_eq_self]
  intro r hr
  have hn : r.name = inst :: service := by
    rcases List.mem_append.mp hr with h | h
    · exact (mem_instRecords h).1
    · exact (mem_instRecords (libraryAnnounce_additional_subset _ _ _ _ _ r h)).1
  rw [hn]
  simp only [Bool.and_eq_true, bne_iff_ne, ne_eq]
  exact ⟨fun h => hown h.symm, instLabel_subdomain inst service⟩

/-- **The library's real announcement has exactly the effect of the model's `announce`**: the
address records repeated in `additional` are `rrEq`-equal copies received at the same time, so the
resulting STORE is the same. Every theorem of `Props/C15Multi.lean` about
`ingest (announce (instRecords …))` therefore holds for `ingest (libraryAnnounce …)`. -/
theorem ingest_libraryAnnounce {service own : Name} (inst : Label) (hown : own ≠ inst :: service)
    {s : Store} (hI : Inv s) (ips : List (Bool × Nat)) (ports : List Nat) (ss : List Bytes)
    (ttl t : Nat) :
    ingest (libraryAnnounce (inst :: service) ips ports ss ttl) service own s t =
      ingest (announce (instRecords (inst :: service) ips ports ss ttl)) service own s t := by
  rw [ingest_eq_foldl_ingestRecords, ingestRecords_libraryAnnounce inst hown,
    ingest_announce service own inst hown]
  have hsub := libraryAnnounce_additional_subset (inst :: service) ips ports ss ttl
  have hall : ∀ r ∈ instRecords (inst :: service) ips ports ss ttl ++
      (libraryAnnounce (inst :: service) ips ports ss ttl).additional, effTtl r = ttl := by
    intro r hr
    have hm : r ∈ instRecords (inst :: service) ips ports ss ttl := by
      rcases List.mem_append.mp hr with h | h
      · exact h
      · exact hsub r h
    have := mem_instRecords hm
    simp [effTtl, this.2.1, this.2.2]
  apply foldl_addCached_append_covered hI _ _ t
    (fun a ha b hb _ => by rw [hall a ha, hall b hb])
  intro x hx
  exact List.any_eq_true.mpr ⟨x, hsub x hx, rrEq_refl x⟩

/-- **`known_after_response_of_instance`, restated for the library's announcement shape**
(answers = the instance's records, additional = its address records again; model order): it adds
exactly the advertised instance, for `ttl` seconds. -/
theorem known_after_library_announce {service own : Name} (inst : Label)
    (hown : own ≠ inst :: service) {s0 : Store} (hI : Inv s0)
    (hnode : s0.nodeExists (getKey service) = true)
    (ips : List (Bool × Nat)) (ports : List Nat) (ss : List Bytes) (ttl t now' : Nat)
    (hips : ips.Nodup) (hports : ports.Nodup) (hfree : OwnerFree s0 (inst :: service)) :
    (known (ingest (libraryAnnounce (inst :: service) ips ports ss ttl) service own s0 t)
        service now').Perm
      (aliveInst (advertised inst ips ports ss) t ttl now' ++ known s0 service now') := by
  rw [ingest_libraryAnnounce inst hown hI]
  exact known_after_announce_any inst hown hI hnode ips ports ss ttl t now' hips hports hfree.1
    (hfree.notAuth_inst _ _ _ _)

/-- **… and in the order Rust actually sends**: `answers` any permutation of the instance's records
(`HashMap` iteration), `additional` any arrangement of address records of the instance (`HashSet`
iteration; none when there is no SRV record). The reported instance equals the advertised one as
Rust compares them. -/
theorem known_after_library_announce_any_order {service own : Name} (inst : Label)
    (hown : own ≠ inst :: service) {s0 : Store} (hI : Inv s0)
    (hnode : s0.nodeExists (getKey service) = true)
    (ips : List (Bool × Nat)) (ports : List Nat) (ss : List Bytes) (ttl t now' : Nat)
    (hips : ips.Nodup) (hports : ports.Nodup) (hfree : OwnerFree s0 (inst :: service))
    (p : Packet) (hans : p.answers.Perm (instRecords (inst :: service) ips ports ss ttl))
    (hadd : ∀ r ∈ p.additional, ∃ ip ∈ ips, r = mkRR (inst :: service) ttl (ipRData ip)) :
    ∃ i, Instance.eqv i (advertised inst ips ports ss) ∧
      (known (ingest p service own s0 t) service now').Perm
        (aliveInst i t ttl now' ++ known s0 service now') := by
  apply known_after_response_any_order inst hI hnode ips ports ss ttl t now' hips hports hfree p
  have haddm : ∀ r ∈ p.additional, r ∈ instRecords (inst :: service) ips ports ss ttl := by
    intro r hr
    obtain ⟨ip, hip, rfl⟩ := hadd r hr
    exact List.mem_append_left _ (List.mem_map.mpr ⟨ip, hip, rfl⟩)
  intro r
  rw [mem_ingestRecords]
  constructor
  · rintro ⟨hr, _⟩
    rcases List.mem_append.mp hr with h | h
    · exact hans.subset h
    · exact haddm r h
  · intro hr
    refine ⟨List.mem_append_left _ (hans.symm.subset hr), ?_, ?_⟩
    · rw [(mem_instRecords hr).1]; exact fun h => hown h.symm
    · rw [(mem_instRecords hr).1]; exact instLabel_subdomain inst service

/-! ### 5. instance names as Rust reports them

The model's `Instance.name` is the BYTES `Name.display pre` of the labels in front of the service
name. Rust's `instance_name` is the `String` `pre.to_string()`, each label through
`String::from_utf8_lossy` (`Name.displayStr`, `lossy`). The two agree exactly when every label is
valid UTF-8 (`stringOfBytes?` succeeds). `reportOf_name`, `reportOf_name_label`,
`report_faithful_to_owner`, `reports_map_name` and every `name := inst` of `Props/C15*.lean` speak
about the bytes; below are the versions about the `String`, with the UTF-8 hypothesis, and what
happens without it. (The model's `lossy` is exact on valid UTF-8 and puts ONE U+FFFD for any invalid
label; Rust replaces each invalid sequence. The collision below is one that both have.) -/

/-- `to_string()` of a one-label name is the lossy text of the label -/
theorem displayStr_singleton (a : Label) : Name.displayStr [a] = .ok (lossy a) := by
  simp [Name.displayStr, Name.displayFrom, Label.display]

/-- for a label that is valid UTF-8 with text `s`, Rust's instance name is `s`, and its bytes are
the model's instance name -/
theorem rust_name_of_label_utf8 {inst : Label} {s : String} (hs : stringOfBytes? inst = some s) :
    Name.displayStr [inst] = .ok s ∧ bytesOfString s = inst := by
  refine ⟨?_, (stringOfBytes?_eq_some hs).symm⟩
  rw [displayStr_singleton]
  simp [lossy, hs]

/-- **`reportOf_name`, about the `String` Rust sends.** The report for owner `o` carries
`pre.to_string()` for the labels `pre` in front of the service name. Its bytes are the display of
the lossy-rendered labels; they are the model's `i.name` when every label of `pre` is valid
UTF-8. -/
theorem reportOf_name_string {service : Name} {rs : List RR} {o : Name} {i : Instance}
    (h : reportOf service rs o = some i) :
    ∃ pre str, o = pre ++ service ∧ pre ≠ [] ∧ Name.displayStr pre = .ok str ∧
      bytesOfString str = Name.display (pre.map (fun l => bytesOfString (lossy l))) ∧
      ((∀ l ∈ pre, (stringOfBytes? l).isSome = true) → bytesOfString str = i.name) := by
  obtain ⟨pre, _, ho, hne, hn⟩ := reportOf_name h
  obtain ⟨str, h1, h2⟩ := display_str_bytes_lossy pre
  refine ⟨pre, str, ho, hne, h1, h2, ?_⟩
  intro hv
  obtain ⟨str', h1', h2'⟩ := display_str_bytes pre hv
  rw [h1] at h1'
  cases h1'
  rw [h2', hn]

/-- **`reportOf_name_label` with the hypothesis it needs to be about Rust**: if the instance label
is valid UTF-8 with text `s`, the report of `inst.service` carries the `String` `s`, whose bytes are
the model's `i.name = inst`. -/
theorem reportOf_name_label_utf8 {service : Name} {rs : List RR} {inst : Label} {i : Instance}
    (h : reportOf service rs (inst :: service) = some i) {s : String}
    (hs : stringOfBytes? inst = some s) :
    Name.displayStr [inst] = .ok s ∧ bytesOfString s = i.name ∧ i.name = inst := by
  obtain ⟨h1, h2⟩ := rust_name_of_label_utf8 hs
  have := reportOf_name_label h
  exact ⟨h1, by rw [h2, this], this⟩

/-- **Valid UTF-8 labels are reported under different names**: the lossy rendering is injective on
them, so for such labels distinct instances get distinct `instance_name`s. -/
theorem reported_label_injective_utf8 {a b : Label} (ha : (stringOfBytes? a).isSome = true)
    (hb : (stringOfBytes? b).isSome = true) (h : Name.displayStr [a] = Name.displayStr [b]) :
    a = b := by
  rw [displayStr_singleton, displayStr_singleton] at h
  obtain ⟨sa, hsa⟩ := Option.isSome_iff_exists.mp ha
  obtain ⟨sb, hsb⟩ := Option.isSome_iff_exists.mp hb
  rw [← lossy_bytes hsa, ← lossy_bytes hsb, Out.ok.inj h]

namespace C15AuditEx
open C15Ex (service own printer)

/-- `caf\xE9` (Latin-1, not UTF-8) -/
def cafe1 : Label := [0x63, 0x61, 0x66, 0xE9]
/-- `caf\xE8` -/
def cafe2 : Label := [0x63, 0x61, 0x66, 0xE8]

/-- **Labels that differ only in invalid UTF-8 bytes are reported under the same name**: two
different labels, neither valid UTF-8, with the same `to_string()`. -/
theorem reported_label_collision :
    cafe1 ≠ cafe2 ∧ stringOfBytes? cafe1 = none ∧ stringOfBytes? cafe2 = none ∧
    Name.displayStr [cafe1] = Name.displayStr [cafe2] := by
  refine ⟨by decide, by decide, by decide, ?_⟩
  rw [displayStr_singleton, displayStr_singleton]
  exact congrArg Out.ok (by decide)

/-- one response announcing `caf\xE9._http._tcp.local` and `caf\xE8._http._tcp.local` -/
def cafeRecs : List RR :=
  [mkRR (cafe1 :: service) 120 (.flat 1 [.int 1]), mkRR (cafe2 :: service) 120 (.flat 1 [.int 2])]

/-- **`reportOf_name_label` is about bytes, not about what Rust shows**: the model reports the two
instances under the different names `caf\xE9` and `caf\xE8` (as `reportOf_name_label` says), while
the `String`s Rust puts into the two `InstanceInformation`s are equal. -/
theorem reportOf_name_label_not_what_rust_shows :
    (reports (announce cafeRecs) service own).map (·.name) = [cafe1, cafe2] ∧
    cafe1 ≠ cafe2 ∧ Name.displayStr [cafe1] = Name.displayStr [cafe2] :=
  ⟨by rfl, reported_label_collision.1, reported_label_collision.2.2.2⟩

/-- the hypothesis of `reportOf_name_label_utf8` on the printer: its label is UTF-8 -/
example : stringOfBytes? printer = some "printer" := by decide

/-- and its conclusion: Rust reports the `String` "printer" -/
example : Name.displayStr [printer] = .ok "printer" ∧ bytesOfString "printer" = printer :=
  rust_name_of_label_utf8 (by decide)

/-! #### items 3 and 4 on the printer and the store `C15MultiEx.s0` (which knows the scanner) -/

open C15MultiEx (s0 s0_inv s0_node s0_free printerAnn)

/-- the printer's TXT strings `a=1`, `b`, `c=` -/
def pss : List Bytes := [[97, 61, 49], [98], [99, 61]]

/-- item 3 by evaluation: announced at 1 s (TTL 120 s), the library's goodbye received at 5 s: the
printer is STILL reported at 5.999 s and gone at 6 s; the scanner stays -/
example :
    (known (ingest (libraryGoodbye (printer :: service) C15Ex.ips C15Ex.ports pss 120) service own
      (ingest (printerAnn.packet service) service own s0 1000) 5000) service 5999).map (·.name) =
      [C15MultiEx.scanner, printer] ∧
    known (ingest (libraryGoodbye (printer :: service) C15Ex.ips C15Ex.ports pss 120) service own
      (ingest (printerAnn.packet service) service own s0 1000) 5000) service 6000 =
      known s0 service 6000 := by
  constructor <;> rfl

/-- item 3 through the theorems, for all times -/
example (t1 t2 now' : Nat) (h : now' < t2 + 1000) :
    advertised printer C15Ex.ips C15Ex.ports pss ∈
      known (ingest (libraryGoodbye (printer :: service) C15Ex.ips C15Ex.ports pss 120) service own
        (ingest (printerAnn.packet service) service own s0 t1) t2) service now' :=
  library_goodbye_still_known printer (by decide) s0_inv s0_node s0_free _ _ _ 120 120 t1 t2 now'
    (by decide) (by decide) h
example (t1 t2 now' : Nat) (h : t2 + 1000 ≤ now') :
    known (ingest (libraryGoodbye (printer :: service) C15Ex.ips C15Ex.ports pss 120) service own
      (ingest (printerAnn.packet service) service own s0 t1) t2) service now' =
      known s0 service now' :=
  library_goodbye_gone printer (by decide) s0_inv s0_node s0_free _ _ _ 120 120 t1 t2 now'
    (by decide) (by decide) h

/-- item 4: the library's announcement of the printer carries its A record twice -/
example : (libraryAnnounce (printer :: service) C15Ex.ips C15Ex.ports pss 120).additional =
    [mkRR (printer :: service) 120 (.flat 1 [.int 0xC0A80001])] := by rfl

/-- … and leaves the store the plain announcement leaves -/
example (t : Nat) :
    ingest (libraryAnnounce (printer :: service) C15Ex.ips C15Ex.ports pss 120) service own s0 t =
      ingest (printerAnn.packet service) service own s0 t :=
  ingest_libraryAnnounce printer (by decide) s0_inv _ _ _ _ _

/-- the same records sent TXT first, then SRV, then A, and the A record again in `additional` -/
def shuffled : Packet :=
  { announce (instRecords (printer :: service) C15Ex.ips C15Ex.ports pss 120).reverse with
    additional := [mkRR (printer :: service) 120 (.flat 1 [.int 0xC0A80001])] }

example (t now' : Nat) : ∃ i, Instance.eqv i (advertised printer C15Ex.ips C15Ex.ports pss) ∧
    (known (ingest shuffled service own s0 t) service now').Perm
      (aliveInst i t 120 now' ++ known s0 service now') :=
  known_after_library_announce_any_order printer (by decide) s0_inv s0_node _ _ _ 120 t now'
    (by decide) (by decide) s0_free shuffled (List.reverse_perm _)
    (by
      intro r hr
      have : r = mkRR (printer :: service) 120 (.flat 1 [.int 0xC0A80001]) := by
        simpa [shuffled] using hr
      exact ⟨(false, 0xC0A80001), by decide, this⟩)

/-- `ingest_dedup` on the response with the repeated A record: its hypothesis holds and the
distinct records are the three records of the announcement -/
example (t : Nat) : ingest shuffled service own s0 t =
    (instRecords (printer :: service) C15Ex.ips C15Ex.ports pss 120).reverse.foldl
      (fun st r => st.addCached r t) s0 :=
  ingest_dedup s0_inv shuffled service own t (by decide)

/-- a record just cached is `Settled` -/
example : Settled (ingest (printerAnn.packet service) service own s0 1000) 1000
    (mkRR (printer :: service) 120 (.flat 1 [.int 0xC0A80001])) := by
  right; rfl

end C15AuditEx

/-! ### 6. more than two receptions per instance -/

/-- a bucket that holds what `s0` held under the key, followed by cache entries: nothing in it is
registered locally that was not in `s0` -/
theorem notAuth_setBucket_append {s0 : Store} (hI : Inv s0) {k : Key} {rs1 rs : List RR}
    {K : Kind} (hK : K ≠ .auth) (hna : NotAuth s0 rs) :
    NotAuth (s0.setBucket k ((s0.bucket k).getD [] ++ rs1.map (fun r => (r, K)))) rs := by
  intro x hx ha
  apply hna x hx
  unfold abs at ha
  rw [Store.bucket_setBucket] at ha
  split at ha
  · rename_i hk
    rw [Option.bind_some] at ha
    obtain ⟨x', hm, he⟩ := Bucket.get_eq_some ha
    rcases List.mem_append.mp hm with hm | hm
    · cases hb : s0.bucket k with
      | none => rw [hb] at hm; cases hm
      | some b =>
        rw [hb] at hm
        have := hI.abs_of_mem (Store.bucket_mem hb) (x := x') (kind := .auth) hm
        rw [← abs_congr s0 he]; exact this
    · obtain ⟨r, _, hr⟩ := List.mem_map.mp hm
      exact absurd (congrArg Prod.snd hr) hK
  · exact ha

/-- **One more reception of the same data.** The owner's bucket holds what `s0` held plus the
records `rs1` of an earlier announcement, all cached with some lifetime `K`. Caching a record set
`rs2` with the same data (`SameData`: TTL and cache-flush bit may differ) at `t2` leaves the stored
copies in place and gives all of them the lifetime of THIS reception. -/
theorem foldl_addCached_same_data {s0 : Store} (hI : Inv s0) {full : Name} {ttl1 ttl2 : Nat}
    {rs1 rs2 : List RR} (ho2 : OneOwner full ttl2 rs2) (hf : KeyFree s0 (getKey full))
    (hna2 : NotAuth s0 rs2) (hsame : SameData rs1 rs2) (_ho1 : OneOwner full ttl1 rs1) {K : Kind}
    (hK : K ≠ .auth) (t2 : Nat) :
    rs2.foldl (fun st r => st.addCached r t2)
        (s0.setBucket (getKey full)
          ((s0.bucket (getKey full)).getD [] ++ rs1.map (fun r => (r, K)))) =
      s0.setBucket (getKey full)
        ((s0.bucket (getKey full)).getD [] ++ rs1.map (fun r => (r, cachedAt t2 ttl2))) := by
  have hna2' := notAuth_setBucket_append (k := getKey full) (rs1 := rs1) hI hK hna2
  have hfresh := fresh_of_keyFree hI hf hna2
  cases rs2 with
  | nil => exact absurd rfl ho2.ne
  | cons r rest =>
    rw [foldl_addCached_insertAll rest r _ t2 (getKey full) (t2 + 1000 * ttl2)
      (t2 + 1000 * refreshOffsetSecs ttl2) (fun x hx => by rw [ho2.name x hx])
      (fun x hx => by have := ho2.ttl x hx; unfold effTtl at this; rw [this])
      (fun x hx => by have := ho2.ttl x hx; unfold effTtl at this; rw [this]) hna2']
    rw [Store.setBucket_setBucket, Store.bucket_setBucket, if_pos rfl, Option.getD_some,
      Bucket.insertAll_eq _ _ _ ho2.distinct]
    congr 1
    generalize hrs2 : r :: rest = rs2 at hfresh hsame
    have hnew : rs2.filter (fun x => !((s0.bucket (getKey full)).getD [] ++
        rs1.map (fun r => (r, K))).any (fun e => rrEq e.1 x)) = [] := by
      rw [List.filter_eq_nil_iff]
      intro x hx
      have := hsame.2 x hx
      simp only [List.any_append, List.any_map, Function.comp_def, Bool.not_eq_true',
        Bool.or_eq_false_iff, not_and]
      intro _
      simpa using this
    rw [hnew, List.map_nil, List.append_nil, List.map_append]
    congr 1
    · conv => rhs; rw [← List.map_id ((s0.bucket (getKey full)).getD [])]
      apply List.map_congr_left
      intro e he
      have : rs2.any (fun r => rrEq e.1 r) = false := by
        rw [List.any_eq_false]
        intro x hx; simp [hfresh x hx e he]
      simp [this]
    · rw [List.map_map]
      apply List.map_congr_left
      intro x hx
      simp only [Function.comp]
      rw [if_pos (hsame.1 x hx)]
      rfl

/-- the listener receives announcements of ONE instance description (same addresses, ports, TXT
strings) one after the other: the list of (TTL, time of reception) -/
def reannounceAll (service own full : Name) (ips : List (Bool × Nat)) (ports : List Nat)
    (ss : List Bytes) (anns : List (Nat × Nat)) (s : Store) : Store :=
  anns.foldl (fun st a => ingest (announce (instRecords full ips ports ss a.1)) service own st a.2) s

/-- the store after the first announcement and any number of re-announcements: the bucket still
holds the first announcement's copies, with one common lifetime -/
theorem store_after_reannouncements {service own : Name} (inst : Label)
    (hown : own ≠ inst :: service) {s0 : Store} (hI : Inv s0)
    (hfree : OwnerFree s0 (inst :: service)) (ips : List (Bool × Nat)) (ports : List Nat)
    (ss : List Bytes) (hips : ips.Nodup) (hports : ports.Nodup) (ttl1 : Nat)
    (more : List (Nat × Nat)) {K : Kind} (hK : K ≠ .auth) :
    ∃ K', K' ≠ .auth ∧
      reannounceAll service own (inst :: service) ips ports ss more
        (s0.setBucket (getKey (inst :: service)) ((s0.bucket (getKey (inst :: service))).getD [] ++
          (instRecords (inst :: service) ips ports ss ttl1).map (fun r => (r, K)))) =
      s0.setBucket (getKey (inst :: service)) ((s0.bucket (getKey (inst :: service))).getD [] ++
        (instRecords (inst :: service) ips ports ss ttl1).map (fun r => (r, K'))) := by
  induction more generalizing K with
  | nil => exact ⟨K, hK, rfl⟩
  | cons m ms ih =>
    unfold reannounceAll
    rw [List.foldl_cons, ingest_announce service own inst hown,
      foldl_addCached_same_data hI (instRecords_oneOwner _ ss m.1 hips hports) hfree.1
        (hfree.notAuth_inst _ _ _ _) (instRecords_sameData _ ips ports ss ttl1 m.1)
        (instRecords_oneOwner _ ss ttl1 hips hports) hK m.2]
    exact ih (K := cachedAt m.2 m.1) (by simp [cachedAt])

/-- **Item 6, periodic re-announcement: the last announcement determines `get_known_services`.**
`inst.service` is announced any number of times with the same data (any TTLs, any times, `earlier`)
and then once more at `t` with TTL `ttl`. Whatever happened before, the instance is reported ONCE,
with the advertised data, exactly until `t + 1000·ttl`; other instances are untouched. (For two
receptions this is `known_reannounce`.) -/
theorem known_periodic_reannounce {service own : Name} (inst : Label)
    (hown : own ≠ inst :: service) {s0 : Store} (hI : Inv s0)
    (hnode : s0.nodeExists (getKey service) = true) (hfree : OwnerFree s0 (inst :: service))
    (ips : List (Bool × Nat)) (ports : List Nat) (ss : List Bytes) (hips : ips.Nodup)
    (hports : ports.Nodup) (earlier : List (Nat × Nat)) (ttl t now' : Nat) :
    (known (reannounceAll service own (inst :: service) ips ports ss (earlier ++ [(ttl, t)]) s0)
        service now').Perm
      (aliveInst (advertised inst ips ports ss) t ttl now' ++ known s0 service now') := by
  cases earlier with
  | nil =>
    exact known_after_announce_any inst hown hI hnode ips ports ss ttl t now' hips hports hfree.1
      (hfree.notAuth_inst _ _ _ _)
  | cons a more =>
    have hstep : reannounceAll service own (inst :: service) ips ports ss
        ((a :: more) ++ [(ttl, t)]) s0 =
        reannounceAll service own (inst :: service) ips ports ss (more ++ [(ttl, t)])
          (ingest (announce (instRecords (inst :: service) ips ports ss a.1)) service own s0 a.2) :=
      rfl
    rw [hstep, ingest_announce service own inst hown,
      foldl_addCached_oneOwner hI (instRecords_oneOwner _ ss a.1 hips hports) hfree.1
        (hfree.notAuth_inst _ _ _ _) a.2]
    -- the last step, made explicit
    have hlast : reannounceAll service own (inst :: service) ips ports ss (more ++ [(ttl, t)])
        (s0.setBucket (getKey (inst :: service)) ((s0.bucket (getKey (inst :: service))).getD [] ++
          (instRecords (inst :: service) ips ports ss a.1).map (fun r => (r, cachedAt a.2 a.1)))) =
        s0.setBucket (getKey (inst :: service)) ((s0.bucket (getKey (inst :: service))).getD [] ++
          (instRecords (inst :: service) ips ports ss a.1).map (fun r => (r, cachedAt t ttl))) := by
      obtain ⟨K1, hK1, h1⟩ := store_after_reannouncements inst hown hI hfree ips ports ss hips
        hports a.1 more (K := cachedAt a.2 a.1) (by simp [cachedAt])
      unfold reannounceAll at h1 ⊢
      rw [List.foldl_append, h1, List.foldl_cons, List.foldl_nil,
        ingest_announce service own inst hown,
        foldl_addCached_same_data hI (instRecords_oneOwner _ ss ttl hips hports) hfree.1
          (hfree.notAuth_inst _ _ _ _) (instRecords_sameData _ ips ports ss a.1 ttl)
          (instRecords_oneOwner _ ss a.1 hips hports) hK1 t]
    rw [hlast]
    refine (known_setBucket hI _ _ (Store.nodeExists_setBucket hnode _ _) now').trans ?_
    refine List.Perm.append ?_ (known_of_keyFree hI hnode hfree.1 now').symm
    rw [contrib_once (instRecords_ne_nil _ _ _ _ _) (instKey_prefix inst service) hfree.1,
      fromRecords_instRecords service inst ips ports ss a.1 hips hports]
    rfl

/-! #### a reception into a bucket that still holds old entries -/

/-- every cache entry under key `k` is a copy of a record of `rs` or has expired at `now'`
(the hypothesis that replaces `KeyFree` for a third, fourth, … reception) -/
def StaleOrIn (s : Store) (k : Key) (rs : List RR) (now' : Nat) : Prop :=
  ∀ e ∈ (s.bucket k).getD [], e.2 = .auth ∨ rs.any (fun r => rrEq e.1 r) = true ∨
    ∃ ex rf, e.2 = .cached ex rf ∧ ex ≤ now'

/-- a bucket without cache entries satisfies `StaleOrIn` for every record set -/
theorem StaleOrIn.of_keyFree {s : Store} {k : Key} (h : KeyFree s k) (rs : List RR) (now' : Nat) :
    StaleOrIn s k rs now' := fun e he => .inl (h e he)

/-- the records alive in the owner's bucket `b` after the record set `rs` has been cached, while
that reception is alive and everything else in `b` is expired: the stored copies of records of `rs`
(in their old places), then the records of `rs` that were new -/
def liveAfter (b : Bucket) (rs : List RR) : List RR :=
  (b.filter (fun e => rs.any (fun r => rrEq e.1 r))).map (·.1) ++
    rs.filter (fun r => !b.any (fun e => rrEq e.1 r))

/-- these are the records of `rs`, up to `PartialEq for ResourceRecord` and order -/
theorem liveAfter_sameRecs (b : Bucket) (rs : List RR) : SameRecs (liveAfter b rs) rs := by
  unfold liveAfter
  constructor
  · intro r hr
    rcases List.mem_append.mp hr with h | h
    · obtain ⟨e, he, rfl⟩ := List.mem_map.mp h
      obtain ⟨r', hr', hq⟩ := List.any_eq_true.mp (List.mem_filter.mp he).2
      exact ⟨r', hr', hq⟩
    · exact ⟨r, (List.mem_filter.mp h).1, rrEq_refl r⟩
  · intro r hr
    by_cases ha : b.any (fun e => rrEq e.1 r) = true
    · obtain ⟨e, he, hq⟩ := List.any_eq_true.mp ha
      refine ⟨e.1, List.mem_append_left _ (List.mem_map.mpr ⟨e, List.mem_filter.mpr ⟨he, ?_⟩, rfl⟩),
        rrEq_symm hq⟩
      exact List.any_eq_true.mpr ⟨r, hr, hq⟩
    · exact ⟨r, List.mem_append_right _ (List.mem_filter.mpr ⟨hr, by simpa using ha⟩), rrEq_refl r⟩

/-- the live records among the old entries after the refresh: the copies of records of `rs`, if
the new reception is alive -/
theorem livePick_refreshed (b : Bucket) (rs : List RR) (t ttl now' : Nat)
    (hst : ∀ e ∈ b, e.2 = .auth ∨ rs.any (fun r => rrEq e.1 r) = true ∨
      ∃ ex rf, e.2 = .cached ex rf ∧ ex ≤ now') :
    livePick now' (b.map (fun e => if rs.any (fun r => rrEq e.1 r) = true
        then (e.1, cachedAt t ttl) else e)) =
      if now' < t + 1000 * ttl then (b.filter (fun e => rs.any (fun r => rrEq e.1 r))).map (·.1)
      else [] := by
  induction b with
  | nil => simp [livePick]
  | cons e es ih =>
    have ih' := ih (fun x hx => hst x (List.mem_cons_of_mem _ hx))
    unfold livePick at ih' ⊢
    rw [List.map_cons, List.filter_cons, List.filter_cons]
    by_cases hin : rs.any (fun r => rrEq e.1 r) = true
    · simp only [hin, if_true]
      by_cases hlt : now' < t + 1000 * ttl
      · have hm : Filter.cachedOnly.matches (cachedAt t ttl) now' = true := by
          simp [cachedAt, Filter.cachedOnly, Filter.matches, hlt]
        rw [if_pos hm, List.map_cons, ih', if_pos hlt, if_pos hlt, List.map_cons]
      · have hm : Filter.cachedOnly.matches (cachedAt t ttl) now' = false := by
          simp [cachedAt, Filter.cachedOnly, Filter.matches, hlt]
        rw [hm, if_neg (by simp), ih', if_neg hlt, if_neg hlt]
    · have hm : Filter.cachedOnly.matches e.2 now' = false := by
        rcases hst e (by simp) with h | h | ⟨ex, rf, h, hle⟩
        · rw [h]; rfl
        · exact absurd h hin
        · rw [h]; simp [Filter.cachedOnly, Filter.matches]; omega
      simp only [hin, Bool.false_eq_true, if_false, hm]
      exact ih'

/-- **One reception into a bucket with old entries** (item 6: `KeyFree` replaced by `StaleOrIn`).
`s0` has the invariant and a trie node at the service's key; none of the received records is
registered locally; every cache entry under the owner's key is a copy of a received record or has
expired at `now'`. After the record set has been cached at `t`, `get_known_services` at `now'` is —
up to order — what the OTHER buckets give plus, while `now' < t + 1000·ttl`, `from_records` of the
received records (`liveAfter`: old copies first; the same records up to order). -/
theorem known_one_reception_stale {s0 : Store} (hI : Inv s0) {service : Name}
    (hnode : s0.nodeExists (getKey service) = true) {full : Name} {ttl : Nat} {rs : List RR}
    (ho : OneOwner full ttl rs) (hpre : isPrefixOf (getKey service) (getKey full) = true)
    (hna : NotAuth s0 rs) (t now' : Nat) (hst : StaleOrIn s0 (getKey full) rs now') :
    (known (rs.foldl (fun st r => st.addCached r t) s0) service now').Perm
      ((if now' < t + 1000 * ttl then
          (fromRecords service (liveAfter ((s0.bucket (getKey full)).getD []) rs)).toList
        else []) ++ knownElse s0 (getKey full) service now') := by
  have hsr := liveAfter_sameRecs ((s0.bucket (getKey full)).getD []) rs
  cases rs with
  | nil => exact absurd rfl ho.ne
  | cons r rest =>
    rw [foldl_addCached_insertAll rest r s0 t (getKey full) (t + 1000 * ttl)
      (t + 1000 * refreshOffsetSecs ttl) (fun x hx => by rw [ho.name x hx])
      (fun x hx => by have := ho.ttl x hx; unfold effTtl at this; rw [this])
      (fun x hx => by have := ho.ttl x hx; unfold effTtl at this; rw [this]) hna,
      Bucket.insertAll_eq _ _ _ ho.distinct]
    refine (known_setBucket hI _ _ (Store.nodeExists_setBucket hnode _ _) now').trans ?_
    refine List.Perm.append_right _ (List.Perm.of_eq ?_)
    generalize hrs : r :: rest = rs at hst hsr ho
    unfold contrib bucketInstance
    rw [if_pos hpre, livePick_append, livePick_map]
    have h1 := livePick_refreshed ((s0.bucket (getKey full)).getD []) rs t ttl now' hst
    unfold cachedAt at h1
    rw [h1]
    by_cases hlt : now' < t + 1000 * ttl
    · have hm : (fun _ : RR => Filter.cachedOnly.matches
          (Kind.cached (t + 1000 * ttl) (t + 1000 * refreshOffsetSecs ttl)) now') = fun _ => true := by
        funext _; simp [Filter.cachedOnly, Filter.matches, hlt]
      rw [hm, filter_const_true, if_pos hlt, if_pos hlt]
      have hne : (liveAfter ((s0.bucket (getKey full)).getD []) rs).isEmpty = false := by
        rw [Bool.eq_false_iff]
        intro he
        rw [List.isEmpty_iff] at he
        obtain ⟨x, hx⟩ := List.exists_mem_of_ne_nil _ ho.ne
        obtain ⟨x', hx', _⟩ := hsr.2 x hx
        rw [he] at hx'; cases hx'
      unfold liveAfter at hne ⊢
      rw [hne]
      rfl
    · have hm : (fun _ : RR => Filter.cachedOnly.matches
          (Kind.cached (t + 1000 * ttl) (t + 1000 * refreshOffsetSecs ttl)) now') = fun _ => false := by
        funext _; simp [Filter.cachedOnly, Filter.matches, hlt]
      rw [hm, filter_const_false, if_neg hlt, if_neg hlt]
      rfl

/-- **… for an announcement**: `inst.service` is announced at `t` into a store whose bucket for the
name may hold anything that is a copy of an announced record or expired at `now'`. The instance is
reported once, equal to the advertised one as Rust compares them, until `t + 1000·ttl`. -/
theorem known_announce_stale {service own : Name} (inst : Label) (hown : own ≠ inst :: service)
    {s : Store} (hI : Inv s) (hnode : s.nodeExists (getKey service) = true)
    (ips : List (Bool × Nat)) (ports : List Nat) (ss : List Bytes) (ttl t now' : Nat)
    (hips : ips.Nodup) (hports : ports.Nodup)
    (hna : ∀ r, r.name = inst :: service → abs s r ≠ some .auth)
    (hst : StaleOrIn s (getKey (inst :: service))
      (instRecords (inst :: service) ips ports ss ttl) now') :
    ∃ i, Instance.eqv i (advertised inst ips ports ss) ∧
      (known (ingest (announce (instRecords (inst :: service) ips ports ss ttl)) service own s t)
        service now').Perm
        (aliveInst i t ttl now' ++ knownElse s (getKey (inst :: service)) service now') := by
  have ho := instRecords_oneOwner (inst :: service) ss ttl hips hports
  have hk := known_one_reception_stale hI hnode ho (instKey_prefix inst service)
    (fun r hr => hna r (mem_instRecords hr).1) t now' hst
  have hs := liveAfter_sameRecs ((s.bucket (getKey (inst :: service))).getD [])
    (instRecords (inst :: service) ips ports ss ttl)
  have hadv := fromRecords_instRecords service inst ips ports ss ttl hips hports
  obtain ⟨hsome, hrest⟩ := fromRecords_sameRecs (service := service) hs
  rw [hadv] at hsome
  obtain ⟨i, hi⟩ := Option.isSome_iff_exists.mp hsome
  obtain ⟨ha, hb, hc, _⟩ := hrest i _ hi hadv
  have hname : ∀ r ∈ liveAfter ((s.bucket (getKey (inst :: service))).getD [])
      (instRecords (inst :: service) ips ports ss ttl), r.name = inst :: service := by
    intro r hr
    obtain ⟨r', hr', he⟩ := hs.1 r hr
    rw [rrEq_name he]; exact (mem_instRecords hr').1
  rw [← ingest_announce service own inst hown, hi] at hk
  refine ⟨i, ⟨ha _ hname, hb, hc, ?_⟩, hk⟩
  apply attrs_mem_iff_of_lookup_eq (fromRecords_attrs_keys_nodup hi)
    (fromRecords_attrs_keys_nodup hadv)
  intro k
  apply fromRecords_sameRecs_lookup hs hi hadv
  intro r hr r' hr' v v' hg hg'
  obtain ⟨x, hx, he⟩ := hs.1 r hr
  obtain ⟨x', hx', he'⟩ := hs.1 r' hr'
  exact txtAttrs_functional ss
    ((exists_txtGives_instRecords (inst :: service) ips ports ss ttl k v).mp ⟨x, hx, hg.congr he⟩)
    ((exists_txtGives_instRecords (inst :: service) ips ports ss ttl k v').mp
      ⟨x', hx', hg'.congr he'⟩)

/-- every cache entry under key `k` has expired at `now'` -/
def AllExpired (s : Store) (k : Key) (now' : Nat) : Prop :=
  ∀ e ∈ (s.bucket k).getD [], e.2 = .auth ∨ ∃ ex rf, e.2 = .cached ex rf ∧ ex ≤ now'

/-- caching a record whose lifetime ends by `now'` keeps every bucket's cache entries expired -/
theorem AllExpired.addCached {s : Store} {k : Key} {now' : Nat} (h : AllExpired s k now') (r : RR)
    (t : Nat) (hr : t + 1000 * effTtl r ≤ now') : AllExpired (s.addCached r t) k now' := by
  unfold Store.addCached
  simp only
  split
  · exact h
  · intro e he
    rw [Store.bucket_setBucket] at he
    split at he
    · rename_i hk
      rw [Option.getD_some] at he
      rcases Bucket.mem_insert he with ⟨hm, _⟩ | ⟨hk2, _, _⟩
      · rw [← hk] at hm; exact h e hm
      · exact .inr ⟨_, _, hk2, hr⟩
    · exact h e he

/-- … for a run of records -/
theorem AllExpired.foldl_addCached {s : Store} {k : Key} {now' : Nat} (h : AllExpired s k now')
    (l : List RR) (t : Nat) (hl : ∀ r ∈ l, t + 1000 * effTtl r ≤ now') :
    AllExpired (l.foldl (fun st r => st.addCached r t) s) k now' := by
  induction l generalizing s with
  | nil => exact h
  | cons r rs ih =>
    exact ih (h.addCached r t (hl r (by simp))) (fun x hx => hl x (List.mem_cons_of_mem _ hx))

/-- caching a record does not change what the buckets of OTHER keys contribute -/
theorem knownElse_addCached (s : Store) (r : RR) (t : Nat) (service : Name) (now : Nat) :
    knownElse (s.addCached r t) (getKey r.name) service now =
      knownElse s (getKey r.name) service now := by
  unfold Store.addCached
  simp only
  split
  · rfl
  · exact knownElse_setBucket _ _ _ _ _

/-- … for a run of records of one owner -/
theorem knownElse_foldl_addCached (l : List RR) (s : Store) (t : Nat) {full : Name}
    (hl : ∀ r ∈ l, r.name = full) (service : Name) (now : Nat) :
    knownElse (l.foldl (fun st r => st.addCached r t) s) (getKey full) service now =
      knownElse s (getKey full) service now := by
  induction l generalizing s with
  | nil => rfl
  | cons r rs ih =>
    rw [List.foldl_cons, ih _ (fun x hx => hl x (List.mem_cons_of_mem _ hx)), ← hl r (by simp),
      knownElse_addCached]

/-- **Item 6, re-announcement after expiry: the last announcement determines
`get_known_services`.** `inst.service` has been announced any number of times, with ANY data
(`earlier`: other addresses, ports, TXT strings), and all of that has expired at `now'`. It is then
announced at `t` with TTL `ttl`. At `now'` it is reported once, equal to the LAST advertised
description as Rust compares instances, exactly while `now' < t + 1000·ttl`; nothing of the earlier
descriptions shows; other instances are untouched. -/
theorem known_reannounce_after_expiry {service own : Name} (inst : Label)
    (hown : own ≠ inst :: service) {s0 : Store} (hI : Inv s0)
    (hnode : s0.nodeExists (getKey service) = true) (hfree : OwnerFree s0 (inst :: service))
    (earlier : List Ann) (hinst : ∀ a ∈ earlier, a.inst = inst) (now' : Nat)
    (hexp : ∀ a ∈ earlier, a.time + 1000 * a.ttl ≤ now')
    (ips : List (Bool × Nat)) (ports : List Nat) (ss : List Bytes) (ttl t : Nat)
    (hips : ips.Nodup) (hports : ports.Nodup) :
    ∃ i, Instance.eqv i (advertised inst ips ports ss) ∧
      (known (ingest (announce (instRecords (inst :: service) ips ports ss ttl)) service own
          (ingestAll service own earlier s0) t) service now').Perm
        (aliveInst i t ttl now' ++ known s0 service now') := by
  -- what the earlier receptions leave behind
  have key : ∀ (l : List Ann) (s : Store), (∀ a ∈ l, a.inst = inst) →
      (∀ a ∈ l, a.time + 1000 * a.ttl ≤ now') → Inv s →
      s.nodeExists (getKey service) = true →
      (∀ r, r.name = inst :: service → abs s r ≠ some .auth) →
      AllExpired s (getKey (inst :: service)) now' →
      Inv (ingestAll service own l s) ∧
      (ingestAll service own l s).nodeExists (getKey service) = true ∧
      (∀ r, r.name = inst :: service → abs (ingestAll service own l s) r ≠ some .auth) ∧
      AllExpired (ingestAll service own l s) (getKey (inst :: service)) now' ∧
      knownElse (ingestAll service own l s) (getKey (inst :: service)) service now' =
        knownElse s (getKey (inst :: service)) service now' := by
    intro l
    induction l with
    | nil => intro s _ _ h1 h2 h3 h4; exact ⟨h1, h2, h3, h4, rfl⟩
    | cons a as ih =>
      intro s hin hex h1 h2 h3 h4
      have ha : a.inst = inst := hin a (by simp)
      have hstep : ingestAll service own (a :: as) s =
          ingestAll service own as (ingest (a.packet service) service own s a.time) := rfl
      have hfold : ingest (a.packet service) service own s a.time =
          (instRecords (inst :: service) a.ips a.ports a.ss a.ttl).foldl
            (fun st r => st.addCached r a.time) s := by
        unfold Ann.packet
        rw [ha]
        exact ingest_announce service own inst hown _ _ _ _ _ _
      obtain ⟨r1, r2, r3, r4, r5⟩ := ih (ingest (a.packet service) service own s a.time)
        (fun b hb => hin b (List.mem_cons_of_mem _ hb))
        (fun b hb => hex b (List.mem_cons_of_mem _ hb))
        (h1.ingest _ _ _ _) (Store.nodeExists_ingest h2 _ _ _ _)
        (fun r hr => by rw [Ne, ingest_keeps_auth]; exact h3 r hr)
        (by
          rw [hfold]
          apply h4.foldl_addCached
          intro r hr
          have := mem_instRecords hr
          have he : effTtl r = a.ttl := by simp [effTtl, this.2.1, this.2.2]
          rw [he]; exact hex a (by simp))
      rw [hstep]
      refine ⟨r1, r2, r3, r4, ?_⟩
      rw [r5, hfold]
      exact knownElse_foldl_addCached _ _ _ (fun r hr => (mem_instRecords hr).1) _ _
  have h0 : AllExpired s0 (getKey (inst :: service)) now' := fun e he => .inl (hfree.1 e he)
  obtain ⟨r1, r2, r3, r4, r5⟩ := key earlier s0 hinst hexp hI hnode hfree.2 h0
  obtain ⟨i, hi, hk⟩ := known_announce_stale inst hown r1 r2 ips ports ss ttl t now' hips hports r3
    (fun e he => (r4 e he).elim .inl (fun h => .inr (.inr h)))
  refine ⟨i, hi, hk.trans ?_⟩
  rw [r5]
  exact List.Perm.append_left _ (known_of_keyFree hI hnode hfree.1 now').symm

namespace C15AuditEx
open C15Ex (service own printer)
open C15MultiEx (s0 s0_inv s0_node s0_free printerAnn)

/-- item 6, periodic: the printer announced at 1 s, 50 s and 100 s (TTL 120 s each) is reported
once, until 220 s, for every query time -/
example (now' : Nat) :
    (known (reannounceAll service own (printer :: service) C15Ex.ips C15Ex.ports pss
      ([(120, 1000), (120, 50000)] ++ [(120, 100000)]) s0) service now').Perm
      (aliveInst (advertised printer C15Ex.ips C15Ex.ports pss) 100000 120 now' ++
        known s0 service now') :=
  known_periodic_reannounce printer (by decide) s0_inv s0_node s0_free _ _ _ (by decide)
    (by decide) _ 120 100000 now'

/-- the hypothesis `StaleOrIn` holds of a store that has no cache entry under the name -/
example (now' : Nat) : StaleOrIn s0 (getKey (printer :: service))
    (instRecords (printer :: service) C15Ex.ips C15Ex.ports pss 120) now' :=
  StaleOrIn.of_keyFree s0_free.1 _ _

/-- item 6, after expiry: the printer's announcement of 1 s (TTL 120 s) has expired at 130 s; a
NEW description (other address, other port, `a=2`) announced at 125 s is what is reported then —
nothing of the old one -/
example : ∃ i, Instance.eqv i (advertised printer [(false, 0xC0A80009)] [8081] [[97, 61, 50]]) ∧
    (known (ingest (announce (instRecords (printer :: service) [(false, 0xC0A80009)] [8081]
        [[97, 61, 50]] 120)) service own (ingestAll service own [printerAnn] s0) 125000) service
      130000).Perm
      (aliveInst i 125000 120 130000 ++ known s0 service 130000) :=
  known_reannounce_after_expiry printer (by decide) s0_inv s0_node s0_free [printerAnn]
    (by decide) 130000 (by decide) _ _ _ 120 125000 (by decide) (by decide)

end C15AuditEx

end Dns.Mdns
