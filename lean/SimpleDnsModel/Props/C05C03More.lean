/-
Additions to C05 (record framing), C03 (name compression), C01 (bounded work)
and C02 (build then parse).

C05. `Framing.RecOK` relates a parsed record to the walked entry at its offset
but says nothing about the RDATA value. `RDataOK` is the missing conjunct: the
RDATA is what `Framing.rdataOn` decodes from the message cut at the end of the
record (`e.next` = end of name + 10 + RDLENGTH); `RDataOK.cases` spells it out
by type (OPT / empty / typed parser on exactly the RDLENGTH bytes).
`RecFull` = walked entry + `RecOK` + `RDataOK`, proved per record, per section
and for every record of a parsed packet. `typed_stays_inside`: the typed parser
never ends beyond the cut; `record_typed_err` / `record_name_overrun_err`: a
field (an embedded name) that needs bytes beyond the end of the record makes
the record an error, even when the bytes are there in the next record.
`opt_lift_counts` is the spec-level statement of the OPT lifting, derived from
`opt_lift` (Props/C09.lean).

C03. Offsets above 0x3FFF are never recorded (`compressName_beyond_14_bits`,
per suffix: `compressName_new_entries`, `compressName_high_suffix_not_recorded`),
a name none of whose suffixes is known is written in full
(`compressName_unknown_plain`), and the suffix table never holds a key twice
(`compressName_keys_nodup` … `Packet.buildGT_keys_nodup`), which is what makes
the association list with first-match lookup a faithful model of the Rust
`HashMap` (`Table.find_eq_some_iff`).

C01. `parseRRs_consumes` / `parseQuestions_consumes`: k records (questions)
consume at least 11·k (5·k) bytes; `parseRRs_err_prefix`: a failing section
has a longest successfully parsed prefix, whose length is bounded by the input
length (`parseRRs_err_work_bounded`).

C02. `unknown_qtype_written_not_read`, and pieces of `constructors_WF`.
-/
import SimpleDnsModel.Props.C09
import SimpleDnsModel.Props.C01Cost
import SimpleDnsModel.Props.C03Length
import SimpleDnsModel.Props.C05Trailing
import SimpleDnsModel.Props.C18
import SimpleDnsModel.Model.Api
import SimpleDnsModel.Model.NameText
namespace Dns
open Framing (Corr RecOK QuOK rdataOn)

/-! ## C05-1. the RDATA of a record is decoded from exactly its RDLENGTH bytes -/

/-- The RDATA conjunct that `RecOK` lacks: the record's RDATA value is the result of decoding
(`Framing.rdataOn`, the normal form of `RData::parse`) the message cut at the end of the walked
entry, with the TYPE field at the entry's `nameEnd` and the entry's RDLENGTH; the cursor after it
is the entry's `next`. Nothing after `e.next` is visible to the decoder. -/
def RDataOK (d : Bytes) (r : RR) (e : Spec.REntry) : Prop :=
  rdataOn (d.take e.next) e.nameEnd e.rdlen = .ok (r.rdata, e.next)

/-- **Per-record theorem with the RDATA conjunct.** When `ResourceRecord::parse` succeeds at
`off`, the envelope walker finds a record there, the parser's cursor is the walker's `next`, the
fixed fields agree (`RecOK`) and the RDATA value is decoded from the message cut at `next`, i.e.
from exactly the RDLENGTH bytes of the record (`RDataOK`). -/
theorem record_rdata_from_rdlength {d : Bytes} {off : Nat} {r : RR} {p : Nat}
    (h : RR.parse d off = .ok (r, p)) :
    ∃ e, Spec.walkRecord d off = some e ∧ p = e.next ∧ RecOK d r e ∧ RDataOK d r e := by
  obtain ⟨e, he, _, hp, hok⟩ := Framing.RR.parse_frame h
  refine ⟨e, he, hp, hok, ?_⟩
  obtain ⟨_, hsk, _, _, _, hl, hfit⟩ := Rfc.walkRecord_fields he
  unfold RR.parse at h
  obtain ⟨⟨name, q⟩, hname, h⟩ := Out.bind_eq_ok h
  dsimp only at h
  have hq : q = e.nameEnd := by
    have := Framing.skipName_of_parse hname
    rw [hsk] at this
    exact (Option.some.inj this).symm
  subst hq
  split at h
  · cases h
  · obtain ⟨cb, _, h⟩ := Out.bind_eq_ok h
    obtain ⟨tb, _, h⟩ := Out.bind_eq_ok h
    obtain ⟨⟨rdata, p'⟩, hrd, h⟩ := Out.bind_eq_ok h
    dsimp only at h
    have hrp : rdata = r.rdata ∧ p' = p := by
      split at h
      · cases h; exact ⟨rfl, rfl⟩
      · obtain ⟨cls, _, h⟩ := Out.bind_eq_ok h
        cases h; exact ⟨rfl, rfl⟩
    obtain ⟨h1, h2⟩ := hrp
    subst h1 h2
    rw [Framing.RData.parse_eq_rdataOn hl hfit] at hrd
    rw [hp] at hrd
    exact hrd

/-- the answer of `c05Msg` (Props/C05.lean): the hypotheses hold and the RDATA conjunct is there -/
example : ∃ e, Spec.walkRecord c05Msg 21 = some e ∧ 37 = e.next ∧
    rdataOn (c05Msg.take 37) e.nameEnd e.rdlen = .ok (.flat 1 [.int 0x01020304], 37) := by
  obtain ⟨e, he, hp, _, hrd⟩ := record_rdata_from_rdlength c05Msg_record
  refine ⟨e, he, hp, ?_⟩
  rw [RDataOK, ← hp] at hrd
  exact hrd

/-! ## C05-2. the typed parser stays inside the record -/

/-- `IPSECKEY::parse` consumes its whole buffer -/
theorem ipseckeyParse_end {d : Bytes} {pos : Nat} {rd : RData} {p : Nat}
    (h : ipseckeyParse d pos = .ok (rd, p)) : p = d.length := by
  unfold ipseckeyParse at h
  split at h
  · cases h
  · obtain ⟨prec, _, h⟩ := Out.bind_eq_ok h
    obtain ⟨gt, _, h⟩ := Out.bind_eq_ok h
    obtain ⟨alg, _, h⟩ := Out.bind_eq_ok h
    dsimp only at h
    obtain ⟨⟨gw, q⟩, _, h⟩ := Out.bind_eq_ok h
    dsimp only at h
    obtain ⟨key, _, h⟩ := Out.bind_eq_ok h
    cases h
    rfl

/-- the per-type RDATA parsers (`parse_rdata`) never leave the cursor beyond the end of the buffer
they were given (`Cost.decAll_end_le` for the 38 table-driven types, plus IPSECKEY, NULL and
unknown types) -/
theorem parseTyped_end_le {b : Bytes} {pos : Nat} {t : TYPE} {rd : RData} {q : Nat}
    (hp : pos ≤ b.length) (h : parseTyped b pos t = .ok (rd, q)) : q ≤ b.length := by
  unfold parseTyped at h
  split at h
  · rw [ipseckeyParse_end h]; exact Nat.le_refl _
  · obtain ⟨s, hs, h⟩ := Out.bind_eq_ok h
    have := slice_length hs
    split at h
    · cases h
    · cases h; omega
  · obtain ⟨s, hs, h⟩ := Out.bind_eq_ok h
    have := slice_length hs
    split at h
    · cases h
    · cases h; omega
  · cases h
  · split at h
    · cases h
    · rename_i ks hs
      obtain ⟨⟨vs, q'⟩, hd, h⟩ := Out.bind_eq_ok h
      dsimp only at h
      split at h
      · cases h
        exact Cost.decAll_end_le ks hp hd
      · cases h

/-- **The typed parser stays inside the record.** Run on the message cut at `e` (the end of the
RDATA), from a cursor inside it, `parse_rdata` ends at or before `e`: no RDATA field can reach
into the next record. -/
theorem typed_stays_inside {d : Bytes} {e pos : Nat} {t : TYPE} {rd : RData} {q : Nat}
    (h1 : pos ≤ e) (h2 : pos ≤ d.length) (h : parseTyped (d.take e) pos t = .ok (rd, q)) :
    q ≤ e ∧ q ≤ d.length := by
  have := parseTyped_end_le (by rw [List.length_take]; omega) h
  rw [List.length_take] at this
  omega

/-- the hypotheses are satisfiable: an A record body followed by two more bytes, cut at 4 -/
example : parseTyped (([1, 2, 3, 4, 9, 9] : Bytes).take 4) 0 .A = .ok (.flat 1 [.int 0x01020304], 4) := by
  decide +kernel

/-- why the cursor must start inside the buffer (`RData::parse` guarantees it): the TXT loop
`while *position < data.len()` started beyond the end returns that cursor -/
example : parseTyped [1, 2] 5 .TXT = .ok (.flat 16 [.strs []], 5) := by
  simp [parseTyped, TYPE.toCode, schemaOf, decAll, decField, strsLoop, flatCheck]

/-- the TYPE field that the decoder reads in the cut message is the walked entry's -/
theorem walkRecord_cut_type {d : Bytes} {off : Nat} {e : Spec.REntry}
    (hw : Spec.walkRecord d off = some e) :
    deN (((d.take e.next).drop e.nameEnd).take 2) = e.type := by
  obtain ⟨_, _, ht, _, _, _, hfit⟩ := Rfc.walkRecord_fields hw
  have h2 : e.nameEnd + 2 ≤ e.next := by simp only [Spec.REntry.next]; omega
  rw [Framing.take_drop_take h2]
  rw [Framing.field_eq (by omega)] at ht
  exact Option.some.inj ht

/-- **What `RDataOK` says, type by type.** For a walked record: an OPT record (TYPE 41) is decoded
by `OPT::parse` from the message cut at the end of the record; any other record with RDLENGTH 0
has the `Empty` RDATA of its type; any other record is decoded by the typed parser
(`parse_rdata`) started at the RDATA offset of the message cut at the end of the record, and that
parser stops inside the record. -/
theorem RDataOK.cases {d : Bytes} {off : Nat} {r : RR} {e : Spec.REntry}
    (hw : Spec.walkRecord d off = some e) (h : RDataOK d r e) :
    (TYPE.ofCode e.type = .OPT → optParse (d.take e.next) e.nameEnd = .ok (r.rdata, e.next)) ∧
    (TYPE.ofCode e.type ≠ .OPT → e.rdlen = 0 → r.rdata = .empty (TYPE.ofCode e.type)) ∧
    (TYPE.ofCode e.type ≠ .OPT → e.rdlen ≠ 0 →
      ∃ q, parseTyped (d.take e.next) e.rdStart (TYPE.ofCode e.type) = .ok (r.rdata, q) ∧
        q ≤ e.next) := by
  obtain ⟨_, _, _, _, _, _, hfit⟩ := Rfc.walkRecord_fields hw
  unfold RDataOK rdataOn at h
  rw [walkRecord_cut_type hw] at h
  dsimp only at h
  refine ⟨fun ho => ?_, fun hno hz => ?_, fun hno hnz => ?_⟩
  · rwa [if_pos ho] at h
  · rw [if_neg hno, if_pos hz] at h
    simp only [Out.ok.injEq, Prod.mk.injEq] at h
    exact h.1.symm
  · rw [if_neg hno, if_neg hnz] at h
    obtain ⟨⟨rd, q⟩, hpt, h⟩ := Out.bind_eq_ok h
    simp only [Out.pure_eq, Out.ok.injEq, Prod.mk.injEq] at h
    rw [h.1] at hpt
    refine ⟨q, hpt, ?_⟩
    have hs : e.rdStart ≤ e.next := by simp only [Spec.REntry.rdStart, Spec.REntry.next]; omega
    exact (typed_stays_inside hs (by omega) hpt).1

/-- on the answer of `c05Msg`: `A::parse` on the message cut at 37, from offset 33 -/
example : ∃ q, parseTyped (c05Msg.take 37) 33 .A = .ok (.flat 1 [.int 0x01020304], q) ∧ q ≤ 37 := by
  obtain ⟨e, he, _, _, hrd⟩ := record_rdata_from_rdlength c05Msg_record
  have he' : e = { off := 21, nameEnd := 23, type := 1, cls := 1, ttl := 60, rdlen := 4 } := by
    have h2 : Spec.walkRecord c05Msg 21 =
        some { off := 21, nameEnd := 23, type := 1, cls := 1, ttl := 60, rdlen := 4 } := by decide
    rw [h2] at he
    exact (Option.some.inj he).symm
  subst he'
  exact (RDataOK.cases he hrd).2.2 (by decide) (by decide)

/-! ### every record of a section, of a packet -/

/-- The full per-record statement: `e` is the walked record at its own offset, the fixed fields
agree (`RecOK`: owner name, TTL, type, class, cache-flush bit) and the RDATA is decoded from the
record's RDLENGTH bytes (`RDataOK`). -/
def RecFull (d : Bytes) (r : RR) (e : Spec.REntry) : Prop :=
  Spec.walkRecord d e.off = some e ∧ RecOK d r e ∧ RDataOK d r e

/-- one record: `record_rdata_from_rdlength` packaged as `RecFull` -/
theorem record_full {d : Bytes} {off : Nat} {r : RR} {p : Nat}
    (h : RR.parse d off = .ok (r, p)) :
    ∃ e, Spec.walkRecord d off = some e ∧ p = e.next ∧ RecFull d r e := by
  obtain ⟨e, he, hp, hok, hrd⟩ := record_rdata_from_rdlength h
  have hoff := (Rfc.walkRecord_fields he).1
  exact ⟨e, he, hp, by rw [RecFull, hoff]; exact ⟨he, hok, hrd⟩⟩

/-- **A section.** The records returned by `Packet::parse_section` are, one to one and in order,
the walked records, each with the full statement including the RDATA conjunct. -/
theorem records_rdata_from_rdlength {d : Bytes} {n off : Nat} {rs : List RR} {p : Nat}
    (h : parseRRs d n off = .ok (rs, p)) :
    ∃ es, Spec.walkRecords d n off = some (es, p) ∧ Corr (RecFull d) rs es := by
  induction n generalizing off rs p with
  | zero =>
    simp only [parseRRs] at h
    cases h
    exact ⟨[], rfl, Corr.nil⟩
  | succ n ih =>
    simp only [parseRRs] at h
    obtain ⟨⟨r, q⟩, hr, h⟩ := Out.bind_eq_ok h
    dsimp only at h
    obtain ⟨⟨rs', q'⟩, hrs, h⟩ := Out.bind_eq_ok h
    cases h
    obtain ⟨e, he, hq, hok⟩ := record_full hr
    subst hq
    obtain ⟨es, hes, hc⟩ := ih hrs
    refine ⟨e :: es, ?_, Corr.cons hok hc⟩
    simp [Spec.walkRecords, he, hes]

/-- the two records of `c05Slack` (Props/C05.lean; the first has slack after its A body) -/
example : ∃ es, Spec.walkRecords c05Slack 2 12 = some (es, 44) :=
  let ⟨es, h, _⟩ := records_rdata_from_rdlength c05Slack_records; ⟨es, h⟩

/-- membership form of `Corr`: every element on the left has a partner on the right -/
theorem Framing.Corr.exists_of_mem {α β : Type} {R : α → β → Prop} {as : List α} {bs : List β}
    (h : Corr R as bs) : ∀ a ∈ as, ∃ b ∈ bs, R a b := by
  induction h with
  | nil => intro a ha; cases ha
  | cons hab _ ih =>
    intro a ha
    rcases List.mem_cons.mp ha with rfl | ha
    · exact ⟨_, List.mem_cons_self, hab⟩
    · obtain ⟨b, hb, hr⟩ := ih a ha
      exact ⟨b, List.mem_cons_of_mem _ hb, hr⟩

/-- what remains in the additional section after the OPT record was moved to the header is a
sublist of what was parsed -/
theorem liftOpt_rest_subset (l : List RR) : ∀ x ∈ (liftOpt l).2, x ∈ l := by
  induction l with
  | nil => intro x hx; simp [liftOpt] at hx
  | cons r rs ih =>
    intro x hx
    simp only [liftOpt] at hx
    split at hx
    · exact List.mem_cons_of_mem _ hx
    · rcases List.mem_cons.mp hx with rfl | hx
      · exact List.mem_cons_self
      · exact List.mem_cons_of_mem _ (ih x hx)

/-- **The whole message, with the RDATA conjunct.** `parse_respects_framing` (Props/C05.lean)
with `RecFull` in place of `RecOK`: the answers and name servers of a parsed packet are the walked
ones entry by entry, and the additional section is the walked one (`all`) minus the first OPT
record; every one of them has its RDATA decoded from exactly its RDLENGTH bytes. -/
theorem parse_respects_framing_rdata {d : Bytes} {p : Packet} (h : Packet.parse d = .ok p) :
    ∃ w, Spec.walk d = some w ∧
      Corr (RecFull d) p.answers w.answers ∧
      Corr (RecFull d) p.nameServers w.nameServers ∧
      ∃ all, Corr (RecFull d) all w.additional ∧ p.additional = (liftOpt all).2 := by
  unfold Packet.parse at h
  obtain ⟨h0, hh0, h⟩ := Out.bind_eq_ok h
  obtain ⟨qd, hqd, h⟩ := Out.bind_eq_ok h
  obtain ⟨⟨qs, p1⟩, hqs, h⟩ := Out.bind_eq_ok h
  dsimp only at h
  obtain ⟨an, han, h⟩ := Out.bind_eq_ok h
  obtain ⟨⟨as, p2⟩, has, h⟩ := Out.bind_eq_ok h
  dsimp only at h
  obtain ⟨ns, hns, h⟩ := Out.bind_eq_ok h
  obtain ⟨⟨nss, p3⟩, hnss, h⟩ := Out.bind_eq_ok h
  dsimp only at h
  obtain ⟨ar, har, h⟩ := Out.bind_eq_ok h
  obtain ⟨⟨all, p4⟩, hall, h⟩ := Out.bind_eq_ok h
  dsimp only at h
  obtain ⟨h1, hh1, h⟩ := Out.bind_eq_ok h
  cases h
  obtain ⟨eq, heq, _, _, cq⟩ := Framing.parseQuestions_frame hqs
  obtain ⟨ea, hea, ca⟩ := records_rdata_from_rdlength has
  obtain ⟨en, hen, cn⟩ := records_rdata_from_rdlength hnss
  obtain ⟨er, her, cr⟩ := records_rdata_from_rdlength hall
  refine ⟨{ questions := eq, answers := ea, nameServers := en, additional := er, stop := p4 },
    ?_, ca, cn, all, cr, rfl⟩
  unfold Spec.walk
  simp [Framing.field_of_peekU16 hqd, Framing.field_of_peekU16 han, Framing.field_of_peekU16 hns,
    Framing.field_of_peekU16 har, heq, hea, hen, her]

/-- **Every record of a parsed packet** (answers, name servers, additional) is a walked record of
the same section whose RDATA was decoded from exactly its RDLENGTH bytes. -/
theorem every_record_rdata_from_rdlength {d : Bytes} {p : Packet} {w : Spec.Walk}
    (h : Packet.parse d = .ok p) (hw : Spec.walk d = some w) :
    (∀ r ∈ p.answers, ∃ e ∈ w.answers, RecFull d r e) ∧
    (∀ r ∈ p.nameServers, ∃ e ∈ w.nameServers, RecFull d r e) ∧
    (∀ r ∈ p.additional, ∃ e ∈ w.additional, RecFull d r e) := by
  obtain ⟨w', hw', ca, cn, all, cr, hadd⟩ := parse_respects_framing_rdata h
  rw [hw] at hw'
  cases hw'
  refine ⟨ca.exists_of_mem, cn.exists_of_mem, fun r hr => ?_⟩
  rw [hadd] at hr
  exact cr.exists_of_mem r (liftOpt_rest_subset all r hr)

/-- the hypotheses hold for `c05Msg` -/
example : ∃ w, Spec.walk c05Msg = some w ∧
    ∀ r ∈ [({ name := [[119, 119, 119]], cls := .IN, ttl := 60,
              rdata := .flat 1 [.int 0x01020304], flush := false } : RR)],
      ∃ e ∈ w.answers, RecFull c05Msg r e := by
  obtain ⟨w, hw, _⟩ := parse_respects_framing c05Msg_parse
  exact ⟨w, hw, (every_record_rdata_from_rdlength c05Msg_parse hw).1⟩

/-! ### a field that needs bytes beyond the end of its record -/

/-- a name whose in-place form ends after offset `e` does not parse in the message cut at `e` -/
theorem name_cut_err {d : Bytes} {pos e : Nat} {n : Name} {p : Nat}
    (h : Name.parse d pos = .ok (n, p)) (he : e < p) : Name.parse (d.take e) pos = .err := by
  cases hc : Name.parse (d.take e) pos with
  | ok r =>
    have h2 := Name.parse_append (d.drop e) hc
    rw [List.take_append_drop, h] at h2
    cases h2
    have := Name.parse_end_le hc
    rw [List.length_take] at this
    omega
  | err => rfl
  | panic => exact absurd hc (Name.parse_ne_panic _ _)

/-- **General form.** If the typed parser fails on the RDLENGTH bytes of a walked (non-OPT,
non-empty) record, `ResourceRecord::parse` fails, whatever follows the record: the bytes of the
next record are never used to complete a field. -/
theorem record_typed_err {d : Bytes} {off : Nat} {e : Spec.REntry}
    (hw : Spec.walkRecord d off = some e) (hno : TYPE.ofCode e.type ≠ .OPT) (hnz : e.rdlen ≠ 0)
    (herr : parseTyped (d.take e.next) e.rdStart (TYPE.ofCode e.type) = .err) :
    RR.parse d off = .err := by
  cases hp : RR.parse d off with
  | ok rp =>
    obtain ⟨r, p⟩ := rp
    obtain ⟨e', he', _, _, hrd⟩ := record_rdata_from_rdlength hp
    rw [hw] at he'
    cases he'
    obtain ⟨q, hq, _⟩ := (RDataOK.cases hw hrd).2.2 hno hnz
    rw [herr] at hq
    cases hq
  | err => rfl
  | panic => exact absurd hp (RR.parse_ne_panic _ _)

/-- the types whose RDATA is exactly one domain name: NS MD MF CNAME MB MG MR PTR NSAP_PTR -/
def nameOnlyCodes : List Nat := [2, 3, 4, 5, 7, 8, 9, 12, 23]

/-- for a name-only type the typed parser fails when the name does -/
theorem parseTyped_nameOnly_err {b : Bytes} {pos c : Nat} (hc : c ∈ nameOnlyCodes)
    (h : Name.parse b pos = .err) : parseTyped b pos (TYPE.ofCode c) = .err := by
  simp only [nameOnlyCodes, List.mem_cons, List.not_mem_nil, or_false] at hc
  rcases hc with rfl | rfl | rfl | rfl | rfl | rfl | rfl | rfl | rfl <;>
    simp [parseTyped, TYPE.ofCode, TYPE.toCode, schemaOf, decAll, decField, h]

/-- **Name-only RDATA (NS, CNAME, PTR, …).** If the embedded name, read from the whole message,
is complete but ends after the end of the record (its last bytes are in the next record), the
record is rejected. -/
theorem record_name_overrun_err {d : Bytes} {off : Nat} {e : Spec.REntry} {n : Name} {p : Nat}
    (hw : Spec.walkRecord d off = some e) (ht : e.type ∈ nameOnlyCodes) (hnz : e.rdlen ≠ 0)
    (hn : Name.parse d e.rdStart = .ok (n, p)) (hover : e.next < p) :
    RR.parse d off = .err := by
  refine record_typed_err hw ?_ hnz (parseTyped_nameOnly_err ht (name_cut_err hn hover))
  simp only [nameOnlyCodes, List.mem_cons, List.not_mem_nil, or_false] at ht
  rcases ht with h | h | h | h | h | h | h | h | h <;> rw [h] <;> decide

/-- Two records with the root owner name: an NS record (TYPE 2) with RDLENGTH 2 whose RDATA
`01 61` is the start of the name `a.`; the terminating zero byte of that name is the first byte
(the root owner name) of the next record. -/
def c05Overrun : Bytes :=
  [0, 0, 2, 0, 1, 0, 0, 0, 60, 0, 2, 1, 97,
   0, 0, 1, 0, 1, 0, 0, 0, 60, 0, 4, 5, 6, 7, 8]

theorem c05Overrun_walk : Spec.walkRecord c05Overrun 0 =
    some { off := 0, nameEnd := 1, type := 2, cls := 1, ttl := 60, rdlen := 2 } := by decide

/-- read from the whole message the embedded name is complete: it ends at 14, the record at 13 -/
theorem c05Overrun_name : Name.parse c05Overrun 11 = .ok ([[97]], 14) := by
  unfold Name.parse
  rw [nameLoop]; simp [c05Overrun]
  rw [nameLoop]; simp

/-- the hypotheses of `name_cut_err`, `record_typed_err` and `record_name_overrun_err` hold -/
example : Name.parse (c05Overrun.take 13) 11 = .err := name_cut_err c05Overrun_name (by decide)

theorem c05Overrun_err : RR.parse c05Overrun 0 = .err :=
  record_name_overrun_err c05Overrun_walk (by decide) (by decide) c05Overrun_name (by decide)

/-- the envelope walker, which does not look inside the RDATA, accepts both records -/
example : (Spec.walkRecords c05Overrun 2 0).map (·.2) = some 28 := by decide

/-! ## C05-3. the OPT lifting against the walked additional section -/

/-- a list with an element satisfying `P` splits at the first such element -/
theorem c05_split_at_first {α : Type} (P : α → Prop) [DecidablePred P] (l : List α)
    (h : ∃ x ∈ l, P x) :
    ∃ pre x post, l = pre ++ x :: post ∧ (∀ y ∈ pre, ¬ P y) ∧ P x := by
  induction l with
  | nil => obtain ⟨x, hx, _⟩ := h; cases hx
  | cons a as ih =>
    by_cases ha : P a
    · exact ⟨[], a, as, rfl, by simp, ha⟩
    · obtain ⟨x, hx, hpx⟩ := h
      rcases List.mem_cons.mp hx with rfl | hx
      · exact absurd hpx ha
      · obtain ⟨pre, y, post, hl, hpre, hy⟩ := ih ⟨x, hx, hpx⟩
        refine ⟨a :: pre, y, post, by simp [hl], ?_, hy⟩
        intro z hz
        rcases List.mem_cons.mp hz with rfl | hz
        · exact ha
        · exact hpre z hz

/-- **Spec-level statement of the OPT lifting** (derived from `opt_lift`, Props/C09.lean). After
`Packet::parse`, `header.opt` is set exactly when the additional section on the wire has a
record of TYPE 41, and the additional section of the result has one record less than the wire in
that case (the first OPT record was moved into the header) and the same number otherwise. -/
theorem opt_lift_counts {d : Bytes} {p : Packet} {w : Spec.Walk}
    (h : Packet.parse d = .ok p) (hw : Spec.walk d = some w) :
    (p.header.opt.isSome ↔ ∃ e ∈ w.additional, e.type = 41) ∧
    p.additional.length + (if p.header.opt.isSome then 1 else 0) = w.additional.length := by
  obtain ⟨w', h0, all, hw', _, _, hc, hnone, hsome⟩ := opt_lift h
  rw [hw] at hw'
  cases hw'
  have hlen := hc.length_eq
  by_cases hex : ∃ e ∈ w.additional, e.type = 41
  · obtain ⟨pre, e, post, hl, hpre, he⟩ :=
      c05_split_at_first (fun e : Spec.REntry => e.type = 41) _ hex
    obtain ⟨o, hh, _, _, _, _, _, _, hadd⟩ := hsome pre e post hl hpre he
    have hopt : p.header.opt = some o := by rw [hh]
    have hlw : w.additional.length = pre.length + post.length + 1 := by
      rw [hl]; simp; omega
    refine ⟨⟨fun _ => hex, fun _ => by simp [hopt]⟩, ?_⟩
    rw [hadd, hopt]
    simp only [Option.isSome_some, if_true, List.length_append, List.length_take,
      List.length_drop]
    omega
  · have hall : ∀ e ∈ w.additional, e.type ≠ 41 := fun e he h41 => hex ⟨e, he, h41⟩
    obtain ⟨_, hopt, hadd⟩ := hnone hall
    refine ⟨⟨fun hs => by simp [hopt] at hs, fun h => absurd h hex⟩, ?_⟩
    rw [hadd, hopt]
    simpa using hlen

/-- on the example of Props/C09.lean (an OPT record followed by an A record on the wire): the
parsed packet has `header.opt` set and one additional record, the wire has two -/
example : ∃ w, Spec.walk c09Bytes = some w ∧ w.additional.length = 2 ∧
    c09Packet.additional.length = 1 ∧ c09Packet.header.opt.isSome = true := by
  obtain ⟨w, _, _, hw, _⟩ := opt_lift c09_parse
  have h := (opt_lift_counts c09_parse hw).2
  have h1 : c09Packet.additional.length = 1 := by decide
  have h2 : c09Packet.header.opt.isSome = true := by decide
  rw [h1, h2] at h
  exact ⟨w, hw, by simpa using h.symm, h1, h2⟩

/-! ## C03-1. offsets a 14-bit pointer cannot hold; names with no known suffix -/

/-- bytes taken by the first `k` labels of a name in uncompressed form -/
def Name.prefixLen (n : Name) (k : Nat) : Nat := ((n.take k).map (fun l => l.length + 1)).sum

/-- **Beyond offset 16383 nothing is recorded.** `Name::compress_append` started at an offset
above 0x3FFF leaves the suffix table unchanged (every suffix of the name starts even further). -/
theorem compressName_beyond_14_bits (n : Name) (off : Nat) (t : Table) (h : 0x3FFF < off) :
    (compressName n off t).2 = t := by
  induction n generalizing off t with
  | nil => rfl
  | cons l rest ih =>
    simp only [compressName]
    split
    · rfl
    · rw [if_neg (by omega)]
      exact ih (off + 1 + l.length) t (by omega)

/-- at 0x4000 nothing is recorded, at 0x3FFF the whole name is (its second suffix starts at
0x4001 and is not) -/
example : (compressName [[97], [98]] 0x4000 []).2 = [] ∧
    (compressName [[97], [98]] 0x3FFF []).2 = [([[97], [98]], 0x3FFF)] := by decide

/-- the table only grows at the front -/
theorem compressName_table_suffix (n : Name) (off : Nat) (t : Table) :
    ∃ new, (compressName n off t).2 = new ++ t := by
  induction n generalizing off t with
  | nil => exact ⟨[], rfl⟩
  | cons l rest ih =>
    simp only [compressName]
    split
    · exact ⟨[], rfl⟩
    · obtain ⟨new, hnew⟩ := ih (off + 1 + l.length)
        (if off ≤ 0x3FFF then (l :: rest, off) :: t else t)
      dsimp only
      rw [hnew]
      split
      · exact ⟨new ++ [(l :: rest, off)], by simp⟩
      · exact ⟨new, rfl⟩

/-- **The guard is per label.** Every entry of the table after `Name::compress_append` was there
before or is a suffix `n.drop k` of the name together with the offset at which that suffix was
written (`off` + the bytes of the first `k` labels), and that offset is at most 0x3FFF. -/
theorem compressName_new_entries (n : Name) (off : Nat) (t : Table) :
    ∀ x ∈ (compressName n off t).2, x ∈ t ∨
      ∃ k, k < n.length ∧ x = (n.drop k, off + n.prefixLen k) ∧ off + n.prefixLen k ≤ 0x3FFF := by
  induction n generalizing off t with
  | nil => intro x hx; exact Or.inl hx
  | cons l rest ih =>
    intro x hx
    simp only [compressName] at hx
    split at hx
    · exact Or.inl hx
    · dsimp only at hx
      rcases ih _ _ x hx with hm | ⟨k, hk, hxk, hle⟩
      · split at hm
        · rename_i hoff
          rcases List.mem_cons.mp hm with rfl | hm
          · exact Or.inr ⟨0, by simp, by simp [Name.prefixLen], by simpa [Name.prefixLen] using hoff⟩
          · exact Or.inl hm
        · exact Or.inl hm
      · refine Or.inr ⟨k + 1, by simp; omega, ?_, ?_⟩
        · rw [hxk]; simp [Name.prefixLen]; omega
        · simp [Name.prefixLen] at hle ⊢; omega

/-- a suffix that starts above 0x3FFF is not recorded by this call (an entry for it in the result
was in the table before) -/
theorem compressName_high_suffix_not_recorded (n : Name) (off : Nat) (t : Table) (k : Nat)
    (hk : k < n.length) (hhigh : 0x3FFF < off + n.prefixLen k) (o : Nat)
    (hmem : (n.drop k, o) ∈ (compressName n off t).2) : (n.drop k, o) ∈ t := by
  rcases compressName_new_entries n off t _ hmem with h | ⟨k', hk', heq, hle⟩
  · exact h
  · have hl := congrArg (fun x => x.1.length) heq
    simp only [List.length_drop] at hl
    have : k = k' := by omega
    subst this
    omega

/-- the second suffix of a name written at 0x3FFF starts at 0x4001 -/
example : Name.prefixLen [[97], [98]] 1 = 2 ∧
    ∀ o, (([[97], [98]] : Name).drop 1, o) ∉ (compressName [[97], [98]] 0x3FFF []).2 :=
  ⟨by decide, fun o h => by
    have := compressName_high_suffix_not_recorded [[97], [98]] 0x3FFF [] 1 (by decide) (by decide) o h
    cases this⟩

/-- **No suffix known ⇒ written in full.** If no (non-empty) suffix of the name is in the table,
`Name::compress_append` writes exactly what `Name::plain_append` writes. -/
theorem compressName_unknown_plain (n : Name) (off : Nat) (t : Table)
    (h : ∀ k, k < n.length → t.find (n.drop k) = none) :
    (compressName n off t).1 = Name.write n := by
  induction n generalizing off t with
  | nil => rfl
  | cons l rest ih =>
    have h0 := h 0 (by simp)
    simp only [List.drop_zero] at h0
    simp only [compressName, h0, Name.write]
    congr 2
    apply ih
    intro k hk
    have hk' := h (k + 1) (by simp; omega)
    simp only [List.drop_succ_cons] at hk'
    split
    · simp only [Table.find]
      rw [if_neg, hk']
      intro heq
      have := congrArg List.length heq
      simp at this
      omega
    · exact hk'

/-- the hypothesis holds for `a.b.` against a table that knows only `c.`; it fails against a table
that knows `b.`, and then the output is not the plain form -/
example : (∀ k, k < 2 → Table.find [([[99]], 12)] (([[97], [98]] : Name).drop k) = none) ∧
    (compressName [[97], [98]] 40 [([[99]], 12)]).1 = Name.write [[97], [98]] ∧
    (compressName [[97], [98]] 40 [([[98]], 12)]).1 ≠ Name.write [[97], [98]] := by decide

/-! ## C03-2. the suffix table never holds a key twice -/

/-- the keys of the table -/
def Table.keys (t : Table) : List Name := t.map (·.1)

/-- lookup fails exactly for the names that are not keys -/
theorem Table.find_eq_none_iff (t : Table) (n : Name) : t.find n = none ↔ n ∉ t.keys := by
  induction t with
  | nil => simp [Table.find, Table.keys]
  | cons x xs ih =>
    obtain ⟨m, off⟩ := x
    simp only [Table.find, Table.keys, List.map_cons, List.mem_cons, not_or]
    by_cases hm : m = n
    · simp [hm]
    · rw [if_neg hm]
      simp only [Table.keys] at ih
      rw [ih]
      exact ⟨fun h => ⟨fun h' => hm h'.symm, h⟩, fun h => h.2⟩

/-- **First-match lookup is map lookup.** With distinct keys, `find` returns an offset exactly when
that (key, offset) pair is in the list: the order of the association list is immaterial, as for
the Rust `HashMap`. -/
theorem Table.find_eq_some_iff (t : Table) (hnd : t.keys.Nodup) (n : Name) (off : Nat) :
    t.find n = some off ↔ (n, off) ∈ t := by
  induction t with
  | nil => simp [Table.find]
  | cons x xs ih =>
    obtain ⟨m, o⟩ := x
    simp only [Table.keys, List.map_cons, List.nodup_cons] at hnd
    simp only [Table.find, List.mem_cons, Prod.mk.injEq]
    by_cases hm : m = n
    · subst hm
      rw [if_pos rfl]
      constructor
      · intro h; cases h; exact Or.inl ⟨rfl, rfl⟩
      · rintro (⟨_, rfl⟩ | hmem)
        · rfl
        · exact absurd (List.mem_map.mpr ⟨(m, off), hmem, rfl⟩) hnd.1
    · rw [if_neg hm, ih hnd.2]
      exact ⟨Or.inr, fun h => h.resolve_left (fun h' => hm h'.1.symm)⟩

/-- without distinct keys the equivalence fails: the second pair is shadowed -/
example : ([97] :: [], 20) ∈ ([([[97]], 12), ([[97]], 20)] : Table) ∧
    Table.find [([[97]], 12), ([[97]], 20)] [[97]] = some 12 := by decide

/-- **`Name::compress_append` keeps the keys distinct**: an entry is only inserted for a suffix
whose lookup just failed (`HashMap::entry(..).or_insert`). -/
theorem compressName_keys_nodup (n : Name) (off : Nat) (t : Table) (h : t.keys.Nodup) :
    (compressName n off t).2.keys.Nodup := by
  induction n generalizing off t with
  | nil => exact h
  | cons l rest ih =>
    simp only [compressName]
    split
    · exact h
    · rename_i hf
      apply ih
      split
      · simp only [Table.keys, List.map_cons, List.nodup_cons]
        exact ⟨(Table.find_eq_none_iff t _).mp hf, h⟩
      · exact h

/-- the same in the terms of the task statement -/
theorem compressName_keys_nodup' (n : Name) (off : Nat) (t : Table) (h : (t.map (·.1)).Nodup) :
    ((compressName n off t).2.map (·.1)).Nodup :=
  compressName_keys_nodup n off t h

/-- writing the same name twice: the second call finds it and adds nothing -/
example : let t1 := (compressName [[97], [98]] 12 []).2
    t1.keys = [[[98]], [[97], [98]]] ∧ (compressName [[97], [98]] 40 t1).2 = t1 := by decide

/-- names written by either path -/
theorem nameG_keys_nodup (c : Bool) (n : Name) (off : Nat) (t : Table) (h : t.keys.Nodup) :
    (nameG c n off t).2.keys.Nodup := by
  unfold nameG
  split
  · exact compressName_keys_nodup n off t h
  · exact h

/-- one RDATA field -/
theorem encFieldG_keys_nodup (c : Bool) (k : FKind) (v : Val) (off : Nat) (t : Table)
    (h : t.keys.Nodup) : (encFieldG c k v off t).2.keys.Nodup := by
  unfold encFieldG
  split
  · exact nameG_keys_nodup c _ off t h
  · exact h

/-- the fields of a table-driven RDATA -/
theorem encAllG_keys_nodup (c : Bool) (ks : List FKind) (vs : List Val) (off : Nat) (t : Table)
    (h : t.keys.Nodup) : (encAllG c ks vs off t).2.keys.Nodup := by
  induction ks generalizing vs off t with
  | nil => simpa [encAllG] using h
  | cons k ks ih =>
    cases vs with
    | nil => simpa [encAllG] using h
    | cons v vs =>
      simp only [encAllG]
      exact ih vs _ _ (encFieldG_keys_nodup c k v off t h)

/-- `RData::write_compressed_to` -/
theorem RData.writeG_keys_nodup (c : Bool) (rd : RData) (off : Nat) (t : Table) {b : Bytes}
    {t' : Table} (hw : rd.writeG c off t = .ok (b, t')) (h : t.keys.Nodup) : t'.keys.Nodup := by
  unfold RData.writeG at hw
  split at hw
  · split at hw
    · cases hw; exact h
    · split at hw
      · rename_i code vs _ ks _ _
        simp only [Out.ok.injEq] at hw
        have := encAllG_keys_nodup c ks vs off t h
        rw [hw] at this
        exact this
      · cases hw
  · obtain ⟨b', _, hw⟩ := Out.bind_eq_ok hw
    cases hw; exact h

/-- `ResourceRecord::write_compressed_to` -/
theorem RR.writeG_keys_nodup (c : Bool) (r : RR) (off : Nat) (t : Table) {b : Bytes}
    {t' : Table} (hw : r.writeG c off t = .ok (b, t')) (h : t.keys.Nodup) : t'.keys.Nodup := by
  unfold RR.writeG at hw
  dsimp only at hw
  obtain ⟨⟨rd, t2⟩, hrd, hw⟩ := Out.bind_eq_ok hw
  cases hw
  exact RData.writeG_keys_nodup c _ _ _ hrd (nameG_keys_nodup c r.name off t h)

/-- `Question::write_compressed_to` -/
theorem Question.writeG_keys_nodup (c : Bool) (q : Question) (off : Nat) (t : Table)
    (h : t.keys.Nodup) : (q.writeG c off t).2.keys.Nodup :=
  nameG_keys_nodup c q.name off t h

/-- the question section -/
theorem writeQuestionsG_keys_nodup (c : Bool) (qs : List Question) (off : Nat) (t : Table)
    (h : t.keys.Nodup) : (writeQuestionsG c qs off t).2.keys.Nodup := by
  induction qs generalizing off t with
  | nil => exact h
  | cons q qs ih =>
    simp only [writeQuestionsG]
    exact ih _ _ (Question.writeG_keys_nodup c q off t h)

/-- a record section -/
theorem writeRRsG_keys_nodup (c : Bool) (rs : List RR) (off : Nat) (t : Table) {b : Bytes}
    {t' : Table} (hw : writeRRsG c rs off t = .ok (b, t')) (h : t.keys.Nodup) :
    t'.keys.Nodup := by
  induction rs generalizing off t b t' with
  | nil => simp only [writeRRsG] at hw; cases hw; exact h
  | cons r rs ih =>
    simp only [writeRRsG] at hw
    obtain ⟨⟨a, t1⟩, ha, hw⟩ := Out.bind_eq_ok hw
    obtain ⟨⟨b1, t2⟩, hb, hw⟩ := Out.bind_eq_ok hw
    cases hw
    exact ih _ _ hb (RR.writeG_keys_nodup c r off t ha h)

/-- `Packet.buildG` (Model/Compress.lean, same text) returning also the suffix table it ends with -/
def Packet.buildGT (c : Bool) (p : Packet) : Out (Bytes × Table) := do
  let hdr := p.writeHeader
  let qs := writeQuestionsG c p.questions hdr.length []
  let o1 := hdr.length + qs.1.length
  let (an, t1) ← writeRRsG c p.answers o1 qs.2
  let o2 := o1 + an.length
  let (ns, t2) ← writeRRsG c p.nameServers o2 t1
  let o3 := o2 + ns.length
  let o ← writeRRs p.header.optRR.toList
  let (ar, t3) ← writeRRsG c p.additional (o3 + o.length) t2
  pure (hdr ++ (qs.1 ++ (an ++ (ns ++ (o ++ ar)))), t3)

/-- `buildGT` is `buildG` with the final table kept -/
theorem Packet.buildG_eq_buildGT (c : Bool) (p : Packet) :
    p.buildG c = (do let r ← p.buildGT c; pure r.1) := by
  unfold Packet.buildG Packet.buildGT
  dsimp only
  cases writeRRsG c p.answers _ _ with
  | err => rfl
  | panic => rfl
  | ok x =>
    obtain ⟨an, t1⟩ := x
    simp only [Out.bind_ok]
    cases writeRRsG c p.nameServers _ t1 with
    | err => rfl
    | panic => rfl
    | ok x =>
      obtain ⟨ns, t2⟩ := x
      simp only [Out.bind_ok]
      cases writeRRs p.header.optRR.toList with
      | err => rfl
      | panic => rfl
      | ok o =>
        simp only [Out.bind_ok]
        cases writeRRsG c p.additional _ t2 with
        | err => rfl
        | panic => rfl
        | ok x => rfl

/-- **The whole walk of `Packet::write_compressed_to`**: starting from the empty `HashMap`, the
suffix table at the end (hence, by the section lemmas, at every point in between) holds no key
twice. -/
theorem Packet.buildGT_keys_nodup (c : Bool) (p : Packet) {b : Bytes} {t : Table}
    (h : p.buildGT c = .ok (b, t)) : t.keys.Nodup := by
  unfold Packet.buildGT at h
  dsimp only at h
  obtain ⟨⟨an, t1⟩, han, h⟩ := Out.bind_eq_ok h
  dsimp only at h
  obtain ⟨⟨ns, t2⟩, hns, h⟩ := Out.bind_eq_ok h
  dsimp only at h
  obtain ⟨o, _, h⟩ := Out.bind_eq_ok h
  obtain ⟨⟨ar, t3⟩, har, h⟩ := Out.bind_eq_ok h
  cases h
  have h0 := writeQuestionsG_keys_nodup c p.questions p.writeHeader.length [] (by simp [Table.keys])
  have h1 := writeRRsG_keys_nodup c _ _ _ han h0
  have h2 := writeRRsG_keys_nodup c _ _ _ hns h1
  exact writeRRsG_keys_nodup c _ _ _ har h2

/-- `tinyRepeated` (Props/C03Length.lean: question `a.`, answer `a. A`): one key, recorded once -/
example : (do let r ← tinyRepeated.buildGT true; pure r.2) = Out.ok [([[97]], 12)] := by decide

/-! ## C01-1. bytes consumed per entry, with and without success of the whole section -/

/-- **Every record consumes at least 11 bytes** (one byte of name, ten of fixed fields): `k`
records parsed from `pos` end at `p ≥ pos + 11·k`, and inside the message. The last part needs
`0 < k` or a start inside the message: see the example below. -/
theorem parseRRs_consumes {d : Bytes} {k pos : Nat} {rs : List RR} {p : Nat}
    (h : parseRRs d k pos = .ok (rs, p)) :
    rs.length = k ∧ pos + 11 * k ≤ p ∧ (0 < k ∨ pos ≤ d.length → p ≤ d.length) := by
  induction k generalizing pos rs p with
  | zero =>
    simp only [parseRRs] at h
    cases h
    exact ⟨rfl, by omega, fun h => h.resolve_left (by omega)⟩
  | succ k ih =>
    simp only [parseRRs] at h
    obtain ⟨⟨r, p1⟩, hr, h⟩ := Out.bind_eq_ok h
    dsimp only at h
    obtain ⟨⟨rs', p2⟩, hrs, h⟩ := Out.bind_eq_ok h
    cases h
    obtain ⟨a1, a2, _, _⟩ := Cost.rr_cost hr
    obtain ⟨b0, b1, b2⟩ := ih hrs
    exact ⟨by simp [b0], by omega, fun _ => b2 (Or.inr a2)⟩

/-- the suggested statement `… → pos + 11 * k ≤ p ∧ p ≤ d.length` is false for `k = 0` at a cursor
beyond the end (zero records "succeed" anywhere), hence the side condition above -/
example : ∃ (d : Bytes) (k pos p : Nat) (rs : List RR),
    parseRRs d k pos = .ok (rs, p) ∧ ¬ (pos + 11 * k ≤ p ∧ p ≤ d.length) :=
  ⟨[], 0, 7, 7, [], rfl, by decide⟩

/-- on `c05Slack` (Props/C05.lean): two records from 12 end at 44 ≥ 12 + 22 -/
example : 12 + 11 * 2 ≤ 44 ∧ 44 ≤ c05Slack.length :=
  let ⟨_, h1, h2⟩ := parseRRs_consumes c05Slack_records; ⟨h1, h2 (Or.inl (by decide))⟩

/-- **Every question consumes at least 5 bytes.** -/
theorem parseQuestions_consumes {d : Bytes} {k pos : Nat} {qs : List Question} {p : Nat}
    (h : parseQuestions d k pos = .ok (qs, p)) :
    qs.length = k ∧ pos + 5 * k ≤ p ∧ (0 < k ∨ pos ≤ d.length → p ≤ d.length) := by
  induction k generalizing pos qs p with
  | zero =>
    simp only [parseQuestions] at h
    cases h
    exact ⟨rfl, by omega, fun h => h.resolve_left (by omega)⟩
  | succ k ih =>
    simp only [parseQuestions] at h
    obtain ⟨⟨r, p1⟩, hr, h⟩ := Out.bind_eq_ok h
    dsimp only at h
    obtain ⟨⟨rs', p2⟩, hrs, h⟩ := Out.bind_eq_ok h
    cases h
    obtain ⟨a1, a2, _⟩ := Cost.question_cost hr
    obtain ⟨b0, b1, b2⟩ := ih hrs
    exact ⟨by simp [b0], by omega, fun _ => b2 (Or.inr a2)⟩

/-- **A failing record section has a longest successfully parsed prefix.** If
`parse_section` for `n` records fails, there is `k < n` such that the first `k` records parse
(ending at `p`, at least 11·k bytes further) and the record at `p` is the one that fails. -/
theorem parseRRs_err_prefix {d : Bytes} {n pos : Nat} (h : parseRRs d n pos = .err) :
    ∃ k rs p, k < n ∧ parseRRs d k pos = .ok (rs, p) ∧ RR.parse d p = .err ∧
      parseRRs d (k + 1) pos = .err ∧ pos + 11 * k ≤ p := by
  induction n generalizing pos with
  | zero => simp [parseRRs] at h
  | succ n ih =>
    simp only [parseRRs] at h
    cases hr : RR.parse d pos with
    | err => exact ⟨0, [], pos, by omega, rfl, hr, by simp [parseRRs, hr], by omega⟩
    | panic => exact absurd hr (RR.parse_ne_panic _ _)
    | ok x =>
      obtain ⟨r, p1⟩ := x
      rw [hr] at h
      simp only [Out.bind_ok] at h
      cases hrs : parseRRs d n p1 with
      | panic => exact absurd hrs (parseRRs_ne_panic _ _ _)
      | ok y => rw [hrs] at h; cases h
      | err =>
        obtain ⟨k, rs, p, hk, hok, herr, herr', hb⟩ := ih hrs
        have := (Cost.rr_cost hr).1
        refine ⟨k + 1, r :: rs, p, by omega, ?_, herr, ?_, by omega⟩
        · simp only [parseRRs, hr, hok, Out.bind_ok, Out.pure_eq]
        · rw [parseRRs, hr]; simp only [Out.bind_ok]; rw [herr']; rfl

/-- **The work done before an error is bounded by the input length too**: however large the
count `n` read from the header, at most `d.length / 11` records are parsed before the failure. -/
theorem parseRRs_err_work_bounded {d : Bytes} {n pos : Nat} (h : parseRRs d n pos = .err) :
    ∃ k rs p, k < n ∧ parseRRs d k pos = .ok (rs, p) ∧ RR.parse d p = .err ∧
      11 * k ≤ d.length := by
  obtain ⟨k, rs, p, hk, hok, herr, _, hb⟩ := parseRRs_err_prefix h
  refine ⟨k, rs, p, hk, hok, herr, ?_⟩
  rcases Nat.eq_zero_or_pos k with h0 | hpos
  · omega
  · have := (parseRRs_consumes hok).2.2 (Or.inl hpos)
    omega

/-- the same for the question section (5 bytes per question) -/
theorem parseQuestions_err_prefix {d : Bytes} {n pos : Nat} (h : parseQuestions d n pos = .err) :
    ∃ k qs p, k < n ∧ parseQuestions d k pos = .ok (qs, p) ∧ Question.parse d p = .err ∧
      parseQuestions d (k + 1) pos = .err ∧ pos + 5 * k ≤ p := by
  induction n generalizing pos with
  | zero => simp [parseQuestions] at h
  | succ n ih =>
    simp only [parseQuestions] at h
    cases hr : Question.parse d pos with
    | err => exact ⟨0, [], pos, by omega, rfl, hr, by simp [parseQuestions, hr], by omega⟩
    | panic => exact absurd hr (Question.parse_ne_panic _ _)
    | ok x =>
      obtain ⟨r, p1⟩ := x
      rw [hr] at h
      simp only [Out.bind_ok] at h
      cases hrs : parseQuestions d n p1 with
      | panic => exact absurd hrs (parseQuestions_ne_panic _ _ _)
      | ok y => rw [hrs] at h; cases h
      | err =>
        obtain ⟨k, rs, p, hk, hok, herr, herr', hb⟩ := ih hrs
        have := (Cost.question_cost hr).1
        refine ⟨k + 1, r :: rs, p, by omega, ?_, herr, ?_, by omega⟩
        · simp only [parseQuestions, hr, hok, Out.bind_ok, Out.pure_eq]
        · rw [parseQuestions, hr]; simp only [Out.bind_ok]; rw [herr']; rfl

/-- the question-section counterpart of `parseRRs_err_work_bounded` -/
theorem parseQuestions_err_work_bounded {d : Bytes} {n pos : Nat}
    (h : parseQuestions d n pos = .err) :
    ∃ k qs p, k < n ∧ parseQuestions d k pos = .ok (qs, p) ∧ Question.parse d p = .err ∧
      5 * k ≤ d.length := by
  obtain ⟨k, qs, p, hk, hok, herr, _, hb⟩ := parseQuestions_err_prefix h
  refine ⟨k, qs, p, hk, hok, herr, ?_⟩
  rcases Nat.eq_zero_or_pos k with h0 | hpos
  · omega
  · have := (parseQuestions_consumes hok).2.2 (Or.inl hpos)
    omega

/-- the hypothesis is satisfiable: a section of 60000 records starting at the bad record of
`c05Overrun` fails, with the empty prefix -/
example : parseRRs c05Overrun 60000 0 = .err := by
  rw [show (60000 : Nat) = 59999 + 1 from rfl, parseRRs, c05Overrun_err]; rfl

/-! ## C02-1. a question type the writer emits and the parser rejects -/

/-- **`QTYPE::TYPE(TYPE::Unknown(c))` is written but not read back.** Such a question can be
built through the public API; `Question::write_to` writes the code `c`, and `Question::parse`
rejects the bytes (an unsupported question type must be rejected, C18), so build-then-parse does
not return the packet. This is why `Question.WF` excludes it. The five codes 251..255 are excluded
because they read back as the QTYPE specials (see the example below). -/
theorem unknown_qtype_written_not_read (q : Question) (c : Nat) (hq : q.qtype = .TYPE (.Unknown c))
    (hc : c < 65536) (hs : c ∉ [251, 252, 253, 254, 255]) (hu : (TYPE.ofCode c).isUnknown = true)
    (hn : Name.WF q.name) (pre post : Bytes) :
    Question.parse (pre ++ (q.write ++ post)) pre.length = .err := by
  have hname := Name.parse_write hn pre (q.writeCommon ++ post)
  have hlen : (Name.write q.name).length = Name.wireLen q.name := Name.write_length q.name
  unfold Question.parse
  unfold Question.write
  rw [List.append_assoc, hname]
  simp only [Out.bind_ok]
  have hcl : (beN 2 (if q.unicast then q.qclass.toCode ||| 0x8000 else q.qclass.toCode)).length = 2 :=
    beN_length _ _
  rw [if_neg (by simp [Question.writeCommon]; omega)]
  have e1 : slice (pre ++ (Name.write q.name ++ (q.writeCommon ++ post)))
      (pre.length + Name.wireLen q.name) (pre.length + Name.wireLen q.name + 2)
      = .ok (beN 2 c) := by
    have := slice_mid (pre ++ Name.write q.name) (beN 2 c)
      (beN 2 (if q.unicast then q.qclass.toCode ||| 0x8000 else q.qclass.toCode) ++ post)
      (pre.length + Name.wireLen q.name) (pre.length + Name.wireLen q.name + 2)
      (by simp [hlen]) (by simp [hlen])
    simpa [Question.writeCommon, hq, QTYPE.toCode, TYPE.toCode] using this
  have e2 : ∃ cb, slice (pre ++ (Name.write q.name ++ (q.writeCommon ++ post)))
      (pre.length + Name.wireLen q.name + 2) (pre.length + Name.wireLen q.name + 4) = .ok cb := by
    refine ⟨_, slice_ok (by omega) ?_⟩
    simp [Question.writeCommon, hlen]; omega
  obtain ⟨cb, e2⟩ := e2
  rw [e1, e2]
  simp only [Out.bind_ok]
  rw [deN_beN 2 c (by simpa using hc), (qtype_unsupported_err c).mpr ⟨hs, hu⟩]
  rfl

/-- the hypotheses are satisfiable: the root name and the unassigned code 65280 -/
example :
    let q : Question := { name := [], qtype := .TYPE (.Unknown 65280), qclass := .ANY,
                          unicast := false }
    Question.parse (([] : Bytes) ++ (q.write ++ [])) 0 = .err :=
  unknown_qtype_written_not_read _ 65280 rfl (by decide) (by decide) (by decide) (by decide) [] []

/-- such a question is never `Question.WF`, whatever the code -/
theorem unknown_qtype_not_WF (q : Question) (c : Nat) (hq : q.qtype = .TYPE (.Unknown c)) :
    ¬ q.WF := by
  intro h
  have h2 := h.2
  rw [hq] at h2
  simp only [QTYPE.toCode, TYPE.toCode] at h2
  unfold QTYPE.ofCode at h2
  split at h2
  · cases h2
  · cases h2
  · cases h2
  · cases h2
  · cases h2
  · split at h2
    · cases h2
    · rename_i ty hne
      simp only [Out.ok.injEq, QTYPE.TYPE.injEq] at h2
      exact hne c h2

/-- the five codes 251..255 are the reason for the side condition: such a question is read back,
but as the special QTYPE, i.e. as a different question -/
example : let q : Question := { name := [], qtype := .TYPE (.Unknown 251), qclass := .ANY, unicast := false }
    Question.parse q.write 0 = .ok ({ q with qtype := .IXFR }, 5) := by
  have hn : Name.parse [0, 0, 251, 0, 255] 0 = .ok ([], 1) := by
    unfold Name.parse
    rw [nameLoop]; simp
  show Question.parse [0, 0, 251, 0, 255] 0 = _
  unfold Question.parse
  rw [hn]
  decide +kernel

/-! ## C02-2. pieces of `constructors_WF` -/

/-- `Packet::new_query(id)` is within DNS size limits (`id` is a `u16`) -/
theorem newQuery_WF (id : Nat) (h : id < 65536) : (Packet.newQuery id).WF := by
  simp [Packet.WF, Packet.newQuery, Header.newQuery, Header.WF, h]

/-- `Packet::new_reply(id)` too -/
theorem newReply_WF (id : Nat) (h : id < 65536) : (Packet.newReply id).WF := by
  simp [Packet.WF, Packet.newReply, Header.newReply, Header.WF, h]
  decide

/-- `Header::set_flags` with a `PacketFlag` value (bits inside the union of the seven flags)
keeps the header well-formed -/
theorem setFlags_WF (h : Header) (f : Nat) (hw : h.WF) (hf : f &&& Mask.ALLFLAGS = f) :
    (h.setFlags f).WF := by
  obtain ⟨h1, h2, h3⟩ := hw
  refine ⟨h1, ?_, h3⟩
  show (h.flags ||| f) &&& Mask.ALLFLAGS = h.flags ||| f
  rw [Nat.and_or_distrib_right, h2, hf]

/-- `Header::remove_flags` keeps the header well-formed, for any argument (removing bits cannot
leave the mask) -/
theorem removeFlags_WF (h : Header) (f : Nat) (hw : h.WF) : (h.removeFlags f).WF := by
  obtain ⟨h1, h2, h3⟩ := hw
  refine ⟨h1, ?_, h3⟩
  show (h.flags &&& (Mask.ALLFLAGS ^^^ f)) &&& Mask.ALLFLAGS = h.flags &&& (Mask.ALLFLAGS ^^^ f)
  rw [Nat.and_assoc, Nat.and_comm (Mask.ALLFLAGS ^^^ f), ← Nat.and_assoc, h2]

/-- a query header, RD (0x0100) set and then removed: both are well-formed -/
example : ((Header.newQuery 7).setFlags 0x0100).WF ∧
    (((Header.newQuery 7).setFlags 0x0100).removeFlags 0x0100).WF :=
  have h0 : (Header.newQuery 7).WF := (newQuery_WF 7 (by decide)).1
  have h1 := setFlags_WF _ 0x0100 h0 (by decide)
  ⟨h1, removeFlags_WF _ 0x0100 h1⟩

/-- a bit outside the mask (the reserved Z bit 0x0040) would break `Header.WF`: the hypothesis of
`setFlags_WF` is needed -/
example : ¬ ((Header.newQuery 7).setFlags 0x0040).WF := by decide

/-- `labelsNew` returns its input when every label is valid -/
theorem labelsNew_ok_valid {ls ls' : List Bytes} (h : labelsNew ls = .ok ls') :
    ls' = ls ∧ ∀ l ∈ ls, Label.isValid l = true := by
  induction ls generalizing ls' with
  | nil => simp only [labelsNew] at h; cases h; simp
  | cons l ls ih =>
    simp only [labelsNew] at h
    obtain ⟨a, ha, h⟩ := Out.bind_eq_ok h
    obtain ⟨b, hb, h⟩ := Out.bind_eq_ok h
    cases h
    obtain ⟨e, hv⟩ := ih hb
    unfold Label.new at ha
    split at ha
    · rename_i hval
      cases ha
      exact ⟨by rw [e], fun x hx => by
        rcases List.mem_cons.mp hx with rfl | hx
        · exact hval
        · exact hv x hx⟩
    · cases ha

/-- a label accepted by `Label::is_valid_label` has 1..63 bytes -/
theorem Label.isValid_length {l : Bytes} (h : Label.isValid l = true) :
    1 ≤ l.length ∧ l.length ≤ 63 := by
  unfold Label.isValid at h
  split at h
  · cases h
  · rename_i hc
    simp only [Bool.or_eq_true, List.isEmpty_iff, decide_eq_true_eq, not_or, Nat.not_lt] at hc
    have : l.length ≠ 0 := fun h0 => hc.1 (List.eq_nil_of_length_eq_zero h0)
    omega

/-- **`Name::new` only returns names that fit the wire format** (labels of 1..63 bytes, at most
255 bytes encoded) -/
theorem Name.new_WF {s : Bytes} {n : Name} (h : Name.new s = .ok n) : Name.WF n := by
  unfold Name.new at h
  obtain ⟨labels, hl, h⟩ := Out.bind_eq_ok h
  split at h
  · cases h
  · rename_i hlen
    cases h
    obtain ⟨e, hv⟩ := labelsNew_ok_valid hl
    subst e
    exact ⟨fun l hl => Label.isValid_length (hv l hl), by omega⟩

/-- `Name::new("a.b")` -/
example : Name.WF [[97], [98]] :=
  Name.new_WF (s := [97, 46, 98]) (by decide)

end Dns
