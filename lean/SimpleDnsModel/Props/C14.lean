/-
C14 — No datagram can crash or wedge the mDNS services.

For every datagram and every state of the record store, the handling performed
inside the receive loops of the responder, the service-discovery listener and
the one-shot resolver (header peek, parse, answer a query or ingest a
response, serialise the reply: `Model/Pipeline.lean`) completes without
panicking; the store keeps its structural invariant; a reply that is produced
from a store of well-formed records is itself a parseable DNS message (and
parses to the packet `build_reply` assembled).

  1. `buildG_ne_panic`, `sendReply_ne_panic`   the serialisers contain no panicking primitive
  2. `pipeline_no_panic`                         the three handlers never panic
  3. `store_usable`, `store_usable_ok`, `store_usable_reachable`
                                                 `Inv` / `StoreOK` / reachability survive every datagram
  4. `reply_wf`, `reply_parseable`, `reply_parseable_discovery`
  5. `datagram_handling_total_partial`           the summary

Partial: sockets, threads, the `RwLock` and its poisoning are not modelled. A
`.panic` outcome of a handler is what would kill the receive thread and
poison the lock; the theorems say this outcome does not occur.
-/
import SimpleDnsModel.Lemmas.DiscoveryA
import SimpleDnsModel.Props.C01
import SimpleDnsModel.Props.C03
namespace Dns.Mdns

/-! ### 1. serialising never panics -/

/-- `Packet::build_bytes_vec` / `build_bytes_vec_compressed` never panic, for any packet -/
theorem buildG_ne_panic (c : Bool) (p : Packet) : p.buildG c ≠ .panic := Disc.buildG_ne_panic c p

/-- serialising a reply never panics: an unwritable record (LOC with a version ≠ 0) makes
`build_bytes_vec_compressed` return `Err`, which the loops log before dropping the datagram -/
theorem sendReply_ne_panic (r : Option (Packet × Bool)) : sendReply r ≠ .panic := by
  unfold sendReply
  split
  · simp
  · rename_i p u
    have := Disc.buildCompressed_ne_panic p
    split <;> simp_all

theorem sendReply_ne_err (r : Option (Packet × Bool)) : sendReply r ≠ .err := by
  unfold sendReply
  split
  · simp
  · rename_i p u
    have := Disc.buildCompressed_ne_panic p
    split <;> simp_all

/-! ### 2. the handlers never panic -/

theorem handleResponder_ne_panic (s : Store) (d : Bytes) (now : Nat) :
    handleResponder s d now ≠ .panic := by
  unfold handleResponder
  have h1 := peek_hasFlags_no_panic d 0x8000
  have h2 := parse_no_panic d
  split
  · simp_all
  · simp
  · simp
  · split
    · simp_all
    · simp
    · exact sendReply_ne_panic _

theorem handleDiscovery_ne_panic (s : Store) (service full : Name) (d : Bytes) (now : Nat) :
    handleDiscovery s service full d now ≠ .panic := by
  unfold handleDiscovery
  have h2 := parse_no_panic d
  split
  · simp_all
  · simp
  · split
    · simp
    · have := sendReply_ne_panic (buildReply ‹Packet› s now)
      split <;> simp_all

theorem handleResolver_ne_panic (d : Bytes) : handleResolver d ≠ .panic := by
  unfold handleResolver
  have h1 := peek_id_no_panic d
  have h2 := parse_no_panic d
  split
  · simp_all
  · simp
  · split
    · simp_all
    · simp
    · simp

/-- **No datagram makes a receive loop panic**, whatever the store holds. -/
theorem pipeline_no_panic (s : Store) (d : Bytes) (now : Nat) (service full : Name) :
    handleResponder s d now ≠ .panic ∧ handleDiscovery s service full d now ≠ .panic ∧
    handleResolver d ≠ .panic :=
  ⟨handleResponder_ne_panic s d now, handleDiscovery_ne_panic s service full d now,
   handleResolver_ne_panic d⟩

/-- the handlers do not even fail: every datagram is answered, ingested or dropped -/
theorem pipeline_total (s : Store) (d : Bytes) (now : Nat) (service full : Name) :
    (∃ r, handleResponder s d now = .ok r) ∧ (∃ r, handleDiscovery s service full d now = .ok r) ∧
    (∃ r, handleResolver d = .ok r) := by
  refine ⟨?_, ?_, ?_⟩
  · unfold handleResponder
    have h1 := peek_hasFlags_no_panic d 0x8000
    have h2 := parse_no_panic d
    split
    · simp_all
    · simp
    · simp
    · split
      · simp_all
      · simp
      · have h3 := sendReply_ne_panic (buildReply ‹Packet› s now)
        have h4 := sendReply_ne_err (buildReply ‹Packet› s now)
        cases h : sendReply (buildReply ‹Packet› s now) <;> simp_all
  · unfold handleDiscovery
    have h2 := parse_no_panic d
    split
    · simp_all
    · simp
    · split
      · simp
      · have h3 := sendReply_ne_panic (buildReply ‹Packet› s now)
        have h4 := sendReply_ne_err (buildReply ‹Packet› s now)
        split <;> simp_all
  · unfold handleResolver
    have h1 := peek_id_no_panic d
    have h2 := parse_no_panic d
    split
    · simp_all
    · simp
    · split
      · simp_all
      · simp
      · simp

/-! ### 3. the store stays usable -/

/-- what the discovery listener leaves in the store: the store itself, or the store after the
`add_cached_resource` calls of `add_response_to_resources` -/
theorem handleDiscovery_store {s s' : Store} {service full : Name} {d : Bytes} {now : Nat}
    {r : Option Bytes} (h : handleDiscovery s service full d now = .ok (s', r)) :
    s' = s ∨ ∃ p, Packet.parse d = .ok p ∧ p.header.hasFlags 0x8000 = true ∧ r = none ∧
      s' = s.run (ingestOps p service full now) := by
  unfold handleDiscovery at h
  split at h
  · cases h
  · cases h; exact .inl rfl
  · rename_i p hp
    split at h
    · rename_i hf
      cases h
      exact .inr ⟨p, hp, hf, rfl, ingest_eq_run _ _ _ _ _⟩
    · split at h
      · cases h; exact .inl rfl
      · cases h
      · cases h

/-- **The store invariant survives every datagram** (one entry per key, records filed under the
key of their owner name, no two equal records in a bucket). -/
theorem store_usable {s s' : Store} {service full : Name} {d : Bytes} {now : Nat}
    {r : Option Bytes} (hI : Inv s) (h : handleDiscovery s service full d now = .ok (s', r)) :
    Inv s' := by
  rcases handleDiscovery_store h with rfl | ⟨p, _, _, _, rfl⟩
  · exact hI
  · exact hI.run _

/-- … and so does the bound on the stored owner names that makes keys decodable: whatever the
listener caches came out of the parser, whose labels are at most 63 bytes long. -/
theorem store_usable_ok {s s' : Store} {service full : Name} {d : Bytes} {now : Nat}
    {r : Option Bytes} (hS : StoreOK s) (h : handleDiscovery s service full d now = .ok (s', r)) :
    StoreOK s' := by
  rcases handleDiscovery_store h with rfl | ⟨p, hp, _, _, rfl⟩
  · exact hS
  · exact hS.run (ingestOps_ok hp service full now)

/-- a store built by the public operations is, after any datagram, still such a store -/
theorem store_usable_reachable {s s' : Store} {service full : Name} {d : Bytes} {now : Nat}
    {r : Option Bytes} (hR : Reachable s) (h : handleDiscovery s service full d now = .ok (s', r)) :
    Reachable s' := by
  rcases handleDiscovery_store h with rfl | ⟨p, _, _, _, rfl⟩
  · exact hR
  · exact hR.run _

/-- the responder and the resolver do not write to the store at all (their handlers return no
store); a query leaves the discovery listener's store unchanged -/
theorem query_keeps_store {s s' : Store} {service full : Name} {d : Bytes} {now : Nat}
    {bytes : Bytes} (h : handleDiscovery s service full d now = .ok (s', some bytes)) : s' = s := by
  rcases handleDiscovery_store h with rfl | ⟨p, _, _, hr, _⟩
  · rfl
  · cases hr

/-! ### 4. a reply is a parseable message -/

/-- every locally registered (authoritative) record is within DNS limits -/
def AuthWF (s : Store) : Prop := ∀ k b, (k, b) ∈ s.entries → ∀ r, (r, Kind.auth) ∈ b → r.WF

/-- The reply to query `q` fits a DNS message: the registered records are well-formed and the
two sections have at most 65 535 entries (answers are NOT deduplicated across questions, so the
bound depends on the query, not only on the store).

Why it is needed: `build_reply` copies stored records into the reply. A registered record with an
over-long label or an oversized value is serialised with truncating casts into bytes that do not
parse; a LOC record with version ≠ 0 makes the serialiser return `Err` (logged, datagram
dropped: `sendReply`); with more than 65 535 records in a section the count field wraps
(`len() as u16`). None of these is a panic (`sendReply_ne_panic`).
No condition on OPT records is needed: additional records are of type A or AAAA by construction. -/
def ReplyFits (s : Store) (q : Packet) (now : Nat) : Prop :=
  AuthWF s ∧ (answersOf q s now).length ≤ 65535 ∧ (dedupRR (extrasOf q s now)).length ≤ 65535

theorem mem_getDomain_auth {s : Store} {n : Name} {sub : Bool} {now : Nat} {x : RR}
    (h : x ∈ (s.getDomain n (Filter.auth sub) now).flatten) :
    ∃ k b, (k, b) ∈ s.entries ∧ (x, Kind.auth) ∈ b := by
  obtain ⟨b, kind, hx, hm, hc⟩ := mem_getDomain.mp h
  have hk : kind = .auth := Filter.auth_matches.mp hm
  subst hk
  cases sub with
  | true =>
    simp only [Filter.auth, if_true] at hc
    obtain ⟨_, k, hk, _⟩ := hc
    exact ⟨k, b, hk, hx⟩
  | false =>
    simp only [Filter.auth, Bool.false_eq_true, if_false] at hc
    exact ⟨_, b, Store.bucket_mem hc, hx⟩

/-! #### `ReplyFits` from the size of the store -/

/-- the locally registered records, bucket by bucket -/
def authRecords (s : Store) : List RR :=
  s.entries.flatMap (fun e => (e.2.filter (fun x => (Filter.auth true).matches x.2 0)).map (·.1))

theorem Filter.auth_matches_eq (sub : Bool) (k : Kind) (now : Nat) :
    (Filter.auth sub).matches k now = (Filter.auth true).matches k 0 := by
  cases k <;> rfl

theorem groups_length_le {A B : Type} (l : List A) (p : A → Bool) (g : A → List B) :
    (((l.filter p).map g).filter (fun x => !x.isEmpty)).flatten.length ≤ (l.flatMap g).length := by
  induction l with
  | nil => simp
  | cons a l ih =>
    simp only [List.flatMap_cons, List.length_append]
    by_cases hp : p a = true
    · rw [List.filter_cons_of_pos hp, List.map_cons]
      by_cases hg : (!(g a).isEmpty) = true
      · rw [List.filter_cons_of_pos (p := fun x : List B => !x.isEmpty) (by exact hg),
          List.flatten_cons, List.length_append]; omega
      · rw [List.filter_cons_of_neg (p := fun x : List B => !x.isEmpty) (by exact hg)]; omega
    · rw [List.filter_cons_of_neg hp]; omega

theorem getDomain_auth_length_le (s : Store) (n : Name) (sub : Bool) (now : Nat) :
    (s.getDomain n (Filter.auth sub) now).flatten.length ≤ (authRecords s).length := by
  unfold Store.getDomain authRecords
  simp only [Filter.auth_matches_eq sub]
  cases sub with
  | true =>
    have hs : (Filter.auth true).subdomain = true := rfl
    simp only [hs, if_true]
    split
    · exact groups_length_le _ _ _
    · simp
  | false =>
    have hs : (Filter.auth false).subdomain = false := rfl
    simp only [hs, Bool.false_eq_true, if_false]
    cases hb : s.bucket (getKey n) with
    | none => simp
    | some b =>
      simp only
      have hm := Store.bucket_mem hb
      have hsub : List.Sublist ((b.filter (fun e => (Filter.auth true).matches e.2 0)).map (·.1))
          (s.entries.flatMap
            (fun e => (e.2.filter (fun x => (Filter.auth true).matches x.2 0)).map (·.1))) := by
        rw [List.flatMap_def]
        exact List.sublist_flatten_of_mem (List.mem_map.mpr ⟨(getKey n, b), hm, rfl⟩)
      refine Nat.le_trans ?_ hsub.length_le
      generalize (b.filter (fun e => (Filter.auth true).matches e.2 0)).map (·.1) = g
      cases g <;> simp


theorem length_flatMap_le {A B : Type} {l : List A} {f : A → List B} {n : Nat}
    (h : ∀ a ∈ l, (f a).length ≤ n) : (l.flatMap f).length ≤ l.length * n := by
  induction l with
  | nil => simp
  | cons a l ih =>
    have h1 := h a (by simp)
    have h2 := ih (fun x hx => h x (List.mem_cons_of_mem _ hx))
    simp only [List.flatMap_cons, List.length_append, List.length_cons, Nat.add_mul, Nat.one_mul]
    omega

theorem answersOf_length_le (q : Packet) (s : Store) (now : Nat) :
    (answersOf q s now).length ≤ q.questions.length * (authRecords s).length := by
  unfold answersOf
  rw [List.flatMap_map]
  apply length_flatMap_le
  intro qu _
  simp only [answersFor]
  exact Nat.le_trans (List.length_filter_le _ _) (getDomain_auth_length_le s _ true now)

theorem dedupRR_nodup (l : List RR) : (dedupRR l).Nodup := by
  induction l with
  | nil => exact List.Pairwise.nil
  | cons x xs ih =>
    simp only [dedupRR]
    rw [List.nodup_cons]
    refine ⟨?_, ih.sublist List.filter_sublist⟩
    intro hx
    have := (List.mem_filter.mp hx).2
    simp at this

theorem mem_authRecords {s : Store} {k : Key} {b : Bucket} {x : RR} (hk : (k, b) ∈ s.entries)
    (hx : (x, Kind.auth) ∈ b) : x ∈ authRecords s := by
  unfold authRecords
  rw [List.mem_flatMap]
  exact ⟨(k, b), hk, List.mem_map.mpr ⟨(x, .auth), List.mem_filter.mpr ⟨hx, rfl⟩, rfl⟩⟩

theorem extras_length_le (q : Packet) (s : Store) (now : Nat) :
    (dedupRR (extrasOf q s now)).length ≤ (authRecords s).length := by
  apply (dedupRR_nodup _).length_le_of_subset
  intro x hx
  obtain ⟨qu, _, a, _, t, _, hdom, _, _⟩ := mem_extrasOf.mp (mem_dedupRR hx)
  obtain ⟨k, b, hk, hxb⟩ := mem_getDomain_auth hdom
  exact mem_authRecords hk hxb

/-- a sufficient condition in terms of sizes: at most 65 535 registered records, and the number of
questions of the query times that number at most 65 535 (a one-question query: no more) -/
theorem replyFits_of_size {s : Store} {q : Packet} {now : Nat} (hwf : AuthWF s)
    (h1 : (authRecords s).length ≤ 65535)
    (h2 : q.questions.length * (authRecords s).length ≤ 65535) : ReplyFits s q now :=
  ⟨hwf, Nat.le_trans (answersOf_length_le q s now) h2, Nat.le_trans (extras_length_le q s now) h1⟩

/-- the reply `build_reply` assembles is within DNS limits -/
theorem reply_wf {q : Packet} {s : Store} {now : Nat} {r : Packet} {u : Bool}
    (hid : q.header.id < 65536) (hf : ReplyFits s q now) (h : buildReply q s now = some (r, u)) :
    r.WF := by
  obtain ⟨_, han, har, hq, hns, hh, _⟩ := buildReply_eq_some h
  obtain ⟨hwf, hc1, hc2⟩ := hf
  have hhopt : r.header.opt = none := by rw [hh]
  refine ⟨?_, ?_, ?_, ?_, ?_, ?_, ?_, ?_, ?_, ?_⟩
  · rw [hh]; exact ⟨hid, (by decide : (0x8000 : Nat) &&& Mask.ALLFLAGS = 0x8000), (by decide : RCODE.NoError ≠ RCODE.BADVERS)⟩
  · rw [hq]; simp
  · rw [han]; exact hc1
  · rw [hns]; simp
  · rw [har, hhopt]; simpa using hc2
  · rw [hq]; simp
  · intro a ha
    rw [han] at ha
    obtain ⟨qu, _, hdom, _, _⟩ := mem_answersOf.mp ha
    obtain ⟨k, b, hk, hab⟩ := mem_getDomain_auth hdom
    exact hwf k b hk a hab
  · rw [hns]; simp
  · intro x hx
    rw [har] at hx
    obtain ⟨qu, _, a, _, t, _, hdom, _, _⟩ := mem_extrasOf.mp (mem_dedupRR hx)
    obtain ⟨k, b, hk, hxb⟩ := mem_getDomain_auth hdom
    exact hwf k b hk x hxb
  · intro _ x hx
    rw [har] at hx
    obtain ⟨qu, _, a, _, t, _, _, hty, _⟩ := mem_extrasOf.mp (mem_dedupRR hx)
    rcases hty with hty | hty
    · rw [matchQType_A hty]; decide
    · rw [matchQType_AAAA hty]; decide

theorem sendReply_some {r : Option (Packet × Bool)} {bytes : Bytes}
    (h : sendReply r = .ok (some bytes)) : ∃ p u, r = some (p, u) ∧ p.buildCompressed = .ok bytes := by
  unfold sendReply at h
  split at h
  · cases h
  · rename_i p u
    split at h
    · rename_i b hb; cases h; exact ⟨p, u, rfl, hb⟩
    · cases h
    · cases h

/-- what the bytes of a responder reply are: the compressed serialisation of the packet
`build_reply` assembled for the parsed query -/
theorem handleResponder_some {s : Store} {d : Bytes} {now : Nat} {bytes : Bytes}
    (h : handleResponder s d now = .ok (some bytes)) :
    ∃ q r u, Packet.parse d = .ok q ∧ buildReply q s now = some (r, u) ∧
      r.buildCompressed = .ok bytes := by
  unfold handleResponder at h
  split at h
  · cases h
  · cases h
  · cases h
  · split at h
    · cases h
    · cases h
    · rename_i q hq
      obtain ⟨r, u, hr, hb⟩ := sendReply_some h
      exact ⟨q, r, u, hq, hr, hb⟩

theorem handleDiscovery_some {s s' : Store} {service full : Name} {d : Bytes} {now : Nat}
    {bytes : Bytes} (h : handleDiscovery s service full d now = .ok (s', some bytes)) :
    ∃ q r u, Packet.parse d = .ok q ∧ buildReply q s now = some (r, u) ∧
      r.buildCompressed = .ok bytes := by
  unfold handleDiscovery at h
  split at h
  · cases h
  · cases h
  · rename_i q hq
    split at h
    · cases h
    · split at h
      · rename_i o ho
        cases h
        obtain ⟨r, u, hr, hb⟩ := sendReply_some ho
        exact ⟨q, r, u, hq, hr, hb⟩
      · cases h
      · cases h

/-- **A reply the responder sends is a parseable DNS message**, and parses to the very packet
`build_reply` assembled: the announced records reach the querier unchanged. The hypothesis
concerns the store content and the number of matching records only (see `ReplyFits`). -/
theorem reply_parseable {s : Store} {d : Bytes} {now : Nat} {bytes : Bytes}
    (h : handleResponder s d now = .ok (some bytes))
    (hf : ∀ q, Packet.parse d = .ok q → ReplyFits s q now) :
    ∃ p, Packet.parse bytes = .ok p ∧
      ∃ q u, Packet.parse d = .ok q ∧ buildReply q s now = some (p, u) := by
  obtain ⟨q, r, u, hq, hr, hb⟩ := handleResponder_some h
  obtain ⟨b, hb', hp⟩ := compressed_transparent r (reply_wf (parsed_id_lt hq) (hf q hq) hr)
  rw [hb] at hb'
  cases hb'
  exact ⟨r, hp, q, u, hq, hr⟩

/-- the same for the replies of the service-discovery listener -/
theorem reply_parseable_discovery {s s' : Store} {service full : Name} {d : Bytes} {now : Nat}
    {bytes : Bytes} (h : handleDiscovery s service full d now = .ok (s', some bytes))
    (hf : ∀ q, Packet.parse d = .ok q → ReplyFits s q now) :
    ∃ p, Packet.parse bytes = .ok p ∧
      ∃ q u, Packet.parse d = .ok q ∧ buildReply q s now = some (p, u) := by
  obtain ⟨q, r, u, hq, hr, hb⟩ := handleDiscovery_some h
  obtain ⟨b, hb', hp⟩ := compressed_transparent r (reply_wf (parsed_id_lt hq) (hf q hq) hr)
  rw [hb] at hb'
  cases hb'
  exact ⟨r, hp, q, u, hq, hr⟩

/-- the same with a hypothesis on sizes only: the registered records are well-formed, there are at
most 65 535 of them, and the number of questions of the query times that number is at most 65 535
(so: any one-question query) -/
theorem reply_parseable_of_size {s : Store} {d : Bytes} {now : Nat} {bytes : Bytes}
    (h : handleResponder s d now = .ok (some bytes)) (hwf : AuthWF s)
    (h1 : (authRecords s).length ≤ 65535)
    (h2 : ∀ q, Packet.parse d = .ok q → q.questions.length * (authRecords s).length ≤ 65535) :
    ∃ p, Packet.parse bytes = .ok p :=
  let ⟨p, hp, _⟩ := reply_parseable h (fun q hq => replyFits_of_size hwf h1 (h2 q hq))
  ⟨p, hp⟩

/-! ### 5. summary -/

/-- **C14.** Every datagram is handled without a panic by the three services; the discovery
store keeps its invariant; replies built from well-formed registered records parse.
Partial: threads, sockets and lock poisoning are outside the model. -/
theorem datagram_handling_total_partial (s : Store) (d : Bytes) (now : Nat) (service full : Name) :
    (handleResponder s d now ≠ .panic ∧ handleDiscovery s service full d now ≠ .panic ∧
      handleResolver d ≠ .panic) ∧
    (∀ s' r, handleDiscovery s service full d now = .ok (s', r) →
      (Inv s → Inv s') ∧ (StoreOK s → StoreOK s') ∧ (Reachable s → Reachable s')) ∧
    ((∀ q, Packet.parse d = .ok q → ReplyFits s q now) →
      (∀ bytes, handleResponder s d now = .ok (some bytes) → ∃ p, Packet.parse bytes = .ok p) ∧
      (∀ s' bytes, handleDiscovery s service full d now = .ok (s', some bytes) →
        ∃ p, Packet.parse bytes = .ok p)) := by
  refine ⟨pipeline_no_panic s d now service full, ?_, ?_⟩
  · intro s' r h
    exact ⟨fun hI => store_usable hI h, fun hS => store_usable_ok hS h,
      fun hR => store_usable_reachable hR h⟩
  · intro hf
    refine ⟨fun bytes h => ?_, fun s' bytes h => ?_⟩
    · obtain ⟨p, hp, _⟩ := reply_parseable h hf; exact ⟨p, hp⟩
    · obtain ⟨p, hp, _⟩ := reply_parseable_discovery h hf; exact ⟨p, hp⟩

/-! ### a concrete responder -/

/-! ### 6. a reply that cannot be sent

The reply to one datagram can be larger than any datagram (`answersFor` is evaluated per question and
nothing removes repetitions: a query of a few hundred questions for one registered name asks for that
many copies of its records), and a unicast destination can be unreachable. What the loop does with
the failed `send_to` decides whether the service survives. Found by the audit of this file against
`simple_responder.rs`; repaired in /repo by fix 4185208, replayed by the live runs of the C14 check. -/

/-- a send is refused exactly when the environment refuses it or the payload exceeds 65 507 bytes -/
theorem sendTo_false_iff (b : Bytes) (envOk : Bool) :
    sendTo b envOk = false ↔ envOk = false ∨ udpMaxPayload < b.length := by
  unfold sendTo
  cases envOk <;> simp [Nat.not_le]

/-- **With the policy of the code (log and go on) no datagram, no store, no clock value and no
behaviour of the network ends or panics the responder's receive loop.** -/
theorem responder_loop_survives (s : Store) (d : Bytes) (now : Nat) (envOk : Bool) :
    ∃ sent, responderIteration responderSendPolicy s d now envOk = .ok (.continues sent) := by
  obtain ⟨r, hr⟩ := (pipeline_total s d now [] []).1
  unfold responderIteration responderSendPolicy
  rw [hr]
  cases r with
  | none => exact ⟨none, rfl⟩
  | some b =>
    by_cases h : sendTo b envOk = true
    · exact ⟨some b, by simp [h]⟩
    · exact ⟨none, by simp [h]⟩

/-- what is sent, when something is sent, is the reply of `handleResponder`, within the size a datagram
can carry -/
theorem responder_sends_reply {s : Store} {d : Bytes} {now : Nat} {envOk : Bool} {b : Bytes}
    {pol : OnSendError}
    (h : responderIteration pol s d now envOk = .ok (.continues (some b))) :
    handleResponder s d now = .ok (some b) ∧ b.length ≤ udpMaxPayload := by
  unfold responderIteration at h
  split at h
  · cases h
  · cases h
  · cases h
  · rename_i b' hb
    split at h
    · rename_i hs
      cases h
      refine ⟨hb, ?_⟩
      unfold sendTo at hs
      simp at hs
      exact hs.2
    · cases pol <;> simp at h

/-- **With `?` on the send (the code before the fix) every reply that cannot be sent ends the loop:**
whenever the responder has something to answer and the send fails, the thread is gone. -/
theorem responder_loop_propagate_ends {s : Store} {d : Bytes} {now : Nat} {envOk : Bool} {b : Bytes}
    (hb : handleResponder s d now = .ok (some b)) (hs : sendTo b envOk = false) :
    responderIteration .propagate s d now envOk = .ok .ends := by
  unfold responderIteration
  rw [hb]
  simp [hs]

namespace C14Ex

def lbl : Label := [108, 111, 99, 97, 108]
def nA : Name := [[97], lbl]
def nBA : Name := [[98], [97], lbl]
/-- `a.local A 10.0.0.1` -/
def recA : RR := { name := nA, cls := .IN, ttl := 120, rdata := .flat 1 [.int 0x0A000001], flush := false }
/-- `b.a.local SRV 0 0 80 a.local` -/
def srvB : RR :=
  { name := nBA, cls := .IN, ttl := 120, rdata := .flat 33 [.int 0, .int 0, .int 80, .name nA], flush := false }
/-- `l.local LOC` with version 1: a record the serialiser refuses -/
def locBad : RR :=
  { name := [[108], lbl], cls := .IN, ttl := 120, flush := false,
    rdata := .flat 29 [.int 1, .int 0, .int 0, .int 0, .int 0, .int 0, .int 0] }
def st : Store := Store.empty.run [.addAuth recA, .addAuth srvB]
def stBad : Store := st.addAuth locBad

def query (n : Name) : Packet :=
  { header := { id := 7, opcode := .StandardQuery, rcode := .NoError, flags := 0, opt := none },
    questions := [{ name := n, qtype := .ANY, qclass := .CLASS .IN, unicast := false }],
    answers := [], nameServers := [], additional := [] }

/-- the query `a.local ANY IN` -/
def qbytes : Bytes :=
  [0, 7, 0, 0, 0, 1, 0, 0, 0, 0, 0, 0, 1, 97, 5, 108, 111, 99, 97, 108, 0, 0, 255, 0, 1]
/-- the reply: `a.local A`, `b.a.local SRV` (owner compressed), additional `a.local A` -/
def rbytes : Bytes :=
  [0, 7, 128, 0, 0, 0, 0, 2, 0, 0, 0, 1,
   1, 97, 5, 108, 111, 99, 97, 108, 0, 0, 1, 0, 1, 0, 0, 0, 120, 0, 4, 10, 0, 0, 1,
   1, 98, 192, 12, 0, 33, 0, 1, 0, 0, 0, 120, 0, 15, 0, 0, 0, 0, 0, 80, 1, 97, 5, 108, 111, 99, 97, 108, 0,
   192, 12, 0, 1, 0, 1, 0, 0, 0, 120, 0, 4, 10, 0, 0, 1]

theorem qbytes_parse : Packet.parse qbytes = .ok (query nA) := by
  obtain ⟨b, hb, hp⟩ := compressed_transparent (query nA) (by decide)
  have : (query nA).buildCompressed = .ok qbytes := by decide +kernel
  rw [this] at hb; cases hb; exact hp

/-- the responder's answer to the datagram, byte for byte -/
theorem responder_reply : handleResponder st qbytes 5 = .ok (some rbytes) := by
  unfold handleResponder
  have h1 : Peek.hasFlags qbytes 0x8000 = .ok false := by decide
  rw [h1, qbytes_parse]
  decide +kernel

example : AuthWF st := by
  intro k b hk r hr
  have : ∀ e ∈ st.entries, ∀ x ∈ e.2, x.1.WF := by decide
  exact this (k, b) hk (r, .auth) hr

/-- … which parses (here through the theorem) -/
example : ∃ p, Packet.parse rbytes = .ok p := by
  refine reply_parseable_of_size responder_reply ?_ (by decide) ?_
  · intro k b hk r hr
    have : ∀ e ∈ st.entries, ∀ x ∈ e.2, x.1.WF := by decide
    exact this (k, b) hk (r, .auth) hr
  · intro q hq
    rw [qbytes_parse] at hq
    cases hq
    decide

/-- a registered record that cannot be written: a reply is due, serialising it fails, the error is
logged and nothing is sent; no panic -/
example : buildReply (query [[108], lbl]) stBad 5 ≠ none ∧
    sendReply (buildReply (query [[108], lbl]) stBad 5) = .ok none := by decide +kernel

/-- the hypotheses of `responder_loop_propagate_ends` are met: the query above, answered towards an
unreachable destination, ended the loop of the code before the fix, and does not end the repaired one -/
example : responderIteration .propagate st qbytes 5 false = .ok .ends ∧
    responderIteration responderSendPolicy st qbytes 5 false = .ok (.continues none) ∧
    responderIteration responderSendPolicy st qbytes 5 true = .ok (.continues (some rbytes)) := by
  refine ⟨responder_loop_propagate_ends responder_reply rfl, ?_, ?_⟩ <;>
    (unfold responderIteration; rw [responder_reply]; decide)

/-- garbage is dropped by all three services -/
example : handleResponder st [1, 2, 3] 0 = .ok none ∧ handleResolver [1, 2, 3] = .ok none ∧
    handleDiscovery st nA nBA [1, 2, 3] 0 = .ok (st, none) := by
  refine ⟨by decide, by decide, ?_⟩
  have : Packet.parse [1, 2, 3] = .err := by decide
  unfold handleDiscovery
  rw [this]

end C14Ex

end Dns.Mdns
