/-
C18 — Type/class codes map one-to-one and query matching is exact.
-/
import SimpleDnsModel.Model.Match
import SimpleDnsModel.Spec.Iana
namespace Dns

/-- **TYPE round trip**, for every code (no bound needed). -/
theorem type_roundtrip (c : Nat) : (TYPE.ofCode c).toCode = c := by
  unfold TYPE.ofCode
  split <;> rfl

/-- converting a supported TYPE to its code and back gives the same TYPE: the 41 codes are
pairwise distinct -/
theorem type_roundtrip_supported (t : TYPE) (h : ∀ n, t ≠ .Unknown n) :
    TYPE.ofCode t.toCode = t := by
  cases t <;> first | rfl | exact absurd rfl (h _)

/-- **CLASS round trip / no aliasing**: a code converts iff it is one of the five, and back. -/
theorem class_roundtrip (c : Nat) :
    (∀ x, CLASS.ofCode c = .ok x → x.toCode = c) ∧ CLASS.ofCode c ≠ .panic ∧
    (CLASS.ofCode c = .err ↔ c ∉ [1, 2, 3, 4, 254]) := by
  unfold CLASS.ofCode
  split <;> simp_all [CLASS.toCode]

theorem QTYPE.ofCode_general (c : Nat) (h : c ∉ [251, 252, 253, 254, 255]) :
    QTYPE.ofCode c = (match TYPE.ofCode c with
      | .Unknown _ => .err
      | ty => .ok (.TYPE ty)) := by
  unfold QTYPE.ofCode
  split <;> first | rfl | simp_all

/-- **QTYPE round trip / no aliasing.** -/
theorem qtype_roundtrip (c : Nat) :
    (∀ q, QTYPE.ofCode c = .ok q → q.toCode = c) ∧ QTYPE.ofCode c ≠ .panic := by
  by_cases h : c ∈ [251, 252, 253, 254, 255]
  · simp at h
    rcases h with h | h | h | h | h <;> subst h <;> simp [QTYPE.ofCode, QTYPE.toCode]
  · rw [QTYPE.ofCode_general c h]
    have hr := type_roundtrip c
    split
    · simp
    · simpa [QTYPE.toCode] using hr

/-- a question type is an error exactly for the codes that are neither one of the five QTYPE
specials nor a supported TYPE -/
theorem qtype_unsupported_err (c : Nat) :
    QTYPE.ofCode c = .err ↔ (c ∉ [251, 252, 253, 254, 255] ∧ (TYPE.ofCode c).isUnknown = true) := by
  by_cases h : c ∈ [251, 252, 253, 254, 255]
  · simp at h
    rcases h with h | h | h | h | h <;> subst h <;> simp [QTYPE.ofCode]
  · rw [QTYPE.ofCode_general c h]
    simp only [h, not_false_eq_true, true_and]
    split
    · rename_i n heq; simp [heq, TYPE.isUnknown]
    · rename_i ty hne
      cases hty : TYPE.ofCode c <;> simp [TYPE.isUnknown]
      exact absurd hty (hne _)

theorem QCLASS.ofCode_general (c : Nat) (h : c ≠ 255) :
    QCLASS.ofCode c = (match CLASS.ofCode c with
      | .ok x => .ok (.CLASS x)
      | .err => .err
      | .panic => .panic) := by
  unfold QCLASS.ofCode
  split <;> first | rfl | simp_all

/-- **QCLASS round trip / no aliasing.** -/
theorem qclass_roundtrip (c : Nat) :
    (∀ q, QCLASS.ofCode c = .ok q → q.toCode = c) ∧ QCLASS.ofCode c ≠ .panic ∧
    (QCLASS.ofCode c = .err ↔ c ∉ [1, 2, 3, 4, 254, 255]) := by
  by_cases h : c = 255
  · subst h; simp [QCLASS.ofCode, QCLASS.toCode]
  · have hc := class_roundtrip c
    rw [QCLASS.ofCode_general c h]
    cases hcl : CLASS.ofCode c with
    | ok x =>
      have h1 := hc.1 x hcl
      have h3 := hc.2.2
      rw [hcl] at h3
      simp at h3
      simp [QCLASS.toCode, h1]
      omega
    | err =>
      have h3 := hc.2.2
      rw [hcl] at h3
      simp at h3
      simp; omega
    | panic => exact absurd hcl hc.2.1

/-- **Every supported mnemonic maps to its IANA number** (the whole registry extract, by
evaluation): TYPE, the QTYPE specials and CLASS. -/
theorem mnemonics_iana :
    (∀ e ∈ Spec.ianaType, (TYPE.ofCode e.2).mnemonic = e.1 ∧ (TYPE.ofCode e.2).toCode = e.2) ∧
    (QTYPE.ofCode 251 = .ok .IXFR ∧ QTYPE.ofCode 252 = .ok .AXFR ∧ QTYPE.ofCode 253 = .ok .MAILB ∧
      QTYPE.ofCode 254 = .ok .MAILA ∧ QTYPE.ofCode 255 = .ok .ANY) ∧
    (∀ e ∈ Spec.ianaClass, (CLASS.ofCode e.2).isOk = true ∧
      (match CLASS.ofCode e.2 with | .ok x => x.mnemonic == e.1 && x.toCode == e.2 | _ => false) = true) := by
  refine ⟨by decide, by decide, by decide⟩

/-- all 41 supported types appear in the IANA extract (so `mnemonics_iana` covers every variant) -/
theorem iana_covers_all_types (t : TYPE) (h : ∀ n, t ≠ .Unknown n) :
    (t.mnemonic, t.toCode) ∈ Spec.ianaType := by
  cases t <;> first | decide | exact absurd rfl (h _)

/-- **Query-type matching is exact**, for the question kinds the property speaks about. -/
theorem match_qtype_iff (t : TYPE) :
    (matchQType t .ANY = true) ∧
    (∀ ty, matchQType t (.TYPE ty) = true ↔ ty = t) ∧
    (matchQType t .MAILB = true ↔ (t = .MB ∨ t = .MG ∨ t = .MR)) := by
  refine ⟨rfl, fun ty => by simp [matchQType], ?_⟩
  cases t <;> simp [matchQType]

/-- **Query-class matching is exact.** -/
theorem match_qclass_iff (c : CLASS) :
    matchQClass c .ANY = true ∧ ∀ x, matchQClass c (.CLASS x) = true ↔ x = c := by
  refine ⟨rfl, fun x => by simp [matchQClass]⟩

/-- **The type reported for a record is the one its code denotes**: for every RDATA value a
parser or constructor can produce with on-wire type code `c` — a flat typed value, IPSECKEY, OPT,
opaque content of type NULL or of an unknown type, empty RDATA — `typeOf` is `TYPE.ofCode c`. -/
theorem type_code_faithful :
    (∀ code vs, (RData.flat code vs).typeOf = TYPE.ofCode code) ∧
    (∀ p a g k, (RData.ipseckey p a g k).typeOf = TYPE.ofCode 45) ∧
    (∀ o, (RData.opt o).typeOf = TYPE.ofCode 41) ∧
    (∀ c b, (RData.null c b).typeOf = TYPE.ofCode c) ∧
    (∀ c, (RData.empty (TYPE.ofCode c)).typeOf = TYPE.ofCode c) ∧
    (RData.null 10 []).typeOf = .NULL := by
  refine ⟨fun _ _ => rfl, fun _ _ _ _ => rfl, fun _ => rfl, fun _ _ => rfl, fun _ => rfl, rfl⟩

/-- on the wire the record is written under that same code -/
theorem type_code_written (r : RR) : (r.writeCommon.take 2) = beN 2 r.rdata.typeOf.toCode := by
  simp [RR.writeCommon]

end Dns
