/-
C05 — parsing honours the record framing of the message.

The reference is the envelope walker of Spec/Envelope.lean, written from
RFC 1035 §4.1 without looking at the library: it reads the four header counts,
skips each name in place, reads the fixed fields and jumps over RDLENGTH bytes
of RDATA; it returns `none` when a count or a length runs past the end of the
message. The theorems say that whenever `Packet.parse` succeeds the walker
succeeds too, and the parsed questions and records are, one to one and in
order, the walked entries: same owner name (as decoded by the RFC relation
`Decodes`), type, class, cache-flush bit and TTL, and the parser's cursor after
each record is the walker's `next` = end of name + 10 + RDLENGTH — whatever the
typed RDATA parser consumed. The RDATA value is a function of the message cut
at that offset (`rdata_local`). Proofs are in Lemmas/Framing.lean.
-/
import SimpleDnsModel.Lemmas.Framing
import SimpleDnsModel.Props.C01
namespace Dns
open Framing (Corr RecOK QuOK)

/-! ### 1. the name cursor of the model is the walker's `skipName` -/

/-- after a successful `Name::parse` the caller's cursor is where the walker's in-place skip of
the same name stops -/
theorem name_cursor_is_skipName {d : Bytes} {off : Nat} {n : Name} {e : Nat}
    (h : Name.parse d off = .ok (n, e)) : Spec.skipName d (d.length + 1) off = some e :=
  Framing.skipName_of_parse h

/-- `skipName` computes the relation `InPlaceEnd` of Spec/NameDecode.lean, restricted to ends
inside the message (the pointer rule of `InPlaceEnd` does not ask for the second pointer byte to
exist: see the example below) -/
theorem skipName_iff_inPlaceEnd (d : Bytes) (off e : Nat) :
    Spec.skipName d (d.length + 1) off = some e ↔ InPlaceEnd d off e ∧ e ≤ d.length :=
  ⟨Framing.inPlaceEnd_of_skipName,
   fun ⟨h, he⟩ => Framing.skipName_of_inPlaceEnd h he _ (by omega)⟩

/-- why `e ≤ d.length` is needed: a lone pointer byte at the end of the message -/
example : InPlaceEnd [0xC0] 0 2 ∧ Spec.skipName [0xC0] 2 0 = none :=
  ⟨InPlaceEnd.ptr (b := 0xC0) rfl (by decide), by decide⟩

/-! ### 2. one record, one question -/

/-- A parsed record is the walked entry at the same offset: the cursor after it is the end of the
name + 10 + RDLENGTH, the owner name is the RFC decoding at the entry's offset, the TTL is the
entry's, the RDATA has the entry's type and, except for OPT (whose CLASS and TTL fields carry
EDNS data), class and cache-flush bit are the two parts of the entry's CLASS field. -/
theorem cursor_after_record {d : Bytes} {off : Nat} {r : RR} {p : Nat}
    (h : RR.parse d off = .ok (r, p)) :
    ∃ e, Spec.walkRecord d off = some e ∧ p = e.next ∧ Decodes d off r.name ∧ r.ttl = e.ttl ∧
      r.rdata.typeOf = TYPE.ofCode e.type ∧
      (r.rdata.typeOf ≠ .OPT →
        CLASS.ofCode (e.cls &&& 0x7FFF) = .ok r.cls ∧ r.flush = ((e.cls &&& 0x8000) == 0x8000)) := by
  obtain ⟨e, he, hoff, hp, hn, ht, hty, hc⟩ := Framing.RR.parse_frame h
  exact ⟨e, he, hp, hoff ▸ hn, ht, hty, hc⟩

theorem cursor_after_question {d : Bytes} {off : Nat} {q : Question} {p : Nat}
    (h : Question.parse d off = .ok (q, p)) :
    ∃ e, Spec.walkQuestion d off = some e ∧ p = e.next ∧ Decodes d off q.name ∧
      QTYPE.ofCode e.qtype = .ok q.qtype ∧ QCLASS.ofCode (e.qclass &&& 0x7FFF) = .ok q.qclass ∧
      q.unicast = ((e.qclass &&& 0x8000) == 0x8000) := by
  obtain ⟨e, he, hoff, hp, hn, hrest⟩ := Framing.Question.parse_frame h
  exact ⟨e, he, hp, hoff ▸ hn, hrest⟩

/-- the cursor after the RDATA alone: `pos` (at the TYPE field) + 10 + RDLENGTH, inside the
message, for every RDATA type -/
theorem cursor_after_rdata {d : Bytes} {pos : Nat} {rd : RData} {p : Nat}
    (h : RData.parse d pos = .ok (rd, p)) :
    ∃ l, Spec.field d (pos + 8) 2 = some l ∧ p = pos + 10 + l ∧ p ≤ d.length := by
  obtain ⟨_, l, _, hl, hp, hle, _⟩ := Framing.RData.parse_frame h
  exact ⟨l, hl, hp, hle⟩

/-! ### 3. sections

`Corr R xs ys` (Lemmas/Framing.lean) is the pointwise relation: the lists have the same length
and `R xs[i] ys[i]` for every `i` (`Corr.length_eq`, `Corr.get`). `RecOK d r e` and `QuOK d q e`
are the per-entry statements of section 2 (with the name decoded at `e.off`). -/

theorem records_follow_framing {d : Bytes} {n off : Nat} {rs : List RR} {p : Nat}
    (h : parseRRs d n off = .ok (rs, p)) :
    ∃ es, Spec.walkRecords d n off = some (es, p) ∧ rs.length = n ∧ es.length = n ∧
      Corr (RecOK d) rs es :=
  Framing.parseRRs_frame h

theorem questions_follow_framing {d : Bytes} {n off : Nat} {qs : List Question} {p : Nat}
    (h : parseQuestions d n off = .ok (qs, p)) :
    ∃ es, Spec.walkQuestions d n off = some (es, p) ∧ qs.length = n ∧ es.length = n ∧
      Corr (QuOK d) qs es :=
  Framing.parseQuestions_frame h

/-- index form of the correspondence -/
theorem records_follow_framing_get {d : Bytes} {n off : Nat} {rs : List RR} {p : Nat}
    (h : parseRRs d n off = .ok (rs, p)) :
    ∃ es, Spec.walkRecords d n off = some (es, p) ∧
      ∃ (h1 : rs.length = n) (h2 : es.length = n),
        ∀ i (hi : i < n), RecOK d (rs[i]'(h1 ▸ hi)) (es[i]'(h2 ▸ hi)) := by
  obtain ⟨es, hes, h1, h2, hc⟩ := Framing.parseRRs_frame h
  exact ⟨es, hes, h1, h2, fun i hi => hc.get i (h1 ▸ hi) (h2 ▸ hi)⟩

/-! ### 4. the whole message -/

/-- the walker returns as many entries per section as the header counts say -/
theorem walk_counts {d : Bytes} {w : Spec.Walk} (h : Spec.walk d = some w) :
    Spec.field d 4 2 = some w.questions.length ∧ Spec.field d 6 2 = some w.answers.length ∧
    Spec.field d 8 2 = some w.nameServers.length ∧
    Spec.field d 10 2 = some w.additional.length := by
  have hq : ∀ n off es p, Spec.walkQuestions d n off = some (es, p) → es.length = n := by
    intro n
    induction n with
    | zero => intro off es p h; simp [Spec.walkQuestions] at h; simp [h.1.symm]
    | succ n ih =>
      intro off es p h
      simp only [Spec.walkQuestions, Option.bind_eq_bind, Option.bind_eq_some_iff] at h
      obtain ⟨e, _, ⟨es', p'⟩, hes, h⟩ := h
      simp only [Option.pure_def, Option.some.injEq, Prod.mk.injEq] at h
      rw [← h.1]; simp [ih _ _ _ hes]
  have hr : ∀ n off es p, Spec.walkRecords d n off = some (es, p) → es.length = n := by
    intro n
    induction n with
    | zero => intro off es p h; simp [Spec.walkRecords] at h; simp [h.1.symm]
    | succ n ih =>
      intro off es p h
      simp only [Spec.walkRecords, Option.bind_eq_bind, Option.bind_eq_some_iff] at h
      obtain ⟨e, _, ⟨es', p'⟩, hes, h⟩ := h
      simp only [Option.pure_def, Option.some.injEq, Prod.mk.injEq] at h
      rw [← h.1]; simp [ih _ _ _ hes]
  unfold Spec.walk at h
  simp only [Option.bind_eq_bind, Option.bind_eq_some_iff] at h
  obtain ⟨qd, hqd, an, han, ns, hns, ar, har, ⟨qs, p1⟩, hqs, ⟨a, p2⟩, ha, ⟨n, p3⟩, hn,
    ⟨r, p4⟩, hr', h⟩ := h
  simp only [Option.pure_def, Option.some.injEq] at h
  subst h
  simp only [hq _ _ _ _ hqs, hr _ _ _ _ ha, hr _ _ _ _ hn, hr _ _ _ _ hr']
  exact ⟨hqd, han, hns, har⟩

/-- When `Packet::parse` succeeds, the envelope walker succeeds and the parsed sections are the
walked sections entry by entry. The additional section of the result is the walked one minus its
first OPT-typed record, which is moved into the header (`liftOpt`, `Header.extractOpt`). -/
theorem parse_respects_framing {d : Bytes} {p : Packet} (h : Packet.parse d = .ok p) :
    ∃ w, Spec.walk d = some w ∧
      Corr (QuOK d) p.questions w.questions ∧
      Corr (RecOK d) p.answers w.answers ∧
      Corr (RecOK d) p.nameServers w.nameServers ∧
      ∃ all, Corr (RecOK d) all w.additional ∧ p.additional = (liftOpt all).2 ∧
        ∃ h0, Header.parse d = .ok h0 ∧ h0.extractOpt (liftOpt all).1 = .ok p.header := by
  unfold Packet.parse at h
  obtain ⟨h0, hh0, h⟩ := Out.bind_eq_ok h
  obtain ⟨qd, hqd, h⟩ := Out.bind_eq_ok h
  obtain ⟨⟨qs, p1⟩, hqs, h⟩ := Out.bind_eq_ok h
  dsimp only at h
  obtain ⟨an, han, h⟩ := Out.bind_eq_ok h
  obtain ⟨⟨as, p2⟩, has, h⟩ := Out.bind_eq_ok h
  dsimp only at h
  obtain ⟨ns, hns, h⟩ := Out.bind_eq_ok h
  obtain ⟨⟨nss, p3⟩, hnss, h⟩ := Out.bind_eq_ok h
  dsimp only at h
  obtain ⟨ar, har, h⟩ := Out.bind_eq_ok h
  obtain ⟨⟨all, p4⟩, hall, h⟩ := Out.bind_eq_ok h
  dsimp only at h
  obtain ⟨h1, hh1, h⟩ := Out.bind_eq_ok h
  cases h
  obtain ⟨eq, heq, _, _, cq⟩ := Framing.parseQuestions_frame hqs
  obtain ⟨ea, hea, _, _, ca⟩ := Framing.parseRRs_frame has
  obtain ⟨en, hen, _, _, cn⟩ := Framing.parseRRs_frame hnss
  obtain ⟨er, her, _, _, cr⟩ := Framing.parseRRs_frame hall
  refine ⟨{ questions := eq, answers := ea, nameServers := en, additional := er, stop := p4 },
    ?_, cq, ca, cn, all, cr, rfl, h0, hh0, hh1⟩
  unfold Spec.walk
  simp [Framing.field_of_peekU16 hqd, Framing.field_of_peekU16 han, Framing.field_of_peekU16 hns,
    Framing.field_of_peekU16 har, heq, hea, hen, her]

/-! ### 5. a message whose counts or lengths run past its end is rejected -/

theorem overrun_rejected {d : Bytes} (h : Spec.walk d = none) : ∀ p, Packet.parse d ≠ .ok p := by
  intro p hp
  obtain ⟨w, hw, _⟩ := parse_respects_framing hp
  rw [h] at hw
  cases hw

theorem overrun_err {d : Bytes} (h : Spec.walk d = none) : Packet.parse d = .err := by
  cases hp : Packet.parse d with
  | ok p => exact absurd hp (overrun_rejected h p)
  | err => rfl
  | panic => exact absurd hp (parse_no_panic d)

/-! ### 6. the RDATA value is decoded from exactly the record's RDLENGTH bytes -/

/-- `RData.parse` at `pos` (the TYPE field) is a function of the message cut at
`pos + 10 + RDLENGTH`: replacing everything after the record by any `tail` changes neither the
value nor the cursor nor the verdict. -/
theorem rdata_local {d : Bytes} {pos rdlen : Nat} (hk : pos + 10 + rdlen ≤ d.length)
    (hl : Spec.field d (pos + 8) 2 = some rdlen) (tail : Bytes) :
    RData.parse (d.take (pos + 10 + rdlen) ++ tail) pos = RData.parse d pos := by
  have hlen : pos + 10 + rdlen ≤ (d.take (pos + 10 + rdlen) ++ tail).length := by
    simp; omega
  have hl' : Spec.field (d.take (pos + 10 + rdlen) ++ tail) (pos + 8) 2 = some rdlen := by
    rw [← Framing.field_take (k := pos + 10 + rdlen) (by omega) hlen,
      Framing.take_append_take hk, Framing.field_take (by omega) hk]
    exact hl
  rw [Framing.RData.parse_eq_rdataOn hl' hlen, Framing.RData.parse_eq_rdataOn hl hk,
    Framing.take_append_take hk]

/-- the same for the message cut exactly at the end of the record -/
theorem rdata_local_take {d : Bytes} {pos rdlen : Nat} (hk : pos + 10 + rdlen ≤ d.length)
    (hl : Spec.field d (pos + 8) 2 = some rdlen) :
    RData.parse (d.take (pos + 10 + rdlen)) pos = RData.parse d pos := by
  simpa using rdata_local hk hl []

/-! ### the hypotheses are satisfiable -/

/-- header (ID 0x1234, RD, QDCOUNT=1, ANCOUNT=1), the question `www. A IN`, and the answer
`www. A IN 60 1.2.3.4` whose owner is a pointer to offset 12 -/
def c05Msg : Bytes :=
  [0x12, 0x34, 0x01, 0x00, 0, 1, 0, 1, 0, 0, 0, 0,
   3, 119, 119, 119, 0, 0, 1, 0, 1,
   0xC0, 12, 0, 1, 0, 1, 0, 0, 0, 60, 0, 4, 1, 2, 3, 4]

example : Spec.walk c05Msg = some
    { questions := [{ off := 12, nameEnd := 17, qtype := 1, qclass := 1 }],
      answers := [{ off := 21, nameEnd := 23, type := 1, cls := 1, ttl := 60, rdlen := 4 }],
      nameServers := [], additional := [], stop := 37 } := by decide

/-- the same message cut in the middle of the answer's RDATA: RDLENGTH runs past the end -/
example : Spec.walk (c05Msg.take 35) = none := by decide

example : Packet.parse (c05Msg.take 35) = .err := overrun_err (by decide)

/-- ANCOUNT = 2 with a single answer present: the count runs past the end -/
example : Spec.walk (c05Msg.set 7 2) = none := by decide

example : Packet.parse (c05Msg.set 7 2) = .err := overrun_err (by decide)

/-! the model side of the same message (`nameLoop` is defined by well-founded recursion, so it is
unfolded step by step instead of being evaluated by `decide`) -/

theorem c05Msg_name12 : Name.parse c05Msg 12 = .ok ([[119, 119, 119]], 17) := by
  unfold Name.parse
  rw [nameLoop]; simp [c05Msg]
  rw [nameLoop]; simp

theorem c05Msg_name21 : Name.parse c05Msg 21 = .ok ([[119, 119, 119]], 23) := by
  unfold Name.parse
  rw [nameLoop]; simp [c05Msg]
  rw [nameLoop]; simp
  rw [nameLoop]; simp

theorem c05Msg_question : Question.parse c05Msg 12 =
    .ok ({ name := [[119, 119, 119]], qtype := .TYPE .A, qclass := .CLASS .IN,
           unicast := false }, 21) := by
  unfold Question.parse
  rw [c05Msg_name12]
  decide +kernel

theorem c05Msg_record : RR.parse c05Msg 21 =
    .ok ({ name := [[119, 119, 119]], cls := .IN, ttl := 60,
           rdata := .flat 1 [.int 0x01020304], flush := false }, 37) := by
  unfold RR.parse
  rw [c05Msg_name21]
  decide +kernel

theorem c05Msg_parse : Packet.parse c05Msg = .ok
    { header := { id := 0x1234, opcode := .StandardQuery, rcode := .NoError, flags := 0x0100,
                  opt := none },
      questions := [{ name := [[119, 119, 119]], qtype := .TYPE .A, qclass := .CLASS .IN,
                      unicast := false }],
      answers := [{ name := [[119, 119, 119]], cls := .IN, ttl := 60,
                    rdata := .flat 1 [.int 0x01020304], flush := false }],
      nameServers := [], additional := [] } := by
  have hh : Header.parse c05Msg =
      .ok { id := 0x1234, opcode := .StandardQuery, rcode := .NoError, flags := 0x0100,
            opt := none } := by decide +kernel
  have h1 : Peek.questions c05Msg = .ok 1 := by decide +kernel
  have h2 : Peek.answers c05Msg = .ok 1 := by decide +kernel
  have h3 : Peek.nameServers c05Msg = .ok 0 := by decide +kernel
  have h4 : Peek.additional c05Msg = .ok 0 := by decide +kernel
  unfold Packet.parse
  rw [hh, h1, h2, h3, h4]
  simp only [Out.bind_ok, parseQuestions, parseRRs, c05Msg_question, c05Msg_record, Out.pure_eq,
    liftOpt, Header.extractOpt]

/-- the hypotheses of `cursor_after_question`, `cursor_after_record` and
`parse_respects_framing` hold for `c05Msg` -/
example : ∃ e, Spec.walkQuestion c05Msg 12 = some e ∧ 21 = e.next :=
  let ⟨e, h1, h2, _⟩ := cursor_after_question c05Msg_question; ⟨e, h1, h2⟩

example : ∃ e, Spec.walkRecord c05Msg 21 = some e ∧ 37 = e.next :=
  let ⟨e, h1, h2, _⟩ := cursor_after_record c05Msg_record; ⟨e, h1, h2⟩

example : ∃ w, Spec.walk c05Msg = some w :=
  let ⟨w, h, _⟩ := parse_respects_framing c05Msg_parse; ⟨w, h⟩

/-- `rdata_local` on the answer of `c05Msg` (TYPE field at 23, RDLENGTH 4): whatever follows the
record does not matter -/
example (tail : Bytes) : RData.parse (c05Msg.take 37 ++ tail) 23 = RData.parse c05Msg 23 :=
  rdata_local (pos := 23) (rdlen := 4) (by decide) (by decide) tail

/-! An RDATA whose typed parser consumes less than RDLENGTH: two answers with the root owner
name, the first an A record with RDLENGTH 6 (`A::parse` reads 4 bytes). Both the walker and the
model read the second record at 13 + 10 + 6 = 29, not at 27 where the A parser stopped. -/

def c05Slack : Bytes :=
  [0, 0, 0, 0, 0, 0, 0, 2, 0, 0, 0, 0,
   0, 0, 1, 0, 1, 0, 0, 0, 60, 0, 6, 1, 2, 3, 4, 9, 9,
   0, 0, 1, 0, 1, 0, 0, 0, 60, 0, 4, 5, 6, 7, 8]

example : (Spec.walk c05Slack).map (·.answers) = some
    [{ off := 12, nameEnd := 13, type := 1, cls := 1, ttl := 60, rdlen := 6 },
     { off := 29, nameEnd := 30, type := 1, cls := 1, ttl := 60, rdlen := 4 }] := by decide

theorem c05Slack_name12 : Name.parse c05Slack 12 = .ok ([], 13) := by
  unfold Name.parse
  rw [nameLoop]; simp [c05Slack]

theorem c05Slack_name29 : Name.parse c05Slack 29 = .ok ([], 30) := by
  unfold Name.parse
  rw [nameLoop]; simp [c05Slack]

theorem c05Slack_records : parseRRs c05Slack 2 12 = .ok
    ([{ name := [], cls := .IN, ttl := 60, rdata := .flat 1 [.int 0x01020304], flush := false },
      { name := [], cls := .IN, ttl := 60, rdata := .flat 1 [.int 0x05060708], flush := false }],
     44) := by
  have r1 : RR.parse c05Slack 12 =
      .ok ({ name := [], cls := .IN, ttl := 60, rdata := .flat 1 [.int 0x01020304],
             flush := false }, 29) := by
    unfold RR.parse
    rw [c05Slack_name12]
    decide +kernel
  have r2 : RR.parse c05Slack 29 =
      .ok ({ name := [], cls := .IN, ttl := 60, rdata := .flat 1 [.int 0x05060708],
             flush := false }, 44) := by
    unfold RR.parse
    rw [c05Slack_name29]
    decide +kernel
  simp only [parseRRs, r1, r2, Out.bind_ok, Out.pure_eq]

end Dns
