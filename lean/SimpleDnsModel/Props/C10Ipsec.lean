/-
C10, the two typed variants outside the schema table: IPSECKEY (RFC 4025) and OPT (RFC 6891).

`Props/C10Short.lean` treats short RDLENGTHs for the 38 table-driven types; `Props/C10C06More.lean`
has `opt_record_overrun_rejected` at `RData::parse` level. This file does the same work for the
two hand-modelled parsers `ipseckeyParse` (ipseckey.rs) and `optParse` / `optLoop` (opt.rs), at
four levels: typed parser, `RData::parse`, `ResourceRecord::parse`, `Packet::parse`.

IPSECKEY
 0. `minLenIpseckey` (3 / 7 / 19 / 4 by gateway type 0 / 1 / 2 / 3), `gatewayParse` (the
    `match gateway_type` of `IPSECKEY::parse`, `C10I.ipseckeyParse_eq`), `NameCut`,
    `IpseckeyMalformed` (too short for its gateway type; gateway type 4..255; gateway name cut
    by the window).
 1. typed parser, any buffer: `ipseckey_typed_short_rejected`,
    `ipseckey_typed_bad_gateway_type_rejected`, `ipseckey_typed_name_err` / `_name_ok` /
    `_name_cut_rejected`, `name_cut_is_error`, `nameCut_of_labels`.
 2. window form (`hdr ++ w`): `ipseckey_window_rejected`; accepted windows
    `ipseckey_window_none` / `_v4` / `_v6` / `_domain` (any public key), `ipseckey_window_exact`
    (exactly `minLenIpseckey` octets: empty key), `ipseckey_window_four_domain`,
    `ipseckey_window_ok_iff` (types 0, 1, 2: accepted iff at least `minLenIpseckey` octets).
 3. `RData::parse`: `ipseckey_record_rejected`, `ipseckey_rdata_rejected_at`,
    `ipseckey_rdata_short_rejected_at`, `ipseckey_rdata_bad_gateway_type_rejected_at`,
    `ipseckey_empty_rdata_accepted` (RDLENGTH 0 is `RData::Empty`, NOT an error),
    `ipseckey_record_none` / `_v4` / `_v6` / `_domain`.
 4. `ResourceRecord::parse`, `Packet::parse`: `ipseckey_rr_rejected`, `ipseckey_rr_rejected_at`,
    `ipseckey_packet_rejected`, `ipseckey_short_packet_rejected`,
    `ipseckey_bad_gateway_type_packet_rejected`, `ipseckey_rr_of_window`.

OPT
 1. `optLoop_empty_window`, `optParse_empty_window`, `opt_record_empty`, `opt_rr_empty`: an empty
    window is the empty option list.
 2. exact characterisation: `optLoop_ok_iff` / `optLoop_err_iff`, `optParse_ok_iff` /
    `optParse_err_iff`, `opt_rdata_ok_iff_at` / `opt_rdata_err_iff_at`, `opt_record_ok_iff` /
    `opt_record_err_iff`: accepted iff the window is a concatenation of well-formed
    (code, length, data) triples; otherwise `Err`.
 3. `OptFragment`, `opt_option_overrun_rejected`, `opt_option_head_overrun_rejected`,
    `opt_rr_overrun_rejected`, `opt_rr_rejected_at`, `opt_packet_rejected`,
    `opt_packet_overrun_rejected`.

Concrete records at the end. Auxiliary lemmas are in the namespace `Dns.C10I`.
-/
import SimpleDnsModel.Props.C10Short
namespace Dns

/-! ## 0. definitions -/

/-- the least RDATA length of an IPSECKEY record (RFC 4025 section 2.1) by gateway type: the three
fixed octets (precedence, gateway type, algorithm), then no gateway (0), four octets (1, IPv4),
sixteen octets (2, IPv6) or a domain name of at least one octet (3, the root name); the public key
may be empty. Gateway types 4..255 are not defined: only the three fixed octets are looked at. -/
def minLenIpseckey (gatewayType : Nat) : Nat :=
  match gatewayType with
  | 0 => 3
  | 1 => 7
  | 2 => 19
  | 3 => 4
  | _ => 3

/-- the gateway reader of `IPSECKEY::parse` (the `match gateway_type` of ipseckey.rs:63-92) -/
def gatewayParse (d : Bytes) (pos : Nat) (gt : Nat) : Out (Gateway × Nat) :=
  match gt with
  | 0 => .ok (Gateway.none, pos)
  | 1 => if d.length < pos + 4 then .err else do
      let s ← slice d pos (pos + 4)
      pure (Gateway.v4 (deN s), pos + 4)
  | 2 => if d.length < pos + 16 then .err else do
      let s ← slice d pos (pos + 16)
      pure (Gateway.v6 (deN s), pos + 16)
  | 3 => do
      let (n, p) ← Name.parse d pos
      pure (Gateway.domain n, p)
  | _ => .err

namespace C10I

/-- `IPSECKEY::parse` with the gateway reader named -/
theorem ipseckeyParse_eq (d : Bytes) (pos : Nat) :
    ipseckeyParse d pos =
      (if pos + 3 > d.length then .err else do
        let prec ← idx d pos
        let gt ← idx d (pos + 1)
        let alg ← idx d (pos + 2)
        let (gw, p) ← gatewayParse d (pos + 3) gt.toNat
        let key ← slice d p d.length
        pure (.ipseckey prec.toNat alg.toNat gw key, d.length)) := by
  rfl

/-- the typed parser of IPSECKEY is `IPSECKEY::parse` -/
theorem parseTyped_ipseckey (d : Bytes) (pos : Nat) :
    parseTyped d pos .IPSECKEY = ipseckeyParse d pos := rfl

/-- once the three fixed octets are there, the verdict is that of the gateway reader: the public
key is whatever is left of the window -/
theorem ipseckeyParse_of_head {d : Bytes} {pos : Nat} {pr g al : UInt8} (h0 : d[pos]? = some pr)
    (h1 : d[pos + 1]? = some g) (h2 : d[pos + 2]? = some al) :
    ipseckeyParse d pos = (do
      let (gw, p) ← gatewayParse d (pos + 3) g.toNat
      let key ← slice d p d.length
      pure (.ipseckey pr.toNat al.toNat gw key, d.length)) := by
  have := Framing.lt_of_getElem?_some h2
  rw [ipseckeyParse_eq, if_neg (by omega)]
  simp [idx, h0, h1, h2]

/-- the window is long enough for the three fixed octets: they can be named -/
theorem head_exists {d : Bytes} {pos : Nat} (h : pos + 3 ≤ d.length) :
    ∃ pr g al, d[pos]? = some pr ∧ d[pos + 1]? = some g ∧ d[pos + 2]? = some al :=
  ⟨d[pos], d[pos + 1], d[pos + 2], by simp, by simp, by simp⟩

theorem gatewayParse_v4_short {d : Bytes} {p : Nat} (h : d.length < p + 4) :
    gatewayParse d p 1 = .err := by
  simp [gatewayParse, h]

theorem gatewayParse_v6_short {d : Bytes} {p : Nat} (h : d.length < p + 16) :
    gatewayParse d p 2 = .err := by
  simp [gatewayParse, h]

theorem gatewayParse_v4_ok {d : Bytes} {p : Nat} (h : p + 4 ≤ d.length) :
    gatewayParse d p 1 = .ok (.v4 (deN ((d.drop p).take 4)), p + 4) := by
  simp only [gatewayParse]
  rw [if_neg (by omega), slice_ok (by omega) h]
  simp

theorem gatewayParse_v6_ok {d : Bytes} {p : Nat} (h : p + 16 ≤ d.length) :
    gatewayParse d p 2 = .ok (.v6 (deN ((d.drop p).take 16)), p + 16) := by
  simp only [gatewayParse]
  rw [if_neg (by omega), slice_ok (by omega) h]
  simp

theorem gatewayParse_bad {d : Bytes} {p g : Nat} (h : 4 ≤ g) : gatewayParse d p g = .err := by
  unfold gatewayParse
  split <;> first | omega | rfl

/-- `&data[*position..]` -/
theorem slice_to_end {d : Bytes} {p : Nat} (h : p ≤ d.length) :
    slice d p d.length = .ok (d.drop p) := by
  rw [slice_ok h (Nat.le_refl _), List.take_of_length_le (by simp)]

end C10I

/-! ## 1. the typed parser, any buffer: the window is `[pos, d.length)` -/

/-- C10-ipseckey-1 (typed parser, short window). The window does not hold the three fixed octets,
or it holds them and is shorter than the gateway type `g` read from its second octet needs
(`minLenIpseckey`): `IPSECKEY::parse` returns `Err` - it does not index or slice past the window
(no panic) and does not invent a gateway (no `Ok`). -/
theorem ipseckey_typed_short_rejected {d : Bytes} {pos : Nat}
    (h : d.length < pos + 3 ∨ ∃ g : UInt8, d[pos + 1]? = some g ∧
      d.length < pos + minLenIpseckey g.toNat) :
    parseTyped d pos .IPSECKEY = .err := by
  rw [C10I.parseTyped_ipseckey]
  by_cases h3 : d.length < pos + 3
  · rw [C10I.ipseckeyParse_eq, if_pos (by omega)]
  · rcases h with h | ⟨g, hg, hs⟩
    · exact absurd h h3
    · obtain ⟨pr, g', al, h0, h1, h2⟩ := C10I.head_exists (d := d) (pos := pos) (by omega)
      rw [hg] at h1
      cases h1
      rw [C10I.ipseckeyParse_of_head h0 hg h2]
      obtain hc | hc | hc | hc | hc :
          g.toNat = 0 ∨ g.toNat = 1 ∨ g.toNat = 2 ∨ g.toNat = 3 ∨ 4 ≤ g.toNat := by omega
      · rw [hc] at hs; simp [minLenIpseckey] at hs; omega
      · rw [hc] at hs ⊢
        rw [C10I.gatewayParse_v4_short (by simp [minLenIpseckey] at hs; omega)]; rfl
      · rw [hc] at hs ⊢
        rw [C10I.gatewayParse_v6_short (by simp [minLenIpseckey] at hs; omega)]; rfl
      · rw [hc] at hs ⊢
        simp only [gatewayParse]
        rw [name_truncated_is_error d (pos + 3) (by simp [minLenIpseckey] at hs; omega)]; rfl
      · rw [C10I.gatewayParse_bad hc]; rfl

/-- C10-ipseckey-2 (typed parser, RFC 4025 section 2.3). A gateway type octet of 4..255 makes
`IPSECKEY::parse` return `Err`, whatever the window holds after it and however long it is. -/
theorem ipseckey_typed_bad_gateway_type_rejected {d : Bytes} {pos : Nat} {g : UInt8}
    (hg : d[pos + 1]? = some g) (h4 : 4 ≤ g.toNat) : parseTyped d pos .IPSECKEY = .err := by
  by_cases h3 : d.length < pos + 3
  · exact ipseckey_typed_short_rejected (Or.inl h3)
  · obtain ⟨pr, g', al, h0, h1, h2⟩ := C10I.head_exists (d := d) (pos := pos) (by omega)
    rw [C10I.parseTyped_ipseckey, C10I.ipseckeyParse_of_head h0 hg h2, C10I.gatewayParse_bad h4]
    rfl

/-- the in-place part of the name at `off` (RFC 1035 section 4.1.4: labels up to the root octet or
the first pointer) does not end inside the buffer: the name runs past its end -/
def NameCut (d : Bytes) (off : Nat) : Prop := ¬ ∃ e, InPlaceEnd d off e ∧ e ≤ d.length

/-- a name that runs past the end of the buffer is `Err` for `Name::parse` (never a panic, never a
name made of what is there) -/
theorem name_cut_is_error {d : Bytes} {off : Nat} (h : NameCut d off) : Name.parse d off = .err := by
  cases hp : Name.parse d off with
  | err => rfl
  | panic => exact absurd hp (Name.parse_ne_panic d off)
  | ok x =>
    obtain ⟨n, p⟩ := x
    exact absurd ⟨p, Name.parse_cursor hp, (Name.parse_pos_le hp).2⟩ h

/-- C10-ipseckey-3 (typed parser, gateway type 3). The verdict is that of `Name::parse` on the
window: an `Err` of the name reader is an `Err` of the record ... -/
theorem ipseckey_typed_name_err {d : Bytes} {pos : Nat} {g : UInt8} (hg : d[pos + 1]? = some g)
    (h3 : g.toNat = 3) (hn : Name.parse d (pos + 3) = .err) : parseTyped d pos .IPSECKEY = .err := by
  by_cases hl : d.length < pos + 3
  · exact ipseckey_typed_short_rejected (Or.inl hl)
  · obtain ⟨pr, g', al, h0, h1, h2⟩ := C10I.head_exists (d := d) (pos := pos) (by omega)
    rw [C10I.parseTyped_ipseckey, C10I.ipseckeyParse_of_head h0 hg h2, h3]
    simp only [gatewayParse, hn]
    rfl

/-- ... and a name that is read makes the record: gateway = that name, public key = the octets
from the in-place end of the name to the end of the window (none, one or many). -/
theorem ipseckey_typed_name_ok {d : Bytes} {pos : Nat} {pr g al : UInt8} {n : Name} {p : Nat}
    (h0 : d[pos]? = some pr) (hg : d[pos + 1]? = some g) (h2 : d[pos + 2]? = some al)
    (h3 : g.toNat = 3) (hn : Name.parse d (pos + 3) = .ok (n, p)) :
    parseTyped d pos .IPSECKEY
      = .ok (.ipseckey pr.toNat al.toNat (.domain n) (d.drop p), d.length) := by
  rw [C10I.parseTyped_ipseckey, C10I.ipseckeyParse_of_head h0 hg h2, h3]
  simp only [gatewayParse, hn, Out.bind_ok, Out.pure_eq]
  rw [C10I.slice_to_end (Name.parse_pos_le hn).2]
  rfl

/-- C10-ipseckey-3. A gateway name (type 3) that runs past the RDLENGTH window - no root octet
and no pointer before the end, a label cut by the end, a pointer whose second octet is outside -
makes `IPSECKEY::parse` return `Err`: `Name::parse` is given the message cut at the end of the
RDATA (`&data[..rdata_end]`, macros.rs) and cannot borrow octets of what follows the record. -/
theorem ipseckey_typed_name_cut_rejected {d : Bytes} {pos : Nat} {g : UInt8}
    (hg : d[pos + 1]? = some g) (h3 : g.toNat = 3) (hc : NameCut d (pos + 3)) :
    parseTyped d pos .IPSECKEY = .err :=
  ipseckey_typed_name_err hg h3 (name_cut_is_error hc)

namespace C10I

/-- the in-place end of a name only depends on the octets from its start on -/
theorem inPlaceEnd_unshift {hdr w : Bytes} {k e : Nat}
    (h : InPlaceEnd (hdr ++ w) (hdr.length + k) e) :
    ∃ e', e = hdr.length + e' ∧ InPlaceEnd w k e' := by
  generalize hoff : hdr.length + k = off at h
  induction h generalizing k with
  | @root off h0 =>
    subst hoff
    rw [List.getElem?_append_right (by omega)] at h0
    exact ⟨k + 1, by omega, InPlaceEnd.root (by simpa using h0)⟩
  | @label off e b hb h1 h63 _ ih =>
    subst hoff
    rw [List.getElem?_append_right (by omega)] at hb
    obtain ⟨e', he, hi⟩ := ih (k := k + 1 + b.toNat) (by omega)
    exact ⟨e', he, InPlaceEnd.label (by simpa using hb) h1 h63 hi⟩
  | @ptr off b hb hp =>
    subst hoff
    rw [List.getElem?_append_right (by omega)] at hb
    exact ⟨k + 2, by omega, InPlaceEnd.ptr (by simpa using hb) hp⟩

/-- a name cut by the end of the window is cut wherever the window stands in a message -/
theorem nameCut_shift {w : Bytes} {k : Nat} (h : NameCut w k) (hdr : Bytes) :
    NameCut (hdr ++ w) (hdr.length + k) := by
  rintro ⟨e, he, hle⟩
  obtain ⟨e', rfl, he'⟩ := inPlaceEnd_unshift he
  exact h ⟨e', he', by simp at hle; omega⟩

theorem getElem?_window (hdr w : Bytes) (k : Nat) : (hdr ++ w)[hdr.length + k]? = w[k]? := by
  rw [List.getElem?_append_right (by omega)]
  simp

end C10I

/-! ## 2. the RDATA window `w`, wherever it stands (`hdr ++ w`, cursor at `hdr.length`) -/

/-- the layout faults for which `IPSECKEY::parse` rejects the RDATA `w`: fewer than the three
fixed octets; a gateway type of 4..255; fewer octets than the gateway type needs; a gateway name
(type 3) that runs past the end of the RDATA -/
def IpseckeyMalformed (w : Bytes) : Prop :=
  w.length < 3 ∨ ∃ g : UInt8, w[1]? = some g ∧
    (4 ≤ g.toNat ∨ w.length < minLenIpseckey g.toNat ∨ (g.toNat = 3 ∧ NameCut w 3))

/-- C10-ipseckey (typed parser, window form). A malformed IPSECKEY RDATA is `Err` whatever
precedes it in the (cut) message. -/
theorem ipseckey_window_rejected {w : Bytes} (h : IpseckeyMalformed w) (hdr : Bytes) :
    parseTyped (hdr ++ w) hdr.length .IPSECKEY = .err := by
  rcases h with h | ⟨g, hg, h | h | ⟨h3, hc⟩⟩
  · exact ipseckey_typed_short_rejected (Or.inl (by simp; omega))
  · exact ipseckey_typed_bad_gateway_type_rejected (g := g)
      (by rw [C10I.getElem?_window]; exact hg) h
  · exact ipseckey_typed_short_rejected (Or.inr ⟨g, by rw [C10I.getElem?_window]; exact hg,
      by simp; omega⟩)
  · exact ipseckey_typed_name_cut_rejected (g := g) (by rw [C10I.getElem?_window]; exact hg) h3
      (C10I.nameCut_shift hc hdr)

/-! ### shapes of a gateway name that runs past the window -/

/-- whole labels, each preceded by its length octet, without the terminating root octet -/
def rawLabels : List Label → Bytes
  | [] => []
  | l :: ls => UInt8.ofNat l.length :: (l ++ rawLabels ls)

/-- what stands at the end of a window in place of the rest of a name: nothing (the root octet
is missing), a label with fewer octets than its length octet announces, or the first octet of a
compression pointer alone -/
def NameFragment (frag : Bytes) : Prop :=
  frag = [] ∨
  (∃ (b : UInt8) (part : Bytes), frag = b :: part ∧ 1 ≤ b.toNat ∧ b.toNat ≤ 63 ∧
    part.length < b.toNat) ∨
  (∃ b : UInt8, frag = [b] ∧ b.toNat &&& 0xC0 = 0xC0)

namespace C10I

theorem inPlaceEnd_inv {d : Bytes} {off e : Nat} (h : InPlaceEnd d off e) :
    ∃ b : UInt8, d[off]? = some b ∧
      ((b = 0 ∧ e = off + 1) ∨
       (1 ≤ b.toNat ∧ b.toNat ≤ 63 ∧ InPlaceEnd d (off + 1 + b.toNat) e) ∨
       (b.toNat &&& 0xC0 = 0xC0 ∧ e = off + 2)) := by
  cases h with
  | root h0 => exact ⟨0, h0, Or.inl ⟨rfl, rfl⟩⟩
  | label hb h1 h63 hi => exact ⟨_, hb, Or.inr (Or.inl ⟨h1, h63, hi⟩)⟩
  | ptr hb hp => exact ⟨_, hb, Or.inr (Or.inr ⟨hp, rfl⟩)⟩

theorem inPlaceEnd_start_lt {d : Bytes} {off e : Nat} (h : InPlaceEnd d off e) : off < d.length := by
  obtain ⟨b, hb, _⟩ := inPlaceEnd_inv h
  exact Framing.lt_of_getElem?_some hb

theorem nameCut_fragment (pre frag : Bytes) (hf : NameFragment frag) :
    NameCut (pre ++ frag) pre.length := by
  rintro ⟨e, he, hle⟩
  obtain ⟨b', hb', hcase⟩ := inPlaceEnd_inv he
  rcases hf with rfl | ⟨b, part, rfl, h1, h63, hcut⟩ | ⟨b, rfl, hp⟩
  · have := Framing.lt_of_getElem?_some hb'
    simp at this
  · have hb : (pre ++ b :: part)[pre.length]? = some b := by simp
    rw [hb] at hb'
    cases hb'
    rcases hcase with ⟨h0, _⟩ | ⟨_, _, hi⟩ | ⟨hp, _⟩
    · subst h0; simp at h1
    · have := inPlaceEnd_start_lt hi
      simp at this; omega
    · exact absurd hp (not_ptr_of_le63 h63)
  · have hb : (pre ++ [b])[pre.length]? = some b := by simp
    rw [hb] at hb'
    cases hb'
    rcases hcase with ⟨h0, _⟩ | ⟨_, h63, _⟩ | ⟨_, he2⟩
    · subst h0; simp at hp
    · exact absurd hp (not_ptr_of_le63 h63)
    · subst he2; simp at hle

end C10I

/-- any number of whole labels followed by a fragment instead of the rest of the name: the name
runs past the end of the buffer -/
theorem nameCut_of_labels (ls : List Label) (hl : ∀ l ∈ ls, 1 ≤ l.length ∧ l.length ≤ 63)
    (frag : Bytes) (hf : NameFragment frag) :
    ∀ pre : Bytes, NameCut (pre ++ (rawLabels ls ++ frag)) pre.length := by
  induction ls with
  | nil => intro pre; simpa [rawLabels] using C10I.nameCut_fragment pre frag hf
  | cons l ls ih =>
    intro pre
    obtain ⟨hl1, hl63⟩ := hl l (by simp)
    have hlen : (UInt8.ofNat l.length).toNat = l.length := by
      simp [UInt8.toNat_ofNat']; omega
    have ih' := ih (fun x hx => hl x (by simp [hx])) (pre ++ UInt8.ofNat l.length :: l)
    have e1 : pre ++ (rawLabels (l :: ls) ++ frag)
        = (pre ++ UInt8.ofNat l.length :: l) ++ (rawLabels ls ++ frag) := by simp [rawLabels]
    rw [e1]
    rintro ⟨e, he, hle⟩
    obtain ⟨b', hb', hcase⟩ := C10I.inPlaceEnd_inv he
    have hb : ((pre ++ UInt8.ofNat l.length :: l) ++ (rawLabels ls ++ frag))[pre.length]?
        = some (UInt8.ofNat l.length) := by simp
    rw [hb] at hb'
    cases hb'
    rcases hcase with ⟨h0, _⟩ | ⟨_, _, hi⟩ | ⟨hp, _⟩
    · rw [h0] at hlen; simp at hlen; omega
    · rw [hlen] at hi
      apply ih'
      refine ⟨e, ?_, hle⟩
      rw [show (pre ++ UInt8.ofNat l.length :: l).length = pre.length + 1 + l.length by
        simp; omega]
      exact hi
    · rw [hlen] at hp
      exact absurd hp (not_ptr_of_le63 hl63)

/-- IPSECKEY RDATA `precedence 3 algorithm`, whole labels, then a fragment: malformed -/
theorem ipseckey_cut_name_malformed (pr al : UInt8) (ls : List Label)
    (hl : ∀ l ∈ ls, 1 ≤ l.length ∧ l.length ≤ 63) (frag : Bytes) (hf : NameFragment frag) :
    IpseckeyMalformed (pr :: 3 :: al :: (rawLabels ls ++ frag)) := by
  refine Or.inr ⟨3, rfl, Or.inr (Or.inr ⟨rfl, ?_⟩)⟩
  exact nameCut_of_labels ls hl frag hf [pr, 3, al]

/-! ### windows that are accepted -/

namespace C10I

/-- the typed parser on a window that holds the three fixed octets -/
theorem typed_window (hdr : Bytes) (pr g al : UInt8) (rest : Bytes) :
    parseTyped (hdr ++ pr :: g :: al :: rest) hdr.length .IPSECKEY = (do
      let (gw, p) ← gatewayParse (hdr ++ pr :: g :: al :: rest) (hdr.length + 3) g.toNat
      let key ← slice (hdr ++ pr :: g :: al :: rest) p (hdr ++ pr :: g :: al :: rest).length
      pure (.ipseckey pr.toNat al.toNat gw key, (hdr ++ pr :: g :: al :: rest).length)) := by
  rw [parseTyped_ipseckey]
  exact ipseckeyParse_of_head (by simp) (by rw [getElem?_window]; rfl)
    (by rw [getElem?_window]; rfl)

end C10I

/-- C10-ipseckey-4 (gateway type 0). Three octets `precedence 0 algorithm` are a whole IPSECKEY
RDATA with an empty public key; whatever follows them in the window is the public key. -/
theorem ipseckey_window_none (hdr : Bytes) (pr al : UInt8) (key : Bytes) :
    parseTyped (hdr ++ pr :: 0 :: al :: key) hdr.length .IPSECKEY
      = .ok (.ipseckey pr.toNat al.toNat .none key, hdr.length + 3 + key.length) := by
  rw [C10I.typed_window]
  have h0 : (0 : UInt8).toNat = 0 := rfl
  simp only [h0, gatewayParse, Out.bind_ok]
  rw [Rfc.slice_at (a := hdr ++ [pr, 0, al]) (m := key) (z := []) (by simp) (by simp)
    (by simp; omega)]
  simp; omega

/-- C10-ipseckey-4 (gateway type 1). `precedence 1 algorithm` and four address octets are a whole
RDATA with an empty public key; the gateway is the big-endian value of the four octets. -/
theorem ipseckey_window_v4 (hdr : Bytes) (pr al : UInt8) (a key : Bytes) (ha : a.length = 4) :
    parseTyped (hdr ++ pr :: 1 :: al :: (a ++ key)) hdr.length .IPSECKEY
      = .ok (.ipseckey pr.toNat al.toNat (.v4 (deN a)) key, hdr.length + 7 + key.length) := by
  rw [C10I.typed_window]
  have h1 : (1 : UInt8).toNat = 1 := rfl
  have hd : ((hdr ++ pr :: 1 :: al :: (a ++ key)).drop (hdr.length + 3)).take 4 = a := by
    rw [show hdr ++ pr :: 1 :: al :: (a ++ key) = (hdr ++ [pr, 1, al]) ++ (a ++ key) by simp,
      List.drop_left' (by simp), List.take_left' ha]
  rw [h1, C10I.gatewayParse_v4_ok (by simp; omega), hd]
  simp only [Out.bind_ok]
  rw [Rfc.slice_at (a := hdr ++ pr :: 1 :: al :: a) (m := key) (z := []) (by simp)
    (by simp; omega) (by simp; omega)]
  simp; omega

/-- C10-ipseckey-4 (gateway type 2). `precedence 2 algorithm` and sixteen address octets are a
whole RDATA with an empty public key. -/
theorem ipseckey_window_v6 (hdr : Bytes) (pr al : UInt8) (a key : Bytes) (ha : a.length = 16) :
    parseTyped (hdr ++ pr :: 2 :: al :: (a ++ key)) hdr.length .IPSECKEY
      = .ok (.ipseckey pr.toNat al.toNat (.v6 (deN a)) key, hdr.length + 19 + key.length) := by
  rw [C10I.typed_window]
  have h2 : (2 : UInt8).toNat = 2 := rfl
  have hd : ((hdr ++ pr :: 2 :: al :: (a ++ key)).drop (hdr.length + 3)).take 16 = a := by
    rw [show hdr ++ pr :: 2 :: al :: (a ++ key) = (hdr ++ [pr, 2, al]) ++ (a ++ key) by simp,
      List.drop_left' (by simp), List.take_left' ha]
  rw [h2, C10I.gatewayParse_v6_ok (by simp; omega), hd]
  simp only [Out.bind_ok]
  rw [Rfc.slice_at (a := hdr ++ pr :: 2 :: al :: a) (m := key) (z := []) (by simp)
    (by simp; omega) (by simp; omega)]
  simp; omega

/-- C10-ipseckey-4 (gateway type 3). `precedence 3 algorithm` and a name written in full (the
root name: one zero octet, four octets in all) are a whole RDATA with an empty public key. -/
theorem ipseckey_window_domain (hdr : Bytes) (pr al : UInt8) (n : Name) (hn : Name.WF n)
    (key : Bytes) :
    parseTyped (hdr ++ pr :: 3 :: al :: (Name.write n ++ key)) hdr.length .IPSECKEY
      = .ok (.ipseckey pr.toNat al.toNat (.domain n) key,
          hdr.length + 3 + Name.wireLen n + key.length) := by
  have hp := Name.parse_write hn (hdr ++ [pr, 3, al]) key
  have e : (hdr ++ [pr, 3, al]) ++ (Name.write n ++ key)
      = hdr ++ pr :: 3 :: al :: (Name.write n ++ key) := by simp
  have hl : (hdr ++ [pr, 3, al]).length = hdr.length + 3 := by simp
  rw [e, hl] at hp
  rw [ipseckey_typed_name_ok (pr := pr) (g := 3) (al := al) (by simp)
    (by rw [C10I.getElem?_window]; rfl) (by rw [C10I.getElem?_window]; rfl) rfl hp]
  have hdrop : (hdr ++ pr :: 3 :: al :: (Name.write n ++ key)).drop
      (hdr.length + 3 + Name.wireLen n) = key := by
    rw [show hdr ++ pr :: 3 :: al :: (Name.write n ++ key)
      = ((hdr ++ [pr, 3, al]) ++ Name.write n) ++ key by simp]
    exact List.drop_left' (by simp [Name.write_length]; omega)
  rw [hdrop]
  simp [Name.write_length]; omega

/-- C10-ipseckey-4 (exact length). For each gateway type, a window of exactly `minLenIpseckey`
octets (type 3: the root name as gateway) is accepted with an EMPTY public key, all of the window
consumed: with `ipseckey_typed_short_rejected`, `minLenIpseckey` is the least RDATA length. -/
theorem ipseckey_window_exact (hdr : Bytes) (pr al : UInt8) (a4 a16 : Bytes) (h4 : a4.length = 4)
    (h16 : a16.length = 16) :
    parseTyped (hdr ++ [pr, 0, al]) hdr.length .IPSECKEY
      = .ok (.ipseckey pr.toNat al.toNat .none [], hdr.length + minLenIpseckey 0) ∧
    parseTyped (hdr ++ pr :: 1 :: al :: a4) hdr.length .IPSECKEY
      = .ok (.ipseckey pr.toNat al.toNat (.v4 (deN a4)) [], hdr.length + minLenIpseckey 1) ∧
    parseTyped (hdr ++ pr :: 2 :: al :: a16) hdr.length .IPSECKEY
      = .ok (.ipseckey pr.toNat al.toNat (.v6 (deN a16)) [], hdr.length + minLenIpseckey 2) ∧
    parseTyped (hdr ++ [pr, 3, al, 0]) hdr.length .IPSECKEY
      = .ok (.ipseckey pr.toNat al.toNat (.domain []) [], hdr.length + minLenIpseckey 3) := by
  refine ⟨ipseckey_window_none hdr pr al [], ?_, ?_, ?_⟩
  · simpa [minLenIpseckey] using ipseckey_window_v4 hdr pr al a4 [] h4
  · simpa [minLenIpseckey] using ipseckey_window_v6 hdr pr al a16 [] h16
  · exact ipseckey_window_domain hdr pr al [] (by decide) []

/-- every gateway type needs the three fixed octets -/
theorem minLenIpseckey_ge (g : Nat) : 3 ≤ minLenIpseckey g := by
  unfold minLenIpseckey
  split <;> omega

/-- C10-ipseckey-4 (gateway type 3, a window of exactly four octets). It is accepted exactly when
its last octet is the root name; a length octet, a pointer octet or a reserved octet there would
need octets beyond the window. -/
theorem ipseckey_window_four_domain (hdr : Bytes) (pr al b : UInt8) :
    parseTyped (hdr ++ [pr, 3, al, b]) hdr.length .IPSECKEY
      = if b = 0 then .ok (.ipseckey pr.toNat al.toNat (.domain []) [], hdr.length + 4)
        else .err := by
  by_cases hb : b = 0
  · subst hb
    rw [if_pos rfl]
    exact ipseckey_window_domain hdr pr al [] (by decide) []
  · rw [if_neg hb]
    apply ipseckey_window_rejected
    refine Or.inr ⟨3, rfl, Or.inr (Or.inr ⟨rfl, ?_⟩)⟩
    rintro ⟨e, he, hle⟩
    obtain ⟨b', hb', hcase⟩ := C10I.inPlaceEnd_inv he
    have : ([pr, 3, al, b] : Bytes)[3]? = some b := rfl
    rw [this] at hb'
    cases hb'
    rcases hcase with ⟨h0, _⟩ | ⟨_, _, hi⟩ | ⟨_, he2⟩
    · exact hb h0
    · have := C10I.inPlaceEnd_start_lt hi
      simp at this; omega
    · subst he2; simp at hle

/-- C10-ipseckey (gateway types 0, 1, 2: exact characterisation). An RDATA whose gateway type
octet is 0, 1 or 2 is accepted if and only if it has at least `minLenIpseckey` octets (3, 7, 19);
nothing else about its content matters. -/
theorem ipseckey_window_ok_iff (hdr w : Bytes) (g : UInt8) (hg : w[1]? = some g)
    (hg2 : g.toNat ≤ 2) :
    (∃ v q, parseTyped (hdr ++ w) hdr.length .IPSECKEY = .ok (v, q))
      ↔ minLenIpseckey g.toNat ≤ w.length := by
  constructor
  · rintro ⟨v, q, h⟩
    refine Decidable.byContradiction fun hs => ?_
    rw [ipseckey_window_rejected (Or.inr ⟨g, hg, Or.inr (Or.inl (by omega))⟩) hdr] at h
    cases h
  · intro hlen
    have h3 := minLenIpseckey_ge g.toNat
    match w, hg, hlen with
    | pr :: g' :: al :: rest, hg, hlen =>
      have hgg : g' = g := by simpa using hg
      subst hgg
      obtain hc | hc | hc : g'.toNat = 0 ∨ g'.toNat = 1 ∨ g'.toNat = 2 := by omega
      · have : g' = 0 := UInt8.toNat_inj.mp hc
        subst this
        exact ⟨_, _, ipseckey_window_none hdr pr al rest⟩
      · have : g' = 1 := UInt8.toNat_inj.mp hc
        subst this
        have hl : 4 ≤ rest.length := by simpa [minLenIpseckey] using hlen
        have := ipseckey_window_v4 hdr pr al (rest.take 4) (rest.drop 4) (by simp; omega)
        rw [List.take_append_drop] at this
        exact ⟨_, _, this⟩
      · have : g' = 2 := UInt8.toNat_inj.mp hc
        subst this
        have hl : 16 ≤ rest.length := by simpa [minLenIpseckey] using hlen
        have := ipseckey_window_v6 hdr pr al (rest.take 16) (rest.drop 16) (by simp; omega)
        rw [List.take_append_drop] at this
        exact ⟨_, _, this⟩
    | [], hg, _ => simp at hg
    | [_], hg, _ => simp at hg
    | [_, _], _, hlen => simp at hlen; omega

/-! ## 3. `RData::parse`: the record body in a message -/

namespace C10I

/-- `RData::parse` on any buffer, for every type but OPT and a non-empty RDATA: the typed parser
is run on the message cut at the end of the RDLENGTH window - the ten fixed octets and all that
precedes them, then the window `(d.drop (pos + 10)).take rdlen` - and the cursor returned is the
end of the window. -/
theorem rdata_at_eq {code : Nat} (hnopt : TYPE.ofCode code ≠ .OPT) {d : Bytes} {pos rdlen : Nat}
    (ht : Spec.field d pos 2 = some code) (hl : Spec.field d (pos + 8) 2 = some rdlen)
    (hk : pos + 10 + rdlen ≤ d.length) (h0 : 0 < rdlen) :
    RData.parse d pos = (do
      let (rd, _) ← parseTyped (d.take (pos + 10) ++ (d.drop (pos + 10)).take rdlen)
        (d.take (pos + 10)).length (TYPE.ofCode code)
      pure (rd, pos + 10 + rdlen)) := by
  have ht' : deN (((d.take (pos + 10 + rdlen)).drop pos).take 2) = code := by
    rw [Framing.take_drop_take (by omega)]
    rw [Framing.field_eq (by omega)] at ht
    exact Option.some.inj ht
  rw [Framing.RData.parse_eq_rdataOn hl hk]
  unfold Framing.rdataOn
  simp only [ht']
  rw [if_neg hnopt, if_neg (by omega), List.take_add,
    show (d.take (pos + 10)).length = pos + 10 by rw [List.length_take]; omega]

/-- the window of a record given by its parts is its RDATA -/
theorem recBody_window (pre cb tb rd post : Bytes) (code : Nat) (hcb : cb.length = 2)
    (htb : tb.length = 4) :
    ((pre ++ (recBody code cb tb rd ++ post)).drop (pre.length + 10)).take rd.length = rd := by
  have e : pre ++ (recBody code cb tb rd ++ post)
      = (pre ++ (Spec.octetsOf 2 code ++ (cb ++ (tb ++ Spec.octetsOf 2 rd.length)))) ++ (rd ++ post) := by
    simp [recBody]
  rw [e, List.drop_left' (by simp [← Rfc.beN_eq_octetsOf, hcb, htb])]
  simp

end C10I

/-- C10-ipseckey (`RData::parse`, a record given by its parts). A record body TYPE = 45, CLASS,
TTL, RDLENGTH = |`w`| with a malformed, non-empty RDATA `w` (`IpseckeyMalformed`: too short for
its gateway type, gateway type 4..255, gateway name cut by the window) is `Err` in any message
`pre ++ record ++ post`, WHATEVER `post` holds - in particular when `post` begins with the octets
that are missing. -/
theorem ipseckey_record_rejected (pre cb tb w post : Bytes) (hcb : cb.length = 2)
    (htb : tb.length = 4) (hw : w ≠ []) (hlen : w.length < 65536) (h : IpseckeyMalformed w) :
    RData.parse (pre ++ (recBody 45 cb tb w ++ post)) pre.length = .err :=
  record_rejected_of_rdata_rejected pre cb tb w post 45 hcb htb (by decide) (by decide) hw hlen
    (fun hdr => ipseckey_window_rejected h hdr)

/-- RDLENGTH 0 is NOT a short IPSECKEY record: `RData::parse` returns `RData::Empty(IPSECKEY)`
without calling `IPSECKEY::parse` (the `rdatalen == 0` shortcut of macros.rs; instance of
`empty_rdata_shortcut`). This is why the theorems of this section ask for a non-empty RDATA. -/
theorem ipseckey_empty_rdata_accepted {d : Bytes} {pos : Nat}
    (ht : Spec.field d pos 2 = some 45) (hl : Spec.field d (pos + 8) 2 = some 0)
    (hk : pos + 10 ≤ d.length) : RData.parse d pos = .ok (.empty .IPSECKEY, pos + 10) :=
  empty_rdata_shortcut (code := 45) (by decide) ht hl hk

/-- C10-ipseckey (`RData::parse`, any buffer). TYPE field 45, RDLENGTH field `rdlen ≥ 1` with
the window inside the buffer, and the window malformed: `Err`. -/
theorem ipseckey_rdata_rejected_at {d : Bytes} {pos rdlen : Nat}
    (ht : Spec.field d pos 2 = some 45) (hl : Spec.field d (pos + 8) 2 = some rdlen)
    (hk : pos + 10 + rdlen ≤ d.length) (h0 : 0 < rdlen)
    (h : IpseckeyMalformed ((d.drop (pos + 10)).take rdlen)) : RData.parse d pos = .err := by
  rw [C10I.rdata_at_eq (code := 45) (by decide) ht hl hk h0]
  have := ipseckey_window_rejected h (d.take (pos + 10))
  have e : TYPE.ofCode 45 = .IPSECKEY := rfl
  rw [e, this]
  rfl

namespace C10I

/-- the second octet of the window is the octet at `pos + 11` of the message -/
theorem window_second {d : Bytes} {pos rdlen : Nat} (h2 : 2 ≤ rdlen) :
    ((d.drop (pos + 10)).take rdlen)[1]? = d[pos + 11]? := by
  rw [List.getElem?_take_of_lt (by omega), List.getElem?_drop]

theorem window_length {d : Bytes} {pos rdlen : Nat} (hk : pos + 10 + rdlen ≤ d.length) :
    ((d.drop (pos + 10)).take rdlen).length = rdlen := by
  simp; omega

end C10I

/-- C10-ipseckey-1 (`RData::parse`, any buffer, short RDLENGTH). An IPSECKEY record whose
RDLENGTH is 1 or 2, or is smaller than the gateway type octet `g` (at offset 11 from the TYPE
field) needs - 7 for an IPv4 gateway, 19 for IPv6, 4 for a name - is `Err`, whatever the RDATA
octets are and whatever follows the record. -/
theorem ipseckey_rdata_short_rejected_at {d : Bytes} {pos rdlen : Nat}
    (ht : Spec.field d pos 2 = some 45) (hl : Spec.field d (pos + 8) 2 = some rdlen)
    (hk : pos + 10 + rdlen ≤ d.length) (h0 : 0 < rdlen)
    (hs : rdlen < 3 ∨ ∃ g : UInt8, d[pos + 11]? = some g ∧ rdlen < minLenIpseckey g.toNat) :
    RData.parse d pos = .err := by
  apply ipseckey_rdata_rejected_at ht hl hk h0
  have hwl := C10I.window_length hk
  by_cases h3 : rdlen < 3
  · exact Or.inl (by omega)
  · rcases hs with hs | ⟨g, hg, hs⟩
    · exact absurd hs h3
    · exact Or.inr ⟨g, by rw [C10I.window_second (by omega)]; exact hg,
        Or.inr (Or.inl (by omega))⟩

/-- C10-ipseckey-2 (`RData::parse`, any buffer, RFC 4025 section 2.3). An IPSECKEY record with a
non-empty RDATA whose gateway type octet is 4..255 is `Err`, whatever RDLENGTH is and whatever
follows the gateway type. -/
theorem ipseckey_rdata_bad_gateway_type_rejected_at {d : Bytes} {pos rdlen : Nat} {g : UInt8}
    (ht : Spec.field d pos 2 = some 45) (hl : Spec.field d (pos + 8) 2 = some rdlen)
    (hk : pos + 10 + rdlen ≤ d.length) (h0 : 0 < rdlen)
    (hg : d[pos + 11]? = some g) (h4 : 4 ≤ g.toNat) : RData.parse d pos = .err := by
  apply ipseckey_rdata_rejected_at ht hl hk h0
  have hwl := C10I.window_length hk
  by_cases h3 : rdlen < 3
  · exact Or.inl (by omega)
  · exact Or.inr ⟨g, by rw [C10I.window_second (by omega)]; exact hg, Or.inl h4⟩

/-! ## 4. `ResourceRecord::parse` and `Packet::parse` -/

/-- C10-ipseckey (`ResourceRecord::parse`, owner name written in full, record given by its
parts): a malformed IPSECKEY RDATA makes the whole record `Err`, whatever follows it. -/
theorem ipseckey_rr_rejected (pre : Bytes) (owner : Name) (hown : Name.WF owner)
    (cb tb w post : Bytes) (hcb : cb.length = 2) (htb : tb.length = 4) (hw : w ≠ [])
    (hlen : w.length < 65536) (h : IpseckeyMalformed w) :
    RR.parse (pre ++ (Name.write owner ++ (recBody 45 cb tb w ++ post))) pre.length = .err :=
  rr_rejected_of_record_rejected pre owner hown 45 cb tb w post hcb htb
    (fun hdr => ipseckey_record_rejected hdr cb tb w post hcb htb hw hlen h)

/-- C10-ipseckey (`ResourceRecord::parse`, any buffer; the owner name may be compressed). -/
theorem ipseckey_rr_rejected_at {d : Bytes} {pos p rdlen : Nat} {owner : Name}
    (hn : Name.parse d pos = .ok (owner, p))
    (ht : Spec.field d p 2 = some 45) (hl : Spec.field d (p + 8) 2 = some rdlen)
    (hk : p + 10 + rdlen ≤ d.length) (h0 : 0 < rdlen)
    (h : IpseckeyMalformed ((d.drop (p + 10)).take rdlen)) : RR.parse d pos = .err :=
  C10S.rr_err_of_rdata_err hn (ipseckey_rdata_rejected_at ht hl hk h0 h)

/-- C10-ipseckey (`Packet::parse`). A message in which the parser gets to an IPSECKEY record (any
of the three record sections, after any number of good records, owner name in any form) whose
non-empty RDATA is malformed is rejected as a whole. -/
theorem ipseckey_packet_rejected {d : Bytes} {pos p rdlen : Nat} {owner : Name}
    (hr : ReachedByParse d pos) (hn : Name.parse d pos = .ok (owner, p))
    (ht : Spec.field d p 2 = some 45) (hl : Spec.field d (p + 8) 2 = some rdlen)
    (hk : p + 10 + rdlen ≤ d.length) (h0 : 0 < rdlen)
    (h : IpseckeyMalformed ((d.drop (p + 10)).take rdlen)) : Packet.parse d = .err :=
  packet_rejected_of_record_rejected hr (ipseckey_rr_rejected_at hn ht hl hk h0 h)

/-- C10-ipseckey-1 (`ResourceRecord::parse` and `Packet::parse`, short RDLENGTH): RDLENGTH 1 or
2, or smaller than the gateway type octet needs. -/
theorem ipseckey_short_packet_rejected {d : Bytes} {pos p rdlen : Nat} {owner : Name}
    (hn : Name.parse d pos = .ok (owner, p))
    (ht : Spec.field d p 2 = some 45) (hl : Spec.field d (p + 8) 2 = some rdlen)
    (hk : p + 10 + rdlen ≤ d.length) (h0 : 0 < rdlen)
    (hs : rdlen < 3 ∨ ∃ g : UInt8, d[p + 11]? = some g ∧ rdlen < minLenIpseckey g.toNat) :
    RR.parse d pos = .err ∧ (ReachedByParse d pos → Packet.parse d = .err) := by
  have h := C10S.rr_err_of_rdata_err hn (ipseckey_rdata_short_rejected_at ht hl hk h0 hs)
  exact ⟨h, fun hr => packet_rejected_of_record_rejected hr h⟩

/-- C10-ipseckey-2 (`ResourceRecord::parse` and `Packet::parse`, RFC 4025 section 2.3): gateway
type octet 4..255. -/
theorem ipseckey_bad_gateway_type_packet_rejected {d : Bytes} {pos p rdlen : Nat} {owner : Name}
    {g : UInt8} (hn : Name.parse d pos = .ok (owner, p))
    (ht : Spec.field d p 2 = some 45) (hl : Spec.field d (p + 8) 2 = some rdlen)
    (hk : p + 10 + rdlen ≤ d.length) (h0 : 0 < rdlen)
    (hg : d[p + 11]? = some g) (h4 : 4 ≤ g.toNat) :
    RR.parse d pos = .err ∧ (ReachedByParse d pos → Packet.parse d = .err) := by
  have h := C10S.rr_err_of_rdata_err hn
    (ipseckey_rdata_bad_gateway_type_rejected_at ht hl hk h0 hg h4)
  exact ⟨h, fun hr => packet_rejected_of_record_rejected hr h⟩

/-! ## 5. accepted IPSECKEY records at `RData::parse` and `ResourceRecord::parse` level -/

/-- an RDATA which the typed parser accepts wherever it stands is accepted by `RData::parse` in
any message, with the cursor at the end of the RDLENGTH window -/
theorem ipseckey_record_of_window (pre cb tb w post : Bytes) (hcb : cb.length = 2)
    (htb : tb.length = 4) (hw : w ≠ []) (hlen : w.length < 65536) {v : RData}
    (h : ∀ hdr : Bytes, ∃ q, parseTyped (hdr ++ w) hdr.length .IPSECKEY = .ok (v, q)) :
    RData.parse (pre ++ (recBody 45 cb tb w ++ post)) pre.length
      = .ok (v, pre.length + 10 + w.length) := by
  obtain ⟨hdr, _, he⟩ := C10M.rdataParse_recBody pre cb tb w post 45 hcb htb (by decide)
    (by decide) hw hlen
  obtain ⟨q, hq⟩ := h hdr
  have e : TYPE.ofCode 45 = .IPSECKEY := rfl
  rw [he, e, hq]
  rfl

/-- C10-ipseckey-4 (`RData::parse`, gateway type 0): RDLENGTH 3 is a whole record with an empty
public key; with a larger RDLENGTH the octets after the third are the public key. -/
theorem ipseckey_record_none (pre cb tb post : Bytes) (hcb : cb.length = 2) (htb : tb.length = 4)
    (pr al : UInt8) (key : Bytes) (hlen : key.length + 3 < 65536) :
    RData.parse (pre ++ (recBody 45 cb tb (pr :: 0 :: al :: key) ++ post)) pre.length
      = .ok (.ipseckey pr.toNat al.toNat .none key, pre.length + 10 + (key.length + 3)) :=
  ipseckey_record_of_window pre cb tb _ post hcb htb (by simp) (by simpa using hlen)
    (fun hdr => ⟨_, ipseckey_window_none hdr pr al key⟩)

/-- C10-ipseckey-4 (`RData::parse`, gateway type 1): RDLENGTH 7 is a whole record with an empty
public key. -/
theorem ipseckey_record_v4 (pre cb tb post : Bytes) (hcb : cb.length = 2) (htb : tb.length = 4)
    (pr al : UInt8) (a key : Bytes) (ha : a.length = 4) (hlen : key.length + 7 < 65536) :
    RData.parse (pre ++ (recBody 45 cb tb (pr :: 1 :: al :: (a ++ key)) ++ post)) pre.length
      = .ok (.ipseckey pr.toNat al.toNat (.v4 (deN a)) key, pre.length + 10 + (key.length + 7)) := by
  have := ipseckey_record_of_window pre cb tb (pr :: 1 :: al :: (a ++ key)) post hcb htb (by simp)
    (by simp; omega) (fun hdr => ⟨_, ipseckey_window_v4 hdr pr al a key ha⟩)
  rw [this]
  simp; omega

/-- C10-ipseckey-4 (`RData::parse`, gateway type 2): RDLENGTH 19 is a whole record with an empty
public key. -/
theorem ipseckey_record_v6 (pre cb tb post : Bytes) (hcb : cb.length = 2) (htb : tb.length = 4)
    (pr al : UInt8) (a key : Bytes) (ha : a.length = 16) (hlen : key.length + 19 < 65536) :
    RData.parse (pre ++ (recBody 45 cb tb (pr :: 2 :: al :: (a ++ key)) ++ post)) pre.length
      = .ok (.ipseckey pr.toNat al.toNat (.v6 (deN a)) key, pre.length + 10 + (key.length + 19)) := by
  have := ipseckey_record_of_window pre cb tb (pr :: 2 :: al :: (a ++ key)) post hcb htb (by simp)
    (by simp; omega) (fun hdr => ⟨_, ipseckey_window_v6 hdr pr al a key ha⟩)
  rw [this]
  simp; omega

/-- C10-ipseckey-4 (`RData::parse`, gateway type 3, name written in full): with the root name
RDLENGTH 4 is a whole record with an empty public key. -/
theorem ipseckey_record_domain (pre cb tb post : Bytes) (hcb : cb.length = 2) (htb : tb.length = 4)
    (pr al : UInt8) (n : Name) (hn : Name.WF n) (key : Bytes)
    (hlen : key.length + Name.wireLen n + 3 < 65536) :
    RData.parse (pre ++ (recBody 45 cb tb (pr :: 3 :: al :: (Name.write n ++ key)) ++ post))
        pre.length
      = .ok (.ipseckey pr.toNat al.toNat (.domain n) key,
          pre.length + 10 + (key.length + Name.wireLen n + 3)) := by
  have := ipseckey_record_of_window pre cb tb (pr :: 3 :: al :: (Name.write n ++ key)) post hcb htb
    (by simp) (by simp [Name.write_length]; omega)
    (fun hdr => ⟨_, ipseckey_window_domain hdr pr al n hn key⟩)
  rw [this]
  simp [Name.write_length]; omega

/-- C10-ipseckey-4 (`ResourceRecord::parse`). The whole record - owner written in full, TYPE 45,
CLASS with the cache-flush bit, TTL, RDLENGTH = |`w`|, an RDATA `w` which the typed parser
accepts - is read as that owner, class, flush bit, TTL and IPSECKEY value, with the cursor at
the start of `post`. -/
theorem ipseckey_rr_of_window (pre post : Bytes) (owner : Name) (cls : CLASS) (flush : Bool)
    (ttl : Nat) (hown : Name.WF owner) (httl : ttl < 2 ^ 32) (w : Bytes) (hw : w ≠ [])
    (hlen : w.length < 65536) {prec alg : Nat} {gw : Gateway} {key : Bytes}
    (h : ∀ hdr : Bytes, ∃ q,
      parseTyped (hdr ++ w) hdr.length .IPSECKEY = .ok (.ipseckey prec alg gw key, q)) :
    RR.parse (pre ++ (Name.write owner ++ (recBody 45
        (beN 2 (if flush then cls.toCode ||| 0x8000 else cls.toCode)) (beN 4 ttl) w ++ post)))
        pre.length
      = .ok ({ name := owner, cls := cls, ttl := ttl, rdata := .ipseckey prec alg gw key,
               flush := flush }, pre.length + Name.wireLen owner + 10 + w.length) := by
  obtain ⟨hcl, hcls, hfl⟩ := C10M.class_word_rt cls flush
  have hr := ipseckey_record_of_window (pre ++ Name.write owner)
    (beN 2 (if flush then cls.toCode ||| 0x8000 else cls.toCode)) (beN 4 ttl) w post
    (by simp) (by simp) hw hlen h
  have hb : ∀ cb tb : Bytes, recBody 45 cb tb w ++ post
      = Spec.octetsOf 2 45 ++ (cb ++ (tb ++ (Spec.octetsOf 2 w.length ++ (w ++ post)))) := by
    intro cb tb; simp [recBody]
  rw [hb] at hr ⊢
  rw [C10M.rrParse_body pre owner hown _ _ _ _ (by simp [← Rfc.beN_eq_octetsOf]) (by simp) (by simp),
    hr]
  have hnopt : (RData.ipseckey prec alg gw key).typeOf ≠ .OPT := by simp [RData.typeOf]
  simp only [Out.bind_ok, if_neg hnopt, deN_beN 2 _ (by simpa using hcl),
    deN_beN 4 ttl (by simpa using httl), hcls, hfl, Out.pure_eq, List.length_append,
    Name.write_length]

/-! # OPT (RFC 6891 section 6.1.2): the option loop of `OPT::parse` -/

/-- every option has a 16-bit code and at most 65535 octets of data -/
def OptionsWF (codes : List (Nat × Bytes)) : Prop := ∀ x ∈ codes, x.1 < 65536 ∧ x.2.length < 65536

instance (codes : List (Nat × Bytes)) : Decidable (OptionsWF codes) := by
  unfold OptionsWF; infer_instance

/-- the value `OPT::parse` builds from the ten fixed octets of the record (TYPE, CLASS = UDP
payload size, TTL = extended RCODE, VERSION, flags; RDLENGTH) and the options -/
def optValue (fixed : Bytes) (codes : List (Nat × Bytes)) : RData :=
  .opt { udp := deN ((fixed.drop 2).take 2),
         version := ((deN ((fixed.drop 4).take 4) &&& 0xFF00) >>> 8) % 256,
         codes := codes }

/-- C10-opt-1 (the loop, empty window). With the cursor at the end of the window the `while`
loop of `OPT::parse` does not run: no options. -/
theorem optLoop_empty_window {d : Bytes} {pos : Nat} (h : d.length ≤ pos)
    (acc : List (Nat × Bytes)) : optLoop d pos acc = .ok (acc.reverse, pos) := by
  rw [optLoop, dif_neg (by omega)]

/-- C10-opt-2 (the loop, exact characterisation). On the RDATA window `w` (wherever it stands)
the option loop succeeds with the options `opts` if and only if `w` is the concatenation of the
well-formed triples OPTION-CODE (2 octets), OPTION-LENGTH (2 octets), OPTION-DATA (that many
octets) of `opts`, in order; it then stops exactly at the end of the window. -/
theorem optLoop_ok_iff (pre w : Bytes) (opts : List (Nat × Bytes)) (p : Nat) :
    optLoop (pre ++ w) pre.length [] = .ok (opts, p)
      ↔ w = Spec.Rfc6891.encodeOptions opts ∧ OptionsWF opts ∧ p = pre.length + w.length := by
  constructor
  · intro h
    obtain ⟨ys, hxs, hdrop, hall, hend⟩ := Rfc.optLoop_bytes (by simp) h
    simp only [List.reverse_nil, List.nil_append] at hxs
    subst hxs
    rw [List.drop_left' rfl, Rfc.encTlvs22_eq_encodeOptions] at hdrop
    exact ⟨hdrop, hall, by simpa using hend⟩
  · rintro ⟨rfl, hwf, rfl⟩
    rw [rfc_opt_rdata_parse pre opts hwf]
    simp

/-- the loop never panics, so: it is `Err` if and only if the window is NOT a concatenation of
well-formed option triples -/
theorem optLoop_err_iff (pre w : Bytes) :
    optLoop (pre ++ w) pre.length [] = .err
      ↔ ¬ ∃ opts, w = Spec.Rfc6891.encodeOptions opts ∧ OptionsWF opts := by
  constructor
  · rintro h ⟨opts, hw, hwf⟩
    rw [(optLoop_ok_iff pre w opts _).mpr ⟨hw, hwf, rfl⟩] at h
    cases h
  · intro h
    cases hl : optLoop (pre ++ w) pre.length [] with
    | err => rfl
    | panic => exact absurd hl (optLoop_ne_panic _ _ _)
    | ok x =>
      obtain ⟨opts, p⟩ := x
      obtain ⟨hw, hwf, _⟩ := (optLoop_ok_iff pre w opts p).mp hl
      exact absurd ⟨opts, hw, hwf⟩ h

namespace C10I

/-- `OPT::parse` on the ten fixed octets followed by the window: the option loop on the window -/
theorem optParse_window (pre fixed w : Bytes) (hf : fixed.length = 10) :
    optParse (pre ++ (fixed ++ w)) pre.length = (do
      let (codes, p) ← optLoop ((pre ++ fixed) ++ w) (pre ++ fixed).length []
      pure (optValue fixed codes, p)) := by
  have e2 : ((pre ++ (fixed ++ w)).drop (pre.length + 2)).take 2 = (fixed.drop 2).take 2 := by
    rw [List.drop_append, List.drop_of_length_le (by omega)]
    simp only [List.nil_append, Nat.add_sub_cancel_left]
    rw [List.drop_append_of_le_length (by omega), List.take_append_of_le_length (by simp; omega)]
  have e4 : ((pre ++ (fixed ++ w)).drop (pre.length + 4)).take 4 = (fixed.drop 4).take 4 := by
    rw [List.drop_append, List.drop_of_length_le (by omega)]
    simp only [List.nil_append, Nat.add_sub_cancel_left]
    rw [List.drop_append_of_le_length (by omega), List.take_append_of_le_length (by simp; omega)]
  unfold optParse
  rw [if_neg (by simp; omega), slice_ok (by omega) (by simp; omega),
    slice_ok (by omega) (by simp; omega)]
  simp only [Out.bind_ok]
  rw [show pre.length + 4 - (pre.length + 2) = 2 by omega,
    show pre.length + 8 - (pre.length + 4) = 4 by omega, e2, e4,
    show pre.length + 10 = (pre ++ fixed).length by simp [hf],
    show pre ++ (fixed ++ w) = (pre ++ fixed) ++ w by simp]
  rfl

end C10I

/-- C10-opt-2 (`OPT::parse`, exact characterisation). On the message cut at the end of the
record - anything, the ten fixed octets of the record, the RDATA window `w` - `OPT::parse`
succeeds if and only if `w` is a concatenation of well-formed option triples; the value then
holds exactly those options and the cursor is the end of the window. -/
theorem optParse_ok_iff (pre fixed w : Bytes) (hf : fixed.length = 10) (rd : RData) (p : Nat) :
    optParse (pre ++ (fixed ++ w)) pre.length = .ok (rd, p)
      ↔ ∃ codes, w = Spec.Rfc6891.encodeOptions codes ∧ OptionsWF codes ∧
          rd = optValue fixed codes ∧ p = pre.length + 10 + w.length := by
  rw [C10I.optParse_window pre fixed w hf]
  constructor
  · intro h
    obtain ⟨⟨codes, q⟩, hl, h⟩ := Out.bind_eq_ok h
    simp only [Out.pure_eq, Out.ok.injEq, Prod.mk.injEq] at h
    obtain ⟨hw, hwf, hq⟩ := (optLoop_ok_iff (pre ++ fixed) w codes q).mp hl
    exact ⟨codes, hw, hwf, h.1.symm, by rw [← h.2, hq]; simp [hf]⟩
  · rintro ⟨codes, hw, hwf, rfl, rfl⟩
    rw [(optLoop_ok_iff (pre ++ fixed) w codes _).mpr ⟨hw, hwf, rfl⟩]
    simp [hf]

/-- C10-opt-2. `OPT::parse` is `Err` (it never panics) if and only if the window is not a
concatenation of well-formed option triples. -/
theorem optParse_err_iff (pre fixed w : Bytes) (hf : fixed.length = 10) :
    optParse (pre ++ (fixed ++ w)) pre.length = .err
      ↔ ¬ ∃ codes, w = Spec.Rfc6891.encodeOptions codes ∧ OptionsWF codes := by
  rw [C10I.optParse_window pre fixed w hf, ← optLoop_err_iff (pre ++ fixed) w]
  cases optLoop (pre ++ fixed ++ w) (pre ++ fixed).length [] with
  | ok x => simp
  | err => simp
  | panic => simp

/-- C10-opt-1 (`OPT::parse`, empty window): RDLENGTH 0 is an OPT record without options. -/
theorem optParse_empty_window (pre fixed : Bytes) (hf : fixed.length = 10) :
    optParse (pre ++ fixed) pre.length = .ok (optValue fixed [], pre.length + 10) := by
  have := (optParse_ok_iff pre fixed [] hf (optValue fixed []) (pre.length + 10)).mpr
    ⟨[], rfl, by simp [OptionsWF], rfl, rfl⟩
  simpa using this

/-! ## OPT at `RData::parse` level -/

namespace C10I

/-- `RData::parse` on a record whose TYPE field is 41: `OPT::parse` on the message cut at the end
of the RDLENGTH window, the cursor at the TYPE field -/
theorem opt_rdata_at_eq {d : Bytes} {pos rdlen : Nat} (ht : Spec.field d pos 2 = some 41)
    (hl : Spec.field d (pos + 8) 2 = some rdlen) (hk : pos + 10 + rdlen ≤ d.length) :
    RData.parse d pos
      = optParse (d.take pos ++ ((d.drop pos).take 10 ++ (d.drop (pos + 10)).take rdlen))
          (d.take pos).length := by
  have ht' : deN (((d.take (pos + 10 + rdlen)).drop pos).take 2) = 41 := by
    rw [Framing.take_drop_take (by omega)]
    rw [Framing.field_eq (by omega)] at ht
    exact Option.some.inj ht
  rw [Framing.RData.parse_eq_rdataOn hl hk]
  unfold Framing.rdataOn
  simp only [ht']
  rw [if_pos (by decide), List.take_add, List.take_add, List.append_assoc,
    show (d.take pos).length = pos by rw [List.length_take]; omega]

/-- the fields of a record given by its parts -/
theorem recBody_fields (pre cb tb rd post : Bytes) (code : Nat) (hcb : cb.length = 2)
    (htb : tb.length = 4) (hcode : code < 65536) (hlen : rd.length < 65536) :
    Spec.field (pre ++ (recBody code cb tb rd ++ post)) pre.length 2 = some code ∧
    Spec.field (pre ++ (recBody code cb tb rd ++ post)) (pre.length + 8) 2 = some rd.length ∧
    pre.length + 10 + rd.length ≤ (pre ++ (recBody code cb tb rd ++ post)).length ∧
    ((pre ++ (recBody code cb tb rd ++ post)).drop pre.length).take 10
      = beN 2 code ++ (cb ++ (tb ++ beN 2 rd.length)) := by
  have e : pre ++ (recBody code cb tb rd ++ post)
      = pre ++ (beN 2 code ++ (cb ++ (tb ++ (beN 2 rd.length ++ (rd ++ post))))) := by
    simp [recBody, Rfc.beN_eq_octetsOf]
  rw [e]
  refine ⟨?_, ?_, by simp; omega, ?_⟩
  · have hs := Rfc.slice_at (a := pre) (m := beN 2 code)
      (z := cb ++ (tb ++ (beN 2 rd.length ++ (rd ++ post)))) (x := pre.length)
      (y := pre.length + 2) rfl rfl (by simp)
    rw [Framing.field_of_slice rfl hs, deN_beN 2 code (by simpa using hcode)]
  · have hs := Rfc.slice_at (a := pre ++ (beN 2 code ++ (cb ++ tb))) (m := beN 2 rd.length)
      (z := rd ++ post)
      (d := pre ++ (beN 2 code ++ (cb ++ (tb ++ (beN 2 rd.length ++ (rd ++ post))))))
      (x := pre.length + 8) (y := pre.length + 8 + 2) (by simp) (by simp; omega) (by simp; omega)
    rw [Framing.field_of_slice rfl hs, deN_beN 2 rd.length (by simpa using hlen)]
  · rw [List.drop_left' rfl,
      show beN 2 code ++ (cb ++ (tb ++ (beN 2 rd.length ++ (rd ++ post))))
        = (beN 2 code ++ (cb ++ (tb ++ beN 2 rd.length))) ++ (rd ++ post) by simp]
    exact List.take_left' (by simp; omega)

/-- the OPT value of a record given by its parts: UDP size = the CLASS word, VERSION = the third
octet of the TTL word -/
theorem optValue_recBody (code : Nat) (cb tb lb : Bytes) (hcb : cb.length = 2) (htb : tb.length = 4)
    (codes : List (Nat × Bytes)) :
    optValue (beN 2 code ++ (cb ++ (tb ++ lb))) codes
      = .opt { udp := deN cb, version := ((deN tb &&& 0xFF00) >>> 8) % 256, codes := codes } := by
  have e2 : ((beN 2 code ++ (cb ++ (tb ++ lb))).drop 2).take 2 = cb := by
    rw [List.drop_left' (by simp)]; exact List.take_left' hcb
  have e4 : ((beN 2 code ++ (cb ++ (tb ++ lb))).drop 4).take 4 = tb := by
    rw [show beN 2 code ++ (cb ++ (tb ++ lb)) = (beN 2 code ++ cb) ++ (tb ++ lb) by simp,
      List.drop_left' (by simp; omega)]
    exact List.take_left' htb
  simp only [optValue, e2, e4]

end C10I

/-- C10-opt-2 (`RData::parse`, any buffer, exact characterisation). A record whose TYPE field is
41 with its RDLENGTH window inside the buffer is accepted if and only if the window is a
concatenation of well-formed option triples (the empty window included: no options); the value
holds those options, the cursor is the end of the window. What follows the window is not read. -/
theorem opt_rdata_ok_iff_at {d : Bytes} {pos rdlen : Nat} (ht : Spec.field d pos 2 = some 41)
    (hl : Spec.field d (pos + 8) 2 = some rdlen) (hk : pos + 10 + rdlen ≤ d.length)
    (rd : RData) (p : Nat) :
    RData.parse d pos = .ok (rd, p)
      ↔ ∃ codes, (d.drop (pos + 10)).take rdlen = Spec.Rfc6891.encodeOptions codes ∧
          OptionsWF codes ∧ rd = optValue ((d.drop pos).take 10) codes ∧
          p = pos + 10 + rdlen := by
  have hf : ((d.drop pos).take 10).length = 10 := by simp; omega
  have hw : ((d.drop (pos + 10)).take rdlen).length = rdlen := by simp; omega
  have hp : (d.take pos).length = pos := by simp; omega
  rw [C10I.opt_rdata_at_eq ht hl hk, optParse_ok_iff _ _ _ hf, hw, hp]

/-- C10-opt-2 (`RData::parse`, any buffer): `Err` if and only if the window is not a
concatenation of well-formed option triples - whatever follows the record. -/
theorem opt_rdata_err_iff_at {d : Bytes} {pos rdlen : Nat} (ht : Spec.field d pos 2 = some 41)
    (hl : Spec.field d (pos + 8) 2 = some rdlen) (hk : pos + 10 + rdlen ≤ d.length) :
    RData.parse d pos = .err
      ↔ ¬ ∃ codes, (d.drop (pos + 10)).take rdlen = Spec.Rfc6891.encodeOptions codes ∧
          OptionsWF codes := by
  have hf : ((d.drop pos).take 10).length = 10 := by simp; omega
  rw [C10I.opt_rdata_at_eq ht hl hk, optParse_err_iff _ _ _ hf]

/-- C10-opt-2 (`RData::parse`, a record given by its parts, exact characterisation). In any
message `pre ++ record ++ post` the OPT record TYPE 41, CLASS `cb`, TTL `tb`, RDLENGTH = |`w`|,
RDATA `w` is accepted if and only if `w` is a concatenation of well-formed option triples; the
UDP payload size is the CLASS word, the EDNS version the third TTL octet. -/
theorem opt_record_ok_iff (pre cb tb w post : Bytes) (hcb : cb.length = 2) (htb : tb.length = 4)
    (hlen : w.length < 65536) (rd : RData) (p : Nat) :
    RData.parse (pre ++ (recBody 41 cb tb w ++ post)) pre.length = .ok (rd, p)
      ↔ ∃ codes, w = Spec.Rfc6891.encodeOptions codes ∧ OptionsWF codes ∧
          rd = .opt { udp := deN cb, version := ((deN tb &&& 0xFF00) >>> 8) % 256,
                      codes := codes } ∧
          p = pre.length + 10 + w.length := by
  obtain ⟨ht, hl, hk, hfx⟩ := C10I.recBody_fields pre cb tb w post 41 hcb htb (by decide) hlen
  rw [opt_rdata_ok_iff_at ht hl hk, C10I.recBody_window pre cb tb w post 41 hcb htb, hfx]
  simp only [C10I.optValue_recBody 41 cb tb _ hcb htb]

/-- C10-opt-2 (`RData::parse`, a record given by its parts): `Err` if and only if `w` is not a
concatenation of well-formed option triples, whatever `post` holds. -/
theorem opt_record_err_iff (pre cb tb w post : Bytes) (hcb : cb.length = 2) (htb : tb.length = 4)
    (hlen : w.length < 65536) :
    RData.parse (pre ++ (recBody 41 cb tb w ++ post)) pre.length = .err
      ↔ ¬ ∃ codes, w = Spec.Rfc6891.encodeOptions codes ∧ OptionsWF codes := by
  obtain ⟨ht, hl, hk, _⟩ := C10I.recBody_fields pre cb tb w post 41 hcb htb (by decide) hlen
  rw [opt_rdata_err_iff_at ht hl hk, C10I.recBody_window pre cb tb w post 41 hcb htb]

/-- C10-opt-1 (`RData::parse`): an OPT record with RDLENGTH 0 is accepted, with no options. -/
theorem opt_record_empty (pre cb tb post : Bytes) (hcb : cb.length = 2) (htb : tb.length = 4) :
    RData.parse (pre ++ (recBody 41 cb tb [] ++ post)) pre.length
      = .ok (.opt { udp := deN cb, version := ((deN tb &&& 0xFF00) >>> 8) % 256, codes := [] },
          pre.length + 10) :=
  (opt_record_ok_iff pre cb tb [] post hcb htb (by decide) _ _).mpr
    ⟨[], rfl, by simp [OptionsWF], rfl, rfl⟩

/-! ## OPT: an option that overruns the RDLENGTH window -/

/-- what stands after the last whole option of a malformed OPT RDATA: one to three octets (the
four-octet head OPTION-CODE, OPTION-LENGTH does not fit in what is left of the window), or a
whole head whose OPTION-LENGTH `l` announces more octets than are left -/
def OptFragment (bad : Bytes) : Prop :=
  (1 ≤ bad.length ∧ bad.length < 4) ∨
  (∃ (c l : Nat) (part : Bytes), bad = beN 2 c ++ (beN 2 l ++ part) ∧ l < 65536 ∧ part.length < l)

/-- both kinds of fragment are "not a whole triple" in the sense of `Rfc.BadTriple` -/
theorem optFragment_bad {bad : Bytes} (h : OptFragment bad) : Rfc.BadTriple 2 2 bad := by
  rcases h with ⟨h1, h4⟩ | ⟨c, l, part, rfl, hl, hp⟩
  · exact ⟨by intro h; simp [h] at h1, Or.inl (by omega)⟩
  · refine ⟨by simp [beN], Or.inr ?_⟩
    rw [List.drop_left' (by simp), List.take_left' (by simp), deN_beN 2 l (by simpa using hl)]
    simp; omega

/-- whole options followed by a fragment are not the encoding of any option list -/
theorem opt_fragment_not_encoding (xs : List (Nat × Bytes)) (hx : OptionsWF xs) (bad : Bytes)
    (hbad : Rfc.BadTriple 2 2 bad) :
    ¬ ∃ codes, Spec.Rfc6891.encodeOptions xs ++ bad = Spec.Rfc6891.encodeOptions codes ∧
      OptionsWF codes := by
  have h := options_overrun_rejected [] xs bad hx hbad
  exact (optLoop_err_iff [] _).mp (by simpa using h)

/-- C10-opt-3 `opt_option_overrun_rejected` (`RData::parse`). After any number of whole options,
an option whose four-octet head does not fit in the rest of the RDLENGTH window, or whose
OPTION-LENGTH runs past the window, makes the OPT record `Err` - even when `post`, the octets of
the next record, would supply everything the option asks for. (Both cases of
`opt_record_overrun_rejected`, with the fragment spelled out.) -/
theorem opt_option_overrun_rejected (pre cb tb : Bytes) (xs : List (Nat × Bytes))
    (bad post : Bytes) (hcb : cb.length = 2) (htb : tb.length = 4) (hx : OptionsWF xs)
    (hbad : OptFragment bad) (hlen : (Spec.Rfc6891.encodeOptions xs ++ bad).length < 65536) :
    RData.parse (pre ++ (recBody 41 cb tb (Spec.Rfc6891.encodeOptions xs ++ bad) ++ post))
      pre.length = .err :=
  (opt_record_err_iff pre cb tb _ post hcb htb hlen).mpr
    (opt_fragment_not_encoding xs hx bad (optFragment_bad hbad))

/-- C10-opt-3, the head-overrun case on its own: one, two or three octets are left in the window
after the last whole option. `OPT::parse` checks `*position + 4 > data.len()` on the message cut
at the end of the RDATA before it slices the head: `Err`, not a panic, and the next record's
octets in `post` are not taken for the rest of the head. -/
theorem opt_option_head_overrun_rejected (pre cb tb : Bytes) (xs : List (Nat × Bytes))
    (frag post : Bytes) (hcb : cb.length = 2) (htb : tb.length = 4) (hx : OptionsWF xs)
    (h1 : 1 ≤ frag.length) (h3 : frag.length ≤ 3)
    (hlen : (Spec.Rfc6891.encodeOptions xs ++ frag).length < 65536) :
    RData.parse (pre ++ (recBody 41 cb tb (Spec.Rfc6891.encodeOptions xs ++ frag) ++ post))
      pre.length = .err :=
  opt_option_overrun_rejected pre cb tb xs frag post hcb htb hx (Or.inl ⟨h1, by omega⟩) hlen

/-- C10-opt-3 (`ResourceRecord::parse`, owner written in full). -/
theorem opt_rr_overrun_rejected (pre : Bytes) (owner : Name) (hown : Name.WF owner)
    (cb tb : Bytes) (xs : List (Nat × Bytes)) (bad post : Bytes) (hcb : cb.length = 2)
    (htb : tb.length = 4) (hx : OptionsWF xs) (hbad : OptFragment bad)
    (hlen : (Spec.Rfc6891.encodeOptions xs ++ bad).length < 65536) :
    RR.parse (pre ++ (Name.write owner ++
      (recBody 41 cb tb (Spec.Rfc6891.encodeOptions xs ++ bad) ++ post))) pre.length = .err :=
  rr_rejected_of_record_rejected pre owner hown 41 cb tb _ post hcb htb
    (fun hdr => opt_option_overrun_rejected hdr cb tb xs bad post hcb htb hx hbad hlen)

/-- C10-opt-2/3 (`ResourceRecord::parse`, any buffer, owner in any form): an OPT record whose
RDLENGTH window is not a concatenation of well-formed option triples is `Err`. -/
theorem opt_rr_rejected_at {d : Bytes} {pos p rdlen : Nat} {owner : Name}
    (hn : Name.parse d pos = .ok (owner, p))
    (ht : Spec.field d p 2 = some 41) (hl : Spec.field d (p + 8) 2 = some rdlen)
    (hk : p + 10 + rdlen ≤ d.length)
    (h : ¬ ∃ codes, (d.drop (p + 10)).take rdlen = Spec.Rfc6891.encodeOptions codes ∧
      OptionsWF codes) : RR.parse d pos = .err :=
  C10S.rr_err_of_rdata_err hn ((opt_rdata_err_iff_at ht hl hk).mpr h)

/-- C10-opt-2/3 (`Packet::parse`). A message in which the parser gets to an OPT record (in any
record section, after any number of good records) whose RDLENGTH window is not a concatenation of
well-formed option triples is rejected as a whole. -/
theorem opt_packet_rejected {d : Bytes} {pos p rdlen : Nat} {owner : Name}
    (hr : ReachedByParse d pos) (hn : Name.parse d pos = .ok (owner, p))
    (ht : Spec.field d p 2 = some 41) (hl : Spec.field d (p + 8) 2 = some rdlen)
    (hk : p + 10 + rdlen ≤ d.length)
    (h : ¬ ∃ codes, (d.drop (p + 10)).take rdlen = Spec.Rfc6891.encodeOptions codes ∧
      OptionsWF codes) : Packet.parse d = .err :=
  packet_rejected_of_record_rejected hr (opt_rr_rejected_at hn ht hl hk h)

/-- C10-opt-3 (`Packet::parse`): the window is whole options followed by a fragment (head that
does not fit, or OPTION-LENGTH past the window); more records may follow in the message. -/
theorem opt_packet_overrun_rejected {d : Bytes} {pos p rdlen : Nat} {owner : Name}
    (hr : ReachedByParse d pos) (hn : Name.parse d pos = .ok (owner, p))
    (ht : Spec.field d p 2 = some 41) (hl : Spec.field d (p + 8) 2 = some rdlen)
    (hk : p + 10 + rdlen ≤ d.length) (xs : List (Nat × Bytes)) (hx : OptionsWF xs) (bad : Bytes)
    (hbad : OptFragment bad)
    (hw : (d.drop (p + 10)).take rdlen = Spec.Rfc6891.encodeOptions xs ++ bad) :
    Packet.parse d = .err := by
  apply opt_packet_rejected hr hn ht hl hk
  rw [hw]
  exact opt_fragment_not_encoding xs hx bad (optFragment_bad hbad)

/-- C10-opt-1 (`ResourceRecord::parse`): the OPT pseudo-record with RDLENGTH 0 - root owner or
any owner written in full - is accepted with an empty option list (class reported as IN, flush
bit false: the CLASS word is the UDP payload size). -/
theorem opt_rr_empty (pre : Bytes) (owner : Name) (hown : Name.WF owner) (cb tb post : Bytes)
    (hcb : cb.length = 2) (htb : tb.length = 4) :
    RR.parse (pre ++ (Name.write owner ++ (recBody 41 cb tb [] ++ post))) pre.length
      = .ok ({ name := owner, cls := .IN, ttl := deN tb,
               rdata := .opt { udp := deN cb, version := ((deN tb &&& 0xFF00) >>> 8) % 256,
                               codes := [] },
               flush := false }, pre.length + Name.wireLen owner + 10) := by
  have hr := opt_record_empty (pre ++ Name.write owner) cb tb post hcb htb
  have hb : recBody 41 cb tb [] ++ post
      = Spec.octetsOf 2 41 ++ (cb ++ (tb ++ (Spec.octetsOf 2 ([] : Bytes).length ++ ([] ++ post)))) := by
    simp [recBody]
  rw [hb] at hr ⊢
  rw [C10M.rrParse_body pre owner hown _ _ _ _ (by simp [← Rfc.beN_eq_octetsOf]) hcb htb, hr]
  simp [RData.typeOf, Name.write_length]

/-! # concrete records -/

/-! ### IPSECKEY -/

/-- `0a 01 02 c0 00 02`: precedence 10, gateway type 1 (IPv4), algorithm 2 and three of the four
address octets; the message goes on with `01` (the missing octet) and more: `Err` -/
example : RData.parse (recBody 45 [0, 1] [0, 0, 0, 60] [0x0a, 0x01, 0x02, 0xc0, 0x00, 0x02]
    ++ [0x01, 0, 0, 1, 0, 1]) 0 = .err := by decide +kernel
/-- the same at any place of any message, whatever follows -/
example (pre post : Bytes) :
    RData.parse (pre ++ (recBody 45 [0, 1] [0, 0, 0, 60] [0x0a, 0x01, 0x02, 0xc0, 0x00, 0x02]
      ++ post)) pre.length = .err :=
  ipseckey_record_rejected pre _ _ _ post rfl rfl (by decide) (by decide)
    (Or.inr ⟨1, rfl, Or.inr (Or.inl (by decide))⟩)
/-- typed parser: the window alone -/
example (hdr : Bytes) :
    parseTyped (hdr ++ [0x0a, 0x01, 0x02, 0xc0, 0x00, 0x02]) hdr.length .IPSECKEY = .err :=
  ipseckey_window_rejected (Or.inr ⟨1, rfl, Or.inr (Or.inl (by decide))⟩) hdr

/-- `0a 04 02 ...`: gateway type 4 - `Err` whatever follows (here a well-formed IPv4 address and
a key) -/
example : RData.parse (recBody 45 [0, 1] [0, 0, 0, 60]
    [0x0a, 0x04, 0x02, 0xc0, 0x00, 0x02, 0x01, 0xaa, 0xbb] ++ [0, 0]) 0 = .err := by
  decide +kernel
example (pre rest post : Bytes) (hlen : rest.length + 3 < 65536) :
    RData.parse (pre ++ (recBody 45 [0, 1] [0, 0, 0, 60] (0x0a :: 0x04 :: 0x02 :: rest) ++ post))
      pre.length = .err :=
  ipseckey_record_rejected pre _ _ _ post rfl rfl (by simp) (by simpa using hlen)
    (Or.inr ⟨4, rfl, Or.inl (by decide)⟩)
/-- gateway type 255 with nothing after the three fixed octets -/
example (hdr : Bytes) : parseTyped (hdr ++ [0x0a, 0xff, 0x02]) hdr.length .IPSECKEY = .err :=
  ipseckey_window_rejected (Or.inr ⟨0xff, rfl, Or.inl (by decide)⟩) hdr

/-- `0a 00 02`: no gateway, empty public key - accepted -/
example : RData.parse (recBody 45 [0, 1] [0, 0, 0, 60] [0x0a, 0x00, 0x02] ++ [9, 9]) 0
    = .ok (.ipseckey 10 2 .none [], 13) := by decide +kernel
example (pre post : Bytes) :
    RData.parse (pre ++ (recBody 45 [0, 1] [0, 0, 0, 60] [0x0a, 0x00, 0x02] ++ post)) pre.length
      = .ok (.ipseckey 10 2 .none [], pre.length + 10 + 3) :=
  ipseckey_record_none pre _ _ post rfl rfl 0x0a 0x02 [] (by decide)

/-- two octets only: `Err` (RDLENGTH 2) -/
example (pre post : Bytes) :
    RData.parse (pre ++ (recBody 45 [0, 1] [0, 0, 0, 60] [0x0a, 0x00] ++ post)) pre.length = .err :=
  ipseckey_record_rejected pre _ _ _ post rfl rfl (by decide) (by decide) (Or.inl (by decide))

/-- exactly 7 octets with an IPv4 gateway 192.0.2.1, exactly 19 with an IPv6 gateway, exactly 4
with the root name: accepted, empty public key -/
example (pre post : Bytes) :
    RData.parse (pre ++ (recBody 45 [0, 1] [0, 0, 0, 60] [0x0a, 1, 2, 192, 0, 2, 1] ++ post))
      pre.length = .ok (.ipseckey 10 2 (.v4 0xC0000201) [], pre.length + 10 + 7) :=
  ipseckey_record_v4 pre _ _ post rfl rfl 0x0a 2 [192, 0, 2, 1] [] rfl (by decide)
example (pre post : Bytes) :
    RData.parse (pre ++ (recBody 45 [0, 1] [0, 0, 0, 60]
      [0x0a, 2, 2, 0x20, 1, 0x0d, 0xb8, 0, 0, 0, 0, 0, 0, 0, 0, 0, 0, 0, 1] ++ post)) pre.length
      = .ok (.ipseckey 10 2 (.v6 0x20010db8000000000000000000000001) [], pre.length + 10 + 19) :=
  ipseckey_record_v6 pre _ _ post rfl rfl 0x0a 2
    [0x20, 1, 0x0d, 0xb8, 0, 0, 0, 0, 0, 0, 0, 0, 0, 0, 0, 1] [] rfl (by decide)
example (pre post : Bytes) :
    RData.parse (pre ++ (recBody 45 [0, 1] [0, 0, 0, 60] [0x0a, 3, 2, 0] ++ post)) pre.length
      = .ok (.ipseckey 10 2 (.domain []) [], pre.length + 10 + 4) :=
  ipseckey_record_domain pre _ _ post rfl rfl 0x0a 2 [] (by decide) [] (by decide)

/-- 18 octets with gateway type 2; 3 octets with gateway type 3 (no name at all); 4 octets with
gateway type 3 whose last octet is a label length: `Err` -/
example (hdr : Bytes) :
    parseTyped (hdr ++ [0x0a, 2, 2, 0x20, 1, 0x0d, 0xb8, 0, 0, 0, 0, 0, 0, 0, 0, 0, 0, 0])
      hdr.length .IPSECKEY = .err :=
  ipseckey_window_rejected (Or.inr ⟨2, rfl, Or.inr (Or.inl (by decide))⟩) hdr
example (hdr : Bytes) : parseTyped (hdr ++ [0x0a, 3, 2]) hdr.length .IPSECKEY = .err :=
  ipseckey_window_rejected (Or.inr ⟨3, rfl, Or.inr (Or.inl (by decide))⟩) hdr
example (hdr : Bytes) : parseTyped (hdr ++ [0x0a, 3, 2, 1]) hdr.length .IPSECKEY = .err :=
  (ipseckey_window_four_domain hdr 0x0a 2 1).trans (if_neg (by decide))

/-- gateway name `a.b.` cut by the window after `1 a 1` (the octets `b 0` follow the record):
`Err` at every level -/
example (pre post : Bytes) :
    RData.parse (pre ++ (recBody 45 [0, 1] [0, 0, 0, 60] [0x0a, 3, 2, 1, 97, 1] ++ (98 :: 0 :: post)))
      pre.length = .err :=
  ipseckey_record_rejected pre _ _ _ _ rfl rfl (by decide) (by decide)
    (ipseckey_cut_name_malformed 0x0a 2 [[97]] (by decide) [1]
      (Or.inr (Or.inl ⟨1, [], rfl, by decide, by decide, by decide⟩)))
/-- gateway name `a` without its root octet; a lone pointer octet -/
example (pre post : Bytes) :
    RR.parse (pre ++ (Name.write [[120]] ++ (recBody 45 [0, 1] [0, 0, 0, 60] [0x0a, 3, 2, 1, 97]
      ++ post))) pre.length = .err :=
  ipseckey_rr_rejected pre [[120]] (by decide) _ _ _ post rfl rfl (by decide) (by decide)
    (ipseckey_cut_name_malformed 0x0a 2 [[97]] (by decide) [] (Or.inl rfl))
example (hdr : Bytes) : parseTyped (hdr ++ [0x0a, 3, 2, 0xC0]) hdr.length .IPSECKEY = .err :=
  ipseckey_window_rejected (ipseckey_cut_name_malformed 0x0a 2 [] (by decide) [0xC0]
    (Or.inr (Or.inr ⟨0xC0, rfl, by decide⟩))) hdr
/-- without the RDLENGTH cut the name would have been read from the next record's octets -/
example : Name.parse ([0x0a, 3, 2, 1, 97, 1] ++ [98, 0]) 3 = .ok ([[97], [98]], 8) :=
  Name.parse_write (n := [[97], [98]]) (by decide) [0x0a, 3, 2] []

/-- hypotheses of the typed-parser theorems on concrete buffers -/
example : parseTyped [9, 9, 0x0a, 1, 2, 192, 0] 2 .IPSECKEY = .err :=
  ipseckey_typed_short_rejected (Or.inr ⟨1, by decide, by decide⟩)
example : parseTyped [9, 9, 0x0a, 7, 2, 192, 0, 2, 1] 2 .IPSECKEY = .err :=
  ipseckey_typed_bad_gateway_type_rejected (g := 7) (by decide) (by decide)
example : parseTyped [9, 9, 0x0a, 3, 2, 5, 97] 2 .IPSECKEY = .err :=
  ipseckey_typed_name_err (g := 3) (by decide) rfl
    (name_label_overrun_is_error _ 5 5 rfl (by decide) (by decide) (by decide))
example : parseTyped [9, 9, 0x0a, 3, 2, 1, 97, 0, 7, 7] 2 .IPSECKEY
    = .ok (.ipseckey 10 2 (.domain [[97]]) [7, 7], 10) :=
  ipseckey_typed_name_ok (d := [9, 9, 0x0a, 3, 2, 1, 97, 0, 7, 7]) (pos := 2) (n := [[97]]) (p := 8)
    (pr := 0x0a) (g := 3) (al := 2) (by decide) (by decide) (by decide) rfl
    (Name.parse_write (n := [[97]]) (by decide) [9, 9, 0x0a, 3, 2] [7, 7])
example : (∃ v q, parseTyped ([9] ++ [0x0a, 1, 2, 192, 0, 2, 1, 0xAA]) 1 .IPSECKEY = .ok (v, q)) :=
  (ipseckey_window_ok_iff [9] _ 1 rfl (by decide)).mpr (by decide)

/-- `x. IN IPSECKEY 10 1 2 192.0.2.1 <key AA BB>`, TTL 60, cache-flush bit set -/
example (pre post : Bytes) :
    RR.parse (pre ++ (Name.write [[120]] ++ (recBody 45
      (beN 2 (if true then CLASS.IN.toCode ||| 0x8000 else CLASS.IN.toCode)) (beN 4 60)
      (0x0a :: 1 :: 2 :: ([192, 0, 2, 1] ++ [0xAA, 0xBB])) ++ post))) pre.length
      = .ok ({ name := [[120]], cls := .IN, ttl := 60,
               rdata := .ipseckey 10 2 (.v4 0xC0000201) [0xAA, 0xBB], flush := true },
          pre.length + Name.wireLen [[120]] + 10 + 9) :=
  ipseckey_rr_of_window pre post [[120]] .IN true 60 (by decide) (by decide) _ (by decide)
    (by decide) (fun hdr => ⟨_, ipseckey_window_v4 hdr 0x0a 2 [192, 0, 2, 1] [0xAA, 0xBB] rfl⟩)

/-- a whole message: header with ANCOUNT = 1, the record `. IN IPSECKEY` with RDLENGTH 6
(`0a 01 02 c0 00 02`), then the missing address octet and two more -/
def c10IpseckeyMsg : Bytes :=
  [0, 0, 0, 0, 0, 0, 0, 1, 0, 0, 0, 0] ++
    (Name.write [] ++ (recBody 45 [0, 1] [0, 0, 0, 60] [0x0a, 0x01, 0x02, 0xc0, 0x00, 0x02]
      ++ [1, 8, 8]))

example : ReachedByParse c10IpseckeyMsg 12 :=
  ⟨0, [], 12, by decide, rfl, 1, by decide, Or.inl ⟨0, [], by decide, rfl⟩⟩

example : Packet.parse c10IpseckeyMsg = .err :=
  (ipseckey_short_packet_rejected (owner := []) (p := 13) (rdlen := 6)
    (Name.parse_write (n := []) (by decide) [0, 0, 0, 0, 0, 0, 0, 1, 0, 0, 0, 0] _)
    (by decide) (by decide) (by decide) (by decide) (Or.inr ⟨1, by decide, by decide⟩)).2
    ⟨0, [], 12, by decide, rfl, 1, by decide, Or.inl ⟨0, [], by decide, rfl⟩⟩

/-- the same message with gateway type 4 in place of 1 -/
example : Packet.parse ([0, 0, 0, 0, 0, 0, 0, 1, 0, 0, 0, 0] ++
    (Name.write [] ++ (recBody 45 [0, 1] [0, 0, 0, 60] [0x0a, 0x04, 0x02, 0xc0, 0x00, 0x02, 1]
      ++ [8, 8]))) = .err :=
  (ipseckey_bad_gateway_type_packet_rejected (owner := []) (p := 13) (rdlen := 7) (g := 4)
    (Name.parse_write (n := []) (by decide) [0, 0, 0, 0, 0, 0, 0, 1, 0, 0, 0, 0] _)
    (by decide) (by decide) (by decide) (by decide) (by decide) (by decide)).2
    ⟨0, [], 12, by decide, rfl, 1, by decide, Or.inl ⟨0, [], by decide, rfl⟩⟩

/-- `ipseckey_rdata_rejected_at`, `ipseckey_packet_rejected` and `ipseckey_empty_rdata_accepted`
on concrete buffers -/
example : RData.parse c10IpseckeyMsg 13 = .err :=
  ipseckey_rdata_rejected_at (rdlen := 6) (by decide) (by decide) (by decide) (by decide)
    (Or.inr ⟨1, by decide, Or.inr (Or.inl (by decide))⟩)
example : Packet.parse c10IpseckeyMsg = .err :=
  ipseckey_packet_rejected (owner := []) (p := 13) (rdlen := 6)
    ⟨0, [], 12, by decide, rfl, 1, by decide, Or.inl ⟨0, [], by decide, rfl⟩⟩
    (Name.parse_write (n := []) (by decide) [0, 0, 0, 0, 0, 0, 0, 1, 0, 0, 0, 0] _)
    (by decide) (by decide) (by decide) (by decide)
    (Or.inr ⟨1, by decide, Or.inr (Or.inl (by decide))⟩)
example : RData.parse ([0] ++ recBody 45 [0, 1] [0, 0, 0, 60] []) 1 = .ok (.empty .IPSECKEY, 11) :=
  ipseckey_empty_rdata_accepted (by decide) (by decide) (by decide)

/-! ### OPT -/

/-- OPT RDATA `00 0a 00 08 01 02`: option 10 announces 8 octets, 2 are in the window; the next
record (`. IN A 1.2.3.4`-like octets) follows and has more than the 6 missing octets: `Err` -/
example : RData.parse (recBody 41 [4, 208] [0, 0, 0, 0] [0x00, 0x0a, 0x00, 0x08, 0x01, 0x02]
    ++ [0, 0, 1, 0, 1, 0, 0, 0, 60, 0, 4, 1, 2, 3, 4]) 0 = .err := by decide +kernel
example (pre post : Bytes) :
    RData.parse (pre ++ (recBody 41 [4, 208] [0, 0, 0, 0] [0x00, 0x0a, 0x00, 0x08, 0x01, 0x02]
      ++ post)) pre.length = .err :=
  opt_option_overrun_rejected pre _ _ [] [0x00, 0x0a, 0x00, 0x08, 0x01, 0x02] post rfl rfl
    (by simp [OptionsWF]) (Or.inr ⟨10, 8, [1, 2], rfl, by decide, by decide⟩) (by decide)
/-- without the RDLENGTH cut the option would have been read from the next record's octets -/
example : optLoop ([0x00, 0x0a, 0x00, 0x08, 0x01, 0x02] ++ [0, 0, 1, 0, 1, 0]) 0 []
    = .ok ([(10, [1, 2, 0, 0, 1, 0, 1, 0])], 12) := by decide +kernel

/-- one whole option (code 10, `01 02`), then three octets of a head `00 03 00`; the next
record's octets would complete it: `Err`, at `RData::parse` and `ResourceRecord::parse` level -/
example (pre post : Bytes) :
    RData.parse (pre ++ (recBody 41 [4, 208] [0, 0, 0, 0] [0, 10, 0, 2, 1, 2, 0, 3, 0]
      ++ (1 :: 7 :: post))) pre.length = .err :=
  opt_option_head_overrun_rejected pre _ _ [(10, [1, 2])] [0, 3, 0] _ rfl rfl (by decide)
    (by decide) (by decide) (by decide)
example (pre post : Bytes) :
    RR.parse (pre ++ (Name.write [] ++ (recBody 41 [4, 208] [0, 0, 0, 0]
      [0, 10, 0, 2, 1, 2, 0, 3, 0] ++ post))) pre.length = .err :=
  opt_rr_overrun_rejected pre [] (by decide) _ _ [(10, [1, 2])] [0, 3, 0] post rfl rfl (by decide)
    (Or.inl ⟨by decide, by decide⟩) (by decide)

/-- an OPT record with RDLENGTH 0 (UDP size 1232, version 0) and one with two whole options -/
example (pre post : Bytes) :
    RData.parse (pre ++ (recBody 41 [4, 208] [0, 0, 0, 0] [] ++ post)) pre.length
      = .ok (.opt { udp := 1232, version := 0, codes := [] }, pre.length + 10) :=
  opt_record_empty pre _ _ post rfl rfl
example (pre post : Bytes) :
    RData.parse (pre ++ (recBody 41 [4, 208] [0, 0, 0, 0] [0, 10, 0, 2, 1, 2, 0, 3, 0, 0] ++ post))
      pre.length
      = .ok (.opt { udp := 1232, version := 0, codes := [(10, [1, 2]), (3, [])] },
          pre.length + 10 + 10) :=
  (opt_record_ok_iff pre _ _ _ post rfl rfl (by decide) _ _).mpr
    ⟨[(10, [1, 2]), (3, [])], by decide, by decide, rfl, rfl⟩

/-- the loop and `OPT::parse` on concrete windows -/
example : optLoop [7, 7] 2 [] = .ok ([], 2) := optLoop_empty_window (by decide) []
example : optLoop ([7] ++ [0, 3, 0, 1, 9]) 1 [] = .ok ([(3, [9])], 6) :=
  (optLoop_ok_iff [7] _ _ _).mpr ⟨by decide, by decide, rfl⟩
example : optParse ([7] ++ ([0, 41, 4, 208, 0, 0, 0, 0, 0, 0])) 1
    = .ok (optValue [0, 41, 4, 208, 0, 0, 0, 0, 0, 0] [], 11) :=
  optParse_empty_window [7] _ rfl

/-- a whole message: ARCOUNT = 2, the OPT pseudo-record with RDLENGTH 6 (`00 0a 00 08 01 02`),
then the record `. IN A 1.2.3.4` -/
def c10OptMsg : Bytes :=
  [0, 0, 0, 0, 0, 0, 0, 0, 0, 0, 0, 2] ++
    (Name.write [] ++ (recBody 41 [4, 208] [0, 0, 0, 0] [0x00, 0x0a, 0x00, 0x08, 0x01, 0x02]
      ++ [0, 0, 1, 0, 1, 0, 0, 0, 60, 0, 4, 1, 2, 3, 4]))

example : ReachedByParse c10OptMsg 12 :=
  ⟨0, [], 12, by decide, rfl, 0, by decide, Or.inr ⟨[], 12, 0, rfl, by decide,
    Or.inr ⟨[], 12, 2, rfl, by decide, 0, [], by decide, rfl⟩⟩⟩

example : Packet.parse c10OptMsg = .err :=
  opt_packet_overrun_rejected (owner := []) (p := 13) (rdlen := 6)
    ⟨0, [], 12, by decide, rfl, 0, by decide, Or.inr ⟨[], 12, 0, rfl, by decide,
      Or.inr ⟨[], 12, 2, rfl, by decide, 0, [], by decide, rfl⟩⟩⟩
    (Name.parse_write (n := []) (by decide) [0, 0, 0, 0, 0, 0, 0, 0, 0, 0, 0, 2] _)
    (by decide) (by decide) (by decide) [] (by simp [OptionsWF])
    [0x00, 0x0a, 0x00, 0x08, 0x01, 0x02] (Or.inr ⟨10, 8, [1, 2], rfl, by decide, by decide⟩)
    (by decide)

/-- `opt_rdata_err_iff_at` / `opt_rdata_ok_iff_at` on the same message and on a good one -/
example : RData.parse c10OptMsg 13 = .err :=
  (opt_rdata_err_iff_at (rdlen := 6) (by decide) (by decide) (by decide)).mpr (by
    have : (c10OptMsg.drop (13 + 10)).take 6 = Spec.Rfc6891.encodeOptions [] ++
        [0x00, 0x0a, 0x00, 0x08, 0x01, 0x02] := by decide
    rw [this]
    exact opt_fragment_not_encoding [] (by simp [OptionsWF]) _
      (optFragment_bad (Or.inr ⟨10, 8, [1, 2], rfl, by decide, by decide⟩)))

end Dns
