/-
C16 — Owned copies equal originals; equality and hashing agree.

Informal property: converting any packet, question, record, name or RDATA value to its owned
form, or cloning it, yields a value that is equal to the original and serialises to identical
bytes. Wherever a type implements both equality and hashing (names, records, RDATA, instance
information), values that compare equal hash equally, so they behave correctly as keys of hash
sets and maps.

Model: `Model/Owned.lean` (`intoOwned` rebuilds a value field by field the way each Rust
`into_owned` body does; `hashFeed` is the token sequence a `Hash` impl feeds to the hasher),
`Packet.intoOwned` in `Lemmas/Owned.lean`. The derived `Clone` impls copy every field: in the
model a clone is the value itself, so there is nothing to state for it beyond `into_owned`.
Equality of names, RDATA, questions and packets is the derived structural `PartialEq`, i.e. Lean's
`=`; the hand-written `PartialEq for ResourceRecord` is `Mdns.rrEq`; the derived
`PartialEq for InstanceInformation` (sets and a map compared as such) is `Mdns.Instance.eqv`.
-/
import SimpleDnsModel.Lemmas.Owned
namespace Dns

/-! ### 1. `into_owned` carries every field over -/

theorem name_into_owned_eq (n : Name) : Name.intoOwned n = n := OwnedL.name n
theorem val_into_owned_eq (v : Val) : Val.intoOwned v = v := OwnedL.val v
theorem gateway_into_owned_eq (g : Gateway) : Gateway.intoOwned g = g := OwnedL.gateway g
theorem optdata_into_owned_eq (o : OptData) : OptData.intoOwned o = o := OwnedL.optData o
theorem rdata_into_owned_eq (rd : RData) : RData.intoOwned rd = rd := OwnedL.rdata rd
theorem rr_into_owned_eq (r : RR) : RR.intoOwned r = r := OwnedL.rr r
theorem question_into_owned_eq (q : Question) : Question.intoOwned q = q := OwnedL.question q
theorem packet_into_owned_eq (p : Packet) : Packet.intoOwned p = p := OwnedL.packet p

/-- every `into_owned` of the library returns a value equal to its argument -/
theorem into_owned_eq :
    (∀ n, Name.intoOwned n = n) ∧ (∀ v, Val.intoOwned v = v) ∧ (∀ g, Gateway.intoOwned g = g) ∧
    (∀ o, OptData.intoOwned o = o) ∧ (∀ rd, RData.intoOwned rd = rd) ∧ (∀ r, RR.intoOwned r = r) ∧
    (∀ q, Question.intoOwned q = q) ∧ (∀ p, Packet.intoOwned p = p) :=
  ⟨OwnedL.name, OwnedL.val, OwnedL.gateway, OwnedL.optData, OwnedL.rdata, OwnedL.rr,
   OwnedL.question, OwnedL.packet⟩

/-- the owned record also equals the original under the library's own `PartialEq` -/
theorem rr_into_owned_rrEq (r : RR) : Mdns.rrEq (RR.intoOwned r) r = true := by
  rw [rr_into_owned_eq]; simp [Mdns.rrEq]

/-! identical bytes, from every serialiser -/

theorem into_owned_build (p : Packet) : (Packet.intoOwned p).build = p.build := by
  rw [packet_into_owned_eq]

theorem into_owned_buildCompressed (p : Packet) :
    (Packet.intoOwned p).buildCompressed = p.buildCompressed := by
  rw [packet_into_owned_eq]

theorem into_owned_buildG (c : Bool) (p : Packet) : (Packet.intoOwned p).buildG c = p.buildG c := by
  rw [packet_into_owned_eq]

theorem into_owned_rr_write (r : RR) : (RR.intoOwned r).write = r.write := by
  rw [rr_into_owned_eq]

theorem into_owned_rr_writeG (c : Bool) (r : RR) (off : Nat) (t : Table) :
    (RR.intoOwned r).writeG c off t = r.writeG c off t := by
  rw [rr_into_owned_eq]

theorem into_owned_question_write (q : Question) : (Question.intoOwned q).write = q.write := by
  rw [question_into_owned_eq]

theorem into_owned_rdata_write (rd : RData) : (RData.intoOwned rd).write = rd.write := by
  rw [rdata_into_owned_eq]

theorem into_owned_name_write (n : Name) : Name.write (Name.intoOwned n) = Name.write n := by
  rw [name_into_owned_eq]

/-- ... and the same hash -/
theorem into_owned_rr_hash (r : RR) : RR.hashFeed (RR.intoOwned r) = RR.hashFeed r := by
  rw [rr_into_owned_eq]

/-! ### 2. values that compare equal hash equally -/

/-- derived structural equality: trivially the same feed -/
theorem name_eq_hash {a b : Name} (h : a = b) : Name.hashFeed a = Name.hashFeed b := by rw [h]
theorem val_eq_hash {a b : Val} (h : a = b) : Val.hashFeed a = Val.hashFeed b := by rw [h]
theorem rdata_eq_hash {a b : RData} (h : a = b) : RData.hashFeed a = RData.hashFeed b := by rw [h]

/-- what `PartialEq for ResourceRecord` compares -/
theorem rrEq_iff (a b : RR) :
    Mdns.rrEq a b = true ↔ a.name = b.name ∧ a.cls = b.cls ∧ a.rdata = b.rdata := by
  simp [Mdns.rrEq, and_assoc]

/-- records that compare equal (TTL and cache-flush bit ignored) feed the hasher identically -/
theorem rr_eq_hash {a b : RR} (h : Mdns.rrEq a b = true) : RR.hashFeed a = RR.hashFeed b := by
  obtain ⟨h1, h2, h3⟩ := (rrEq_iff a b).mp h
  simp only [RR.hashFeed, h1, h2, h3]

open Mdns in
/-- instance information: equal values, whatever the order their members were inserted in,
feed the hasher identically -/
theorem instance_eq_hash {a b : Instance} (h : Instance.eqv a b) (ha : a.SetsOK) (hb : b.SetsOK) :
    Instance.hashFeed a = Instance.hashFeed b := by
  obtain ⟨hn, hi, hp, _⟩ := h
  have e1 := OwnedL.sort_map_eq_of_same_members ipKey ha.1 hb.1 hi
  have e2 := OwnedL.sort_map_eq_of_same_members id ha.2 hb.2 hp
  simp only [List.map_id] at e2
  simp only [Instance.hashFeed, hn, e1, e2]

/-- the three statements of `eq_hash` together -/
theorem eq_hash :
    (∀ a b : Name, a = b → Name.hashFeed a = Name.hashFeed b) ∧
    (∀ a b : RData, a = b → RData.hashFeed a = RData.hashFeed b) ∧
    (∀ a b : RR, Mdns.rrEq a b = true → RR.hashFeed a = RR.hashFeed b) ∧
    (∀ a b : Mdns.Instance, Mdns.Instance.eqv a b → a.SetsOK → b.SetsOK →
      Mdns.Instance.hashFeed a = Mdns.Instance.hashFeed b) :=
  ⟨fun _ _ => name_eq_hash, fun _ _ => rdata_eq_hash, fun _ _ => rr_eq_hash,
   fun _ _ => instance_eq_hash⟩

/-! sanity of the sorted feed: it is the set's members, each once, and the address key separates
well-formed addresses (so sorting does not identify different sets) -/

open Mdns in
theorem sorted_feed_members (l : List Nat) (x : Nat) : x ∈ sortNat l ↔ x ∈ l := OwnedL.mem_sort l x

open Mdns in
theorem sorted_feed_sorted (l : List Nat) : (sortNat l).Pairwise (· ≤ ·) := OwnedL.sort_sorted l

open Mdns in
theorem ip_key_separates {i : Instance} (h : i.AddrOK) {x y : Bool × Nat} (hx : x ∈ i.ips)
    (hy : y ∈ i.ips) (hk : ipKey x = ipKey y) : x = y :=
  ipKey_inj (h x hx) (h y hy) hk

/-! ### 3. the hash ignores what equality ignores -/

theorem hash_ignores_what_eq_ignores (r : RR) (t : Nat) (f : Bool) :
    RR.hashFeed { r with ttl := t, flush := f } = RR.hashFeed r := rfl

theorem eq_ignores_ttl_flush (r : RR) (t : Nat) (f : Bool) :
    Mdns.rrEq { r with ttl := t, flush := f } r = true := by
  simp [Mdns.rrEq]

/-! ### examples -/

section Examples
open Mdns

private def i1 : Instance :=
  { name := [97], ips := [(false, 0x0A000001), (true, 1), (false, 0x0A000002)],
    ports := [8080, 443, 53], attrs := [("k", some "v"), ("flag", none)] }

/-- the same members, inserted in another order -/
private def i2 : Instance :=
  { name := [97], ips := [(true, 1), (false, 0x0A000002), (false, 0x0A000001)],
    ports := [53, 8080, 443], attrs := [("flag", none), ("k", some "v")] }

example : Instance.hashFeed i1 = Instance.hashFeed i2 := by decide
example : Instance.hashFeed i1 =
    [.len 1, .bytes [97], .num 0x0A000001, .num 0x0A000002, .num (2 ^ 32 + 1),
     .num 53, .num 443, .num 8080] := by decide
example : i1.ips ≠ i2.ips := by decide
example : Instance.eqv i1 i2 := by
  refine ⟨rfl, fun x => ?_, fun x => ?_, fun k v => ?_⟩ <;> simp [i1, i2] <;> grind
example : i1.SetsOK ∧ i2.SetsOK := by simp [Instance.SetsOK, i1, i2]

private def r1 : RR :=
  { name := [[97], [98]], cls := .IN, ttl := 120, rdata := .flat 1 [.int 0x7F000001], flush := false }

example : Mdns.rrEq { r1 with ttl := 0, flush := true } r1 = true := by decide
example : RR.hashFeed { r1 with ttl := 0, flush := true } = RR.hashFeed r1 := by decide
example : RR.hashFeed r1 =
    [.len 2, .len 1, .bytes [97], .len 1, .bytes [98], .num 1, .tag "flat", .num 1,
     .num 0x7F000001] := by decide
example : RR.intoOwned r1 = r1 := by decide
example : (RR.intoOwned r1).write = r1.write := by decide

end Examples

end Dns
