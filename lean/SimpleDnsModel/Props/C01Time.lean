/-
C01 (time part) — "Time and peak heap use are bounded by a modest linear function of the input
length, so neither header counts nor compression-pointer chains alone can drive allocation or
looping."  Props/C01Cost.lean bounds the iterations of ONE name and the allocation units of an
ACCEPTED message; this file gives the whole-message counts, for accepted and rejected inputs.

 1. `nameLoopSteps` / `Name.steps`: the iteration count of the `Name::parse` loop as a function
    (defined for rejected names too), proved to be the step count of `nameLoopFuel`
    (`nameLoopFuel_eq_steps`), with the sharpened cap `min(pos, len, 0x4000) + 384 ≤ 16768`
    (`Name.steps_le`; C01Cost has `+ 512`), and `= 1` for a name that took one byte.
 2. `nameLoopPushes` / `Name.pushes`: the labels pushed, at most 128 also for rejected names.
 3. `Packet.parseCost w d`: cost twins of every parser of Model/RData.lean and Model/Packet.lean,
    parametrised by weights; a failing step ends the count (cost of the prefix parsed before the
    error). `Packet.parseSteps = parseCost stepW` (time), `Packet.parseAlloc = parseCost allocW`
    (heap).
 4. `Time.Packet.parseCost_le`: if a name costs at most `M` and `16 * W ≥ 3 * M + 18` then the
    cost is at most `W` per byte after the header plus `3 * M + 20`, for EVERY byte string.
 5. `parseSteps_linear : parseSteps d ≤ 3146 * d.length + 12572`; `parseSteps_le_rate` (the rate
    depends on the length: quadratic below 16 KiB), `parseSteps_udp512`, `parseSteps_mdns9000`,
    `parseSteps_header_only` (a bare header costs ≤ 8 steps whatever its counts).
 6. `parseAlloc_linear : parseAlloc d ≤ 35 * d.length` (and `≤ 26 * d.length + 92`) without the
    success hypothesis; `parseAlloc_ok : allocUnits p ≤ parseAlloc d` on accepted messages.
 7. `parseAlloc_le_parseSteps`: every allocation is a step.
 8. `c05Msg_parseSteps : parseSteps c05Msg = 20`.

Why 3146 and not less. The per-name cap is real up to a factor of about two (a chain of `k`
pointers costs `k + 1` iterations, `chain_steps_100`), every name of two bytes or more can be
such a chain, and three of them fit in a 16-byte record (owner pointer, ten fixed bytes, two
pointers as the RDATA of a MINFO or RP): `⌈(3 * 16768 + 18) / 16⌉ = 3146`.

What a step is. One iteration of the `Name::parse` loop (two bounds checks, one or two byte reads,
at most one `push` of a borrowed label), one fixed-size field (a bounds check, a read of at most
16 bytes or a borrowed slice, a code conversion), one iteration of a loop inside an RDATA (one
borrowed string / window / parameter / option pushed or inserted), one entry pushed on a section
`Vec`: each is O(1) work in the Rust code, except that `BTreeMap::insert` (SVCB parameters) is
logarithmic in the number of parameters already read. Not counted: the single
`iter().position(..)` + `remove(i)` pass over the additional section that moves the OPT record
into the header after an accepted parse (one comparison and at most one move per additional
record, of which there are at most `(len - 12) / 11`, `parsed_entries_bound`), and amortised
`Vec` growth.
-/
import SimpleDnsModel.Props.C01Cost
namespace Dns

/-! ### 1. the iteration count of the name loop -/

/-- The number of times the body of the `Name::parse` loop runs from state `s`: the text of
`nameLoop` (Model/NameWire.lean) with every exit replaced by `1` and every `continue` by
`1 + …`. Defined for every input: names that are rejected are counted up to the rejecting
iteration. -/
def nameLoopSteps (d : Bytes) (s : NS) : Nat :=
    if s.pos ≥ d.length ∨ s.pp ≥ d.length then 1 else
    if s.size ≥ 255 then 1 else
    match d[s.pp]? with
    | none => 1
    | some b =>
      if b = 0 then 1
      else if b.toNat &&& 0xC0 = 0xC0 then
        let pos := if s.follow then s.pos else s.pos + 1
        if s.pp + 2 > d.length then 1 else
        match d[s.pp+1]? with
        | none => 1
        | some b2 =>
          let ptr := (b.toNat &&& 0x3F) * 256 + b2.toNat
          if _h : ptr ≥ s.pp then 1 else
          1 + nameLoopSteps d { s with pos := pos, pp := ptr, follow := true }
      else
        let len := b.toNat
        if s.pp + 1 + len > d.length then 1 else
        if len > 63 then 1 else
        let lab := (d.drop (s.pp+1)).take len
        1 + nameLoopSteps d { pos := if s.follow then s.pos else s.pos + len + 1,
                              pp := s.pp + len + 1, follow := s.follow,
                              size := s.size + 1 + len, labels := lab :: s.labels }
termination_by (255 - s.size, s.pp)
decreasing_by
  · simp_wf; right; omega
  · simp_wf; left; omega

/-- `nameLoopSteps` is the step count of `nameLoopFuel` (Lemmas/Cost.lean): the fuel-indexed copy
of the loop finishes exactly when the budget is at least `nameLoopSteps`, and then with the result
of `nameLoop`. -/
theorem nameLoopFuel_eq_steps (d : Bytes) (s : NS) : ∀ fuel,
    nameLoopFuel fuel d s = if nameLoopSteps d s ≤ fuel then some (nameLoop d s) else none := by
  fun_induction nameLoop d s
  all_goals intro fuel
  all_goals (cases fuel with
    | zero => ?_
    | succ f => ?_)
  all_goals (rw [nameLoopSteps]; simp only [nameLoopFuel]; simp [*])
  all_goals (try (split <;> simp_all <;> omega))
  · rename_i pos _ _ _ ptr hlt ih
    simp only [ptr, ge_iff_le] at hlt
    simp only [if_neg hlt]
    have := ih f
    simp only [ptr, pos, dite_eq_ite] at this
    rw [this]
    simp only [Nat.add_comm 1, Nat.add_le_add_iff_right, ptr, pos, dite_eq_ite]
  · rename_i len hfit h63 lab ih
    simp only [len, gt_iff_lt] at hfit h63
    simp only [if_neg hfit, if_neg h63]
    have := ih f
    simp only [len, lab, dite_eq_ite] at this
    rw [this]
    simp only [Nat.add_comm 1, Nat.add_le_add_iff_right, len, lab]

/-- the loop body runs at least once -/
theorem nameLoopSteps_pos (d : Bytes) (s : NS) : 1 ≤ nameLoopSteps d s := by
  have h := nameLoopFuel_eq_steps d s 0
  simp only [nameLoopFuel] at h
  split at h
  · cases h
  · omega

/-- a budget is enough exactly when it is at least the step count -/
theorem nameLoopSteps_le_iff (d : Bytes) (s : NS) (fuel : Nat) :
    nameLoopSteps d s ≤ fuel ↔ nameLoopFuel fuel d s = some (nameLoop d s) := by
  rw [nameLoopFuel_eq_steps]
  split <;> simp_all

/-- … and too small exactly when it is below the step count -/
theorem nameLoopFuel_eq_none_iff (d : Bytes) (s : NS) (fuel : Nat) :
    nameLoopFuel fuel d s = none ↔ fuel < nameLoopSteps d s := by
  rw [nameLoopFuel_eq_steps]
  split <;> simp_all <;> omega

/-- how to read a step count off two runs of `nameLoopFuel` -/
theorem nameLoopSteps_eq_of_fuel {d : Bytes} {s : NS} {k : Nat} {r : Out (Name × Nat)}
    (h0 : nameLoopFuel k d s = none) (h1 : nameLoopFuel (k + 1) d s = some r) :
    nameLoopSteps d s = k + 1 := by
  have a := (nameLoopFuel_eq_none_iff d s k).1 h0
  have b : nameLoopSteps d s ≤ k + 1 := by
    rw [nameLoopFuel_eq_steps] at h1
    split at h1
    · assumption
    · cases h1
  omega

/-- once `name_size ≥ 255` the next iteration is the last -/
theorem nameLoopSteps_full (d : Bytes) (s : NS) (h : 255 ≤ s.size) : nameLoopSteps d s = 1 := by
  rw [nameLoopSteps]
  split
  · rfl
  · rfl

/-- **The iteration bound, sharpened.** From state `s` the loop body runs at most
`pp + (255 - name_size) + (256 - name_size) / 2 + 1` times: a label step adds the same `k ≥ 2` to
`pp` and to `name_size` (so it keeps `pp + (255 - name_size)` and lowers the third term), a pointer
step lowers `pp`, and the iteration that sees `name_size ≥ 255` is the last. (`nameLoop_within`,
Props/C01Cost.lean, has `2 * (255 - name_size)` in place of the two middle terms.) -/
theorem nameLoopSteps_le (d : Bytes) (s : NS) :
    nameLoopSteps d s ≤ s.pp + (255 - s.size) + (256 - s.size) / 2 + 1 := by
  fun_induction nameLoopSteps d s
  all_goals try omega
  · rename_i ptr hlt ih
    generalize nameLoopSteps d _ = n at ih ⊢
    simp only [ptr] at hlt ih
    omega
  · rename_i hnz _ len hfit h63 lab ih
    have hb1 : 1 ≤ len := UInt8.toNat_pos_of_ne_zero hnz
    rename_i s _ _ _ _ _
    by_cases hfull : 255 ≤ s.size + 1 + len
    · rw [nameLoopSteps_full _ _ hfull]
      omega
    · simp only [dite_eq_ite] at ih
      generalize nameLoopSteps d _ = n at ih ⊢
      simp only [len] at hfit h63 ih hb1 hfull
      omega

/-- The same with a bound that does not depend on where the name starts: a pointer holds a 14-bit
offset, so after the first jump `pp ≤ 0x3FFF`; before it there are only label steps. -/
theorem nameLoopSteps_le_abs (d : Bytes) (s : NS) :
    nameLoopSteps d s ≤ 0x3FFF + (255 - s.size) + (256 - s.size) / 2 + 2 := by
  fun_induction nameLoopSteps d s
  all_goals try omega
  · rename_i s _ _ b _ _ _ pos _ b2 _ ptr hlt ih
    have := nameLoopSteps_le d { s with pos := pos, pp := ptr, follow := true }
    generalize nameLoopSteps d _ = n at this ⊢
    have h1 : b.toNat &&& 63 ≤ 63 := Nat.and_le_right
    have h2 := b2.toNat_lt
    simp only [ptr] at hlt this
    omega
  · rename_i hnz _ len hfit h63 lab ih
    have hb1 : 1 ≤ len := UInt8.toNat_pos_of_ne_zero hnz
    rename_i s _ _ _ _ _
    by_cases hfull : 255 ≤ s.size + 1 + len
    · rw [nameLoopSteps_full _ _ hfull]
      omega
    · simp only [dite_eq_ite] at ih
      generalize nameLoopSteps d _ = n at ih ⊢
      simp only [len] at hfit h63 ih hb1 hfull
      omega

/-- the number of loop iterations of `Name::parse(data, &mut pos)`, for accepted and rejected
names alike -/
def Name.steps (d : Bytes) (pos : Nat) : Nat := nameLoopSteps d (NS.init pos)

/-- the per-name iteration cap for a name that starts at offset `n` (or, with `n` the length of the
buffer, anywhere in it): `min n 0x4000 + 384` -/
def nameCap (n : Nat) : Nat := min n 0x4000 + 384

/-- the cap grows with the offset (or buffer length) -/
theorem nameCap_mono {a b : Nat} (h : a ≤ b) : nameCap a ≤ nameCap b := by
  unfold nameCap; omega

/-- never more than 16768 -/
theorem nameCap_le (n : Nat) : nameCap n ≤ 16768 := by
  unfold nameCap; omega

/-- **Per-name bound, for accepted and rejected names.** `Name::parse` at offset `pos` of a buffer
of `len` bytes runs its loop body at most `min(pos, len, 0x4000) + 384` times — at most 16768
times whatever the input (`name_parse_steps_min`, Props/C01Cost.lean, has 512 in place of 384). -/
theorem Name.steps_le (d : Bytes) (pos : Nat) : Name.steps d pos ≤ nameCap (min pos d.length) := by
  unfold Name.steps nameCap
  have h1 := nameLoopSteps_le d (NS.init pos)
  have h2 := nameLoopSteps_le_abs d (NS.init pos)
  simp only [NS.init] at h1 h2
  by_cases hp : pos < d.length
  · simp only [NS.init]; omega
  · rw [nameLoopSteps]
    have : pos ≥ d.length := by omega
    simp [NS.init, this]

/-- the cap in terms of the buffer length alone: wherever the name starts in a buffer of `len` bytes,
`Name::parse` runs its loop at most `min(len, 0x4000) + 384` times -/
theorem Name.steps_le_len (d : Bytes) (pos : Nat) : Name.steps d pos ≤ nameCap d.length :=
  Nat.le_trans (Name.steps_le d pos) (nameCap_mono (Nat.min_le_right _ _))

/-- `Name.steps` is the least budget with which the fuel-indexed loop of Lemmas/Cost.lean
finishes -/
theorem Name.steps_le_iff (d : Bytes) (pos fuel : Nat) :
    Name.steps d pos ≤ fuel ↔ nameLoopFuel fuel d (NS.init pos) = some (Name.parse d pos) :=
  nameLoopSteps_le_iff d _ fuel

/-- the pointer chains of Props/C01Cost.lean: the name at the last pointer of `chain k` costs
exactly `k + 1` iterations -/
theorem chain_steps_100 : Name.steps (chain 100) 199 = 101 :=
  nameLoopSteps_eq_of_fuel chain_exact_100.1 chain_exact_100.2

/-- the longest chain whose offsets fit in one byte: 128 iterations for the name at offset 253 -/
theorem chain_steps_127 : Name.steps (chain 127) 253 = 128 :=
  nameLoopSteps_eq_of_fuel chain_exact_127.1 chain_exact_127.2

/-- state form of `Name.steps_one_byte`: before any pointer was followed, a loop that returns with the
caller's cursor moved by one byte has run once -/
theorem nameLoopSteps_one_byte {d : Bytes} {s : NS} {n : Name}
    (h : nameLoop d s = .ok (n, s.pos + 1)) (hf : s.follow = false) : nameLoopSteps d s = 1 := by
  fun_induction nameLoop d s generalizing n
  all_goals try (simp at h; done)
  · rw [nameLoopSteps]; simp [*]
  · rename_i pos _ _ _ ptr _ _
    have := (nameLoop_pos_le _ _ _ _ h).1
    simp [hf, pos] at this
  · have := (nameLoop_pos_le _ _ _ _ h).1
    simp [hf] at this
    omega

/-- A name that took one byte of the message is the root name and cost one iteration: only a
zero byte at `pos` makes `Name::parse` return with the cursor at `pos + 1` (a pointer leaves it at
`pos + 2`, a label further). -/
theorem Name.steps_one_byte {d : Bytes} {pos : Nat} {n : Name}
    (h : Name.parse d pos = .ok (n, pos + 1)) : Name.steps d pos = 1 :=
  nameLoopSteps_one_byte (s := NS.init pos) h rfl

/-! ### 2. the labels pushed by the name loop -/

/-- The number of `labels.push(..)` executed by the `Name::parse` loop from state `s` (the only
allocation of the loop; following a pointer allocates nothing): the text of `nameLoop` with every
exit replaced by `0`, the pointer `continue` by the recursive count and the label `continue` by
`1 + …`. Labels pushed before a rejection are counted. -/
def nameLoopPushes (d : Bytes) (s : NS) : Nat :=
    if s.pos ≥ d.length ∨ s.pp ≥ d.length then 0 else
    if s.size ≥ 255 then 0 else
    match d[s.pp]? with
    | none => 0
    | some b =>
      if b = 0 then 0
      else if b.toNat &&& 0xC0 = 0xC0 then
        let pos := if s.follow then s.pos else s.pos + 1
        if s.pp + 2 > d.length then 0 else
        match d[s.pp+1]? with
        | none => 0
        | some b2 =>
          let ptr := (b.toNat &&& 0x3F) * 256 + b2.toNat
          if _h : ptr ≥ s.pp then 0 else
          nameLoopPushes d { s with pos := pos, pp := ptr, follow := true }
      else
        let len := b.toNat
        if s.pp + 1 + len > d.length then 0 else
        if len > 63 then 0 else
        let lab := (d.drop (s.pp+1)).take len
        1 + nameLoopPushes d { pos := if s.follow then s.pos else s.pos + len + 1,
                               pp := s.pp + len + 1, follow := s.follow,
                               size := s.size + 1 + len, labels := lab :: s.labels }
termination_by (255 - s.size, s.pp)
decreasing_by
  · simp_wf; right; omega
  · simp_wf; left; omega

/-- every push adds at least 2 to `name_size`, and nothing is pushed once it has reached 255: at
most 128 pushes for a whole name, whatever pointers it goes through -/
theorem nameLoopPushes_le (d : Bytes) (s : NS) : nameLoopPushes d s ≤ (256 - s.size) / 2 := by
  fun_induction nameLoopPushes d s
  all_goals try omega
  · rename_i hnz _ len hfit h63 lab ih
    have hb1 : 1 ≤ len := UInt8.toNat_pos_of_ne_zero hnz
    simp only [dite_eq_ite] at ih
    generalize nameLoopPushes d _ = n at ih ⊢
    simp only [len] at hfit h63 ih hb1
    omega

/-- on an accepted name the pushes are the labels of the result (beyond those already collected) -/
theorem nameLoopPushes_ok {d : Bytes} {s : NS} {n : Name} {p : Nat}
    (h : nameLoop d s = .ok (n, p)) : n.length = s.labels.length + nameLoopPushes d s := by
  fun_induction nameLoop d s generalizing n p
  all_goals try (simp at h; done)
  · rw [nameLoopPushes]; simp [*]
    simp at h
    rw [← h.1]; simp
  · rename_i pos _ _ _ ptr hlt ih
    rw [nameLoopPushes]; simp [*]
    simp only [ptr, ge_iff_le] at hlt
    simp only [if_neg hlt]
    simp only [ptr, pos, dite_eq_ite]
  · rename_i len hfit h63 lab ih
    rw [nameLoopPushes]; simp [*]
    simp only [len, gt_iff_lt] at hfit h63
    simp only [if_neg hfit, if_neg h63]
    have := ih h
    simp only [len, lab, dite_eq_ite, List.length_cons] at this ⊢
    omega

/-- labels pushed by `Name::parse(data, &mut pos)`, for accepted and rejected names alike -/
def Name.pushes (d : Bytes) (pos : Nat) : Nat := nameLoopPushes d (NS.init pos)

/-- `Name::parse` pushes at most 128 labels, whether it accepts or rejects the name and whatever
pointers the name goes through -/
theorem Name.pushes_le (d : Bytes) (pos : Nat) : Name.pushes d pos ≤ 128 := by
  have := nameLoopPushes_le d (NS.init pos)
  simpa [NS.init, Name.pushes] using this

/-- for an accepted name the pushes are the labels of the returned `Name` -/
theorem Name.pushes_ok {d : Bytes} {pos : Nat} {n : Name} {p : Nat}
    (h : Name.parse d pos = .ok (n, p)) : Name.pushes d pos = n.length := by
  have := nameLoopPushes_ok (s := NS.init pos) h
  simp only [NS.init, List.length_nil] at this
  unfold Name.pushes
  simp only [NS.init]
  omega

/-- state form of `Name.pushes_one_byte`: a loop that returns with the cursor moved by one byte has
pushed nothing -/
theorem nameLoopPushes_one_byte {d : Bytes} {s : NS} {n : Name}
    (h : nameLoop d s = .ok (n, s.pos + 1)) (hf : s.follow = false) : nameLoopPushes d s = 0 := by
  fun_induction nameLoop d s generalizing n
  all_goals try (simp at h; done)
  · rw [nameLoopPushes]; simp [*]
  · rename_i pos _ _ _ ptr _ _
    have := (nameLoop_pos_le _ _ _ _ h).1
    simp [hf, pos] at this
  · have := (nameLoop_pos_le _ _ _ _ h).1
    simp [hf] at this
    omega

/-- the root name pushes nothing -/
theorem Name.pushes_one_byte {d : Bytes} {pos : Nat} {n : Name}
    (h : Name.parse d pos = .ok (n, pos + 1)) : Name.pushes d pos = 0 :=
  nameLoopPushes_one_byte (s := NS.init pos) h rfl

/-! ### 3. the cost of `Packet::parse`, for accepted and rejected messages

One set of cost functions, parametrised by what is counted (`Weights`): each is the text of the
model parser with the results dropped and the units of work added up; when a step fails the count
stops there, like the `?` of the Rust code, so that the cost of a rejected message is the cost of
the prefix parsed before the error. -/

/-- what is counted -/
structure Weights where
  /-- the cost of one call `Name::parse(d, &mut pos)` -/
  name : Bytes → Nat → Nat
  /-- one fixed-size read, bounds check or code conversion -/
  field : Nat
  /-- one iteration of a loop inside an RDATA: a character-string of a TXT, a window of an NSEC,
  a parameter of an SVCB, an option of an OPT (one `push` / `insert`) -/
  item : Nat
  /-- one question or record (one `push` on a section `Vec`) -/
  entry : Nat

/-- time: every loop iteration of every name, one unit for everything else -/
def stepW : Weights := { name := Name.steps, field := 1, item := 1, entry := 1 }

/-- heap: the labels pushed by every name, the RDATA list items, the section entries; fixed-size
fields allocate nothing (byte payloads are borrowed from the message) -/
def allocW : Weights := { name := Name.pushes, field := 0, item := 1, entry := 1 }

/-- continue the count with the result of a step that succeeded; a step that failed ends it -/
def Out.thenCost {α : Type} (x : Out α) (f : α → Nat) : Nat :=
  match x with
  | .ok a => f a
  | .err => 0
  | .panic => 0

/-- a step that succeeded hands its result on -/
@[simp] theorem Out.thenCost_ok {α : Type} (a : α) (f : α → Nat) : (Out.ok a).thenCost f = f a :=
  rfl
/-- an `Err` ends the count -/
@[simp] theorem Out.thenCost_err {α : Type} (f : α → Nat) : (Out.err : Out α).thenCost f = 0 := rfl
/-- so does a panic (there is none: Props/C01.lean) -/
@[simp] theorem Out.thenCost_panic {α : Type} (f : α → Nat) : (Out.panic : Out α).thenCost f = 0 :=
  rfl

set_option linter.unusedVariables false in
/-- the loop of `TXT::parse` -/
def strsLoopCost (w : Weights) (d : Bytes) (pos : Nat) : Nat :=
  if h : pos < d.length then
    match hcs : CharStr.parse d pos with
    | .ok (_, p) => w.item + strsLoopCost w d p
    | .err => w.item
    | .panic => w.item
  else 0
termination_by d.length - pos
decreasing_by
  have := CharStr.parse_advances hcs
  omega

set_option linter.unusedVariables false in
/-- the loops of `NSEC::parse` / `SVCB::parse` -/
def tlvsLoopCost (w : Weights) (d : Bytes) (kw lw : Nat) (strict : Bool) (pos : Nat)
    (acc : List (Nat × Bytes)) : Nat :=
  if hk : kw + lw = 0 then 0 else
  if h : pos < d.length then
    match hone : tlvOne d kw lw strict (acc.head?.map (·.1)) pos with
    | .ok (x, p) => w.item + tlvsLoopCost w d kw lw strict p (x :: acc)
    | .err => w.item
    | .panic => w.item
  else 0
termination_by d.length - pos
decreasing_by
  have := tlvOne_advances (by omega) hone
  omega

set_option linter.unusedVariables false in
/-- the option loop of `OPT::parse` -/
def optLoopCost (w : Weights) (d : Bytes) (pos : Nat) : Nat :=
  if h : pos < d.length then
    match hone : tlvOne d 2 2 false none pos with
    | .ok (_, p) => w.item + optLoopCost w d p
    | .err => w.item
    | .panic => w.item
  else 0
termination_by d.length - pos
decreasing_by
  have := tlvOne_advances (by omega) hone
  omega

/-- one field of a table-driven RDATA -/
def decFieldCost (w : Weights) (d : Bytes) : FKind → Nat → Nat
  | .int _, _ => w.field
  | .charstr, _ => w.field
  | .name _, pos => w.field + w.name d pos
  | .rest, _ => w.field
  | .strs, pos => w.field + strsLoopCost w d pos
  | .tlvs kw lw strict, pos => w.field + tlvsLoopCost w d kw lw strict pos []

/-- the fields of a table-driven RDATA, up to the first that fails -/
def decAllCost (w : Weights) (d : Bytes) : List FKind → Nat → Nat
  | [], _ => 0
  | k :: ks, pos =>
    decFieldCost w d k pos +
      (match decField d k pos with
      | .ok (_, p) => decAllCost w d ks p
      | _ => 0 : Nat)

/-- `IPSECKEY::parse`: five fields, the gateway being a name when its type is 3 -/
def ipseckeyCost (w : Weights) (d : Bytes) (pos : Nat) : Nat :=
  if pos + 3 > d.length then w.field else
    match idx d (pos + 1) with
    | .ok gt => 5 * w.field + (if gt.toNat = 3 then w.name d (pos + 3) else 0)
    | _ => w.field

/-- `parse_rdata` -/
def parseTypedCost (w : Weights) (d : Bytes) (pos : Nat) (t : TYPE) : Nat :=
  match t with
  | .IPSECKEY => ipseckeyCost w d pos
  | .NULL => w.field
  | .Unknown _ => w.field
  | .OPT => 0
  | t =>
    match schemaOf t.toCode with
    | none => 0
    | some ks => decAllCost w d ks pos

/-- `OPT::parse` -/
def optParseCost (w : Weights) (d : Bytes) (pos : Nat) : Nat :=
  if pos + 10 > d.length then w.field else 3 * w.field + optLoopCost w d (pos + 10)

/-- `RData::parse`: TYPE and RDLENGTH, then the typed parser on the message cut at the end of the
RDATA -/
def RData.parseCost (w : Weights) (d : Bytes) (pos : Nat) : Nat :=
  if pos + 10 > d.length then w.field else
    match slice d pos (pos + 2), slice d (pos + 8) (pos + 10) with
    | .ok tb, .ok lb =>
      let t := TYPE.ofCode (deN tb)
      let rdlen := deN lb
      2 * w.field +
        (if pos + 10 + rdlen > d.length then 0 else
         if t = .OPT then optParseCost w (d.take (pos + rdlen + 10)) pos else
         if rdlen = 0 then 0 else parseTypedCost w (d.take (pos + 10 + rdlen)) (pos + 10) t)
    | _, _ => w.field

/-- `Question::parse`: the entry, its name, QTYPE and QCLASS -/
def Question.parseCost (w : Weights) (d : Bytes) (pos : Nat) : Nat :=
  w.entry + w.name d pos +
    (Name.parse d pos).thenCost fun r => w.field + (if r.2 + 4 > d.length then 0 else w.field)

/-- the part of `ResourceRecord::parse` after CLASS: TTL and the RDATA -/
def RR.tailCost (w : Weights) (d : Bytes) (p : Nat) : Nat := w.field + RData.parseCost w d p

/-- `ResourceRecord::parse`: the entry, its owner name, CLASS and TTL, the RDATA -/
def RR.parseCost (w : Weights) (d : Bytes) (pos : Nat) : Nat :=
  w.entry + w.name d pos +
    (Name.parse d pos).thenCost fun r =>
      w.field + (if r.2 + 8 > d.length then 0 else RR.tailCost w d r.2)

/-- `Packet::parse_section` for questions: the entries up to the first that fails -/
def parseQuestionsCost (w : Weights) (d : Bytes) : Nat → Nat → Nat
  | 0, _ => 0
  | n+1, pos =>
    Question.parseCost w d pos +
      (match Question.parse d pos with
      | .ok (_, p) => parseQuestionsCost w d n p
      | _ => 0 : Nat)

/-- `Packet::parse_section` for records -/
def parseRRsCost (w : Weights) (d : Bytes) : Nat → Nat → Nat
  | 0, _ => 0
  | n+1, pos =>
    RR.parseCost w d pos +
      (match RR.parse d pos with
      | .ok (_, p) => parseRRsCost w d n p
      | _ => 0 : Nat)

/-- the three record sections, one after the other, as long as they parse -/
def rrSectionsCost (w : Weights) (d : Bytes) : List (Out Nat) → Nat → Nat
  | [], _ => 0
  | .ok n :: rest, pos =>
    parseRRsCost w d n pos +
      (match parseRRs d n pos with
      | .ok (_, p) => rrSectionsCost w d rest p
      | _ => 0 : Nat)
  | _ :: _, _ => 0

/-- `Packet::parse`: the header (id, flags, four counts), the question section from offset 12,
then the answer, authority and additional sections, each with the count the header announces; the
count stops at the first step that fails. -/
def Packet.parseCost (w : Weights) (d : Bytes) : Nat :=
  w.field +
    (Header.parse d).thenCost fun _ =>
      5 * w.field +
        (Peek.questions d).thenCost fun qd =>
          parseQuestionsCost w d qd 12 +
            (parseQuestions d qd 12).thenCost fun r =>
              rrSectionsCost w d [Peek.answers d, Peek.nameServers d, Peek.additional d] r.2

/-- **The step count of `Packet::parse`**: loop iterations of every `Name::parse` call (owner
names, question names, names inside RDATA), one unit per fixed field, per RDATA list item and per
entry; for accepted and rejected messages alike. -/
def Packet.parseSteps (d : Bytes) : Nat := Packet.parseCost stepW d

/-- **The allocation count of `Packet::parse`**: labels pushed, RDATA list items and section
entries created up to the point where parsing ends (everything is still alive then, so this is the
peak, in the units of `allocUnits`). -/
def Packet.parseAlloc (d : Bytes) : Nat := Packet.parseCost allocW d

/-! ### 4. bounds on the cost functions -/

namespace Time

/-- What the bounds need to know about the weights: the unit weights are at most 1; one name costs
at most `M` in any buffer of at most `L` bytes; a name that took a single byte of the message (the
root name) costs at most 1. -/
structure Bounded (w : Weights) (L M : Nat) : Prop where
  field : w.field ≤ 1
  item : w.item ≤ 1
  entry : w.entry ≤ 1
  name : ∀ d pos, d.length ≤ L → w.name d pos ≤ M
  root : ∀ d pos n, Name.parse d pos = .ok (n, pos + 1) → w.name d pos ≤ 1
  cap : 8 ≤ M

/-- `stepW` is bounded by the per-name iteration cap -/
theorem stepW_bounded (L : Nat) : Bounded stepW L (nameCap L) where
  field := Nat.le_refl _
  item := Nat.le_refl _
  entry := Nat.le_refl _
  name := fun d pos hd => Nat.le_trans (Name.steps_le_len d pos) (nameCap_mono hd)
  root := fun _ _ _ h => Nat.le_of_eq (Name.steps_one_byte h)
  cap := by unfold nameCap; omega

/-- `allocW` is bounded by the 128 labels a name can push -/
theorem allocW_bounded (L : Nat) : Bounded allocW L 128 where
  field := Nat.zero_le _
  item := Nat.le_refl _
  entry := Nat.le_refl _
  name := fun d pos _ => Name.pushes_le d pos
  root := fun _ _ _ h => by
    show Name.pushes _ _ ≤ 1
    rw [Name.pushes_one_byte h]; exact Nat.zero_le _
  cap := by decide

/-! every iteration of an RDATA loop, the failing one included, starts inside the buffer and an
accepted one consumes at least one byte -/

/-- the `TXT::parse` loop, accepted or rejected: at most one unit per remaining byte of the RDATA -/
theorem strsLoopCost_le {w : Weights} (hi : w.item ≤ 1) (d : Bytes) (pos : Nat) :
    strsLoopCost w d pos ≤ d.length - pos := by
  fun_induction strsLoopCost w d pos
  · rename_i hcs ih
    have := CharStr.parse_advances hcs
    omega
  · omega
  · omega
  · omega

/-- the `NSEC::parse` / `SVCB::parse` loops, accepted or rejected: at most one unit per remaining byte -/
theorem tlvsLoopCost_le {w : Weights} (hi : w.item ≤ 1) (d : Bytes) (kw lw : Nat) (strict : Bool)
    (pos : Nat) (acc : List (Nat × Bytes)) :
    tlvsLoopCost w d kw lw strict pos acc ≤ d.length - pos := by
  fun_induction tlvsLoopCost w d kw lw strict pos acc
  · omega
  · rename_i hk _ _ _ hone ih
    have := tlvOne_advances (by omega) hone
    omega
  · omega
  · omega
  · omega

/-- the `OPT::parse` option loop, accepted or rejected: at most one unit per remaining byte -/
theorem optLoopCost_le {w : Weights} (hi : w.item ≤ 1) (d : Bytes) (pos : Nat) :
    optLoopCost w d pos ≤ d.length - pos := by
  fun_induction optLoopCost w d pos
  · rename_i hone ih
    have := tlvOne_advances (by omega) hone
    omega
  · omega
  · omega
  · omega

/-- the TXT loop only returns at or past the end of its buffer -/
theorem strsLoop_stop {d : Bytes} {pos : Nat} {acc ss : List Bytes} {p : Nat}
    (h : strsLoop d pos acc = .ok (ss, p)) : d.length ≤ p := by
  fun_induction strsLoop d pos acc
  · rename_i ih; exact ih h
  · cases h
  · cases h
  · cases h; omega

/-- the NSEC / SVCB loops only return at or past the end of their buffer -/
theorem tlvsLoop_stop {d : Bytes} {kw lw : Nat} {strict : Bool} {pos : Nat}
    {acc xs : List (Nat × Bytes)} {p : Nat}
    (h : tlvsLoop d kw lw strict pos acc = .ok (xs, p)) : d.length ≤ p := by
  fun_induction tlvsLoop d kw lw strict pos acc
  · cases h
  · rename_i ih; exact ih h
  · cases h
  · cases h
  · cases h; omega

/-- One field, any outcome: a unit, `M` if it is a name, and at most the rest of the buffer for a
loop. -/
theorem decFieldCost_le {w : Weights} {L M : Nat} (hb : Bounded w L M) {d : Bytes}
    (hd : d.length ≤ L) (k : FKind) (pos : Nat) :
    decFieldCost w d k pos ≤ 1 + M * nameCount [k] + (d.length - pos) := by
  have h1 := hb.field
  cases k with
  | int w' => simp only [decFieldCost]; omega
  | charstr => simp only [decFieldCost]; omega
  | name c =>
    have := hb.name d pos hd
    simp only [decFieldCost, nameCount]; omega
  | rest => simp only [decFieldCost]; omega
  | strs =>
    have := strsLoopCost_le hb.item d pos
    simp only [decFieldCost]; omega
  | tlvs kw lw strict =>
    have := tlvsLoopCost_le hb.item d kw lw strict pos []
    simp only [decFieldCost]; omega

/-- One accepted field: `j` counts the names that took at least two bytes (`j ≤ 1` here); the
others are root names and cost one unit. -/
theorem decFieldCost_ok {w : Weights} {L M : Nat} (hb : Bounded w L M) {d : Bytes}
    (hd : d.length ≤ L) {k : FKind} {pos : Nat} {v : Val} {p : Nat}
    (h : decField d k pos = .ok (v, p)) :
    ∃ j, j ≤ nameCount [k] ∧
      decFieldCost w d k pos + (d.length - p) + j ≤
        1 + nameCount [k] + M * j + (d.length - pos) ∧
      pos + 2 * j ≤ p := by
  have h1 := hb.field
  have hpos := (Cost.decField_cost h).1
  cases k with
  | int w' => exact ⟨0, by simp [nameCount], by simp only [decFieldCost]; omega, by omega⟩
  | charstr => exact ⟨0, by simp [nameCount], by simp only [decFieldCost]; omega, by omega⟩
  | rest => exact ⟨0, by simp [nameCount], by simp only [decFieldCost]; omega, by omega⟩
  | name c =>
    simp only [decField] at h
    obtain ⟨⟨n, q⟩, hn, h⟩ := Out.bind_eq_ok h
    simp only [Out.pure_eq, Out.ok.injEq, Prod.mk.injEq] at h
    obtain ⟨_, rfl⟩ := h
    have hlt := (Name.parse_pos_le hn).1
    by_cases hq : q = pos + 1
    · subst hq
      have := hb.root d pos n hn
      exact ⟨0, by simp [nameCount], by simp only [decFieldCost, nameCount]; omega, by omega⟩
    · have := hb.name d pos hd
      exact ⟨1, by simp [nameCount], by simp only [decFieldCost, nameCount]; omega, by omega⟩
  | strs =>
    simp only [decField] at h
    obtain ⟨⟨ss, q⟩, hs, h⟩ := Out.bind_eq_ok h
    cases h
    have := strsLoop_stop hs
    have := strsLoopCost_le hb.item d pos
    exact ⟨0, by simp [nameCount], by simp only [decFieldCost]; omega, by omega⟩
  | tlvs kw lw strict =>
    simp only [decField] at h
    obtain ⟨⟨ss, q⟩, hs, h⟩ := Out.bind_eq_ok h
    cases h
    have := tlvsLoop_stop hs
    have := tlvsLoopCost_le hb.item d kw lw strict pos []
    exact ⟨0, by simp [nameCount], by simp only [decFieldCost]; omega, by omega⟩

/-- The fields of a layout, any outcome. -/
theorem decAllCost_le {w : Weights} {L M : Nat} (hb : Bounded w L M) {d : Bytes}
    (hd : d.length ≤ L) (ks : List FKind) : ∀ pos,
    decAllCost w d ks pos ≤ ks.length + M * nameCount ks + (d.length - pos) := by
  induction ks with
  | nil => intro pos; simp [decAllCost]
  | cons k ks ih =>
    intro pos
    simp only [decAllCost]
    rw [Cost.nameCount_cons, Nat.mul_add, List.length_cons]
    split
    · rename_i v p hv
      obtain ⟨j, hj, hc, _⟩ := decFieldCost_ok hb hd hv
      have := ih p
      have hcap := hb.cap
      have hk : nameCount [k] = 0 ∨ nameCount [k] = 1 := by cases k <;> simp [nameCount]
      have hmj : nameCount [k] + M * j ≤ M * nameCount [k] + j := by
        rcases hk with hk | hk
        · rw [hk] at hj ⊢; have : j = 0 := by omega
          subst this; simp
        · rw [hk] at hj ⊢
          have : j = 0 ∨ j = 1 := by omega
          rcases this with rfl | rfl <;> omega
      omega
    · have := decFieldCost_le hb hd k pos
      omega

/-- An accepted layout: `j` of its names took two bytes or more. -/
theorem decAllCost_ok {w : Weights} {L M : Nat} (hb : Bounded w L M) {d : Bytes}
    (hd : d.length ≤ L) (ks : List FKind) : ∀ {pos : Nat} {vs : List Val} {p : Nat},
    decAll d ks pos = .ok (vs, p) →
    ∃ j, j ≤ nameCount ks ∧
      decAllCost w d ks pos + (d.length - p) + j ≤
        ks.length + nameCount ks + M * j + (d.length - pos) ∧
      pos + 2 * j ≤ p := by
  induction ks with
  | nil =>
    intro pos vs p h
    simp only [decAll] at h
    cases h
    exact ⟨0, by simp [nameCount], by simp [decAllCost, nameCount], by omega⟩
  | cons k ks ih =>
    intro pos vs p h
    simp only [decAll] at h
    obtain ⟨⟨v, q⟩, hv, h⟩ := Out.bind_eq_ok h
    dsimp only at h
    obtain ⟨⟨vs', q'⟩, hvs, h⟩ := Out.bind_eq_ok h
    cases h
    obtain ⟨j1, a1, a2, a3⟩ := decFieldCost_ok hb hd hv
    obtain ⟨j2, b1, b2, b3⟩ := ih hvs
    refine ⟨j1 + j2, ?_, ?_, by omega⟩
    · rw [Cost.nameCount_cons]; omega
    · simp only [decAllCost, hv]
      rw [Cost.nameCount_cons, Nat.mul_add, List.length_cons]
      omega

/-- no layout has more than nine fields (NSAP, RRSIG) -/
theorem schemaOf_length {code : Nat} {ks : List FKind} (h : schemaOf code = some ks) :
    ks.length ≤ 9 := by
  unfold schemaOf at h
  split at h <;> first | (cases h; decide) | cases h

/-- `IPSECKEY::parse`, any outcome -/
theorem ipseckeyCost_le {w : Weights} {L M : Nat} (hb : Bounded w L M) {d : Bytes}
    (hd : d.length ≤ L) (pos : Nat) : ipseckeyCost w d pos ≤ 5 + M := by
  have h1 := hb.field
  have hn := hb.name d (pos + 3) hd
  unfold ipseckeyCost
  split
  · omega
  · split
    · split <;> omega
    · omega

/-- `IPSECKEY::parse`, accepted -/
theorem ipseckeyCost_ok {w : Weights} {L M : Nat} (hb : Bounded w L M) {d : Bytes}
    (hd : d.length ≤ L) {pos : Nat} {rd : RData} {p : Nat}
    (h : ipseckeyParse d pos = .ok (rd, p)) :
    ∃ j, j ≤ 1 ∧ ipseckeyCost w d pos + j ≤ 6 + M * j ∧ pos + 3 + 2 * j ≤ d.length := by
  have h1 := hb.field
  unfold ipseckeyParse at h
  unfold ipseckeyCost
  split at h
  · cases h
  · rename_i hlen
    rw [if_neg hlen]
    obtain ⟨prec, _, h⟩ := Out.bind_eq_ok h
    obtain ⟨gt, hgt, h⟩ := Out.bind_eq_ok h
    obtain ⟨alg, _, h⟩ := Out.bind_eq_ok h
    dsimp only at h
    obtain ⟨⟨gw, q⟩, hg, h⟩ := Out.bind_eq_ok h
    simp only [hgt]
    split at hg
    · rename_i heq
      exact ⟨0, by omega, by rw [if_neg (by omega)]; omega, by omega⟩
    · rename_i heq
      exact ⟨0, by omega, by rw [if_neg (by omega)]; omega, by omega⟩
    · rename_i heq
      exact ⟨0, by omega, by rw [if_neg (by omega)]; omega, by omega⟩
    · rename_i heq
      rw [if_pos heq]
      obtain ⟨⟨n, q'⟩, hn, hg⟩ := Out.bind_eq_ok hg
      have hlt := Name.parse_pos_le hn
      by_cases hq : q' = pos + 3 + 1
      · subst hq
        have := hb.root d (pos + 3) n hn
        exact ⟨0, by omega, by omega, by omega⟩
      · have := hb.name d (pos + 3) hd
        exact ⟨1, by omega, by omega, by omega⟩
    · cases hg

/-- `parse_rdata`, any outcome: at most nine fields, two names and the rest of the buffer -/
theorem parseTypedCost_le {w : Weights} {L M : Nat} (hb : Bounded w L M) {d : Bytes}
    (hd : d.length ≤ L) (pos : Nat) (t : TYPE) :
    parseTypedCost w d pos t ≤ 9 + 2 * M + (d.length - pos) := by
  have h1 := hb.field
  unfold parseTypedCost
  split
  · have := ipseckeyCost_le hb hd pos
    omega
  · omega
  · omega
  · omega
  · split
    · omega
    · rename_i ks hs
      have := decAllCost_le hb hd ks pos
      have := schemaOf_length hs
      have := Nat.mul_le_mul_left M (Cost.schemaOf_nameCount hs)
      omega

/-- `parse_rdata`, accepted: `j ≤ 2` names of two bytes or more, inside the buffer -/
theorem parseTypedCost_ok {w : Weights} {L M : Nat} (hb : Bounded w L M) {d : Bytes}
    (hd : d.length ≤ L) {pos : Nat} {t : TYPE} {rd : RData} {q : Nat} (hp : pos ≤ d.length)
    (h : parseTyped d pos t = .ok (rd, q)) :
    ∃ j, j ≤ 2 ∧ parseTypedCost w d pos t + j ≤ 11 + M * j + (d.length - pos) ∧
      pos + 2 * j ≤ d.length := by
  have h1 := hb.field
  unfold parseTyped at h
  unfold parseTypedCost
  split at h
  · obtain ⟨j, a, b, c⟩ := ipseckeyCost_ok hb hd h
    dsimp only
    exact ⟨j, by omega, by omega, by omega⟩
  · dsimp only
    exact ⟨0, by omega, by omega, by omega⟩
  · dsimp only
    exact ⟨0, by omega, by omega, by omega⟩
  · cases h
  · split at h
    · cases h
    · rename_i ks hs
      obtain ⟨⟨vs, p⟩, hdec, h⟩ := Out.bind_eq_ok h
      obtain ⟨j, a, b, c⟩ := decAllCost_ok hb hd ks hdec
      have := Cost.decAll_end_le ks hp hdec
      have := schemaOf_length hs
      have := Cost.schemaOf_nameCount hs
      simp only [hs]
      exact ⟨j, by omega, by omega, by omega⟩

/-- `OPT::parse`, any outcome -/
theorem optParseCost_le {w : Weights} (hf : w.field ≤ 1) (hi : w.item ≤ 1) (d : Bytes)
    (pos : Nat) : optParseCost w d pos ≤ 3 + (d.length - (pos + 10)) := by
  unfold optParseCost
  have := optLoopCost_le hi d (pos + 10)
  split <;> omega

/-- `RData::parse`, any outcome: TYPE and RDLENGTH, at most nine fields and two names, and at most
one unit per byte of the RDATA -/
theorem RData.parseCost_le {w : Weights} {L M : Nat} (hb : Bounded w L M) {d : Bytes}
    (hd : d.length ≤ L) (pos : Nat) :
    RData.parseCost w d pos ≤ 11 + 2 * M + (d.length - (pos + 10)) := by
  have h1 := hb.field
  unfold RData.parseCost
  split
  · omega
  · split
    · rename_i tb lb _ _
      dsimp only
      split
      · omega
      · rename_i hfit
        split
        · have := optParseCost_le hb.field hb.item (d.take (pos + deN lb + 10)) pos
          rw [List.length_take] at this
          omega
        · split
          · omega
          · have := parseTypedCost_le hb (d := d.take (pos + 10 + deN lb))
              (by rw [List.length_take]; omega) (pos + 10) (TYPE.ofCode (deN tb))
            rw [List.length_take] at this
            omega
    · omega

/-- `RData::parse`, accepted: `p` is the end of the RDATA; `j ≤ 2` names of two bytes or more
inside it -/
theorem RData.parseCost_ok {w : Weights} {L M : Nat} (hb : Bounded w L M) {d : Bytes}
    (hd : d.length ≤ L) {pos : Nat} {rd : RData} {p : Nat}
    (h : RData.parse d pos = .ok (rd, p)) :
    ∃ j, j ≤ 2 ∧ RData.parseCost w d pos + j ≤ 13 + M * j + (p - (pos + 10)) ∧
      pos + 10 + 2 * j ≤ p ∧ p ≤ d.length := by
  have h1 := hb.field
  unfold RData.parse at h
  unfold RData.parseCost
  split at h
  · cases h
  · rename_i hlen
    rw [if_neg hlen]
    obtain ⟨tb, htb, h⟩ := Out.bind_eq_ok h
    dsimp only at h
    obtain ⟨lb, hlb, h⟩ := Out.bind_eq_ok h
    simp only [htb, hlb]
    split at h
    · cases h
    · rename_i hfit
      rw [if_neg hfit]
      split at h
      · rename_i hopt
        rw [if_pos hopt]
        have hp := Framing.optParse_end h
        have := optParseCost_le hb.field hb.item (d.take (pos + deN lb + 10)) pos
        rw [List.length_take] at this hp
        exact ⟨0, by omega, by omega, by omega, by omega⟩
      · rename_i hopt
        rw [if_neg hopt]
        split at h
        · rename_i h0
          rw [if_pos h0]
          cases h
          exact ⟨0, by omega, by omega, by omega, by omega⟩
        · rename_i h0
          rw [if_neg h0]
          obtain ⟨⟨rd', q⟩, hpt, h⟩ := Out.bind_eq_ok h
          cases h
          obtain ⟨j, a, b, c⟩ := parseTypedCost_ok hb (d := d.take (pos + 10 + deN lb))
            (by rw [List.length_take]; omega) (by rw [List.length_take]; omega) hpt
          rw [List.length_take] at b c
          exact ⟨j, a, by omega, by omega, by omega⟩

/-- paying for an entry with the bytes it took: `k` bytes at the full rate `W`, the others at one
unit each -/
theorem pay {W pos p k c : Nat} (hW : 1 ≤ W) (h : pos + k ≤ p)
    (hc : c ≤ k * W + (p - (pos + k))) : c + W * pos ≤ W * p := by
  obtain ⟨r, rfl⟩ := Nat.exists_eq_add_of_le h
  have hr : r ≤ W * r := Nat.le_mul_of_pos_left _ hW
  rw [Nat.mul_add, Nat.mul_add, Nat.mul_comm W k]
  have : pos + k + r - (pos + k) = r := by omega
  rw [this] at hc
  omega

/-- `Question::parse`, any outcome -/
theorem Question.parseCost_le {w : Weights} {L M : Nat} (hb : Bounded w L M) {d : Bytes}
    (hd : d.length ≤ L) (pos : Nat) : Question.parseCost w d pos ≤ 3 + M := by
  have h1 := hb.field
  have h2 := hb.entry
  have h3 := hb.name d pos hd
  unfold Question.parseCost Out.thenCost
  split <;> (try dsimp only) <;> (try split) <;> omega

/-- `Question::parse`, accepted: paid by its bytes at `W` units per byte -/
theorem Question.parseCost_ok {w : Weights} {L M W : Nat} (hb : Bounded w L M)
    (hW : 3 * M + 18 ≤ 16 * W) {d : Bytes} (hd : d.length ≤ L) {pos : Nat} {q : Question}
    {p : Nat} (h : Question.parse d pos = .ok (q, p)) :
    Question.parseCost w d pos + W * pos ≤ W * p ∧ p ≤ d.length := by
  have h1 := hb.field
  have h2 := hb.entry
  have hcap := hb.cap
  unfold Question.parse at h
  obtain ⟨⟨name, ne⟩, hname, h⟩ := Out.bind_eq_ok h
  dsimp only at h
  unfold Question.parseCost
  simp only [hname, Out.thenCost_ok]
  split at h
  · cases h
  · rename_i hfit
    rw [if_neg hfit]
    obtain ⟨tb, _, h⟩ := Out.bind_eq_ok h
    obtain ⟨cb, _, h⟩ := Out.bind_eq_ok h
    obtain ⟨qt, _, h⟩ := Out.bind_eq_ok h
    obtain ⟨qc, _, h⟩ := Out.bind_eq_ok h
    cases h
    have hlt := Name.parse_pos_le hname
    refine ⟨?_, by omega⟩
    by_cases hq : ne = pos + 1
    · subst hq
      have := hb.root d pos name hname
      exact pay (k := 5) (by omega) (by omega) (by omega)
    · have := hb.name d pos hd
      exact pay (k := 6) (by omega) (by omega) (by omega)

/-- `ResourceRecord::parse`, any outcome: three names, fourteen units, and at most one unit per
byte that follows -/
theorem RR.parseCost_le {w : Weights} {L M : Nat} (hb : Bounded w L M) {d : Bytes}
    (hd : d.length ≤ L) (pos : Nat) :
    RR.parseCost w d pos ≤ 3 * M + 14 + (d.length - pos) := by
  have h1 := hb.field
  have h2 := hb.entry
  have h3 := hb.name d pos hd
  unfold RR.parseCost Out.thenCost
  split
  · rename_i r hname
    have := Name.parse_pos_le (n := r.1) (p := r.2) hname
    have := RData.parseCost_le hb hd r.2
    unfold RR.tailCost
    dsimp only
    split <;> omega
  · omega
  · omega

/-- `ResourceRecord::parse`, accepted: paid by its bytes at `W` units per byte -/
theorem RR.parseCost_ok {w : Weights} {L M W : Nat} (hb : Bounded w L M)
    (hW : 3 * M + 18 ≤ 16 * W) {d : Bytes} (hd : d.length ≤ L) {pos : Nat} {r : RR}
    {p : Nat} (h : RR.parse d pos = .ok (r, p)) :
    RR.parseCost w d pos + W * pos ≤ W * p ∧ p ≤ d.length := by
  have h1 := hb.field
  have h2 := hb.entry
  have hcap := hb.cap
  unfold RR.parse at h
  obtain ⟨⟨name, ne⟩, hname, h⟩ := Out.bind_eq_ok h
  dsimp only at h
  unfold RR.parseCost
  simp only [hname, Out.thenCost_ok]
  split at h
  · cases h
  · rename_i hfit
    rw [if_neg hfit]
    obtain ⟨cb, _, h⟩ := Out.bind_eq_ok h
    obtain ⟨tb, _, h⟩ := Out.bind_eq_ok h
    obtain ⟨⟨rdata, p'⟩, hrd, h⟩ := Out.bind_eq_ok h
    dsimp only at h
    have hp : p' = p := by
      split at h
      · cases h; rfl
      · obtain ⟨cls, _, h⟩ := Out.bind_eq_ok h
        cases h; rfl
    subst hp
    have hlt := Name.parse_pos_le hname
    obtain ⟨j, hj, a, b, c⟩ := RData.parseCost_ok hb hd hrd
    unfold RR.tailCost
    refine ⟨?_, c⟩
    have hj3 : j = 0 ∨ j = 1 ∨ j = 2 := by omega
    by_cases hq : ne = pos + 1
    · have := hb.root d pos name (hq ▸ hname)
      rcases hj3 with rfl | rfl | rfl
      · exact pay (k := 11) (by omega) (by omega) (by omega)
      · exact pay (k := 13) (by omega) (by omega) (by omega)
      · exact pay (k := 15) (by omega) (by omega) (by omega)
    · have := hb.name d pos hd
      rcases hj3 with rfl | rfl | rfl
      · exact pay (k := 12) (by omega) (by omega) (by omega)
      · exact pay (k := 14) (by omega) (by omega) (by omega)
      · exact pay (k := 16) (by omega) (by omega) (by omega)

/-- bytes not yet read pay at least one unit each -/
theorem rest_pays {W pos len : Nat} (hW : 1 ≤ W) (h : pos ≤ len) :
    (len - pos) + W * pos ≤ W * len :=
  pay (k := 0) hW (by omega) (by omega)

/-- The question section: accepted questions are paid by their bytes; the one that fails, if any,
costs at most `3 + M`. -/
theorem parseQuestionsCost_le {w : Weights} {L M W : Nat} (hb : Bounded w L M)
    (hW : 3 * M + 18 ≤ 16 * W) {d : Bytes} (hd : d.length ≤ L) (n : Nat) : ∀ {pos : Nat},
    pos ≤ d.length →
    parseQuestionsCost w d n pos + W * pos ≤ W * d.length + (3 + M) ∧
    ∀ {qs : List Question} {p : Nat}, parseQuestions d n pos = .ok (qs, p) →
      parseQuestionsCost w d n pos + W * pos ≤ W * p ∧ p ≤ d.length := by
  have hcap := hb.cap
  induction n with
  | zero =>
    intro pos hp
    have := Nat.mul_le_mul_left W hp
    refine ⟨by simp only [parseQuestionsCost]; omega, ?_⟩
    intro qs p h
    simp only [parseQuestions] at h
    cases h
    exact ⟨by simp only [parseQuestionsCost]; omega, hp⟩
  | succ n ih =>
    intro pos hp
    simp only [parseQuestionsCost]
    constructor
    · split
      · rename_i q p1 hq
        obtain ⟨a1, a2⟩ := Question.parseCost_ok hb hW hd hq
        have := (ih a2).1
        omega
      · have := Question.parseCost_le hb hd pos
        have := Nat.mul_le_mul_left W hp
        omega
    · intro qs p h
      simp only [parseQuestions] at h
      obtain ⟨⟨q, p1⟩, hq, h⟩ := Out.bind_eq_ok h
      dsimp only at h
      obtain ⟨⟨qs', p2⟩, hqs, h⟩ := Out.bind_eq_ok h
      cases h
      obtain ⟨a1, a2⟩ := Question.parseCost_ok hb hW hd hq
      obtain ⟨b1, b2⟩ := (ih a2).2 hqs
      simp only [hq]
      exact ⟨by omega, b2⟩

/-- A record section: accepted records are paid by their bytes; the one that fails, if any, costs
at most `3 * M + 14` plus one unit per byte that follows. -/
theorem parseRRsCost_le {w : Weights} {L M W : Nat} (hb : Bounded w L M)
    (hW : 3 * M + 18 ≤ 16 * W) {d : Bytes} (hd : d.length ≤ L) (n : Nat) : ∀ {pos : Nat},
    pos ≤ d.length →
    parseRRsCost w d n pos + W * pos ≤ W * d.length + (3 * M + 14) ∧
    ∀ {rs : List RR} {p : Nat}, parseRRs d n pos = .ok (rs, p) →
      parseRRsCost w d n pos + W * pos ≤ W * p ∧ p ≤ d.length := by
  have hcap := hb.cap
  induction n with
  | zero =>
    intro pos hp
    have := Nat.mul_le_mul_left W hp
    refine ⟨by simp only [parseRRsCost]; omega, ?_⟩
    intro rs p h
    simp only [parseRRs] at h
    cases h
    exact ⟨by simp only [parseRRsCost]; omega, hp⟩
  | succ n ih =>
    intro pos hp
    simp only [parseRRsCost]
    constructor
    · split
      · rename_i r p1 hr
        obtain ⟨a1, a2⟩ := RR.parseCost_ok hb hW hd hr
        have := (ih a2).1
        omega
      · have := RR.parseCost_le hb hd pos
        have := rest_pays (W := W) (by omega) hp
        omega
    · intro rs p h
      simp only [parseRRs] at h
      obtain ⟨⟨r, p1⟩, hr, h⟩ := Out.bind_eq_ok h
      dsimp only at h
      obtain ⟨⟨rs', p2⟩, hrs, h⟩ := Out.bind_eq_ok h
      cases h
      obtain ⟨a1, a2⟩ := RR.parseCost_ok hb hW hd hr
      obtain ⟨b1, b2⟩ := (ih a2).2 hrs
      simp only [hr]
      exact ⟨by omega, b2⟩

/-- The record sections, one after the other, whatever their counts. -/
theorem rrSectionsCost_le {w : Weights} {L M W : Nat} (hb : Bounded w L M)
    (hW : 3 * M + 18 ≤ 16 * W) {d : Bytes} (hd : d.length ≤ L) (cs : List (Out Nat)) :
    ∀ {pos : Nat}, pos ≤ d.length →
    rrSectionsCost w d cs pos + W * pos ≤ W * d.length + (3 * M + 14) := by
  induction cs with
  | nil =>
    intro pos hp
    have := Nat.mul_le_mul_left W hp
    simp only [rrSectionsCost]; omega
  | cons c cs ih =>
    intro pos hp
    have := Nat.mul_le_mul_left W hp
    cases c with
    | ok n =>
      simp only [rrSectionsCost]
      obtain ⟨a, b⟩ := parseRRsCost_le hb hW hd n hp
      split
      · rename_i rs p hrs
        obtain ⟨b1, b2⟩ := b hrs
        have := ih b2
        omega
      · omega
    | err => simp only [rrSectionsCost]; omega
    | panic => simp only [rrSectionsCost]; omega

/-- **The whole message, any weights.** If a name costs at most `M` and `16 * W ≥ 3 * M + 18`,
the cost of `Packet::parse` is at most `W` per byte after the 12-byte header, plus the constant
`3 * M + 20` (the header, and the one entry on which a rejected message fails). -/
theorem Packet.parseCost_le {w : Weights} {M W : Nat} {d : Bytes} (hb : Bounded w d.length M)
    (hW : 3 * M + 18 ≤ 16 * W) :
    Packet.parseCost w d + 12 * W ≤ W * max d.length 12 + (3 * M + 20) := by
  have h1 := hb.field
  have hcap := hb.cap
  unfold Packet.parseCost Out.thenCost
  split
  · rename_i hdr hh
    have hlen := (Cost.header_opt_none hh).2
    have hmax : max d.length 12 = d.length := by omega
    rw [hmax]
    have h12 := Nat.mul_le_mul_left W hlen
    dsimp only
    split
    · rename_i qd _
      obtain ⟨a, b⟩ := parseQuestionsCost_le hb hW (Nat.le_refl _) qd hlen
      split
      · rename_i r hqs
        obtain ⟨b1, b2⟩ := b (qs := r.1) (p := r.2) hqs
        have := rrSectionsCost_le hb hW (Nat.le_refl _)
          [Peek.answers d, Peek.nameServers d, Peek.additional d] b2
        omega
      · omega
      · omega
    · omega
    · omega
  · have : 12 ≤ max d.length 12 := Nat.le_max_right _ _
    have := Nat.mul_le_mul_left W this
    omega
  · have : 12 ≤ max d.length 12 := Nat.le_max_right _ _
    have := Nat.mul_le_mul_left W this
    omega

/-- a larger per-name cap is still a cap -/
theorem Bounded.mono {w : Weights} {L M M' : Nat} (h : M ≤ M') (hb : Bounded w L M) :
    Bounded w L M' where
  field := hb.field
  item := hb.item
  entry := hb.entry
  name := fun d pos hd => Nat.le_trans (hb.name d pos hd) h
  root := hb.root
  cap := Nat.le_trans hb.cap h

end Time

/-! ### 5. time: the whole-message step bound -/

/-- the per-byte rate of the step bound for a message of `n` bytes:
`⌊(3 * nameCap n + 18) / 16⌋ + 1` — three names of two bytes or more fit in a 16-byte record
(owner pointer, ten fixed bytes, two pointers as the RDATA of a MINFO or RP) -/
def stepRate (n : Nat) : Nat := (3 * nameCap n + 18) / 16 + 1

/-- never more than 3146 units per byte -/
theorem stepRate_le (n : Nat) : stepRate n ≤ 3146 := by
  have := nameCap_le n
  unfold stepRate; omega

/-- **Whole-message step bound, length-dependent form.** For every input `d`, accepted or
rejected, the steps of `Packet::parse` are at most `stepRate d.length` per byte after the 12-byte
header plus `3 * nameCap d.length + 20` (the header and the single entry on which a rejected
message fails). `nameCap n = min n 0x4000 + 384` is the per-name iteration cap, so for messages
below 16 KiB the bound is `(3/16) * n * (n + 384)` up to lower-order terms: quadratic, because a
name can be a chain of about `n / 2` pointers (`chain_steps_100`) and there can be one such name
every 5⅓ bytes. The header counts do not occur in the bound. -/
theorem parseSteps_le_rate (d : Bytes) :
    Packet.parseSteps d + 12 * stepRate d.length ≤
      stepRate d.length * max d.length 12 + (3 * nameCap d.length + 20) :=
  Time.Packet.parseCost_le (Time.stepW_bounded d.length) (by unfold stepRate; omega)

/-- a message too short to hold a header costs one step -/
theorem parseSteps_short (d : Bytes) (h : d.length < 12) : Packet.parseSteps d = 1 := by
  unfold Packet.parseSteps Packet.parseCost Header.parse
  rw [if_pos h]
  rfl

/-- **Whole-message step bound, linear form** (property C01: "time … bounded by a modest linear
function of the input length"). For every byte string `d` — whatever its four header counts say,
whatever pointer chains it contains, accepted or rejected —
`Packet::parse` performs at most `3146 * d.len() + 12572` steps, a step being one iteration of
the `Name::parse` loop, one fixed-size field, one RDATA list item or one entry. The constant 3146
is `⌈(3 * 16768 + 18) / 16⌉`: 16768 iterations is the cap for one name and three such names fit in
16 bytes. -/
theorem parseSteps_linear (d : Bytes) : Packet.parseSteps d ≤ 3146 * d.length + 12572 := by
  by_cases h : d.length < 12
  · rw [parseSteps_short d h]; omega
  · have hb := Time.Bounded.mono (nameCap_le d.length) (Time.stepW_bounded d.length)
    have := Time.Packet.parseCost_le (w := stepW) (W := 3146) hb (by omega)
    have hmax : max d.length 12 = d.length := by omega
    rw [hmax] at this
    unfold Packet.parseSteps
    omega

/-- a message that fits the classic 512-byte UDP limit: at most 170 steps per byte -/
theorem parseSteps_udp512 (d : Bytes) (h : d.length ≤ 512) :
    Packet.parseSteps d ≤ 170 * d.length + 668 := by
  by_cases h12 : d.length < 12
  · rw [parseSteps_short d h12]; omega
  · have hb := Time.Bounded.mono (M' := 896) (by unfold nameCap; omega)
      (Time.stepW_bounded d.length)
    have := Time.Packet.parseCost_le (w := stepW) (W := 170) hb (by omega)
    have hmax : max d.length 12 = d.length := by omega
    rw [hmax] at this
    unfold Packet.parseSteps
    omega

/-- a message that fits the 9000-byte mDNS limit (RFC 6762 section 17): at most 1761 steps per
byte -/
theorem parseSteps_mdns9000 (d : Bytes) (h : d.length ≤ 9000) :
    Packet.parseSteps d ≤ 1761 * d.length + 7040 := by
  by_cases h12 : d.length < 12
  · rw [parseSteps_short d h12]; omega
  · have hb := Time.Bounded.mono (M' := 9384) (by unfold nameCap; omega)
      (Time.stepW_bounded d.length)
    have := Time.Packet.parseCost_le (w := stepW) (W := 1761) hb (by omega)
    have hmax : max d.length 12 = d.length := by omega
    rw [hmax] at this
    unfold Packet.parseSteps
    omega

/-! the header counts alone: a bare 12-byte header -/

/-- `Name::parse` with the cursor at or past the end of the data returns `Err` … -/
theorem Name.parse_past_end {d : Bytes} {pos : Nat} (h : d.length ≤ pos) :
    Name.parse d pos = .err := by
  unfold Name.parse
  rw [nameLoop]
  simp [h]

/-- … after a single iteration -/
theorem Name.steps_past_end {d : Bytes} {pos : Nat} (h : d.length ≤ pos) :
    Name.steps d pos = 1 := by
  unfold Name.steps
  rw [nameLoopSteps]
  simp [NS.init, h]

/-- a question section read at or past the end of the data: nothing if the count is 0, otherwise two
steps (the entry, one loop iteration) and the section fails -/
theorem parseQuestionsCost_past_end {d : Bytes} {pos : Nat} (h : d.length ≤ pos) (n : Nat) :
    parseQuestionsCost stepW d n pos ≤ 2 ∧
    (parseQuestionsCost stepW d n pos = 0 ∨ parseQuestions d n pos = .err) := by
  cases n with
  | zero => simp [parseQuestionsCost]
  | succ n =>
    have hq : Question.parse d pos = .err := by
      unfold Question.parse; rw [Name.parse_past_end h]; rfl
    have hc : Question.parseCost stepW d pos = 2 := by
      unfold Question.parseCost
      rw [Name.parse_past_end h]
      simp [stepW, Name.steps_past_end h]
    simp [parseQuestionsCost, parseQuestions, hq, hc]

/-- the record sections read at or past the end of the data: empty sections cost nothing and the
first non-empty one fails after two steps -/
theorem rrSectionsCost_past_end {d : Bytes} {pos : Nat} (h : d.length ≤ pos)
    (cs : List (Out Nat)) : rrSectionsCost stepW d cs pos ≤ 2 := by
  induction cs with
  | nil => simp [rrSectionsCost]
  | cons c cs ih =>
    cases c with
    | err => simp [rrSectionsCost]
    | panic => simp [rrSectionsCost]
    | ok n =>
      cases n with
      | zero => simpa [rrSectionsCost, parseRRsCost, parseRRs] using ih
      | succ n =>
        have hr : RR.parse d pos = .err := by
          unfold RR.parse; rw [Name.parse_past_end h]; rfl
        have hc : RR.parseCost stepW d pos = 2 := by
          unfold RR.parseCost
          rw [Name.parse_past_end h]
          simp [stepW, Name.steps_past_end h]
        simp [rrSectionsCost, parseRRsCost, parseRRs, hr, hc]

/-- **Header counts alone drive nothing.** A message that consists of a 12-byte header costs at
most 8 steps whatever its four counts announce — 65535 questions and 3 × 65535 records included:
the first entry that is looked for is not there and the parse ends. -/
theorem parseSteps_header_only (d : Bytes) (h : d.length ≤ 12) : Packet.parseSteps d ≤ 8 := by
  unfold Packet.parseSteps Packet.parseCost Out.thenCost
  split
  · rename_i hh
    have hlen := (Cost.header_opt_none hh).2
    dsimp only
    split
    · rename_i qd _
      obtain ⟨a, b⟩ := parseQuestionsCost_past_end (pos := 12) h qd
      split
      · rename_i r hr
        have hp := (Cost.parseQuestions_cost (qs := r.1) (p := r.2) hlen hr).1
        have := rrSectionsCost_past_end (d := d) (pos := r.2) (by omega)
          [Peek.answers d, Peek.nameServers d, Peek.additional d]
        rcases b with b | b
        · simp only [stepW] at *; omega
        · rw [b] at hr; cases hr
      · simp only [stepW] at *; omega
      · simp only [stepW] at *; omega
    · simp [stepW]
    · simp [stepW]
  · simp [stepW]
  · simp [stepW]

/-! ### 6. heap: the allocation bound without the success hypothesis -/

/-- **Allocation bound for every input** (the counterpart of `parse_alloc_units_linear`,
Props/C01Cost.lean, which needs `Packet.parse d = .ok p`). The labels pushed, RDATA list items
and section entries created by `Packet::parse` up to the point where it returns — with a packet or
with an error — are at most 35 per byte of the input, and in fact at most `26 * d.len() + 92`. -/
theorem parseAlloc_linear (d : Bytes) :
    Packet.parseAlloc d ≤ 35 * d.length ∧ Packet.parseAlloc d ≤ 26 * d.length + 92 := by
  by_cases h : d.length < 12
  · have : Packet.parseAlloc d = 0 := by
      unfold Packet.parseAlloc Packet.parseCost Header.parse
      rw [if_pos h]
      rfl
    omega
  · have h35 := Time.Packet.parseCost_le (w := allocW) (W := 35) (Time.allocW_bounded d.length)
      (by omega)
    have h26 := Time.Packet.parseCost_le (w := allocW) (W := 26) (Time.allocW_bounded d.length)
      (by omega)
    have hmax : max d.length 12 = d.length := by omega
    rw [hmax] at h35 h26
    unfold Packet.parseAlloc
    omega

/-! `parseAlloc` agrees with `allocUnits` (Lemmas/Cost.lean) on accepted messages -/

namespace Time

/-- an accepted TXT loop counted one item per string it returns -/
theorem strsLoop_alloc {d : Bytes} {pos : Nat} {acc ss : List Bytes} {p : Nat}
    (h : strsLoop d pos acc = .ok (ss, p)) :
    ss.length = acc.length + strsLoopCost allocW d pos := by
  fun_induction strsLoop d pos acc
  · rename_i hlt s p' hcs ih
    have := ih h
    rw [strsLoopCost, dif_pos hlt]
    split
    · rename_i heq
      rw [hcs] at heq
      cases heq
      simp only [List.length_cons] at this
      simp only [allocW] at this ⊢
      omega
    · rename_i heq; rw [hcs] at heq; cases heq
    · rename_i heq; rw [hcs] at heq; cases heq
  · cases h
  · cases h
  · rename_i hge
    cases h
    rw [strsLoopCost, dif_neg hge]
    simp

/-- an accepted NSEC / SVCB loop counted one item per window / parameter it returns -/
theorem tlvsLoop_alloc {d : Bytes} {kw lw : Nat} {strict : Bool} {pos : Nat}
    {acc xs : List (Nat × Bytes)} {p : Nat}
    (h : tlvsLoop d kw lw strict pos acc = .ok (xs, p)) :
    xs.length = acc.length + tlvsLoopCost allocW d kw lw strict pos acc := by
  fun_induction tlvsLoop d kw lw strict pos acc
  · cases h
  · rename_i hk hlt x p' hone ih
    have := ih h
    rw [tlvsLoopCost, dif_neg hk, dif_pos hlt]
    split
    · rename_i heq
      rw [hone] at heq
      cases heq
      simp only [List.length_cons] at this
      simp only [allocW] at this ⊢
      omega
    · rename_i heq; rw [hone] at heq; cases heq
    · rename_i heq; rw [hone] at heq; cases heq
  · cases h
  · cases h
  · rename_i hk hge
    cases h
    rw [tlvsLoopCost, dif_neg hk, dif_neg hge]
    simp

/-- an accepted OPT loop counted one item per option it returns -/
theorem optLoop_alloc {d : Bytes} {pos : Nat} {acc xs : List (Nat × Bytes)} {p : Nat}
    (h : optLoop d pos acc = .ok (xs, p)) :
    xs.length = acc.length + optLoopCost allocW d pos := by
  fun_induction optLoop d pos acc
  · rename_i hlt x p' hone ih
    have := ih h
    rw [optLoopCost, dif_pos hlt]
    split
    · rename_i heq
      rw [hone] at heq
      cases heq
      simp only [List.length_cons] at this
      simp only [allocW] at this ⊢
      omega
    · rename_i heq; rw [hone] at heq; cases heq
    · rename_i heq; rw [hone] at heq; cases heq
  · cases h
  · cases h
  · rename_i hge
    cases h
    rw [optLoopCost, dif_neg hge]
    simp

/-- an accepted field allocates its list items and the labels of its name -/
theorem decField_alloc {d : Bytes} {k : FKind} {pos : Nat} {v : Val} {p : Nat}
    (h : decField d k pos = .ok (v, p)) : decFieldCost allocW d k pos = v.items + v.labels := by
  cases k with
  | int w =>
    simp only [decField] at h
    split at h
    · cases h
    · obtain ⟨s, _, h⟩ := Out.bind_eq_ok h
      cases h; simp [decFieldCost, allocW, Val.items, Val.labels]
  | charstr =>
    simp only [decField] at h
    obtain ⟨⟨s, q⟩, hs, h⟩ := Out.bind_eq_ok h
    cases h; simp [decFieldCost, allocW, Val.items, Val.labels]
  | name c =>
    simp only [decField] at h
    obtain ⟨⟨s, q⟩, hs, h⟩ := Out.bind_eq_ok h
    cases h; simp [decFieldCost, allocW, Val.items, Val.labels, Name.pushes_ok hs]
  | rest =>
    simp only [decField] at h
    obtain ⟨s, hs, h⟩ := Out.bind_eq_ok h
    cases h; simp [decFieldCost, allocW, Val.items, Val.labels]
  | strs =>
    simp only [decField] at h
    obtain ⟨⟨s, q⟩, hs, h⟩ := Out.bind_eq_ok h
    have := strsLoop_alloc hs
    cases h; simp [decFieldCost, Val.items, Val.labels] at this ⊢
    simp only [allocW] at this ⊢; omega
  | tlvs kw lw strict =>
    simp only [decField] at h
    obtain ⟨⟨s, q⟩, hs, h⟩ := Out.bind_eq_ok h
    have := tlvsLoop_alloc hs
    cases h; simp [decFieldCost, Val.items, Val.labels] at this ⊢
    simp only [allocW] at this ⊢; omega

/-- an accepted layout allocates the list items and name labels of its fields -/
theorem decAll_alloc {d : Bytes} (ks : List FKind) : ∀ {pos : Nat} {vs : List Val} {p : Nat},
    decAll d ks pos = .ok (vs, p) →
    decAllCost allocW d ks pos = (vs.map Val.items).sum + (vs.map Val.labels).sum := by
  induction ks with
  | nil =>
    intro pos vs p h
    simp only [decAll] at h
    cases h; simp [decAllCost]
  | cons k ks ih =>
    intro pos vs p h
    simp only [decAll] at h
    obtain ⟨⟨v, q⟩, hv, h⟩ := Out.bind_eq_ok h
    dsimp only at h
    obtain ⟨⟨vs', q'⟩, hvs, h⟩ := Out.bind_eq_ok h
    cases h
    have e1 := decField_alloc hv
    have e2 := ih hvs
    simp only [decAllCost, hv, List.map_cons, List.sum_cons]
    omega

/-- an accepted IPSECKEY allocates the labels of its gateway name -/
theorem ipseckey_alloc {d : Bytes} {pos : Nat} {rd : RData} {p : Nat}
    (h : ipseckeyParse d pos = .ok (rd, p)) :
    ipseckeyCost allocW d pos = rd.itemCount + rd.nameLabels := by
  unfold ipseckeyParse at h
  unfold ipseckeyCost
  split at h
  · cases h
  · rename_i hlen
    rw [if_neg hlen]
    obtain ⟨prec, _, h⟩ := Out.bind_eq_ok h
    obtain ⟨gt, hgt, h⟩ := Out.bind_eq_ok h
    obtain ⟨alg, _, h⟩ := Out.bind_eq_ok h
    dsimp only at h
    obtain ⟨⟨gw, q⟩, hg, h⟩ := Out.bind_eq_ok h
    obtain ⟨key, _, h⟩ := Out.bind_eq_ok h
    cases h
    simp only [hgt, RData.itemCount, RData.nameLabels]
    split at hg
    · rename_i heq
      cases hg
      rw [if_neg (by omega)]; simp [allocW, Gateway.labels]
    · rename_i heq
      rw [if_neg (by omega)]
      split at hg
      · cases hg
      · obtain ⟨s, _, hg⟩ := Out.bind_eq_ok hg
        cases hg; simp [allocW, Gateway.labels]
    · rename_i heq
      rw [if_neg (by omega)]
      split at hg
      · cases hg
      · obtain ⟨s, _, hg⟩ := Out.bind_eq_ok hg
        cases hg; simp [allocW, Gateway.labels]
    · rename_i heq
      rw [if_pos heq]
      obtain ⟨⟨n, q'⟩, hn, hg⟩ := Out.bind_eq_ok hg
      cases hg
      simp [allocW, Gateway.labels, Name.pushes_ok hn]
    · cases hg

/-- `parse_rdata`, accepted: the allocation count is `itemCount + nameLabels` of the value -/
theorem parseTyped_alloc {d : Bytes} {pos : Nat} {t : TYPE} {rd : RData} {q : Nat}
    (h : parseTyped d pos t = .ok (rd, q)) :
    parseTypedCost allocW d pos t = rd.itemCount + rd.nameLabels := by
  unfold parseTyped at h
  unfold parseTypedCost
  split at h
  · dsimp only
    exact ipseckey_alloc h
  · obtain ⟨s, _, h⟩ := Out.bind_eq_ok h
    split at h
    · cases h
    · cases h; simp [allocW, RData.itemCount, RData.nameLabels]
  · obtain ⟨s, _, h⟩ := Out.bind_eq_ok h
    split at h
    · cases h
    · cases h; simp [allocW, RData.itemCount, RData.nameLabels]
  · cases h
  · split at h
    · cases h
    · rename_i ks hs
      obtain ⟨⟨vs, p⟩, hdec, h⟩ := Out.bind_eq_ok h
      dsimp only at h
      split at h
      · cases h
        simp only [hs, RData.itemCount, RData.nameLabels]
        exact decAll_alloc ks hdec
      · cases h

/-- `OPT::parse`, accepted: one unit per option -/
theorem optParse_alloc {d : Bytes} {pos : Nat} {rd : RData} {p : Nat}
    (h : optParse d pos = .ok (rd, p)) :
    optParseCost allocW d pos = rd.itemCount + rd.nameLabels := by
  unfold optParse at h
  unfold optParseCost
  split at h
  · cases h
  · rename_i hlen
    rw [if_neg hlen]
    obtain ⟨ub, _, h⟩ := Out.bind_eq_ok h
    obtain ⟨tb, _, h⟩ := Out.bind_eq_ok h
    dsimp only at h
    obtain ⟨⟨codes, q⟩, hl, h⟩ := Out.bind_eq_ok h
    cases h
    have := optLoop_alloc hl
    simp only [RData.itemCount, RData.nameLabels, List.length_nil] at this ⊢
    simp only [allocW] at this ⊢
    omega

/-- `RData::parse`, accepted: the allocation count is `itemCount + nameLabels` of the value -/
theorem RData.parse_alloc {d : Bytes} {pos : Nat} {rd : RData} {p : Nat}
    (h : RData.parse d pos = .ok (rd, p)) :
    RData.parseCost allocW d pos = rd.itemCount + rd.nameLabels := by
  unfold RData.parse at h
  unfold RData.parseCost
  split at h
  · cases h
  · rename_i hlen
    rw [if_neg hlen]
    obtain ⟨tb, htb, h⟩ := Out.bind_eq_ok h
    dsimp only at h
    obtain ⟨lb, hlb, h⟩ := Out.bind_eq_ok h
    simp only [htb, hlb]
    split at h
    · cases h
    · rename_i hfit
      rw [if_neg hfit]
      split at h
      · rename_i hopt
        rw [if_pos hopt]
        have := optParse_alloc h
        simp only [allocW] at this ⊢
        omega
      · rename_i hopt
        rw [if_neg hopt]
        split at h
        · rename_i h0
          rw [if_pos h0]
          cases h
          simp [allocW, RData.itemCount, RData.nameLabels]
        · rename_i h0
          rw [if_neg h0]
          obtain ⟨⟨rd', q⟩, hpt, h⟩ := Out.bind_eq_ok h
          cases h
          have := parseTyped_alloc hpt
          simp only [allocW] at this ⊢
          omega

/-- `Question::parse`, accepted: the allocation count is `Question.units` -/
theorem Question.parse_alloc {d : Bytes} {pos : Nat} {q : Question} {p : Nat}
    (h : Question.parse d pos = .ok (q, p)) : Question.parseCost allocW d pos = q.units := by
  unfold Question.parse at h
  obtain ⟨⟨name, ne⟩, hname, h⟩ := Out.bind_eq_ok h
  dsimp only at h
  unfold Question.parseCost
  simp only [hname, Out.thenCost_ok]
  split at h
  · cases h
  · obtain ⟨tb, _, h⟩ := Out.bind_eq_ok h
    obtain ⟨cb, _, h⟩ := Out.bind_eq_ok h
    obtain ⟨qt, _, h⟩ := Out.bind_eq_ok h
    obtain ⟨qc, _, h⟩ := Out.bind_eq_ok h
    cases h
    have := Name.pushes_ok hname
    simp only [Question.units, allocW] at this ⊢
    split <;> omega

/-- `ResourceRecord::parse`, accepted: the allocation count is `RR.units` -/
theorem RR.parse_alloc {d : Bytes} {pos : Nat} {r : RR} {p : Nat}
    (h : RR.parse d pos = .ok (r, p)) : RR.parseCost allocW d pos = r.units := by
  unfold RR.parse at h
  obtain ⟨⟨name, ne⟩, hname, h⟩ := Out.bind_eq_ok h
  dsimp only at h
  unfold RR.parseCost
  simp only [hname, Out.thenCost_ok]
  split at h
  · cases h
  · rename_i hfit
    rw [if_neg hfit]
    obtain ⟨cb, _, h⟩ := Out.bind_eq_ok h
    obtain ⟨tb, _, h⟩ := Out.bind_eq_ok h
    obtain ⟨⟨rdata, p'⟩, hrd, h⟩ := Out.bind_eq_ok h
    dsimp only at h
    have e1 := Name.pushes_ok hname
    have e2 := RData.parse_alloc hrd
    unfold RR.tailCost
    split at h
    · cases h
      simp only [RR.units, allocW] at e1 e2 ⊢
      omega
    · obtain ⟨cls, _, h⟩ := Out.bind_eq_ok h
      cases h
      simp only [RR.units, allocW] at e1 e2 ⊢
      omega

/-- an accepted question section: the sum of the units of its questions -/
theorem parseQuestions_alloc {d : Bytes} (n : Nat) : ∀ {pos : Nat} {qs : List Question} {p : Nat},
    parseQuestions d n pos = .ok (qs, p) →
    parseQuestionsCost allocW d n pos = (qs.map Question.units).sum := by
  induction n with
  | zero =>
    intro pos qs p h
    simp only [parseQuestions] at h
    cases h; simp [parseQuestionsCost]
  | succ n ih =>
    intro pos qs p h
    simp only [parseQuestions] at h
    obtain ⟨⟨q, p1⟩, hq, h⟩ := Out.bind_eq_ok h
    dsimp only at h
    obtain ⟨⟨qs', p2⟩, hqs, h⟩ := Out.bind_eq_ok h
    cases h
    have e1 := Question.parse_alloc hq
    have e2 := ih hqs
    simp only [parseQuestionsCost, hq, List.map_cons, List.sum_cons]
    omega

/-- an accepted record section: the sum of the units of its records -/
theorem parseRRs_alloc {d : Bytes} (n : Nat) : ∀ {pos : Nat} {rs : List RR} {p : Nat},
    parseRRs d n pos = .ok (rs, p) →
    parseRRsCost allocW d n pos = (rs.map RR.units).sum := by
  induction n with
  | zero =>
    intro pos rs p h
    simp only [parseRRs] at h
    cases h; simp [parseRRsCost]
  | succ n ih =>
    intro pos rs p h
    simp only [parseRRs] at h
    obtain ⟨⟨r, p1⟩, hr, h⟩ := Out.bind_eq_ok h
    dsimp only at h
    obtain ⟨⟨rs', p2⟩, hrs, h⟩ := Out.bind_eq_ok h
    cases h
    have e1 := RR.parse_alloc hr
    have e2 := ih hrs
    simp only [parseRRsCost, hr, List.map_cons, List.sum_cons]
    omega

end Time

/-- **`parseAlloc` is `allocUnits` on accepted messages**, up to the owner name of the OPT record:
when `Packet::parse` returns a packet, the count of `parseAlloc` is exactly the units of all
questions and records that were parsed (the OPT record counted where it stood in the additional
section), and `allocUnits` of the returned packet — in which the OPT record has been moved to the
header and its owner name dropped — is at most that. -/
theorem parseAlloc_ok {d : Bytes} {p : Packet} (h : Packet.parse d = .ok p) :
    allocUnits p ≤ Packet.parseAlloc d := by
  unfold Packet.parse at h
  obtain ⟨h0, hh0, h⟩ := Out.bind_eq_ok h
  obtain ⟨qd, hqd, h⟩ := Out.bind_eq_ok h
  obtain ⟨⟨qs, p1⟩, hqs, h⟩ := Out.bind_eq_ok h
  dsimp only at h
  obtain ⟨an, han, h⟩ := Out.bind_eq_ok h
  obtain ⟨⟨as, p2⟩, has, h⟩ := Out.bind_eq_ok h
  dsimp only at h
  obtain ⟨ns, hns, h⟩ := Out.bind_eq_ok h
  obtain ⟨⟨nss, p3⟩, hnss, h⟩ := Out.bind_eq_ok h
  dsimp only at h
  obtain ⟨ar, har, h⟩ := Out.bind_eq_ok h
  obtain ⟨⟨all, p4⟩, hall, h⟩ := Out.bind_eq_ok h
  dsimp only at h
  obtain ⟨h1, hh1, h⟩ := Out.bind_eq_ok h
  cases h
  obtain ⟨hnone, _⟩ := Cost.header_opt_none hh0
  obtain ⟨_, l2⟩ := Cost.liftOpt_cost RR.units all
  obtain ⟨_, e2, _⟩ := Cost.extractOpt_cost hnone hh1
  have c1 := Time.parseQuestions_alloc qd hqs
  have c2 := Time.parseRRs_alloc an has
  have c3 := Time.parseRRs_alloc ns hnss
  have c4 := Time.parseRRs_alloc ar hall
  unfold Packet.parseAlloc Packet.parseCost
  simp only [hh0, hqd, hqs, han, hns, har, has, hnss, hall, Out.thenCost_ok, rrSectionsCost]
  dsimp only [allocUnits]
  simp only [allocW] at c1 c2 c3 c4 ⊢
  omega

/-! ### 7. every allocation is a step -/

/-- the loop pushes at most one label per iteration, and none in the last -/
theorem nameLoopPushes_lt_steps (d : Bytes) (s : NS) :
    nameLoopPushes d s + 1 ≤ nameLoopSteps d s := by
  fun_induction nameLoopPushes d s
  all_goals try (have := nameLoopSteps_pos d ‹NS›; omega)
  · rename_i pos _ _ _ ptr hlt ih
    rw [nameLoopSteps]; simp [*]
    simp only [ptr, ge_iff_le] at hlt
    simp only [if_neg hlt]
    simp only [ptr, pos, dite_eq_ite] at ih ⊢
    omega
  · rename_i len hfit h63 lab ih
    rw [nameLoopSteps]; simp [*]
    simp only [len, gt_iff_lt] at hfit h63
    simp only [if_neg hfit, if_neg h63]
    simp only [len, lab, dite_eq_ite] at ih ⊢
    omega

namespace Time

/-- `w` counts no more than `w'` -/
structure WLe (w w' : Weights) : Prop where
  field : w.field ≤ w'.field
  item : w.item ≤ w'.item
  entry : w.entry ≤ w'.entry
  name : ∀ d pos, w.name d pos ≤ w'.name d pos

/-- allocations are counted by the steps: a label push is an iteration of the name loop, an item
or an entry is a unit of either count -/
theorem allocW_le_stepW : WLe allocW stepW where
  field := Nat.zero_le _
  item := Nat.le_refl _
  entry := Nat.le_refl _
  name := fun d pos => by
    have := nameLoopPushes_lt_steps d (NS.init pos)
    show Name.pushes d pos ≤ Name.steps d pos
    unfold Name.pushes Name.steps
    omega

/-- the cost functions are monotone in the weights: the TXT loop -/
theorem strsLoopCost_mono {w w' : Weights} (h : WLe w w') (d : Bytes) (pos : Nat) :
    strsLoopCost w d pos ≤ strsLoopCost w' d pos := by
  have hi := h.item
  fun_induction strsLoopCost w d pos
  · rename_i hlt s p hcs ih
    rw [strsLoopCost.eq_1 w' d, dif_pos hlt]
    split
    · rename_i heq; rw [hcs] at heq; cases heq; omega
    · rename_i heq; rw [hcs] at heq; cases heq
    · rename_i heq; rw [hcs] at heq; cases heq
  · rename_i hlt hcs
    rw [strsLoopCost.eq_1 w' d, dif_pos hlt]
    split
    · rename_i heq; rw [hcs] at heq; cases heq
    · exact hi
    · exact hi
  · rename_i hlt hcs
    rw [strsLoopCost.eq_1 w' d, dif_pos hlt]
    split
    · rename_i heq; rw [hcs] at heq; cases heq
    · exact hi
    · exact hi
  · exact Nat.zero_le _

/-- monotone in the weights: the NSEC / SVCB loops -/
theorem tlvsLoopCost_mono {w w' : Weights} (h : WLe w w') (d : Bytes) (kw lw : Nat)
    (strict : Bool) (pos : Nat) (acc : List (Nat × Bytes)) :
    tlvsLoopCost w d kw lw strict pos acc ≤ tlvsLoopCost w' d kw lw strict pos acc := by
  have hi := h.item
  fun_induction tlvsLoopCost w d kw lw strict pos acc
  · exact Nat.zero_le _
  · rename_i hk hlt x p hone ih
    rw [tlvsLoopCost.eq_1 w' d, dif_neg hk, dif_pos hlt]
    split
    · rename_i heq; rw [hone] at heq; cases heq; omega
    · rename_i heq; rw [hone] at heq; cases heq
    · rename_i heq; rw [hone] at heq; cases heq
  · rename_i hk hlt hone
    rw [tlvsLoopCost.eq_1 w' d, dif_neg hk, dif_pos hlt]
    split
    · rename_i heq; rw [hone] at heq; cases heq
    · exact hi
    · exact hi
  · rename_i hk hlt hone
    rw [tlvsLoopCost.eq_1 w' d, dif_neg hk, dif_pos hlt]
    split
    · rename_i heq; rw [hone] at heq; cases heq
    · exact hi
    · exact hi
  · exact Nat.zero_le _

/-- monotone in the weights: the OPT loop -/
theorem optLoopCost_mono {w w' : Weights} (h : WLe w w') (d : Bytes) (pos : Nat) :
    optLoopCost w d pos ≤ optLoopCost w' d pos := by
  have hi := h.item
  fun_induction optLoopCost w d pos
  · rename_i hlt x p hone ih
    rw [optLoopCost.eq_1 w' d, dif_pos hlt]
    split
    · rename_i heq; rw [hone] at heq; cases heq; omega
    · rename_i heq; rw [hone] at heq; cases heq
    · rename_i heq; rw [hone] at heq; cases heq
  · rename_i hlt hone
    rw [optLoopCost.eq_1 w' d, dif_pos hlt]
    split
    · rename_i heq; rw [hone] at heq; cases heq
    · exact hi
    · exact hi
  · rename_i hlt hone
    rw [optLoopCost.eq_1 w' d, dif_pos hlt]
    split
    · rename_i heq; rw [hone] at heq; cases heq
    · exact hi
    · exact hi
  · exact Nat.zero_le _

/-- monotone in the weights: one field -/
theorem decFieldCost_mono {w w' : Weights} (h : WLe w w') (d : Bytes) (k : FKind) (pos : Nat) :
    decFieldCost w d k pos ≤ decFieldCost w' d k pos := by
  have h1 := h.field
  cases k with
  | int _ => simpa only [decFieldCost] using h1
  | charstr => simpa only [decFieldCost] using h1
  | rest => simpa only [decFieldCost] using h1
  | name c =>
    have := h.name d pos
    simp only [decFieldCost]; omega
  | strs =>
    have := strsLoopCost_mono h d pos
    simp only [decFieldCost]; omega
  | tlvs kw lw strict =>
    have := tlvsLoopCost_mono h d kw lw strict pos []
    simp only [decFieldCost]; omega

/-- monotone in the weights: a layout -/
theorem decAllCost_mono {w w' : Weights} (h : WLe w w') (d : Bytes) (ks : List FKind) :
    ∀ pos, decAllCost w d ks pos ≤ decAllCost w' d ks pos := by
  induction ks with
  | nil => intro pos; simp [decAllCost]
  | cons k ks ih =>
    intro pos
    have := decFieldCost_mono h d k pos
    simp only [decAllCost]
    split
    · rename_i v p hv
      have := ih p
      omega
    · omega

/-- monotone in the weights: `IPSECKEY::parse` -/
theorem ipseckeyCost_mono {w w' : Weights} (h : WLe w w') (d : Bytes) (pos : Nat) :
    ipseckeyCost w d pos ≤ ipseckeyCost w' d pos := by
  have h1 := h.field
  have := h.name d (pos + 3)
  unfold ipseckeyCost
  split
  · exact h1
  · split
    · split <;> omega
    · exact h1

/-- monotone in the weights: `parse_rdata` -/
theorem parseTypedCost_mono {w w' : Weights} (h : WLe w w') (d : Bytes) (pos : Nat) (t : TYPE) :
    parseTypedCost w d pos t ≤ parseTypedCost w' d pos t := by
  have h1 := h.field
  unfold parseTypedCost
  split
  · exact ipseckeyCost_mono h d pos
  · exact h1
  · exact h1
  · exact Nat.le_refl _
  · split
    · exact Nat.le_refl _
    · exact decAllCost_mono h d _ pos

/-- monotone in the weights: `OPT::parse` -/
theorem optParseCost_mono {w w' : Weights} (h : WLe w w') (d : Bytes) (pos : Nat) :
    optParseCost w d pos ≤ optParseCost w' d pos := by
  have h1 := h.field
  have := optLoopCost_mono h d (pos + 10)
  unfold optParseCost
  split <;> omega

/-- monotone in the weights: `RData::parse` -/
theorem RData.parseCost_mono {w w' : Weights} (h : WLe w w') (d : Bytes) (pos : Nat) :
    RData.parseCost w d pos ≤ RData.parseCost w' d pos := by
  have h1 := h.field
  unfold RData.parseCost
  split
  · exact h1
  · split
    · rename_i tb lb _ _
      dsimp only
      have := optParseCost_mono h (d.take (pos + deN lb + 10)) pos
      have := parseTypedCost_mono h (d.take (pos + 10 + deN lb)) (pos + 10)
        (TYPE.ofCode (deN tb))
      split
      · omega
      · split
        · omega
        · split <;> omega
    · exact h1

/-- monotone in the weights: `Question::parse` -/
theorem Question.parseCost_mono {w w' : Weights} (h : WLe w w') (d : Bytes) (pos : Nat) :
    Question.parseCost w d pos ≤ Question.parseCost w' d pos := by
  have h1 := h.field
  have h2 := h.entry
  have h3 := h.name d pos
  unfold Question.parseCost Out.thenCost
  split <;> (try dsimp only) <;> (try split) <;> omega

/-- monotone in the weights: `ResourceRecord::parse` -/
theorem RR.parseCost_mono {w w' : Weights} (h : WLe w w') (d : Bytes) (pos : Nat) :
    RR.parseCost w d pos ≤ RR.parseCost w' d pos := by
  have h1 := h.field
  have h2 := h.entry
  have h3 := h.name d pos
  unfold RR.parseCost Out.thenCost
  split
  · rename_i r _
    have := RData.parseCost_mono h d r.2
    unfold RR.tailCost
    dsimp only
    split <;> omega
  · omega
  · omega

/-- monotone in the weights: the question section -/
theorem parseQuestionsCost_mono {w w' : Weights} (h : WLe w w') (d : Bytes) (n : Nat) :
    ∀ pos, parseQuestionsCost w d n pos ≤ parseQuestionsCost w' d n pos := by
  induction n with
  | zero => intro pos; simp [parseQuestionsCost]
  | succ n ih =>
    intro pos
    have := Question.parseCost_mono h d pos
    simp only [parseQuestionsCost]
    split
    · rename_i q p hq
      have := ih p
      omega
    · omega

/-- monotone in the weights: a record section -/
theorem parseRRsCost_mono {w w' : Weights} (h : WLe w w') (d : Bytes) (n : Nat) :
    ∀ pos, parseRRsCost w d n pos ≤ parseRRsCost w' d n pos := by
  induction n with
  | zero => intro pos; simp [parseRRsCost]
  | succ n ih =>
    intro pos
    have := RR.parseCost_mono h d pos
    simp only [parseRRsCost]
    split
    · rename_i r p hr
      have := ih p
      omega
    · omega

/-- monotone in the weights: the three record sections -/
theorem rrSectionsCost_mono {w w' : Weights} (h : WLe w w') (d : Bytes) (cs : List (Out Nat)) :
    ∀ pos, rrSectionsCost w d cs pos ≤ rrSectionsCost w' d cs pos := by
  induction cs with
  | nil => intro pos; simp [rrSectionsCost]
  | cons c cs ih =>
    intro pos
    cases c with
    | ok n =>
      have := parseRRsCost_mono h d n pos
      simp only [rrSectionsCost]
      split
      · rename_i rs p hrs
        have := ih p
        omega
      · omega
    | err => simp [rrSectionsCost]
    | panic => simp [rrSectionsCost]

/-- monotone in the weights: `Packet::parse` -/
theorem Packet.parseCost_mono {w w' : Weights} (h : WLe w w') (d : Bytes) :
    Packet.parseCost w d ≤ Packet.parseCost w' d := by
  have h1 := h.field
  unfold Packet.parseCost Out.thenCost
  split
  · dsimp only
    split
    · rename_i qd _
      have := parseQuestionsCost_mono h d qd 12
      split
      · rename_i r _
        have := rrSectionsCost_mono h d
          [Peek.answers d, Peek.nameServers d, Peek.additional d] r.2
        omega
      · omega
      · omega
    · omega
    · omega
  · omega
  · omega

end Time

/-- **Every allocation is a step**: for every input the allocation count of `Packet::parse` is
at most its step count, so the step bounds of section 5 bound the peak heap as well. -/
theorem parseAlloc_le_parseSteps (d : Bytes) : Packet.parseAlloc d ≤ Packet.parseSteps d :=
  Time.Packet.parseCost_mono Time.allocW_le_stepW d

/-- an accepted message takes at least as many steps as the packet it yields has allocation units:
the step count is not vacuous -/
theorem allocUnits_le_parseSteps {d : Bytes} {p : Packet} (h : Packet.parse d = .ok p) :
    allocUnits p ≤ Packet.parseSteps d :=
  Nat.le_trans (parseAlloc_ok h) (parseAlloc_le_parseSteps d)

/-! ### 8. the counts and the bounds on a concrete message

`c05Msg` (Props/C05.lean, 37 bytes): the question `www. A IN` and the answer `www. A IN 60 1.2.3.4`
whose owner name is a pointer to offset 12. -/

/-- the question name `www.` at offset 12: two iterations (the label, the root) -/
theorem c05Msg_steps12 : Name.steps c05Msg 12 = 2 :=
  nameLoopSteps_eq_of_fuel (r := .ok ([[119, 119, 119]], 17)) (by decide +kernel)
    (by decide +kernel)

/-- the owner name of the answer at offset 21: three iterations (the pointer, the label, the root) -/
theorem c05Msg_steps21 : Name.steps c05Msg 21 = 3 :=
  nameLoopSteps_eq_of_fuel (r := .ok ([[119, 119, 119]], 23)) (by decide +kernel)
    (by decide +kernel)

/-- the question costs 5 steps: the entry, two iterations for `www.`, QTYPE, QCLASS -/
theorem c05Msg_question_steps : Question.parseCost stepW c05Msg 12 = 5 := by
  unfold Question.parseCost
  rw [c05Msg_name12]
  simp only [Out.thenCost_ok, stepW, c05Msg_steps12]
  decide

/-- the answer costs 9 steps: the entry, three iterations for its owner name (pointer, `www`,
root), CLASS, TTL, TYPE, RDLENGTH and the one field of an A record -/
theorem c05Msg_record_steps : RR.parseCost stepW c05Msg 21 = 9 := by
  have hrd : RData.parseCost stepW c05Msg 23 = 3 := by decide +kernel
  unfold RR.parseCost
  rw [c05Msg_name21]
  simp only [Out.thenCost_ok, RR.tailCost, hrd]
  simp only [stepW, c05Msg_steps21]
  decide

/-- **`Packet::parse` on `c05Msg` takes exactly 20 steps**: 6 for the header, 5 for the question,
9 for the answer. -/
theorem c05Msg_parseSteps : Packet.parseSteps c05Msg = 20 := by
  have hh : Header.parse c05Msg =
      .ok { id := 0x1234, opcode := .StandardQuery, rcode := .NoError, flags := 0x0100,
            opt := none } := by decide +kernel
  have h1 : Peek.questions c05Msg = .ok 1 := by decide +kernel
  have h2 : Peek.answers c05Msg = .ok 1 := by decide +kernel
  have h3 : Peek.nameServers c05Msg = .ok 0 := by decide +kernel
  have h4 : Peek.additional c05Msg = .ok 0 := by decide +kernel
  unfold Packet.parseSteps Packet.parseCost
  rw [hh, h1, h2, h3, h4]
  simp only [Out.thenCost_ok, parseQuestionsCost, parseQuestions, c05Msg_question,
    c05Msg_question_steps, Out.bind_ok, Out.pure_eq, rrSectionsCost, parseRRsCost, parseRRs,
    c05Msg_record, c05Msg_record_steps]
  decide

/-- the bounds on it: 20 ≤ 170 * 37 + 668 ≤ 3146 * 37 + 12572 -/
example : Packet.parseSteps c05Msg ≤ 170 * c05Msg.length + 668 :=
  parseSteps_udp512 c05Msg (by decide)

/-- its allocation count is the `allocUnits` of the parsed packet: two entries, two labels -/
example : ∃ p, Packet.parse c05Msg = .ok p ∧ allocUnits p = 4 ∧
    allocUnits p ≤ Packet.parseAlloc c05Msg ∧ Packet.parseAlloc c05Msg ≤ 35 * c05Msg.length :=
  ⟨_, c05Msg_parse, by decide, parseAlloc_ok c05Msg_parse, (parseAlloc_linear c05Msg).1⟩

/-- a bare header that announces 65535 entries in each of the four sections -/
example : Packet.parseSteps [0, 0, 0, 0, 255, 255, 255, 255, 255, 255, 255, 255] ≤ 8 :=
  parseSteps_header_only _ (by decide)

/-- the hypothesis of `Name.steps_one_byte` holds for the root name -/
example : Name.parse [0] 0 = .ok ([], 0 + 1) ∧ Name.steps [0] 0 = 1 := by
  have h : Name.parse [0] 0 = .ok ([], 0 + 1) := by
    unfold Name.parse
    rw [nameLoop]; simp
  exact ⟨h, Name.steps_one_byte h⟩

/-- the hypothesis of `parseSteps_short` -/
example : Packet.parseSteps [1, 2, 3] = 1 := parseSteps_short _ (by decide)

end Dns
