/-
C20 (continued) — cached discovery records expire on time: the combined filter, the clock, the
network path.

1. What a query for a record's own name returns, for EVERY filter, read through the abstract view
   `abs` (`query_iff_abs`, `query_self_iff`), with the three filters the crate constructs as
   corollaries (`all_query_iff`, `auth_query_iff`).
2. The clock.  `match_filter` of `simple-mdns/src/resource_record_manager.rs` calls `Instant::now()`
   once per visited cache entry, the model's `getDomain` takes one `now` per query.
   `Store.getDomainClk` is the query with one clock reading per visited entry; it coincides with
   `getDomain` when the readings agree, and if all readings lie in `[lo, hi]` its result lies
   between the model's results at `hi` and at `lo` (`getDomainClk_sandwich`), which rests on the
   result being antitone in time (`getDomain_antitone`, `getDomain_antitone_sublist`).  Operations
   that do not concern a record do not take it out of any query result
   (`query_preserved_untouched`).
3. The network path.  `add_response_to_resources` converts every record with `into_owned()` before
   `add_cached_resource`: `ingestOwned` spells that out and equals `ingest`.  `ingest_lifetime`:
   a record of a response that passes the filter is returned by the cache query for its own name
   exactly while `now < t + 1000 · TTL`, TTL being the effective one of the LAST equal record of the
   packet.
-/
import SimpleDnsModel.Props.C20
import SimpleDnsModel.Lemmas.DiscoveryA
import SimpleDnsModel.Lemmas.Owned
namespace Dns.Mdns

/-! ### 1. every filter, through the abstract view -/

/-- **What a query returns, for every filter and every queried name.**  Under the store invariant a
record equal to `x` (name, class, RDATA) is among the results of `get_domain_resources(name, f)` at
time `now` iff `x` is stored with a kind the filter lets through at `now`, and the queried name
reaches the owner's bucket: with `subdomain` the trie has a node at the queried key and that key is
a prefix of the owner's key, without it the two keys coincide. -/
theorem query_iff_abs {s : Store} (hI : Inv s) (x : RR) (name : Name) (f : Filter) (now : Nat) :
    (∃ x', rrEq x' x = true ∧ x' ∈ (s.getDomain name f now).flatten) ↔
      ∃ kind, abs s x = some kind ∧ f.matches kind now = true ∧
        (if f.subdomain = true then
            s.nodeExists (getKey name) = true ∧ isPrefixOf (getKey name) (getKey x.name) = true
         else getKey name = getKey x.name) := by
  constructor
  · rintro ⟨x', he, hx'⟩
    obtain ⟨k, b, kind, hk, hxb, hm, hc⟩ := hI.mem_getDomain.mp hx'
    have hown : getKey x.name = k := by
      rw [← rrEq_name he]; exact hI.owner k b hk _ hxb
    refine ⟨kind, by rw [← abs_congr s he]; exact hI.abs_of_mem hk hxb, hm, ?_⟩
    by_cases hsub : f.subdomain = true
    · rw [if_pos hsub] at hc ⊢; rw [hown]; exact hc
    · rw [if_neg hsub] at hc ⊢; rw [hown]; exact hc.symm
  · rintro ⟨kind, hx, hm, hc⟩
    obtain ⟨b, x', hb, hx', he⟩ := mem_of_abs hx
    refine ⟨x', he, mem_getDomain.mpr ⟨b, kind, hx', hm, ?_⟩⟩
    by_cases hsub : f.subdomain = true
    · rw [if_pos hsub] at hc ⊢
      exact ⟨hc.1, _, Store.bucket_mem hb, hc.2⟩
    · rw [if_neg hsub] at hc ⊢
      rw [hc]; exact hb

/-- **The query for the record's own name**, for every filter: a record equal to `x` is returned
iff `x` is stored with a kind the filter lets through at `now`. -/
theorem query_self_iff {s : Store} (hI : Inv s) (x : RR) (f : Filter) (now : Nat) :
    (∃ x', rrEq x' x = true ∧ x' ∈ (s.getDomain x.name f now).flatten) ↔
      ∃ kind, abs s x = some kind ∧ f.matches kind now = true := by
  rw [query_iff_abs hI]
  constructor
  · rintro ⟨kind, h1, h2, _⟩; exact ⟨kind, h1, h2⟩
  · rintro ⟨kind, h1, h2⟩
    refine ⟨kind, h1, h2, ?_⟩
    split
    · obtain ⟨b, _, hb, _, _⟩ := mem_of_abs h1
      exact ⟨Store.nodeExists_of_mem (Store.bucket_mem hb), isPrefixOf_refl _⟩
    · rfl

/-- **The combined filter** (`DomainResourceFilter::all`): the query for the record's own name
returns it iff it is registered locally, or cached and `now` lies before its expiry instant. -/
theorem all_query_iff {s : Store} (hI : Inv s) (x : RR) (now : Nat) :
    (∃ x', rrEq x' x = true ∧ x' ∈ (s.getDomain x.name Filter.all now).flatten) ↔
      abs s x = some .auth ∨ ∃ e rf, abs s x = some (.cached e rf) ∧ now < e := by
  rw [query_self_iff hI]
  constructor
  · rintro ⟨kind, h1, h2⟩
    rcases Filter.all_matches.mp h2 with rfl | ⟨e, rf, rfl, hlt⟩
    · exact .inl h1
    · exact .inr ⟨e, rf, h1, hlt⟩
  · rintro (h | ⟨e, rf, h, hlt⟩)
    · exact ⟨_, h, Filter.all_matches.mpr (.inl rfl)⟩
    · exact ⟨_, h, Filter.all_matches.mpr (.inr ⟨e, rf, rfl, hlt⟩)⟩

/-- **The authoritative filters** (`DomainResourceFilter::authoritative(sub)`, both values of
`sub`): the query for the record's own name returns it iff it is registered locally — at every
time, and never for a cache entry, expired or not. -/
theorem auth_query_iff {s : Store} (hI : Inv s) (x : RR) (sub : Bool) (now : Nat) :
    (∃ x', rrEq x' x = true ∧ x' ∈ (s.getDomain x.name (Filter.auth sub) now).flatten) ↔
      abs s x = some .auth := by
  rw [query_self_iff hI]
  constructor
  · rintro ⟨kind, h1, h2⟩; rw [Filter.auth_matches.mp h2] at h1; exact h1
  · intro h; exact ⟨_, h, Filter.auth_matches.mpr rfl⟩

/-- the three filters side by side on the store of `C20Ex`: `recA` is registered, `recB` is cached
until 2000 ms -/
example : Inv C20Ex.st := Reachable.inv ⟨_, rfl⟩
example (now : Nat) :
    ∃ x', rrEq x' C20Ex.recA = true ∧ x' ∈ (C20Ex.st.getDomain C20Ex.nA Filter.all now).flatten :=
  (all_query_iff (s := C20Ex.st) (Reachable.inv ⟨_, rfl⟩) C20Ex.recA now).mpr (.inl (by decide))
example (now : Nat) :
    (∃ x', rrEq x' C20Ex.recB = true ∧ x' ∈ (C20Ex.st.getDomain C20Ex.nBA Filter.all now).flatten) ↔
      now < 2000 := by
  refine (all_query_iff (s := C20Ex.st) (Reachable.inv ⟨_, rfl⟩) C20Ex.recB now).trans ?_
  rw [show abs C20Ex.st C20Ex.recB = some (.cached 2000 1000) from by decide]
  simp
example (now : Nat) (sub : Bool) :
    ¬ ∃ x', rrEq x' C20Ex.recB = true ∧
      x' ∈ (C20Ex.st.getDomain C20Ex.nBA (Filter.auth sub) now).flatten := by
  refine mt (auth_query_iff (s := C20Ex.st) (Reachable.inv ⟨_, rfl⟩) C20Ex.recB sub now).mp ?_
  decide

/-! ### 2. the clock -/

/-- a kind that passes a filter at some time passes it at every earlier time: cache entries only
ever drop out as time advances, registrations do not depend on the time -/
theorem Filter.matches_antitone (f : Filter) (kind : Kind) {now now' : Nat} (h : now ≤ now')
    (hm : f.matches kind now' = true) : f.matches kind now = true := by
  cases kind with
  | auth => exact hm
  | cached e r =>
    simp only [Filter.matches_cached, Bool.and_eq_true, decide_eq_true_eq] at hm ⊢
    exact ⟨hm.1, by omega⟩

/-- **The result of a query is antitone in time** (no invariant needed): whatever
`get_domain_resources` returns at a later time it returns at every earlier time, for the same
store, name and filter. -/
theorem getDomain_antitone (s : Store) (name : Name) (f : Filter) {now now' : Nat}
    (h : now ≤ now') :
    ∀ x ∈ (s.getDomain name f now').flatten, x ∈ (s.getDomain name f now).flatten := by
  intro x hx
  obtain ⟨b, kind, hxb, hm, hc⟩ := mem_getDomain.mp hx
  exact mem_getDomain.mpr ⟨b, kind, hxb, f.matches_antitone kind h hm, hc⟩

/-- what one bucket contributes at a later time is a sublist of what it contributes earlier -/
theorem pick_antitone_sublist (f : Filter) (b : Bucket) {now now' : Nat} (h : now ≤ now') :
    ((b.filter (fun e => f.matches e.2 now')).map (·.1)).Sublist
      ((b.filter (fun e => f.matches e.2 now)).map (·.1)) := by
  apply List.Sublist.map
  induction b with
  | nil => exact List.Sublist.slnil
  | cons e es ih =>
    simp only [List.filter_cons]
    by_cases h' : f.matches e.2 now' = true
    · rw [if_pos h', if_pos (f.matches_antitone e.2 h h')]
      exact ih.cons_cons e
    · rw [if_neg h']
      split
      · exact ih.cons e
      · exact ih

theorem flatten_map_sublist {α β : Type} (l : List α) {g g' : α → List β}
    (h : ∀ a, (g a).Sublist (g' a)) : (l.map g).flatten.Sublist (l.map g').flatten := by
  induction l with
  | nil => exact List.Sublist.slnil
  | cons a as ih => simp only [List.map_cons, List.flatten_cons]; exact (h a).append ih

/-- the same with order and multiplicity: the records returned at a later time are, in the same
order, a sublist of the records returned at an earlier time -/
theorem getDomain_antitone_sublist (s : Store) (name : Name) (f : Filter) {now now' : Nat}
    (h : now ≤ now') :
    (s.getDomain name f now').flatten.Sublist (s.getDomain name f now).flatten := by
  unfold Store.getDomain
  simp only [List.flatten_filter_not_isEmpty]
  split
  · split
    · exact flatten_map_sublist _ (fun e => pick_antitone_sublist f e.2 h)
    · exact List.Sublist.slnil
  · split
    · simp only [List.flatten_cons, List.flatten_nil, List.append_nil]
      exact pick_antitone_sublist f _ h
    · exact List.Sublist.slnil

/-- `recB` expires at 2000: what is returned at 2000 is a proper sublist of what is returned at
1999 -/
example : (C20Ex.st.getDomain C20Ex.nA Filter.all 2000).flatten = [C20Ex.recA] ∧
    (C20Ex.st.getDomain C20Ex.nA Filter.all 1999).flatten = [C20Ex.recA, C20Ex.recB] := by decide

/-! #### one clock reading per visited entry

`match_filter` reads `Instant::now()` for every cache entry it looks at, so within one call of
`get_domain_resources` later entries are compared with later instants.  `clk i j` is the reading
for entry number `j` of the bucket with number `i` (positions in the model's lists). -/

/-- the records of a bucket that pass the filter, entry number `j` being judged at time `clk j` -/
def pickClk (f : Filter) (clk : Nat → Nat) (b : Bucket) : List RR :=
  (b.zipIdx.filter (fun p => f.matches p.1.2 (clk p.2))).map (·.1.1)

/-- `get_domain_resources` with one clock reading per visited entry -/
def Store.getDomainClk (s : Store) (name : Name) (f : Filter) (clk : Nat → Nat → Nat) :
    List (List RR) :=
  let k := getKey name
  let found : List (List RR) :=
    if f.subdomain then
      (if s.nodeExists k then
        (s.entries.zipIdx.filter (fun e => isPrefixOf k e.1.1)).map (fun e => pickClk f (clk e.2) e.1.2)
       else [])
    else match s.bucket k with
      | some b => [pickClk f (clk 0) b]
      | none => []
  found.filter (fun g => !g.isEmpty)

theorem zipIdx_filter_map_fst {α β : Type} (l : List α) (i : Nat) (q : α → Bool) (h : α → β) :
    ((l.zipIdx i).filter (fun e => q e.1)).map (fun e => h e.1) = (l.filter q).map h := by
  induction l generalizing i with
  | nil => rfl
  | cons a as ih =>
    simp only [List.zipIdx_cons, List.filter_cons]
    split
    · simp only [List.map_cons, ih]
    · exact ih _

theorem pickClk_const (f : Filter) (now : Nat) (b : Bucket) :
    pickClk f (fun _ => now) b = (b.filter (fun e => f.matches e.2 now)).map (·.1) :=
  zipIdx_filter_map_fst b 0 (fun e => f.matches e.2 now) (·.1)

/-- **The model's query is the per-entry-clock query with all readings equal.** -/
theorem getDomainClk_const (s : Store) (name : Name) (f : Filter) (now : Nat) :
    s.getDomainClk name f (fun _ _ => now) = s.getDomain name f now := by
  unfold Store.getDomainClk Store.getDomain
  simp only [pickClk_const]
  rw [zipIdx_filter_map_fst s.entries 0 (fun e => isPrefixOf (getKey name) e.1)
    (fun e => (e.2.filter (fun e => f.matches e.2 now)).map (·.1))]
  rfl

theorem mem_pickClk {f : Filter} {clk : Nat → Nat} {b : Bucket} {x : RR} :
    x ∈ pickClk f clk b ↔ ∃ kind j, b[j]? = some (x, kind) ∧ f.matches kind (clk j) = true := by
  unfold pickClk
  simp only [List.mem_map, List.mem_filter, List.mem_zipIdx_iff_getElem?]
  constructor
  · rintro ⟨⟨⟨x', kind⟩, j⟩, ⟨hj, hm⟩, rfl⟩; exact ⟨kind, j, hj, hm⟩
  · rintro ⟨kind, j, hj, hm⟩; exact ⟨((x, kind), j), ⟨hj, hm⟩, rfl⟩

/-- what the per-entry-clock query returns: a record of a reachable bucket whose kind passes the
filter at that entry's own clock reading -/
theorem mem_getDomainClk {s : Store} {name : Name} {f : Filter} {clk : Nat → Nat → Nat} {x : RR} :
    x ∈ (s.getDomainClk name f clk).flatten ↔
      ∃ b kind i j, b[j]? = some (x, kind) ∧ f.matches kind (clk i j) = true ∧
        (if f.subdomain = true then
            s.nodeExists (getKey name) = true ∧
              ∃ k, s.entries[i]? = some (k, b) ∧ isPrefixOf (getKey name) k = true
         else i = 0 ∧ s.bucket (getKey name) = some b) := by
  unfold Store.getDomainClk
  simp only [List.flatten_filter_not_isEmpty, List.mem_flatten]
  constructor
  · rintro ⟨g, hg, hx⟩
    by_cases hsub : f.subdomain = true
    · simp only [if_pos hsub] at hg ⊢
      by_cases hn : s.nodeExists (getKey name) = true
      · rw [if_pos hn] at hg
        obtain ⟨⟨⟨k, b⟩, i⟩, he, rfl⟩ := List.mem_map.mp hg
        rw [List.mem_filter, List.mem_zipIdx_iff_getElem?] at he
        obtain ⟨kind, j, hj, hm⟩ := mem_pickClk.mp hx
        exact ⟨b, kind, i, j, hj, hm, hn, k, he.1, he.2⟩
      · rw [if_neg hn] at hg; cases hg
    · simp only [if_neg hsub] at hg ⊢
      cases hb : s.bucket (getKey name) with
      | none => rw [hb] at hg; cases hg
      | some b =>
        rw [hb] at hg
        simp only [List.mem_singleton] at hg; subst hg
        obtain ⟨kind, j, hj, hm⟩ := mem_pickClk.mp hx
        exact ⟨b, kind, 0, j, hj, hm, rfl, rfl⟩
  · rintro ⟨b, kind, i, j, hj, hm, hc⟩
    by_cases hsub : f.subdomain = true
    · rw [if_pos hsub] at hc ⊢
      obtain ⟨hn, k, hk, hp⟩ := hc
      rw [if_pos hn]
      refine ⟨pickClk f (clk i) b, List.mem_map.mpr ⟨((k, b), i), ?_, rfl⟩,
        mem_pickClk.mpr ⟨kind, j, hj, hm⟩⟩
      rw [List.mem_filter, List.mem_zipIdx_iff_getElem?]
      exact ⟨hk, hp⟩
    · rw [if_neg hsub] at hc ⊢
      obtain ⟨rfl, hb⟩ := hc
      rw [hb]
      exact ⟨_, by simp, mem_pickClk.mpr ⟨kind, j, hj, hm⟩⟩

/-- **One `now` per query is a sound reading of one `Instant::now()` per entry.**  If every clock
reading of a call lies between `lo` (the call's start) and `hi` (its end), the call returns
everything the model returns at `hi` and nothing the model does not return at `lo`.  No invariant
is needed. -/
theorem getDomainClk_sandwich (s : Store) (name : Name) (f : Filter) {clk : Nat → Nat → Nat}
    {lo hi : Nat} (hclk : ∀ i j, lo ≤ clk i j ∧ clk i j ≤ hi) :
    (∀ x ∈ (s.getDomain name f hi).flatten, x ∈ (s.getDomainClk name f clk).flatten) ∧
    (∀ x ∈ (s.getDomainClk name f clk).flatten, x ∈ (s.getDomain name f lo).flatten) := by
  constructor
  · intro x hx
    obtain ⟨b, kind, hxb, hm, hc⟩ := mem_getDomain.mp hx
    obtain ⟨j, hj, hbj⟩ := List.mem_iff_getElem.mp hxb
    have hj' : b[j]? = some (x, kind) := by rw [List.getElem?_eq_getElem hj, hbj]
    by_cases hsub : f.subdomain = true
    · rw [if_pos hsub] at hc
      obtain ⟨hn, k, hk, hp⟩ := hc
      obtain ⟨i, hi', hki⟩ := List.mem_iff_getElem.mp hk
      refine mem_getDomainClk.mpr ⟨b, kind, i, j, hj', f.matches_antitone kind (hclk i j).2 hm, ?_⟩
      rw [if_pos hsub]
      exact ⟨hn, k, by rw [List.getElem?_eq_getElem hi', hki], hp⟩
    · rw [if_neg hsub] at hc
      refine mem_getDomainClk.mpr ⟨b, kind, 0, j, hj', f.matches_antitone kind (hclk 0 j).2 hm, ?_⟩
      rw [if_neg hsub]
      exact ⟨rfl, hc⟩
  · intro x hx
    obtain ⟨b, kind, i, j, hj, hm, hc⟩ := mem_getDomainClk.mp hx
    refine mem_getDomain.mpr ⟨b, kind, List.mem_of_getElem? hj,
      f.matches_antitone kind (hclk i j).1 hm, ?_⟩
    by_cases hsub : f.subdomain = true
    · rw [if_pos hsub] at hc ⊢
      obtain ⟨hn, k, hk, hp⟩ := hc
      exact ⟨hn, k, List.mem_of_getElem? hk, hp⟩
    · rw [if_neg hsub] at hc ⊢
      exact hc.2

/-- **and it is exact away from expiry instants.**  Under the store invariant, for a record whose
stored expiry instant (if it is a cache entry) does not fall into `(lo, hi]`, the call with clock
readings in `[lo, hi]` returns it iff the model returns it at `lo` — equivalently at `hi` or at any
instant between. -/
theorem getDomainClk_exact {s : Store} (hI : Inv s) (name : Name) (f : Filter)
    {clk : Nat → Nat → Nat} {lo hi : Nat} (hclk : ∀ i j, lo ≤ clk i j ∧ clk i j ≤ hi) (x : RR)
    (hx : ∀ e rf, abs s x = some (.cached e rf) → e ≤ lo ∨ hi < e) :
    (x ∈ (s.getDomainClk name f clk).flatten ↔ x ∈ (s.getDomain name f lo).flatten) ∧
    (x ∈ (s.getDomain name f lo).flatten ↔ x ∈ (s.getDomain name f hi).flatten) := by
  have hlh : lo ≤ hi := Nat.le_trans (hclk 0 0).1 (hclk 0 0).2
  have key : x ∈ (s.getDomain name f lo).flatten → x ∈ (s.getDomain name f hi).flatten := by
    intro h
    obtain ⟨k, b, kind, hk, hxb, hm, hc⟩ := hI.mem_getDomain.mp h
    refine hI.mem_getDomain.mpr ⟨k, b, kind, hk, hxb, ?_, hc⟩
    cases kind with
    | auth => exact hm
    | cached e rf =>
      have := hx e rf (hI.abs_of_mem hk hxb)
      simp only [Filter.matches_cached, Bool.and_eq_true, decide_eq_true_eq] at hm ⊢
      exact ⟨hm.1, by omega⟩
  have hs := getDomainClk_sandwich s name f hclk
  exact ⟨⟨hs.2 x, fun h => hs.1 x (key h)⟩, ⟨key, getDomain_antitone s name f hlh x⟩⟩

/-- a call that starts at 1990 and ends at 2010 on the store of `C20Ex` (`recB` expires at 2000):
the two extreme outcomes are the model's results at 1990 and at 2010 -/
example : (C20Ex.st.getDomainClk C20Ex.nA Filter.all (fun _ _ => 1990)).flatten =
      [C20Ex.recA, C20Ex.recB] ∧
    (C20Ex.st.getDomainClk C20Ex.nA Filter.all (fun i _ => 1990 + 20 * i)).flatten =
      [C20Ex.recA] := by decide
/-- `getDomainClk_sandwich` instantiated: readings between 1990 and 2010 -/
example :
    (∀ x ∈ (C20Ex.st.getDomain C20Ex.nA Filter.all 2010).flatten,
      x ∈ (C20Ex.st.getDomainClk C20Ex.nA Filter.all (fun i _ => 1990 + 20 * (i % 2))).flatten) ∧
    (∀ x ∈ (C20Ex.st.getDomainClk C20Ex.nA Filter.all (fun i _ => 1990 + 20 * (i % 2))).flatten,
      x ∈ (C20Ex.st.getDomain C20Ex.nA Filter.all 1990).flatten) :=
  getDomainClk_sandwich C20Ex.st C20Ex.nA Filter.all (lo := 1990) (hi := 2010)
    (by intro i j; omega)

/-! #### operations that do not concern a record -/

/-- trie nodes depend on the set of inserted keys only, monotonically -/
theorem Store.nodeExists_mono {s t : Store}
    (h : ∀ k b, (k, b) ∈ s.entries → ∃ b', (k, b') ∈ t.entries) {k : Key}
    (hk : s.nodeExists k = true) : t.nodeExists k = true := by
  unfold Store.nodeExists at hk ⊢
  simp only [Bool.or_eq_true, List.any_eq_true, beq_iff_eq] at hk ⊢
  rcases hk with (hk | ⟨⟨k1, b1⟩, h1, rfl⟩) | ⟨⟨k1, b1⟩, h1, ⟨k2, b2⟩, h2, he⟩
  · exact .inl (.inl hk)
  · obtain ⟨b', hb'⟩ := h k1 b1 h1
    exact .inl (.inr ⟨(k1, b'), hb', rfl⟩)
  · obtain ⟨b1', hb1⟩ := h k1 b1 h1
    obtain ⟨b2', hb2⟩ := h k2 b2 h2
    exact .inr ⟨(k1, b1'), hb1, (k2, b2'), hb2, he⟩

/-- `setBucket` keeps every key -/
theorem Store.keys_setBucket (s : Store) (k : Key) (b : Bucket) :
    ∀ k' b', (k', b') ∈ s.entries → ∃ b'', (k', b'') ∈ (s.setBucket k b).entries :=
  fun k' b' hm => (Store.key_mem_setBucket s k b k').mpr (.inr ⟨b', hm⟩)

/-- every operation but `clear` keeps every key, hence every trie node: `remove_resource_record`
empties buckets, it never deletes them -/
theorem Store.keys_apply (s : Store) {op : Op} (hop : op ≠ .clear) :
    ∀ k b, (k, b) ∈ s.entries → ∃ b', (k, b') ∈ (s.apply op).entries := by
  cases op with
  | addAuth r => exact Store.keys_setBucket s _ _
  | addCached r now =>
    simp only [Store.apply, Store.addCached]
    split
    · exact fun k b hm => ⟨b, hm⟩
    · exact Store.keys_setBucket s _ _
  | remove r =>
    simp only [Store.apply, Store.remove]
    split
    · exact Store.keys_setBucket s _ _
    · exact fun k b hm => ⟨b, hm⟩
  | clear => exact absurd rfl hop

theorem Store.nodeExists_run {s : Store} {ops : List Op} (hops : ∀ op ∈ ops, op ≠ .clear) {k : Key}
    (hk : s.nodeExists k = true) : (s.run ops).nodeExists k = true := by
  induction ops generalizing s with
  | nil => exact hk
  | cons op ops ih =>
    rw [Store.run_cons]
    exact ih (fun o ho => hops o (by simp [ho]))
      (Store.nodeExists_mono (Store.keys_apply s (hops op (by simp))) hk)

theorem Op.ne_clear_of_untouched {op : Op} {x : RR} (h : op.touches x = false) : op ≠ .clear := by
  rintro rfl; cases h

/-- **Operations that do not concern a record do not take it out of any answer.**  If a query (any
name, any filter, any time) returns a record equal to `x`, it still does after any sequence of
operations none of which is `clear` or has a record equal to `x` as its argument.  (The converse
holds for the record's own name, `query_self_untouched_iff`; for other names it can fail because
an insertion may create the trie node the query needs.) -/
theorem query_preserved_untouched {s : Store} (hI : Inv s) {x : RR} {ops : List Op}
    (hops : ∀ op ∈ ops, op.touches x = false) (name : Name) (f : Filter) (now : Nat)
    (h : ∃ x', rrEq x' x = true ∧ x' ∈ (s.getDomain name f now).flatten) :
    ∃ x', rrEq x' x = true ∧ x' ∈ ((s.run ops).getDomain name f now).flatten := by
  rw [query_iff_abs hI] at h
  rw [query_iff_abs (hI.run ops), abs_run_untouched s hops]
  obtain ⟨kind, h1, h2, h3⟩ := h
  refine ⟨kind, h1, h2, ?_⟩
  split
  · rename_i hsub
    rw [if_pos hsub] at h3
    exact ⟨Store.nodeExists_run (fun o ho => Op.ne_clear_of_untouched (hops o ho)) h3.1, h3.2⟩
  · rename_i hsub
    rw [if_neg hsub] at h3; exact h3

/-- for the record's own name the two answers agree: only an operation on the record itself (or
`clear`) changes whether a query for its name returns it -/
theorem query_self_untouched_iff {s : Store} (hI : Inv s) {x : RR} {ops : List Op}
    (hops : ∀ op ∈ ops, op.touches x = false) (f : Filter) (now : Nat) :
    (∃ x', rrEq x' x = true ∧ x' ∈ ((s.run ops).getDomain x.name f now).flatten) ↔
      ∃ x', rrEq x' x = true ∧ x' ∈ (s.getDomain x.name f now).flatten := by
  rw [query_self_iff hI, query_self_iff (hI.run ops), abs_run_untouched s hops]

/-- both at once: a record returned at a later time is returned at every earlier time, before or
after operations that do not concern it -/
theorem query_untouched_antitone {s : Store} (hI : Inv s) {x : RR} {ops : List Op}
    (hops : ∀ op ∈ ops, op.touches x = false) (name : Name) (f : Filter) {now now' : Nat}
    (hle : now ≤ now')
    (h : ∃ x', rrEq x' x = true ∧ x' ∈ (s.getDomain name f now').flatten) :
    ∃ x', rrEq x' x = true ∧ x' ∈ ((s.run ops).getDomain name f now).flatten := by
  obtain ⟨x', he, hx'⟩ := h
  exact query_preserved_untouched hI hops name f now
    ⟨x', he, getDomain_antitone s name f hle x' hx'⟩

/-- the converse of `query_preserved_untouched` fails for names other than the owner's: in the store
holding only `b.a.local` the trie has no node at `a.local`, so the query for `a.local` returns
nothing; registering `a.local` itself creates the node and the cached record below it shows up -/
example : (Store.empty.addCached C20Ex.recB 0).getDomain C20Ex.nA Filter.all 5 = [] ∧
    (((Store.empty.addCached C20Ex.recB 0).run [.addAuth C20Ex.recA]).getDomain C20Ex.nA
      Filter.all 5).flatten = [C20Ex.recB, C20Ex.recA] ∧
    (Op.addAuth C20Ex.recA).touches C20Ex.recB = false := by decide
/-- the hypotheses of `query_preserved_untouched` on a concrete history: receiving `recF` and
removing `recA` do not concern `recB` -/
example : ∃ x', rrEq x' C20Ex.recB = true ∧
    x' ∈ ((C20Ex.st.run [.addCached C20Ex.recF 10, .remove C20Ex.recA]).getDomain C20Ex.nA
      Filter.cachedOnly 1500).flatten :=
  query_preserved_untouched (s := C20Ex.st) (Reachable.inv ⟨_, rfl⟩) (x := C20Ex.recB)
    (by decide) C20Ex.nA Filter.cachedOnly 1500 ⟨C20Ex.recB, by decide, by decide⟩

/-! ### 3. the network path -/

/-- the filter of `add_response_to_resources`: not the discoverer's own name, strictly below the
watched service -/
def ingestKeeps (service full : Name) (r : RR) : Bool :=
  r.name != full && r.name.isSubdomainOf service

/-- `add_response_to_resources` with the conversion it performs written out: the filtered records
are turned into owned values (`.map(|r| r.into_owned())`) and then handed to
`add_cached_resource` one by one -/
def ingestOwned (p : Packet) (service full : Name) (s : Store) (now : Nat) : Store :=
  (((p.answers ++ p.additional).filter (ingestKeeps service full)).map RR.intoOwned).foldl
    (fun st r => st.addCached r now) s

/-- **The conversion changes nothing**: `into_owned` rebuilds every record field by field to the
same value, so caching the owned copies is caching the records of the packet. -/
theorem ingestOwned_eq_ingest (p : Packet) (service full : Name) (s : Store) (now : Nat) :
    ingestOwned p service full s now = ingest p service full s now := by
  unfold ingestOwned ingest
  rw [OwnedL.map_eq_self OwnedL.rr]
  rfl

/-- the last record of a list equal (name, class, RDATA) to `r` -/
def lastEq (l : List RR) (r : RR) : Option RR := (l.filter (fun y => rrEq y r)).getLast?

theorem lastEq_eq_some {l : List RR} {r r' : RR} (h : lastEq l r = some r') :
    rrEq r' r = true ∧ ∃ pre post, l = pre ++ r' :: post ∧ ∀ y ∈ post, rrEq y r = false := by
  unfold lastEq at h
  obtain ⟨ys, hys⟩ := List.getLast?_eq_some_iff.mp h
  obtain ⟨l₁, l₂, rfl, _, h2⟩ := List.filter_eq_append_iff.mp hys
  obtain ⟨m₁, m₂, rfl, _, hr', h3⟩ := List.filter_eq_cons_iff.mp h2
  refine ⟨hr', l₁ ++ m₁, m₂, by simp, ?_⟩
  intro y hy
  simpa using List.filter_eq_nil_iff.mp h3 y hy

/-- a record of the list has a last equal record -/
theorem lastEq_isSome_of_mem {l : List RR} {r : RR} (h : r ∈ l) : ∃ r', lastEq l r = some r' := by
  unfold lastEq
  cases hq : (l.filter (fun y => rrEq y r)).getLast? with
  | some r' => exact ⟨r', rfl⟩
  | none =>
    rw [List.getLast?_eq_none_iff, List.filter_eq_nil_iff] at hq
    exact absurd (rrEq_refl r) (hq r h)

/-- a run of `add_cached_resource` calls never makes a record authoritative, nor demotes one -/
theorem abs_run_addCached_auth (s : Store) (l : List RR) (t : Nat) (x : RR) :
    abs (s.run (l.map (fun r => Op.addCached r t))) x = some .auth ↔ abs s x = some .auth := by
  induction l generalizing s with
  | nil => exact Iff.rfl
  | cons r rs ih =>
    rw [List.map_cons, Store.run_cons, ih, Store.apply, abs_addCached]
    by_cases hx : rrEq x r = true
    · rw [if_pos hx, abs_congr s hx]
      split <;> simp_all
    · rw [if_neg hx]

/-- what the network says never replaces a local registration, for whole responses -/
theorem ingest_keeps_auth (p : Packet) (service full : Name) (s : Store) (t : Nat) (x : RR) :
    abs (ingest p service full s t) x = some .auth ↔ abs s x = some .auth := by
  rw [ingest_eq_run]; exact abs_run_addCached_auth s _ t x

theorem ingestKeeps_congr (service full : Name) {a b : RR} (h : rrEq a b = true) :
    ingestKeeps service full a = ingestKeeps service full b := by
  unfold ingestKeeps; rw [rrEq_name h]

/-- **The lifetime of a record learned from a response.**  Let `r` pass the filter of
`add_response_to_resources` (its owner is not the discoverer's own name and lies strictly below the
watched service) and not be registered locally, and let `r'` be the LAST record among the answers
and additional records of the response `p` that equals `r` (name, class, RDATA).  After the
response is ingested at time `t`, the cache query for `r`'s own name returns the record exactly
while `now < t + 1000 · effTtl r'`: the last copy's TTL counts, one second if that copy carries the
cache-flush bit — whatever was cached before and whatever the earlier copies said. -/
theorem ingest_lifetime {s : Store} (hI : Inv s) {p : Packet} {service full : Name} {r r' : RR}
    (h1 : r.name ≠ full) (h2 : r.name.isSubdomainOf service = true)
    (hna : abs s r ≠ some .auth) (hlast : lastEq (p.answers ++ p.additional) r = some r')
    (t now : Nat) :
    (∃ x, rrEq x r = true ∧
        x ∈ ((ingest p service full s t).getDomain r.name Filter.cachedOnly now).flatten) ↔
      now < t + 1000 * effTtl r' := by
  obtain ⟨hr', pre, post, hl, hpost⟩ := lastEq_eq_some hlast
  have hkr : ingestKeeps service full r = true := by simp [ingestKeeps, h1, h2]
  have hkr' : ingestKeeps service full r' = true := by rw [ingestKeeps_congr service full hr', hkr]
  have hops : ingestOps p service full t =
      (pre.filter (ingestKeeps service full)).map (fun r => Op.addCached r t) ++
        Op.addCached r' t :: (post.filter (ingestKeeps service full)).map (fun r => Op.addCached r t) := by
    unfold ingestOps
    rw [hl]
    show ((pre ++ r' :: post).filter (ingestKeeps service full)).map _ = _
    rw [List.filter_append, List.filter_cons, if_pos hkr', List.map_append, List.map_cons]
  have hunt : ∀ op ∈ (post.filter (ingestKeeps service full)).map (fun r => Op.addCached r t),
      op.touches r' = false := by
    intro op hop
    obtain ⟨y, hy, rfl⟩ := List.mem_map.mp hop
    show rrEq y r' = false
    rw [rrEq_congr_right hr' y]
    exact hpost y (List.mem_filter.mp hy).1
  have hna' : abs (s.run ((pre.filter (ingestKeeps service full)).map (fun r => Op.addCached r t))) r'
      ≠ some .auth := by
    rw [Ne, abs_run_addCached_auth, abs_congr s hr']; exact hna
  rw [ingest_eq_run, hops, Store.run_append, Store.run_cons, Store.apply]
  rw [← cached_lifetime (hI.run _) hna' t hunt now, rrEq_name hr']
  constructor
  · rintro ⟨x, he, hx⟩; exact ⟨x, rrEq_trans he (rrEq_symm hr'), hx⟩
  · rintro ⟨x, he, hx⟩; exact ⟨x, rrEq_trans he hr', hx⟩

/-- the same for a record `r` that occurs in the response: there is a last equal record, and its
effective TTL is the lifetime -/
theorem ingest_lifetime_of_mem {s : Store} (hI : Inv s) {p : Packet} {service full : Name} {r : RR}
    (hr : r ∈ p.answers ++ p.additional) (h1 : r.name ≠ full)
    (h2 : r.name.isSubdomainOf service = true) (hna : abs s r ≠ some .auth) (t : Nat) :
    ∃ r', lastEq (p.answers ++ p.additional) r = some r' ∧ ∀ now,
      ((∃ x, rrEq x r = true ∧
          x ∈ ((ingest p service full s t).getDomain r.name Filter.cachedOnly now).flatten) ↔
        now < t + 1000 * effTtl r') := by
  obtain ⟨r', hlast⟩ := lastEq_isSome_of_mem hr
  exact ⟨r', hlast, fun now => ingest_lifetime hI h1 h2 hna hlast t now⟩

/-- the same for the code path as written in Rust (`into_owned` before `add_cached_resource`), from
any history of the four public operations -/
theorem ingestOwned_lifetime (pre : List Op) {p : Packet} {service full : Name} {r r' : RR}
    (h1 : r.name ≠ full) (h2 : r.name.isSubdomainOf service = true)
    (hna : abs (Store.empty.run pre) r ≠ some .auth)
    (hlast : lastEq (p.answers ++ p.additional) r = some r') (t now : Nat) :
    (∃ x, rrEq x r = true ∧
        x ∈ ((ingestOwned p service full (Store.empty.run pre) t).getDomain r.name
              Filter.cachedOnly now).flatten) ↔
      now < t + 1000 * effTtl r' := by
  rw [ingestOwned_eq_ingest]
  exact ingest_lifetime (Inv.empty.run pre) h1 h2 hna hlast t now

/-- a record that is registered locally is not affected by the response: never in the cache query,
always in the authoritative one -/
theorem ingest_auth_unaffected {s : Store} (hI : Inv s) (p : Packet) (service full : Name) {r : RR}
    (ha : abs s r = some .auth) (t now : Nat) :
    (¬ ∃ x, rrEq x r = true ∧
        x ∈ ((ingest p service full s t).getDomain r.name Filter.cachedOnly now).flatten) ∧
    ∀ sub, ∃ x, rrEq x r = true ∧
        x ∈ ((ingest p service full s t).getDomain r.name (Filter.auth sub) now).flatten := by
  have ha' := (ingest_keeps_auth p service full s t r).mpr ha
  have hI' : Inv (ingest p service full s t) := by rw [ingest_eq_run]; exact hI.run _
  constructor
  · rintro ⟨x, he, hx⟩
    exact auth_not_in_cache_only' hI' ha' r.name now x he hx
  · intro sub; exact auth_never_expires ha' now sub

/-! #### a concrete response -/

namespace C20MoreEx
open C20Ex

/-- the discoverer's own instance name `c.a.local`; the watched service is `a.local` -/
def own : Name := [[99], [97], lbl]

/-- a response that carries `recB` three times: TTL 4500 among the answers, then TTL 2, and — in the
additional section — TTL 4500 with the cache-flush bit for `recF`; also a record of the
discoverer's own name and one of the service name itself, both ignored -/
def resp : Packet :=
  { header := { id := 0, opcode := .StandardQuery, rcode := .NoError, flags := 0x8000, opt := none },
    questions := [],
    answers := [{ recB with ttl := 4500 }, { recA with ttl := 9 }, recB],
    nameServers := [],
    additional := [{ recB with name := own }, recF] }

example : lastEq (resp.answers ++ resp.additional) { recB with ttl := 4500 } = some recB := by decide
example : lastEq (resp.answers ++ resp.additional) recF = some recF := by decide
example : (resp.answers ++ resp.additional).filter (ingestKeeps nA own) =
    [{ recB with ttl := 4500 }, recB, recF] := by decide

/-- `ingest_lifetime` instantiated, on a store where `recA` is registered and `recB` was cached
before: the first copy says 4500 s, the last copy says 2 s, and 2 s it is (received at 7000 ms) -/
example (now : Nat) :
    (∃ x, rrEq x recB = true ∧
        x ∈ ((ingest resp nA own st 7000).getDomain nBA Filter.cachedOnly now).flatten) ↔
      now < 9000 :=
  ingest_lifetime (s := st) (Reachable.inv ⟨_, rfl⟩) (p := resp) (service := nA) (full := own)
    (r := { recB with ttl := 4500 }) (r' := recB) (by decide) (by decide) (by decide) (by decide)
    7000 now
/-- the cache-flush copy of `recF` lives one second, not 4500 -/
example (now : Nat) :
    (∃ x, rrEq x recF = true ∧
        x ∈ ((ingest resp nA own st 7000).getDomain nBA Filter.cachedOnly now).flatten) ↔
      now < 8000 :=
  ingest_lifetime (s := st) (Reachable.inv ⟨_, rfl⟩) (p := resp) (service := nA) (full := own)
    (r := recF) (r' := recF) (by decide) (by decide) (by decide) (by decide) 7000 now
/-- the same by evaluation, through both code paths -/
example : ((ingest resp nA own st 7000).getDomain nBA Filter.cachedOnly 7999).flatten = [recB, recF] ∧
    ((ingestOwned resp nA own st 7000).getDomain nBA Filter.cachedOnly 8000).flatten = [recB] ∧
    ((ingestOwned resp nA own st 7000).getDomain nBA Filter.cachedOnly 8999).flatten = [recB] ∧
    ((ingest resp nA own st 7000).getDomain nBA Filter.cachedOnly 9000).flatten = [] := by decide
/-- the copy of `recA` in the response (not a STRICT subdomain of the service, and registered
locally anyway) changes nothing -/
example : abs (ingest resp nA own st 7000) recA = some .auth :=
  (ingest_keeps_auth resp nA own st 7000 recA).mpr (by decide)
/-- had the FIRST copy counted, the record would live until 4 507 000 ms -/
example : effTtl { recB with ttl := 4500 } = 4500 ∧ effTtl recB = 2 ∧ effTtl recF = 1 := by decide

/-- the Rust code path from the history that produced `st` -/
example (now : Nat) :
    (∃ x, rrEq x recB = true ∧
        x ∈ ((ingestOwned resp nA own (Store.empty.run [.addAuth recA, .addCached recB 0]) 7000).getDomain
              nBA Filter.cachedOnly now).flatten) ↔ now < 9000 :=
  ingestOwned_lifetime [.addAuth recA, .addCached recB 0] (p := resp) (service := nA) (full := own)
    (r := recB) (r' := recB) (by decide) (by decide) (by decide) (by decide) 7000 now
/-- `recA` is registered locally: the response leaves it where it was -/
example : ∀ sub, ∃ x, rrEq x recA = true ∧
    x ∈ ((ingest resp nA own st 7000).getDomain nA (Filter.auth sub) 123456789).flatten :=
  (ingest_auth_unaffected (s := st) (Reachable.inv ⟨_, rfl⟩) resp nA own (r := recA) (by decide)
    7000 123456789).2
/-- a call on `st` whose clock readings run from 1990 to 2010 returns `recA` (no expiry instant in
between concerns it) exactly as the model does at 1990 -/
example : recA ∈ (st.getDomainClk nA Filter.all (fun i _ => 1990 + 20 * (i % 2))).flatten ↔
    recA ∈ (st.getDomain nA Filter.all 1990).flatten :=
  (getDomainClk_exact (s := st) (Reachable.inv ⟨_, rfl⟩) nA Filter.all (lo := 1990) (hi := 2010)
    (by intro i j; omega) recA
    (by intro e rf h; rw [show abs st recA = some .auth from by decide] at h; cases h)).1

end C20MoreEx

end Dns.Mdns
