/-
C12 — Inspecting parsed data never panics.

Informal property: any packet obtained from the parser, whatever bytes its names and strings
contain, can be formatted with Debug and Display, converted to owned data, cloned, hashed,
compared, queried for TXT attributes and string conversions, and matched against questions without
panicking; conversions that cannot succeed (for example non-UTF-8 text) report an error or a lossy
rendering instead.

Model: `Model/Observers.lean`. The theorems are named `_partial` where they depend on what is
outside the model: the `std::fmt` machinery and the exact text `from_utf8_lossy` produces for
invalid bytes (`lossy` only says that a `String` comes back).
-/
import SimpleDnsModel.Model.Observers
import SimpleDnsModel.Props.C19
namespace Dns

namespace ObsL

theorem tolerate_ok {x : Out α} (h : x ≠ .panic) : x.tolerate = .ok () := by
  cases x <;> simp_all [Out.tolerate]

theorem each_ok {f : α → Out Unit} {l : List α} (h : ∀ a ∈ l, f a = .ok ()) :
    Out.each f l = .ok () := by
  induction l with
  | nil => rfl
  | cons a as ih =>
    simp only [Out.each, h a (List.mem_cons_self ..), Out.bind_ok]
    exact ih fun b hb => h b (List.mem_cons_of_mem _ hb)

theorem displayFrom_ok (i : Nat) (acc : String) (n : Name) :
    ∃ s, Name.displayFrom i acc n = .ok s := by
  induction n generalizing i acc with
  | nil => exact ⟨acc, rfl⟩
  | cons l rest ih => simp only [Name.displayFrom, Label.display, Out.bind_ok]; exact ih ..

theorem displayStr_ok (n : Name) : ∃ s, Name.displayStr n = .ok s := displayFrom_ok 0 "" n

theorem name_ok (n : Name) : Name.observe n = .ok () := by
  obtain ⟨s, hs⟩ := displayStr_ok n
  simp [Name.observe, Name.debug, hs]

theorem toString_ne_panic (b : Bytes) : CharStr.toString b ≠ .panic := by
  unfold CharStr.toString; split <;> simp

theorem charStr_ok (b : Bytes) : CharStr.observe b = .ok () := by
  simp [CharStr.observe, CharStr.display, tolerate_ok (toString_ne_panic b)]

theorem val_ok (v : Val) : Val.observe v = .ok () := by
  cases v with
  | int n => rfl
  | bytes b => exact charStr_ok b
  | name n => exact name_ok n
  | strs ss => exact each_ok fun s _ => charStr_ok s
  | tlvs xs => rfl

theorem txt_ok (ss : List Bytes) : Txt.observe ss = .ok () := by
  simp [Txt.observe, tolerate_ok (long_attrs_ne_panic ss), tolerate_ok (Txt.toStr_ne_panic ss)]

theorem rdata_ok (rd : RData) : RData.observe rd = .ok () := by
  unfold RData.observe
  simp only [Out.pure_eq, Out.bind_ok]
  split
  · simp [txt_ok, each_ok fun s _ => charStr_ok s]
  · exact each_ok fun v _ => val_ok v
  · exact name_ok _
  · rfl

theorem rr_ok (r : RR) : RR.observe r = .ok () := by
  simp [RR.observe, name_ok, rdata_ok]

theorem question_ok (q : Question) : Question.observe q = .ok () := by
  simp [Question.observe, name_ok]

theorem packet_ok (p : Packet) : Packet.observe p = .ok () := by
  unfold Packet.observe
  rw [each_ok fun q _ => question_ok q]
  simp only [Out.bind_ok, Out.pure_eq]
  rw [each_ok fun r _ => rr_ok r]
  simp only [Out.bind_ok]
  exact each_ok fun r _ => each_ok fun q _ => rfl

end ObsL

/-- every observer applied to every part of any packet returns normally -/
theorem observers_total_partial (p : Packet) : Packet.observe p ≠ .panic := by
  rw [ObsL.packet_ok]; simp

/-- in particular on every output of the parser -/
theorem parsed_then_observed (d : Bytes) (p : Packet) (_h : Packet.parse d = .ok p) :
    Packet.observe p ≠ .panic := observers_total_partial p

/-- the same for a single record, question and RDATA value (what the element-level parse entry
points return) -/
theorem rr_observers_total_partial (r : RR) : RR.observe r ≠ .panic := by
  rw [ObsL.rr_ok]; simp
theorem question_observers_total_partial (q : Question) : Question.observe q ≠ .panic := by
  rw [ObsL.question_ok]; simp
theorem rdata_observers_total_partial (rd : RData) : RData.observe rd ≠ .panic := by
  rw [ObsL.rdata_ok]; simp

/-- stronger form: no observer reports an error either, because those that can fail are applied
through `Out.tolerate` (an `Err(_)` from `String::try_from` / `long_attributes` is acceptable) -/
theorem observers_ok_partial (p : Packet) : Packet.observe p = .ok () := ObsL.packet_ok p

/-- `Display for Name` never fails, whatever bytes the labels hold -/
theorem display_never_errs (n : Name) : Name.displayStr n ≠ .err ∧ Name.displayStr n ≠ .panic := by
  obtain ⟨s, hs⟩ := ObsL.displayStr_ok n
  rw [hs]; simp

theorem debug_never_errs (n : Name) : Name.debug n ≠ .err ∧ Name.debug n ≠ .panic := by
  obtain ⟨s, hs⟩ := ObsL.displayStr_ok n
  simp [Name.debug, hs]

theorem label_display_never_errs (l : Label) :
    Label.display l ≠ .err ∧ Label.display l ≠ .panic := by simp [Label.display]

theorem charstr_display_never_errs (b : Bytes) :
    CharStr.display b ≠ .err ∧ CharStr.display b ≠ .panic := by simp [CharStr.display]

/-- `String::try_from(CharacterString)` reports an error exactly on invalid UTF-8 and otherwise
returns exactly the decoded text; it never panics -/
theorem try_from_iff (b : Bytes) :
    (CharStr.toString b = .err ↔ stringOfBytes? b = none) ∧
    (∀ s, CharStr.toString b = .ok s ↔ stringOfBytes? b = some s) := by
  unfold CharStr.toString
  cases stringOfBytes? b <;> simp

theorem try_from_ne_panic (b : Bytes) : CharStr.toString b ≠ .panic := ObsL.toString_ne_panic b

/-- for valid UTF-8 the rendering is exact -/
theorem display_valid_utf8 {l : Label} {s : String} (h : stringOfBytes? l = some s) :
    Label.display l = .ok s := by
  simp [Label.display, lossy, h]

theorem charstr_display_valid_utf8 {b : Bytes} {s : String} (h : stringOfBytes? b = some s) :
    CharStr.display b = .ok s := by
  simp [CharStr.display, lossy, h]

/-- where `try_from` succeeds, `Display` shows the same text -/
theorem display_agrees_with_try_from {b : Bytes} {s : String} (h : CharStr.toString b = .ok s) :
    CharStr.display b = .ok s :=
  charstr_display_valid_utf8 (((try_from_iff b).2 s).mp h)

/-- `TXT::long_attributes` fails exactly when the joined strings are not UTF-8 (and never panics) -/
theorem long_attributes_err_iff (ss : List Bytes) :
    Txt.longAttributes ss = .err ↔ stringOfBytes? ss.flatten = none := long_attrs_err_iff_utf8 ss

theorem long_attributes_ne_panic (ss : List Bytes) : Txt.longAttributes ss ≠ .panic :=
  long_attrs_ne_panic ss

/-- `String::try_from(TXT)` likewise -/
theorem txt_to_string_err_iff (ss : List Bytes) :
    Txt.toStr ss = .err ↔ stringOfBytes? ss.flatten = none := by
  unfold Txt.toStr
  cases stringOfBytes? ss.flatten <;> simp

/-! ### the property discriminates: the code before the fix for defect F14
(`write!(f, "{}", std::str::from_utf8(&self.data).unwrap())`) violates it -/

/-- `Display for Label` of the pinned tree, before the fix -/
def Label.displayF14 (l : Label) : Out String :=
  match stringOfBytes? l with
  | some s => .ok s
  | none => .panic

theorem displayF14_panics {l : Label} (h : stringOfBytes? l = none) :
    Label.displayF14 l = .panic := by simp [Label.displayF14, h]

/-- on valid UTF-8 the fix changes nothing -/
theorem displayF14_agrees {l : Label} {s : String} (h : stringOfBytes? l = some s) :
    Label.displayF14 l = Label.display l := by simp [Label.displayF14, display_valid_utf8 h, h]

/-! ### examples -/

example : Name.displayFrom 0 "" [] = .ok "" := rfl
/-- a single label is rendered without dots, two labels with one dot between them -/
example (a : Label) : Name.displayStr [a] = .ok (lossy a) := by
  simp [Name.displayStr, Name.displayFrom, Label.display]
example (a b : Label) : Name.displayStr [a, b] = .ok (lossy a ++ "." ++ lossy b) := by
  simp [Name.displayStr, Name.displayFrom, Label.display]

end Dns
