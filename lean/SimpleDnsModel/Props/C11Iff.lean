/-
C11 — Received packets survive re-serialisation: the hypothesis `PlainFits` of Props/C11.lean is
NECESSARY as well as sufficient, for both builders, and the threshold of the finding
`rdata-expands-past-65535` is exactly 65 306 bytes. Everything lives in the namespace `Dns.C11Iff`.

0  `schema_compress_small`, `big_rdata_writeG`: an RDATA the parser can return whose plain encoding
   exceeds 65 535 bytes holds no compressible name; `write_compressed_to` emits its `write_to` bytes.
1  `BigRec`, `rr_writeG_big`, `rr_overflow_not_reparsed_G`: one record, either writer.
2  `sec_overflow`: one section, the overflowing record at any position.
3  `built_parse_split`; `overflow_not_reparsed_answers`, `overflow_not_reparsed_authority`,
   `overflow_not_reparsed_additional` (either builder); `overflow_not_reparsed_at_authority`,
   `overflow_not_reparsed_at_additional` (plain builder, hypotheses as in the existing
   `overflow_not_reparsed_at`); `overflow_not_reparsed_compressed`.
4  `first_overflow`, `not_plainFits_not_reparsed`, `parsed_buildG_ok`, `reserialise_iff`,
   **`reserialise_plain_iff`**, **`reserialise_compressed_iff`**.
5  `WrittenFits` (the RDATA lengths the writer measures, e.g. the compressed ones), `rdata_writeG_le`,
   `rdLenG_le_iff`, `writtenFits_iff`, `reserialise_compressed_iff_lengths`.
6  `plainFits_iff_records` (the header clause of `PlainFits` is automatic for parsed packets; no
   count bounds in it), `reserialise_iff_records`, `reserialise_fails_iff`,
   `reserialise_plain_iff_compressed`.
7  `reserialise_failure_length` (≥ 65 305, from `plain_fits_of_length`), the exact threshold of the
   family `ovMsg` (`ov_reserialise_iff`: 65 528 / 65 529), `c11Ov65529_finding`.
8  `Tight.name_growth` (a name grows by at most 253, not 254), `plain_fits_of_length_tight` (inputs
   ≤ 65 305 bytes fit), `reserialise_failure_length_tight` (≥ 65 306).
9  the family `tgMsg` (signer's name = pointer to a 63-byte label that runs over the pointer into
   the signature: growth 253), `tg_reserialise_iff`, `tg_65306`, **`smallest_failing_input`**.
10 examples: the hypotheses of every implication are satisfiable.
-/
import SimpleDnsModel.Props.C04C07C11More
set_option autoImplicit false
namespace Dns
namespace C11Iff

open C04C07C11

/-! ## 0. an RDATA of more than 65 535 bytes holds no compressible name -/

/-- a fact about the schema table: every layout that hands a name to the compressor has no
variable-length tail and encodes into at most 65 535 bytes -/
theorem schema_compress_small {code : Nat} {ks : List FKind} (h : schemaOf code = some ks) :
    (∀ k ∈ ks, k ≠ .name true) ∨ (Img.noTail ks = true ∧ Img.capAll ks ≤ 65535) := by
  unfold schemaOf at h
  split at h <;> first
    | (cases h; decide)
    | cases h

/-- **The compressing RDATA writer has nothing to compress in an RDATA of 65 536 bytes or more.**
For every RDATA value the parser can return whose plain encoding exceeds 65 535 bytes,
`write_compressed_to` emits exactly the bytes of `write_to`, at any offset and with any suffix
table, and leaves the table unchanged. -/
theorem big_rdata_writeG (rd : RData) (h : rd.WFcore) (hbig : 65536 ≤ rd.writtenLen) (c : Bool)
    (off : Nat) (t : Table) :
    rd.writeG c off t = (do let b ← rd.write; pure (b, t)) := by
  cases rd with
  | flat code vs =>
    obtain ⟨hs, hc⟩ := h
    simp only [SchemaOK] at hs
    cases hk : schemaOf code with
    | none => simp [hk] at hs
    | some ks =>
      rw [hk] at hs
      rcases schema_compress_small hk with hno | ⟨hnt, hcap⟩
      · simp [RData.writeG, RData.write, hk, hc, encAllG_nocompress c ks vs off t hno]
      · exfalso
        have h1 := Img.lenAll_le_cap ks vs hs hnt
        have h2 : (RData.flat code vs).writtenLen = lenAll ks vs := by
          simp only [RData.writtenLen, RData.write, hk, hc, if_true]
          exact (lenAll_eq ks vs hs).symm
        omega
  | ipseckey prec alg gw key => rfl
  | opt o => rfl
  | null code data => rfl
  | empty t => rfl

/-! ## 1. one record, either writer -/

/-- the RDLENGTH field of a record laid out as owner-name bytes, the eight bytes of TYPE, CLASS and
TTL, two length bytes, RDATA -/
theorem rdlen_field (pre nb com rd post : Bytes) (x : Nat) (hx : x < 65536)
    (hcom : com.length = 8) :
    Spec.field (pre ++ (nb ++ (com ++ (beN 2 x ++ (rd ++ post)))))
      (pre.length + nb.length + 8) 2 = some x := by
  have hs : slice (pre ++ (nb ++ (com ++ (beN 2 x ++ (rd ++ post)))))
      (pre.length + nb.length + 8) (pre.length + nb.length + 8 + 2) = .ok (beN 2 x) := by
    have e : pre ++ (nb ++ (com ++ (beN 2 x ++ (rd ++ post))))
        = (pre ++ (nb ++ com)) ++ (beN 2 x ++ (rd ++ post)) := by simp
    rw [e]
    exact slice_mid _ _ _ _ _ (by simp [hcom]; omega) (by simp [hcom]; omega)
  rw [Framing.field_of_slice rfl hs, deN_beN 2 x (by simpa using hx)]

/-- **What either record writer emits for an RDATA of 65 536 bytes or more.** Owner name (compressed
or not), TYPE/CLASS/TTL, then RDLENGTH = the RDATA length modulo 65 536 — `rdata.len() as u16` in
`write_to`, `(end - len_position - 2) as u16` in `write_compressed_to` — then all the RDATA bytes,
which are the same for both writers. -/
theorem rr_writeG_big (c : Bool) (r : RR) (hrd : r.rdata.WFcore) (hbig : 65536 ≤ r.rdata.writtenLen)
    (off : Nat) (t : Table) :
    ∃ rd, r.rdata.write = .ok rd ∧ rd.length = r.rdata.writtenLen ∧
      r.writeG c off t = .ok ((nameG c r.name off t).1 ++
        (r.writeCommon ++ (beN 2 (rd.length % 65536) ++ rd)), (nameG c r.name off t).2) := by
  obtain ⟨rd, hw, hlen⟩ := len_honest_core r.rdata hrd
  refine ⟨rd, hw, by simp [RData.writtenLen, hw], ?_⟩
  unfold RR.writeG
  simp only [big_rdata_writeG r.rdata hrd hbig, hw, Out.bind_ok, Out.pure_eq]
  cases c
  · simp only [Bool.false_eq_true, if_false, hlen, ← beN2_mod]
  · simp only [if_true, ← beN2_mod]

/-- `r` is a record that writer `c` (`false`: `write_to`, `true`: `write_compressed_to`) emits with
an RDATA of 65 536 bytes or more: owner name within limits, and at any offset and with any suffix
table the writer emits the owner name, TYPE/CLASS/TTL, RDLENGTH = RDATA length modulo 65 536, and
the `write_to` bytes of the RDATA -/
def BigRec (c : Bool) (r : RR) : Prop :=
  Name.WF r.name ∧ ∃ rd, r.rdata.write = .ok rd ∧ 65536 ≤ rd.length ∧
    ∀ (off : Nat) (t : Table), r.writeG c off t = .ok ((nameG c r.name off t).1 ++
      (r.writeCommon ++ (beN 2 (rd.length % 65536) ++ rd)), (nameG c r.name off t).2)

/-- every record the parser can return whose RDATA re-encodes into 65 536 bytes or more is such a
record, for both writers -/
theorem BigRec.of_core (c : Bool) (r : RR) (hn : Name.WF r.name) (hrd : r.rdata.WFcore)
    (hbig : 65536 ≤ r.rdata.writtenLen) : BigRec c r := by
  obtain ⟨rd, hw, hl, _⟩ := rr_writeG_big c r hrd hbig 0 []
  exact ⟨hn, rd, hw, by omega, fun off t => by
    obtain ⟨rd', hw', _, h⟩ := rr_writeG_big c r hrd hbig off t
    rw [hw] at hw'; cases hw'; exact h⟩

/-- for the plain writer the hypotheses of `overflow_not_reparsed_at` are enough: the RDATA is
written, `len()` is honest about it, and it has 65 536 bytes or more -/
theorem BigRec.of_plain (r : RR) (rd : Bytes) (hn : Name.WF r.name) (hrd : r.rdata.write = .ok rd)
    (hlen : r.rdata.len = rd.length) (hbig : 65536 ≤ rd.length) : BigRec false r :=
  ⟨hn, rd, hrd, hbig, fun off t => by
    rw [RR.writeG_false, rr_write_rdlength r rd hrd hlen, nameG_false]; rfl⟩

/-- **A record whose RDATA re-encodes into 65 536 bytes or more is not read back, whichever writer
wrote it.** `out` is the message so far (its suffix table `t` describing it), `b` the bytes
`write_to` (`c = false`) or `write_compressed_to` (`c = true`) appends for `r`: wherever the message
continues, `ResourceRecord::parse` at the record's offset does not return `r`. -/
theorem rr_overflow_not_reparsed_G (c : Bool) (r : RR) (hr : BigRec c r) (off : Nat) (t : Table)
    (out : Bytes) (hlen : out.length = off) (hinv : TInv out t) (b : Bytes) (t' : Table)
    (hw : r.writeG c off t = .ok (b, t')) (post : Bytes) (q : Nat) :
    RR.parse (out ++ (b ++ post)) out.length ≠ .ok (r, q) := by
  intro h
  obtain ⟨hn, rd, hrw, hbig, hw'⟩ := hr
  rw [hw' off t] at hw
  simp only [Out.ok.injEq, Prod.mk.injEq] at hw
  obtain ⟨rfl, _⟩ := hw
  have hN := nameG_spec c r.name off t out hn.labelsOK hlen hinv
  generalize (nameG c r.name off t).1 = nb at hN h
  obtain ⟨_, e, he, _, _, hfit, _⟩ := Img.rr_ok h
  obtain ⟨_, hskip, _, _, _, hl, _⟩ := walkRecord_fields he
  have hname := Framing.skipName_of_parse (hN.parse hn.2
    ((r.writeCommon ++ (beN 2 (rd.length % 65536) ++ rd)) ++ post))
  simp only [List.append_assoc] at hname h hskip hl
  rw [hskip] at hname
  simp only [Option.some.injEq] at hname
  have hcom : r.writeCommon.length = 8 := by rw [RR.writeCommon_eq]; simp
  rw [hname, rdlen_field out nb r.writeCommon rd post _ (Nat.mod_lt _ (by decide)) hcom] at hl
  simp only [Option.some.injEq] at hl
  have hwl : r.rdata.writtenLen = rd.length := by simp [RData.writtenLen, hrw]
  omega

/-! ## 2. one section, either writer -/

/-- **A section with an overflowing record is not read back**, whichever writer wrote it. The
records before the overflowing one are well-formed (so they are read back and the cursor reaches
the overflowing record's first byte); what follows it is arbitrary. `out` is the message written
before the section, `bs` the bytes of the section, `post` whatever follows; however many records
the reader is asked for, the list it returns does not start with `pre ++ [r]`. -/
theorem sec_overflow (c : Bool) (pre : List RR) (r : RR) (rest : List RR)
    (hpre : ∀ x ∈ pre, x.WF) (hbr : BigRec c r) :
    ∀ (off : Nat) (t : Table) (out : Bytes), out.length = off → TInv out t →
    ∀ (bs : Bytes) (t' : Table), writeRRsG c (pre ++ r :: rest) off t = .ok (bs, t') →
    ∀ (post : Bytes) (n : Nat) (rest' : List RR) (q : Nat),
      parseRRs (out ++ (bs ++ post)) n out.length ≠ .ok (pre ++ r :: rest', q) := by
  induction pre with
  | nil =>
    intro off t out hlen hinv bs t' hw post n rest' q h
    simp only [List.nil_append, writeRRsG] at hw
    obtain ⟨⟨a, ta⟩, ha, hw⟩ := Out.bind_eq_ok hw
    obtain ⟨⟨b', tb⟩, hb', hw⟩ := Out.bind_eq_ok hw
    simp only [Out.pure_eq, Out.ok.injEq, Prod.mk.injEq] at hw
    obtain ⟨rfl, rfl⟩ := hw
    cases n with
    | zero => simp [parseRRs] at h
    | succ n =>
      simp only [parseRRs, List.nil_append] at h
      obtain ⟨⟨r', q1⟩, hr, h⟩ := Out.bind_eq_ok h
      obtain ⟨⟨rs', q'⟩, _, h⟩ := Out.bind_eq_ok h
      simp only [Out.pure_eq, Out.ok.injEq, Prod.mk.injEq, List.cons.injEq] at h
      obtain ⟨⟨rfl, _⟩, _⟩ := h
      apply rr_overflow_not_reparsed_G c r' hbr off t out hlen hinv a ta ha (b' ++ post) q1
      simpa using hr
  | cons x pre ih =>
    intro off t out hlen hinv bs t' hw post n rest' q h
    obtain ⟨a, ta, hwa, hsa⟩ := RR.writeG_spec c x off t (hpre x (by simp))
    simp only [List.cons_append, writeRRsG, hwa, Out.bind_ok] at hw
    obtain ⟨⟨b', tb⟩, hb', hw⟩ := Out.bind_eq_ok hw
    simp only [Out.pure_eq, Out.ok.injEq, Prod.mk.injEq] at hw
    obtain ⟨rfl, rfl⟩ := hw
    have hq := hsa out hlen hinv
    cases n with
    | zero => simp [parseRRs] at h
    | succ n =>
      simp only [parseRRs, List.cons_append] at h
      have e1 := hq.dec (b' ++ post)
      simp only [List.append_assoc] at h e1
      rw [e1] at h
      simp only [Out.bind_ok] at h
      obtain ⟨⟨rs', q'⟩, hrs, h⟩ := Out.bind_eq_ok h
      simp only [Out.pure_eq, Out.ok.injEq, Prod.mk.injEq, List.cons.injEq, true_and] at h
      obtain ⟨rfl, rfl⟩ := h
      refine ih (fun y hy => hpre y (by simp [hy])) (off + a.length) ta (out ++ a)
        (by simp [hlen]) hq.inv b' tb hb' post n rest' q' ?_
      simpa using hrs

/-! ## 3. the message, either writer -/

/-- when no OPT record is lifted out of the additional section, the section is left as it is -/
theorem liftOpt_snd_of_none (l : List RR) (h : (liftOpt l).1 = none) : (liftOpt l).2 = l := by
  induction l with
  | nil => rfl
  | cons r rs ih =>
    simp only [liftOpt] at h ⊢
    split at h
    · cases h
    · rename_i hx
      rw [if_neg hx]
      simp only at h ⊢
      rw [ih h]

/-- `Header::extract_info_from_opt_rr` sets the header's OPT exactly when it is given a record -/
theorem extractOpt_isSome {h0 h : Header} {o : Option RR} (hh : h0.extractOpt o = .ok h)
    (h0n : h0.opt = none) : h.opt.isSome = o.isSome := by
  cases o with
  | none => simp only [Header.extractOpt] at hh; cases hh; simp [h0n]
  | some r =>
    simp only [Header.extractOpt] at hh
    split at hh
    · cases hh; rfl
    · cases hh

/-- **What "the output parses back to the packet" means section by section**, for either writer:
the bytes are header, questions, answers, authority, OPT pseudo-record, additional; the question
section is read back, and the three record sections are read, one after the other, as the packet's
answers, its authority records, and a list from which lifting the OPT record leaves its additional
records. -/
theorem built_parse_split (c : Bool) (p : Packet) (b : Bytes) (hq : ∀ q ∈ p.questions, q.WF)
    (hb : p.buildG c = .ok b) (hp : Packet.parse b = .ok p) :
    ∃ (qs : Bytes × Table) (an ns ob ar : Bytes) (t1 t2 t3 : Table) (p2 p3 p4 : Nat)
      (all : List RR),
      p.writeHeader.length = 12 ∧ TInv (p.writeHeader ++ qs.1) qs.2 ∧
      writeRRsG c p.answers (12 + qs.1.length) qs.2 = .ok (an, t1) ∧
      writeRRsG c p.nameServers (12 + qs.1.length + an.length) t1 = .ok (ns, t2) ∧
      writeRRs p.header.optRR.toList = .ok ob ∧
      writeRRsG c p.additional (12 + qs.1.length + an.length + ns.length + ob.length) t2
        = .ok (ar, t3) ∧
      b = p.writeHeader ++ (qs.1 ++ (an ++ (ns ++ (ob ++ ar)))) ∧
      parseRRs b p.answers.length (12 + qs.1.length) = .ok (p.answers, p2) ∧
      parseRRs b p.nameServers.length p2 = .ok (p.nameServers, p3) ∧
      parseRRs b all.length p3 = .ok (all, p4) ∧ (liftOpt all).2 = p.additional ∧
      (liftOpt all).1.isSome = p.header.opt.isSome := by
  have hhl : p.writeHeader.length = 12 := by simp [Packet.writeHeader, Header.write]
  have hQ := writeQuestionsG_spec c p.questions 12 [] p.writeHeader hq hhl (TInv.nil _)
  unfold Packet.buildG at hb
  simp only [hhl] at hb
  generalize writeQuestionsG c p.questions 12 [] = qs at hQ hb
  obtain ⟨⟨an, t1⟩, han, hb⟩ := Out.bind_eq_ok hb
  dsimp only at hb
  obtain ⟨⟨ns, t2⟩, hns, hb⟩ := Out.bind_eq_ok hb
  dsimp only at hb
  obtain ⟨ob, hob, hb⟩ := Out.bind_eq_ok hb
  obtain ⟨⟨ar, t3⟩, har, hb⟩ := Out.bind_eq_ok hb
  simp only [Out.pure_eq, Out.ok.injEq] at hb
  -- the parse
  unfold Packet.parse at hp
  obtain ⟨h0, hh0, hp⟩ := Out.bind_eq_ok hp
  obtain ⟨qd, _, hp⟩ := Out.bind_eq_ok hp
  obtain ⟨⟨qs', p1⟩, hqs, hp⟩ := Out.bind_eq_ok hp
  dsimp only at hp
  obtain ⟨anc, _, hp⟩ := Out.bind_eq_ok hp
  obtain ⟨⟨as, p2⟩, has, hp⟩ := Out.bind_eq_ok hp
  dsimp only at hp
  obtain ⟨nsc, _, hp⟩ := Out.bind_eq_ok hp
  obtain ⟨⟨nss, p3⟩, hnss, hp⟩ := Out.bind_eq_ok hp
  dsimp only at hp
  obtain ⟨arc, _, hp⟩ := Out.bind_eq_ok hp
  obtain ⟨⟨all, p4⟩, hall, hp⟩ := Out.bind_eq_ok hp
  dsimp only at hp
  obtain ⟨h1, hh1, hp⟩ := Out.bind_eq_ok hp
  simp only [Out.pure_eq, Out.ok.injEq] at hp
  have e1 : qs' = p.questions := by rw [← hp]
  have e2 : as = p.answers := by rw [← hp]
  have e3 : nss = p.nameServers := by rw [← hp]
  have e4 : (liftOpt all).2 = p.additional := by rw [← hp]
  have e5 : h1 = p.header := by rw [← hp]
  subst e1 e2 e3 e5
  obtain ⟨_, _, hqlen, _, _⟩ := Framing.parseQuestions_frame hqs
  obtain ⟨_, _, halen, _, _⟩ := Framing.parseRRs_frame has
  obtain ⟨_, _, hnlen, _, _⟩ := Framing.parseRRs_frame hnss
  obtain ⟨_, _, hrlen, _, _⟩ := Framing.parseRRs_frame hall
  subst hqlen halen hnlen hrlen
  have hdec := hQ.dec (an ++ (ns ++ (ob ++ ar)))
  rw [hhl, hb] at hdec
  rw [hdec] at hqs
  simp only [Out.ok.injEq, Prod.mk.injEq, true_and] at hqs
  subst hqs
  exact ⟨qs, an, ns, ob, ar, t1, t2, t3, p2, p3, p4, all, hhl, hQ.inv, han, hns, hob, har, hb.symm,
    has, hnss, hall, e4, (extractOpt_isSome hh1 (Img.header_ok hh0).2.2.2).symm⟩

/-- **Answers.** A packet with well-formed questions, one of whose answers — all answers before
it being well-formed — is written with an RDATA of 65 536 bytes or more: if the builder (`c = false`:
`build_bytes_vec`, `c = true`: `build_bytes_vec_compressed`) succeeds, its output does not parse
back to the packet. -/
theorem overflow_not_reparsed_answers (c : Bool) (p : Packet) (pre : List RR) (r : RR)
    (rest : List RR) (b : Bytes) (hq : ∀ q ∈ p.questions, q.WF) (hpre : ∀ x ∈ pre, x.WF)
    (ha : p.answers = pre ++ r :: rest) (hr : BigRec c r) (hb : p.buildG c = .ok b) :
    Packet.parse b ≠ .ok p := by
  intro hp
  obtain ⟨qs, an, ns, ob, ar, t1, t2, t3, p2, p3, p4, all, hhl, hinv, han, _, _, _, rfl, pa, _⟩ :=
    built_parse_split c p b hq hb hp
  rw [ha] at han pa
  refine sec_overflow c pre r rest hpre hr (12 + qs.1.length) qs.2 (p.writeHeader ++ qs.1)
    (by simp [hhl]) hinv an t1 han (ns ++ (ob ++ ar)) (pre ++ r :: rest).length rest p2 ?_
  simpa [hhl] using pa

/-- **Authority section.** The same with the overflowing record in the authority section: the
questions, all answers and the authority records before it are well-formed. -/
theorem overflow_not_reparsed_authority (c : Bool) (p : Packet) (pre : List RR) (r : RR)
    (rest : List RR) (b : Bytes) (hq : ∀ q ∈ p.questions, q.WF) (han : ∀ x ∈ p.answers, x.WF)
    (hpre : ∀ x ∈ pre, x.WF) (hn : p.nameServers = pre ++ r :: rest) (hr : BigRec c r)
    (hb : p.buildG c = .ok b) : Packet.parse b ≠ .ok p := by
  intro hp
  obtain ⟨qs, an, ns, ob, ar, t1, t2, t3, p2, p3, p4, all, hhl, hinv, hwa, hwn, _, _, rfl, pa, pn,
    _⟩ := built_parse_split c p b hq hb hp
  obtain ⟨an', t1', hw, hs⟩ := writeRRsG_spec c p.answers (12 + qs.1.length) qs.2 han
  rw [hwa] at hw
  simp only [Out.ok.injEq, Prod.mk.injEq] at hw
  obtain ⟨rfl, rfl⟩ := hw
  have hAN := hs (p.writeHeader ++ qs.1) (by simp [hhl]) hinv
  have e := hAN.dec (ns ++ (ob ++ ar))
  simp only [List.append_assoc, List.length_append, hhl] at e pa
  rw [e] at pa
  simp only [Out.ok.injEq, Prod.mk.injEq, true_and] at pa
  subst pa
  rw [hn] at hwn pn
  refine sec_overflow c pre r rest hpre hr (12 + qs.1.length + an.length) t1
    (p.writeHeader ++ qs.1 ++ an) (by simp [hhl]; omega) hAN.inv ns t2 hwn (ob ++ ar) (pre ++ r :: rest).length rest p3 ?_
  simpa [hhl, Nat.add_assoc] using pn

/-- **Additional section.** The same with the overflowing record in the additional section: the
header (whose OPT pseudo-record is written in front of the additional records), the questions, all
answers, all authority records and the additional records before the overflowing one are
well-formed. -/
theorem overflow_not_reparsed_additional (c : Bool) (p : Packet) (pre : List RR) (r : RR)
    (rest : List RR) (b : Bytes) (hh : p.header.WF) (hq : ∀ q ∈ p.questions, q.WF)
    (han : ∀ x ∈ p.answers, x.WF) (hns : ∀ x ∈ p.nameServers, x.WF) (hpre : ∀ x ∈ pre, x.WF)
    (har : p.additional = pre ++ r :: rest) (hr : BigRec c r) (hb : p.buildG c = .ok b) :
    Packet.parse b ≠ .ok p := by
  intro hp
  obtain ⟨qs, an, ns, ob, ar, t1, t2, t3, p2, p3, p4, all, hhl, hinv, hwa, hwn, hwo, hwr, rfl, pa,
    pn, pr, e4, e5⟩ := built_parse_split c p b hq hb hp
  -- the answers are read back
  obtain ⟨an', t1', hw, hs⟩ := writeRRsG_spec c p.answers (12 + qs.1.length) qs.2 han
  rw [hwa] at hw
  simp only [Out.ok.injEq, Prod.mk.injEq] at hw
  obtain ⟨rfl, rfl⟩ := hw
  have hAN := hs (p.writeHeader ++ qs.1) (by simp [hhl]) hinv
  have e := hAN.dec (ns ++ (ob ++ ar))
  simp only [List.append_assoc, List.length_append, hhl] at e pa
  rw [e] at pa
  simp only [Out.ok.injEq, Prod.mk.injEq, true_and] at pa
  subst pa
  -- the authority records are read back
  obtain ⟨ns', t2', hw, hs2⟩ := writeRRsG_spec c p.nameServers (12 + qs.1.length + an.length) t1 hns
  rw [hwn] at hw
  simp only [Out.ok.injEq, Prod.mk.injEq] at hw
  obtain ⟨rfl, rfl⟩ := hw
  have hNS := hs2 (p.writeHeader ++ qs.1 ++ an) (by simp [hhl]; omega) hAN.inv
  have e' := hNS.dec (ob ++ ar)
  simp only [List.append_assoc, List.length_append, hhl, Nat.add_assoc] at e' pn
  rw [e'] at pn
  simp only [Out.ok.injEq, Prod.mk.injEq, true_and] at pn
  subst pn
  -- the OPT pseudo-record is read back
  obtain ⟨ob', t2', hw, hso⟩ := writeRRsG_spec false p.header.optRR.toList
    (12 + qs.1.length + an.length + ns.length) t2 (Wr.optRR_WF p hh)
  rw [writeRRsG_false, hwo] at hw
  simp only [Out.bind_ok, Out.pure_eq, Out.ok.injEq, Prod.mk.injEq] at hw
  obtain ⟨rfl, rfl⟩ := hw
  have hO := hso (p.writeHeader ++ qs.1 ++ an ++ ns) (by simp [hhl]; omega) hNS.inv
  have eO := hO.dec ar
  simp only [List.append_assoc, List.length_append, hhl, Nat.add_assoc] at eO
  -- the list read for the additional section starts with it
  have hlenall : all.length = p.header.optRR.toList.length + (liftOpt all).2.length := by
    have := (Img.liftOpt_facts all).1
    rw [e5] at this
    rw [Wr.optRR_length]; omega
  rw [hlenall] at pr
  obtain ⟨l1, l2, q1, hs1, hs2, hl, _⟩ := parseRRs_split _ _ _ _ _ _ pr
  rw [eO] at hs1
  simp only [Out.ok.injEq, Prod.mk.injEq] at hs1
  obtain ⟨rfl, rfl⟩ := hs1
  -- lifting the OPT record out leaves the records after it
  have hl2 : l2 = (liftOpt all).2 := by
    cases ho : p.header.opt with
    | none =>
      have hnone : (liftOpt all).1 = none := by
        cases hx : (liftOpt all).1 with
        | none => rfl
        | some x => rw [hx, ho] at e5; simp at e5
      rw [liftOpt_snd_of_none all hnone, hl]
      simp [Header.optRR, ho]
    | some o =>
      rw [hl]
      simp [Header.optRR, ho, liftOpt, RData.typeOf]
  rw [← hl2] at e4 hs2
  rw [e4, har] at hs2
  rw [har] at hwr
  refine sec_overflow c pre r rest hpre hr
    (12 + qs.1.length + an.length + ns.length + ob.length) t2
    (p.writeHeader ++ qs.1 ++ an ++ ns ++ ob) (by simp [hhl]; omega) hO.inv ar t3 hwr []
    (pre ++ r :: rest).length rest p4 ?_
  simpa [hhl, Nat.add_assoc] using hs2

/-- `overflow_not_reparsed_at` (Props/C04C07C11More.lean, answers) for the **authority section**,
plain writer, with the same hypotheses on the overflowing record: RDATA written, `len()` honest,
65 536 bytes or more. -/
theorem overflow_not_reparsed_at_authority (p : Packet) (pre : List RR) (r : RR) (rest : List RR)
    (rd b : Bytes) (hq : ∀ q ∈ p.questions, q.WF) (han : ∀ x ∈ p.answers, x.WF)
    (hpre : ∀ x ∈ pre, x.WF) (hns : p.nameServers = pre ++ r :: rest) (hn : Name.WF r.name)
    (hrd : r.rdata.write = .ok rd) (hlen : r.rdata.len = rd.length) (hbig : 65536 ≤ rd.length)
    (hb : p.build = .ok b) : Packet.parse b ≠ .ok p :=
  overflow_not_reparsed_authority false p pre r rest b hq han hpre hns
    (BigRec.of_plain r rd hn hrd hlen hbig) (by rw [Packet.buildG_false]; exact hb)

/-- `overflow_not_reparsed_at` for the **additional section**, plain writer -/
theorem overflow_not_reparsed_at_additional (p : Packet) (pre : List RR) (r : RR) (rest : List RR)
    (rd b : Bytes) (hh : p.header.WF) (hq : ∀ q ∈ p.questions, q.WF)
    (han : ∀ x ∈ p.answers, x.WF) (hns : ∀ x ∈ p.nameServers, x.WF) (hpre : ∀ x ∈ pre, x.WF)
    (har : p.additional = pre ++ r :: rest) (hn : Name.WF r.name)
    (hrd : r.rdata.write = .ok rd) (hlen : r.rdata.len = rd.length) (hbig : 65536 ≤ rd.length)
    (hb : p.build = .ok b) : Packet.parse b ≠ .ok p :=
  overflow_not_reparsed_additional false p pre r rest b hh hq han hns hpre har
    (BigRec.of_plain r rd hn hrd hlen hbig) (by rw [Packet.buildG_false]; exact hb)

/-- the compressing writer, any of the three sections, for a record the parser can return (its
RDATA, being longer than 65 535 bytes, holds no compressible name: `big_rdata_writeG`) -/
theorem overflow_not_reparsed_compressed (p : Packet) (pre : List RR) (r : RR) (rest : List RR)
    (b : Bytes) (hh : p.header.WF) (hq : ∀ q ∈ p.questions, q.WF)
    (hpre : ∀ x ∈ pre, x.WF) (hn : Name.WF r.name) (hrd : r.rdata.WFcore)
    (hbig : 65536 ≤ r.rdata.writtenLen)
    (hpos : p.answers = pre ++ r :: rest ∨
      ((∀ x ∈ p.answers, x.WF) ∧ p.nameServers = pre ++ r :: rest) ∨
      ((∀ x ∈ p.answers, x.WF) ∧ (∀ x ∈ p.nameServers, x.WF) ∧ p.additional = pre ++ r :: rest))
    (hb : p.buildCompressed = .ok b) : Packet.parse b ≠ .ok p := by
  have hr := BigRec.of_core true r hn hrd hbig
  rcases hpos with ha | ⟨han, hns⟩ | ⟨han, hns, har⟩
  · exact overflow_not_reparsed_answers true p pre r rest b hq hpre ha hr hb
  · exact overflow_not_reparsed_authority true p pre r rest b hq han hpre hns hr hb
  · exact overflow_not_reparsed_additional true p pre r rest b hh hq han hns hpre har hr hb

/-! ## 4. `PlainFits` is necessary -/

/-- in a list of records the parser can return, either every RDATA fits RDLENGTH or there is a first
one that does not -/
theorem first_overflow (L : List RR) (hcore : ∀ r ∈ L, r.WFcore) :
    (∀ r ∈ L, r.WF) ∨ ∃ pre r rest, L = pre ++ r :: rest ∧ (∀ x ∈ pre, x.WF) ∧ r.WFcore ∧
      65536 ≤ r.rdata.writtenLen := by
  induction L with
  | nil => exact Or.inl (fun _ h => by cases h)
  | cons x L ih =>
    by_cases hx : x.rdata.writtenLen ≤ 65535
    · have hxwf : x.WF := (RR.WF_iff x).2 ⟨hcore x (by simp), hx⟩
      rcases ih (fun r hr => hcore r (by simp [hr])) with hall | ⟨pre, r, rest, rfl, hpre, hr, hbig⟩
      · left
        intro r hr
        rcases List.mem_cons.mp hr with rfl | hr
        · exact hxwf
        · exact hall r hr
      · right
        refine ⟨x :: pre, r, rest, rfl, ?_, hr, hbig⟩
        intro y hy
        rcases List.mem_cons.mp hy with rfl | hy
        · exact hxwf
        · exact hpre y hy
    · exact Or.inr ⟨[], x, L, rfl, (fun _ h => by cases h), hcore x (by simp), by omega⟩

/-- **`PlainFits` is necessary, for both writers.** A packet that is well-formed but for the
RDLENGTH clauses (as everything the parser returns is) and has a record whose RDATA re-encodes into
more than 65 535 bytes, in any section and at any position: whatever `build_bytes_vec`
(`c = false`) or `build_bytes_vec_compressed` (`c = true`) returns does not parse back to it. -/
theorem not_plainFits_not_reparsed (c : Bool) (p : Packet) (hcore : p.WFcore)
    (hopt : p.header.OptFits) (hnf : ¬ PlainFits p) (b : Bytes) (hb : p.buildG c = .ok b) :
    Packet.parse b ≠ .ok p := by
  obtain ⟨hH, _, _, _, _, hq, ha, hn, hr, _⟩ := hcore
  have hh : p.header.WF := (Header.WF_iff p.header).2 ⟨hH, hopt⟩
  rcases first_overflow p.answers ha with han | ⟨pre, r, rest, e, hpre, hrc, hbig⟩
  · rcases first_overflow p.nameServers hn with hns | ⟨pre, r, rest, e, hpre, hrc, hbig⟩
    · rcases first_overflow p.additional hr with har | ⟨pre, r, rest, e, hpre, hrc, hbig⟩
      · exact absurd ⟨hopt, fun r hr => ((RR.WF_iff r).1 (han r hr)).2,
          fun r hr => ((RR.WF_iff r).1 (hns r hr)).2,
          fun r hr => ((RR.WF_iff r).1 (har r hr)).2⟩ hnf
      · exact overflow_not_reparsed_additional c p pre r rest b hh hq han hns hpre e
          (BigRec.of_core c r hrc.1 hrc.2.2.1 hbig) hb
    · exact overflow_not_reparsed_authority c p pre r rest b hq han hpre e
        (BigRec.of_core c r hrc.1 hrc.2.2.1 hbig) hb
  · exact overflow_not_reparsed_answers c p pre r rest b hq hpre e
      (BigRec.of_core c r hrc.1 hrc.2.2.1 hbig) hb

/-- every packet the parser returns can be serialised, by both builders: a result always comes out
(the only obstacle to writing, a LOC record with a version other than 0, is never parsed) -/
theorem parsed_buildG_ok (c : Bool) {d : Bytes} {p : Packet} (h : Packet.parse d = .ok p) :
    ∃ b, p.buildG c = .ok b := by
  obtain ⟨_, _, _, _, _, _, ha, hn, hr, _⟩ := parse_image_wf_core h
  have hok : ∀ L : List RR, (∀ r ∈ L, r.WFcore) → allOk L = true := by
    intro L hL
    simp only [allOk, List.all_eq_true]
    intro r hr
    have := (hL r hr).2.2.1
    cases hrd : r.rdata with
    | flat code vs =>
      rw [hrd] at this
      simp only [rdOk]
      cases hk : schemaOf code with
      | none => rfl
      | some ks => exact this.2
    | _ => rfl
  rcases buildG_cases c p with ⟨_, b, hb⟩ | ⟨hw, _⟩
  · exact ⟨b, hb⟩
  · simp [Packet.writable, hok _ ha, hok _ hn, hok _ hr] at hw

/-- **C11 as an equivalence, either writer.** For a packet the parser returned, serialising it and
parsing the output gives the packet back **if and only if** the RDATA of every record fits the
16-bit RDLENGTH when written without compression (`PlainFits`). -/
theorem reserialise_iff (c : Bool) {d : Bytes} {p : Packet} (h : Packet.parse d = .ok p) :
    (∃ b, p.buildG c = .ok b ∧ Packet.parse b = .ok p) ↔ PlainFits p := by
  constructor
  · rintro ⟨b, hb, hp⟩
    apply Classical.byContradiction
    intro hnf
    exact not_plainFits_not_reparsed c p (parse_image_wf_core h) (parse_image_opt_fits h) hnf b hb hp
  · intro hf
    cases c
    · rw [Packet.buildG_false]; exact (reserialise_stable h hf).1
    · exact (reserialise_stable h hf).2

/-- **`reserialise_plain_iff`**: `build_bytes_vec` followed by `parse` is the identity on a received
packet exactly when `PlainFits` holds — the hypothesis of `reserialise_stable` (Props/C11.lean) is
necessary as well as sufficient. -/
theorem reserialise_plain_iff {d : Bytes} {p : Packet} (h : Packet.parse d = .ok p) :
    (∃ b, p.build = .ok b ∧ Packet.parse b = .ok p) ↔ PlainFits p := by
  rw [← Packet.buildG_false]; exact reserialise_iff false h

/-- **`reserialise_compressed_iff`**: the same for `build_bytes_vec_compressed`. The compressing
writer measures RDLENGTH on the bytes it wrote, so what matters is the length of the compressed
RDATA; but an RDATA the parser can return and that exceeds 65 535 bytes holds no compressible name
(`big_rdata_writeG`), so its compressed form is its plain form and the condition is again
`PlainFits`: compression never rescues a packet the plain writer breaks. -/
theorem reserialise_compressed_iff {d : Bytes} {p : Packet} (h : Packet.parse d = .ok p) :
    (∃ b, p.buildCompressed = .ok b ∧ Packet.parse b = .ok p) ↔ PlainFits p :=
  reserialise_iff true h

/-! ## 5. the same in terms of the RDATA lengths the writers measure -/

/-- the number of RDATA bytes writer `c` emits for `r` when the record starts at `off` with suffix
table `t`: for `c = true` this is `end - len_position - 2`, which `write_compressed_to` casts to
`u16` and patches into RDLENGTH -/
def rdLenG (c : Bool) (r : RR) (off : Nat) (t : Table) : Nat :=
  match r.rdata.writeG c (off + (nameG c r.name off t).1.length + r.writeCommon.length + 2)
      (nameG c r.name off t).2 with
  | .ok (rd, _) => rd.length
  | _ => 0

/-- every record of a section, written by `c` from `off` and `t` on, measures at most 65 535 RDATA
bytes -/
def fitsG (c : Bool) : List RR → Nat → Table → Prop
  | [], _, _ => True
  | r :: rs, off, t =>
    rdLenG c r off t ≤ 65535 ∧
    fitsG c rs (afterG (r.writeG c off t) off t).1 (afterG (r.writeG c off t) off t).2

/-- **The RDATA of every record, as writer `c` emits it in its place in the message, fits RDLENGTH.**
Offsets and suffix tables are threaded exactly as `buildG c` threads them. For `c = true` these are
the compressed RDATA lengths. -/
def WrittenFits (c : Bool) (p : Packet) : Prop :=
  let qs := writeQuestionsG c p.questions 12 []
  let s1 : Nat × Table := (12 + qs.1.length, qs.2)
  let s2 := afterG (writeRRsG c p.answers s1.1 s1.2) s1.1 s1.2
  let s3 := afterG (writeRRsG c p.nameServers s2.1 s2.2) s2.1 s2.2
  let o := match writeRRs p.header.optRR.toList with
    | .ok o => o.length
    | _ => 0
  p.header.OptFits ∧ fitsG c p.answers s1.1 s1.2 ∧ fitsG c p.nameServers s2.1 s2.2 ∧
    fitsG c p.additional (s3.1 + o) s3.2

/-- one field: the compressing writer never emits more than the plain one (any table) -/
theorem encFieldG_le (c : Bool) (k : FKind) (v : Val) (off : Nat) (t : Table) :
    (encFieldG c k v off t).1.length ≤ (encField k v).length := by
  unfold encFieldG
  split
  · rename_i n
    cases c
    · simp [nameG, encField]
    · simp only [nameG, if_true, encField, Name.write_length]
      exact compressName_le_plain n off t
  · exact Nat.le_refl _

/-- a field list: the compressing writer never emits more than the plain one (any table) -/
theorem encAllG_le (c : Bool) (ks : List FKind) : ∀ (vs : List Val) (off : Nat) (t : Table),
    (encAllG c ks vs off t).1.length ≤ (encAll ks vs).length := by
  induction ks with
  | nil => intro vs off t; cases vs <;> simp [encAllG, encAll]
  | cons k ks ih =>
    intro vs off t
    cases vs with
    | nil => simp [encAllG, encAll]
    | cons v vs =>
      have h1 := encFieldG_le c k v off t
      have h2 := ih vs (off + (encFieldG c k v off t).1.length) (encFieldG c k v off t).2
      simp only [encAllG, encAll, List.length_append]
      omega

/-- **`write_compressed_to` of an RDATA never emits more bytes than `write_to`**, at any offset and
with any suffix table (no well-formedness needed) -/
theorem rdata_writeG_le (c : Bool) (rd : RData) (off : Nat) (t : Table) (b : Bytes) (t' : Table)
    (h : rd.writeG c off t = .ok (b, t')) : b.length ≤ rd.writtenLen := by
  cases rd with
  | flat code vs =>
    simp only [RData.writeG] at h
    simp only [RData.writtenLen, RData.write]
    cases hk : schemaOf code with
    | none => rw [hk] at h; simp only [Out.ok.injEq, Prod.mk.injEq] at h; simp [← h.1]
    | some ks =>
      rw [hk] at h
      simp only at h ⊢
      split at h
      · rename_i hc
        simp only [Out.ok.injEq] at h
        rw [if_pos hc]
        have := encAllG_le c ks vs off t
        rw [h] at this
        exact this
      · cases h
  | ipseckey prec alg gw key =>
    simp only [RData.writeG, RData.write, Out.bind_ok, Out.pure_eq, Out.ok.injEq, Prod.mk.injEq] at h
    simp [RData.writtenLen, RData.write, ← h.1]
  | opt o =>
    simp only [RData.writeG, RData.write, Out.bind_ok, Out.pure_eq, Out.ok.injEq, Prod.mk.injEq] at h
    simp [RData.writtenLen, RData.write, ← h.1]
  | null code data =>
    simp only [RData.writeG, RData.write, Out.bind_ok, Out.pure_eq, Out.ok.injEq, Prod.mk.injEq] at h
    simp [RData.writtenLen, RData.write, ← h.1]
  | empty ty =>
    simp only [RData.writeG, RData.write, Out.bind_ok, Out.pure_eq, Out.ok.injEq, Prod.mk.injEq] at h
    simp [RData.writtenLen, RData.write, ← h.1]

/-- **One record: the length either writer measures exceeds 65 535 exactly when the plain length
does.** Below the limit the compressed RDATA may be shorter than the plain one; above it they are
the same bytes. (`r` a record the parser can return, any offset, any table.) -/
theorem rdLenG_le_iff (c : Bool) (r : RR) (hrd : r.rdata.WFcore) (off : Nat) (t : Table) :
    rdLenG c r off t ≤ 65535 ↔ r.rdata.writtenLen ≤ 65535 := by
  constructor
  · intro h
    apply Classical.byContradiction
    intro hbig
    have hbig : 65536 ≤ r.rdata.writtenLen := by omega
    obtain ⟨rd, hw, _⟩ := len_honest_core r.rdata hrd
    have hwl : r.rdata.writtenLen = rd.length := by simp [RData.writtenLen, hw]
    simp only [rdLenG, big_rdata_writeG r.rdata hrd hbig, hw, Out.bind_ok, Out.pure_eq] at h
    omega
  · intro h
    unfold rdLenG
    split
    · rename_i rd t' hw
      have := rdata_writeG_le c r.rdata _ _ rd t' hw
      omega
    · omega

/-- a section of records the parser can return: the measured lengths all fit exactly when the plain
ones do, wherever the section is written and whatever the table -/
theorem fitsG_iff (c : Bool) (L : List RR) (hcore : ∀ r ∈ L, r.WFcore) : ∀ (off : Nat) (t : Table),
    fitsG c L off t ↔ ∀ r ∈ L, r.rdata.writtenLen ≤ 65535 := by
  induction L with
  | nil => intro off t; simp [fitsG]
  | cons x L ih =>
    intro off t
    simp only [fitsG, rdLenG_le_iff c x (hcore x (by simp)).2.2.1 off t,
      ih (fun r hr => hcore r (by simp [hr])), List.mem_cons, forall_eq_or_imp]

/-- **For every packet the parser can return, and both writers, the lengths the writer measures
all fit RDLENGTH exactly when the plain lengths do.** In particular the compressed RDATA lengths
(`c = true`) cross the limit exactly where the plain ones do. -/
theorem writtenFits_iff (c : Bool) (p : Packet) (hcore : p.WFcore) :
    WrittenFits c p ↔ PlainFits p := by
  obtain ⟨_, _, _, _, _, _, ha, hn, hr, _⟩ := hcore
  simp only [WrittenFits, PlainFits, fitsG_iff c _ ha, fitsG_iff c _ hn, fitsG_iff c _ hr]

/-- **`reserialise_compressed_iff` in terms of the compressed RDATA lengths**: the output of
`build_bytes_vec_compressed` parses back to the received packet exactly when every RDATA, as the
compressing writer emits it at its place (offsets and suffix table threaded as the writer does),
has at most 65 535 bytes. -/
theorem reserialise_compressed_iff_lengths {d : Bytes} {p : Packet} (h : Packet.parse d = .ok p) :
    (∃ b, p.buildCompressed = .ok b ∧ Packet.parse b = .ok p) ↔ WrittenFits true p :=
  (reserialise_compressed_iff h).trans (writtenFits_iff true p (parse_image_wf_core h)).symm

/-! ## 6. what `PlainFits` amounts to for a received packet, and the failure as such -/

/-- `PlainFits` has four clauses; the one about the OPT pseudo-record kept in the header holds for
everything the parser returns (`parse_image_opt_fits`: OPT RDATA contains no names and is read from
at most 65 535 bytes). For a received packet `PlainFits` is therefore just: every record of the
three record sections re-encodes its RDATA into at most 65 535 bytes. It contains no count bounds. -/
theorem plainFits_iff_records {d : Bytes} {p : Packet} (h : Packet.parse d = .ok p) :
    PlainFits p ↔
      ∀ r ∈ p.answers ++ (p.nameServers ++ p.additional), r.rdata.writtenLen ≤ 65535 := by
  constructor
  · rintro ⟨_, h1, h2, h3⟩ r hr
    simp only [List.mem_append] at hr
    rcases hr with hr | hr | hr
    · exact h1 r hr
    · exact h2 r hr
    · exact h3 r hr
  · intro hall
    exact ⟨parse_image_opt_fits h, fun r hr => hall r (by simp [hr]),
      fun r hr => hall r (by simp [hr]), fun r hr => hall r (by simp [hr])⟩

/-- C11 as an equivalence, spelled out on the records: re-serialisation (either builder) gives the
received packet back exactly when no record's RDATA re-encodes into more than 65 535 bytes -/
theorem reserialise_iff_records (c : Bool) {d : Bytes} {p : Packet} (h : Packet.parse d = .ok p) :
    (∃ b, p.buildG c = .ok b ∧ Packet.parse b = .ok p) ↔
      ∀ r ∈ p.answers ++ (p.nameServers ++ p.additional), r.rdata.writtenLen ≤ 65535 :=
  (reserialise_iff c h).trans (plainFits_iff_records h)

/-- **How C11 fails when it fails.** For a received packet both builders always return bytes; when
`PlainFits` does not hold those bytes do not parse back to the packet, and this is the only way the
round trip can fail: no error from the builder, no panic. -/
theorem reserialise_fails_iff (c : Bool) {d : Bytes} {p : Packet} (h : Packet.parse d = .ok p) :
    ¬ PlainFits p ↔ ∃ b, p.buildG c = .ok b ∧ Packet.parse b ≠ .ok p := by
  constructor
  · intro hnf
    obtain ⟨b, hb⟩ := parsed_buildG_ok c h
    exact ⟨b, hb, not_plainFits_not_reparsed c p (parse_image_wf_core h) (parse_image_opt_fits h)
      hnf b hb⟩
  · rintro ⟨b, hb, hne⟩ hf
    obtain ⟨b', hb', hp⟩ := (reserialise_iff c h).2 hf
    rw [hb] at hb'
    cases hb'
    exact hne hp

/-- the two builders break the same received packets -/
theorem reserialise_plain_iff_compressed {d : Bytes} {p : Packet} (h : Packet.parse d = .ok p) :
    (∃ b, p.build = .ok b ∧ Packet.parse b = .ok p) ↔
    (∃ b, p.buildCompressed = .ok b ∧ Packet.parse b = .ok p) :=
  (reserialise_plain_iff h).trans (reserialise_compressed_iff h).symm

/-! ## 7. how long an input must be -/

/-- **Lower bound.** An accepted input whose re-serialisation (either builder) does not give the
packet back has at least 65 305 bytes. -/
theorem reserialise_failure_length (c : Bool) {d : Bytes} {p : Packet}
    (h : Packet.parse d = .ok p)
    (hfail : ¬ ∃ b, p.buildG c = .ok b ∧ Packet.parse b = .ok p) : 65305 ≤ d.length := by
  apply Classical.byContradiction
  intro hl
  exact hfail ((reserialise_iff c h).2 (plain_fits_of_length h (by omega)))

/-- **The exact threshold of the family `ovMsg`** (one RRSIG answer whose signer's name is a pointer
into the 18 fixed bytes of the same RDATA; `hi lo` the RDLENGTH that matches `tail`): the members
that survive re-serialisation, by either builder, are exactly those of at most 65 528 bytes. -/
theorem ov_reserialise_iff (c : Bool) (hi lo : UInt8) (tail : Bytes)
    (hlen : hi.toNat * 256 + lo.toNat = 20 + tail.length) :
    (∃ b, (ovPacket tail).buildG c = .ok b ∧ Packet.parse b = .ok (ovPacket tail)) ↔
      (ovMsg hi lo tail).length ≤ 65528 := by
  rw [reserialise_iff c (ov_parse hi lo tail hlen), ov_plainFits_iff, ovMsg_length]
  omega

/-- the members of the family with a signature of 65 486 bytes (RDLENGTH `FF E2` = 65 506): they are
65 529 bytes long, they are accepted, and both builders return bytes that do not parse back -/
theorem ov_65529 (tail : Bytes) (ht : tail.length = 65486) :
    (ovMsg 0xFF 0xE2 tail).length = 65529 ∧
    Packet.parse (ovMsg 0xFF 0xE2 tail) = .ok (ovPacket tail) ∧ ¬ PlainFits (ovPacket tail) ∧
    ∀ c, ∃ b, (ovPacket tail).buildG c = .ok b ∧ Packet.parse b ≠ .ok (ovPacket tail) := by
  have hp : Packet.parse (ovMsg 0xFF 0xE2 tail) = .ok (ovPacket tail) :=
    ov_parse _ _ _ (by rw [ht]; decide)
  have hnf : ¬ PlainFits (ovPacket tail) := by rw [ov_plainFits_iff]; omega
  exact ⟨by rw [ovMsg_length, ht], hp, hnf, fun c => (reserialise_fails_iff c hp).1 hnf⟩

/-- the smallest member of the family that breaks: 65 486 signature bytes `07` -/
def c11Ov65529 : Bytes := ovMsg 0xFF 0xE2 (List.replicate 65486 7)

/-- **A 65 529-byte witness** (six bytes shorter than `c11Overflow`), and no shorter message of the
family is one -/
theorem c11Ov65529_finding :
    c11Ov65529.length = 65529 ∧
    ∃ p, Packet.parse c11Ov65529 = .ok p ∧ ¬ PlainFits p ∧
      (∀ c, ∃ b, p.buildG c = .ok b ∧ Packet.parse b ≠ .ok p) ∧
      ∀ (c : Bool) (hi lo : UInt8) (tail : Bytes), hi.toNat * 256 + lo.toNat = 20 + tail.length →
        (ovMsg hi lo tail).length < 65529 →
        ∃ b, (ovPacket tail).buildG c = .ok b ∧ Packet.parse b = .ok (ovPacket tail) := by
  obtain ⟨h1, h2, h3, h4⟩ := ov_65529 (List.replicate 65486 7) List.length_replicate
  exact ⟨h1, _, h2, h3, h4, fun c hi lo tail hlen hl =>
    (ov_reserialise_iff c hi lo tail hlen).2 (by omega)⟩

/-! ## 8. the lower bound, tightened by one: 65 306

`plain_fits_of_length` rests on "a name field of at least 1 byte re-encodes into at most 255 bytes",
254 more. But a 1-byte name field is the root name, which re-encodes into 1 byte; a field that grows
holds a pointer and is at least 2 bytes long: the growth is at most 253. The size bounds of
Lemmas/ParseImage.lean are redone here with 253 in place of 254 (sizes only). -/

namespace Tight

/-- the in-place part of a name is not empty -/
theorem inPlaceEnd_gt {d : Bytes} {off e : Nat} (h : InPlaceEnd d off e) : off < e := by
  induction h with
  | root _ => omega
  | label _ _ _ _ ih => omega
  | ptr _ _ => omega

/-- **A name read from `k` bytes re-encodes into at most `k + 253` bytes**: a name that occupies a
single byte is the root. -/
theorem name_growth {d : Bytes} {pos : Nat} {n : Name} {q : Nat}
    (h : Name.parse d pos = .ok (n, q)) : Name.wireLen n + 2 ≤ (q - pos) + 255 := by
  have hwf := (Name.parse_WF h).2
  have hq := (Name.parse_pos_le h).1
  by_cases h1 : q = pos + 1
  · have hc := Name.parse_cursor h
    have hz : d[pos]? = some 0 := by
      cases hc with
      | root h0 => exact h0
      | label hb hb1 h63 hrest => have := inPlaceEnd_gt hrest; omega
      | ptr hb hp => omega
    have := Decodes.det (Name.parse_sound h) (Decodes.root hz)
    subst this
    simp [Name.wireLen]
  · omega

/-- by how much the plain re-encoding of a field list can exceed the bytes it was decoded from: 253
per embedded name -/
def growth' : List FKind → Nat
  | [] => 0
  | .name _ :: ks => 253 + growth' ks
  | _ :: ks => growth' ks

/-- one field: re-encoded size against bytes read, 253 per name -/
theorem decField_size {d : Bytes} {k : FKind} {pos : Nat} {v : Val} {p : Nat}
    (hp : pos ≤ d.length) (hs : k = .strs → pos < d.length)
    (h : decField d k pos = .ok (v, p)) : lenField k v ≤ (p - pos) + growth' [k] := by
  cases k with
  | name c =>
    simp only [decField] at h
    obtain ⟨⟨n, q⟩, hn, h⟩ := Out.bind_eq_ok h
    simp only [Out.pure_eq, Out.ok.injEq, Prod.mk.injEq] at h
    obtain ⟨rfl, rfl⟩ := h
    have := name_growth hn
    have := (Name.parse_pos_le hn).1
    simp only [lenField, growth']
    omega
  | _ =>
    all_goals
      have := (Img.decField_ok hp hs h).2.2.2
      simpa [Img.growth, growth'] using this

/-- a field list without character-string lists: re-encoded size against bytes read -/
theorem decAll_size {d : Bytes} (ks : List FKind) : ∀ {pos : Nat} {vs : List Val} {p : Nat},
    pos ≤ d.length → (∀ k ∈ ks, k ≠ .strs) → decAll d ks pos = .ok (vs, p) →
    lenAll ks vs ≤ (p - pos) + growth' ks := by
  induction ks with
  | nil =>
    intro pos vs p _ _ h
    simp only [decAll] at h
    cases h
    simp [lenAll]
  | cons k ks ih =>
    intro pos vs p hp hns h
    simp only [decAll] at h
    obtain ⟨⟨v, q⟩, hv, h⟩ := Out.bind_eq_ok h
    dsimp only at h
    obtain ⟨⟨vs', q'⟩, hvs, h⟩ := Out.bind_eq_ok h
    cases h
    have hk : k = .strs → pos < d.length := fun hk => absurd hk (hns k (by simp))
    obtain ⟨_, a2, a3, _⟩ := Img.decField_ok hp hk hv
    have a4 := decField_size hp hk hv
    obtain ⟨_, b2, _, _⟩ := Img.decAll_ok ks a3 (fun k' hk' => hns k' (by simp [hk'])) hvs
    have b4 := ih a3 (fun k' hk' => hns k' (by simp [hk'])) hvs
    have hg : growth' (k :: ks) = growth' [k] + growth' ks := by
      cases k <;> simp [growth']
    simp only [lenAll]
    omega

/-- the schema table again: a layout has at most one name, or no variable-length tail -/
theorem schemaOf_shape' {code : Nat} {ks : List FKind} (h : schemaOf code = some ks) :
    (ks = [.strs] ∨ ∀ k ∈ ks, k ≠ .strs) ∧
    (growth' ks ≤ 253 ∨ (Img.noTail ks = true ∧ Img.capAll ks ≤ 65535)) := by
  unfold schemaOf at h
  split at h <;> first
    | (cases h; exact ⟨by decide, by decide⟩)
    | cases h

/-- `IPSECKEY::parse`: the RDATA re-encodes into at most the bytes available + 253 (domain gateway) -/
theorem ipseckey_size {d : Bytes} {pos : Nat} {rd : RData} {p : Nat}
    (h : ipseckeyParse d pos = .ok (rd, p)) : rd.writtenLen ≤ (d.length - pos) + 253 := by
  unfold ipseckeyParse at h
  split at h
  · cases h
  · obtain ⟨prec, _, h⟩ := Out.bind_eq_ok h
    obtain ⟨gt, _, h⟩ := Out.bind_eq_ok h
    obtain ⟨alg, _, h⟩ := Out.bind_eq_ok h
    dsimp only at h
    obtain ⟨⟨gw, q⟩, hg, h⟩ := Out.bind_eq_ok h
    obtain ⟨key, hkey, h⟩ := Out.bind_eq_ok h
    cases h
    have hgw : pos + 3 ≤ q ∧ q ≤ d.length ∧ gw.write.length ≤ (q - (pos + 3)) + 253 := by
      split at hg
      · cases hg
        exact ⟨by omega, by omega, by simp [Gateway.write]⟩
      · split at hg
        · cases hg
        · obtain ⟨s, hs, hg⟩ := Out.bind_eq_ok hg
          simp only [Out.pure_eq, Out.ok.injEq, Prod.mk.injEq] at hg
          obtain ⟨rfl, rfl⟩ := hg
          exact ⟨by omega, by omega, by simp [Gateway.write]⟩
      · split at hg
        · cases hg
        · obtain ⟨s, hs, hg⟩ := Out.bind_eq_ok hg
          simp only [Out.pure_eq, Out.ok.injEq, Prod.mk.injEq] at hg
          obtain ⟨rfl, rfl⟩ := hg
          exact ⟨by omega, by omega, by simp [Gateway.write]⟩
      · obtain ⟨⟨n, q'⟩, hn, hg⟩ := Out.bind_eq_ok hg
        obtain ⟨h2, h3⟩ := Name.parse_pos_le hn
        have := name_growth hn
        simp only [Out.pure_eq, Out.ok.injEq, Prod.mk.injEq] at hg
        obtain ⟨rfl, rfl⟩ := hg
        refine ⟨by omega, h3, ?_⟩
        simp only [Gateway.write, Name.write_length]
        omega
      · cases hg
    have hk := slice_length hkey
    simp [RData.writtenLen, RData.write]
    omega

/-- `parse_rdata` on the message cut at the end of the RDATA: re-encoded size -/
theorem parseTyped_size {d : Bytes} {pos : Nat} {t : TYPE} {rd : RData} {p : Nat}
    (hp : pos < d.length) (h : parseTyped d pos t = .ok (rd, p)) :
    rd.writtenLen ≤ 65535 ∨ rd.writtenLen ≤ (d.length - pos) + 253 := by
  unfold parseTyped at h
  split at h
  · exact Or.inr (ipseckey_size h)
  · obtain ⟨s, hs, h⟩ := Out.bind_eq_ok h
    split at h
    · cases h
    · cases h
      exact Or.inl (by rw [RData.writtenLen_null]; omega)
  · obtain ⟨s, hs, h⟩ := Out.bind_eq_ok h
    split at h
    · cases h
    · cases h
      exact Or.inl (by rw [RData.writtenLen_null]; omega)
  · cases h
  · split at h
    · cases h
    · rename_i ks hks
      obtain ⟨⟨vs, q⟩, hdec, h⟩ := Out.bind_eq_ok h
      dsimp only at h
      obtain ⟨hshape, hsize⟩ := schemaOf_shape' hks
      have hall : AllOK ks vs ∧ q ≤ d.length ∧ lenAll ks vs ≤ (q - pos) + growth' ks := by
        rcases hshape with rfl | hno
        · obtain ⟨a1, _, a3, a4⟩ := Img.decAll_strs hp hdec
          exact ⟨a1, a3, by simpa [Img.growth, growth'] using a4⟩
        · obtain ⟨a1, _, a3, _⟩ := Img.decAll_ok ks (by omega) hno hdec
          exact ⟨a1, a3, decAll_size ks (by omega) hno hdec⟩
      obtain ⟨a1, a3, a4⟩ := hall
      split at h
      · rename_i hfc
        cases h
        have hw : (RData.flat t.toCode vs).writtenLen = lenAll ks vs := by
          simp only [RData.writtenLen, RData.write, hks, hfc, if_true]
          exact (lenAll_eq ks vs a1).symm
        rw [hw]
        rcases hsize with hg | ⟨hn, hcap⟩
        · right; omega
        · left
          have := Img.lenAll_le_cap ks vs a1 hn
          omega
      · cases h

/-- **`RData::parse`: the RDATA re-encodes into at most RDLENGTH + 253 bytes** (or into at most
65 535 anyway) -/
theorem rdata_size {d : Bytes} {pos : Nat} {rd : RData} {p : Nat}
    (h : RData.parse d pos = .ok (rd, p)) :
    rd.writtenLen ≤ 65535 ∨ rd.writtenLen ≤ (p - (pos + 10)) + 253 := by
  obtain ⟨_, _, _, _, _, hopt⟩ := Img.rdata_ok h
  unfold RData.parse at h
  split at h
  · cases h
  · obtain ⟨tb, htb, h⟩ := Out.bind_eq_ok h
    dsimp only at h
    obtain ⟨lb, hlb, h⟩ := Out.bind_eq_ok h
    split at h
    · cases h
    · rename_i hfit
      split at h
      · obtain ⟨o, rfl, _⟩ := Img.optParse_ok h
        exact Or.inl (hopt o rfl).1
      · split at h
        · cases h
          exact Or.inl (by rw [RData.writtenLen_empty]; omega)
        · rename_i hnz
          obtain ⟨⟨rd', q⟩, hpt, h⟩ := Out.bind_eq_ok h
          cases h
          have hlen : (d.take (pos + 10 + deN lb)).length = pos + 10 + deN lb := by
            rw [List.length_take]; omega
          have h2 := parseTyped_size (by omega) hpt
          rw [hlen] at h2
          rcases h2 with h2 | h2
          · exact Or.inl h2
          · right; omega

/-- one record, against the length of the message: its RDATA ends inside the message and starts at
least 11 bytes after the record's first byte -/
theorem rr_size {d : Bytes} {pos : Nat} {r : RR} {q : Nat} (h : RR.parse d pos = .ok (r, q)) :
    r.rdata.writtenLen ≤ 65535 ∨ r.rdata.writtenLen + pos + 11 ≤ d.length + 253 := by
  unfold RR.parse at h
  obtain ⟨⟨name, q0⟩, hname, h⟩ := Out.bind_eq_ok h
  dsimp only at h
  split at h
  · cases h
  · obtain ⟨cb, _, h⟩ := Out.bind_eq_ok h
    obtain ⟨tb, _, h⟩ := Out.bind_eq_ok h
    obtain ⟨⟨rdata, p'⟩, hrd, h⟩ := Out.bind_eq_ok h
    dsimp only at h
    have hq := (Name.parse_pos_le hname).1
    obtain ⟨_, _, hple, _⟩ := Img.rdata_ok hrd
    have hsz := rdata_size hrd
    have hr : r.rdata = rdata := by
      split at h
      · cases h; rfl
      · obtain ⟨cls, _, h⟩ := Out.bind_eq_ok h
        cases h; rfl
    rw [hr]
    rcases hsz with hsz | hsz
    · exact Or.inl hsz
    · right; omega

/-- every record of a parsed section was returned by `ResourceRecord::parse` at some offset at or
after the start of the section -/
theorem parseRRs_mem {d : Bytes} {n pos : Nat} {rs : List RR} {p : Nat}
    (h : parseRRs d n pos = .ok (rs, p)) :
    ∀ r ∈ rs, ∃ pos' q, pos ≤ pos' ∧ RR.parse d pos' = .ok (r, q) := by
  induction n generalizing pos rs p with
  | zero =>
    simp only [parseRRs] at h
    cases h
    intro r hr; cases hr
  | succ n ih =>
    simp only [parseRRs] at h
    obtain ⟨⟨r, q⟩, hr, h⟩ := Out.bind_eq_ok h
    dsimp only at h
    obtain ⟨⟨rs', q'⟩, hrs, h⟩ := Out.bind_eq_ok h
    cases h
    obtain ⟨_, hle, _⟩ := Img.parseRRs_ok (show parseRRs d 1 pos = .ok ([r], q) by
      simp [parseRRs, hr])
    intro x hx
    rcases List.mem_cons.mp hx with rfl | hx
    · exact ⟨pos, q, Nat.le_refl _, hr⟩
    · obtain ⟨pos', q'', h1, h2⟩ := ih hrs x hx
      exact ⟨pos', q'', by omega, h2⟩

/-- every record of a parsed message was returned by `ResourceRecord::parse` at an offset ≥ 12 -/
theorem packet_records {d : Bytes} {p : Packet} (h : Packet.parse d = .ok p) :
    ∀ r ∈ p.answers ++ (p.nameServers ++ p.additional),
      ∃ pos q, 12 ≤ pos ∧ RR.parse d pos = .ok (r, q) := by
  unfold Packet.parse at h
  obtain ⟨h0, _, h⟩ := Out.bind_eq_ok h
  obtain ⟨qd, _, h⟩ := Out.bind_eq_ok h
  obtain ⟨⟨qs, p1⟩, hqs, h⟩ := Out.bind_eq_ok h
  dsimp only at h
  obtain ⟨an, _, h⟩ := Out.bind_eq_ok h
  obtain ⟨⟨as, p2⟩, has, h⟩ := Out.bind_eq_ok h
  dsimp only at h
  obtain ⟨ns, _, h⟩ := Out.bind_eq_ok h
  obtain ⟨⟨nss, p3⟩, hnss, h⟩ := Out.bind_eq_ok h
  dsimp only at h
  obtain ⟨ar, _, h⟩ := Out.bind_eq_ok h
  obtain ⟨⟨all, p4⟩, hall, h⟩ := Out.bind_eq_ok h
  dsimp only at h
  obtain ⟨h1, _, h⟩ := Out.bind_eq_ok h
  cases h
  have hp1 := (Img.parseQuestions_ok hqs).2
  have hp2 := (Img.parseRRs_ok has).2.1
  have hp3 := (Img.parseRRs_ok hnss).2.1
  intro r hr
  simp only [List.mem_append] at hr
  rcases hr with hr | hr | hr
  · obtain ⟨pos, q, h1, h2⟩ := parseRRs_mem has r hr
    exact ⟨pos, q, by omega, h2⟩
  · obtain ⟨pos, q, h1, h2⟩ := parseRRs_mem hnss r hr
    exact ⟨pos, q, by omega, h2⟩
  · obtain ⟨pos, q, h1, h2⟩ := parseRRs_mem hall r ((Img.liftOpt_facts all).2.1 r hr)
    exact ⟨pos, q, by omega, h2⟩

end Tight

/-- **`PlainFits` from the size of the input, tight**: inputs of at most 65 305 bytes fit (one more
than `plain_fits_of_length`). A record starts at offset 12 or later, its owner name takes at least
one byte and its fixed fields ten, so RDLENGTH ≤ length − 23; the RDATA re-encodes into at most
RDLENGTH + 253 bytes. -/
theorem plain_fits_of_length_tight {d : Bytes} {p : Packet} (h : Packet.parse d = .ok p)
    (hl : d.length ≤ 65305) : PlainFits p := by
  rw [plainFits_iff_records h]
  intro r hr
  obtain ⟨pos, q, hpos, hrr⟩ := Tight.packet_records h r hr
  rcases Tight.rr_size hrr with hs | hs <;> omega

/-- C11 without a side condition for inputs of at most 65 305 bytes, either builder -/
theorem reserialise_stable_of_length_tight (c : Bool) {d : Bytes} {p : Packet}
    (h : Packet.parse d = .ok p) (hl : d.length ≤ 65305) :
    ∃ b, p.buildG c = .ok b ∧ Packet.parse b = .ok p :=
  (reserialise_iff c h).2 (plain_fits_of_length_tight h hl)

/-- **Lower bound, tight.** An accepted input whose re-serialisation (either builder) does not give
the packet back has at least 65 306 bytes. -/
theorem reserialise_failure_length_tight (c : Bool) {d : Bytes} {p : Packet}
    (h : Packet.parse d = .ok p)
    (hfail : ¬ ∃ b, p.buildG c = .ok b ∧ Packet.parse b = .ok p) : 65306 ≤ d.length := by
  apply Classical.byContradiction
  intro hl
  exact hfail (reserialise_stable_of_length_tight c h (by omega))

/-! ## 9. an accepted input of exactly 65 306 bytes whose re-serialisation fails

One RRSIG answer with the root owner name. The signer's name is the pointer `C0 28` to the last of
the 18 fixed bytes of the same RDATA, which holds 63: the name decoder reads a 63-byte label that
runs over the pointer itself and into the signature field, and goes on inside the signature — three
more labels of 63, 63 and 61 bytes and the root, laid down there by the sender. The two pointer
bytes expand to a name of 255 bytes, the largest possible growth (253). Everything is proved for an
arbitrary rest of the signature `sig`, so nothing of the size of the message is ever evaluated. -/

/-- header (ANCOUNT = 1), root owner name, TYPE RRSIG, CLASS IN, TTL 0, RDLENGTH `hi lo`, 18 fixed
bytes ending in 63, the pointer `C0 28` (to offset 40) -/
def tgHead (hi lo : UInt8) : Bytes :=
  [0, 0, 0, 0, 0, 0, 0, 1, 0, 0, 0, 0,
   0, 0, 46, 0, 1, 0, 0, 0, 0, hi, lo,
   0, 0, 0, 0, 0, 0, 0, 0, 0, 0, 0, 0, 0, 0, 0, 0, 0, 63,
   0xC0, 40]

/-- the first 252 bytes of the signature field: the rest of the first label (61 bytes), then the
labels of 63, 63 and 61 bytes with their length bytes, then the root -/
def tgBody : Bytes :=
  List.replicate 61 7 ++ (63 :: List.replicate 63 7 ++ (63 :: List.replicate 63 7 ++
    (61 :: List.replicate 61 7 ++ [0])))

/-- the signer's name the decoder reads: 255 bytes on the wire -/
def tgName : Name :=
  [0xC0 :: 40 :: List.replicate 61 7, List.replicate 63 7, List.replicate 63 7,
   List.replicate 61 7]

/-- the head is 43 bytes long -/
theorem tgHead_length (hi lo : UInt8) : (tgHead hi lo).length = 43 := rfl

/-- the prepared part of the signature is 252 bytes long -/
theorem tgBody_length : tgBody.length = 252 := by decide +kernel

/-- the signer's name has the maximal wire length -/
theorem tgName_wireLen : Name.wireLen tgName = 255 := by decide +kernel

/-- the pointer at 41 decodes to `tgName` in head ++ body -/
theorem tg_enc (hi lo : UInt8) : Enc (tgHead hi lo ++ tgBody) 41 tgName := by
  have hl : (tgHead hi lo ++ tgBody).length = 295 := by
    rw [List.length_append, tgHead_length, tgBody_length]
  refine Enc.ptr (b := 0xC0) (b2 := 40) rfl (by decide) rfl (by decide) (by simp [tgName]) ?_
  refine Enc.label (b := 63) rfl (by decide) (by decide) rfl (by rw [hl]; decide) ?_
  refine Enc.label (b := 63) rfl (by decide) (by decide) rfl (by rw [hl]; decide) ?_
  refine Enc.label (b := 63) rfl (by decide) (by decide) rfl (by rw [hl]; decide) ?_
  refine Enc.label (b := 61) rfl (by decide) (by decide) rfl (by rw [hl]; decide) ?_
  exact Enc.root rfl

/-- a message of the family: head, the 252 prepared bytes, then the rest of the signature -/
def tgMsg (hi lo : UInt8) (sig : Bytes) : Bytes := tgHead hi lo ++ (tgBody ++ sig)

/-- length of a message of the family -/
theorem tgMsg_length (hi lo : UInt8) (sig : Bytes) :
    (tgMsg hi lo sig).length = 295 + sig.length := by
  simp [tgMsg, tgHead_length, tgBody_length]; omega

/-- the signer's name: the pointer at 41 expands to `tgName`, the cursor moves by 2 -/
theorem tg_name (hi lo : UInt8) (sig : Bytes) :
    Name.parse (tgMsg hi lo sig) 41 = .ok (tgName, 43) := by
  have e : tgMsg hi lo sig = (tgHead hi lo ++ tgBody) ++ sig := by simp [tgMsg]
  rw [e]
  exact Name.parse_of_Enc_end ((tg_enc hi lo).append sig)
    (InPlaceEnd.ptr (b := 0xC0) (getElem?_append_some rfl) (by decide))
    (by rw [tgName_wireLen]; omega)

/-- the owner name at offset 12 is the root, one byte -/
theorem tg_root (hi lo : UInt8) (sig : Bytes) :
    Name.parse (tgMsg hi lo sig) 12 = .ok ([], 13) := by
  unfold Name.parse
  rw [nameLoop]; simp [tgMsg, tgHead]

/-- the RRSIG value the parser returns: key tag 63, the 255-byte signer's name, and the whole
signature field (which starts with the bytes the name was read from) -/
def tgRdata (sig : Bytes) : RData :=
  .flat 46 [.int 0, .int 0, .int 0, .int 0, .int 0, .int 0, .int 63, .name tgName,
            .bytes (tgBody ++ sig)]

/-- what `Packet::parse` returns for a message of the family: no question, one RRSIG answer -/
def tgPacket (sig : Bytes) : Packet :=
  { header := { id := 0, opcode := .StandardQuery, rcode := .NoError, flags := 0, opt := none },
    questions := [],
    answers := [{ name := [], cls := .IN, ttl := 0, rdata := tgRdata sig, flush := false }],
    nameServers := [], additional := [] }

/-- slices inside the 43-byte head do not depend on the signature -/
theorem tg_slice (hi lo : UInt8) (sig : Bytes) (a b : Nat) (hb : b ≤ 43) :
    slice (tgMsg hi lo sig) a b = slice (tgHead hi lo) a b := slice_head _ _ _ _ hb

/-- `RRSIG::parse` on the RDATA of the message -/
theorem tg_typed (hi lo : UInt8) (sig : Bytes) :
    parseTyped (tgMsg hi lo sig) 23 .RRSIG = .ok (tgRdata sig, 295 + sig.length) := by
  have hl := tgMsg_length hi lo sig
  have s1 : slice (tgMsg hi lo sig) 23 25 = .ok [0, 0] := by
    rw [tg_slice _ _ _ _ _ (by omega)]; simp [slice, tgHead]
  have s2 : slice (tgMsg hi lo sig) 25 26 = .ok [0] := by
    rw [tg_slice _ _ _ _ _ (by omega)]; simp [slice, tgHead]
  have s3 : slice (tgMsg hi lo sig) 26 27 = .ok [0] := by
    rw [tg_slice _ _ _ _ _ (by omega)]; simp [slice, tgHead]
  have s4 : slice (tgMsg hi lo sig) 27 31 = .ok [0, 0, 0, 0] := by
    rw [tg_slice _ _ _ _ _ (by omega)]; simp [slice, tgHead]
  have s5 : slice (tgMsg hi lo sig) 31 35 = .ok [0, 0, 0, 0] := by
    rw [tg_slice _ _ _ _ _ (by omega)]; simp [slice, tgHead]
  have s6 : slice (tgMsg hi lo sig) 35 39 = .ok [0, 0, 0, 0] := by
    rw [tg_slice _ _ _ _ _ (by omega)]; simp [slice, tgHead]
  have s7 : slice (tgMsg hi lo sig) 39 41 = .ok [0, 63] := by
    rw [tg_slice _ _ _ _ _ (by omega)]; simp [slice, tgHead]
  have s8 : slice (tgMsg hi lo sig) 43 (295 + sig.length) = .ok (tgBody ++ sig) := by
    have := slice_mid (tgHead hi lo) (tgBody ++ sig) [] 43 (295 + sig.length) rfl
      (by simp [tgHead_length, tgBody_length]; omega)
    simpa [tgMsg] using this
  have htail : decAll (tgMsg hi lo sig) [.name false, .rest] 41
      = .ok ([.name tgName, .bytes (tgBody ++ sig)], 295 + sig.length) := by
    simp only [decAll, decField, tg_name, Out.bind_ok, Out.pure_eq, s8, hl]
  have hdec : decAll (tgMsg hi lo sig)
      [.int 2, .int 1, .int 1, .int 4, .int 4, .int 4, .int 2, .name false, .rest] 23
      = .ok ([.int 0, .int 0, .int 0, .int 0, .int 0, .int 0, .int 63, .name tgName,
              .bytes (tgBody ++ sig)], 295 + sig.length) := by
    rw [decAll, decField_int (w := 2) (pos := 23) rfl s1]
    simp only [Out.bind_ok]
    rw [decAll, decField_int (w := 1) (pos := 25) rfl s2]
    simp only [Out.bind_ok]
    rw [decAll, decField_int (w := 1) (pos := 26) rfl s3]
    simp only [Out.bind_ok]
    rw [decAll, decField_int (w := 4) (pos := 27) rfl s4]
    simp only [Out.bind_ok]
    rw [decAll, decField_int (w := 4) (pos := 31) rfl s5]
    simp only [Out.bind_ok]
    rw [decAll, decField_int (w := 4) (pos := 35) rfl s6]
    simp only [Out.bind_ok]
    rw [decAll, decField_int (w := 2) (pos := 39) rfl s7]
    simp only [Out.bind_ok, htail, Out.pure_eq]
    simp [deN]
  simp only [parseTyped, TYPE.toCode, schemaOf, hdec, Out.bind_ok, flatCheck, if_true, Out.pure_eq,
    tgRdata]

/-- `RData::parse` at the TYPE field of the answer, when RDLENGTH `hi lo` is 272 + `sig.length` -/
theorem tg_rdata_parse (hi lo : UInt8) (sig : Bytes)
    (hlen : hi.toNat * 256 + lo.toNat = 272 + sig.length) :
    RData.parse (tgMsg hi lo sig) 13 = .ok (tgRdata sig, 295 + sig.length) := by
  have hl := tgMsg_length hi lo sig
  have hf : Spec.field (tgMsg hi lo sig) (13 + 8) 2 = some (272 + sig.length) := by
    have hs : slice (tgMsg hi lo sig) 21 23 = .ok [hi, lo] := by
      rw [tg_slice _ _ _ _ _ (by omega)]; simp [slice, tgHead]
    rw [Framing.field_of_slice rfl hs, ← hlen]
    simp [deN]
  have htake : (tgMsg hi lo sig).take (295 + sig.length) = tgMsg hi lo sig :=
    List.take_of_length_le (by rw [hl]; omega)
  rw [Framing.RData.parse_eq_rdataOn hf (by omega),
    show 13 + 10 + (272 + sig.length) = 295 + sig.length by omega, htake]
  have ht : ((tgMsg hi lo sig).drop 13).take 2 = [0, 46] := by
    rw [tgMsg, take_drop_append (by rw [tgHead_length]; omega)]; rfl
  have hty : TYPE.ofCode (deN [0, 46]) = .RRSIG := by decide +kernel
  unfold Framing.rdataOn
  simp only [ht, hty]
  simp only [reduceCtorEq, ↓reduceIte]
  rw [if_neg (show ¬ 272 + sig.length = 0 by omega), tg_typed]
  have e : 13 + 10 + (272 + sig.length) = 295 + sig.length := by omega
  simp only [Out.bind_ok, Out.pure_eq, e]

/-- `ResourceRecord::parse` of the answer at offset 12 -/
theorem tg_record (hi lo : UInt8) (sig : Bytes)
    (hlen : hi.toNat * 256 + lo.toNat = 272 + sig.length) :
    RR.parse (tgMsg hi lo sig) 12 =
      .ok ({ name := [], cls := .IN, ttl := 0, rdata := tgRdata sig, flush := false },
           295 + sig.length) := by
  have hl := tgMsg_length hi lo sig
  have h3 : slice (tgMsg hi lo sig) 15 17 = .ok [0, 1] := by
    rw [tg_slice _ _ _ _ _ (by omega)]; simp [slice, tgHead]
  have h4 : slice (tgMsg hi lo sig) 17 21 = .ok [0, 0, 0, 0] := by
    rw [tg_slice _ _ _ _ _ (by omega)]; simp [slice, tgHead]
  unfold RR.parse
  rw [tg_root]
  simp only [Out.bind_ok, hl]
  rw [if_neg (by omega)]
  simp only [h3, h4, tg_rdata_parse hi lo sig hlen, Out.bind_ok]
  rw [if_neg (by simp [tgRdata, RData.typeOf, TYPE.ofCode])]
  have : CLASS.ofCode (deN [0, 1] &&& 0x7FFF) = .ok .IN := by decide
  rw [this]
  simp [deN]

/-- the message as header ++ rest -/
theorem tgMsg_split (hi lo : UInt8) (sig : Bytes) :
    tgMsg hi lo sig = ovHdr ++ ((tgHead hi lo).drop 12 ++ (tgBody ++ sig)) := rfl

/-- **Every message of the family is accepted**, whatever the rest of the signature, as long as the
RDLENGTH field `hi lo` holds the 272 + `sig.length` RDATA bytes present. -/
theorem tg_parse (hi lo : UInt8) (sig : Bytes)
    (hlen : hi.toNat * 256 + lo.toNat = 272 + sig.length) :
    Packet.parse (tgMsg hi lo sig) = .ok (tgPacket sig) := by
  have hh : Header.parse (tgMsg hi lo sig) =
      .ok { id := 0, opcode := .StandardQuery, rcode := .NoError, flags := 0, opt := none } := by
    rw [tgMsg_split, header_parse_head _ _ (by decide)]; decide +kernel
  have h1 : Peek.questions (tgMsg hi lo sig) = .ok 0 := by
    unfold Peek.questions; rw [tgMsg_split, peek_head _ _ _ (by decide)]; decide +kernel
  have h2 : Peek.answers (tgMsg hi lo sig) = .ok 1 := by
    unfold Peek.answers; rw [tgMsg_split, peek_head _ _ _ (by decide)]; decide +kernel
  have h3 : Peek.nameServers (tgMsg hi lo sig) = .ok 0 := by
    unfold Peek.nameServers; rw [tgMsg_split, peek_head _ _ _ (by decide)]; decide +kernel
  have h4 : Peek.additional (tgMsg hi lo sig) = .ok 0 := by
    unfold Peek.additional; rw [tgMsg_split, peek_head _ _ _ (by decide)]; decide +kernel
  unfold Packet.parse
  rw [hh, h1, h2, h3, h4]
  simp only [Out.bind_ok, parseQuestions, parseRRs, tg_record hi lo sig hlen, Out.pure_eq,
    liftOpt, Header.extractOpt, tgPacket]

/-- **The mechanism, at its maximum.** The RDATA received in 272 + `sig.length` bytes re-encodes
into 525 + `sig.length` bytes: 253 more, the two pointer bytes having become a 255-byte name. -/
theorem tg_writtenLen (sig : Bytes) : (tgRdata sig).writtenLen = 525 + sig.length := by
  have hw : (tgRdata sig).write = .ok ([0, 0, 0, 0, 0, 0, 0, 0, 0, 0, 0, 0, 0, 0, 0, 0, 0, 63] ++
      (Name.write tgName ++ (tgBody ++ sig))) := by
    simp [tgRdata, RData.write, schemaOf, flatCheck, encAll, encField, beN]
  simp only [RData.writtenLen, hw, List.length_append, Name.write_length, tgName_wireLen,
    tgBody_length, List.length_cons, List.length_nil]
  omega

/-- the family crosses the limit exactly when the rest of the signature is longer than 65 010
bytes -/
theorem tg_plainFits_iff (sig : Bytes) : PlainFits (tgPacket sig) ↔ sig.length ≤ 65010 := by
  constructor
  · intro hf
    have := hf.2.1 _ (List.mem_singleton.mpr rfl)
    rw [tg_writtenLen] at this
    omega
  · intro h
    refine ⟨trivial, fun r hr => ?_, (fun r hr => by cases hr), (fun r hr => by cases hr)⟩
    simp only [tgPacket, List.mem_singleton] at hr
    subst hr
    show (tgRdata sig).writtenLen ≤ 65535
    rw [tg_writtenLen]; omega

/-- **The exact threshold of the family `tgMsg`**: the members that survive re-serialisation, by
either builder, are exactly those of at most 65 305 bytes. -/
theorem tg_reserialise_iff (c : Bool) (hi lo : UInt8) (sig : Bytes)
    (hlen : hi.toNat * 256 + lo.toNat = 272 + sig.length) :
    (∃ b, (tgPacket sig).buildG c = .ok b ∧ Packet.parse b = .ok (tgPacket sig)) ↔
      (tgMsg hi lo sig).length ≤ 65305 := by
  rw [reserialise_iff c (tg_parse hi lo sig hlen), tg_plainFits_iff, tgMsg_length]
  omega

/-- the members of the family with 65 011 more signature bytes (RDLENGTH `FF 03` = 65 283): they
are 65 306 bytes long, they are accepted, their RDATA re-encodes into 65 536 bytes, and both
builders return bytes that do not parse back -/
theorem tg_65306 (sig : Bytes) (hs : sig.length = 65011) :
    (tgMsg 0xFF 0x03 sig).length = 65306 ∧
    Packet.parse (tgMsg 0xFF 0x03 sig) = .ok (tgPacket sig) ∧ ¬ PlainFits (tgPacket sig) ∧
    (tgPacket sig).answers.map (·.rdata.writtenLen) = [65536] ∧
    ∀ c, ∃ b, (tgPacket sig).buildG c = .ok b ∧ Packet.parse b ≠ .ok (tgPacket sig) := by
  have hp : Packet.parse (tgMsg 0xFF 0x03 sig) = .ok (tgPacket sig) :=
    tg_parse _ _ _ (by rw [hs]; decide)
  have hnf : ¬ PlainFits (tgPacket sig) := by rw [tg_plainFits_iff]; omega
  refine ⟨by rw [tgMsg_length, hs], hp, hnf, ?_, fun c => (reserialise_fails_iff c hp).1 hnf⟩
  show [(tgRdata sig).writtenLen] = [65536]
  rw [tg_writtenLen, hs]

/-- the smallest accepted input that does not survive re-serialisation: 65 306 bytes -/
def c11Smallest : Bytes := tgMsg 0xFF 0x03 (List.replicate 65011 7)

/-- **The threshold of the finding `rdata-expands-past-65535` is exactly 65 306 bytes.** Every
accepted input of at most 65 305 bytes is given back by parse → build → parse, with either builder;
`c11Smallest` is an accepted input of 65 306 bytes for which both builders return bytes that do not
parse back to the packet. -/
theorem smallest_failing_input :
    (∀ (c : Bool) (d : Bytes) (p : Packet), Packet.parse d = .ok p → d.length ≤ 65305 →
      ∃ b, p.buildG c = .ok b ∧ Packet.parse b = .ok p) ∧
    c11Smallest.length = 65306 ∧
    ∃ p, Packet.parse c11Smallest = .ok p ∧
      ∀ c, ∃ b, p.buildG c = .ok b ∧ Packet.parse b ≠ .ok p := by
  obtain ⟨h1, h2, _, _, h5⟩ := tg_65306 (List.replicate 65011 7) List.length_replicate
  exact ⟨fun c d p h hl => reserialise_stable_of_length_tight c h hl, h1, _, h2, h5⟩

/-! ## 10. the hypotheses are satisfiable -/

/-- the RRSIG RDATA of the family `ovMsg` with a 65 492-byte signature is a value the parser returns
(so it satisfies `WFcore`) and re-encodes into 65 542 bytes -/
theorem ov_rdata_big (tail : Bytes) (ht : tail.length = 65492) :
    (ovRdata tail).WFcore ∧ 65536 ≤ (ovRdata tail).writtenLen := by
  obtain ⟨_, _, hcore, _⟩ := ov_overflow tail ht
  have := (hcore.2.2.2.2.2.2.1 _ (List.mem_singleton.mpr rfl)).2.2.1
  exact ⟨this, by rw [ov_writtenLen, ht]; decide⟩

/-- the only record of `ovPacket tail` -/
def ovRecord (tail : Bytes) : RR :=
  { name := [], cls := .IN, ttl := 0, rdata := ovRdata tail, flush := false }

/-- it is a `BigRec` for both writers -/
theorem ovRecord_big (c : Bool) (tail : Bytes) (ht : tail.length = 65492) :
    BigRec c (ovRecord tail) :=
  BigRec.of_core c _ (show Name.WF [] by decide) (ov_rdata_big tail ht).1 (ov_rdata_big tail ht).2

/-- `big_rdata_writeG`: the compressing writer emits the 65 542 plain bytes of that RDATA -/
example (tail : Bytes) (ht : tail.length = 65492) (off : Nat) (t : Table) :
    (ovRdata tail).writeG true off t = .ok (ovFixed ++ tail, t) := by
  rw [big_rdata_writeG _ (ov_rdata_big tail ht).1 (ov_rdata_big tail ht).2, ov_rdata_write]; rfl

/-- `BigRec.of_plain`: the hypotheses of `overflow_not_reparsed_at` on the same record -/
example (tail : Bytes) (ht : tail.length = 65492) : BigRec false (ovRecord tail) :=
  have hl : ovFixed.length = 50 := rfl
  BigRec.of_plain _ (ovFixed ++ tail) (show Name.WF [] by decide) (ov_rdata_write _)
    (by show (ovRdata tail).len = _; rw [ov_rdata_len, List.length_append, hl])
    (by rw [List.length_append, hl, ht]; decide)

/-- `rr_overflow_not_reparsed_G` on that record, written by the compressing writer right after a
12-byte header -/
example (tail hdr b post : Bytes) (t' : Table) (q : Nat) (ht : tail.length = 65492)
    (hh : hdr.length = 12) (hw : (ovRecord tail).writeG true 12 [] = .ok (b, t')) :
    RR.parse (hdr ++ (b ++ post)) hdr.length ≠ .ok (ovRecord tail, q) :=
  rr_overflow_not_reparsed_G true _ (ovRecord_big true tail ht) 12 [] hdr hh (TInv.nil _) b t' hw
    post q

/-- the packets of the `ovMsg` family with the record moved to the authority or the additional
section, behind one well-formed answer `a. A 1.2.3.4` -/
def ovPacketIn (auth : Bool) (tail : Bytes) : Packet :=
  { header := { id := 0, opcode := .StandardQuery, rcode := .NoError, flags := 0, opt := none },
    questions := [],
    answers := [{ name := [[97]], cls := .IN, ttl := 60, rdata := .flat 1 [.int 0x01020304],
                  flush := false }],
    nameServers := (if auth then [ovRecord tail] else []),
    additional := (if auth then [] else [ovRecord tail]) }

/-- `overflow_not_reparsed_answers`, either builder -/
example (c : Bool) (tail b : Bytes) (ht : tail.length = 65492)
    (hb : (ovPacket tail).buildG c = .ok b) : Packet.parse b ≠ .ok (ovPacket tail) :=
  overflow_not_reparsed_answers c _ [] (ovRecord tail) [] b (fun _ h => by cases h)
    (fun _ h => by cases h) rfl (ovRecord_big c tail ht) hb

/-- `overflow_not_reparsed_authority`, either builder -/
example (c : Bool) (tail b : Bytes) (ht : tail.length = 65492)
    (hb : (ovPacketIn true tail).buildG c = .ok b) : Packet.parse b ≠ .ok (ovPacketIn true tail) :=
  overflow_not_reparsed_authority c _ [] (ovRecord tail) [] b (fun _ h => by cases h)
    (by simp only [ovPacketIn, List.mem_singleton]; intro x hx; subst hx; decide)
    (fun _ h => by cases h) rfl (ovRecord_big c tail ht) hb

/-- `overflow_not_reparsed_additional`, either builder -/
example (c : Bool) (tail b : Bytes) (ht : tail.length = 65492)
    (hb : (ovPacketIn false tail).buildG c = .ok b) :
    Packet.parse b ≠ .ok (ovPacketIn false tail) :=
  overflow_not_reparsed_additional c _ [] (ovRecord tail) [] b (by simp only [ovPacketIn]; decide)
    (fun _ h => by cases h)
    (by simp only [ovPacketIn, List.mem_singleton]; intro x hx; subst hx; decide)
    (fun _ h => by cases h) (fun _ h => by cases h) rfl (ovRecord_big c tail ht) hb

/-- `overflow_not_reparsed_at_authority` / `_additional`, plain writer, hypotheses as in
`overflow_not_reparsed_at` -/
example (tail b : Bytes) (ht : tail.length = 65492) (hb : (ovPacketIn true tail).build = .ok b) :
    Packet.parse b ≠ .ok (ovPacketIn true tail) :=
  have hl : ovFixed.length = 50 := rfl
  overflow_not_reparsed_at_authority _ [] (ovRecord tail) [] (ovFixed ++ tail) b
    (fun _ h => by cases h)
    (by simp only [ovPacketIn, List.mem_singleton]; intro x hx; subst hx; decide)
    (fun _ h => by cases h) rfl (show Name.WF [] by decide) (ov_rdata_write _)
    (by show (ovRdata tail).len = _; rw [ov_rdata_len, List.length_append, hl])
    (by rw [List.length_append, hl, ht]; decide) hb

example (tail b : Bytes) (ht : tail.length = 65492) (hb : (ovPacketIn false tail).build = .ok b) :
    Packet.parse b ≠ .ok (ovPacketIn false tail) :=
  have hl : ovFixed.length = 50 := rfl
  overflow_not_reparsed_at_additional _ [] (ovRecord tail) [] (ovFixed ++ tail) b
    (by simp only [ovPacketIn]; decide)
    (fun _ h => by cases h)
    (by simp only [ovPacketIn, List.mem_singleton]; intro x hx; subst hx; decide)
    (fun _ h => by cases h) (fun _ h => by cases h) rfl (show Name.WF [] by decide)
    (ov_rdata_write _)
    (by show (ovRdata tail).len = _; rw [ov_rdata_len, List.length_append, hl])
    (by rw [List.length_append, hl, ht]; decide) hb

/-- `overflow_not_reparsed_compressed`, the additional-section case -/
example (tail b : Bytes) (ht : tail.length = 65492)
    (hb : (ovPacketIn false tail).buildCompressed = .ok b) :
    Packet.parse b ≠ .ok (ovPacketIn false tail) :=
  overflow_not_reparsed_compressed _ [] (ovRecord tail) [] b (by simp only [ovPacketIn]; decide)
    (fun _ h => by cases h)
    (fun _ h => by cases h) (show Name.WF [] by decide) (ov_rdata_big tail ht).1
    (ov_rdata_big tail ht).2
    (Or.inr (Or.inr ⟨by simp only [ovPacketIn, List.mem_singleton]; intro x hx; subst hx; decide,
      (fun _ h => by cases h), rfl⟩)) hb

/-- `not_plainFits_not_reparsed` on the result of parsing a 65 535-byte member of `ovMsg` -/
example (c : Bool) (tail b : Bytes) (ht : tail.length = 65492)
    (hb : (ovPacket tail).buildG c = .ok b) : Packet.parse b ≠ .ok (ovPacket tail) :=
  have h := ov_overflow tail ht
  not_plainFits_not_reparsed c _ h.2.2.1 trivial h.2.2.2.1 b hb

/-- `first_overflow`: a one-record section whose record does not fit -/
example (tail : Bytes) (ht : tail.length = 65492) :
    ∃ pre r rest, [ovRecord tail] = pre ++ r :: rest ∧ (∀ x ∈ pre, x.WF) ∧ r.WFcore ∧
      65536 ≤ r.rdata.writtenLen := by
  have h := ov_overflow tail ht
  rcases first_overflow [ovRecord tail] h.2.2.1.2.2.2.2.2.2.1 with hall | hex
  · have h1 : (ovRdata tail).writtenLen ≤ 65535 :=
      ((RR.WF_iff _).1 (hall _ (List.mem_singleton.mpr rfl))).2
    have h2 := (ov_rdata_big tail ht).2
    omega
  · exact hex

/-- the equivalences on the 46-byte member of the family (it fits: both sides hold) … -/
example : (∃ b, (ovPacket [7, 7, 7]).build = .ok b ∧ Packet.parse b = .ok (ovPacket [7, 7, 7])) ∧
    (∃ b, (ovPacket [7, 7, 7]).buildCompressed = .ok b ∧
      Packet.parse b = .ok (ovPacket [7, 7, 7])) ∧ WrittenFits true (ovPacket [7, 7, 7]) :=
  ⟨(reserialise_plain_iff c11Small_parse).2 (by decide),
   (reserialise_compressed_iff c11Small_parse).2 (by decide),
   (reserialise_compressed_iff_lengths c11Small_parse).1
     ((reserialise_compressed_iff c11Small_parse).2 (by decide))⟩

/-- … and on the 65 535-byte one (it does not: both sides fail) -/
example (tail : Bytes) (ht : tail.length = 65492) :
    (¬ ∃ b, (ovPacket tail).build = .ok b ∧ Packet.parse b = .ok (ovPacket tail)) ∧
    (¬ ∃ b, (ovPacket tail).buildCompressed = .ok b ∧ Packet.parse b = .ok (ovPacket tail)) ∧
    ¬ WrittenFits true (ovPacket tail) := by
  have h := ov_overflow tail ht
  refine ⟨fun hx => h.2.2.2.1 ((reserialise_plain_iff h.2.1).1 hx),
    fun hx => h.2.2.2.1 ((reserialise_compressed_iff h.2.1).1 hx),
    fun hx => h.2.2.2.1 ((writtenFits_iff true _ h.2.2.1).1 hx)⟩

/-- `parsed_buildG_ok`, `reserialise_fails_iff`: the 65 535-byte member is serialised all right -/
example (c : Bool) (tail : Bytes) (ht : tail.length = 65492) :
    ∃ b, (ovPacket tail).buildG c = .ok b ∧ Packet.parse b ≠ .ok (ovPacket tail) :=
  have h := ov_overflow tail ht
  (reserialise_fails_iff c h.2.1).1 h.2.2.2.1

/-- `name_growth`, `Tight.rr_size`: the record `a. NS a.` of `c11Ns` (Props/C11.lean), whose RDATA
is a 2-byte pointer that re-encodes into 3 bytes -/
example : Name.wireLen [[97]] + 2 ≤ (27 - 25) + 255 := Tight.name_growth c11Ns_name25

example : (RData.flat 2 [.name [[97]]]).writtenLen ≤ 65535 ∨
    (RData.flat 2 [.name [[97]]]).writtenLen + 12 + 11 ≤ c11Ns.length + 253 :=
  Tight.rr_size c11Ns_record

/-- `plain_fits_of_length_tight`, `reserialise_stable_of_length_tight` on the 46-byte message -/
example : PlainFits (ovPacket [7, 7, 7]) := plain_fits_of_length_tight c11Small_parse (by decide)

example (c : Bool) : ∃ b, (ovPacket [7, 7, 7]).buildG c = .ok b ∧
    Packet.parse b = .ok (ovPacket [7, 7, 7]) :=
  reserialise_stable_of_length_tight c c11Small_parse (by decide)

/-- `reserialise_failure_length_tight` on the 65 306-byte witness (the bound is attained) -/
example (sig : Bytes) (hs : sig.length = 65011) : 65306 ≤ (tgMsg 0xFF 0x03 sig).length :=
  have h := tg_65306 sig hs
  reserialise_failure_length_tight false h.2.1
    (fun hx => h.2.2.1 ((reserialise_iff false h.2.1).1 hx))

end C11Iff
end Dns
