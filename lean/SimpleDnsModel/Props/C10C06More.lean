/-
C10 / C06, further theorems.

C10 — each record type's RDATA layout follows its RFC:
 1. `isdn_without_subaddress_rejected` (+ `isdn_record_…`, `isdn_always_writes_subaddress`): the
    recorded finding on ISDN (RFC 1183 §3.2 makes <sa> optional; the library insists on it).
 2. `loc_version_rejected_any`, `loc_version_zero_accepted`, `loc_short_rejected`, the
    `pre ++ rd` forms `loc_version_rejected_long` / `loc_version_zero_accepted_long`, and in a
    message `loc_record_version_rejected` / `loc_record_long`: the VERSION rule of LOC for every
    RDLENGTH ≥ 16, with its accepting counterpart.
 3. `record_rejected_of_rdata_rejected`, `rr_rejected_of_record_rejected` and the per-type
    `hinfo_/txt_/nsec_/svcb_/opt_record_overrun_rejected`: an inner length that overruns the
    RDLENGTH window is an error inside a message `pre ++ record ++ post`, whatever `post` holds;
    `record_verdict_ignores_post` (from `rdata_local`): nothing after the record is ever read.
 4. `rfc_parse_rr`: `ResourceRecord::parse` on a whole record in RFC form.

C06 — names are decoded as RFC 1035 §4.1.4 prescribes:
 1. `rdata_name_decodes` (`rdata_name_decodes_at`, `ipseckey_gateway_decodes`): a name inside a
    parsed RDATA is the RFC decoding, in the whole message, at an offset inside the RDATA; all
    octets read lie before the end of the RDLENGTH window; the next field starts at the name's
    in-place end. `ns_label_overrun_rejected`: a label that runs over the window is an error.
 2. `Decodes.no_cycle`, `name_on_cycle_no_decoding`, `name_into_cycle_no_decoding`,
    `name_on_cycle_is_err`, … : a position on (or leading into) a cycle of the reader's step
    relation `NameStep` has no decoding, hence is `Err`; the three shapes self-pointer, mutual
    pointers, label-then-pointer-back.

Auxiliary lemmas of general shape are in the namespace `Dns.C10M`.
-/
import SimpleDnsModel.Props.C10
import SimpleDnsModel.Props.C06Complete
import SimpleDnsModel.Props.C06Errors
import SimpleDnsModel.Props.C05
import SimpleDnsModel.Lemmas.Cost
namespace Dns

/-- a record from its TYPE field on, as RFC 1035 §3.2.1 lays it out: TYPE (two octets), the two
CLASS octets `cb`, the four TTL octets `tb`, RDLENGTH = the length of `rd`, then `rd` -/
def recBody (code : Nat) (cb tb rd : Bytes) : Bytes :=
  Spec.octetsOf 2 code ++ (cb ++ (tb ++ (Spec.octetsOf 2 rd.length ++ rd)))

/-- ten octets of fixed fields, then the RDATA -/
theorem C10M.recBody_length (code : Nat) (cb tb rd : Bytes) (hcb : cb.length = 2) (htb : tb.length = 4) :
    (recBody code cb tb rd).length = 10 + rd.length := by
  simp [recBody, ← Rfc.beN_eq_octetsOf, hcb, htb]; omega

/-- `RData.parse` at the TYPE field of a record body `TYPE CLASS TTL RDLENGTH RDATA` followed by
anything (`post`): for every type but OPT and a non-empty RDATA, the typed parser is run on the
message cut right after `rd`, and the cursor returned is the end of `rd` whatever the typed
parser consumed. -/
theorem C10M.rdataParse_body (pre cb tb rd post : Bytes) (code : Nat) (hcb : cb.length = 2)
    (htb : tb.length = 4) (hcode : code < 65536) (hnopt : TYPE.ofCode code ≠ .OPT)
    (hrd : rd ≠ []) (hlen : rd.length < 65536) :
    RData.parse (pre ++ (beN 2 code ++ (cb ++ (tb ++ (beN 2 rd.length ++ (rd ++ post))))))
        pre.length
      = (do
          let (v, _) ← parseTyped ((pre ++ (beN 2 code ++ (cb ++ (tb ++ beN 2 rd.length)))) ++ rd)
            (pre ++ (beN 2 code ++ (cb ++ (tb ++ beN 2 rd.length)))).length (TYPE.ofCode code)
          pure (v, pre.length + 10 + rd.length)) := by
  have hpos : 0 < rd.length := List.length_pos_iff.mpr hrd
  unfold RData.parse
  rw [if_neg (by simp; omega)]
  rw [Rfc.slice_at (a := pre) (m := beN 2 code)
    (z := cb ++ (tb ++ (beN 2 rd.length ++ (rd ++ post)))) rfl rfl (by simp)]
  simp only [Out.bind_ok]
  rw [Rfc.slice_at (a := pre ++ (beN 2 code ++ (cb ++ tb))) (m := beN 2 rd.length) (z := rd ++ post)
    (by simp) (by simp; omega) (by simp; omega)]
  simp only [Out.bind_ok, deN_beN 2 code (by simpa using hcode),
    deN_beN 2 rd.length (by simpa using hlen)]
  rw [if_neg (by simp; omega), if_neg hnopt, if_neg (by omega)]
  have htake : List.take (pre.length + 10 + rd.length)
      (pre ++ (beN 2 code ++ (cb ++ (tb ++ (beN 2 rd.length ++ (rd ++ post))))))
      = (pre ++ (beN 2 code ++ (cb ++ (tb ++ beN 2 rd.length)))) ++ rd := by
    have e : pre ++ (beN 2 code ++ (cb ++ (tb ++ (beN 2 rd.length ++ (rd ++ post)))))
        = ((pre ++ (beN 2 code ++ (cb ++ (tb ++ beN 2 rd.length)))) ++ rd) ++ post := by simp
    rw [e]
    exact List.take_left' (by simp; omega)
  have hpl : pre.length + 10 = (pre ++ (beN 2 code ++ (cb ++ (tb ++ beN 2 rd.length)))).length := by
    simp; omega
  simp only [htake]
  rw [hpl]

/-- the same with the record written through `recBody` -/
theorem C10M.rdataParse_recBody (pre cb tb rd post : Bytes) (code : Nat) (hcb : cb.length = 2)
    (htb : tb.length = 4) (hcode : code < 65536) (hnopt : TYPE.ofCode code ≠ .OPT)
    (hrd : rd ≠ []) (hlen : rd.length < 65536) :
    ∃ hdr : Bytes, hdr.length = pre.length + 10 ∧
      RData.parse (pre ++ (recBody code cb tb rd ++ post)) pre.length
        = (do
            let (v, _) ← parseTyped (hdr ++ rd) hdr.length (TYPE.ofCode code)
            pure (v, pre.length + 10 + rd.length)) := by
  refine ⟨pre ++ (beN 2 code ++ (cb ++ (tb ++ beN 2 rd.length))), by simp; omega, ?_⟩
  rw [← C10M.rdataParse_body pre cb tb rd post code hcb htb hcode hnopt hrd hlen]
  simp [recBody, Rfc.beN_eq_octetsOf]

/-- If the typed parser rejects `rd` as the content of the RDLENGTH window (whatever precedes it),
then `RData.parse` rejects the record in any message, whatever follows the record: the bytes of
`post` are never looked at. -/
theorem record_rejected_of_rdata_rejected (pre cb tb rd post : Bytes) (code : Nat)
    (hcb : cb.length = 2) (htb : tb.length = 4) (hcode : code < 65536)
    (hnopt : TYPE.ofCode code ≠ .OPT) (hrd : rd ≠ []) (hlen : rd.length < 65536)
    (h : ∀ hdr : Bytes, parseTyped (hdr ++ rd) hdr.length (TYPE.ofCode code) = .err) :
    RData.parse (pre ++ (recBody code cb tb rd ++ post)) pre.length = .err := by
  obtain ⟨hdr, _, he⟩ := C10M.rdataParse_recBody pre cb tb rd post code hcb htb hcode hnopt hrd hlen
  rw [he, h]
  rfl

/-- `RR.parse` on a record whose owner name is written in full: the name is read back, CLASS and
TTL are read around `RData.parse`, which starts at the TYPE field -/
theorem C10M.rrParse_body (pre : Bytes) (owner : Name) (hown : Name.WF owner) (ty cb tb rest : Bytes)
    (hty : ty.length = 2) (hcb : cb.length = 2) (htb : tb.length = 4) :
    RR.parse (pre ++ (Name.write owner ++ (ty ++ (cb ++ (tb ++ rest))))) pre.length = (do
      let (rdata, pos') ← RData.parse
        ((pre ++ Name.write owner) ++ (ty ++ (cb ++ (tb ++ rest)))) (pre ++ Name.write owner).length
      if rdata.typeOf = .OPT then
        pure ({ name := owner, cls := .IN, ttl := deN tb, rdata := rdata, flush := false }, pos')
      else do
        let cls ← CLASS.ofCode (deN cb &&& 0x7FFF)
        pure ({ name := owner, cls := cls, ttl := deN tb, rdata := rdata,
                flush := (deN cb &&& 0x8000) == 0x8000 }, pos')) := by
  unfold RR.parse
  rw [Name.parse_write hown]
  simp only [Out.bind_ok]
  rw [if_neg (by simp [Name.write_length]; omega)]
  rw [Rfc.slice_at (a := pre ++ (Name.write owner ++ ty)) (m := cb)
    (z := tb ++ rest) (by simp) (by simp [Name.write_length]; omega)
    (by simp [Name.write_length]; omega)]
  simp only [Out.bind_ok]
  rw [Rfc.slice_at (a := pre ++ (Name.write owner ++ (ty ++ cb))) (m := tb)
    (z := rest) (by simp) (by simp [Name.write_length]; omega) (by simp [Name.write_length]; omega)]
  simp only [Out.bind_ok]
  simp only [List.append_assoc, List.length_append, Name.write_length]

/-- A record whose body `RData.parse` rejects is rejected by `ResourceRecord::parse` as a whole,
whatever follows it in the message. -/
theorem rr_rejected_of_record_rejected (pre : Bytes) (owner : Name) (hown : Name.WF owner)
    (code : Nat) (cb tb rd post : Bytes) (hcb : cb.length = 2) (htb : tb.length = 4)
    (h : ∀ hdr : Bytes, RData.parse (hdr ++ (recBody code cb tb rd ++ post)) hdr.length = .err) :
    RR.parse (pre ++ (Name.write owner ++ (recBody code cb tb rd ++ post))) pre.length = .err := by
  have hb : recBody code cb tb rd ++ post
      = Spec.octetsOf 2 code ++ (cb ++ (tb ++ (Spec.octetsOf 2 rd.length ++ rd ++ post))) := by
    simp [recBody]
  have h' := h (pre ++ Name.write owner)
  rw [hb] at h' ⊢
  rw [C10M.rrParse_body pre owner hown _ cb tb _ (by simp [← Rfc.beN_eq_octetsOf]) hcb htb, h']
  rfl

/-! ## C10-4: a whole record in RFC form -/

/-- the CLASS word of a record: class code with the mDNS cache-flush bit on top -/
theorem C10M.class_word_rt (c : CLASS) (f : Bool) :
    (if f then c.toCode ||| 0x8000 else c.toCode) < 65536 ∧
    CLASS.ofCode ((if f then c.toCode ||| 0x8000 else c.toCode) &&& 0x7FFF) = .ok c ∧
    (((if f then c.toCode ||| 0x8000 else c.toCode) &&& 0x8000) == 0x8000) = f := by
  cases c <;> cases f <;> decide

/-- C10-4. A whole record in RFC form — owner name written in full, TYPE = the IANA number, CLASS
(with the mDNS cache-flush bit), TTL, RDLENGTH, the reference RFC encoding of the fields, then
the rest of the message — is read by `ResourceRecord::parse` as that owner, class, flush bit, TTL
and field values, with the cursor at the start of `post`. -/
theorem rfc_parse_rr {code : Nat} {ks : List FKind} {vs : List Val} {bytes : Bytes}
    (pre post : Bytes) (owner : Name) (cls : CLASS) (flush : Bool) (ttl : Nat)
    (hown : Name.WF owner) (httl : ttl < 2 ^ 32)
    (hs : schemaOf code = some ks) (hok : AllOK ks vs) (hc : flatCheck code vs = true)
    (he : Spec.encode code (vs.map Val.toSpec) = some bytes) (hlen : bytes.length < 65536) :
    RR.parse (pre ++ (Spec.encLabels owner ++ (Spec.octetsOf 2 code ++
        (Spec.octetsOf 2 (if flush then cls.toCode ||| 0x8000 else cls.toCode) ++
          (Spec.octetsOf 4 ttl ++ (Spec.octetsOf 2 bytes.length ++ (bytes ++ post)))))))
        pre.length
      = .ok ({ name := owner, cls := cls, ttl := ttl, rdata := .flat code vs, flush := flush },
          pre.length + (Spec.encLabels owner).length + 10 + bytes.length) := by
  rw [(rfc_encoding hs hok hc).2] at he
  cases he
  obtain ⟨hcl, hcls, hfl⟩ := C10M.class_word_rt cls flush
  have hnopt := (Rfc.schemaOf_shape hs).2.2.2
  rw [← Rfc.beN_eq_octetsOf, ← Rfc.beN_eq_octetsOf, ← Rfc.beN_eq_octetsOf, ← Rfc.beN_eq_octetsOf,
    ← Rfc.nameWrite_eq_encLabels]
  rw [C10M.rrParse_body pre owner hown _ _ _ _ (by simp) (by simp) (by simp)]
  rw [Rfc.rdataParse_enc (pre ++ Name.write owner) _ _ post (by simp) (by simp) hs hok hc hlen]
  simp only [Out.bind_ok, RData.typeOf, if_neg hnopt, deN_beN 2 _ (by simpa using hcl),
    deN_beN 4 ttl (by simpa using httl), hcls, hfl, Out.pure_eq, List.length_append]

/-- `mx.a. IN MX 10 mx.a.` with TTL 3600 and the cache-flush bit: owner, TYPE 15, CLASS 0x8001,
TTL, RDLENGTH 8, preference and exchange -/
example (pre post : Bytes) :
    RR.parse (pre ++ ([2, 109, 120, 1, 97, 0] ++ ([0, 15] ++ ([0x80, 1] ++ ([0, 0, 0x0E, 0x10] ++
      ([0, 8] ++ ([0, 10, 2, 109, 120, 1, 97, 0] ++ post))))))) pre.length
      = .ok ({ name := [[109, 120], [97]], cls := .IN, ttl := 3600,
               rdata := .flat 15 [.int 10, .name [[109, 120], [97]]], flush := true },
          pre.length + 6 + 10 + 8) := by
  have h := rfc_parse_rr (code := 15) (vs := [.int 10, .name [[109, 120], [97]]])
    (bytes := [0, 10, 2, 109, 120, 1, 97, 0]) pre post [[109, 120], [97]]
    .IN true 3600 (by decide) (by decide) rfl (by decide) rfl (by decide) (by decide)
  have e1 : Spec.encLabels [[109, 120], [97]] = [2, 109, 120, 1, 97, 0] := by decide
  have e2 : Spec.octetsOf 2 15 = [0, 15] := by decide
  have e3 : Spec.octetsOf 2 (if true = true then CLASS.IN.toCode ||| 0x8000 else CLASS.IN.toCode)
      = [0x80, 1] := by decide
  have e4 : Spec.octetsOf 4 3600 = [0, 0, 0x0E, 0x10] := by decide
  have e5 : Spec.octetsOf 2 ([0, 10, 2, 109, 120, 1, 97, 0] : Bytes).length = [0, 8] := by decide
  rw [e1, e2, e3, e4, e5] at h
  exact h

/-! ## C10-1: ISDN without sub-address (recorded finding) -/

/-- C10-1 (recorded finding, RFC 1183 §3.2: "<sa> is optional"). An ISDN RDATA that holds only the
ISDN-address <character-string> is rejected: `ISDN::parse` always reads a second string, which
starts at the end of the RDLENGTH window. -/
theorem isdn_without_subaddress_rejected (pre a : Bytes) (ha : a.length ≤ 255) :
    parseTyped (pre ++ CharStr.write a) pre.length .ISDN = .err := by
  have hp := Rfc.parseTyped_flat (pre ++ CharStr.write a) pre.length 20 _ rfl
  have e : TYPE.ofCode 20 = .ISDN := rfl
  rw [e] at hp
  have h1 := Rfc.decode_charstr pre a [] ha
  simp only [List.append_nil] at h1
  have h2 : CharStr.parse (pre ++ CharStr.write a) (pre.length + (a.length + 1)) = .err :=
    Rfc.charStr_at_end (by simp [CharStr.write])
  rw [hp]
  simp only [decAll]
  rw [h1]
  simp only [Out.bind_ok, decField, h2, Out.bind_err]

/-- the same record inside a message: TYPE 20, RDLENGTH = 1 + |address|, then anything -/
theorem isdn_record_without_subaddress_rejected (pre cb tb a post : Bytes) (hcb : cb.length = 2)
    (htb : tb.length = 4) (ha : a.length ≤ 255) :
    RData.parse (pre ++ (recBody 20 cb tb (CharStr.write a) ++ post)) pre.length = .err :=
  record_rejected_of_rdata_rejected pre cb tb _ post 20 hcb htb (by decide) (by decide)
    (by simp [CharStr.write]) (by simp [CharStr.write]; omega)
    (fun hdr => isdn_without_subaddress_rejected hdr a ha)

/-- ... and the writer cannot produce that form either: a well-formed ISDN value always has both
strings and is written as two <character-string>s (at least one octet more than the address
string alone) -/
theorem isdn_always_writes_subaddress (vs : List Val) (hok : AllOK [.charstr, .charstr] vs) :
    ∃ a sa, vs = [.bytes a, .bytes sa] ∧
      RData.write (.flat 20 vs) = .ok (CharStr.write a ++ CharStr.write sa) ∧
      (CharStr.write a ++ CharStr.write sa).length = (CharStr.write a).length + 1 + sa.length := by
  match vs, hok with
  | [.bytes a, .bytes sa], _ =>
    exact ⟨a, sa, rfl, by simp [RData.write, schemaOf, flatCheck, encAll, encField],
      by simp [CharStr.write]; omega⟩

/-- ISDN address "150862028003217" alone (RFC 1183 §3.2's first example has no sub-address) -/
example (pre : Bytes) : parseTyped (pre ++ [15, 49, 53, 48, 56, 54, 50, 48, 50, 56, 48, 48, 51, 50,
    49, 55]) pre.length .ISDN = .err :=
  isdn_without_subaddress_rejected pre [49, 53, 48, 56, 54, 50, 48, 50, 56, 48, 48, 51, 50, 49, 55]
    (by decide)

/-- with the (empty) sub-address string present the same address is accepted -/
example (pre : Bytes) : parseTyped (pre ++ [15, 49, 53, 48, 56, 54, 50, 48, 50, 56, 48, 48, 51, 50,
    49, 55, 0]) pre.length .ISDN
    = .ok (.flat 20 [.bytes [49, 53, 48, 56, 54, 50, 48, 50, 56, 48, 48, 51, 50, 49, 55], .bytes []],
        pre.length + 17) :=
  rfc_parse (code := 20) pre rfl (by decide) rfl (by decide)

/-! ## C10-2: LOC version, any RDATA length ≥ 16 -/

/-- an integer field that fits is read as the big-endian value of its octets -/
theorem C10M.decField_int_ok {d : Bytes} {w pos : Nat} (h : pos + w ≤ d.length) :
    decField d (.int w) pos = .ok (.int (deN ((d.drop pos).take w)), pos + w) := by
  simp only [decField]
  rw [if_neg (by omega), slice_ok (by omega) h]
  simp

/-- the one-octet slice at `pos` is the octet at `pos` -/
theorem C10M.take_one_drop {d : Bytes} {pos : Nat} {b : UInt8} (hb : d[pos]? = some b) :
    (d.drop pos).take 1 = [b] := by
  have hlt := lt_of_getElem?_some hb
  rw [List.drop_eq_getElem_cons hlt]
  simp [List.getElem?_eq_getElem hlt] at hb
  simp [hb]

/-- the seven fields of LOC, read from any buffer with at least 16 octets from `pos` on -/
theorem C10M.loc_fields {d : Bytes} {pos : Nat} (h : pos + 16 ≤ d.length) :
    decAll d [.int 1, .int 1, .int 1, .int 1, .int 4, .int 4, .int 4] pos
      = .ok ([.int (deN ((d.drop pos).take 1)), .int (deN ((d.drop (pos + 1)).take 1)),
          .int (deN ((d.drop (pos + 2)).take 1)), .int (deN ((d.drop (pos + 3)).take 1)),
          .int (deN ((d.drop (pos + 4)).take 4)), .int (deN ((d.drop (pos + 8)).take 4)),
          .int (deN ((d.drop (pos + 12)).take 4))], pos + 16) := by
  simp only [decAll]
  rw [C10M.decField_int_ok (by omega)]; simp only [Out.bind_ok]
  rw [C10M.decField_int_ok (by omega)]; simp only [Out.bind_ok]
  rw [C10M.decField_int_ok (by omega)]; simp only [Out.bind_ok]
  rw [C10M.decField_int_ok (by omega)]; simp only [Out.bind_ok]
  rw [C10M.decField_int_ok (by omega)]; simp only [Out.bind_ok]
  rw [C10M.decField_int_ok (by omega)]; simp only [Out.bind_ok]
  rw [C10M.decField_int_ok (by omega)]; simp only [Out.bind_ok, Out.pure_eq]

/-- C10-2 (a). LOC (RFC 1876: "VERSION … must be zero"): whenever at least 16 octets are available
in the RDLENGTH window — also when RDLENGTH is larger than the 16 octets of the record's content —
a first octet other than 0 makes the record an error. -/
theorem loc_version_rejected_any {d : Bytes} {pos : Nat} {b : UInt8} (h : pos + 16 ≤ d.length)
    (hb : d[pos]? = some b) (hne : b ≠ 0) : parseTyped d pos .LOC = .err := by
  have hp := Rfc.parseTyped_flat d pos 29 _ rfl
  have e : TYPE.ofCode 29 = .LOC := rfl
  rw [e] at hp
  have hb0 : b.toNat ≠ 0 := fun h0 => hne (UInt8.toNat_inj.mp (by simpa using h0))
  rw [hp, C10M.loc_fields h, C10M.take_one_drop hb]
  simp [flatCheck, deN, hb0]

/-- C10-2 (b), the accepting counterpart: with VERSION 0 the record is accepted, the other six
fields are the big-endian values of their octets, and the typed parser stops after 16 octets
(`RData.parse` then moves the cursor to the end of the RDLENGTH window, see `loc_record_long`). -/
theorem loc_version_zero_accepted {d : Bytes} {pos : Nat} (h : pos + 16 ≤ d.length)
    (hb : d[pos]? = some 0) :
    parseTyped d pos .LOC
      = .ok (.flat 29 [.int 0, .int (deN ((d.drop (pos + 1)).take 1)),
          .int (deN ((d.drop (pos + 2)).take 1)), .int (deN ((d.drop (pos + 3)).take 1)),
          .int (deN ((d.drop (pos + 4)).take 4)), .int (deN ((d.drop (pos + 8)).take 4)),
          .int (deN ((d.drop (pos + 12)).take 4))], pos + 16) := by
  have hp := Rfc.parseTyped_flat d pos 29 _ rfl
  have e : TYPE.ofCode 29 = .LOC := rfl
  rw [e] at hp
  rw [hp, C10M.loc_fields h, C10M.take_one_drop hb]
  simp [flatCheck, deN]

/-- fewer than 16 octets in the window: rejected whatever the version -/
theorem loc_short_rejected {d : Bytes} {pos : Nat} (hp : pos ≤ d.length) (h : d.length < pos + 16) :
    parseTyped d pos .LOC = .err := by
  have hp' := Rfc.parseTyped_flat d pos 29 _ rfl
  have e : TYPE.ofCode 29 = .LOC := rfl
  rw [e] at hp'
  rw [hp']
  have key : decAll d [.int 1, .int 1, .int 1, .int 1, .int 4, .int 4, .int 4] pos = .err := by
    simp only [decAll]
    by_cases h1 : pos + 1 ≤ d.length
    · rw [C10M.decField_int_ok h1]; simp only [Out.bind_ok]
      by_cases h2 : pos + 1 + 1 ≤ d.length
      · rw [C10M.decField_int_ok h2]; simp only [Out.bind_ok]
        by_cases h3 : pos + 1 + 1 + 1 ≤ d.length
        · rw [C10M.decField_int_ok h3]; simp only [Out.bind_ok]
          by_cases h4 : pos + 1 + 1 + 1 + 1 ≤ d.length
          · rw [C10M.decField_int_ok h4]; simp only [Out.bind_ok]
            by_cases h5 : pos + 1 + 1 + 1 + 1 + 4 ≤ d.length
            · rw [C10M.decField_int_ok h5]; simp only [Out.bind_ok]
              by_cases h6 : pos + 1 + 1 + 1 + 1 + 4 + 4 ≤ d.length
              · rw [C10M.decField_int_ok h6]; simp only [Out.bind_ok]
                simp only [decField]; rw [if_pos (by omega)]; rfl
              · simp only [decField]; rw [if_pos (by omega)]; rfl
            · simp only [decField]; rw [if_pos (by omega)]; rfl
          · simp only [decField]; rw [if_pos (by omega)]; rfl
        · simp only [decField]; rw [if_pos (by omega)]; rfl
      · simp only [decField]; rw [if_pos (by omega)]; rfl
    · simp only [decField]; rw [if_pos (by omega)]; rfl
  rw [key]; rfl

/-- the form of `loc_version_rejected` (RDATA = everything after `pre`), for any length ≥ 16 -/
theorem loc_version_rejected_long (pre rd : Bytes) (hl : 16 ≤ rd.length) (b : UInt8)
    (hb : rd.head? = some b) (hne : b ≠ 0) : parseTyped (pre ++ rd) pre.length .LOC = .err := by
  apply loc_version_rejected_any (b := b) (by simp; omega) _ hne
  cases rd with
  | nil => simp at hl
  | cons x xs => simp at hb; simp [hb]

/-- the accepting counterpart in the same form: VERSION 0, any RDATA length ≥ 16 -/
theorem loc_version_zero_accepted_long (pre rd : Bytes) (hl : 16 ≤ rd.length)
    (hb : rd.head? = some 0) :
    parseTyped (pre ++ rd) pre.length .LOC
      = .ok (.flat 29 [.int 0, .int (deN ((rd.drop 1).take 1)), .int (deN ((rd.drop 2).take 1)),
          .int (deN ((rd.drop 3).take 1)), .int (deN ((rd.drop 4).take 4)),
          .int (deN ((rd.drop 8).take 4)), .int (deN ((rd.drop 12).take 4))], pre.length + 16) := by
  have hb' : (pre ++ rd)[pre.length]? = some 0 := by
    cases rd with
    | nil => simp at hl
    | cons x xs => simp at hb; simp [hb]
  have hd : ∀ k, (pre ++ rd).drop (pre.length + k) = rd.drop k := fun k => by
    rw [List.drop_append]; simp
  rw [loc_version_zero_accepted (by simp; omega) hb']
  simp only [hd]

/-- in a message: a LOC record whose RDLENGTH is 16 or more with a non-zero VERSION is rejected,
whatever follows -/
theorem loc_record_version_rejected (pre cb tb rd post : Bytes) (hcb : cb.length = 2)
    (htb : tb.length = 4) (hl : 16 ≤ rd.length) (hlen : rd.length < 65536) (b : UInt8)
    (hb : rd.head? = some b) (hne : b ≠ 0) :
    RData.parse (pre ++ (recBody 29 cb tb rd ++ post)) pre.length = .err :=
  record_rejected_of_rdata_rejected pre cb tb rd post 29 hcb htb (by decide) (by decide)
    (by intro h; simp [h] at hl) hlen (fun hdr => loc_version_rejected_long hdr rd hl b hb hne)

/-- in a message: a LOC record with VERSION 0 and RDLENGTH ≥ 16 is accepted with the values of its
first 16 octets; the extra octets of the window are skipped (cursor = end of the window) -/
theorem loc_record_long (pre cb tb rd post : Bytes) (hcb : cb.length = 2)
    (htb : tb.length = 4) (hl : 16 ≤ rd.length) (hlen : rd.length < 65536)
    (hb : rd.head? = some 0) :
    RData.parse (pre ++ (recBody 29 cb tb rd ++ post)) pre.length
      = .ok (.flat 29 [.int 0, .int (deN ((rd.drop 1).take 1)), .int (deN ((rd.drop 2).take 1)),
          .int (deN ((rd.drop 3).take 1)), .int (deN ((rd.drop 4).take 4)),
          .int (deN ((rd.drop 8).take 4)), .int (deN ((rd.drop 12).take 4))],
          pre.length + 10 + rd.length) := by
  obtain ⟨hdr, _, he⟩ := C10M.rdataParse_recBody pre cb tb rd post 29 hcb htb (by decide) (by decide)
    (by intro h; simp [h] at hl) hlen
  have e : TYPE.ofCode 29 = .LOC := rfl
  rw [he, e, loc_version_zero_accepted_long hdr rd hl hb]
  rfl

/-- LOC with VERSION 1 and two octets of slack after the 16 -/
example (pre : Bytes) :
    parseTyped (pre ++ [1, 0x12, 0x16, 0x13, 0x89, 0x17, 0x2D, 0xD0, 0x70, 0xBE, 0x15, 0xF0, 0, 0x98,
      0x8D, 0x20, 7, 7]) pre.length .LOC = .err :=
  loc_version_rejected_long pre _ (by decide) 1 rfl (by decide)

/-- VERSION 0, RDLENGTH 18 -/
example (pre post : Bytes) :
    RData.parse (pre ++ (recBody 29 [0, 1] [0, 0, 0, 60] [0, 0x12, 0x16, 0x13, 0x89, 0x17, 0x2D, 0xD0,
      0x70, 0xBE, 0x15, 0xF0, 0, 0x98, 0x8D, 0x20, 7, 7] ++ post)) pre.length
      = .ok (.flat 29 [.int 0, .int 0x12, .int 0x16, .int 0x13, .int 0x89172DD0, .int 0x70BE15F0,
          .int 0x00988D20], pre.length + 10 + 18) :=
  loc_record_long pre _ _ _ post rfl rfl (by decide) (by decide) rfl

/-! ## C10-3: an inner length that overruns the RDLENGTH window, inside a message

In each theorem the record is followed by arbitrary `post`: the octets an over-long inner length
asks for may well be present in the message, but they lie after the RDLENGTH cut
(`d.take rdataEnd`) and are not read. -/

/-- a <character-string> whose length octet `lb` announces more than the `rest` of the window -/
theorem C10M.charStr_overrun_at (pre : Bytes) (lb : UInt8) (rest : Bytes) (hbad : lb.toNat > rest.length) :
    CharStr.parse (pre ++ lb :: rest) pre.length = .err := by
  have hp : pre.length < (pre ++ lb :: rest).length := by simp
  apply Rfc.charStr_overrun hp
  have : (pre ++ lb :: rest)[pre.length] = lb := by simp
  rw [this]
  simp only [List.length_append, List.length_cons]
  omega

/-- HINFO (two <character-string>s, RFC 1035 §3.3.2) at the level of the typed parser: the first
string (`ss = []`) or the second (`ss = [cpu]`) announces more octets than the window holds -/
theorem hinfo_overrun_rejected (pre : Bytes) (ss : List Bytes) (lb : UInt8) (rest : Bytes)
    (hss : ss.length ≤ 1) (hs : ∀ s ∈ ss, s.length ≤ 255) (hbad : lb.toNat > rest.length) :
    parseTyped (pre ++ (Spec.encStrings ss ++ lb :: rest)) pre.length .HINFO = .err := by
  have e : TYPE.ofCode 13 = .HINFO := rfl
  match ss, hss, hs with
  | [], _, _ =>
    have hp := Rfc.parseTyped_flat (pre ++ (Spec.encStrings [] ++ lb :: rest)) pre.length 13 _ rfl
    rw [e] at hp
    rw [hp]
    simp only [Spec.encStrings, List.nil_append, decAll, decField,
      C10M.charStr_overrun_at pre lb rest hbad, Out.bind_err]
  | [s], _, hs =>
    have hp := Rfc.parseTyped_flat (pre ++ (Spec.encStrings [s] ++ lb :: rest)) pre.length 13 _ rfl
    rw [e] at hp
    have h1 := Rfc.decode_charstr pre s (lb :: rest) (hs s (by simp))
    have h2 := C10M.charStr_overrun_at (pre ++ CharStr.write s) lb rest hbad
    have e1 : pre ++ (Spec.encStrings [s] ++ lb :: rest) = pre ++ (CharStr.write s ++ lb :: rest) := by
      simp [Spec.encStrings, CharStr.write]
    have e2 : pre ++ (CharStr.write s ++ lb :: rest) = (pre ++ CharStr.write s) ++ lb :: rest := by
      simp
    have e3 : pre.length + (s.length + 1) = (pre ++ CharStr.write s).length := by
      simp [CharStr.write]
    rw [hp, e1]
    simp only [decAll]
    rw [h1]
    simp only [Out.bind_ok, decField]
    rw [e2, e3, h2]
    rfl

/-- C10-3, HINFO. -/
theorem hinfo_record_overrun_rejected (pre cb tb : Bytes) (ss : List Bytes) (lb : UInt8)
    (rest post : Bytes) (hcb : cb.length = 2) (htb : tb.length = 4) (hss : ss.length ≤ 1)
    (hs : ∀ s ∈ ss, s.length ≤ 255) (hbad : lb.toNat > rest.length)
    (hlen : (Spec.encStrings ss ++ lb :: rest).length < 65536) :
    RData.parse (pre ++ (recBody 13 cb tb (Spec.encStrings ss ++ lb :: rest) ++ post)) pre.length
      = .err :=
  record_rejected_of_rdata_rejected pre cb tb _ post 13 hcb htb (by decide) (by decide)
    (by simp) hlen (fun hdr => hinfo_overrun_rejected hdr ss lb rest hss hs hbad)

/-- C10-3, TXT: after any number of whole strings, a string that announces more than the rest of
the window. -/
theorem txt_record_overrun_rejected (pre cb tb : Bytes) (ss : List Bytes) (lb : UInt8)
    (rest post : Bytes) (hcb : cb.length = 2) (htb : tb.length = 4)
    (hs : ∀ s ∈ ss, s.length ≤ 255) (hbad : lb.toNat > rest.length)
    (hlen : (Spec.encStrings ss ++ lb :: rest).length < 65536) :
    RData.parse (pre ++ (recBody 16 cb tb (Spec.encStrings ss ++ lb :: rest) ++ post)) pre.length
      = .err :=
  record_rejected_of_rdata_rejected pre cb tb _ post 16 hcb htb (by decide) (by decide)
    (by simp) hlen (fun hdr => txt_overrun_rejected hdr ss lb rest hs hbad)

/-- NSEC at the level of the typed parser: next domain name, any number of whole windows in
increasing order, then a fragment that is not a whole window (its bitmap length overruns, or its
two-octet head does not fit) -/
theorem nsec_overrun_rejected (pre : Bytes) (n : Name) (hn : Name.WF n)
    (xs : List (Nat × Bytes)) (hx : ∀ x ∈ xs, x.1 < 256 ∧ x.2.length < 256)
    (hinc : KeysIncreasing xs) (bad : Bytes) (hbad : Rfc.BadTriple 1 1 bad) :
    parseTyped (pre ++ (Spec.encLabels n ++ (Spec.encTriples 1 1 xs ++ bad))) pre.length .NSEC
      = .err := by
  have h1 := rfc_decode_field_name pre (Spec.encTriples 1 1 xs ++ bad) false n hn
  have h2 := triples_overrun_rejected (pre ++ Spec.encLabels n) 1 1 true (by decide) xs bad
    (by simpa using hx) (fun _ => hinc) hbad
  have hp := Rfc.parseTyped_flat (pre ++ (Spec.encLabels n ++ (Spec.encTriples 1 1 xs ++ bad)))
    pre.length 47 _ rfl
  have e : TYPE.ofCode 47 = .NSEC := rfl
  rw [e] at hp
  rw [hp]
  simp only [decAll, h1, Out.bind_ok]
  rw [show pre.length + (Spec.encLabels n).length = (pre ++ Spec.encLabels n).length by simp,
    show pre ++ (Spec.encLabels n ++ (Spec.encTriples 1 1 xs ++ bad))
      = (pre ++ Spec.encLabels n) ++ (Spec.encTriples 1 1 xs ++ bad) by simp, h2]
  rfl

/-- C10-3, NSEC. -/
theorem nsec_record_overrun_rejected (pre cb tb : Bytes) (n : Name) (hn : Name.WF n)
    (xs : List (Nat × Bytes)) (bad post : Bytes) (hcb : cb.length = 2) (htb : tb.length = 4)
    (hx : ∀ x ∈ xs, x.1 < 256 ∧ x.2.length < 256) (hinc : KeysIncreasing xs)
    (hbad : Rfc.BadTriple 1 1 bad)
    (hlen : (Spec.encLabels n ++ (Spec.encTriples 1 1 xs ++ bad)).length < 65536) :
    RData.parse (pre ++ (recBody 47 cb tb (Spec.encLabels n ++ (Spec.encTriples 1 1 xs ++ bad))
      ++ post)) pre.length = .err :=
  record_rejected_of_rdata_rejected pre cb tb _ post 47 hcb htb (by decide) (by decide)
    (by cases n <;> simp [Spec.encLabels]) hlen
    (fun hdr => nsec_overrun_rejected hdr n hn xs hx hinc bad hbad)

/-- SVCB / HTTPS at the level of the typed parser: priority, target name, any number of whole
parameters in increasing key order, then a fragment that is not a whole parameter -/
theorem svcb_overrun_rejected (pre : Bytes) (prio : Nat) (hp : prio < 65536) (n : Name)
    (hn : Name.WF n) (xs : List (Nat × Bytes)) (hx : ∀ x ∈ xs, x.1 < 65536 ∧ x.2.length < 65536)
    (hinc : KeysIncreasing xs) (bad : Bytes) (hbad : Rfc.BadTriple 2 2 bad) :
    parseTyped (pre ++ (Spec.octetsOf 2 prio ++ (Spec.encLabels n ++ (Spec.encTriples 2 2 xs ++ bad))))
      pre.length .SVCB = .err ∧
    parseTyped (pre ++ (Spec.octetsOf 2 prio ++ (Spec.encLabels n ++ (Spec.encTriples 2 2 xs ++ bad))))
      pre.length .HTTPS = .err := by
  have h0 := rfc_decode_field_int pre (Spec.encLabels n ++ (Spec.encTriples 2 2 xs ++ bad)) 2 prio
    (by simpa using hp)
  have h1 := rfc_decode_field_name (pre ++ Spec.octetsOf 2 prio) (Spec.encTriples 2 2 xs ++ bad)
    false n hn
  have h2 := triples_overrun_rejected ((pre ++ Spec.octetsOf 2 prio) ++ Spec.encLabels n) 2 2 true
    (by decide) xs bad (by simpa using hx) (fun _ => hinc) hbad
  have hl : (Spec.octetsOf 2 prio).length = 2 := by rw [← Rfc.beN_eq_octetsOf]; simp
  have key : decAll (pre ++ (Spec.octetsOf 2 prio ++ (Spec.encLabels n ++
      (Spec.encTriples 2 2 xs ++ bad)))) [.int 2, .name false, .tlvs 2 2 true] pre.length = .err := by
    simp only [decAll, h0, Out.bind_ok]
    rw [show pre.length + 2 = (pre ++ Spec.octetsOf 2 prio).length by simp [hl],
      show pre ++ (Spec.octetsOf 2 prio ++ (Spec.encLabels n ++ (Spec.encTriples 2 2 xs ++ bad)))
        = (pre ++ Spec.octetsOf 2 prio) ++ (Spec.encLabels n ++ (Spec.encTriples 2 2 xs ++ bad)) by
        simp,
      h1]
    simp only [Out.bind_ok]
    rw [show (pre ++ Spec.octetsOf 2 prio).length + (Spec.encLabels n).length
        = ((pre ++ Spec.octetsOf 2 prio) ++ Spec.encLabels n).length by simp; omega,
      show (pre ++ Spec.octetsOf 2 prio) ++ (Spec.encLabels n ++ (Spec.encTriples 2 2 xs ++ bad))
        = ((pre ++ Spec.octetsOf 2 prio) ++ Spec.encLabels n) ++ (Spec.encTriples 2 2 xs ++ bad) by
        simp,
      h2]
    rfl
  have hp64 := Rfc.parseTyped_flat (pre ++ (Spec.octetsOf 2 prio ++ (Spec.encLabels n ++
    (Spec.encTriples 2 2 xs ++ bad)))) pre.length 64 _ rfl
  have hp65 := Rfc.parseTyped_flat (pre ++ (Spec.octetsOf 2 prio ++ (Spec.encLabels n ++
    (Spec.encTriples 2 2 xs ++ bad)))) pre.length 65 _ rfl
  have e64 : TYPE.ofCode 64 = .SVCB := rfl
  have e65 : TYPE.ofCode 65 = .HTTPS := rfl
  rw [e64] at hp64
  rw [e65] at hp65
  rw [hp64, hp65, key]
  exact ⟨rfl, rfl⟩

/-- C10-3, SVCB and HTTPS. -/
theorem svcb_record_overrun_rejected (pre cb tb : Bytes) (prio : Nat) (hp : prio < 65536) (n : Name)
    (hn : Name.WF n) (xs : List (Nat × Bytes)) (bad post : Bytes) (hcb : cb.length = 2)
    (htb : tb.length = 4) (hx : ∀ x ∈ xs, x.1 < 65536 ∧ x.2.length < 65536)
    (hinc : KeysIncreasing xs) (hbad : Rfc.BadTriple 2 2 bad)
    (hlen : (Spec.octetsOf 2 prio ++ (Spec.encLabels n ++ (Spec.encTriples 2 2 xs ++ bad))).length
      < 65536) :
    RData.parse (pre ++ (recBody 64 cb tb (Spec.octetsOf 2 prio ++ (Spec.encLabels n ++
      (Spec.encTriples 2 2 xs ++ bad))) ++ post)) pre.length = .err ∧
    RData.parse (pre ++ (recBody 65 cb tb (Spec.octetsOf 2 prio ++ (Spec.encLabels n ++
      (Spec.encTriples 2 2 xs ++ bad))) ++ post)) pre.length = .err := by
  have hne : Spec.octetsOf 2 prio ++ (Spec.encLabels n ++ (Spec.encTriples 2 2 xs ++ bad)) ≠ [] := by
    simp [Spec.octetsOf]
  exact ⟨record_rejected_of_rdata_rejected pre cb tb _ post 64 hcb htb (by decide) (by decide)
      hne hlen (fun hdr => (svcb_overrun_rejected hdr prio hp n hn xs hx hinc bad hbad).1),
    record_rejected_of_rdata_rejected pre cb tb _ post 65 hcb htb (by decide) (by decide)
      hne hlen (fun hdr => (svcb_overrun_rejected hdr prio hp n hn xs hx hinc bad hbad).2)⟩

/-- C10-3, OPT (RFC 6891 §6.1.2): after any number of whole options, a fragment that is not a
whole option (OPTION-LENGTH overruns the RDLENGTH window, or the four-octet head does not fit)
makes the record an error, whatever follows the record in the message. -/
theorem opt_record_overrun_rejected (pre cb tb : Bytes) (xs : List (Nat × Bytes))
    (bad post : Bytes) (hcb : cb.length = 2) (htb : tb.length = 4)
    (hx : ∀ x ∈ xs, x.1 < 65536 ∧ x.2.length < 65536) (hbad : Rfc.BadTriple 2 2 bad)
    (hlen : (Spec.Rfc6891.encodeOptions xs ++ bad).length < 65536) :
    RData.parse (pre ++ (recBody 41 cb tb (Spec.Rfc6891.encodeOptions xs ++ bad) ++ post)) pre.length
      = .err := by
  generalize hrd : Spec.Rfc6891.encodeOptions xs ++ bad = rd at hlen
  have e : pre ++ (recBody 41 cb tb rd ++ post)
      = pre ++ (beN 2 41 ++ (cb ++ (tb ++ (beN 2 rd.length ++ (rd ++ post))))) := by
    simp [recBody, Rfc.beN_eq_octetsOf]
  rw [e]
  unfold RData.parse
  rw [if_neg (by simp; omega)]
  rw [Rfc.slice_at (a := pre) (m := beN 2 41)
    (z := cb ++ (tb ++ (beN 2 rd.length ++ (rd ++ post)))) rfl rfl (by simp)]
  simp only [Out.bind_ok]
  rw [Rfc.slice_at (a := pre ++ (beN 2 41 ++ (cb ++ tb))) (m := beN 2 rd.length) (z := rd ++ post)
    (by simp) (by simp; omega) (by simp; omega)]
  simp only [Out.bind_ok, deN_beN 2 41 (by decide), deN_beN 2 rd.length (by simpa using hlen)]
  rw [if_neg (by simp; omega), if_pos (by decide)]
  have htake : List.take (pre.length + rd.length + 10)
      (pre ++ (beN 2 41 ++ (cb ++ (tb ++ (beN 2 rd.length ++ (rd ++ post))))))
      = (pre ++ (beN 2 41 ++ (cb ++ (tb ++ beN 2 rd.length)))) ++ rd := by
    have e : pre ++ (beN 2 41 ++ (cb ++ (tb ++ (beN 2 rd.length ++ (rd ++ post)))))
        = ((pre ++ (beN 2 41 ++ (cb ++ (tb ++ beN 2 rd.length)))) ++ rd) ++ post := by simp
    rw [e]
    exact List.take_left' (by simp; omega)
  rw [htake]
  have hloop := options_overrun_rejected (pre ++ (beN 2 41 ++ (cb ++ (tb ++ beN 2 rd.length)))) xs bad
    hx hbad
  rw [hrd, show (pre ++ (beN 2 41 ++ (cb ++ (tb ++ beN 2 rd.length)))).length = pre.length + 10 by
    simp; omega] at hloop
  unfold optParse
  rw [if_neg (by simp; omega), slice_ok (by omega) (by simp; omega),
    slice_ok (by omega) (by simp; omega)]
  simp only [Out.bind_ok, hloop, Out.bind_err]

/-! examples: in each the octets the bad length asks for ARE present in the message, after the
record -/

/-- HINFO "ab" then a string announcing 5 octets with 2 left in the window; 9 more octets follow -/
example (pre : Bytes) :
    RData.parse (pre ++ (recBody 13 [0, 1] [0, 0, 0, 60] [2, 97, 98, 5, 1, 2]
      ++ [3, 4, 5, 6, 7, 8, 9, 10, 11])) pre.length = .err :=
  hinfo_record_overrun_rejected pre _ _ [[97, 98]] 5 [1, 2] _ rfl rfl (by decide) (by decide)
    (by decide) (by decide)

/-- without the RDLENGTH cut the same string would have been read: `CharacterString::parse` on
the uncut buffer succeeds and runs into the following bytes -/
example : CharStr.parse ([2, 97, 98, 5, 1, 2] ++ [3, 4, 5, 6, 7, 8, 9, 10, 11]) 3
    = .ok ([1, 2, 3, 4, 5], 9) := by decide

/-- TXT "ab" "" and a third string announcing 5 octets with 2 left -/
example (pre : Bytes) :
    RData.parse (pre ++ (recBody 16 [0, 1] [0, 0, 0, 60] [2, 97, 98, 0, 5, 1, 2]
      ++ [3, 4, 5, 6, 7, 8, 9])) pre.length = .err :=
  txt_record_overrun_rejected pre _ _ [[97, 98], []] 5 [1, 2] _ rfl rfl (by decide) (by decide)
    (by decide)

/-- NSEC next = a., window 0 (one octet), then window 1 announcing 3 bitmap octets with 1 left -/
example (pre : Bytes) :
    RData.parse (pre ++ (recBody 47 [0, 1] [0, 0, 0, 60] [1, 97, 0, 0, 1, 0x40, 1, 3, 0]
      ++ [0, 0x80, 9, 9])) pre.length = .err :=
  nsec_record_overrun_rejected pre _ _ [[97]] (by decide) [(0, [0x40])] [1, 3, 0] _ rfl rfl
    (by decide) (by decide) ⟨by decide, Or.inr (by decide)⟩ (by decide)

/-- SVCB 1 a. port=53 then a parameter (key 4) announcing 4 octets with 1 left -/
example (pre : Bytes) :
    (RData.parse (pre ++ (recBody 64 [0, 1] [0, 0, 0, 60]
      [0, 1, 1, 97, 0, 0, 3, 0, 2, 0, 53, 0, 4, 0, 4, 192] ++ [0, 2, 1, 9])) pre.length = .err) :=
  (svcb_record_overrun_rejected pre _ _ 1 (by decide) [[97]] (by decide) [(3, [0, 53])]
    [0, 4, 0, 4, 192] _ rfl rfl (by decide) (by decide) ⟨by decide, Or.inr (by decide)⟩
    (by decide)).1

/-- OPT with one whole option (code 10, 2 octets) and an option announcing 8 octets with 1 left -/
example (pre : Bytes) :
    RData.parse (pre ++ (recBody 41 [4, 208] [0, 0, 0, 0] [0, 10, 0, 2, 1, 2, 0, 3, 0, 8, 7]
      ++ [1, 2, 3, 4, 5, 6, 7])) pre.length = .err :=
  opt_record_overrun_rejected pre _ _ [(10, [1, 2])] [0, 3, 0, 8, 7] _ rfl rfl (by decide)
    ⟨by decide, Or.inr (by decide)⟩ (by decide)

/-- at the level of `ResourceRecord::parse`: the TXT example above under the owner name `a.` -/
example (pre : Bytes) :
    RR.parse (pre ++ (Name.write [[97]] ++ (recBody 16 [0, 1] [0, 0, 0, 60] [2, 97, 98, 0, 5, 1, 2]
      ++ [3, 4, 5, 6, 7, 8, 9]))) pre.length = .err :=
  rr_rejected_of_record_rejected pre [[97]] (by decide) 16 _ _ _ _ rfl rfl
    (fun hdr => txt_record_overrun_rejected hdr _ _ [[97, 98], []] 5 [1, 2] _ rfl rfl (by decide)
      (by decide) (by decide))

/-- The verdict, value and cursor of `RData.parse` on a record do not depend on what follows the
record in the message — for every type (OPT included) and every RDATA (empty included). This is
`rdata_local` for a record given by its parts; the rejections above are instances where `post`
would have supplied the missing octets. -/
theorem record_verdict_ignores_post (pre cb tb rd post post' : Bytes) (code : Nat)
    (hcb : cb.length = 2) (htb : tb.length = 4) (hlen : rd.length < 65536) :
    RData.parse (pre ++ (recBody code cb tb rd ++ post)) pre.length
      = RData.parse (pre ++ (recBody code cb tb rd ++ post')) pre.length := by
  have hbl := C10M.recBody_length code cb tb rd hcb htb
  have key : ∀ tail, RData.parse (pre ++ (recBody code cb tb rd ++ tail)) pre.length
      = RData.parse (pre ++ recBody code cb tb rd) pre.length := by
    intro tail
    have hk : pre.length + 10 + rd.length ≤ (pre ++ recBody code cb tb rd).length := by
      simp [hbl]; omega
    have hs : slice (pre ++ recBody code cb tb rd) (pre.length + 8) (pre.length + 8 + 2)
        = .ok (beN 2 rd.length) :=
      Rfc.slice_at (a := pre ++ (beN 2 code ++ (cb ++ tb))) (m := beN 2 rd.length) (z := rd)
        (by simp [recBody, Rfc.beN_eq_octetsOf]) (by simp; omega) (by simp; omega)
    have hl : Spec.field (pre ++ recBody code cb tb rd) (pre.length + 8) 2 = some rd.length := by
      rw [Framing.field_of_slice rfl hs, deN_beN 2 rd.length (by simpa using hlen)]
    have := rdata_local hk hl tail
    rw [List.take_of_length_le (by simp [hbl]; omega)] at this
    simpa using this
  rw [key, key]

example (pre post : Bytes) :
    RData.parse (pre ++ (recBody 16 [0, 1] [0, 0, 0, 60] [2, 97, 98] ++ post)) pre.length
      = RData.parse (pre ++ (recBody 16 [0, 1] [0, 0, 0, 60] [2, 97, 98] ++ [])) pre.length :=
  record_verdict_ignores_post pre _ _ _ post [] 16 rfl rfl (by decide)
/-! ## C06-1 names inside RDATA -/

/-- a decoding read from a prefix of the message is a decoding of the message -/
theorem DecodesBack.of_take {d : Bytes} {k off : Nat} {n : Name}
    (h : DecodesBack (d.take k) off n) : DecodesBack d off n := by
  have := h.append (d.drop k)
  rwa [List.take_append_drop] at this

/-- ... in particular an RFC 1035 decoding of the message (pointers go into the message) -/
theorem Decodes.of_take {d : Bytes} {k off : Nat} {n : Name}
    (h : DecodesBack (d.take k) off n) : Decodes d off n := (DecodesBack.of_take h).toDecodes

/-- an octet of a prefix of the message is that octet of the message -/
theorem C10M.getElem?_of_take {d : Bytes} {k i : Nat} {b : UInt8} (h : (d.take k)[i]? = some b) :
    d[i]? = some b := by
  have := getElem?_append_some (e := d.drop k) h
  rwa [List.take_append_drop] at this

/-- the in-place end of a name computed on a prefix of the message is its in-place end in the
message -/
theorem InPlaceEnd.of_take {d : Bytes} {k off e : Nat} (h : InPlaceEnd (d.take k) off e) :
    InPlaceEnd d off e := by
  induction h with
  | root h0 => exact .root (C10M.getElem?_of_take h0)
  | label hb h1 h63 _ ih => exact .label (C10M.getElem?_of_take hb) h1 h63 ih
  | ptr hb hp => exact .ptr (C10M.getElem?_of_take hb) hp

/-- the typed parser returns a `flat` value only through the schema interpreter -/
theorem C10M.parseTyped_flat_inv {b : Bytes} {pos : Nat} {t : TYPE} {c : Nat} {vs : List Val} {q : Nat}
    (h : parseTyped b pos t = .ok (.flat c vs, q)) :
    ∃ ks, schemaOf c = some ks ∧ decAll b ks pos = .ok (vs, q) ∧ flatCheck c vs = true := by
  unfold parseTyped at h
  split at h
  · unfold ipseckeyParse at h
    split at h
    · cases h
    · obtain ⟨prec, _, h⟩ := Out.bind_eq_ok h
      obtain ⟨gt, _, h⟩ := Out.bind_eq_ok h
      obtain ⟨alg, _, h⟩ := Out.bind_eq_ok h
      dsimp only at h
      obtain ⟨⟨gw, q'⟩, _, h⟩ := Out.bind_eq_ok h
      obtain ⟨key, _, h⟩ := Out.bind_eq_ok h
      cases h
  · obtain ⟨s, _, h⟩ := Out.bind_eq_ok h
    split at h <;> cases h
  · obtain ⟨s, _, h⟩ := Out.bind_eq_ok h
    split at h <;> cases h
  · cases h
  · split at h
    · cases h
    · rename_i ks hs
      obtain ⟨⟨vs', q'⟩, hd, h⟩ := Out.bind_eq_ok h
      dsimp only at h
      split at h
      · rename_i hc
        cases h
        exact ⟨ks, hs, hd, hc⟩
      · cases h

/-- every RDATA value other than OPT content and the empty RDATA comes from the typed parser, run
on the message cut at the end of the RDATA (`pos + 10 + RDLENGTH` = the returned cursor) from
`pos + 10` on -/
theorem RData.parse_typed_inv {d : Bytes} {pos : Nat} {rd : RData} {p : Nat}
    (h : RData.parse d pos = .ok (rd, p)) :
    (∃ o, rd = .opt o) ∨ (∃ t, rd = .empty t) ∨
    ∃ t q, pos + 10 < p ∧ p ≤ d.length ∧ parseTyped (d.take p) (pos + 10) t = .ok (rd, q) := by
  unfold RData.parse at h
  split at h
  · cases h
  · obtain ⟨tb, _, h⟩ := Out.bind_eq_ok h
    dsimp only at h
    obtain ⟨lb, _, h⟩ := Out.bind_eq_ok h
    split at h
    · cases h
    · rename_i hfit
      split at h
      · exact Or.inl (optParse_is_opt h)
      · split at h
        · cases h; exact Or.inr (Or.inl ⟨_, rfl⟩)
        · rename_i hz
          obtain ⟨⟨rd', q⟩, hpt, h⟩ := Out.bind_eq_ok h
          cases h
          exact Or.inr (Or.inr ⟨_, q, by omega, by omega, hpt⟩)

/-- `RData.parse` returns a `flat` value only by running the schema of its type on the message cut
at the end of the RDATA (`pos + 10 + RDLENGTH`, the returned cursor), starting at `pos + 10` -/
theorem RData.parse_flat_inv {d : Bytes} {pos c : Nat} {vs : List Val} {p : Nat}
    (h : RData.parse d pos = .ok (.flat c vs, p)) :
    ∃ ks q, schemaOf c = some ks ∧ pos + 10 < p ∧ p ≤ d.length ∧
      decAll (d.take p) ks (pos + 10) = .ok (vs, q) ∧ flatCheck c vs = true := by
  rcases RData.parse_typed_inv h with ⟨o, ho⟩ | ⟨t, ht⟩ | ⟨t, q, h1, h2, hpt⟩
  · cases ho
  · cases ht
  · obtain ⟨ks, hs, hd, hc⟩ := C10M.parseTyped_flat_inv hpt
    exact ⟨ks, q, hs, h1, h2, hd, hc⟩

/-- a `name` value among the decoded fields comes from a `name` field of the schema: the fields
before it end where the name starts, and the fields after it start at the name's returned
cursor -/
theorem C10M.decAll_name_split {b : Bytes} : ∀ (ks : List FKind) {pos : Nat} {vs : List Val} {q : Nat}
    {n : Name}, decAll b ks pos = .ok (vs, q) → Val.name n ∈ vs →
    ∃ ksA cf ksB vsA vsB off e, ks = ksA ++ .name cf :: ksB ∧ vs = vsA ++ .name n :: vsB ∧
      decAll b ksA pos = .ok (vsA, off) ∧ Name.parse b off = .ok (n, e) ∧
      decAll b ksB e = .ok (vsB, q) := by
  intro ks
  induction ks with
  | nil => intro pos vs q n h hm; simp only [decAll] at h; cases h; cases hm
  | cons k ks ih =>
    intro pos vs q n h hm
    simp only [decAll] at h
    obtain ⟨⟨v, p1⟩, hv, h⟩ := Out.bind_eq_ok h
    dsimp only at h
    obtain ⟨⟨vs', q'⟩, hvs, h⟩ := Out.bind_eq_ok h
    cases h
    rcases List.mem_cons.mp hm with hm | hm
    · subst hm
      cases k with
      | name cf =>
        simp only [decField] at hv
        obtain ⟨⟨n', e⟩, hn, hv⟩ := Out.bind_eq_ok hv
        cases hv
        exact ⟨[], cf, ks, [], vs', pos, e, rfl, rfl, rfl, hn, hvs⟩
      | int w =>
        simp only [decField] at hv
        split at hv
        · cases hv
        · obtain ⟨s, _, hv⟩ := Out.bind_eq_ok hv; cases hv
      | charstr =>
        simp only [decField] at hv
        obtain ⟨⟨s, e⟩, _, hv⟩ := Out.bind_eq_ok hv; cases hv
      | rest =>
        simp only [decField] at hv
        obtain ⟨s, _, hv⟩ := Out.bind_eq_ok hv; cases hv
      | strs =>
        simp only [decField] at hv
        obtain ⟨⟨s, e⟩, _, hv⟩ := Out.bind_eq_ok hv; cases hv
      | tlvs kw lw st =>
        simp only [decField] at hv
        obtain ⟨⟨s, e⟩, _, hv⟩ := Out.bind_eq_ok hv; cases hv
    · obtain ⟨ksA, cf, ksB, vsA, vsB, off, e, h1, h2, h3, h4, h5⟩ := ih hvs hm
      refine ⟨k :: ksA, cf, ksB, v :: vsA, vsB, off, e, by simp [h1], by simp [h2], ?_, h4, h5⟩
      simp [decAll, hv, h3]

/-- C06-1. A domain name inside the RDATA of a parsed record is the RFC 1035 §4.1.4 decoding at
some offset `off` inside that RDATA, of the WHOLE message `d`: compression pointers are followed
into the message (backwards only). Everything the reader touches, also after a pointer, lies
before the end `p` of the record's RDLENGTH window (`DecodesBack (d.take p)`); the in-place part
of the name ends at `e ≤ p`, and the schema's remaining fields are read from `e` on. -/
theorem rdata_name_decodes {d : Bytes} {pos c : Nat} {vs : List Val} {p : Nat} {n : Name}
    (h : RData.parse d pos = .ok (.flat c vs, p)) (hn : Val.name n ∈ vs) :
    ∃ off e, pos + 10 ≤ off ∧ off < e ∧ e ≤ p ∧ p ≤ d.length ∧
      Decodes d off n ∧ DecodesBack (d.take p) off n ∧ Name.wireLen n ≤ 255 ∧
      InPlaceEnd d off e ∧
      ∃ ksA cf ksB vsA vsB q, schemaOf c = some (ksA ++ .name cf :: ksB) ∧
        vs = vsA ++ .name n :: vsB ∧
        decAll (d.take p) ksA (pos + 10) = .ok (vsA, off) ∧
        Name.parse (d.take p) off = .ok (n, e) ∧
        decAll (d.take p) ksB e = .ok (vsB, q) := by
  obtain ⟨ks, q, hs, hlt, hple, hd, _⟩ := RData.parse_flat_inv h
  obtain ⟨ksA, cf, ksB, vsA, vsB, off, e, h1, h2, h3, h4, h5⟩ := C10M.decAll_name_split ks hd hn
  have hlen : (d.take p).length = p := by simp; omega
  have a1 := (Cost.decAll_cost ksA h3).1
  have a2 := (Cost.decAll_cost ksB h5).1
  have a3 := Name.parse_pos_le h4
  have a4 := Cost.decAll_end_le ksB (by omega) h5
  obtain ⟨hb, hw⟩ := name_parse_sound_back _ _ _ _ h4
  have hI : InPlaceEnd d off e := InPlaceEnd.of_take (Name.parse_cursor h4)
  refine ⟨off, e, a1, a3.1, by omega, hple, Decodes.of_take hb, hb, hw, hI,
    ksA, cf, ksB, vsA, vsB, q, h1 ▸ hs, h2, h3, h4, h5⟩

/-- C06-1 in short: a name inside a parsed RDATA is the RFC 1035 decoding, in the whole message,
at an offset inside that RDATA. -/
theorem rdata_name_decodes_at {d : Bytes} {pos c : Nat} {vs : List Val} {p : Nat} {n : Name}
    (h : RData.parse d pos = .ok (.flat c vs, p)) (hn : Val.name n ∈ vs) :
    ∃ off, pos + 10 ≤ off ∧ off < p ∧ Decodes d off n := by
  obtain ⟨off, e, h1, h2, h3, _, h5, _⟩ := rdata_name_decodes h hn
  exact ⟨off, h1, by omega, h5⟩

/-- The same for the one name outside the schema table: the gateway of an IPSECKEY record
(RFC 4025 §2.1, gateway type 3) is the decoding at the 4th octet of the RDATA, read inside the
RDLENGTH window. -/
theorem ipseckey_gateway_decodes {d : Bytes} {pos prec alg : Nat} {n : Name} {key : Bytes} {p : Nat}
    (h : RData.parse d pos = .ok (.ipseckey prec alg (.domain n) key, p)) :
    pos + 13 < p ∧ p ≤ d.length ∧ Decodes d (pos + 13) n ∧ DecodesBack (d.take p) (pos + 13) n ∧
      ∃ e, e ≤ p ∧ InPlaceEnd d (pos + 13) e ∧ key = (d.take p).drop e := by
  rcases RData.parse_typed_inv h with ⟨o, ho⟩ | ⟨t, ht⟩ | ⟨t, q, h1, h2, hpt⟩
  · cases ho
  · cases ht
  · have hlen : (d.take p).length = p := by simp; omega
    have hk : ∃ e, Name.parse (d.take p) (pos + 10 + 3) = .ok (n, e) ∧
        slice (d.take p) e (d.take p).length = .ok key := by
      unfold parseTyped at hpt
      split at hpt
      · unfold ipseckeyParse at hpt
        split at hpt
        · cases hpt
        · obtain ⟨pr, _, hpt⟩ := Out.bind_eq_ok hpt
          obtain ⟨gt, _, hpt⟩ := Out.bind_eq_ok hpt
          obtain ⟨al, _, hpt⟩ := Out.bind_eq_ok hpt
          dsimp only at hpt
          obtain ⟨⟨gw, q'⟩, hg, hpt⟩ := Out.bind_eq_ok hpt
          obtain ⟨key', hkey, hpt⟩ := Out.bind_eq_ok hpt
          cases hpt
          split at hg
          · cases hg
          · split at hg
            · cases hg
            · obtain ⟨s, _, hg⟩ := Out.bind_eq_ok hg; cases hg
          · split at hg
            · cases hg
            · obtain ⟨s, _, hg⟩ := Out.bind_eq_ok hg; cases hg
          · obtain ⟨⟨n', e⟩, hn', hg⟩ := Out.bind_eq_ok hg
            cases hg
            exact ⟨_, hn', hkey⟩
          · cases hg
      · obtain ⟨s, _, hpt⟩ := Out.bind_eq_ok hpt
        split at hpt <;> cases hpt
      · obtain ⟨s, _, hpt⟩ := Out.bind_eq_ok hpt
        split at hpt <;> cases hpt
      · cases hpt
      · split at hpt
        · cases hpt
        · obtain ⟨⟨vs', q'⟩, _, hpt⟩ := Out.bind_eq_ok hpt
          dsimp only at hpt
          split at hpt <;> cases hpt
    obtain ⟨e, hn, hkey⟩ := hk
    have he := Name.parse_pos_le hn
    obtain ⟨hb, _⟩ := name_parse_sound_back _ _ _ _ hn
    obtain ⟨_, _, hkv⟩ := Rfc.slice_val hkey
    refine ⟨by omega, h2, Decodes.of_take hb, hb, e, by omega,
      InPlaceEnd.of_take (Name.parse_cursor hn), ?_⟩
    rw [hkv, List.take_of_length_le (by simp)]

/-! the hypotheses are satisfiable: a response with a compressed name inside an MX RDATA -/

/-- header (QDCOUNT 1, ANCOUNT 1), the question `www. MX IN` at 12, and the answer
`www. MX IN 60 10 a.www.` whose owner is a pointer to 12 (at 21), TYPE field at 23, RDLENGTH 6,
RDATA at 33: preference 10, then at 35 the label `a` followed by a pointer to 12 -/
def exMxMsg : Bytes :=
  [0x12, 0x34, 0x81, 0x80, 0, 1, 0, 1, 0, 0, 0, 0,
   3, 119, 119, 119, 0, 0, 15, 0, 1,
   0xC0, 12, 0, 15, 0, 1, 0, 0, 0, 60, 0, 6,
   0, 10, 1, 97, 0xC0, 12]

/-- the exchange name of `exMxMsg`, read at 35: `a` then the pointer to `www` at 12; the cursor
stops after the pointer -/
theorem exMxMsg_name35 : Name.parse exMxMsg 35 = .ok ([[97], [119, 119, 119]], 39) :=
  (name_parse_eq_iff_back _ _ _ _).2
    ⟨DecodesBack.label (b := 1) rfl (by decide) (by decide) rfl (by decide)
      (DecodesBack.ptr (b := 0xC0) (b2 := 12) rfl (by decide) rfl (by decide)
        (DecodesBack.label (b := 3) rfl (by decide) (by decide) rfl (by decide)
          (DecodesBack.root rfl))),
     by decide,
     InPlaceEnd.label (b := 1) rfl (by decide) (by decide)
       (InPlaceEnd.ptr (b := 0xC0) rfl (by decide))⟩

/-- the answer's RDATA of `exMxMsg` as `RData::parse` returns it -/
theorem exMxMsg_rdata : RData.parse exMxMsg 23
    = .ok (.flat 15 [.int 10, .name [[97], [119, 119, 119]]], 39) := by
  have hshape : exMxMsg = exMxMsg.take 23 ++ (beN 2 15 ++ ([0, 1] ++ ([0, 0, 0, 60] ++
      (beN 2 ([0, 10, 1, 97, 0xC0, 12] : Bytes).length ++
        (([0, 10, 1, 97, 0xC0, 12] : Bytes) ++ []))))) := by decide
  have h := C10M.rdataParse_body (exMxMsg.take 23) [0, 1] [0, 0, 0, 60] [0, 10, 1, 97, 0xC0, 12] [] 15
    rfl rfl (by decide) (by decide) (by decide) (by decide)
  rw [← hshape] at h
  have hb : (exMxMsg.take 23 ++ (beN 2 15 ++ ([0, 1] ++ ([0, 0, 0, 60] ++
      beN 2 ([0, 10, 1, 97, 0xC0, 12] : Bytes).length)))) ++ [0, 10, 1, 97, 0xC0, 12] = exMxMsg := by
    decide
  have hl : (exMxMsg.take 23 ++ (beN 2 15 ++ ([0, 1] ++ ([0, 0, 0, 60] ++
      beN 2 ([0, 10, 1, 97, 0xC0, 12] : Bytes).length)))).length = 33 := by decide
  have hl0 : (exMxMsg.take 23).length = 23 := by decide
  rw [hb, hl, hl0] at h
  have e : TYPE.ofCode 15 = .MX := rfl
  have hp := Rfc.parseTyped_flat exMxMsg 33 15 _ rfl
  have hi : deN ((exMxMsg.drop 33).take 2) = 10 := by decide
  rw [h, hp]
  simp only [decAll]
  rw [C10M.decField_int_ok (by decide), hi]
  simp only [Out.bind_ok, decField, Nat.reduceAdd, exMxMsg_name35, flatCheck, Out.pure_eq,
    List.length_cons, List.length_nil, if_true]

/-- `rdata_name_decodes` applies: the exchange name is the RFC decoding at an offset of the RDATA
(here 35), through the pointer into the question section -/
example : ∃ off, 33 ≤ off ∧ off < 39 ∧ Decodes exMxMsg off [[97], [119, 119, 119]] :=
  rdata_name_decodes_at exMxMsg_rdata (by simp)

/-- The window is a real limit for embedded names: an NS record (one <domain-name>) whose first
label announces more octets than the RDLENGTH window holds is an error, although the message
continues after the record (the label would be complete in `part ++ post`). -/
theorem ns_label_overrun_rejected (pre cb tb : Bytes) (b : UInt8) (part post : Bytes)
    (hcb : cb.length = 2) (htb : tb.length = 4) (h1 : 1 ≤ b.toNat) (h63 : b.toNat ≤ 63)
    (hover : part.length < b.toNat) :
    RData.parse (pre ++ (recBody 2 cb tb (b :: part) ++ post)) pre.length = .err := by
  apply record_rejected_of_rdata_rejected pre cb tb _ post 2 hcb htb (by decide) (by decide)
    (by simp) (by simp; omega)
  intro hdr
  have hp := Rfc.parseTyped_flat (hdr ++ b :: part) hdr.length 2 _ rfl
  have hn := name_label_overrun_is_error (hdr ++ b :: part) hdr.length b (by simp) h1 h63
    (by simp; omega)
  rw [hp]
  simp only [decAll, decField, hn, Out.bind_err]

/-- NS with RDLENGTH 2 holding `3 a`; `b c 0` follow in the message -/
example (pre : Bytes) :
    RData.parse (pre ++ (recBody 2 [0, 1] [0, 0, 0, 60] [3, 97] ++ [98, 99, 0])) pre.length = .err :=
  ns_label_overrun_rejected pre _ _ 3 [97] _ rfl rfl (by decide) (by decide) (by decide)
/-! ## C06-2 cycles -/

/-- One step of an RFC 1035 §4.1.4 reader that is not the final one: from the length octet of a
label (1..63) to the octet after the label, or from the first octet of a compression pointer to
the pointer's target. A root octet, a reserved label type and a position outside the message have
no step. -/
inductive NameStep (d : Bytes) : Nat → Nat → Prop where
  | label {off} {b : UInt8} : d[off]? = some b → 1 ≤ b.toNat → b.toNat ≤ 63 →
      NameStep d off (off + 1 + b.toNat)
  | ptr {off} {b b2 : UInt8} : d[off]? = some b → b.toNat &&& 0xC0 = 0xC0 → d[off+1]? = some b2 →
      NameStep d off ((b.toNat &&& 0x3F) * 256 + b2.toNat)

/-- one or more reader steps -/
inductive NamePath (d : Bytes) : Nat → Nat → Prop where
  | one {a b} : NameStep d a b → NamePath d a b
  | cons {a b c} : NameStep d a b → NamePath d b c → NamePath d a c

/-- the reader is deterministic: a position has at most one successor -/
theorem NameStep.det {d : Bytes} {a b c : Nat} (h1 : NameStep d a b) (h2 : NameStep d a c) :
    b = c := by
  cases h1 with
  | label hb _ h63 =>
    cases h2 with
    | label hb' _ _ => rw [hb] at hb'; cases hb'; rfl
    | ptr hb' hp _ => rw [hb] at hb'; cases hb'; exact absurd hp (not_ptr_of_le63 h63)
  | ptr hb hp hb2 =>
    cases h2 with
    | label hb' _ h63 => rw [hb] at hb'; cases hb'; exact absurd hp (not_ptr_of_le63 h63)
    | ptr hb' _ hb2' => rw [hb] at hb'; cases hb'; rw [hb2] at hb2'; cases hb2'; rfl

/-- a path extended by one step at its end -/
theorem NamePath.snoc {d : Bytes} {a b c : Nat} (h : NamePath d a b) (s : NameStep d b c) :
    NamePath d a c := by
  induction h with
  | one s' => exact .cons s' (.one s)
  | cons s' _ ih => exact .cons s' (ih s)

/-- paths compose -/
theorem NamePath.trans {d : Bytes} {a b c : Nat} (h : NamePath d a b) (h' : NamePath d b c) :
    NamePath d a c := by
  induction h with
  | one s => exact .cons s h'
  | cons s _ ih => exact .cons s (ih h')

/-- a cycle through `a` is a cycle through the successor of `a` -/
theorem NamePath.rotate {d : Bytes} {a b : Nat} (h : NamePath d a a) (s : NameStep d a b) :
    NamePath d b b := by
  cases h with
  | one s' => have := NameStep.det s s'; subst this; exact .one s
  | cons s' rest => have := NameStep.det s s'; subst this; exact rest.snoc s

/-- A decoding that does not stop at `a` continues at the successor of `a`: every derivation of
`Decodes d a n` whose position has a reader step to `b` contains a derivation from `b`. -/
theorem Decodes.step {d : Bytes} {a b : Nat} {n : Name} (h : Decodes d a n) (s : NameStep d a b) :
    ∃ m, Decodes d b m ∧ (m = n ∨ ∃ l, n = l :: m) := by
  cases h with
  | root h0 =>
    cases s with
    | label hb h1 _ => rw [h0] at hb; cases hb; simp at h1
    | ptr hb hp _ => rw [h0] at hb; cases hb; simp at hp
  | label hb h1 h63 hl hfit hrest =>
    exact ⟨_, (NameStep.det s (NameStep.label hb h1 h63)) ▸ hrest, Or.inr ⟨_, rfl⟩⟩
  | ptr hb hp hb2 hrest =>
    exact ⟨_, (NameStep.det s (NameStep.ptr hb hp hb2)) ▸ hrest, Or.inl rfl⟩

/-- `Decodes` derivations are finite: a position from which the reader comes back to itself after
one or more steps has no derivation (each rule of `Decodes` other than `root` has exactly one
premise, at the successor position; a derivation at a position on a cycle would contain a strictly
smaller derivation at the same position). -/
theorem Decodes.no_cycle {d : Bytes} {off : Nat} {n : Name} (h : Decodes d off n) :
    ¬ NamePath d off off := by
  induction h with
  | @root off h0 =>
    intro hp
    have hno : ∀ b, ¬ NameStep d off b := by
      intro b s
      cases s with
      | label hb h1 _ => rw [h0] at hb; cases hb; simp at h1
      | ptr hb hp _ => rw [h0] at hb; cases hb; simp at hp
    cases hp with
    | one s => exact hno _ s
    | cons s _ => exact hno _ s
  | label hb h1 h63 _ _ _ ih => exact fun hp => ih (hp.rotate (NameStep.label hb h1 h63))
  | ptr hb hp hb2 _ ih => exact fun hc => ih (hc.rotate (NameStep.ptr hb hp hb2))

/-- following reader steps preserves decodability -/
theorem Decodes.along {d : Bytes} {a b : Nat} (p : NamePath d a b) :
    ∀ {n : Name}, Decodes d a n → ∃ m, Decodes d b m := by
  induction p with
  | one s => intro n h; obtain ⟨m, hm, _⟩ := h.step s; exact ⟨m, hm⟩
  | cons s _ ih => intro n h; obtain ⟨m, hm, _⟩ := h.step s; exact ih hm

/-- C06-2. A position on a pointer/label cycle has no RFC 1035 decoding. -/
theorem name_on_cycle_no_decoding (d : Bytes) (pos : Nat) (h : NamePath d pos pos) :
    ¬ ∃ n, Decodes d pos n := fun ⟨_, hn⟩ => hn.no_cycle h

/-- ... and neither has a position from which the reader runs into a cycle. -/
theorem name_into_cycle_no_decoding (d : Bytes) (pos q : Nat) (hq : NamePath d pos q)
    (hc : NamePath d q q) : ¬ ∃ n, Decodes d pos n := by
  intro ⟨n, hn⟩
  obtain ⟨m, hm⟩ := Decodes.along hq hn
  exact hm.no_cycle hc

/-- on the parser: a name that starts on a cycle, or runs into one, is `Err` (this discharges the
hypothesis of `name_cycle_is_err` for every cycle, not only for `exCycle`) -/
theorem name_on_cycle_is_err (d : Bytes) (pos : Nat) (h : NamePath d pos pos) :
    Name.parse d pos = .err :=
  name_cycle_is_err d pos (name_on_cycle_no_decoding d pos h)

/-- the same for a name that runs into a cycle -/
theorem name_into_cycle_is_err (d : Bytes) (pos q : Nat) (hq : NamePath d pos q)
    (hc : NamePath d q q) : Name.parse d pos = .err :=
  name_cycle_is_err d pos (name_into_cycle_no_decoding d pos q hq hc)

/-- (i) a pointer that points to itself -/
theorem name_self_pointer_no_decoding (d : Bytes) (pos : Nat) (b b2 : UInt8)
    (hb : d[pos]? = some b) (hptr : b.toNat &&& 0xC0 = 0xC0) (hb2 : d[pos+1]? = some b2)
    (hself : (b.toNat &&& 0x3F) * 256 + b2.toNat = pos) : ¬ ∃ n, Decodes d pos n := by
  apply name_on_cycle_no_decoding
  have s := NameStep.ptr hb hptr hb2
  rw [hself] at s
  exact .one s

/-- (ii) two pointers that point at each other: neither position has a decoding -/
theorem name_mutual_pointers_no_decoding (d : Bytes) (p q : Nat) (a a2 c c2 : UInt8)
    (ha : d[p]? = some a) (hpa : a.toNat &&& 0xC0 = 0xC0) (ha2 : d[p+1]? = some a2)
    (hpq : (a.toNat &&& 0x3F) * 256 + a2.toNat = q)
    (hc : d[q]? = some c) (hpc : c.toNat &&& 0xC0 = 0xC0) (hc2 : d[q+1]? = some c2)
    (hqp : (c.toNat &&& 0x3F) * 256 + c2.toNat = p) :
    (¬ ∃ n, Decodes d p n) ∧ ¬ ∃ n, Decodes d q n := by
  have s1 := NameStep.ptr ha hpa ha2
  have s2 := NameStep.ptr hc hpc hc2
  rw [hpq] at s1
  rw [hqp] at s2
  exact ⟨name_on_cycle_no_decoding d p (.cons s1 (.one s2)),
    name_on_cycle_no_decoding d q (.cons s2 (.one s1))⟩

/-- (iii) a label followed by a pointer back to that label: neither the label nor the pointer has
a decoding (the name would be the label repeated for ever) -/
theorem name_label_pointer_back_no_decoding (d : Bytes) (pos : Nat) (b c c2 : UInt8)
    (hb : d[pos]? = some b) (h1 : 1 ≤ b.toNat) (h63 : b.toNat ≤ 63)
    (hc : d[pos + 1 + b.toNat]? = some c) (hpc : c.toNat &&& 0xC0 = 0xC0)
    (hc2 : d[pos + 1 + b.toNat + 1]? = some c2)
    (hback : (c.toNat &&& 0x3F) * 256 + c2.toNat = pos) :
    (¬ ∃ n, Decodes d pos n) ∧ ¬ ∃ n, Decodes d (pos + 1 + b.toNat) n := by
  have s1 := NameStep.label hb h1 h63
  have s2 := NameStep.ptr hc hpc hc2
  rw [hback] at s2
  exact ⟨name_on_cycle_no_decoding d pos (.cons s1 (.one s2)),
    name_on_cycle_no_decoding d _ (.cons s2 (.one s1))⟩

/-- conversely an accepted name lies on no cycle and runs into none -/
theorem name_accepted_no_cycle (d : Bytes) (pos : Nat) (n : Name) (p : Nat)
    (h : Name.parse d pos = .ok (n, p)) :
    ¬ NamePath d pos pos ∧ ∀ q, NamePath d pos q → ¬ NamePath d q q :=
  ⟨(name_parse_sound d pos n p h).no_cycle,
   fun q hq hc => name_into_cycle_no_decoding d pos q hq hc ⟨n, name_parse_sound d pos n p h⟩⟩

/-! concrete buffers -/

/-- (i) `[0xC0, 0]` at 0 -/
example : (¬ ∃ n, Decodes [0xC0, 0] 0 n) ∧ Name.parse [0xC0, 0] 0 = .err :=
  have h := name_self_pointer_no_decoding [0xC0, 0] 0 0xC0 0 rfl (by decide) rfl (by decide)
  ⟨h, name_cycle_is_err _ _ h⟩

/-- (ii) a pointer at 0 to 2 and a pointer at 2 to 0 -/
example : (¬ ∃ n, Decodes [0xC0, 2, 0xC0, 0] 0 n) ∧ (¬ ∃ n, Decodes [0xC0, 2, 0xC0, 0] 2 n) :=
  name_mutual_pointers_no_decoding [0xC0, 2, 0xC0, 0] 0 2 0xC0 2 0xC0 0 rfl (by decide) rfl
    (by decide) rfl (by decide) rfl (by decide)

example : Name.parse [0xC0, 2, 0xC0, 0] 2 = .err :=
  name_cycle_is_err _ _ (name_mutual_pointers_no_decoding [0xC0, 2, 0xC0, 0] 0 2 0xC0 2 0xC0 0 rfl
    (by decide) rfl (by decide) rfl (by decide) rfl (by decide)).2

/-- (iii) the label `a` at 0, then at 2 a pointer back to 0: `a.a.a. …` -/
example : (¬ ∃ n, Decodes [1, 97, 0xC0, 0] 0 n) ∧ (¬ ∃ n, Decodes [1, 97, 0xC0, 0] 2 n) :=
  name_label_pointer_back_no_decoding [1, 97, 0xC0, 0] 0 1 0xC0 0 rfl (by decide) (by decide) rfl
    (by decide) rfl (by decide)

example : Name.parse [1, 97, 0xC0, 0] 0 = .err ∧ Name.parse [1, 97, 0xC0, 0] 2 = .err :=
  have h := name_label_pointer_back_no_decoding [1, 97, 0xC0, 0] 0 1 0xC0 0 rfl (by decide)
    (by decide) rfl (by decide) rfl (by decide)
  ⟨name_cycle_is_err _ _ h.1, name_cycle_is_err _ _ h.2⟩

/-- a name that is not itself on the cycle but runs into it: label `b` at 0, then the self-pointer
at 2 -/
example : ¬ ∃ n, Decodes [1, 98, 0xC0, 2] 0 n :=
  name_into_cycle_no_decoding [1, 98, 0xC0, 2] 0 2
    (.one (NameStep.label (b := 1) rfl (by decide) (by decide)))
    (.one (NameStep.ptr (b := 0xC0) (b2 := 2) rfl (by decide) rfl))

/-- a three-element cycle mixing labels and pointers: 0 →(label) 2 →(pointer) 5 →(pointer) 0 -/
example : ¬ ∃ n, Decodes [1, 97, 0xC0, 5, 0, 0xC0, 0] 5 n :=
  name_on_cycle_no_decoding _ 5
    (.cons (NameStep.ptr (b := 0xC0) (b2 := 0) rfl (by decide) rfl)
      (.cons (NameStep.label (b := 1) rfl (by decide) (by decide))
        (.one (NameStep.ptr (b := 0xC0) (b2 := 5) rfl (by decide) rfl))))

end Dns
