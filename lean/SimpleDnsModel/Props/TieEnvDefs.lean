/- helpers shared by the structural-tie modules (no theorem about the sources here) -/
import SimpleDnsModel.Basic
namespace Dns.TieEnv

/-- a comparison operator by its Rust spelling -/
def cmpOf (op : String) (a b : Nat) : Bool :=
  if op = ">" then a > b else if op = ">=" then a ≥ b else if op = "<" then a < b else a ≤ b

theorem cmpOf_ge (a b : Nat) : cmpOf ">=" a b = decide (a ≥ b) := by simp [cmpOf]
theorem cmpOf_gt (a b : Nat) : cmpOf ">" a b = decide (a > b) := by simp [cmpOf]

end Dns.TieEnv
